/-
FggsModel.Newton — model of `newton` (sum_product.py): the semiring Newton iteration of Esparza, Kiefer and
Luttenberger with the two `maximum_` clamps,

    for k in range(kmax):
        F0 = max(F(x0), x0);  stop = F0 ≈ x0
        dX = multi_solve(J(x0), F0 - x0)        # least solution of  d = J(x0)·d + (F0 ⊖ x0)
        x0 = max(x0 + dX, F0)
        if stop: break
    else: warn

and the driver loop `sumProductsN` that uses it for the components `Pipe.sumProducts` leaves unmodelled.  The linear
system is the flattened one of `Pipe.linearSystem` (Jacobian blocks `jacLabel` at the current iterate), solved by the
elimination loop of `Solve` — `multi_solve` returns the same least solution (C09c).  `sub` and `maxOp` are the
semiring's `sub` and `maximum` (Boolean: `a ∧ ¬b`, `∨`; Viterbi: `a`, `max`; Real: `relu(a − b)`, `max`).
-/
import FggsModel.Pipeline

namespace Fggs.Nw
open Sem Pipe

variable {K : Type}

/-- cellwise binary operation on the component's nonterminals (absent = zero tensor) -/
def zipComp (S : SR K) (G : Grammar K) (comp : List Nat) (op : K → K → K) (a b : Val K) : Val K :=
  (List.range G.nts.length).map (fun X =>
    if comp.contains X then some (List.zipWith op (cellsOf S G a X) (cellsOf S G b X)) else none)

/-- the Jacobian blocks of the component at `y` (inputs `x`), flattened like `Pipe.linearSystem` -/
def jacSystem (S : SR K) (G : Grammar K) (x : Val K) (comp : List Nat) (y : Val K) (rhs : Val K) : List (List K) × List K :=
  let v := overlay G.nts.length x y comp
  let j0 := comp.flatMap (fun X => comp.map (fun Y => ((X, Y), jacLabel S G v X (G.T + Y))))
  let f0 := comp.map (fun X => (X, some (cellsOf S G rhs X)))
  linearSystem S G comp f0 j0

def unflatten (G : Grammar K) (comp : List Nat) (sol : List K) : Val K :=
  let cells := compCells G comp
  (List.range G.nts.length).map (fun X =>
    if comp.contains X then some (((cells.zip sol).filter (fun p => p.1.1 == X)).map (·.2)) else none)

/-- one Newton step; returns the next iterate and `stop` -/
def newtonStep [BEq K] (S : SR K) (star : K → K) (sub maxOp : K → K → K) (G : Grammar K) (x : Val K) (comp : List Nat)
    (x0 : Val K) : Val K × Bool :=
  let f0 := zipComp S G comp maxOp (compF S G x comp x0) x0
  let stop := valEqOn S G comp f0 x0
  let (a, b) := jacSystem S G x comp x0 (zipComp S G comp sub f0 x0)
  let dX := unflatten G comp (Sv.solveLoop S star a b)
  let x1 := zipComp S G comp maxOp (zipComp S G comp S.add x0 dX) f0
  (x1, stop)

/-- `newton`: at most `kmax` steps; the warning is issued when the loop was not left through `stop` -/
def newtonGo [BEq K] (S : SR K) (star : K → K) (sub maxOp : K → K → K) (G : Grammar K) (x : Val K) (comp : List Nat) :
    Nat → Val K → Val K × Bool
  | 0, x0 => (x0, true)
  | fuel+1, x0 =>
    let (x1, stop) := newtonStep S star sub maxOp G x comp x0
    if stop then (x1, false) else newtonGo S star sub maxOp G x comp fuel x1

def newton [BEq K] (S : SR K) (star : K → K) (sub maxOp : K → K → K) (G : Grammar K) (x : Val K) (comp : List Nat)
    (kmax : Nat) : Val K × Bool :=
  newtonGo S star sub maxOp G x comp kmax (List.replicate G.nts.length none)

/-- one component, Newton included -/
def solveCompN [BEq K] (S : SR K) (star : K → K) (sub maxOp : K → K → K) (G : Grammar K) (m : Method) (kmax : Nat)
    (o : Outcome K) (comp : List Nat) : Except String (Outcome K) :=
  match compMethod m comp (maxRhs G comp) with
  | .newton =>
    let (y, w) := newton S star sub maxOp G o.value comp kmax
    pure { o with value := overlay G.nts.length o.value y comp, warned := o.warned || w }
  | _ => solveComp S star G m kmax o comp

/-- `sum_products(fgg, method=m, kmax=kmax)`, every method modelled -/
def sumProductsN [BEq K] (S : SR K) (star : K → K) (sub maxOp : K → K → K) (G : Grammar K) (m : Method) (kmax : Nat) :
    Except String (Outcome K) :=
  (sccOrder G).foldlM (solveCompN S star sub maxOp G m kmax) { value := zeroVal G }

/-! ### protocol -/

def handle : List String → Option (Except String String)
  | "P.sumProductsN" :: sr :: rest => some do
      match sr with
      | "viterbi" =>
        let (G, m, kmax) ← Tok.run (do let g ← parseGrammar Tok.ext; let m ← parseMethod; let k ← Tok.nat; pure (g, m, k)) rest
        pure (showOutcome toString (sumProductsN vitSR Impl.vitStar Impl.vitSub Impl.vitAdd G m kmax))
      | "bool" =>
        let (G, m, kmax) ← Tok.run (do let g ← parseGrammar pBool; let m ← parseMethod; let k ← Tok.nat; pure (g, m, k)) rest
        pure (showOutcome showBool (sumProductsN boolSR (fun _ => true) (fun a b => a && !b) (· || ·) G m kmax))
      | _ => throw "bad semiring"
  | "P.sumProductsNTol" :: rest => some do
      -- the Real semiring, every method (Newton included), with the stopping test of `MultiTensor.allclose(other, tol)` for tol > 0
      -- (every cell within `tol` absolutely; equal infinities are close) in place of the exact comparison; exact rational iterates
      let (G, m, kmax, tol) ← Tok.run (do
        let g ← parseGrammar Tok.ext; let m ← parseMethod; let k ← Tok.nat; let t ← Tok.rat; pure (g, m, k, t)) rest
      let close : Ext → Ext → Bool := fun a b =>
        match a, b with
        | Ext.fin p, Ext.fin q => decide ((if p ≤ q then q - p else p - q) ≤ tol)
        | Ext.nan, _ => false
        | _, Ext.nan => false
        | a, b => a == b
      pure (showOutcome toString (@sumProductsN Ext ⟨close⟩ realSR Impl.realStar (Impl.realSub 0) Ext.maximum G m kmax))
  | _ => none

end Fggs.Nw
