/-
FggsModel.Heap — the aliasing discipline of in-place operations (C18): a heap of storages, tensors as
references to a storage, `clone` allocating a fresh storage, in-place operations writing only the
storage their destination refers to, `copy_` either overwriting its own storage or re-binding to a
fresh copy of the source — never writing the source.
Values are `Option Ext`: `none` marks the result of a transcendental function on a non-special value
(not compared by the harness).
-/
import FggsModel.Basic

namespace Fggs.Hp

abbrev Cell := Option Ext
structure Heap where
  cells : List (List Cell)        -- storage id ↦ contents
deriving Repr

structure Ref where
  sid : Nat
deriving Repr

inductive Op where
  | neg | abs | relu | log | log1p | nanToNum | mul2 | div2 | copySame | copyOther
deriving Repr, DecidableEq

def logE : Ext → Cell
  | .nan => some .nan
  | .pinf => some .pinf
  | .ninf => some .nan
  | .fin a => if a = 0 then some .ninf else if a = 1 then some (.fin 0) else if a < 0 then some .nan else none

def log1pE : Ext → Cell
  | .nan => some .nan
  | .pinf => some .pinf
  | .ninf => some .nan
  | .fin a => if a = 0 then some (.fin 0) else if a = -1 then some .ninf else if a < -1 then some .nan else none

/-- the elementwise function of an in-place operation -/
def fn : Op → Ext → Cell
  | .neg => fun x => some x.neg
  | .abs => fun x => some x.abs
  | .relu => fun x => some x.relu
  | .log => logE
  | .log1p => log1pE
  | .nanToNum => fun x => some (Ext.nanToNum 0 (.fin 0) (some .pinf) (some .ninf) x)
  | .mul2 => fun x => some (x.mul (.fin 2))
  | .div2 => fun x => some (x.div (.fin 2))
  | _ => fun x => some x

def alloc (h : Heap) (data : List Cell) : Heap × Ref := (⟨h.cells ++ [data]⟩, ⟨h.cells.length⟩)

def read (h : Heap) (r : Ref) : List Cell := h.cells[r.sid]?.getD []

def write (h : Heap) (r : Ref) (data : List Cell) : Heap := ⟨h.cells.set r.sid data⟩

/-- `clone()`: a reference to a freshly allocated copy -/
def clone (h : Heap) (r : Ref) : Heap × Ref := alloc h (read h r)

/-- one in-place operation on `r`; `other` is the argument of `copy_` -/
def step (other : Ref) (st : Heap × Ref) (op : Op) : Heap × Ref :=
  let (h, r) := st
  match op with
  | .copySame =>
    -- `copy_(src)`: reuse own storage when the sizes agree, else re-bind to a clone of src
    let src := read h other
    if (read h r).length == src.length then (write h r src, r) else alloc h src
  | .copyOther =>
    let src := (read h other).map (fun c => c.bind (fun x => some (x.add (.fin 1))))
    if (read h r).length == src.length then (write h r src, r) else alloc h src
  | op => (write h r ((read h r).map (fun c => c.bind (fn op))), r)

/-- clone `src`, then apply the operations to the clone -/
def run (h : Heap) (src other : Ref) (ops : List Op) : Heap × Ref :=
  ops.foldl (step other) (clone h src)

def parseOp : Parser Op := do
  let t ← Tok.next
  match t with
  | "neg_" => pure .neg | "abs_" => pure .abs | "relu_" => pure .relu | "log_" => pure .log
  | "log1p_" => pure .log1p | "nan_to_num_" => pure .nanToNum | "imul2" => pure .mul2 | "idiv2" => pure .div2
  | "copy_same" => pure .copySame | "copy_other" => pure .copyOther
  | _ => throw s!"bad op {t}"

def handle : List String → Option (Except String String)
  | "C18.run" :: rest => some do
      let (src, other, ops) ← Tok.run (do
        let s ← Tok.list Tok.ext; let o ← Tok.list Tok.ext; let ops ← Tok.list parseOp; pure (s, o, ops)) rest
      let h0 : Heap := ⟨[src.map some, other.map some]⟩
      let (h, r) := run h0 ⟨0⟩ ⟨1⟩ ops
      let unchanged := (h.cells[0]? == h0.cells[0]?) && (h.cells[1]? == h0.cells[1]?)
      pure s!"{showBool unchanged} {showList (showOpt toString) (read h r)}"
  | _ => none

end Fggs.Hp
