/-
FggsModel.Graph — structural model of fggs/fggs.py (Node, Edge, EdgeLabel, Graph, HRGRule, HRG)
and of the public mutators (C16), written from the source after the `fix:` commits listed in
known_findings.json.  Python dicts are insertion-ordered association lists; `==` on dicts is
order-insensitive and is modelled as such.
-/
import FggsModel.Basic

namespace Fggs.G

/-- node/edge ids: explicit strings (coded as naturals by the harness) or implicit (`id(obj)`,
coded by order of first appearance; unique among live objects) -/
inductive Id where
  | expl (s : Nat)
  | impl (n : Nat)
deriving DecidableEq, Repr, Inhabited

structure ELabel where
  name : Nat
  type : List Nat       -- node label names
  terminal : Bool
deriving DecidableEq, Repr, Inhabited

structure Node where
  label : Nat
  id : Id
deriving DecidableEq, Repr, Inhabited

structure Edge where
  label : ELabel
  nodes : List Node
  id : Id
deriving DecidableEq, Repr, Inhabited

structure Graph where
  nodes : List Node := []            -- `_nodes` in insertion order (keyed by id)
  edges : List Edge := []            -- `_edges`
  ext : List Node := []
  nodeLabels : List Nat := []        -- `_node_labels` (names; a NodeLabel is its name)
  edgeLabels : List ELabel := []     -- `_edge_labels`, one per name
deriving DecidableEq, Repr, Inhabited

inductive Err where
  | valueError | typeError | exception | keyError | attributeError
deriving DecidableEq, Repr

def Err.toString : Err → String
  | .valueError => "ValueError" | .typeError => "TypeError" | .exception => "Exception"
  | .keyError => "KeyError" | .attributeError => "AttributeError"

namespace Graph

def nodeById (g : Graph) (i : Id) : Option Node := g.nodes.find? (·.id = i)
def edgeById (g : Graph) (i : Id) : Option Edge := g.edges.find? (·.id = i)
def type (g : Graph) : List Nat := g.ext.map (·.label)

def addNodeLabel (g : Graph) (l : Nat) : Graph :=
  if g.nodeLabels.contains l then g else { g with nodeLabels := g.nodeLabels ++ [l] }

/-- LabelingMixin.add_edge_label -/
def addEdgeLabel (g : Graph) (el : ELabel) : Except Err Graph :=
  match g.edgeLabels.find? (·.name = el.name) with
  | some old => if old = el then .ok g else .error .valueError
  | none => .ok { g with edgeLabels := g.edgeLabels ++ [el] }

def addNode (g : Graph) (n : Node) : Except Err Graph :=
  if (g.nodeById n.id).isSome then .error .valueError
  else .ok { (g.addNodeLabel n.label) with nodes := g.nodes ++ [n] }

def removeNode (g : Graph) (n : Node) : Except Err Graph :=
  if g.nodeById n.id ≠ some n then .error .valueError
  else if g.edges.any (fun e => e.nodes.contains n) then .error .valueError
  else if g.ext.contains n then .error .valueError
  else .ok { g with nodes := g.nodes.filter (·.id ≠ n.id) }

/-- `seen = dict(self._nodes); for node in nodes: if seen.setdefault(node.id, node) != node: raise` -/
def consistent (seen : List Node) : List Node → Bool
  | [] => true
  | n :: rest =>
    match seen.find? (·.id = n.id) with
    | some old => old = n && consistent seen rest
    | none => consistent (seen ++ [n]) rest

/-- add the nodes that are not present yet, in order -/
def addMissing (g : Graph) : List Node → Graph
  | [] => g
  | n :: rest =>
    if (g.nodeById n.id).isSome then addMissing g rest
    else addMissing { (g.addNodeLabel n.label) with nodes := g.nodes ++ [n] } rest

def addEdge (g : Graph) (e : Edge) : Except Err Graph :=
  if (g.edgeById e.id).isSome then .error .valueError
  else if !consistent g.nodes e.nodes then .error .valueError
  else match g.edgeLabels.find? (·.name = e.label.name) with
    | some old =>
      if old = e.label then
        let g := addMissing g e.nodes
        .ok { g with edges := g.edges ++ [e] }
      else .error .valueError
    | none =>
      let g := addMissing g e.nodes
      .ok { g with edges := g.edges ++ [e], edgeLabels := g.edgeLabels ++ [e.label] }

def removeEdge (g : Graph) (e : Edge) : Except Err Graph :=
  if (g.edgeById e.id).isNone then .error .valueError
  else .ok { g with edges := g.edges.filter (·.id ≠ e.id) }

def setExt (g : Graph) (ns : List Node) : Except Err Graph :=
  if !consistent g.nodes ns then .error .valueError
  else .ok { (addMissing g ns) with ext := ns }

/-- dict equality is order-insensitive: same keys, same values -/
def sameNodes (a b : List Node) : Bool :=
  a.length == b.length && a.all (fun n => b.find? (·.id = n.id) == some n)
def sameEdges (a b : List Edge) : Bool :=
  a.length == b.length && a.all (fun e => b.find? (·.id = e.id) == some e)

/-- Graph.__eq__: nodes, edges, ext (label tables are not compared) -/
def eq (a b : Graph) : Bool :=
  sameNodes a.nodes b.nodes && sameEdges a.edges b.edges && decide (a.ext = b.ext)

end Graph

/-- `Edge.__init__`: the label's type must be the nodes' labels -/
def mkEdge (l : ELabel) (ns : List Node) (i : Id) : Except Err Edge :=
  if l.type = ns.map (·.label) then .ok ⟨l, ns, i⟩ else .error .valueError

/-! ### HRG -/

structure Rule where
  lhs : ELabel
  rhs : Nat          -- handle of the (aliased, mutable) rhs graph in the store
deriving DecidableEq, Repr

structure HRG where
  start : Option ELabel := none
  nodeLabels : List Nat := []
  edgeLabels : List ELabel := []
  rules : List (ELabel × List Rule) := []    -- `_rules`: lhs ↦ rules, in order of first insertion
deriving DecidableEq, Repr, Inhabited

namespace HRG

def addNodeLabel (h : HRG) (l : Nat) : HRG :=
  if h.nodeLabels.contains l then h else { h with nodeLabels := h.nodeLabels ++ [l] }

def addEdgeLabel (h : HRG) (el : ELabel) : Except Err HRG :=
  match h.edgeLabels.find? (·.name = el.name) with
  | some old => if old = el then .ok h else .error .valueError
  | none => .ok { h with edgeLabels := h.edgeLabels ++ [el] }

/-- the `start` setter with an EdgeLabel -/
def setStart (h : HRG) (s : ELabel) : Except Err HRG :=
  if s.terminal then .error .valueError
  else do
    let h ← h.addEdgeLabel s
    pure { h with start := some s }

/-- the `start` setter with a name -/
def setStartName (h : HRG) (name : Nat) : Except Err HRG :=
  match h.edgeLabels.find? (·.name = name) with
  | some el => h.setStart el
  | none => h.setStart ⟨name, [], false⟩

/-- all labels of a rule are compatible with the table and with each other -/
def labelsOk (tbl : List ELabel) : List ELabel → Bool
  | [] => true
  | l :: rest =>
    match tbl.find? (·.name = l.name) with
    | some old => old = l && labelsOk tbl rest
    | none => labelsOk (tbl ++ [l]) rest

def addLabels (h : HRG) : List ELabel → HRG
  | [] => h
  | l :: rest =>
    if (h.edgeLabels.find? (·.name = l.name)).isSome then addLabels h rest
    else addLabels { h with edgeLabels := h.edgeLabels ++ [l] } rest

def appendRule (rs : List (ELabel × List Rule)) (r : Rule) : List (ELabel × List Rule) :=
  if rs.any (·.1 = r.lhs) then rs.map (fun p => if p.1 = r.lhs then (p.1, p.2 ++ [r]) else p)
  else rs ++ [(r.lhs, [r])]

/-- `add_rule` given the current content of the rhs graph -/
def addRule (h : HRG) (r : Rule) (rhs : Graph) : Except Err HRG :=
  if !labelsOk h.edgeLabels (r.lhs :: rhs.edges.map (·.label)) then .error .valueError
  else
    let h := addLabels h [r.lhs]
    let h := rhs.nodes.foldl (fun h n => h.addNodeLabel n.label) h
    let h := addLabels h (rhs.edges.map (·.label))
    .ok { h with rules := appendRule h.rules r }

def allRules (h : HRG) : List Rule := h.rules.flatMap (·.2)

end HRG

/-- `HRGRule.__post_init__` -/
def mkRule (lhs : ELabel) (handle : Nat) (rhs : Graph) : Except Err Rule :=
  if lhs.terminal then .error .exception
  else if lhs.type ≠ rhs.type then .error .exception
  else .ok ⟨lhs, handle⟩

/-! ### the store: a universe of live graphs and grammars (rules alias graphs by handle) -/

structure Store where
  graphs : List Graph := []
  hrgs : List HRG := []
deriving Repr, Inhabited

inductive Op where
  | newGraph
  | addNode (g : Nat) (n : Node)
  | removeNode (g : Nat) (n : Node)
  | addEdge (g : Nat) (l : ELabel) (ns : List Node) (i : Id)     -- Edge(...) then add_edge
  | removeEdge (g : Nat) (l : ELabel) (ns : List Node) (i : Id)
  | setExt (g : Nat) (ns : List Node)
  | copyGraph (g : Nat)
  | newHRG (start : Option ELabel)
  | setStart (h : Nat) (s : ELabel)
  | setStartName (h : Nat) (name : Nat)
  | addRule (h : Nat) (lhs : ELabel) (g : Nat)                   -- HRGRule(lhs, g) then add_rule
  | newRule (h : Nat) (name : Nat) (g : Nat)
  | addNodeLabel (h : Nat) (l : Nat)
  | addEdgeLabel (h : Nat) (el : ELabel)
  | copyHRG (h : Nat)
deriving Repr

def setAt {α} (l : List α) (i : Nat) (x : α) : List α := l.set i x

def onGraph (s : Store) (g : Nat) (f : Graph → Except Err Graph) : Store × Option Err :=
  match s.graphs[g]? with
  | none => (s, some .keyError)
  | some gr => match f gr with
    | .ok gr' => ({ s with graphs := setAt s.graphs g gr' }, none)
    | .error e => (s, some e)

def onHRG (s : Store) (h : Nat) (f : HRG → Except Err HRG) : Store × Option Err :=
  match s.hrgs[h]? with
  | none => (s, some .keyError)
  | some hr => match f hr with
    | .ok hr' => ({ s with hrgs := setAt s.hrgs h hr' }, none)
    | .error e => (s, some e)

/-- one public API call; the error (if any) and the state afterwards -/
def step (s : Store) : Op → Store × Option Err
  | .newGraph => ({ s with graphs := s.graphs ++ [{}] }, none)
  | .addNode g n => onGraph s g (·.addNode n)
  | .removeNode g n => onGraph s g (·.removeNode n)
  | .addEdge g l ns i => onGraph s g (fun gr => do let e ← mkEdge l ns i; gr.addEdge e)
  | .removeEdge g l ns i => onGraph s g (fun gr => do let e ← mkEdge l ns i; gr.removeEdge e)
  | .setExt g ns => onGraph s g (·.setExt ns)
  | .copyGraph g =>
    match s.graphs[g]? with
    | none => (s, some .keyError)
    | some gr => ({ s with graphs := s.graphs ++ [gr] }, none)
  | .newHRG start =>
    match start with
    | none => ({ s with hrgs := s.hrgs ++ [{}] }, none)
    | some st => match ({} : HRG).setStart st with
      | .ok h => ({ s with hrgs := s.hrgs ++ [h] }, none)
      | .error e => (s, some e)
  | .setStart h st => onHRG s h (·.setStart st)
  | .setStartName h name => onHRG s h (·.setStartName name)
  | .addRule h lhs g =>
    match s.graphs[g]? with
    | none => (s, some .keyError)
    | some gr => onHRG s h (fun hr => do let r ← mkRule lhs g gr; hr.addRule r gr)
  | .newRule h name g =>
    match s.graphs[g]? with
    | none => (s, some .keyError)
    | some gr => onHRG s h (fun hr => do
        let r ← mkRule ⟨name, gr.type, false⟩ g gr; hr.addRule r gr)
  | .addNodeLabel h l => onHRG s h (fun hr => .ok (hr.addNodeLabel l))
  | .addEdgeLabel h el => onHRG s h (·.addEdgeLabel el)
  | .copyHRG h =>
    match s.hrgs[h]? with
    | none => (s, some .keyError)
    | some hr =>
      -- HRG(self.start); tables copied; every rule copied with a copy of its rhs graph
      let base := s.graphs.length
      let rules := hr.allRules
      let newGraphs := rules.map (fun r => s.graphs[r.rhs]?.getD {})
      let renum : List (Nat × Nat) := (rules.zipIdx).map (fun (r, k) => (r.rhs, base + k))
      -- handles are renumbered rule by rule, in all_rules order
      let rec go (rs : List (ELabel × List Rule)) (k : Nat) : List (ELabel × List Rule) :=
        match rs with
        | [] => []
        | (l, rl) :: rest =>
          (l, (rl.zipIdx).map (fun (r, j) => { r with rhs := base + k + j })) :: go rest (k + rl.length)
      let _ := renum
      ({ graphs := s.graphs ++ newGraphs, hrgs := s.hrgs ++ [{ hr with rules := go hr.rules 0 }] }, none)

/-! ### the invariant of the property text, decidable -/

def nodup {α} [DecidableEq α] : List α → Bool
  | [] => true
  | x :: xs => !xs.contains x && nodup xs

def graphInv (g : Graph) : Bool :=
  -- every attachment node and every external node is a node of the graph
  g.edges.all (fun e => e.nodes.all (fun n => g.nodes.contains n)) &&
  g.ext.all (fun n => g.nodes.contains n) &&
  -- ids are unique
  nodup (g.nodes.map (·.id)) && nodup (g.edges.map (·.id)) &&
  -- an edge-label name denotes one label, and every edge's label is that label
  nodup (g.edgeLabels.map (·.name)) &&
  g.edges.all (fun e => g.edgeLabels.contains e.label) &&
  -- every edge's nodes carry the labels its label demands
  g.edges.all (fun e => e.label.type == e.nodes.map (·.label)) &&
  -- every node label in use is registered
  g.nodes.all (fun n => g.nodeLabels.contains n.label)

def hrgInv (s : Store) (h : HRG) : Bool :=
  nodup (h.edgeLabels.map (·.name)) &&
  (match h.start with | none => true | some st => !st.terminal && h.edgeLabels.contains st) &&
  nodup (h.rules.map (·.1)) &&
  h.rules.all (fun p => p.2.all (fun r => r.lhs == p.1 && !r.lhs.terminal && h.edgeLabels.contains r.lhs))

/-- every rule's left-hand side has the type of its right-hand side, and the grammar knows the rhs labels -/
def ruleTyping (s : Store) (h : HRG) : Bool :=
  h.allRules.all (fun r => match s.graphs[r.rhs]? with
    | none => false
    | some g => r.lhs.type == g.type)

def storeInv (s : Store) : Bool := s.graphs.all graphInv && s.hrgs.all (hrgInv s)

/-! ### protocol -/

def parseId : Parser Id := do
  let t ← Tok.next
  match t.toList with
  | 'e' :: rest => match (String.ofList rest).toNat? with
    | some n => pure (.expl n) | none => throw s!"bad id {t}"
  | 'i' :: rest => match (String.ofList rest).toNat? with
    | some n => pure (.impl n) | none => throw s!"bad id {t}"
  | _ => throw s!"bad id {t}"

def showId : Id → String
  | .expl n => s!"e{n}"
  | .impl n => s!"i{n}"

def parseNode : Parser Node := do let l ← Tok.nat; let i ← parseId; pure ⟨l, i⟩
def parseELabel : Parser ELabel := do
  let n ← Tok.nat; let ty ← Tok.list Tok.nat; let t ← Tok.bool; pure ⟨n, ty, t⟩
def showNode (n : Node) : String := s!"{n.label} {showId n.id}"
def showELabel (l : ELabel) : String := s!"{l.name} {showList toString l.type} {showBool l.terminal}"
def showEdge (e : Edge) : String := s!"{showELabel e.label} {showList showNode e.nodes} {showId e.id}"
def parseEdge : Parser Edge := do
  let l ← parseELabel; let ns ← Tok.list parseNode; let i ← parseId; pure ⟨l, ns, i⟩

def showGraph (g : Graph) : String :=
  s!"{showList showNode g.nodes} {showList showEdge g.edges} {showList showNode g.ext} " ++
  s!"{showList toString g.nodeLabels} {showList showELabel g.edgeLabels}"

def parseGraph : Parser Graph := do
  let ns ← Tok.list parseNode; let es ← Tok.list parseEdge; let ext ← Tok.list parseNode
  let nl ← Tok.list Tok.nat; let el ← Tok.list parseELabel
  pure ⟨ns, es, ext, nl, el⟩

def showHRG (s : Store) (h : HRG) : String :=
  s!"{showOpt showELabel h.start} {showList toString h.nodeLabels} {showList showELabel h.edgeLabels} " ++
  showList (fun (p : ELabel × List Rule) =>
    s!"{showELabel p.1} {showList (fun (r : Rule) => showGraph (s.graphs[r.rhs]?.getD {})) p.2}") h.rules

def parseOp : Parser Op := do
  let k ← Tok.next
  match k with
  | "newGraph" => pure .newGraph
  | "addNode" => do let g ← Tok.nat; let n ← parseNode; pure (.addNode g n)
  | "removeNode" => do let g ← Tok.nat; let n ← parseNode; pure (.removeNode g n)
  | "addEdge" => do
      let g ← Tok.nat; let l ← parseELabel; let ns ← Tok.list parseNode; let i ← parseId
      pure (.addEdge g l ns i)
  | "removeEdge" => do
      let g ← Tok.nat; let l ← parseELabel; let ns ← Tok.list parseNode; let i ← parseId
      pure (.removeEdge g l ns i)
  | "setExt" => do let g ← Tok.nat; let ns ← Tok.list parseNode; pure (.setExt g ns)
  | "copyGraph" => .copyGraph <$> Tok.nat
  | "newHRG" => .newHRG <$> Tok.optional parseELabel
  | "setStart" => do let h ← Tok.nat; let s ← parseELabel; pure (.setStart h s)
  | "setStartName" => do let h ← Tok.nat; let n ← Tok.nat; pure (.setStartName h n)
  | "addRule" => do let h ← Tok.nat; let l ← parseELabel; let g ← Tok.nat; pure (.addRule h l g)
  | "newRule" => do let h ← Tok.nat; let n ← Tok.nat; let g ← Tok.nat; pure (.newRule h n g)
  | "addNodeLabel" => do let h ← Tok.nat; let l ← Tok.nat; pure (.addNodeLabel h l)
  | "addEdgeLabel" => do let h ← Tok.nat; let l ← parseELabel; pure (.addEdgeLabel h l)
  | "copyHRG" => .copyHRG <$> Tok.nat
  | _ => throw s!"bad op {k}"

def showStore (s : Store) : String :=
  showList showGraph s.graphs ++ " " ++ showList (showHRG s) s.hrgs

def eqMatrix (s : Store) : String :=
  String.intercalate "" (s.graphs.map (fun a => String.intercalate "" (s.graphs.map (fun b => showBool (a.eq b)))))

def handle : List String → Option (Except String String)
  | "C16.run" :: rest => some do
      let ops ← Tok.run (Tok.list parseOp) rest
      let (s, outs) := ops.foldl (fun (acc : Store × List String) op =>
        let (s', e) := step acc.1 op
        (s', acc.2 ++ [(match e with | none => "ok" | some e => e.toString) ++ " " ++ showBool (storeInv s') ++ " " ++
          showBool (s'.hrgs.all (ruleTyping s'))])) ({}, [])
      pure (String.intercalate " " outs ++ " | " ++ showStore s ++ " | " ++ eqMatrix s)
  | "C16.inv" :: rest => some do
      let g ← Tok.run parseGraph rest
      pure (showBool (graphInv g))
  | _ => none

end Fggs.G
