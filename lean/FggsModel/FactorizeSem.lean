/-
FggsModel.FactorizeSem — what a rule MEANS (sum over the assignments of its internal nodes of the product of
its edge weights, as a function of the values of its external nodes), for the original rule and for the set
of rules a factorization produces (C05: "factorization preserves meaning").  Generic over a semiring record,
a domain size per node and a weight per original edge; the rules `factorize_rule` introduces are evaluated
recursively (one new nonterminal per bag, defined by exactly one rule).
-/
import FggsModel.Factorize
import FggsModel.Sem

namespace Fggs.Fz
open Cj

variable {K : Type}

/-- interpretation: domain size of every node, weight of every (original) edge at the values of its nodes -/
structure Meaning (K : Type) where
  dom : Node → Nat
  wt : Edge → List Nat → K

/-- all assignments of values to the nodes `vs` (in order) -/
def asgs (dom : Node → Nat) : List Node → List (List (Node × Nat))
  | [] => [[]]
  | v :: vs => (List.range (dom v)).flatMap (fun i => (asgs dom vs).map ((v, i) :: ·))

def valOf (ρ : List (Node × Nat)) (v : Node) : Nat := (ρ.lookup v).getD 0

/-- internal nodes of a rule, in node order -/
def internal (r : Rule) : List Node := r.nodes.filter (fun v => !r.ext.contains v)

/-- meaning of the original rule at the external values `α`:
`Σ_{β : internal nodes} Π_{e ∈ edges} w_e((α ∪ β)(e.nodes))` -/
def origValue (S : Sem.SR K) (I : Meaning K) (orig : Rule) (α : List (Node × Nat)) : K :=
  S.sum ((asgs I.dom (internal orig)).map (fun β =>
    S.prod (orig.edges.map (fun e => I.wt e (e.nodes.map (valOf (α ++ β)))))))

/-- meaning of the rule `r` of a factorization at the external values `α`: its original edges contribute their
weights, each new nonterminal edge contributes the meaning of the (unique) rule of its label at the values of the
edge's nodes.  `fuel` bounds the depth of the tree of rules. -/
def factValue (S : Sem.SR K) (I : Meaning K) (avoid : List String) (out : List Rule) : Nat → Rule → List (Node × Nat) → K
  | 0, _, _ => S.zero
  | fuel+1, r, α =>
    S.sum ((asgs I.dom (internal r)).map (fun β =>
      let ρ := α ++ β
      S.mul (S.prod ((oldEdges avoid r).map (fun e => I.wt e (e.nodes.map (valOf ρ)))))
            (S.prod ((newEdges avoid r).map (fun e =>
              match ruleOf out e.label with
              | some c => factValue S I avoid out fuel c (c.ext.map (fun v => (v, valOf ρ v)))
              | none => S.zero)))))

end Fggs.Fz
