/-
FggsModel.JLog — model of `J_log` of fggs/sum_product.py (C03): the Jacobian of `F` in the LOG semiring, which the
library computes "in the real semiring" for the backward pass of Log-semiring sum-products (the default training path).

For a nonterminal `X`, the sum-products `tau_rule` of its rules are stacked and `log_softmax`ed over the rules; for
every edge of every rule, `tau_edge = sum_product_edges(nodes, ALL edges, ext + edge.nodes)` is reshaped to
`(cells of X) × (cells of the edge)`, `log_softmax`ed over the edge's cells, added to the rule's normalised
`tau_rule`, exponentiated and accumulated into the block `(X, edge.label)`.

The model works with the exponentials (elements of a field `K` with a total division `dv`, instantiated at `Rat`):
a log-value `v` is represented by `exp v`, `log_softmax` over a slice becomes division by the sum of the slice, and
the library's convention "a slice without probability mass is all zero" (fix 538f4ed) becomes `dv a 0 = 0`.
Infinite elements (the other special case of the library's `log_softmax`) are outside the model.
-/
import FggsModel.Pipeline

namespace Fggs.Jl
open Sem Pipe

variable {K : Type}

/-- sum of every block of `m` consecutive cells -/
def blockSums (S : SR K) (m : Nat) (t : List K) : List K :=
  (List.range (t.length / (if m == 0 then 1 else m))).map (fun a => S.sum ((t.drop (a * m)).take m))

/-- the rules of `X` that have a sum-product, with it (`tau_rule_pairs`) -/
def tauRules (S : SR K) (G : Grammar K) (x : Val K) (X : Nat) : List (Rule × List K) :=
  (G.rulesOf X).filterMap (fun r =>
    (Impl.sumProductEdges S G x r.nodes r.edges r.ext).map (fun t => (r, t)))

/-- the denominator of the softmax over the rules, per cell of `X` -/
def ruleTotals (S : SR K) (G : Grammar K) (x : Val K) (X : Nat) : List K :=
  match tauRules S G x X with
  | [] => []
  | (_, t) :: rest => rest.foldl (fun acc p => List.zipWith S.add acc p.2) t

/-- one term of `J_log`: rule `r` with its sum-product `tr`, edge number `i` -/
def jlogTerm (S : SR K) (dv : K → K → K) (G : Grammar K) (x : Val K) (tot : List K) (r : Rule) (tr : List K) (i : Nat) :
    Option (List K) :=
  match r.edges[i]? with
  | none => none
  | some e =>
    match Impl.sumProductEdges S G x r.nodes r.edges (r.ext ++ e.2) with
    | none => none
    | some te =>
      let m := numel (G.shapeOf (G.labelType e.1))
      let bs := blockSums S m te
      some (te.zipIdx.map (fun (p : K × Nat) =>
        let a := p.2 / (if m == 0 then 1 else m)
        S.mul (dv p.1 (bs[a]?.getD S.zero)) (dv (tr[a]?.getD S.zero) (tot[a]?.getD S.zero))))

/-- the block `(X, l)` of `J_log` (`Jx` for a nonterminal of the component, `J_inputs` otherwise); `none` = no term -/
def jlogLabel (S : SR K) (dv : K → K → K) (G : Grammar K) (x : Val K) (X l : Nat) : Option (List K) :=
  let tot := ruleTotals S G x X
  (tauRules S G x X).foldl (fun acc p =>
    (List.range p.1.edges.length).foldl (fun acc i =>
      match p.1.edges[i]? with
      | some e => if e.1 == l then addOpt S acc (jlogTerm S dv G x tot p.1 p.2 i) else acc
      | none => acc) acc) none

def ratSR : SR Rat := ⟨0, 1, (· + ·), (· * ·)⟩
def ratDiv (a b : Rat) : Rat := if b == 0 then 0 else a / b

def showOptT' (t : Option (List Rat)) : String :=
  match t with
  | none => "none"
  | some l => "some " ++ showList toString l

def handle : List String → Option (Except String String)
  | "C03.jlog" :: rest => some do
      -- blocks J_log[X, l] for all nonterminals X and ALL labels l (terminals first), at the real values x
      let (G, x) ← Tok.run (do let g ← parseGrammar Tok.rat; let x ← Tok.list (Tok.optional (Tok.list Tok.rat)); pure (g, x)) rest
      let n := G.nts.length
      pure (showList (fun X => showList (fun l => showOptT' (jlogLabel ratSR ratDiv G x X l)) (List.range (G.T + n))) (List.range n))
  | _ => none

end Fggs.Jl
