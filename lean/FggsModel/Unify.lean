/-
FggsModel.Unify — model of `Axis.unify`, `lookup`, `clone` of fggs/indices.py (C06, C07, C13, C09).

Unification of two axes computes the INTERSECTION of two sparsity patterns: it extends a substitution
(physical axis ↦ axis) such that both axes become the same injective map; it is what `einsum`, `mul`,
`where`, `equal`, `solve`, `stack` use to find the overlap of their operands.  The model follows the
Python control flow branch by branch (same order of tests, same order of recursive calls, the same
right-to-left walk over the factors of two products, the same fresh axes); identities of fresh
`PhysicalAxis` objects are numbers from a counter.

Not modelled: axes with zero elements in a product of different shape (Python raises ZeroDivisionError in
`n % m`); warnings.
-/
import FggsModel.Axis

namespace Fggs.Un
open Ax

/-- substitution: newest binding first (a Python dict assignment `subst[k] = e` overrides) -/
abbrev Subst := List (Nat × Axis)

structure St where
  subst : Subst
  next : Nat            -- identity of the next fresh PhysicalAxis
deriving Repr, Inhabited

def bound (σ : Subst) (v : Nat) : Option Axis := (σ.find? (·.1 == v)).map (·.2)

/-- `Axis.lookup`: the end of the forwarding chain (only a physical axis forwards) -/
def lookup (σ : Subst) : Nat → Axis → Axis
  | 0, e => e
  | fuel+1, .phys v n =>
    match bound σ v with
    | some e => lookup σ fuel e
    | none => .phys v n
  | _+1, e => e

mutual
/-- `Axis.zero` -/
def zero : Axis → Bool
  | .phys _ n => n == 0
  | .prod fs => zeroList fs
  | .sum b t a => b == 0 && a == 0 && zero t
def zeroList : List Axis → Bool
  | [] => false
  | f :: fs => zero f || zeroList fs
end

def isUnit : Axis → Bool
  | .prod [] => true
  | _ => false

def samePhys : Axis → Axis → Bool
  | .phys v _, .phys w _ => v == w
  | _, _ => false

def bind (st : St) (v : Nat) (e : Axis) : St := { st with subst := (v, e) :: st.subst }

mutual
/-- `e.unify(f, subst)`; the Boolean is Python's return value, the state is `subst` afterwards
(also after a failure: Python leaves the bindings made so far) -/
def unify : Nat → Axis → Axis → St → Bool × St
  | 0, _, _, st => (false, st)
  | fuel+1, e0, f0, st =>
    let e := lookup st.subst (fuel+1) e0
    let f := lookup st.subst (fuel+1) f0
    if samePhys e f then (true, st)
    else match e, f with
      | .prod es, .prod fs =>
        if zeroList es then (true, st)
        else unifyProd fuel es.reverse fs.reverse st
      -- a sum against a proper product: the sum is walked as a product of one factor (the product's other factors must
      -- all have one element)
      | .prod (e1 :: es), .sum b t a =>
        if zeroList (e1 :: es) then (true, st)
        else unifyProd fuel (e1 :: es).reverse [.sum b t a] st
      | .sum b t a, .prod (f1 :: fs) =>
        unifyProd fuel [.sum b t a] (f1 :: fs).reverse st
      | .sum b1 t1 a1, .sum b2 t2 a2 =>
        if b1 == b2 && a1 == a2 then unify fuel t1 t2 st else (false, st)
      | .phys v _, f => (true, bind st v f)
      | e, .phys w _ => (true, bind st w e)
      | .prod [], .sum b t a =>
        if b == 0 && a == 0 then unify fuel unitAxis t st else (false, st)
      | .sum b t a, .prod [] =>
        if b == 0 && a == 0 then unify fuel unitAxis t st else (false, st)
/-- the `while es and fs:` loop; both lists are stacks (top = the LAST factor), then
`all(x.unify(unitAxis) for x in chain(es, fs))` -/
def unifyProd : Nat → List Axis → List Axis → St → Bool × St
  | 0, _, _, st => (false, st)
  | fuel+1, e9 :: es, f9 :: fs, st =>
    let m := e9.numel
    let n := f9.numel
    if m == n then
      match unify fuel e9 f9 st with
      | (true, st1) => unifyProd fuel es fs st1
      | r => r
    else if n == 1 then
      -- a factor with one element is the unit axis in disguise: it takes no part in the other side's factor
      match unify fuel f9 unitAxis st with
      | (true, st1) => unifyProd fuel (e9 :: es) fs st1
      | r => r
    else if m == 1 then
      match unify fuel e9 unitAxis st with
      | (true, st1) => unifyProd fuel es (f9 :: fs) st1
      | r => r
    else if m < n then
      if n % m != 0 then (false, st)
      else
        let k := Axis.phys st.next (n / m)
        match unify fuel f9 (productAxis [k, e9]) { st with next := st.next + 1 } with
        | (true, st1) => unifyProd fuel es (k :: fs) st1
        | r => r
    else
      if m % n != 0 then (false, st)
      else
        let k := Axis.phys st.next (m / n)
        match unify fuel e9 (productAxis [k, f9]) { st with next := st.next + 1 } with
        | (true, st1) => unifyProd fuel (k :: es) fs st1
        | r => r
  | fuel+1, es, fs, st => unifyUnits fuel (es.reverse ++ fs.reverse) st
/-- `all(x.unify(unitAxis, subst) for x in xs)` -/
def unifyUnits : Nat → List Axis → St → Bool × St
  | 0, _, st => (false, st)
  | _+1, [], st => (true, st)
  | fuel+1, x :: xs, st =>
    match unify fuel x unitAxis st with
    | (true, st1) => unifyUnits fuel xs st1
    | r => r
end

/-- `Axis.clone(subst)`: apply the substitution everywhere -/
def clone (σ : Subst) : Nat → Axis → Axis
  | 0, e => e
  | fuel+1, .phys v n =>
    match bound σ v with
    | some e => clone σ fuel e
    | none => .phys v n
  | fuel+1, .prod fs => productAxis (fs.map (clone σ fuel))
  | fuel+1, .sum b t a => .sum b (clone σ fuel t) a

/-- enough fuel for terms of this size: every call consumes one unit, and the depth of the recursion is
bounded by the sizes of the two terms plus the length of the forwarding chains -/
def FUEL : Nat := 4000

/-- the sorted list of virtual indices in the image of an axis (all assignments of its free axes) -/
def image (e : Axis) : List Nat :=
  let fv := e.fv.eraseDups
  ((assigns (fv.map (·.2))).map (fun idx => e.eval (envOf fv idx))).mergeSort (· ≤ ·) |>.eraseDups

partial def showAxis : Axis → String
  | .phys v n => s!"P {v} {n}"
  | .prod fs => "X " ++ showList showAxis fs
  | .sum b t a => s!"S {b} {showAxis t} {a}"


/-! ### anti-unification (`Axis.antiunify`, `extend_antisubst`): the least general generalisation of two axes — the
most precise pattern covering the UNION of two sparsity patterns (used by add/commutative/expansion/stack/solve) -/

mutual
/-- equality of axes as Python compares dict keys: PhysicalAxis by identity, products and sums structurally -/
def axisEq : Axis → Axis → Bool
  | .phys v _, .phys w _ => v == w
  | .prod es, .prod fs => axisEqList es fs
  | .sum b1 t1 a1, .sum b2 t2 a2 => b1 == b2 && a1 == a2 && axisEq t1 t2
  | _, _ => false
def axisEqList : List Axis → List Axis → Bool
  | [], [] => true
  | e :: es, f :: fs => axisEq e f && axisEqList es fs
  | _, _ => false
end

/-- the anti-substitution: fresh axis ↦ the pair of axes it stands for, in order of creation -/
structure ASt where
  pairs : List ((Axis × Axis) × (Nat × Nat))    -- ((e, f), (id, size))
  next : Nat
deriving Repr, Inhabited

/-- `extend_antisubst` -/
def extendAnti (e f : Axis) (st : ASt) : Axis × ASt :=
  -- one element on both sides: nothing to generalise over (and no physical axis of size 1)
  if e.numel == 1 && f.numel == 1 then (unitAxis, st) else
  match st.pairs.find? (fun p => axisEq p.1.1 e && axisEq p.1.2 f) with
  | some p => (.phys p.2.1 p.2.2, st)
  | none => (.phys st.next e.numel, { pairs := st.pairs ++ [((e, f), (st.next, e.numel))], next := st.next + 1 })

def isProd : Axis → Bool
  | .prod _ => true
  | _ => false

mutual
/-- `e.antiunify(f, antisubst)` -/
def antiunify : Nat → Axis → Axis → ASt → Axis × ASt
  | 0, e, f, st => extendAnti e f st
  | fuel+1, e, f, st =>
    match e, f with
    | .prod es, .prod fs =>
      if !zeroList es && !zeroList fs then
        let (ret, st1) := antiLoop fuel (es.length + fs.length + 2 * (es.length + fs.length) + 2) es fs 0 0 0 0 1 1 [] st
        (productAxis ret, st1)
      else extendAnti e f st
    | .sum b1 t1 a1, .sum b2 t2 a2 =>
      if b1 == b2 && a1 == a2 then
        let (t, st1) := antiunify fuel t1 t2 st
        (.sum b1 t a1, st1)
      else extendAnti e f st
    | _, _ => extendAnti e f st
/-- the `while el < len(e.factors) or fl < len(f.factors)` loop; `steps` bounds the iterations (each increases one of
el, fl, er, fr).  An index past the end (Python: IndexError, only on a size mismatch) ends the loop.  When `fs` is used up
and `es` still has factors (of one element each, if the sizes agree) the left cursor advances. -/
def antiLoop : Nat → Nat → List Axis → List Axis → Nat → Nat → Nat → Nat → Nat → Nat → List Axis → ASt → List Axis × ASt
  | _, 0, _, _, _, _, _, _, _, _, ret, st => (ret, st)
  | fuel, steps+1, es, fs, el, er, fl, fr, en, fn, ret, st =>
    if el < es.length || fl < fs.length then
      if en == fn && (el < er || fl < fr) then
        let e1 := productAxis ((es.drop el).take (er - el))
        let f1 := productAxis ((fs.drop fl).take (fr - fl))
        let (g, st1) := if isProd e1 && isProd f1 then extendAnti e1 f1 st else antiunify fuel e1 f1 st
        antiLoop fuel steps es fs er er fr fr en fn (ret ++ [g]) st1
      else if en < fn || fr == fs.length then     -- (fs used up: only one-element factors of es remain)
        match es[er]? with
        | some x => antiLoop fuel steps es fs el (er + 1) fl fr (en * x.numel) fn ret st
        | none => (ret, st)
      else
        match fs[fr]? with
        | some x => antiLoop fuel steps es fs el er fl (fr + 1) en (fn * x.numel) ret st
        | none => (ret, st)
    else (ret, st)
end

/-- pairwise anti-unification of two lists of axes with one anti-substitution (`expansion`) -/
def antiunifyAll (fuel : Nat) : List (Axis × Axis) → ASt → List Axis × ASt
  | [], st => ([], st)
  | (e, f) :: rest, st =>
    let (g, st1) := antiunify fuel e f st
    let (gs, st2) := antiunifyAll fuel rest st1
    (g :: gs, st2)

/-- `all(e.unify(f, subst) for e, f in zip(es, fs))`: pairs unified in order with one substitution, stopping at the
first failure -/
def unifyAll (fuel : Nat) : List (Axis × Axis) → St → Bool × St
  | [], st => (true, st)
  | (e, f) :: rest, st =>
    match unify fuel e f st with
    | (true, st1) => unifyAll fuel rest st1
    | r => r

def handle : List String → Option (Except String String)
  | "C06.unify" :: rest => some do
      let (es, fs, next) ← Tok.run (do let e ← Tok.list parseAxis; let f ← Tok.list parseAxis; let n ← Tok.nat; pure (e, f, n)) rest
      let (ok, st) := unifyAll FUEL (es.zip fs) ⟨[], next⟩
      pure s!"{showBool ok} {showList showAxis (es.map (clone st.subst FUEL))} {showList showAxis (fs.map (clone st.subst FUEL))}"
  | "C06.antiunify" :: rest => some do
      let (es, fs, next) ← Tok.run (do let e ← Tok.list parseAxis; let f ← Tok.list parseAxis; let n ← Tok.nat; pure (e, f, n)) rest
      let (gs, st) := antiunifyAll FUEL (es.zip fs) ⟨[], next⟩
      let sp := fun (p : (Axis × Axis) × (Nat × Nat)) => s!"P {p.2.1} {p.2.2} {showAxis p.1.1} {showAxis p.1.2}"
      pure s!"{showList showAxis gs} {showList sp st.pairs}"
  | _ => none

end Fggs.Un
