/-
FggsModel.EinsumImpl — model of the patterned `einsum` of fggs/indices.py (C07), the operation `sum_product_edges`
is built on: the virtual axes that are co-indexed are UNIFIED (one substitution for the whole job, operands and
positions in order), every operand's physical tensor is re-indexed over the physical axes that remain free
(`project(tensor.physical, None, tensor.paxes, subst)`), the physical einsum runs over those axes, and the result is
patterned by the (substituted) virtual axes of the output indices.

Outside the model (trusted, exercised by the correspondence): `torch_semiring_einsum` and `reduce_equation` — the
physical einsum is taken to be the semiring sum over the non-output physical axes of the product of the re-indexed
operands.  Operands arrive with pairwise disjoint physical axes (the library freshens an operand that shares axes with
an earlier one) and with the semiring zero as default (the library densifies others with `default_to`).
-/
import FggsModel.Unify
import FggsModel.Binary
import FggsModel.Sem

namespace Fggs.Ei
open Ax Un Sem

structure EJob where
  ops : List (PT × List Nat)      -- operand, its index variables (one per dimension)
  out : List Nat

/-- first pass: `index_to_vaxis` (first occurrence of every index) and the unifications, in order; the Boolean is
`not result_is_zero` (a failed unification does not stop the loop) -/
def collect (fuel : Nat) (j : EJob) (next : Nat) : List (Nat × Axis) × Bool × St :=
  (j.ops.flatMap (fun (p : PT × List Nat) => p.1.vaxes.zip p.2)).foldl
    (fun (acc : List (Nat × Axis) × Bool × St) (q : Axis × Nat) =>
      let (tbl, ok, st) := acc
      match tbl.lookup q.2 with
      | some e =>
        let (b, st1) := unify fuel e q.1 st
        (tbl, ok && b, st1)
      | none => (tbl ++ [(q.2, q.1)], ok, st))
    ([], true, ⟨[], next⟩)

/-- free physical axes of `e` under the substitution, in order of first occurrence -/
def fvSubst (σ : Subst) (e : Axis) : List (Nat × Nat) := ((clone σ FUEL e).fv).eraseDups

/-- the physical axes over which operand `t` is re-indexed: the free axes of `t.paxes` under the substitution -/
def viewAxes (σ : Subst) (t : PT) : List (Nat × Nat) :=
  (t.paxes.flatMap (fun k => (clone σ FUEL (Axis.phys k.1 k.2)).fv)).eraseDups

/-- the element of `t.physical` selected by an assignment `ρ` of the free axes -/
def viewAt (S : SR Ext) (σ : Subst) (t : PT) (ρ : Nat → Nat) : Ext :=
  let idx := t.paxes.map (fun k => (clone σ FUEL (Axis.phys k.1 k.2)).eval ρ)
  t.physical[Ax.flat (t.paxes.map (·.2)) idx]?.getD S.zero

def zeroResult (S : SR Ext) (outVaxes : List Axis) : PT :=
  let shape := outVaxes.map Axis.numel
  Bn.normalize
    { physical := List.replicate (Ax.numel shape) S.zero,
      paxes := shape.zipIdx.map (fun (n, i) => (i, n)),
      vaxes := shape.zipIdx.map (fun (n, i) => Axis.phys i n),
      default := S.zero }

/-- `einsum(tensors, inputs, output, semiring)` -/
def einsum (S : SR Ext) (fuel : Nat) (j : EJob) (next : Nat) : PT :=
  if j.ops.isEmpty then { physical := [S.one], paxes := [], vaxes := [], default := S.zero }
  else
    let (tbl, ok, st) := collect fuel j next
    let σ := st.subst
    let outVaxes := j.out.map (fun i => clone σ FUEL ((tbl.lookup i).getD unitAxis))
    if !ok then zeroResult S outVaxes
    else
      let views := j.ops.map (fun p => viewAxes σ p.1)
      let allAxes := views.flatten.eraseDups
      if allAxes.any (fun k => k.2 == 0) then zeroResult S outVaxes
      else
        let outAxes := (outVaxes.flatMap Axis.fv).eraseDups
        let inner := allAxes.filter (fun k => !outAxes.contains k)
        -- the physical einsum: for every assignment of the output axes, sum over the remaining axes of the product
        let phys := (Ax.assigns (outAxes.map (fun k => k.2))).map (fun a =>
          S.sum ((Ax.assigns (inner.map (fun k => k.2))).map (fun b =>
            let ρ := envOf (outAxes ++ inner) (a ++ b)
            S.prod (j.ops.map (fun p => viewAt S σ p.1 ρ)))))
        Bn.normalize { physical := phys, paxes := outAxes, vaxes := outVaxes, default := S.zero }

/-! ### the fuel side condition of the theorem `C07.einsum_dense`, decidable per job -/

/-- no physical axis of `e` is bound by `σ` -/
def unbound (σ : Subst) (e : Axis) : Bool := e.fv.all (fun q => (bound σ q.1).isNone)

/-- `FUEL` units of fuel resolve every clone that `einsum` computes: no variable is bound twice, the clone of every
binding and of every output index's table entry contains no bound physical axis -/
def resolved (fuel : Nat) (j : EJob) (next : Nat) : Bool :=
  let c := collect fuel j next
  let σ := c.2.2.subst
  nodupNat (σ.map (·.1)) &&
  σ.all (fun p => unbound σ (clone σ (FUEL - 1) p.2)) &&
  j.out.all (fun v => unbound σ (clone σ FUEL ((c.1.lookup v).getD unitAxis)))

/-! ### protocol -/

def boolExtSR : SR Ext :=
  ⟨Ext.fin 0, Ext.fin 1, fun a b => Bn.boolExt (a != Ext.fin 0 || b != Ext.fin 0), fun a b => Bn.boolExt (a != Ext.fin 0 && b != Ext.fin 0)⟩

def parseEJob : Parser EJob := do
  let ops ← Tok.list (do let t ← Ax.parsePT; let ix ← Tok.list Tok.nat; pure (t, ix))
  let out ← Tok.list Tok.nat
  pure ⟨ops, out⟩

def handle : List String → Option (Except String String)
  | "C07.impl" :: sr :: rest => some do
      let (j, next) ← Tok.run (do let j ← parseEJob; let n ← Tok.nat; pure (j, n)) rest
      let S ← match sr with
        | "real" => pure realSR
        | "viterbi" => pure vitSR
        | "bool" => pure boolExtSR
        | _ => throw "bad semiring"
      let r := einsum S FUEL j next
      pure (Bn.showPT r ++ " " ++ showBool (collect FUEL j next).2.1 ++ " " ++ showBool (resolved FUEL j next) ++ " " ++ showBool r.wf)
  | _ => none

end Fggs.Ei
