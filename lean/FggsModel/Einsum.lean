/-
FggsModel.Einsum — specification of the patterned einsum (C07): semiring-sum, over all values of the
non-output indices, of the semiring product of the operand entries, the operands being the dense tensors
that the patterned operands denote (`Ax.PT.dense`).
-/
import FggsModel.Axis
import FggsModel.Sem

namespace Fggs.Es
open Ax Sem

/-- an einsum job: operands with their index variables (naturals), the output variables -/
structure Job where
  ops : List (PT × List Nat)
  out : List Nat

/-- size of every index variable, read off the operands' virtual shapes (first occurrence wins) -/
def Job.sizes (j : Job) : List Nat :=
  let nv := ((j.ops.flatMap (·.2)) ++ j.out).foldl max 0 + (if (j.ops.flatMap (·.2) ++ j.out).isEmpty then 0 else 1)
  (List.range nv).map (fun v =>
    match j.ops.findSome? (fun (t, ix) => (ix.zip t.vshape).find? (·.1 == v) |>.map (·.2)) with
    | some n => n
    | none => 1)

/-- the specification, over a semiring record; scalars converted from `Ext` by `conv` -/
def Job.spec {K} (S : SR K) (conv : Ext → K) (j : Job) : List K :=
  let ops : List ((List Nat → K) × List Nat) := j.ops.map (fun (t, ix) =>
    let d := t.dense
    let sh := t.vshape
    ((fun idx => conv (d[Ax.flat sh idx]?.getD t.default)), ix))
  Sem.einsumSpec S j.sizes ops j.out

def parseJob : Parser Job := do
  let ops ← Tok.list (do let t ← Ax.parsePT; let ix ← Tok.list Tok.nat; pure (t, ix))
  let out ← Tok.list Tok.nat
  pure ⟨ops, out⟩

def handle : List String → Option (Except String String)
  | "C07.einsum" :: sr :: rest => some do
      let j ← Tok.run parseJob rest
      match sr with
      | "real" => pure (showList toString (j.spec realSR id))
      | "viterbi" => pure (showList toString (j.spec vitSR id))
      | "bool" => pure (showList showBool (j.spec boolSR (fun x => x != Ext.fin 0)))
      | _ => throw "bad semiring"
  | _ => none

end Fggs.Es
