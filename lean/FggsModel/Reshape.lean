/-
FggsModel.Reshape — model of `reshape_or_view` (fggs/indices.py; `PatternedTensor.reshape`, `.view`), C06:
fresh physical axes for the target sizes (the unit axis for a size of 1), their product is UNIFIED with the product of
the tensor's virtual axes, the physical tensor keeps its flat data and is re-dimensioned along the prime factors of its
own physical axes under the substitution; a failed unification is `RuntimeError`.  The fast path for tensors whose
single element (or no element) is physical, and `-1` in the target shape, are handled before (the harness resolves
`-1`).
-/
import FggsModel.Unify
import FggsModel.Binary

namespace Fggs.Rs
open Ax Un

/-- `Axis.prime_factors(subst)`: the non-product axes an axis is a product of, physical axes followed through the
substitution -/
def primeFactors (σ : Subst) : Nat → Axis → List Axis
  | 0, e => [e]
  | fuel+1, .phys v n =>
    match bound σ v with
    | some e => primeFactors σ fuel (lookup σ FUEL e)
    | none => [.phys v n]
  | fuel+1, .prod fs => fs.flatMap (primeFactors σ fuel)
  | _+1, e => [e]

inductive Outcome where
  | ok (t : PT)
  | runtimeError
  | assertion

/-- `reshape_or_view(f, self, *s)` for a target shape without `-1` -/
def reshape (fuel : Nat) (t : PT) (s : List Nat) (next : Nat) : Outcome :=
  let numel := Ax.numel t.vshape
  if numel == t.physical.length && t.physical.length ≤ 1 then
    -- `PatternedTensor(f(self.physical, s), default=self.default)`: a dense tensor of the target shape
    if Ax.numel s != t.physical.length then .runtimeError
    else .ok (Bn.normalize { physical := t.physical, paxes := s.zipIdx.map (fun (n, i) => (next + i, n)),
                             vaxes := s.zipIdx.map (fun (n, i) => Axis.phys (next + i) n), default := t.default })
  else if Ax.numel s != numel then .assertion
  else
    let vnew : List Axis := s.zipIdx.map (fun (n, i) => if n == 1 then unitAxis else Axis.phys (next + i) n)
    match unify fuel (productAxis vnew) (productAxis t.vaxes) ⟨[], next + s.length⟩ with
    | (false, _) => .runtimeError
    | (true, st) =>
      let pax := t.paxes.flatMap (fun k => primeFactors st.subst FUEL (Axis.phys k.1 k.2))
      let paxes := pax.map (fun e => match e with | .phys v n => (v, n) | _ => (0, e.numel))
      .ok (Bn.normalize { physical := t.physical, paxes := paxes, vaxes := vnew.map (clone st.subst FUEL), default := t.default })

/-! ### the fuel side condition of the theorem `C06e.reshape_dense`, decidable per job -/

/-- no fuel was exhausted in `reshape fuel t s next`: no identity is bound twice by the unification, every prime factor of an
old physical axis is an unbound physical axis, no bound axis remains in the clones of the fresh axes -/
def resolved (fuel : Nat) (t : PT) (s : List Nat) (next : Nat) : Bool :=
  let vnew : List Axis := s.zipIdx.map (fun (n, i) => if n == 1 then unitAxis else Axis.phys (next + i) n)
  match unify fuel (productAxis vnew) (productAxis t.vaxes) ⟨[], next + s.length⟩ with
  | (false, _) => true
  | (true, st) =>
    nodupNat (st.subst.map (·.1)) &&
    t.paxes.all (fun k => (primeFactors st.subst FUEL (.phys k.1 k.2)).all (fun e =>
      match e with
      | .phys v _ => (bound st.subst v).isNone
      | _ => false)) &&
    vnew.all (fun a => (clone st.subst FUEL a).fv.all (fun q => (bound st.subst q.1).isNone))

def handle : List String → Option (Except String String)
  | "C06.reshape" :: rest => some do
      let (t, s, next) ← Tok.run (do let t ← parsePT; let s ← Tok.list Tok.nat; let n ← Tok.nat; pure (t, s, n)) rest
      match reshape FUEL t s next with
      | .ok r => pure ("ok " ++ Bn.showPT r ++ " " ++ showBool r.wf ++ " " ++ showBool (resolved FUEL t s next))
      | .runtimeError => pure "RuntimeError"
      | .assertion => pure "AssertionError"
  | _ => none

end Fggs.Rs
