/-
FggsModel.Iter — `PatternedTensor.dim_to_dense`, `__iter__` and `tolist` (fggs/indices.py; C06, and C14: `weights_to_json`
writes the weights of a factor by iterating the patterned tensor level by level).

`dim_to_dense(dim)` returns an equivalent tensor whose axis `dim` is dense and independent of the other axes (the unit
axis or a physical axis used nowhere else): the other axes are renamed to fresh physical axes `fv0`, a tensor over
`fv0 + (n,)` is filled with the default and the physical tensor is copied into it through `project(…, paxes, fv + (e,))`.
`__iter__` makes dimension 0 dense and yields the slices along its physical axis.  `tolist` is the nested list of the
elements: by `to_dense()` for one dimension, by iteration otherwise.
-/
import FggsModel.ShapeOps
import FggsModel.PatSolve

namespace Fggs.It
open Ax Un Sh

/-- `t.dim_to_dense(dim)` (non-negative dim); `none` = IndexError -/
def dimToDense (t : PT) (dim next : Nat) : Option PT :=
  match t.vaxes[dim]? with
  | none => none
  | some ed =>
    let others := t.vaxes.eraseIdx dim
    let fv := Ps.firstOcc others
    let alone := match ed with
      | .phys v _ => !fv.any (·.1 == v)
      | _ => false
    if isUnit ed || alone then some t
    else
      let ren := fv.zipIdx.map (fun (p : (Nat × Nat) × Nat) => (p.1.1, next + p.2))
      let fv0 := fv.map (fun k => ((ren.lookup k.1).getD k.1, k.2))
      let others' := Ps.renameList ren others
      let n := ed.numel
      -- `project(physical, self.paxes, fv + (e_dense,), {})[0].copy_(self.physical)` into a tensor full of the default
      let physical := (PT.mk t.physical t.paxes (fv.map (fun k => Axis.phys k.1 k.2) ++ [ed]) t.default).dense
      if n == 1 then
        some (Bn.normalize { physical := physical, paxes := fv0, vaxes := others'.take dim ++ [unitAxis] ++ others'.drop dim, default := t.default })
      else
        let k : Nat × Nat := (next + fv.length, n)
        some (Bn.normalize { physical := physical, paxes := fv0 ++ [k],
                             vaxes := others'.take dim ++ [Axis.phys k.1 k.2] ++ others'.drop dim, default := t.default })

/-- `list(iter(t))`; `none` = IndexError (no dimension) -/
def iter (t : PT) (next : Nat) : Option (List PT) :=
  match dimToDense t 0 next with
  | none => none
  | some d =>
    match d.vaxes with
    | [] => none
    | .phys v n :: rest =>
      let i := d.paxes.findIdx (·.1 == v)
      let paxes' := d.paxes.eraseIdx i
      some ((List.range n).map (fun j =>
        Bn.normalize
          { physical := (Ax.assigns (paxes'.map (·.2))).map (fun idx =>
              d.physical[Ax.flat (d.paxes.map (·.2)) (idx.take i ++ [j] ++ idx.drop i)]?.getD d.default),
            paxes := paxes', vaxes := rest, default := d.default }))
    | e :: rest => if isUnit e then some [{ d with vaxes := rest }] else none

/-- `t.tolist()` flattened (row-major); `fuel` bounds the number of dimensions -/
def tolist : Nat → PT → Nat → Option (List Ext)
  | 0, _, _ => none
  | fuel+1, t, next =>
    match t.vaxes with
    | [] => some [t.physical[0]?.getD t.default]
    | [_] => some t.dense
    | _ =>
      match iter t next with
      | none => none
      | some ts => (ts.mapM (fun s => tolist fuel s (next + t.paxes.length + 1))).map List.flatten

/-! ### operations along one dimension: `log_softmax(dim)` -/

/-- apply `f` to every fibre of the tensor along dimension `dim`, the way `log_softmax` does: make the dimension dense
(`dim_to_dense`), apply `f` along the physical axis that carries it, and give the unbacked cells the value `f` gives to a
constant fibre of defaults.  `f` is a parameter (for `log_softmax` it is not a rational function); `none` = IndexError. -/
def alongDense (f : List Ext → List Ext) (t : PT) (dim next : Nat) : Option PT :=
  match dimToDense t dim next with
  | none => none
  | some d =>
    match d.vaxes[dim]? with
    | none => none
    | some (.phys v n) =>
      let i := d.paxes.findIdx (·.1 == v)
      let sizes := d.paxes.map (·.2)
      let physical := (Ax.assigns sizes).map (fun idx =>
        let fibre := (List.range n).map (fun j => d.physical[Ax.flat sizes (idx.set i j)]?.getD d.default)
        (f fibre)[idx[i]?.getD 0]?.getD d.default)
      some { d with physical := physical, default := (f (List.replicate n d.default))[0]?.getD d.default }
    | some e =>
      if isUnit e then
        some { d with physical := d.physical.map (fun x => (f [x])[0]?.getD x), default := (f [d.default])[0]?.getD d.default }
      else none

/-- reduce every fibre along dimension `dim` with `g`, the way `norm(p, dim, keepdim)` does: make the dimension dense, reduce
along the physical axis that carries it (which disappears), give the unbacked cells the value `g` gives to a constant
fibre of defaults; `g` is a parameter (the p-norm is not a rational function).  For a dimension of size 1 the library
takes the absolute value of the single element: `g1` is that function (`g [x]`). -/
def reduceDense (g : List Ext → Ext) (t : PT) (dim : Nat) (keepdim : Bool) (next : Nat) : Option PT :=
  match dimToDense t dim next with
  | none => none
  | some d =>
    let vaxes := if keepdim then d.vaxes.set dim unitAxis else d.vaxes.eraseIdx dim
    match d.vaxes[dim]? with
    | none => none
    | some (.phys v n) =>
      let i := d.paxes.findIdx (·.1 == v)
      let sizes := d.paxes.map (·.2)
      let paxes' := d.paxes.eraseIdx i
      let physical := (Ax.assigns (paxes'.map (·.2))).map (fun idx =>
        g ((List.range n).map (fun j => d.physical[Ax.flat sizes (idx.take i ++ [j] ++ idx.drop i)]?.getD d.default)))
      some (Bn.normalize { physical := physical, paxes := paxes', vaxes := vaxes, default := g (List.replicate n d.default) })
    | some e =>
      if isUnit e then
        some { d with physical := d.physical.map (fun x => g [x]), vaxes := vaxes, default := g [d.default] }
      else none

/-- `log_softmax` of a vector, in floating point (for the correspondence only: the theorem is about an arbitrary `f`) -/
def extToFloat : Ext → Float
  | .nan => 0.0 / 0.0
  | .ninf => -(1.0 / 0.0)
  | .pinf => 1.0 / 0.0
  | .fin q => Float.ofInt q.num / Float.ofNat q.den

def logSoftmaxF (xs : List Float) : List Float :=
  let m := xs.foldl (fun a b => if b > a then b else a) (-(1.0 / 0.0))
  if m == 1.0 / 0.0 || m == -(1.0 / 0.0) || xs.any (fun x => x != x) then
    -- torch: an infinite maximum or a NaN makes the whole fibre NaN (inf - inf)
    xs.map (fun _ => 0.0 / 0.0)
  else
    let z := Float.log ((xs.map (fun x => Float.exp (x - m))).foldl (· + ·) 0.0)
    xs.map (fun x => x - m - z)

/-! ### protocol -/

def handle : List String → Option (Except String String)
  | "C06.dimToDense" :: rest => some do
      let (t, d, next) ← Tok.run (do let t ← parsePT; let d ← Tok.nat; let n ← Tok.nat; pure (t, d, n)) rest
      pure (showOptPT (dimToDense t d next))
  | "C06.iter" :: rest => some do
      let (t, next) ← Tok.run (do let t ← parsePT; let n ← Tok.nat; pure (t, n)) rest
      match iter t next with
      | none => pure "raises"
      | some ts => pure ("ok " ++ showList (fun r => Bn.showPT r ++ " " ++ showBool r.wf) ts)
  | "C06.logSoftmaxPattern" :: rest => some do
      -- the PATTERN of log_softmax(dim) (physical axes, virtual axes) and, cell by cell, the fibre the value is computed from:
      -- `f` = identity-with-a-tag is enough to compare patterns; the values are compared by the harness through `logSoftmaxF`
      let (t, d, next) ← Tok.run (do let t ← parsePT; let d ← Tok.nat; let n ← Tok.nat; pure (t, d, n)) rest
      match alongDense id t d next with
      | none => pure "raises"
      | some r =>
        -- recompute the values in floating point from the fibres of the dense-at-dim tensor
        match dimToDense t d next with
        | none => pure "raises"
        | some dd =>
          let vals : List Float := match dd.vaxes[d]? with
            | some (.phys v n) =>
              let i := dd.paxes.findIdx (·.1 == v)
              let sizes := dd.paxes.map (·.2)
              (Ax.assigns sizes).map (fun idx =>
                let fibre := (List.range n).map (fun j => extToFloat (dd.physical[Ax.flat sizes (idx.set i j)]?.getD dd.default))
                (logSoftmaxF fibre)[idx[i]?.getD 0]?.getD 0.0)
            | _ => dd.physical.map (fun x => (logSoftmaxF [extToFloat x])[0]?.getD 0.0)
          let n := match dd.vaxes[d]? with | some (.phys _ n) => n | _ => 1
          let dflt := (logSoftmaxF (List.replicate n (extToFloat dd.default)))[0]?.getD 0.0
          pure s!"ok {showList (fun (x : Float) => toString x.toBits) vals} {showList (fun (p : Nat × Nat) => s!"{p.1} {p.2}") r.paxes} {showList showAxis r.vaxes} {dflt.toBits} {showBool ({ r with physical := dd.physical }).wf}"
  | "C06.normPattern" :: rest => some do
      -- the PATTERN of norm(p, dim, keepdim) and its values through a floating-point p-norm
      let (t, d, keep, pn, next) ← Tok.run (do let t ← parsePT; let d ← Tok.nat; let k ← Tok.bool; let pn ← Tok.nat; let n ← Tok.nat; pure (t, d, k, pn, n)) rest
      match reduceDense (fun l => l.headD (.fin 0)) t d keep next, dimToDense t d next with
      | some r, some dd =>
        let normF := fun (xs : List Float) =>
          if pn == 1 then xs.foldl (fun a x => a + Float.abs x) 0.0
          else Float.sqrt (xs.foldl (fun a x => a + x * x) 0.0)
        let (vals, dflt) : List Float × Float := match dd.vaxes[d]? with
          | some (.phys v n) =>
            let i := dd.paxes.findIdx (·.1 == v)
            let sizes := dd.paxes.map (·.2)
            ((Ax.assigns ((dd.paxes.eraseIdx i).map (·.2))).map (fun idx =>
              normF ((List.range n).map (fun j => extToFloat (dd.physical[Ax.flat sizes (idx.take i ++ [j] ++ idx.drop i)]?.getD dd.default)))),
             normF (List.replicate n (extToFloat dd.default)))
          | _ => (dd.physical.map (fun x => normF [extToFloat x]), normF [extToFloat dd.default])
        pure s!"ok {showList (fun (x : Float) => toString x.toBits) vals} {showList (fun (p : Nat × Nat) => s!"{p.1} {p.2}") r.paxes} {showList showAxis r.vaxes} {dflt.toBits}"
      | _, _ => pure "raises"
  | "C06.tolist" :: rest => some do
      let (t, next) ← Tok.run (do let t ← parsePT; let n ← Tok.nat; pure (t, n)) rest
      match tolist 16 t next with
      | none => pure "raises"
      | some l => pure s!"ok {showList toString l} {showBool (toString l == toString t.dense)}"
  | _ => none

end Fggs.It
