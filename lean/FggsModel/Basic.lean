/-
FggsModel.Basic — shared vocabulary of the models (import-free: core Lean only).

* `Ext`     : IEEE-style extended scalars over exact rationals (every finite float is a rational).
* `Tok`     : the token protocol spoken between the python harness and the driver.
-/

namespace Fggs

/-- A float as the model sees it: `nan`, `-inf`, a finite value (exact rational), `+inf`.
Signed zeros and rounding are outside the model (see DESIGN 2.9). -/
inductive Ext where
  | nan
  | ninf
  | fin (a : Rat)
  | pinf
deriving DecidableEq, Repr, Inhabited

namespace Ext

def ofNat (n : Nat) : Ext := fin (n : Rat)
def zero : Ext := fin 0
def one : Ext := fin 1

/-- IEEE addition on specials, exact on finite values. -/
def add : Ext → Ext → Ext
  | nan, _ => nan
  | _, nan => nan
  | pinf, ninf => nan
  | ninf, pinf => nan
  | pinf, _ => pinf
  | _, pinf => pinf
  | ninf, _ => ninf
  | _, ninf => ninf
  | fin a, fin b => fin (a + b)

def neg : Ext → Ext
  | nan => nan
  | ninf => pinf
  | pinf => ninf
  | fin a => fin (-a)

def sub (x y : Ext) : Ext := add x (neg y)

/-- IEEE multiplication: `0 * inf = nan`. -/
def mul : Ext → Ext → Ext
  | nan, _ => nan
  | _, nan => nan
  | fin a, fin b => fin (a * b)
  | fin a, pinf => if a = 0 then nan else if 0 < a then pinf else ninf
  | fin a, ninf => if a = 0 then nan else if 0 < a then ninf else pinf
  | pinf, fin b => if b = 0 then nan else if 0 < b then pinf else ninf
  | ninf, fin b => if b = 0 then nan else if 0 < b then ninf else pinf
  | pinf, pinf => pinf
  | ninf, ninf => pinf
  | pinf, ninf => ninf
  | ninf, pinf => ninf

/-- IEEE division with a positive zero denominator (`a/0 = ±inf`, `0/0 = nan`). -/
def div : Ext → Ext → Ext
  | nan, _ => nan
  | _, nan => nan
  | fin a, fin b =>
      if b = 0 then (if a = 0 then nan else if 0 < a then pinf else ninf) else fin (a / b)
  | fin _, pinf => fin 0
  | fin _, ninf => fin 0
  | pinf, fin b => if 0 ≤ b then pinf else ninf
  | ninf, fin b => if 0 ≤ b then ninf else pinf
  | pinf, pinf => nan
  | pinf, ninf => nan
  | ninf, pinf => nan
  | ninf, ninf => nan

/-- `torch.maximum`: propagates nan. -/
def maximum : Ext → Ext → Ext
  | nan, _ => nan
  | _, nan => nan
  | pinf, _ => pinf
  | _, pinf => pinf
  | ninf, y => y
  | x, ninf => x
  | fin a, fin b => fin (max a b)

/-- comparisons: anything with nan is false -/
def le : Ext → Ext → Bool
  | nan, _ => false
  | _, nan => false
  | ninf, _ => true
  | _, pinf => true
  | pinf, _ => false
  | _, ninf => false
  | fin a, fin b => decide (a ≤ b)

def lt : Ext → Ext → Bool
  | nan, _ => false
  | _, nan => false
  | pinf, _ => false
  | _, ninf => false
  | ninf, _ => true
  | _, pinf => true
  | fin a, fin b => decide (a < b)

def ge (x y : Ext) : Bool := le y x
def gt (x y : Ext) : Bool := lt y x

/-- IEEE `==` (nan ≠ nan). -/
def eqIEEE : Ext → Ext → Bool
  | nan, _ => false
  | _, nan => false
  | x, y => decide (x = y)

def relu : Ext → Ext
  | nan => nan
  | ninf => fin 0
  | pinf => pinf
  | fin a => fin (max a 0)

def abs : Ext → Ext
  | nan => nan
  | ninf => pinf
  | pinf => pinf
  | fin a => fin (if a < 0 then -a else a)

/-- `torch.nan_to_num(x, nan, posinf, neginf)`.  A missing `posinf`/`neginf` means
"largest finite value of the dtype"; the model keeps that as the distinguished constants
`big`/`-big` so that a forgotten keyword is visible. -/
def nanToNum (big : Rat) (nanV : Ext) (posinf neginf : Option Ext) : Ext → Ext
  | nan => nanV
  | pinf => posinf.getD (fin big)
  | ninf => neginf.getD (fin (-big))
  | fin a => fin a

def isFinite : Ext → Bool
  | fin _ => true
  | _ => false

def toString : Ext → String
  | nan => "nan"
  | ninf => "-inf"
  | pinf => "inf"
  | fin a => if a.den = 1 then s!"{a.num}" else s!"{a.num}/{a.den}"

instance : ToString Ext := ⟨Ext.toString⟩

end Ext

/-! ## Token protocol -/

abbrev Parser := StateT (List String) (Except String)

namespace Tok

def next : Parser String := do
  match (← get) with
  | [] => throw "unexpected end of input"
  | t :: ts => set ts; pure t

def nat : Parser Nat := do
  let t ← next
  match t.toNat? with
  | some n => pure n
  | none => throw s!"expected nat, got '{t}'"

def int : Parser Int := do
  let t ← next
  match t.toInt? with
  | some n => pure n
  | none => throw s!"expected int, got '{t}'"

def bool : Parser Bool := do
  let t ← next
  match t with
  | "T" => pure true
  | "F" => pure false
  | _ => throw s!"expected T/F, got '{t}'"

def parseRat (t : String) : Option Rat :=
  match t.splitOn "/" with
  | [p] => p.toInt?.map fun n => (n : Rat)
  | [p, q] => do
      let n ← p.toInt?
      let d ← q.toNat?
      if d = 0 then none else some (mkRat n d)
  | _ => none

def rat : Parser Rat := do
  let t ← next
  match parseRat t with
  | some r => pure r
  | none => throw s!"expected rational, got '{t}'"

def ext : Parser Ext := do
  let t ← next
  match t with
  | "nan" => pure Ext.nan
  | "inf" => pure Ext.pinf
  | "-inf" => pure Ext.ninf
  | _ => match parseRat t with
    | some r => pure (Ext.fin r)
    | none => throw s!"expected scalar, got '{t}'"

/-- length-prefixed list -/
def list {α} (p : Parser α) : Parser (List α) := do
  let n ← nat
  let rec go : Nat → List α → Parser (List α)
    | 0, acc => pure acc.reverse
    | k+1, acc => do let x ← p; go k (x :: acc)
  go n []

def str : Parser String := next

def optional {α} (p : Parser α) : Parser (Option α) := do
  let t ← next
  match t with
  | "none" => pure none
  | "some" => some <$> p
  | _ => throw s!"expected none/some, got '{t}'"

def done : Parser Unit := do
  match (← get) with
  | [] => pure ()
  | t :: _ => throw s!"trailing token '{t}'"

/-- run a parser on a whitespace-separated line -/
def run {α} (p : Parser α) (toks : List String) : Except String α :=
  (do let x ← p; done; pure x : Parser α).run' toks

end Tok

/-! ## Printing -/

def showList {α} (f : α → String) (l : List α) : String :=
  String.intercalate " " (toString l.length :: l.map f)

def showBool (b : Bool) : String := if b then "T" else "F"

def showOpt {α} (f : α → String) : Option α → String
  | none => "none"
  | some x => "some " ++ f x

end Fggs
