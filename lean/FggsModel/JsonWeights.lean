/-
FggsModel.JsonWeights — `json_to_weights` (fggs/formats.py, C14) for a patterned specification
`{"physical": …, "expand": […], "vaxes": […], "default": d}` and for a plain nested list, and the round trip of a factor's
weights through `weights_to_json` (which writes `tolist()`, model `It.tolist`).

A patterned specification names its physical axes by POSITION: first the broadcast dimensions of `expand`, then the
dimensions of the physical nested list; `vaxes` is a list of axis specifications — a number (that physical axis), a list
(a product, through the smart constructor `productAxis`), or `{"before", "term", "after"}` (a sum).  Without `"vaxes"` the
constructor is called with physical axes but no virtual axes and fails its assertion (`none`).
-/
import FggsModel.Iter

namespace Fggs.Jw
open Ax Un

inductive AxisSpec where
  | ref (i : Nat)
  | prod (fs : List AxisSpec)
  | sum (before : Nat) (term : AxisSpec) (after : Nat)

mutual
/-- `json_to_axis(r, env)`; `none` = IndexError (a reference outside the physical axes) -/
def toAxis (env : List (Nat × Nat)) : AxisSpec → Option Axis
  | .ref i => (env[i]?).map (fun k => Axis.phys k.1 k.2)
  | .prod fs => (toAxisList env fs).map productAxis
  | .sum b t a => (toAxis env t).map (fun e => Axis.sum b e a)
def toAxisList (env : List (Nat × Nat)) : List AxisSpec → Option (List Axis)
  | [] => some []
  | f :: fs => match toAxis env f, toAxisList env fs with
    | some e, some es => some (e :: es)
    | _, _ => none
end

/-- `json_to_weights` of a patterned specification: `physShape`/`physical` = the nested list (flat, row-major) -/
def fromSpec (physShape : List Nat) (physical : List Ext) (expand : List Nat) (vaxes : Option (List AxisSpec)) (default : Ext)
    (next : Nat) : Option PT :=
  let sizes := expand ++ physShape
  let paxes : List (Nat × Nat) := sizes.zipIdx.map (fun (p : Nat × Nat) => (next + p.2, p.1))
  match vaxes with
  | none => none
  | some vs =>
    match toAxisList paxes vs with
    | none => none
    | some es =>
      -- `physical.expand([*expand, -1, …])`: the new leading dimensions are broadcast
      some (Bn.normalize { physical := (List.replicate (Ax.numel expand) physical).flatten, paxes := paxes, vaxes := es, default := default })

/-- `json_to_weights` of a plain nested list: a dense tensor -/
def fromNested (shape : List Nat) (flat : List Ext) (next : Nat) : PT :=
  Bn.normalize
    { physical := flat, paxes := shape.zipIdx.map (fun (p : Nat × Nat) => (next + p.2, p.1)),
      vaxes := shape.zipIdx.map (fun (p : Nat × Nat) => Axis.phys (next + p.2) p.1), default := Ext.fin 0 }

/-! ### `default_to` and `clone` -/

/-- `t.default_to(d)`: the tensor itself if it has that default already (NaN counts as equal to NaN), otherwise the DENSE
tensor `PatternedTensor(self.to_dense(), default=d)` — this is how `einsum` and `solve` bring their operands to the
semiring zero as default -/
def defaultTo (t : PT) (d : Ext) (next : Nat) : PT :=
  if Sh.sameDefault t.default d then t
  else
    Bn.normalize
      { physical := t.dense, paxes := t.vshape.zipIdx.map (fun (p : Nat × Nat) => (next + p.2, p.1)),
        vaxes := t.vshape.zipIdx.map (fun (p : Nat × Nat) => Axis.phys (next + p.2) p.1), default := d }

/-- `t.clone()` / `t.freshen()` / `copy_`'s re-patterning: the physical axes are replaced by fresh ones, in order -/
def cloneT (t : PT) (next : Nat) : PT :=
  let ren := t.paxes.zipIdx.map (fun (p : (Nat × Nat) × Nat) => (p.1.1, next + p.2))
  { t with paxes := t.paxes.map (fun k => ((ren.lookup k.1).getD k.1, k.2)), vaxes := Ps.renameList ren t.vaxes }

/-! ### protocol -/

partial def parseSpec : Parser AxisSpec := do
  let k ← Tok.next
  match k with
  | "R" => do let i ← Tok.nat; pure (.ref i)
  | "X" => .prod <$> Tok.list parseSpec
  | "S" => do let b ← Tok.nat; let t ← parseSpec; let a ← Tok.nat; pure (.sum b t a)
  | _ => throw s!"bad axis spec {k}"

def handle : List String → Option (Except String String)
  | "C14.weights" :: rest => some do
      let (ps, ph, ex, vs, d, next) ← Tok.run (do
        let ps ← Tok.list Tok.nat; let ph ← Tok.list Tok.ext; let ex ← Tok.list Tok.nat
        let vs ← Tok.optional (Tok.list parseSpec); let d ← Tok.ext; let n ← Tok.nat; pure (ps, ph, ex, vs, d, n)) rest
      match fromSpec ps ph ex vs d next with
      | none => pure "raises"
      | some r => pure s!"ok {Bn.showPT r} {showBool r.wf} {showList toString r.vshape} {showList toString r.dense}"
  | "C06.defaultTo" :: rest => some do
      let (t, d, next) ← Tok.run (do let t ← parsePT; let d ← Tok.ext; let n ← Tok.nat; pure (t, d, n)) rest
      let r := defaultTo t d next
      pure ("ok " ++ Bn.showPT r ++ " " ++ showBool r.wf)
  | "C06.clone" :: rest => some do
      let (t, next) ← Tok.run (do let t ← parsePT; let n ← Tok.nat; pure (t, n)) rest
      let r := cloneT t next
      pure ("ok " ++ Bn.showPT r ++ " " ++ showBool r.wf)
  | "C14.roundtrip" :: rest => some do
      let (t, next) ← Tok.run (do let t ← parsePT; let n ← Tok.nat; pure (t, n)) rest
      match It.tolist 16 t next with
      | none => pure "raises"
      | some l =>
        let r := fromNested t.vshape l (next + 1000)
        pure s!"{showBool (toString r.dense == toString t.dense)} {showBool r.wf}"
  | _ => none

end Fggs.Jw
