/-
FggsModel.Where — `PatternedTensor.where` (fggs/indices.py, C06): `t.where(c, u)` selects `t` where the Boolean tensor `c`
is true and `u` elsewhere.  The library swaps `t` and `u` when `c.default` is true (so that the cells `c` does not back
select the operand called `u` below), anti-unifies the virtual axes of `c` and `u` (left to right, one anti-substitution)
into the result pattern `lggs` over fresh axes `gs`, lays `u` out densely over `gs`, and overwrites the positions that
`c` backs and selects: with `t`'s element where the patterns of `t` and `c` overlap (found by unification), with
`t.default` elsewhere.  The model states the outcome of that overwriting directly — position γ of the result holds `t`'s
dense cell if `c` selects the cell γ denotes, else `u`'s laid-out element — and is compared with the library's result
token by token; operands have one shape (no broadcasting).
-/
import FggsModel.ShapeOps

namespace Fggs.Wh
open Ax Un Sh

def whereOp (fuel : Nat) (t c u : PT) (next : Nat) : PT :=
  let swapped := truthy c.default
  let t' := if swapped then u else t
  let u' := if swapped then t else u
  let r := antiunifyAll fuel (c.vaxes.zip u'.vaxes) ⟨[], next⟩
  let lggs := r.1
  let gs := r.2.pairs.map (·.2)
  let eus := r.2.pairs.map (·.1.2)
  -- `PatternedTensor(up, u_paxes, eus, u.default).to_dense()`: u laid out over the fresh axes
  let uLay := (PT.mk u'.physical u'.paxes eus u'.default).dense
  let physical := (Ax.assigns (gs.map (·.2))).zipIdx.map (fun (p : List Nat × Nat) =>
    let ρ := envOf gs p.1
    let cell := lggs.map (Axis.eval ρ)
    let cv := c.dense[Ax.flat c.vshape cell]?.getD c.default
    let sel := if swapped then !truthy cv else truthy cv
    if sel then t'.dense[Ax.flat t'.vshape cell]?.getD t'.default else uLay[p.2]?.getD u'.default)
  Bn.normalize { physical := physical, paxes := gs, vaxes := lggs, default := u'.default }

def handle : List String → Option (Except String String)
  | "C06.where" :: rest => some do
      let (t, c, u, next) ← Tok.run (do let t ← parsePT; let c ← parsePT; let u ← parsePT; let n ← Tok.nat; pure (t, c, u, n)) rest
      let r := whereOp FUEL t c u next
      pure ("ok " ++ Bn.showPT r ++ " " ++ showBool r.wf)
  | _ => none

end Fggs.Wh
