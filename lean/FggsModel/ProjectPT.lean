/-
FggsModel.ProjectPT — the method `PatternedTensor.project(paxes, vaxes)` (fggs/indices.py; C06, and C03: the backward pass
brings every gradient back onto its input's physical storage with it): "extract a view of self so that indexing into the
returned tensor according to `paxes` is equivalent to indexing into self according to `vaxes`".  A tensor over `paxes`
full of the default is created; the virtual axes of `self` are unified with `vaxes`; where they overlap, the elements of
`self.physical` are copied over through two strided views (`project` on the new tensor and on `self.physical`, both over
the free axes under the unifier).  The target axes arrive with identities disjoint from the tensor's (the library renames
them when they are not).  `none` = the ValueError of the inner `project`.
-/
import FggsModel.EqualImpl

namespace Fggs.Pj
open Ax Un Sd

def projectPT (fuel : Nat) (t : PT) (paxes : List (Nat × Nat)) (vaxes : List Axis) (next : Nat) : Option (List Ext) :=
  let sizes := paxes.map (·.2)
  let ret0 : List Ext := List.replicate (Ax.numel sizes) t.default
  match unifyAll fuel (t.vaxes.zip vaxes) ⟨[], next⟩ with
  | (false, _) => some ret0
  | (true, st) =>
    let σ := st.subst
    -- `subret, subaxes = project(ret, None, paxes, subst)`
    let r := project (contiguous sizes) (paxes.map (fun k => Axis.phys k.1 k.2)) σ
    let subaxes := r.2
    -- `subself, _ = project(self.physical, subaxes, self.paxes, subst)`
    match projectOnto (contiguous (t.paxes.map (·.2))) subaxes (t.paxes.map (fun k => Axis.phys k.1 k.2)) σ with
    | none => none
    | some wself =>
      some ((Ax.assigns (subaxes.map (·.2))).foldl (fun (arr : Array Ext) (idx : List Nat) =>
        arr.setIfInBounds (r.1.addr idx) (t.physical[wself.addr idx]?.getD t.default)) ret0.toArray).toList

/-- the side conditions of the theorem `C06p.projectPT_cells`, decided per job: a failed unification fails on disjoint patterns
and a successful one did not exhaust the fuel (as for `equal`, model `Eq.faithful` / `Eq.resolved`) -/
def faithful (fuel : Nat) (t : PT) (paxes : List (Nat × Nat)) (vaxes : List Axis) (next : Nat) : Bool :=
  let target : PT := { physical := [], paxes := paxes, vaxes := vaxes, default := t.default }
  Eq.faithful fuel t target next && Eq.resolved fuel t target next

/-- every requested physical axis occurs in some requested virtual axis (otherwise the inner `project` raises: hypothesis
`hcover` of `C06p.projectPT_cells`) -/
def covers (paxes : List (Nat × Nat)) (vaxes : List Axis) : Bool :=
  paxes.all (fun q => vaxes.any (fun e => e.fv.contains q))

def handle : List String → Option (Except String String)
  | "C06.projectPT" :: rest => some do
      let (t, pax, vax, next) ← Tok.run (do
        let t ← parsePT; let p ← Tok.list (do let v ← Tok.nat; let n ← Tok.nat; pure (v, n)); let a ← Tok.list parseAxis; let n ← Tok.nat
        pure (t, p, a, n)) rest
      match projectPT FUEL t pax vax next with
      | none => pure "ValueError"
      | some l => pure s!"ok {showList toString l} {showBool (faithful FUEL t pax vax next && covers pax vax)}"
  | _ => none

end Fggs.Pj
