/-
FggsModel.Json — model of the rule-level part of fggs/formats.py: hrg_to_json / json_to_hrg (C14).

A rule's right-hand side is given positionally: nodes in insertion order, every node/edge with its
sort key `str(id)` (the explicit id string, or the decimal rendering of the implicit integer id)
and whether the id is explicit (`persist_id`).  Python's `sorted(..., key=str(id))` is a stable
sort by code-point order, as `List.mergeSort` with `String`'s `<` is.
-/
import FggsModel.Basic

namespace Fggs.J

structure RNode where
  label : String
  key : String          -- str(id)
  explicit : Bool
deriving DecidableEq, Repr, Inhabited

structure REdge where
  label : String
  att : List Nat        -- positions in the rule's node list
  key : String
  explicit : Bool
deriving DecidableEq, Repr, Inhabited

structure Rule where
  lhs : String
  nodes : List RNode
  edges : List REdge
  ext : List Nat
deriving DecidableEq, Repr, Inhabited

/-- the JSON form of a rule -/
structure JNode where
  label : String
  id : Option String
deriving DecidableEq, Repr, Inhabited

structure JEdge where
  att : List Int        -- JSON numbers: may be negative or out of range in hand-written input
  label : String
  id : Option String
deriving DecidableEq, Repr, Inhabited

structure JRule where
  lhs : String
  nodes : List JNode
  edges : List JEdge
  ext : List Int
deriving DecidableEq, Repr, Inhabited

def keyLe (a b : String) : Bool := !(b < a)

/-- positions `0..n-1` stably sorted by the key at that position -/
def sortedPositions (keys : List String) : List Nat :=
  (List.range keys.length).mergeSort (fun i j => keyLe (keys[i]?.getD "") (keys[j]?.getD ""))

/-- `node_nums = {v: vi for vi, v in enumerate(nodes)}` : position in the sorted list -/
def rank (order : List Nat) (p : Nat) : Nat := order.findIdx (· == p)

/-- `hrg_to_json`, one rule -/
def toJson (r : Rule) : JRule :=
  let order := sortedPositions (r.nodes.map (·.key))
  let jn : List JNode := order.map (fun p =>
    let n := r.nodes[p]?.getD default
    ⟨n.label, if n.explicit then some n.key else none⟩)
  let eorder := sortedPositions (r.edges.map (·.key))
  let je : List JEdge := eorder.map (fun p =>
    let e := r.edges[p]?.getD default
    ⟨e.att.map (fun v => (rank order v : Int)), e.label, if e.explicit then some e.key else none⟩)
  ⟨r.lhs, jn, je, r.ext.map (fun v => (rank order v : Int))⟩

/-- `nodes[vi]` guarded by `0 <= vi < len(nodes)` (after the fix for D3) -/
def index? (n : Nat) (vi : Int) : Option Nat :=
  if 0 ≤ vi ∧ vi < (n : Int) then some vi.toNat else none

/-- `json_to_hrg`, one rule.  `fresh k` is the key of the k-th object created without an id.
Errors: `none` = ValueError (bad index, duplicate explicit id). -/
def fromJson (fresh : Nat → String) (j : JRule) : Option Rule := do
  let nodes : List RNode := (j.nodes.zipIdx).map (fun (n, k) =>
    match n.id with
    | some s => ⟨n.label, s, true⟩
    | none => ⟨n.label, fresh k, false⟩)
  -- `rhs.add_node` rejects a second node with the same id
  if !(nodes.map (·.key)).Nodup then none
  let edges ← (j.edges.zipIdx).mapM (fun (e, k) => do
    let att ← e.att.mapM (index? nodes.length)
    pure (match e.id with
      | some s => (⟨e.label, att, s, true⟩ : REdge)
      | none => ⟨e.label, att, fresh (nodes.length + k), false⟩))
  if !(edges.map (·.key)).Nodup then none
  let ext ← j.ext.mapM (index? nodes.length)
  pure ⟨j.lhs, nodes, edges, ext⟩

/-! ### protocol -/

def parseStr : Parser String := Tok.next     -- harness sends tokens without spaces

def parseRule : Parser Rule := do
  let lhs ← parseStr
  let nodes ← Tok.list (do let l ← parseStr; let k ← parseStr; let e ← Tok.bool; pure (⟨l, k, e⟩ : RNode))
  let edges ← Tok.list (do
    let l ← parseStr; let att ← Tok.list Tok.nat; let k ← parseStr; let e ← Tok.bool
    pure (⟨l, att, k, e⟩ : REdge))
  let ext ← Tok.list Tok.nat
  pure ⟨lhs, nodes, edges, ext⟩

def parseJRule : Parser JRule := do
  let lhs ← parseStr
  let nodes ← Tok.list (do let l ← parseStr; let i ← Tok.optional parseStr; pure (⟨l, i⟩ : JNode))
  let edges ← Tok.list (do
    let att ← Tok.list Tok.int; let l ← parseStr; let i ← Tok.optional parseStr
    pure (⟨att, l, i⟩ : JEdge))
  let ext ← Tok.list Tok.int
  pure ⟨lhs, nodes, edges, ext⟩

def showJRule (j : JRule) : String :=
  s!"{j.lhs} " ++ showList (fun (n : JNode) => s!"{n.label} {showOpt id n.id}") j.nodes ++ " " ++
  showList (fun (e : JEdge) => s!"{showList toString e.att} {e.label} {showOpt id e.id}") j.edges ++ " " ++
  showList toString j.ext

def showRule (r : Rule) : String :=
  s!"{r.lhs} " ++ showList (fun (n : RNode) => s!"{n.label} {n.key} {showBool n.explicit}") r.nodes ++ " " ++
  showList (fun (e : REdge) => s!"{e.label} {showList toString e.att} {e.key} {showBool e.explicit}") r.edges ++ " " ++
  showList toString r.ext

def handle : List String → Option (Except String String)
  | "C14.toJson" :: rest => some do
      let r ← Tok.run parseRule rest
      pure (showJRule (toJson r))
  | "C14.fromJson" :: rest => some do
      let j ← Tok.run parseJRule rest
      match fromJson (fun k => s!"~{k}") j with
      | some r => pure ("ok " ++ showRule r)
      | none => pure "ValueError"
  | _ => none

end Fggs.J
