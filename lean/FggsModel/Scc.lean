/-
FggsModel.Scc — model of fggs.utils.scc / nonterminal_graph (C19).

`Impl.scc` transcribes the recursive Tarjan of utils.py as a state-passing recursion with fuel
`|V| + 1` (Python's recursion has none; the fuel bounds the recursion depth because every nested
call indexes one more vertex).  `sccOk` is the executable decider of the contract
("partition into strongly connected sets, no edge into a later component").
-/
import FggsModel.Basic

namespace Fggs.Scc

/-- adjacency as an insertion-ordered association list (a Python dict of dicts) -/
abbrev Graph := List (Nat × List Nat)

def verts (g : Graph) : List Nat := g.map (·.1)
def succs (g : Graph) (v : Nat) : List Nat := (g.lookup v).getD []

structure St where
  index : Nat := 0
  indexof : List (Nat × Nat) := []
  lowlink : List (Nat × Nat) := []
  stack : List Nat := []          -- head = top of stack
  comps : List (List Nat) := []   -- emission order
deriving Repr

def setKV (l : List (Nat × Nat)) (k v : Nat) : List (Nat × Nat) :=
  (k, v) :: l.filter (fun p => p.1 != k)
def getKV (l : List (Nat × Nat)) (k : Nat) : Nat := (l.lookup k).getD 0

/-- `while v not in comp: w = stack.pop(); comp[w] = None` — returns (component in pop order, rest) -/
def popUntil (v : Nat) : List Nat → List Nat → List Nat × List Nat
  | [], acc => (acc.reverse, [])
  | w :: rest, acc => if w == v then ((w :: acc).reverse, rest) else popUntil v rest (w :: acc)

def visit (g : Graph) : Nat → St → Nat → St
  | 0, s, _ => s
  | fuel+1, s, v =>
    let s : St := { s with indexof := setKV s.indexof v s.index, lowlink := setKV s.lowlink v s.index,
                           index := s.index + 1, stack := v :: s.stack }
    let s := (succs g v).foldl (fun (s : St) w =>
      if (s.indexof.lookup w).isNone then
        let s := visit g fuel s w
        { s with lowlink := setKV s.lowlink v (min (getKV s.lowlink v) (getKV s.lowlink w)) }
      else if s.stack.contains w then
        { s with lowlink := setKV s.lowlink v (min (getKV s.lowlink v) (getKV s.indexof w)) }
      else s) s
    if getKV s.lowlink v == getKV s.indexof v then
      let (comp, rest) := popUntil v s.stack []
      { s with stack := rest, comps := s.comps ++ [comp] }
    else s

def Impl.scc (g : Graph) : List (List Nat) :=
  (g.foldl (fun (s : St) (p : Nat × List Nat) =>
    if (s.indexof.lookup p.1).isNone then visit g (g.length + 1) s p.1 else s) {}).comps

/-! ### the contract, executable -/

/-- one round of successor closure -/
def stepSet (g : Graph) (seen : List Nat) : List Nat :=
  seen.foldl (fun acc v => (succs g v).foldl (fun acc w => if acc.contains w then acc else acc ++ [w]) acc) seen

def closure (g : Graph) : Nat → List Nat → List Nat
  | 0, s => s
  | n+1, s => closure g n (stepSet g s)

/-- reachability by `|V|` rounds of closure -/
def reach (g : Graph) (u v : Nat) : Bool := (closure g g.length [u]).contains v

/-- every successor is itself a key (Python would raise KeyError otherwise) and keys are distinct -/
def graphWF (g : Graph) : Bool :=
  g.all (fun p => p.2.all (fun w => (verts g).contains w)) &&
  (List.range g.length).all (fun i => (List.range g.length).all (fun j => i == j || (verts g)[i]! != (verts g)[j]!))

def sccOk (g : Graph) (cs : List (List Nat)) : Bool :=
  -- every vertex is in some component, components hold vertices only
  (verts g).all (fun v => cs.any (·.contains v)) &&
  cs.all (fun c => c.all (fun v => (verts g).contains v)) &&
  -- components are pairwise disjoint and non-empty
  (List.range cs.length).all (fun i => (List.range cs.length).all (fun j =>
      i == j || (cs[i]!).all (fun v => !(cs[j]!).contains v))) &&
  cs.all (fun c => !c.isEmpty) &&
  -- strongly connected
  cs.all (fun c => c.all fun u => c.all fun v => reach g u v) &&
  -- no edge into a later component
  (List.range cs.length).all (fun i => (cs[i]!).all fun u => (succs g u).all fun w =>
      (List.range cs.length).all fun j => !(decide (i < j) && (cs[j]!).contains w))

/-! ### nonterminal_graph -/

/-- an HRG as far as nonterminal_graph sees it: the nonterminals in label-table order and, per
rule in `all_rules()` order, the lhs and the *nonterminal* labels of the rhs edges in edge order -/
structure NTView where
  nonterminals : List Nat
  rules : List (Nat × List Nat)

/-- `g = {x: dict() for x in nonterminals}; for r in all_rules: for e in rhs.edges: g[r.lhs][e.label] = None` -/
def Impl.nonterminalGraph (h : NTView) : Graph :=
  h.rules.foldl (fun g (r : Nat × List Nat) =>
      g.map (fun p => if p.1 == r.1 then (p.1, r.2.foldl (fun acc y => if acc.contains y then acc else acc ++ [y]) p.2) else p))
    (h.nonterminals.map (fun x => (x, [])))

/-! ### protocol -/

def parseGraph : Parser Graph := Tok.list (do let v ← Tok.nat; let ss ← Tok.list Tok.nat; pure (v, ss))
def showComps (cs : List (List Nat)) : String := showList (showList toString) cs
def showGraph (g : Graph) : String := showList (fun p => s!"{p.1} {showList toString p.2}") g

def handle : List String → Option (Except String String)
  | "C19.scc" :: rest => some do
      let g ← Tok.run parseGraph rest
      pure (showComps (Impl.scc g))
  | "C19.ok" :: rest => some do
      let (g, cs) ← Tok.run (do let g ← parseGraph; let cs ← Tok.list (Tok.list Tok.nat); pure (g, cs)) rest
      pure (showBool (graphWF g) ++ " " ++ showBool (sccOk g cs))
  | "C19.ntgraph" :: rest => some do
      let h ← Tok.run (do
        let nts ← Tok.list Tok.nat
        let rs ← Tok.list (do let l ← Tok.nat; let ys ← Tok.list Tok.nat; pure (l, ys))
        pure ({ nonterminals := nts, rules := rs } : NTView)) rest
      pure (showGraph (Impl.nonterminalGraph h))
  | _ => none

end Fggs.Scc
