/-
FggsModel.Multi — model of `multi_solve` and `multi_mv` (fggs/multi.py, C09): block Gauss–Jordan elimination over
a dictionary of matrix blocks `a[x, y]` (an absent block is zero) and vector blocks `b[x]`, in an elimination order
of the nonterminals, with the semiring `solve` (least solution of a dense block system, `Sv.solveLoop` column by
column) on the diagonal blocks.

The elimination order comes from `_order_nonterminals`, whose result depends on Python set iteration order; it is
a parameter here (the theorems hold for every duplicate-free order that lists every nonterminal).
-/
import FggsModel.Solve

namespace Fggs.Ms
open Sem

variable {K : Type}

abbrev Mat (K : Type) := List (List K)

/-- the blocks of a MultiTensor of matrices / vectors: Python dicts, as insertion-ordered association lists -/
abbrev MBlocks (K : Type) := List ((Nat × Nat) × Mat K)
abbrev VBlocks (K : Type) := List (Nat × List K)

def getA (a : MBlocks K) (x y : Nat) : Option (Mat K) := a.lookup (x, y)
def getB (b : VBlocks K) (x : Nat) : Option (List K) := b.lookup x

/-- `d[k] = v`: overwrite in place or append -/
def setA (a : MBlocks K) (x y : Nat) (m : Mat K) : MBlocks K :=
  if a.any (fun p => p.1 == (x, y)) then a.map (fun p => if p.1 == (x, y) then ((x, y), m) else p) else a ++ [((x, y), m)]
def setB (b : VBlocks K) (x : Nat) (v : List K) : VBlocks K :=
  if b.any (fun p => p.1 == x) then b.map (fun p => if p.1 == x then (x, v) else p) else b ++ [(x, v)]

/-! ### dense block arithmetic (sizes are given: `r × c`) -/

def matGet (S : SR K) (m : Mat K) (i j : Nat) : K := Sv.getM S m i j

def matAdd (S : SR K) (r c : Nat) (m1 m2 : Mat K) : Mat K :=
  (List.range r).map (fun i => (List.range c).map (fun j => S.add (matGet S m1 i j) (matGet S m2 i j)))

/-- `(r × k) · (k × c)` -/
def matMul (S : SR K) (r k c : Nat) (m1 m2 : Mat K) : Mat K :=
  (List.range r).map (fun i => (List.range c).map (fun j =>
    S.sum ((List.range k).map (fun l => S.mul (matGet S m1 i l) (matGet S m2 l j)))))

def matVec (S : SR K) (r k : Nat) (m : Mat K) (v : List K) : List K :=
  (List.range r).map (fun i => S.sum ((List.range k).map (fun l => S.mul (matGet S m i l) (Sv.getV S v l))))

def vecAdd (S : SR K) (r : Nat) (v1 v2 : List K) : List K :=
  (List.range r).map (fun i => S.add (Sv.getV S v1 i) (Sv.getV S v2 i))

def transpose (S : SR K) (r c : Nat) (m : Mat K) : Mat K :=
  (List.range c).map (fun j => (List.range r).map (fun i => matGet S m i j))

/-- `A.solve(B)`: the least solution `X` of `X = A·X + B` for an `n × n` block `A` and an `n × c` block `B`, column by
column with the elimination loop of `solve_thunks` -/
def blockSolve (S : SR K) (star : K → K) (n c : Nat) (a : Mat K) (b : Mat K) : Mat K :=
  let asq : Mat K := (List.range n).map (fun i => (List.range n).map (fun j => matGet S a i j))
  let cols := (List.range c).map (fun j => Sv.solveLoop S star asq ((List.range n).map (fun i => matGet S b i j)))
  (List.range n).map (fun i => (List.range c).map (fun j => Sv.getV S (cols[j]?.getD []) i))

def blockSolveVec (S : SR K) (star : K → K) (n : Nat) (a : Mat K) (b : List K) : List K :=
  let asq : Mat K := (List.range n).map (fun i => (List.range n).map (fun j => matGet S a i j))
  Sv.solveLoop S star asq ((List.range n).map (fun i => Sv.getV S b i))

/-- `add_single` -/
def addA (S : SR K) (a : MBlocks K) (x y r c : Nat) (m : Mat K) : MBlocks K :=
  match getA a x y with
  | some old => setA a x y (matAdd S r c old m)
  | none => setA a x y m
def addB (S : SR K) (b : VBlocks K) (x r : Nat) (v : List K) : VBlocks K :=
  match getB b x with
  | some old => setB b x (vecAdd S r old v)
  | none => setB b x v

/-! ### multi_solve -/

/-- one step `(z, x)` of the LU phase: `x` is later than `z` in the order -/
def luStep (S : SR K) (star : K → K) (sz : Nat → Nat) (rest : List Nat) (z x : Nat)
    (st : MBlocks K × VBlocks K) : MBlocks K × VBlocks K :=
  let (a, b) := st
  match getA a x z with
  | none => (a, b)
  | some axz0 =>
    -- a[x,z] ← (a[z,z]ᵀ.solve(a[x,z]ᵀ))ᵀ   (that is a[x,z]·a[z,z]*)
    let a1 := match getA a z z with
      | some azz =>
        let xt := blockSolve S star (sz z) (sz x) (transpose S (sz z) (sz z) azz) (transpose S (sz x) (sz z) axz0)
        setA a x z (transpose S (sz z) (sz x) xt)
      | none => a
    let axz := (getA a1 x z).getD []
    let a2 := rest.foldl (fun (acc : MBlocks K) y =>
      match getA acc z y with
      | some azy => addA S acc x y (sz x) (sz y) (matMul S (sz x) (sz z) (sz y) axz azy)
      | none => acc) a1
    let b2 := match getB b z with
      | some bz => addB S b x (sz x) (matVec S (sz x) (sz z) axz bz)
      | none => b
    (a2, b2)

/-- the LU phase: `for k, z in enumerate(order): for x in order[k+1:]: …` -/
def luPhase (S : SR K) (star : K → K) (sz : Nat → Nat) : List Nat → MBlocks K × VBlocks K → MBlocks K × VBlocks K
  | [], st => st
  | z :: rest, st => luPhase S star sz rest (rest.foldl (fun st x => luStep S star sz rest z x st) st)

/-- the back-substitution phase, for `z = order[k]` with `before = order[:k]`:
`b[z] ← a[z,z].solve(b[z]); for x in reversed(before): b[x] += a[x,z]·b[z]` -/
def backStep (S : SR K) (star : K → K) (sz : Nat → Nat) (a : MBlocks K) (before : List Nat) (z : Nat)
    (b : VBlocks K) : VBlocks K :=
  match getB b z with
  | none => b
  | some bz0 =>
    let b1 := match getA a z z with
      | some azz => setB b z (blockSolveVec S star (sz z) azz bz0)
      | none => b
    let bz := (getB b1 z).getD []
    before.reverse.foldl (fun (acc : VBlocks K) x =>
      match getA a x z with
      | some axz => addB S acc x (sz x) (matVec S (sz x) (sz z) axz bz)
      | none => acc) b1

def backPhase (S : SR K) (star : K → K) (sz : Nat → Nat) (a : MBlocks K) (order : List Nat) (b : VBlocks K) : VBlocks K :=
  (List.range order.length).reverse.foldl (fun b k =>
    match order[k]? with
    | some z => backStep S star sz a (order.take k) z b
    | none => b) b

/-- `multi_solve(a, b, transpose)`: `sz x` = number of cells of nonterminal `x`; blocks are already flattened -/
def multiSolve (S : SR K) (star : K → K) (sz : Nat → Nat) (order : List Nat) (a : MBlocks K) (b : VBlocks K)
    (transp : Bool) : VBlocks K :=
  let a0 : MBlocks K := if transp then
      a.foldl (fun acc p => setA acc p.1.2 p.1.1 (transpose S (sz p.1.1) (sz p.1.2) p.2)) []
    else a
  let (a1, b1) := luPhase S star sz order (a0, b)
  backPhase S star sz a1 order b1

/-- `multi_mv(a, b, transpose)` -/
def multiMv (S : SR K) (sz : Nat → Nat) (a : MBlocks K) (b : VBlocks K) (transp : Bool) : VBlocks K :=
  a.foldl (fun (c : VBlocks K) p =>
    let (x, y) := p.1
    if transp then
      match getB b x with
      | some bx => addB S c y (sz y) (matVec S (sz y) (sz x) (transpose S (sz x) (sz y) p.2) bx)
      | none => c
    else
      match getB b y with
      | some bY => addB S c x (sz x) (matVec S (sz x) (sz y) p.2 bY)
      | none => c) []

/-! ### specification: the block system `x = A x + b` -/

/-- `(A y + b)[x]` for vector blocks `y` (absent = zero), over the nonterminals `nts` -/
def blockAffine (S : SR K) (sz : Nat → Nat) (nts : List Nat) (a : MBlocks K) (b : VBlocks K) (y : VBlocks K) (x : Nat) : List K :=
  let z : List K := List.replicate (sz x) S.zero
  let ay := nts.foldl (fun acc y' =>
    match getA a x y', getB y y' with
    | some axy, some yv => vecAdd S (sz x) acc (matVec S (sz x) (sz y') axy yv)
    | _, _ => acc) z
  match getB b x with
  | some bx => vecAdd S (sz x) ay bx
  | none => ay

/-- the cells of block `x` (absent = zero) -/
def cellsB (S : SR K) (sz : Nat → Nat) (b : VBlocks K) (x : Nat) : List K :=
  match getB b x with
  | some v => (List.range (sz x)).map (fun i => Sv.getV S v i)
  | none => List.replicate (sz x) S.zero

/-! ### protocol -/

def parseBlocksA {K} (p : Parser K) : Parser (MBlocks K) :=
  Tok.list (do let x ← Tok.nat; let y ← Tok.nat; let m ← Tok.list (Tok.list p); pure ((x, y), m))
def parseBlocksB {K} (p : Parser K) : Parser (VBlocks K) :=
  Tok.list (do let x ← Tok.nat; let v ← Tok.list p; pure (x, v))

def showB {K} (f : K → String) (S : SR K) (sizes : List Nat) (b : VBlocks K) : String :=
  showList (fun (x : Nat) => showList f (cellsB S (fun i => sizes[i]?.getD 0) b x)) (List.range sizes.length)

def handle : List String → Option (Except String String)
  | "C09.multiSolve" :: sr :: rest => some do
      let run {K} (S : SR K) (star : K → K) (p : Parser K) (f : K → String) : Except String String := do
        let (sizes, order, a, b, t) ← Tok.run (do
          let s ← Tok.list Tok.nat; let o ← Tok.list Tok.nat; let a ← parseBlocksA p; let b ← parseBlocksB p; let t ← Tok.bool
          pure (s, o, a, b, t)) rest
        pure (showB f S sizes (multiSolve S star (fun i => sizes[i]?.getD 0) order a b t))
      match sr with
      | "real" => run realSR Impl.realStar Tok.ext toString
      | "viterbi" => run vitSR Impl.vitStar Tok.ext toString
      | "bool" => run boolSR (fun _ => true) pBool showBool
      | _ => throw "bad semiring"
  | "C09.multiMv" :: sr :: rest => some do
      let run {K} (S : SR K) (p : Parser K) (f : K → String) : Except String String := do
        let (sizes, a, b, t) ← Tok.run (do
          let s ← Tok.list Tok.nat; let a ← parseBlocksA p; let b ← parseBlocksB p; let t ← Tok.bool
          pure (s, a, b, t)) rest
        pure (showB f S sizes (multiMv S (fun i => sizes[i]?.getD 0) a b t))
      match sr with
      | "real" => run realSR Tok.ext toString
      | "viterbi" => run vitSR Tok.ext toString
      | "bool" => run boolSR pBool showBool
      | _ => throw "bad semiring"
  | _ => none

end Fggs.Ms
