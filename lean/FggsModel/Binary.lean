/-
FggsModel.Binary — model of `PatternedTensor.expansion` and of the generic binary operation built on it
(`PatternedTensor.binary`: lt, le, gt, ge, eq; and the unoptimised path of add, mul, sub, div, maximum,
logaddexp, logical_and, logical_or — their sparsity shortcuts produce the same representation) — C06.

`expansion` anti-unifies the virtual axes of the two operands dimension by dimension, right to left, with one
anti-substitution: the result pattern `lggs` over the fresh axes `gs` covers the union of the operands' patterns.
Each operand is then laid out densely over the index space of `gs` (`PatternedTensor(tp, paxes1, es, default).to_dense()`)
and the operation is applied cell by cell.

Operands have the same number of dimensions here (broadcasting over missing leading dimensions is not modelled);
a dimension where one operand has the unit axis and the other does not is broadcast as in the library
(a fresh physical axis of the other operand's size).
-/
import FggsModel.Unify

namespace Fggs.Bn
open Ax Un

structure Expansion where
  gs : List (Nat × Nat)          -- fresh physical axes (identity, size), in order of creation
  lggs : List Axis               -- the result's virtual axes
  paxes1 : List (Nat × Nat)      -- operand 1's physical axes, broadcast axes first
  es : List Axis                 -- what each fresh axis stands for in operand 1
  paxes2 : List (Nat × Nat)
  fs : List Axis
  next : Nat

/-- `t.expansion(u)` for operands with the same number of dimensions; `next` is above every identity in use -/
def expansion (fuel : Nat) (t u : PT) (next : Nat) : Expansion :=
  let step := fun (acc : List Axis × List (Nat × Nat) × List (Nat × Nat) × ASt) (p : Axis × Axis) =>
    let (lggs, new1, new2, st) := acc
    let (e, f) := p
    if isUnit e && !isUnit f then
      -- operand 1 is broadcast along a fresh axis of f's size
      let k : Nat × Nat := (st.next, f.numel)
      (Axis.phys k.1 k.2 :: lggs, k :: new1, new2,
        { pairs := st.pairs ++ [((Axis.phys k.1 k.2, f), k)], next := st.next + 1 })
    else if isUnit f && !isUnit e then
      let k : Nat × Nat := (st.next, e.numel)
      (Axis.phys k.1 k.2 :: lggs, new1, k :: new2,
        { pairs := st.pairs ++ [((e, Axis.phys k.1 k.2), k)], next := st.next + 1 })
    else
      let (g, st1) := antiunify fuel e f st
      (g :: lggs, new1, new2, st1)
  let (lggs, new1, new2, st) := (t.vaxes.zip u.vaxes).reverse.foldl step ([], [], [], ⟨[], next⟩)
  { gs := st.pairs.map (·.2), lggs := lggs, paxes1 := new1 ++ t.paxes, es := st.pairs.map (·.1.1),
    paxes2 := new2 ++ u.paxes, fs := st.pairs.map (·.1.2), next := st.next }

/-- `physical.expand(sizes of paxes1)`: the broadcast axes come first, so the flat tensor is repeated -/
def expandFront (phys : List Ext) (newAxes : List (Nat × Nat)) : List Ext :=
  (List.replicate (numel (newAxes.map (·.2))) phys).flatten

/-- operand laid out densely over the index space of the fresh axes:
`PatternedTensor(tp, paxes1, es, default).to_dense()` -/
def layout (t : PT) (paxes1 : List (Nat × Nat)) (es : List Axis) : List Ext :=
  let newAxes := paxes1.take (paxes1.length - t.paxes.length)
  (PT.mk (expandFront t.physical newAxes) paxes1 es t.default).dense

/-- what the constructor `PatternedTensor.__post_init__` does to every tensor it builds ("invariant: no axis has size 1"):
physical axes of size 1 are squeezed away and replaced by the unit axis in the virtual axes -/
def normalize (t : PT) : PT :=
  let σ : Subst := (t.paxes.filter (fun p => p.2 == 1)).map (fun p => (p.1, unitAxis))
  if σ.isEmpty then t
  else { t with paxes := t.paxes.filter (fun p => p.2 != 1), vaxes := t.vaxes.map (clone σ FUEL) }

/-- `t.binary(u, default, op)` -/
def binary (fuel : Nat) (op : Ext → Ext → Ext) (default : Ext) (t u : PT) (next : Nat) : PT :=
  let x := expansion fuel t u next
  normalize
    { physical := List.zipWith op (layout t x.paxes1 x.es) (layout u x.paxes2 x.fs),
      paxes := x.gs, vaxes := x.lggs, default := default }

/-- `t.commutative(u, identity, default, operate_)`: the sparsity shortcut of add, mul, maximum, logaddexp, logical_and/or.
When one operand's default is the identity of the operation, only the positions that operand BACKS are combined; the
other positions keep the other operand's laid-out element (`x op identity = x`).  Which operand plays which role is
decided as in the library (defaults, broadcast axes, number of physical elements); in the last branch the operation is
applied with the operands exchanged (`operate_(up, tp)`). -/
def commutative (fuel : Nat) (op : Ext → Ext → Ext) (identity default : Ext) (t u : PT) (next : Nat) : PT :=
  let x := expansion fuel t u next
  let tLay := layout t x.paxes1 x.es
  let uLay := layout u x.paxes2 x.fs
  let newT := x.paxes1.take (x.paxes1.length - t.paxes.length)
  let newU := x.paxes2.take (x.paxes2.length - u.paxes.length)
  -- the positions (flat, over the fresh axes) an operand backs: the images of its laid-out pattern
  let shape := x.gs.map (·.2)
  let backs := fun (phys : List Ext) (paxes : List (Nat × Nat)) (es : List Axis) =>
    ((PT.mk phys paxes es (Ext.fin 0)).cells.map (fun c => Ax.flat shape c.1))
  let cond := !(Ext.eqIEEE t.default identity) || x.paxes1.length != t.paxes.length ||
              (x.paxes2.length == u.paxes.length && decide (t.physical.length ≥ u.physical.length))
  let physical :=
    if cond then
      if Ext.eqIEEE u.default identity then
        let bu := backs (expandFront u.physical newU) x.paxes2 x.fs
        tLay.zipIdx.map (fun (p : Ext × Nat) => if bu.contains p.2 then op p.1 (uLay[p.2]?.getD u.default) else p.1)
      else List.zipWith op tLay uLay
    else
      let bt := backs (expandFront t.physical newT) x.paxes1 x.es
      uLay.zipIdx.map (fun (p : Ext × Nat) => if bt.contains p.2 then op p.1 (tLay[p.2]?.getD t.default) else p.1)
  normalize { physical := physical, paxes := x.gs, vaxes := x.lggs, default := default }

/-- the shortcut of `sub` and `div` (not commutative): as `commutative`, except that in the last branch — the first
operand's default is the identity and it has fewer physical elements — the second operand is first mapped by `flip`
(negation / reciprocal) and laid out with the default `flip u.default`, and the positions the first operand backs are
combined with `op2` (`add_` / `mul_`): `(-u) + t`, `(1/u) * t`. -/
def shortcut2 (fuel : Nat) (op : Ext → Ext → Ext) (identity default : Ext) (flip : Ext → Ext) (op2 : Ext → Ext → Ext)
    (t u : PT) (next : Nat) : PT :=
  let x := expansion fuel t u next
  let tLay := layout t x.paxes1 x.es
  let uLay := layout u x.paxes2 x.fs
  let newT := x.paxes1.take (x.paxes1.length - t.paxes.length)
  let newU := x.paxes2.take (x.paxes2.length - u.paxes.length)
  let shape := x.gs.map (·.2)
  let backs := fun (phys : List Ext) (paxes : List (Nat × Nat)) (es : List Axis) =>
    ((PT.mk phys paxes es (Ext.fin 0)).cells.map (fun c => Ax.flat shape c.1))
  let cond := !(Ext.eqIEEE t.default identity) || x.paxes1.length != t.paxes.length ||
              (x.paxes2.length == u.paxes.length && decide (t.physical.length ≥ u.physical.length))
  let physical :=
    if cond then
      if Ext.eqIEEE u.default identity then
        let bu := backs (expandFront u.physical newU) x.paxes2 x.fs
        tLay.zipIdx.map (fun (p : Ext × Nat) => if bu.contains p.2 then op p.1 (uLay[p.2]?.getD u.default) else p.1)
      else List.zipWith op tLay uLay
    else
      let u' : PT := { u with physical := u.physical.map flip, default := flip u.default }
      let uLay' := layout u' x.paxes2 x.fs
      let bt := backs (expandFront t.physical newT) x.paxes1 x.es
      uLay'.zipIdx.map (fun (p : Ext × Nat) => if bt.contains p.2 then op2 p.1 (tLay[p.2]?.getD t.default) else p.1)
  normalize { physical := physical, paxes := x.gs, vaxes := x.lggs, default := default }

/-! ### protocol -/

def boolExt (b : Bool) : Ext := if b then Ext.fin 1 else Ext.fin 0

def opOf : String → Option (Ext → Ext → Ext)
  | "add" => some Ext.add
  | "sub" => some Ext.sub
  | "mul" => some Ext.mul
  | "div" => some Ext.div
  | "maximum" => some Ext.maximum
  | "lt" => some (fun a b => boolExt (a.lt b))
  | "le" => some (fun a b => boolExt (a.le b))
  | "gt" => some (fun a b => boolExt (a.gt b))
  | "ge" => some (fun a b => boolExt (a.ge b))
  | "eq" => some (fun a b => boolExt (a.eqIEEE b))
  | "and" => some (fun a b => boolExt (a != Ext.fin 0 && b != Ext.fin 0))
  | "or" => some (fun a b => boolExt (a != Ext.fin 0 || b != Ext.fin 0))
  | _ => none

def showPT (t : PT) : String :=
  s!"{showList toString t.physical} {showList (fun (p : Nat × Nat) => s!"{p.1} {p.2}") t.paxes} {showList showAxis t.vaxes} {t.default}"

def handle : List String → Option (Except String String)
  | "C06.binary" :: opn :: rest => some do
      let (t, u, next) ← Tok.run (do let t ← parsePT; let u ← parsePT; let n ← Tok.nat; pure (t, u, n)) rest
      match opOf opn with
      | none => throw s!"bad op {opn}"
      | some op =>
        if t.vaxes.length != u.vaxes.length then throw "ndim"
        let r := binary FUEL op (op t.default u.default) t u next
        pure (showPT r ++ " " ++ showBool r.wf)
  | "C06.commutative" :: opn :: rest => some do
      let (t, u, ident, next) ← Tok.run (do let t ← parsePT; let u ← parsePT; let i ← Tok.ext; let n ← Tok.nat; pure (t, u, i, n)) rest
      match opOf opn with
      | none => throw s!"bad op {opn}"
      | some op =>
        if t.vaxes.length != u.vaxes.length then throw "ndim"
        let r := commutative FUEL op ident (op t.default u.default) t u next
        let r2 := binary FUEL op (op t.default u.default) t u next
        pure (showPT r ++ " " ++ showBool r.wf ++ " " ++ showBool (showPT r == showPT r2))
  | "C06.shortcut2" :: opn :: rest => some do
      let (t, u, next) ← Tok.run (do let t ← parsePT; let u ← parsePT; let n ← Tok.nat; pure (t, u, n)) rest
      if t.vaxes.length != u.vaxes.length then throw "ndim"
      let (op, ident, flip, op2) ← match opn with
        | "sub" => pure (Ext.sub, Ext.fin 0, (fun x => Ext.sub (Ext.fin 0) x), Ext.add)
        | "div" => pure (Ext.div, Ext.fin 1, (fun x => Ext.div (Ext.fin 1) x), Ext.mul)
        | _ => throw s!"bad op {opn}"
      let r := shortcut2 FUEL op ident (op t.default u.default) flip op2 t u next
      let r2 := binary FUEL op (op t.default u.default) t u next
      pure (showPT r ++ " " ++ showBool r.wf ++ " " ++ showBool (showPT r == showPT r2))
  | _ => none

end Fggs.Bn
