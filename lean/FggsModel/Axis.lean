/-
FggsModel.Axis — the axis language of fggs/indices.py and the meaning of a PatternedTensor (C06, C13, C07).

    Axis ::= X(numel) | Axis * … * Axis | numel + Axis + numel

A `phys v n` is a PhysicalAxis object: `v` is its identity, `n` its size.  An axis denotes an injective
map from assignments of its physical axes to a virtual index (`eval`); `stride` is the affine form of
that map as computed by the library.  A patterned tensor denotes the dense tensor `dense`.
-/
import FggsModel.Basic

namespace Fggs.Ax

inductive Axis where
  | phys (v n : Nat)
  | prod (fs : List Axis)
  | sum (before : Nat) (term : Axis) (after : Nat)
deriving Repr, Inhabited

mutual
/-- `Axis.numel` -/
def Axis.numel : Axis → Nat
  | .phys _ n => n
  | .prod fs => numelList fs
  | .sum b t a => b + t.numel + a
def numelList : List Axis → Nat
  | [] => 1
  | f :: fs => f.numel * numelList fs
end

mutual
/-- the virtual index denoted under an assignment `ρ` of the physical axes (row-major for products) -/
def Axis.eval (ρ : Nat → Nat) : Axis → Nat
  | .phys v _ => ρ v
  | .prod fs => evalList ρ fs 0
  | .sum b t _ => b + t.eval ρ
def evalList (ρ : Nat → Nat) : List Axis → Nat → Nat
  | [], acc => acc
  | f :: fs, acc => evalList ρ fs (acc * f.numel + f.eval ρ)
end

mutual
/-- free physical axes with their sizes, in order of occurrence (with repetitions) -/
def Axis.fv : Axis → List (Nat × Nat)
  | .phys v n => [(v, n)]
  | .prod fs => fvList fs
  | .sum _ t _ => t.fv
def fvList : List Axis → List (Nat × Nat)
  | [] => []
  | f :: fs => f.fv ++ fvList fs
end

/-- add `c` to the coefficient of `v` -/
def addCoeff (s : List (Nat × Nat)) (v c : Nat) : List (Nat × Nat) :=
  if s.any (·.1 == v) then s.map (fun p => if p.1 == v then (p.1, p.2 + c) else p) else s ++ [(v, c)]

mutual
/-- `Axis.stride`: offset and coefficient per physical axis of the affine map, computed as the library
does (ProductAxis.stride scales what it has so far by the next factor's numel and adds) -/
def Axis.stride : Axis → Nat × List (Nat × Nat)
  | .phys v _ => (0, [(v, 1)])
  | .prod fs => strideList fs (0, [])
  | .sum b t _ => let (o, s) := t.stride; (o + b, s)
def strideList : List Axis → Nat × List (Nat × Nat) → Nat × List (Nat × Nat)
  | [], acc => acc
  | f :: fs, (o, s) =>
    let n := f.numel
    let (o', s') := f.stride
    let scaled := s.map (fun p => (p.1, p.2 * n))
    strideList fs (o * n + o', s'.foldl (fun acc p => addCoeff acc p.1 p.2) scaled)
end

def applyStride (st : Nat × List (Nat × Nat)) (ρ : Nat → Nat) : Nat :=
  st.2.foldl (fun acc p => acc + p.2 * ρ p.1) st.1

/-! ### patterned tensors -/

structure PT where
  physical : List Ext            -- flat, row-major over the sizes of `paxes`
  paxes : List (Nat × Nat)       -- (identity, size)
  vaxes : List Axis
  default : Ext
deriving Repr, Inhabited

def numel (shape : List Nat) : Nat := shape.foldl (· * ·) 1

def flat : List Nat → List Nat → Nat
  | _ :: ss, i :: is => i * numel ss + flat ss is
  | _, _ => 0

def assigns : List Nat → List (List Nat)
  | [] => [[]]
  | n :: rest => (List.range n).flatMap (fun i => (assigns rest).map (i :: ·))

def PT.vshape (t : PT) : List Nat := t.vaxes.map Axis.numel

/-- the assignment of physical axes given by an index tuple of the physical tensor -/
def envOf (paxes : List (Nat × Nat)) (idx : List Nat) : Nat → Nat :=
  fun v => match (paxes.zip idx).find? (·.1.1 == v) with
    | some p => p.2
    | none => 0

/-- **the dense tensor a patterned tensor denotes**: cell `c` holds `physical[ρ]` if some assignment `ρ`
of the physical axes is mapped to `c` by the virtual axes, else `default`. -/
def PT.dense (t : PT) : List Ext :=
  let vs := t.vshape
  let base : Array Ext := Array.replicate (numel vs) t.default
  let psizes := t.paxes.map (·.2)
  ((assigns psizes).zipIdx.foldl (fun (arr : Array Ext) (p : List Nat × Nat) =>
      let ρ := envOf t.paxes p.1
      let c := flat vs (t.vaxes.map (Axis.eval ρ))
      arr.setIfInBounds c (t.physical[p.2]?.getD t.default)) base).toList

def nodupNat : List Nat → Bool
  | [] => true
  | x :: xs => !xs.contains x && nodupNat xs

/-- the representation invariant: sizes agree; physical axes are distinct, none of size 1, and exactly the
free axes of the virtual axes (with consistent sizes); every virtual index is in range and is backed
by at most one physical element -/
def PT.wf (t : PT) : Bool :=
  let psizes := t.paxes.map (·.2)
  t.physical.length == numel psizes &&
  nodupNat (t.paxes.map (·.1)) &&
  t.paxes.all (fun p => p.2 != 1) &&
  (t.vaxes.flatMap Axis.fv).all (fun p => t.paxes.contains p) &&
  t.paxes.all (fun p => (t.vaxes.flatMap Axis.fv).contains p) &&
  (let cells := (assigns psizes).map (fun idx => t.vaxes.map (Axis.eval (envOf t.paxes idx)))
   cells.all (fun c => (c.zip t.vshape).all (fun q => decide (q.1 < q.2))) &&
   (List.range cells.length).all (fun i => (List.range cells.length).all (fun j => i == j || cells[i]! != cells[j]!)))

/-- the affine form agrees with `eval` on every physical index (checked, and a theorem) -/
def PT.strideOk (t : PT) : Bool :=
  (assigns (t.paxes.map (·.2))).all (fun idx =>
    let ρ := envOf t.paxes idx
    t.vaxes.all (fun e => applyStride e.stride ρ == e.eval ρ))

/-! ### operations at the level of the representation (as indices.py performs them) -/

/-- `productAxis`: flatten nested products, unwrap a singleton -/
def productAxis (fs : List Axis) : Axis :=
  let es := fs.flatMap (fun f => match f with | .prod gs => gs | e => [e])
  match es with
  | [e] => e
  | _ => .prod es

def unitAxis : Axis := .prod []

/-- pointwise map: `f` on the physical elements, `fd` on the default -/
def PT.map (f : Ext → Ext) (fd : Ext) (t : PT) : PT := { t with physical := t.physical.map f, default := fd }

/-- `flatten()` -/
def PT.flatten (t : PT) : PT :=
  match t.vaxes with
  | [_] => t
  | vs => { t with vaxes := [productAxis vs] }

/-- `unsqueeze(dim)` -/
def PT.unsqueeze (t : PT) (dim : Nat) : PT := { t with vaxes := (t.vaxes.take dim) ++ [unitAxis] ++ (t.vaxes.drop dim) }

/-- `permute(dims)` -/
def PT.permute (t : PT) (dims : List Nat) : PT := { t with vaxes := dims.map (fun i => t.vaxes[i]?.getD unitAxis) }

/-! ### equal / allclose (C13): the counting argument of PatternedTensor.equal, at the level of
the sets of backed cells.  The library finds the overlap of the two patterns by unification; the model
takes the overlap to be the intersection of the two images (what unification computes on well-typed
operands — checked per case by the harness, since the implementation's verdict must match). -/

/-- (virtual index tuple, value) of every physical element -/
def PT.cells (t : PT) : List (List Nat × Ext) :=
  (assigns (t.paxes.map (·.2))).zipIdx.map (fun p =>
    (t.vaxes.map (Axis.eval (envOf t.paxes p.1)), t.physical[p.2]?.getD t.default))

/-- `torch.isclose(a, b, rtol, atol, equal_nan)`: `|a - b| ≤ atol + rtol·|b|`; infinities only equal to themselves -/
def isclose (rtol atol : Rat) (equalNan : Bool) : Ext → Ext → Bool
  | .nan, .nan => equalNan
  | .nan, _ => false
  | _, .nan => false
  | .fin a, .fin b => decide ((if a - b < 0 then b - a else a - b) ≤ atol + rtol * (if b < 0 then -b else b))
  | .pinf, .pinf => true
  | .ninf, .ninf => true
  | _, _ => false

/-- the decision procedure of `PatternedTensor.equal`/`allclose`, parameterised by the elementwise test
(`cmp a b`: self-side element `a` against other-side element `b`) -/
def PT.compareModel (cmp : Ext → Ext → Bool) (t u : PT) : Bool :=
  if t.vshape != u.vshape then false
  else
    let ct := t.cells
    let cu := u.cells
    let overlap := ct.filter (fun p => cu.any (·.1 == p.1))
    if !(overlap.all (fun p => match cu.find? (·.1 == p.1) with | some q => cmp p.2 q.2 | none => true)) then false
    else
      -- selfok = self.physical ~ other.default, otherok = self.default ~ other.physical; overlap marked ok
      let selfok := ct.all (fun p => cmp p.2 u.default || cu.any (·.1 == p.1))
      let otherok := cu.all (fun q => cmp t.default q.2 || ct.any (·.1 == q.1))
      let n := numel t.vshape + overlap.length
      (decide (n ≤ ct.length + cu.length) || cmp t.default u.default) && selfok && otherok

def PT.equalModel (t u : PT) : Bool := PT.compareModel Ext.eqIEEE t u
def PT.allcloseModel (rtol atol : Rat) (equalNan : Bool) (t u : PT) : Bool :=
  PT.compareModel (isclose rtol atol equalNan) t u

/-- the specification: elementwise test of the dense tensors -/
def PT.compareSpec (cmp : Ext → Ext → Bool) (t u : PT) : Bool :=
  t.vshape == u.vshape && (t.dense.zip u.dense).all (fun p => cmp p.1 p.2)

/-! ### protocol -/

partial def parseAxis : Parser Axis := do
  let k ← Tok.next
  match k with
  | "P" => do let v ← Tok.nat; let n ← Tok.nat; pure (.phys v n)
  | "X" => .prod <$> Tok.list parseAxis
  | "S" => do let b ← Tok.nat; let t ← parseAxis; let a ← Tok.nat; pure (.sum b t a)
  | _ => throw s!"bad axis {k}"

def parsePT : Parser PT := do
  let ph ← Tok.list Tok.ext
  let pa ← Tok.list (do let v ← Tok.nat; let n ← Tok.nat; pure (v, n))
  let va ← Tok.list parseAxis
  let d ← Tok.ext
  pure ⟨ph, pa, va, d⟩

def handle : List String → Option (Except String String)
  | "C13.compare" :: rest => some do
      let (t, u, rtol, atol, en) ← Tok.run (do
        let t ← parsePT; let u ← parsePT; let r ← Tok.rat; let a ← Tok.rat; let e ← Tok.bool; pure (t, u, r, a, e)) rest
      pure s!"{showBool (t.equalModel u)} {showBool (PT.compareSpec Ext.eqIEEE t u)} {showBool (t.allcloseModel rtol atol en u)} {showBool (PT.compareSpec (isclose rtol atol en) t u)} {showBool (t.wf && u.wf)}"
  | "C06.dense" :: rest => some do
      let t ← Tok.run parsePT rest
      pure s!"{showBool t.wf} {showBool t.strideOk} {showList toString t.vshape} {showList toString t.dense}"
  | _ => none

end Fggs.Ax
