/-
FggsModel.Backward — model of `SumProduct.backward` of fggs/sum_product.py (C03), the reverse-mode derivative of the
sum-products: with `J` the Jacobian of `F` with respect to the nonterminals and `Jin` its Jacobian with respect to
the inputs (the terminals' weights), both evaluated at the computed values `x`,

    grad_nt = multi_solve(J, f, transpose=True)        -- y = Jᵀ y + f,  f = the incoming cotangent of the outputs
    grad_t  = multi_mv(Jin, grad_nt, transpose=True)   -- g = Jinᵀ y

The library runs this once per strongly connected component and lets autograd chain the components; since the
Jacobian of the whole system is block triangular along the dependency order, the chained result is the solution of
the SAME two equations over ALL nonterminals, which is what the model computes (over `Rat`, exactly, on the system
flattened to cells; the elimination loop is `Sv.solveLoop`, the scalar form of `multi_solve`, C09).
`star a = 1/(1-a)`; a pivot equal to 1 (a singular system: infinite derivative) is outside the model and reported
by the decider `solvesT`.
-/
import FggsModel.JLog

namespace Fggs.Bw
open Sem Pipe Jl

/-- all cells `(X, i)` of all nonterminals -/
def cells (G : Grammar Rat) : List (Nat × Nat) := compCells G (List.range G.nts.length)

/-- all cells `(l, j)` of all terminals -/
def inCells (G : Grammar Rat) : List (Nat × Nat) :=
  (List.range G.T).flatMap (fun l => (List.range (numel (G.shapeOf (G.labelType l)))).map (fun j => (l, j)))

def blockCell (t : Option (List Rat)) (k : Nat) : Rat :=
  match t with
  | some t => t[k]?.getD 0
  | none => 0

/-- `J` flattened: rows and columns are the cells of the nonterminals -/
def jacMat (G : Grammar Rat) (x : Val Rat) : List (List Rat) :=
  let nY (Y : Nat) := numel (G.shapeOf (G.nts[Y]?.getD []))
  let blocks := (List.range G.nts.length).map (fun X => (List.range G.nts.length).map (fun Y => jac ratSR G x X Y))
  (cells G).map (fun (X, i) => (cells G).map (fun (Y, j) => blockCell ((blocks[X]?.getD [])[Y]?.getD none) (i * nY Y + j)))

/-- `Jin` flattened: rows are the cells of the nonterminals, columns the cells of the terminals -/
def jinMat (G : Grammar Rat) (x : Val Rat) : List (List Rat) :=
  let nl (l : Nat) := numel (G.shapeOf (G.labelType l))
  let blocks := (List.range G.nts.length).map (fun X => (List.range G.T).map (fun l => jacLabel ratSR G x X l))
  (cells G).map (fun (X, i) => (inCells G).map (fun (l, j) => blockCell ((blocks[X]?.getD [])[l]?.getD none) (i * nl l + j)))

def transposeM (rows cols : Nat) (a : List (List Rat)) : List (List Rat) :=
  (List.range cols).map (fun j => (List.range rows).map (fun i => Sv.getM ratSR a i j))

def ratStar (a : Rat) : Rat := if a == 1 then 0 else 1 / (1 - a)

/-- `(grad_nt, grad_t)` for the cotangent `f` of the outputs (one entry per cell of every nonterminal) -/
def backward (G : Grammar Rat) (x : Val Rat) (f : List Rat) : List Rat × List Rat :=
  let n := (cells G).length
  let a := jacMat G x
  let y := Sv.solveLoop ratSR ratStar (transposeM n n a) f
  let b := jinMat G x
  (y, (List.range (inCells G).length).map (fun c => ratSR.sum ((List.range n).map (fun r => Sv.getM ratSR b r c * Sv.getV ratSR y r))))

/-- the decider of the hypothesis of `C03.backward_is_adjoint`: `y` solves `y = Jᵀ y + f` exactly -/
def solvesT (G : Grammar Rat) (x : Val Rat) (f : List Rat) : Bool :=
  let n := (cells G).length
  let y := (backward G x f).1
  y.length == n && Sv.affine ratSR (transposeM n n (jacMat G x)) f y == y

def handle : List String → Option (Except String String)
  | "C03.backward" :: rest => some do
      let (G, x, f) ← Tok.run (do
        let g ← parseGrammar Tok.rat; let x ← Tok.list (Tok.optional (Tok.list Tok.rat)); let f ← Tok.list Tok.rat; pure (g, x, f)) rest
      let r := backward G x f
      pure (showList toString r.1 ++ " " ++ showList toString r.2 ++ " " ++ showBool (solvesT G x f))
  | _ => none

end Fggs.Bw
