/-
FggsModel.Conj — model of fggs/conjunction.py and utils.unique_label_name (C17).
Label names are strings here (the name-clash clauses are about string concatenation).
-/
import FggsModel.Basic

namespace Fggs.Cj

/-- ids: explicit strings or implicit ints; Python cannot order a str against an int -/
inductive Id where
  | str (s : String)
  | int (n : Nat)
deriving DecidableEq, Repr, Inhabited

structure Label where
  name : String
  type : List String
  terminal : Bool
deriving DecidableEq, Repr, Inhabited

structure Node where
  label : String
  id : Id
deriving DecidableEq, Repr, Inhabited

structure Edge where
  label : Label
  nodes : List Node
  id : Id
deriving DecidableEq, Repr, Inhabited

structure Rule where
  lhs : Label
  nodes : List Node
  edges : List Edge
  ext : List Node
deriving DecidableEq, Repr, Inhabited

structure HRG where
  start : Label
  labels : List Label        -- edge label table, in order
  rules : List Rule          -- all_rules() order
deriving Repr, Inhabited

inductive Err where
  | valueError | typeError
deriving DecidableEq, Repr

/-- `unique_label_name`: `while new_name in names: new_name = f'{name}_{i}'; i += 1`.
Fuel `names.length + 1` suffices by pigeonhole (`uniqueName_spec`). -/
def uniqueNameAux (name : String) (names : List String) : Nat → Nat → String → String
  | 0, _, cur => cur
  | fuel+1, i, cur => if names.contains cur then uniqueNameAux name names fuel (i+1) s!"{name}_{i}" else cur

def uniqueName (name : String) (names : List String) : String :=
  uniqueNameAux name names (names.length + 1) 1 name

/-- `nonterminal_pairs`: new names for all pairs, in order, avoiding every label seen so far -/
def ntPairs (h1 h2 : HRG) : List ((Label × Label) × Label) :=
  let nts1 := h1.labels.filter (!·.terminal)
  let nts2 := h2.labels.filter (!·.terminal)
  let pairs := nts1.flatMap (fun a => nts2.map (fun b => (a, b)))
  -- labels = set(h1 labels) | set(h2 labels): only the names matter
  let init : List String := (h1.labels ++ h2.labels).map (·.name)
  (pairs.foldl (fun (acc : List ((Label × Label) × Label) × List String) p =>
      let nm := uniqueName s!"<{p.1.name},{p.2.name}>" acc.2
      (acc.1 ++ [(p, ⟨nm, p.1.type, false⟩)], acc.2 ++ [nm])) ([], init)).1

def ntGet (m : List ((Label × Label) × Label)) (a b : Label) : Option Label :=
  (m.find? (fun p => p.1 = (a, b))).map (·.2)

def sameSet {α} [DecidableEq α] (a b : List α) : Bool := a.all (b.contains ·) && b.all (a.contains ·)

/-- `conjoinable` -/
def conjoinable (r1 r2 : Rule) : Bool :=
  sameSet r1.nodes r2.nodes &&
  sameSet ((r1.edges.filter (!·.label.terminal)).map (fun e => (e.id, e.nodes.map (·.id))))
          ((r2.edges.filter (!·.label.terminal)).map (fun e => (e.id, e.nodes.map (·.id)))) &&
  decide (r1.ext.map (·.id) = r2.ext.map (·.id))

/-- the sort key `(isinstance(id, str), id)` (after the fix for D22): implicit (int) ids first -/
def idLt : Id → Id → Bool
  | .str a, .str b => a < b
  | .int a, .int b => a < b
  | .int _, .str _ => true
  | .str _, .int _ => false

/-- `sorted(edges, key=lambda e: (isinstance(e.id, str), e.id))` -/
def sortEdges (es : List Edge) : Except Err (List Edge) :=
  .ok (es.mergeSort (fun a b => !(idLt b.id a.id)))

/-- `Graph.add_edge` as far as conjoin_rules can trip over it: duplicate edge id, or a label name
already used by a different label -/
def addEdgeChecked (es : List Edge) (e : Edge) : Except Err (List Edge) :=
  if es.any (·.id = e.id) then .error .valueError
  else if es.any (fun x => x.label.name = e.label.name && x.label ≠ e.label) then .error .valueError
  else .ok (es ++ [e])

/-- `conjoin_rules` -/
def conjoinRules (m : List ((Label × Label) × Label)) (r1 r2 : Rule) : Except Err Rule := do
  let lhs ← match ntGet m r1.lhs r2.lhs with | some l => pure l | none => throw Err.valueError
  let nts1 ← sortEdges (r1.edges.filter (!·.label.terminal))
  let nts2 ← sortEdges (r2.edges.filter (!·.label.terminal))
  let paired ← (nts1.zip nts2).mapM (fun (e1, e2) =>
    match ntGet m e1.label e2.label with
    | some l =>
      -- an implicit id cannot be passed to `Edge(..., id=...)`: the paired edge gets a fresh one
      -- (the harness compares fresh implicit ids up to renaming; the model marks them `int 0`… no:
      -- it keeps the old number tagged by adding 10^9, unique because the old ids are)
      let i := match e1.id with | .str s => Id.str s | .int n => Id.int (1000000000 + n)
      (pure (⟨l, e1.nodes, i⟩ : Edge) : Except Err Edge)
    | none => throw Err.valueError)
  let ts := (r1.edges.filter (·.label.terminal)) ++ (r2.edges.filter (·.label.terminal))
  let edges ← (paired ++ ts).foldlM addEdgeChecked []
  pure ⟨lhs, r1.nodes, edges, r1.ext⟩

/-- `conjoin_hrgs`: a different *terminal* label of the same name in both grammars is a ValueError -/
def conjoin (h1 h2 : HRG) : Except Err (Label × List Rule) := do
  if h1.labels.any (fun a => h2.labels.any (fun b => a.name = b.name && a ≠ b && a.terminal && b.terminal)) then
    throw Err.valueError
  let m := ntPairs h1 h2
  let start ← match ntGet m h1.start h2.start with | some l => pure l | none => throw Err.valueError
  let pairs := h1.rules.flatMap (fun r1 => (h2.rules.filter (conjoinable r1 ·)).map (fun r2 => (r1, r2)))
  let rules ← pairs.mapM (fun (r1, r2) => conjoinRules m r1 r2)
  pure (start, rules)

/-! ### well-formedness used by the derivation-correspondence theorem (C17b) -/

/-- the nonterminal edges of a rule, in the rule's edge order (the list `conjoinRules` sorts and pairs) -/
def ntEdges (r : Rule) : List Edge := r.edges.filter (!·.label.terminal)

/-- no repeated id -/
def nodupIds : List Id → Bool
  | [] => true
  | a :: l => !l.contains a && nodupIds l

/-- the only well-formedness the derivation correspondence needs: within every rule the ids of the
nonterminal edges are pairwise distinct (the Python `Graph` enforces unique edge ids) -/
def wfHRG (h : HRG) : Bool := h.rules.all (fun r => nodupIds ((ntEdges r).map (·.id)))

/-! ### protocol -/

def parseS : Parser String := do
  let t ← Tok.next
  -- 's' followed by hex bytes
  let cs := (t.drop 1).toString.toList
  let rec go : List Char → List Char → Option (List Char)
    | [], acc => some acc.reverse
    | a :: b :: rest, acc =>
      let hv (c : Char) : Option Nat :=
        if c.isDigit then some (c.toNat - '0'.toNat)
        else if 'a' ≤ c ∧ c ≤ 'f' then some (c.toNat - 'a'.toNat + 10) else none
      match hv a, hv b with
      | some x, some y => go rest (Char.ofNat (16 * x + y) :: acc)
      | _, _ => none
    | _, _ => none
  match go cs [] with
  | some l => pure (String.ofList l)
  | none => throw s!"bad string token {t}"

def showS (s : String) : String :=
  let hex (n : Nat) : Char := if n < 10 then Char.ofNat ('0'.toNat + n) else Char.ofNat ('a'.toNat + n - 10)
  "s" ++ String.ofList (s.toList.flatMap (fun c => [hex (c.toNat / 16), hex (c.toNat % 16)]))

def parseId : Parser Id := do
  let k ← Tok.next
  match k with
  | "str" => .str <$> parseS
  | "int" => .int <$> Tok.nat
  | _ => throw s!"bad id kind {k}"

def showId : Id → String
  | .str s => "str " ++ showS s
  | .int n => s!"int {n}"

def parseLabel : Parser Label := do
  let n ← parseS; let ty ← Tok.list parseS; let t ← Tok.bool; pure ⟨n, ty, t⟩
def showLabel (l : Label) : String := s!"{showS l.name} {showList showS l.type} {showBool l.terminal}"
def parseNode : Parser Node := do let l ← parseS; let i ← parseId; pure ⟨l, i⟩
def showNode (n : Node) : String := s!"{showS n.label} {showId n.id}"
def parseEdge : Parser Edge := do
  let l ← parseLabel; let ns ← Tok.list parseNode; let i ← parseId; pure ⟨l, ns, i⟩
def showEdge (e : Edge) : String := s!"{showLabel e.label} {showList showNode e.nodes} {showId e.id}"
def parseRule : Parser Rule := do
  let l ← parseLabel; let ns ← Tok.list parseNode; let es ← Tok.list parseEdge; let x ← Tok.list parseNode
  pure ⟨l, ns, es, x⟩
def showRule (r : Rule) : String :=
  s!"{showLabel r.lhs} {showList showNode r.nodes} {showList showEdge r.edges} {showList showNode r.ext}"
def parseHRG : Parser HRG := do
  let s ← parseLabel; let ls ← Tok.list parseLabel; let rs ← Tok.list parseRule; pure ⟨s, ls, rs⟩

def handle : List String → Option (Except String String)
  | "C17.conjoin" :: rest => some do
      let (h1, h2) ← Tok.run (do let a ← parseHRG; let b ← parseHRG; pure (a, b)) rest
      match conjoin h1 h2 with
      | .ok (s, rs) => pure ("ok " ++ showLabel s ++ " " ++ showList showRule rs)
      | .error .valueError => pure "ValueError"
      | .error .typeError => pure "TypeError"
  | "C17.pairs" :: rest => some do
      let (h1, h2) ← Tok.run (do let a ← parseHRG; let b ← parseHRG; pure (a, b)) rest
      pure (showList (fun (p : (Label × Label) × Label) => s!"{showS p.1.1.name} {showS p.1.2.name} {showS p.2.name}") (ntPairs h1 h2))
  | "C17.unique" :: rest => some do
      let (n, ns) ← Tok.run (do let n ← parseS; let ns ← Tok.list parseS; pure (n, ns)) rest
      pure (showS (uniqueName n ns))
  | "C17.wf" :: rest => some do
      let h ← Tok.run parseHRG rest
      pure (showBool (wfHRG h))
  | _ => none

end Fggs.Cj
