/-
FggsModel.PatSolve — `PatternedTensor.solve` (fggs/indices.py, C09): the least solution of `x = a @ x + b` for a
patterned square matrix `a` and a patterned right-hand side `b` (a vector, or a matrix with further dimensions).

1. GROWTH LOOP: the least-dense axis `e` for the rows of the solution is computed on PATTERNS: start with the row axis
   of `b`; while `e` unifies with the column axis of `a`, replace `e` by the anti-unifier of `e` and the row axis of `a`
   under the unifier (`e := a·e + b` on patterns); stop when the anti-unification only renamed physical axes
   (nothing was generalised); if the unification fails, `a·b = 0` and the solution is `b` itself.
2. The relevant parts of `a` and `b` — rows and columns in the image of `e` — are read through `project` into two dense
   matrices over the physical axes of `e` (and of the further dimensions of `b`), the dense system is solved by the
   semiring's elimination (`Ms.blockSolve`, i.e. `Semiring.solve` column by column), and the result is patterned by
   `e` and fresh copies of the further axes of `b`.

Operands have the semiring zero as default (`default_to`) and disjoint physical identities below `next` (`freshen`).
Outcomes: `.raises` = the library would raise AssertionError (a unification that "cannot fail" fails); `.diverges` =
the growth loop did not stop within `loopFuel` rounds.
-/
import FggsModel.Strided
import FggsModel.Binary
import FggsModel.Multi
import FggsModel.EinsumImpl

namespace Fggs.Ps
open Ax Un Sd Sem

inductive Outcome where
  | ok (t : PT)
  | raises
  | diverges

def isPhys : Axis → Bool
  | .phys _ _ => true
  | _ => false

mutual
/-- `e.freshen(rename)`: replace physical axes through an association list (identity ↦ fresh identity) -/
def renameAxis (ren : List (Nat × Nat)) : Axis → Axis
  | .phys v n => .phys ((ren.lookup v).getD v) n
  | .prod fs => .prod (renameList ren fs)
  | .sum b t a => .sum b (renameAxis ren t) a
def renameList (ren : List (Nat × Nat)) : List Axis → List Axis
  | [] => []
  | f :: fs => renameAxis ren f :: renameList ren fs
end

/-- the physical axes of a list of axes in order of first occurrence (the keys of `rename` after `freshen`) -/
def firstOcc (es : List Axis) : List (Nat × Nat) := (es.flatMap Axis.fv).eraseDups

/-- the growth loop; `some none` = the unification failed (`return b.clone()`), `none` = `loopFuel` exhausted -/
def grow (fuel : Nat) (a0 a1 : Axis) : Nat → Axis → Nat → Option (Option (Axis × Nat))
  | 0, _, _ => none
  | k+1, e, next =>
    match unify fuel e a1 ⟨[], next⟩ with
    | (false, _) => some none
    | (true, st) =>
      let r := antiunify fuel e (clone st.subst FUEL a0) ⟨[], st.next⟩
      if r.2.pairs.all (fun p => isPhys p.1.1) then some (some (r.1, r.2.next))
      else grow fuel a0 a1 k r.1 r.2.next

/-- a patterned operand re-indexed through a substitution: `project(t.physical, None, t.paxes, subst)` as a flat list
over the free axes, with those axes -/
def projected (t : PT) (σ : Subst) : List Ext × List (Nat × Nat) :=
  let r := project (contiguous (t.paxes.map (·.2))) (t.paxes.map (fun k => Axis.phys k.1 k.2)) σ
  ((Ax.assigns (r.2.map (·.2))).map (fun idx => t.physical[r.1.addr idx]?.getD t.default), r.2)

/-- a flat row-major tensor of `rows × cols` cells as a matrix -/
def toMat (S : SR Ext) (rows cols : Nat) (flat : List Ext) : Ms.Mat Ext :=
  (List.range rows).map (fun i => (List.range cols).map (fun j => flat[i * cols + j]?.getD S.zero))

/-- `a.solve(b, semiring)` -/
def solve (S : SR Ext) (star : Ext → Ext) (fuel loopFuel : Nat) (a b : PT) (next : Nat) : Outcome :=
  match a.vaxes, b.vaxes with
  | [a0, a1], b0 :: brest =>
    match grow fuel a0 a1 loopFuel b0 next with
    | none => .diverges
    | some none =>
      -- `b.clone()`: fresh physical axes, same data
      let ren := b.paxes.zipIdx.map (fun (p : (Nat × Nat) × Nat) => (p.1.1, next + p.2))
      .ok { b with paxes := b.paxes.map (fun k => ((ren.lookup k.1).getD k.1, k.2)), vaxes := renameList ren b.vaxes }
    | some (some (e, nx)) =>
      let fv := firstOcc [e]
      let ren0 := fv.zipIdx.map (fun (p : (Nat × Nat) × Nat) => (p.1.1, nx + p.2))
      let e0 := renameAxis ren0 e
      let fv0 := fv.map (fun k => ((ren0.lookup k.1).getD k.1, k.2))
      let nx1 := nx + fv.length
      let fvb := firstOcc brest
      let renb := fvb.zipIdx.map (fun (p : (Nat × Nat) × Nat) => (p.1.1, nx1 + p.2))
      let ebs0 := renameList renb brest
      let fvb0 := fvb.map (fun k => ((renb.lookup k.1).getD k.1, k.2))
      let nx2 := nx1 + fvb.length
      let axesOf := fun (ks : List (Nat × Nat)) => productAxis (ks.map (fun k => Axis.phys k.1 k.2))
      -- convert b to a regular matrix
      match unify fuel e b0 ⟨[], nx2⟩ with
      | (false, _) => .raises
      | (true, stb) =>
        let pb := projected b stb.subst
        let relB : PT := Bn.normalize
          { physical := pb.1, paxes := pb.2, vaxes := [clone stb.subst FUEL (axesOf fv), clone stb.subst FUEL (axesOf fvb)], default := b.default }
        -- convert the relevant portion of a to a regular matrix
        match unifyAll fuel [(e0, a0), (e, a1)] ⟨[], stb.next⟩ with
        | (false, _) => .raises
        | (true, sta) =>
          let pa := projected a sta.subst
          let relA : PT := Bn.normalize
            { physical := pa.1, paxes := pa.2, vaxes := [clone sta.subst FUEL (axesOf fv0), clone sta.subst FUEL (axesOf fv)], default := a.default }
          let n := Ax.numel (fv.map (·.2))
          let c := Ax.numel (fvb.map (·.2))
          let x := Ms.blockSolve S star n c (toMat S n n relA.dense) (toMat S n c relB.dense)
          .ok (Bn.normalize { physical := x.flatten, paxes := fv ++ fvb0, vaxes := e :: ebs0, default := b.default })
  | _, _ => .raises

/-! ### the closure property the growth loop is there to establish, decidable per job -/

/-- the sorted set of virtual indices in the image of an axis -/
def img (e : Axis) : List Nat := Un.image e

/-- `e` covers the rows in which `b` can be non-zero and is closed under `a`: a row of `a` that has a (possibly)
non-zero entry in a column inside the image of `e` is itself in the image -/
def closed (a b : PT) (e : Axis) : Bool :=
  let im := img e
  (b.cells.all (fun c => im.contains (c.1.headD 0))) &&
  (a.cells.all (fun c => !im.contains (c.1.getD 1 0) || im.contains (c.1.headD 0)))

/-! ### the fuel side condition of the theorem `C09d.patsolve_cells`, decided per job -/

/-- no identity is bound twice, and `FUEL - 2` units of fuel resolve every binding -/
def resolvedS (σ : Subst) : Bool :=
  nodupNat (σ.map (·.1)) && σ.all (fun p => Ei.unbound σ (clone σ (FUEL - 2) p.2))

/-- the two unifications of `solve` (`e` against the row axis of `b`; the renamed copy of `e` and `e` against the row and
column axes of `a`) did not exhaust the fuel -/
def resolved (fuel : Nat) (e : Axis) (nx : Nat) (a0 a1 b0 : Axis) (brest : List Axis) : Bool :=
  let fv := firstOcc [e]
  let ren0 := fv.zipIdx.map (fun (p : (Nat × Nat) × Nat) => (p.1.1, nx + p.2))
  let stb := (unify fuel e b0 ⟨[], nx + fv.length + (firstOcc brest).length⟩).2
  let sta := (unifyAll fuel [(renameAxis ren0 e, a0), (e, a1)] ⟨[], stb.next⟩).2
  resolvedS stb.subst && resolvedS sta.subst

/-! ### protocol -/

def handle : List String → Option (Except String String)
  | "C09.patsolve" :: sr :: rest => some do
      let (a, b, next) ← Tok.run (do let a ← parsePT; let b ← parsePT; let n ← Tok.nat; pure (a, b, n)) rest
      let (S, star) ← match sr with
        | "real" => pure (realSR, Impl.realStar)
        | "viterbi" => pure (vitSR, Impl.vitStar)
        | "bool" => pure (Ei.boolExtSR, fun _ => Ext.fin 1)
        | _ => throw "bad semiring"
      let cl : Bool := match a.vaxes, b.vaxes with
        | [a0, a1], b0 :: brest =>
          (match grow FUEL a0 a1 64 b0 next with
           | some (some (e, nx)) => closed a b e && resolved FUEL e nx a0 a1 b0 brest
           | _ => true)
        | _, _ => true
      match solve S star FUEL 64 a b next with
      | .ok r => pure ("ok " ++ Bn.showPT r ++ " " ++ showBool r.wf ++ " " ++ showBool cl)
      | .raises => pure "raises"
      | .diverges => pure "diverges"
  | _ => none

end Fggs.Ps
