/-
FggsModel.Interp — model of fggs/domains.py, fggs/factors.py and InterpretationMixin (C20).

Python values of a FiniteDomain are arbitrary hashables; the harness maps them to integer codes
such that two values get the same code iff Python's `==` holds (and then their hashes agree).
-/
import FggsModel.Basic

namespace Fggs.Interp

inductive Dom where
  | finite (vals : List Int)
  | range (n : Int)           -- RangeDomain(size): size is whatever the caller passed
deriving DecidableEq, Repr

/-- `{v:i for (i,v) in enumerate(values)}[value]` : the *last* position wins; KeyError = none -/
def lastIdx : List Int → Int → Option Nat
  | [], _ => none
  | x :: xs, v =>
    match lastIdx xs v with
    | some i => some (i + 1)
    | none => if x = v then some 0 else none

namespace Dom

def size : Dom → Int
  | finite vs => vs.length
  | range n => n

/-- `value in self.values` / `0 <= value < self._size` -/
def contains : Dom → Int → Bool
  | finite vs, v => vs.contains v
  | range n, v => decide (0 ≤ v) && decide (v < n)

/-- `_value_index[value]` (KeyError = none) / identity -/
def numberize : Dom → Int → Option Int
  | finite vs, v => (lastIdx vs v).map (fun i => (i : Int))
  | range _, v => some v

/-- `values[num]` for `0 ≤ num` (IndexError = none) / identity -/
def denumberize : Dom → Nat → Option Int
  | finite vs, i => vs[i]?
  | range _, i => some i

/-- `__eq__`: same class and same content -/
def eq (a b : Dom) : Bool := decide (a = b)

end Dom

/-! ### weights given as nested lists: torch.tensor's shape inference -/

inductive Nested where
  | leaf (x : Ext)
  | node (cs : List Nested)
deriving Repr

mutual
/-- shape of a nested list, `none` if ragged (torch raises) -/
def Nested.shape : Nested → Option (List Nat)
  | .leaf _ => some []
  | .node cs => match cs with
    | [] => some [0]
    | c :: rest => do
      let s ← c.shape
      if (← Nested.allShape rest s) then some ((rest.length + 1) :: s) else none
def Nested.allShape : List Nested → List Nat → Option Bool
  | [], _ => some true
  | c :: rest, s => do
    let s' ← c.shape
    if s' = s then Nested.allShape rest s else some false
end

mutual
def Nested.flat : Nested → List Ext
  | .leaf x => [x]
  | .node cs => Nested.flatList cs
def Nested.flatList : List Nested → List Ext
  | [] => []
  | c :: rest => c.flat ++ Nested.flatList rest
end

/-! ### FiniteFactor -/

structure Factor where
  doms : List Dom
  shape : List Nat
  data : List Ext        -- row-major
deriving Repr

/-- `FiniteFactor.__init__`/`weights.setter`: accept exactly `shape == (d.size() for d in doms)` -/
def mkFactor (doms : List Dom) (shape : List Nat) (data : List Ext) : Except String Factor :=
  if shape.map (fun (n : Nat) => (n : Int)) = doms.map Dom.size then .ok ⟨doms, shape, data⟩
  else .error "ValueError"

/-- row-major position of an index tuple -/
def flatIndex : List Nat → List Nat → Nat
  | _ :: ss, i :: is => i * (ss.foldl (· * ·) 1) + flatIndex ss is
  | _, _ => 0

/-- `weights[tuple(d.numberize(v) for d, v in zip(domains, values))]`; `none` = KeyError/IndexError -/
def Factor.apply (f : Factor) (values : List Int) : Option Ext := do
  let idxs ← (f.doms.zip values).mapM (fun (d, v) => d.numberize v)
  if idxs.length ≠ f.shape.length then none
  else if (idxs.zip f.shape).all (fun (i, n) => decide (0 ≤ i) && decide (i < (n : Int))) then
    f.data[flatIndex f.shape (idxs.map Int.toNat)]?
  else none

def Factor.eq (a b : Factor) : Bool :=
  decide (a.doms = b.doms) && decide (a.shape = b.shape) && decide (a.data = b.data)

/-! ### InterpretationMixin -/

structure ELabel where
  name : Nat
  type : List Nat       -- node label ids
  terminal : Bool
deriving DecidableEq, Repr

structure St where
  nodeLabels : List Nat := []
  edgeLabels : List ELabel := []           -- at most one per name
  domains : List (Nat × Dom) := []
  factors : List (Nat × List Dom) := []    -- edge label name ↦ (domains of) its factor
deriving DecidableEq, Repr

def St.domainOf (s : St) (nl : Nat) : Option Dom := s.domains.lookup nl

def addNodeLabel (s : St) (nl : Nat) : St :=
  if s.nodeLabels.contains nl then s else { s with nodeLabels := s.nodeLabels ++ [nl] }

/-- `add_edge_label`: a different label of the same name is a ValueError -/
def addEdgeLabel (s : St) (el : ELabel) : Except String St :=
  match s.edgeLabels.find? (·.name = el.name) with
  | some old => if old = el then .ok s else .error "ValueError"
  | none => .ok { s with edgeLabels := s.edgeLabels ++ [el] }

/-- `add_domain`: registers the node label, then rejects an already mapped one.  The returned
state is what the object looks like afterwards, also when the call raises. -/
def addDomain (s : St) (nl : Nat) (d : Dom) : St × Except String Unit :=
  let s := addNodeLabel s nl
  if (s.domains.lookup nl).isSome then (s, .error "ValueError")
  else ({ s with domains := s.domains ++ [(nl, d)] }, .ok ())

/-- the checks of `add_factor` (after the fixes for D16 and D20), in source order: terminal,
not yet mapped, arity, every node label mapped to an equal domain -/
def factorGuard (s : St) (el : ELabel) (fdoms : List Dom) : Bool :=
  el.terminal && (s.factors.lookup el.name).isNone && (fdoms.length == el.type.length) &&
  (el.type.zip fdoms).all (fun p => s.domainOf p.1 == some p.2)

/-- `add_factor`: validate, then register the label (which can still raise on a name conflict),
then bind -/
def addFactor (s : St) (el : ELabel) (fdoms : List Dom) : St × Except String Unit :=
  if factorGuard s el fdoms then
    match addEdgeLabel s el with
    | .error e => (s, .error e)
    | .ok s' => ({ s' with factors := s'.factors ++ [(el.name, fdoms)] }, .ok ())
  else (s, .error "ValueError")

/-- `shape(el)` = sizes of the domains of the label's node labels; KeyError = none -/
def shapeOf (s : St) (type : List Nat) : Option (List Int) :=
  type.mapM (fun nl => (s.domainOf nl).map Dom.size)

/-! ### protocol -/

def parseDom : Parser Dom := do
  let k ← Tok.next
  match k with
  | "finite" => Dom.finite <$> Tok.list Tok.int
  | "range" => Dom.range <$> Tok.int
  | _ => throw s!"bad domain kind {k}"

partial def parseNested : Parser Nested := do
  let k ← Tok.next
  match k with
  | "L" => Nested.leaf <$> Tok.ext
  | "N" => Nested.node <$> Tok.list parseNested
  | _ => throw s!"bad nested {k}"

def showOptInt : Option Int → String := showOpt toString

def parseELabel : Parser ELabel := do
  let n ← Tok.nat; let ty ← Tok.list Tok.nat; let t ← Tok.bool
  pure ⟨n, ty, t⟩

inductive Op where
  | addDomain (nl : Nat) (d : Dom)
  | addFactor (el : ELabel) (fdoms : List Dom)
  | addEdgeLabel (el : ELabel)

def parseOp : Parser Op := do
  let k ← Tok.next
  match k with
  | "dom" => do let nl ← Tok.nat; let d ← parseDom; pure (.addDomain nl d)
  | "fac" => do let el ← parseELabel; let ds ← Tok.list parseDom; pure (.addFactor el ds)
  | "lab" => .addEdgeLabel <$> parseELabel
  | _ => throw s!"bad op {k}"

def step (s : St) : Op → St × Bool
  | .addDomain nl d => let (s', r) := addDomain s nl d; (s', r.toBool)
  | .addFactor el ds => let (s', r) := addFactor s el ds; (s', r.toBool)
  | .addEdgeLabel el => match addEdgeLabel s el with
    | .ok s' => (s', true)
    | .error _ => (s, false)

def showSt (s : St) : String :=
  showList toString s.nodeLabels ++ " " ++
  showList (fun (e : ELabel) => s!"{e.name}") s.edgeLabels ++ " " ++
  showList (fun (p : Nat × Dom) => toString p.1) s.domains ++ " " ++
  showList (fun (p : Nat × List Dom) => toString p.1) s.factors

def handle : List String → Option (Except String String)
  | "C20.dom" :: rest => some do
      let (d, vs, is) ← Tok.run (do
        let d ← parseDom; let vs ← Tok.list Tok.int; let is ← Tok.list Tok.nat; pure (d, vs, is)) rest
      pure (s!"{d.size} " ++ showList (fun v => showBool (d.contains v) ++ " " ++ showOptInt (d.numberize v)) vs
            ++ " " ++ showList (fun i => showOptInt (d.denumberize i)) is)
  | "C20.domeq" :: rest => some do
      let (a, b) ← Tok.run (do let a ← parseDom; let b ← parseDom; pure (a, b)) rest
      pure (showBool (a.eq b))
  | "C20.nested" :: rest => some do
      let n ← Tok.run parseNested rest
      pure (showOpt (showList toString) n.shape ++ " " ++ showList toString n.flat)
  | "C20.factor" :: rest => some do
      let (ds, shape, data, queries) ← Tok.run (do
        let ds ← Tok.list parseDom; let sh ← Tok.list Tok.nat; let data ← Tok.list Tok.ext
        let qs ← Tok.list (Tok.list Tok.int); pure (ds, sh, data, qs)) rest
      match mkFactor ds shape data with
      | .error e => pure ("rejected " ++ e)
      | .ok f => pure ("accepted " ++ showList (fun q => showOpt toString (f.apply q)) queries)
  | "C20.run" :: rest => some do
      let ops ← Tok.run (Tok.list parseOp) rest
      let (_, outs) := ops.foldl (fun (acc : St × List String) op =>
        let (s', ok) := step acc.1 op
        (s', acc.2 ++ [showBool ok ++ " " ++ showSt s'])) ({}, [])
      pure (String.intercalate " | " outs)
  | "C20.shape" :: rest => some do
      let (ops, ty) ← Tok.run (do let ops ← Tok.list parseOp; let ty ← Tok.list Tok.nat; pure (ops, ty)) rest
      let s := ops.foldl (fun s op => (step s op).1) ({} : St)
      pure (showOpt (showList toString) (shapeOf s ty))
  | _ => none

end Fggs.Interp
