/-
FggsModel.Pipeline — model of the driver loop of `sum_products` (sum_product.py): the nonterminal
graph of a grammar, its SCC list (the Tarjan model of `Scc`), the per-component choice of method
(`one-step` for a single non-looping nonterminal, `linear` for a linearly recursive component under
`newton`), `fixed_point` with its iteration budget and warning, `linear` (assembly of `F(0)` and
`J(0)` and the ValueError on a non-linear rule) and the Jacobian `J` — C01, C02, C03, C11, C19.

Everything is stated over the semantic grammar of `Sem`; nonterminals are `0..N-1`, the label of
nonterminal `X` is `T + X`.
-/
import FggsModel.Sem
import FggsModel.Scc
import FggsModel.Solve

namespace Fggs.Pipe
open Sem

variable {K : Type}

/-! ### nonterminal graph and component order -/

/-- the nonterminal edges of a rule, as nonterminal indices, in edge order -/
def ntEdgesOf (G : Grammar K) (r : Rule) : List Nat :=
  (r.edges.filter (fun e => decide (e.1 ≥ G.T))).map (fun e => e.1 - G.T)

/-- what `nonterminal_graph` sees of a grammar -/
def ntView (G : Grammar K) : Scc.NTView :=
  { nonterminals := List.range G.nts.length,
    rules := G.rules.map (fun r => (r.lhs, ntEdgesOf G r)) }

def ntGraph (G : Grammar K) : Scc.Graph := Scc.Impl.nonterminalGraph (ntView G)

/-- `scc(nonterminal_graph(fgg))` -/
def sccOrder (G : Grammar K) : List (List Nat) := Scc.Impl.scc (ntGraph G)

/-- the rhs edges of `r` whose label is a nonterminal of `comp` -/
def compEdges (G : Grammar K) (comp : List Nat) (r : Rule) : List (Nat × List Nat) :=
  r.edges.filter (fun e => decide (e.1 ≥ G.T) && comp.contains (e.1 - G.T))

/-- `max_rhs`: the largest number of rhs edges inside the component, over the component's rules -/
def maxRhs (G : Grammar K) (comp : List Nat) : Nat :=
  (comp.flatMap (fun X => (G.rulesOf X).map (fun r => (compEdges G comp r).length))).foldl max 0

inductive Method where
  | fixedPoint | newton | linear | oneStep
deriving DecidableEq, Repr, Inhabited

/-- the per-component downgrade of the requested method -/
def compMethod (m : Method) (comp : List Nat) (mr : Nat) : Method :=
  if comp.length == 1 && mr == 0 then .oneStep
  else if mr == 1 && m == .newton then .linear
  else m

/-- `x` with the entries of the component's nonterminals taken from `y` -/
def overlay (n : Nat) (x y : Val K) (comp : List Nat) : Val K :=
  (List.range n).map (fun X => if comp.contains X then y[X]?.join else x[X]?.join)

/-- the function handed to the component's solver: `F(fgg, y, inputs)` computes the component's
nonterminals only; `get_weight` looks a label up in `y` first and in the inputs `x` second -/
def compF (S : SR K) (G : Grammar K) (x : Val K) (comp : List Nat) (y : Val K) : Val K :=
  let fx := Impl.F S G (overlay G.nts.length x y comp)
  (List.range G.nts.length).map (fun X => if comp.contains X then fx[X]?.join else none)

/-- the cells of nonterminal `X` (no value = the zero tensor) -/
def cellsOf (S : SR K) (G : Grammar K) (v : Val K) (X : Nat) : List K :=
  match v[X]?.join with
  | some t => t
  | none => List.replicate (numel (G.shapeOf (G.nts[X]?.getD []))) S.zero

/-- `MultiTensor.allclose(other, tol=0)` on exact values: equal cell by cell, a missing entry is zero -/
def valEqOn [BEq K] (S : SR K) (G : Grammar K) (comp : List Nat) (a b : Val K) : Bool :=
  comp.all (fun X => cellsOf S G a X == cellsOf S G b X)

/-- the loop of `fixed_point`: `x1 = F(x0)`; while not stop and k ≤ kmax: `x0 ← x1; x1 ← F(x1)`.
`fuel` = number of loop bodies still allowed (`kmax + 1` at the start); when it runs out the loop is
left through `k > kmax` and the warning is issued (second component `true`), whatever `x0`, `x1` are -/
def fpGo [BEq K] (S : SR K) (G : Grammar K) (x : Val K) (comp : List Nat) : Nat → Val K → Val K → Val K × Bool
  | 0, x0, _ => (x0, true)
  | fuel+1, x0, x1 =>
    if valEqOn S G comp x0 x1 then (x0, false)
    else fpGo S G x comp fuel x1 (compF S G x comp x1)

def fixedPoint [BEq K] (S : SR K) (G : Grammar K) (x : Val K) (comp : List Nat) (kmax : Nat) : Val K × Bool :=
  let z : Val K := List.replicate G.nts.length none
  fpGo S G x comp (kmax + 1) z (compF S G x comp z)

/-! ### the Jacobian `J` and the method `linear` -/

/-- `tau_edge = sum_product_edges(nodes, edges - {edge i}, ext + edge_i.nodes)` -/
def jacTerm (S : SR K) (G : Grammar K) (x : Val K) (r : Rule) (i : Nat) : Option (List K) :=
  match r.edges[i]? with
  | none => none
  | some e => Impl.sumProductEdges S G x r.nodes (r.edges.eraseIdx i) (r.ext ++ e.2)

def addOpt (S : SR K) (acc : Option (List K)) (t : Option (List K)) : Option (List K) :=
  match t with
  | none => acc
  | some t => match acc with
    | none => some t
    | some a => some (addT S a t)

/-- the block of the Jacobian of `F[X]` with respect to the edge label `l` (a nonterminal of the component: `Jx`; any
other label, terminals included: `J_inputs`): sum over the rules of `X` and their edges labelled `l` of the
sum-product of the remaining edges with the edge's nodes kept as extra externals; shape `type X ++ type l`, flat
row-major; `none` = no term (zero) -/
def jacLabel (S : SR K) (G : Grammar K) (x : Val K) (X l : Nat) : Option (List K) :=
  (G.rulesOf X).foldl (fun acc r =>
    (List.range r.edges.length).foldl (fun acc i =>
      match r.edges[i]? with
      | some e => if e.1 == l then addOpt S acc (jacTerm S G x r i) else acc
      | none => acc) acc) none

/-- `J(fgg, x, inputs)[X, Y]` for nonterminals `X`, `Y` -/
def jac (S : SR K) (G : Grammar K) (x : Val K) (X Y : Nat) : Option (List K) := jacLabel S G x X (G.T + Y)

/-- the cells `(X, i)` of a component, in component order -/
def compCells (G : Grammar K) (comp : List Nat) : List (Nat × Nat) :=
  comp.flatMap (fun X => (List.range (numel (G.shapeOf (G.nts[X]?.getD [])))).map (fun i => (X, i)))

/-- `linear`: `F0[X]` collects the rules without an edge in the component, `J0[X, Y]` the rules with
exactly one; a rule with two or more raises ValueError.  `x` holds the inputs (earlier components) and
nothing for the component itself. -/
def linearParts (S : SR K) (G : Grammar K) (x : Val K) (comp : List Nat) :
    Except String (List (Nat × Option (List K)) × List ((Nat × Nat) × Option (List K))) :=
  -- `inputs` holds earlier components only: the component itself has no value
  let x0 : Val K := (List.range G.nts.length).map (fun X => if comp.contains X then none else x[X]?.join)
  if comp.any (fun X => (G.rulesOf X).any (fun r => decide ((compEdges G comp r).length ≥ 2))) then
    throw "ValueError"
  else
    let f0 := comp.map (fun X => (X, (G.rulesOf X).foldl (fun acc r =>
      if (compEdges G comp r).length == 0 then addOpt S acc (Impl.sumProductEdges S G x0 r.nodes r.edges r.ext) else acc) none))
    -- `J0[X, Y]`: once every rule has at most one edge in the component, the rules with exactly one such edge, labelled `Y`,
    -- are exactly the terms of the Jacobian block of `X` with respect to `Y` at the inputs
    let j0 := comp.flatMap (fun X => comp.map (fun Y => ((X, Y), jacLabel S G x0 X (G.T + Y))))
    pure (f0, j0)

/-- the flattened system `x = A x + b` of a linear component -/
def linearSystem (S : SR K) (G : Grammar K) (comp : List Nat)
    (f0 : List (Nat × Option (List K))) (j0 : List ((Nat × Nat) × Option (List K))) : List (List K) × List K :=
  let cells := compCells G comp
  let nY (Y : Nat) := numel (G.shapeOf (G.nts[Y]?.getD []))
  let a := cells.map (fun (X, i) => cells.map (fun (Y, j) =>
    match (j0.lookup (X, Y)).join with
    | some t => t[i * nY Y + j]?.getD S.zero
    | none => S.zero))
  let b := cells.map (fun (X, i) =>
    match (f0.lookup X).join with
    | some t => t[i]?.getD S.zero
    | none => S.zero)
  (a, b)

/-- `linear` = assemble, then `multi_solve` (specified by the scalar elimination loop of `Solve` on the
flattened system: both return the least solution, C09) -/
def linearSolve (S : SR K) (star : K → K) (G : Grammar K) (x : Val K) (comp : List Nat) : Except String (Val K) := do
  let (f0, j0) ← linearParts S G x comp
  let (a, b) := linearSystem S G comp f0 j0
  let sol := Sv.solveLoop S star a b
  let cells := compCells G comp
  pure ((List.range G.nts.length).map (fun X =>
    if comp.contains X then
      some (((cells.zip sol).filter (fun p => p.1.1 == X)).map (·.2))
    else none))

/-! ### the driver loop -/

structure Outcome (K : Type) where
  value : Val K
  warned : Bool := false
  /-- components for which the requested method is outside this model (Newton's iteration proper) -/
  unmodelled : Bool := false

/-- one component -/
def solveComp [BEq K] (S : SR K) (star : K → K) (G : Grammar K) (m : Method) (kmax : Nat)
    (o : Outcome K) (comp : List Nat) : Except String (Outcome K) :=
  let n := G.nts.length
  match compMethod m comp (maxRhs G comp) with
  | .oneStep =>
    let z : Val K := List.replicate n none
    pure { o with value := overlay n o.value (compF S G o.value comp z) comp }
  | .fixedPoint =>
    let (y, w) := fixedPoint S G o.value comp kmax
    pure { o with value := overlay n o.value y comp, warned := o.warned || w }
  | .linear => do
    let y ← linearSolve S star G o.value comp
    pure { o with value := overlay n o.value y comp }
  | .newton =>
    pure { o with unmodelled := true }

/-- `sum_products(fgg, method=m, kmax=kmax)` with an exact stopping test -/
def sumProducts [BEq K] (S : SR K) (star : K → K) (G : Grammar K) (m : Method) (kmax : Nat) : Except String (Outcome K) :=
  (sccOrder G).foldlM (solveComp S star G m kmax) { value := zeroVal G }

/-! ### protocol -/

def parseMethod : Parser Method := do
  let s ← Tok.str
  match s with
  | "fixed-point" => pure .fixedPoint
  | "newton" => pure .newton
  | "linear" => pure .linear
  | _ => throw s!"bad method {s}"

def showOutcome {K} (f : K → String) (r : Except String (Outcome K)) : String :=
  match r with
  | .error e => s!"raise {e}"
  | .ok o => s!"ok {showBool o.warned} {showBool o.unmodelled} {showVal f o.value}"

def showOptT {K} (f : K → String) (t : Option (List K)) : String := showOpt (showList f) t

def handle : List String → Option (Except String String)
  | "P.order" :: rest => some do
      let G ← Tok.run (parseGrammar Tok.ext) rest
      pure (Scc.showComps (sccOrder G))
  | "P.sumProducts" :: sr :: rest => some do
      match sr with
      | "viterbi" =>
        let (G, m, kmax) ← Tok.run (do let g ← parseGrammar Tok.ext; let m ← parseMethod; let k ← Tok.nat; pure (g, m, k)) rest
        pure (showOutcome toString (sumProducts vitSR Impl.vitStar G m kmax))
      | "bool" =>
        let (G, m, kmax) ← Tok.run (do let g ← parseGrammar pBool; let m ← parseMethod; let k ← Tok.nat; pure (g, m, k)) rest
        pure (showOutcome showBool (sumProducts boolSR (fun _ => true) G m kmax))
      | "real" =>
        let (G, m, kmax) ← Tok.run (do let g ← parseGrammar Tok.ext; let m ← parseMethod; let k ← Tok.nat; pure (g, m, k)) rest
        pure (showOutcome toString (sumProducts realSR Impl.realStar G m kmax))
      | _ => throw "bad semiring"
  | "P.sumProductsTol" :: rest => some do
      -- the Real semiring with the stopping test of `MultiTensor.allclose(other, tol)` for tol > 0: every cell within `tol`
      -- ABSOLUTELY (`atol=tol, rtol=0`; equal infinities are close): the driver loop is `sumProducts` itself, run with this
      -- tolerant comparison in place of the exact one
      let (G, m, kmax, tol) ← Tok.run (do
        let g ← parseGrammar Tok.ext; let m ← parseMethod; let k ← Tok.nat; let t ← Tok.rat; pure (g, m, k, t)) rest
      let close : Ext → Ext → Bool := fun a b =>
        match a, b with
        | Ext.fin p, Ext.fin q => decide ((if p ≤ q then q - p else p - q) ≤ tol)
        | Ext.nan, _ => false
        | _, Ext.nan => false
        | a, b => a == b
      pure (showOutcome toString (@sumProducts Ext ⟨close⟩ realSR Impl.realStar G m kmax))
  | "P.jac" :: sr :: rest => some do
      -- Jacobian blocks J[X,Y] at the value x, for all X, Y
      match sr with
      | "real" =>
        let (G, x) ← Tok.run (do let g ← parseGrammar Tok.ext; let x ← parseVal; pure (g, x)) rest
        let n := G.nts.length
        pure (showList (fun X => showList (fun Y => showOptT toString (jac realSR G x X Y)) (List.range n)) (List.range n))
      | "viterbi" =>
        let (G, x) ← Tok.run (do let g ← parseGrammar Tok.ext; let x ← parseVal; pure (g, x)) rest
        let n := G.nts.length
        pure (showList (fun X => showList (fun Y => showOptT toString (jac vitSR G x X Y)) (List.range n)) (List.range n))
      | _ => throw "bad semiring"
  | _ => none

end Fggs.Pipe
