/-
FggsModel.EqualImpl — `PatternedTensor.equal` / `allclose` as the library computes them (fggs/indices.py, C13): the
overlap of the two patterns is found by UNIFYING the virtual axes, the overlapping physical elements are read through
two strided views over the free physical axes (`project`), compared elementwise and marked as dealt with; every other
physical element is compared with the other side's default; the two defaults are compared only when the counting
argument `numel + |overlap| ≤ |P_t| + |P_u|` fails.

`PT.compareModel` (FggsModel/Axis.lean) describes the same decision with the overlap taken to be the intersection of
the images; `compareImpl` is the transcription with `unify` and `project` in their place (theorem C13b relates them).
The operands arrive with disjoint physical identities (the library freshens `other` when they are not).
`none` = the ValueError of `project` (cannot happen on a substitution produced by a successful unification).
-/
import FggsModel.Strided

namespace Fggs.Eq
open Ax Un Sd

/-- the flat position in `t.physical` that an assignment `ρ` of the free axes selects under the substitution -/
def ppos (σ : Subst) (t : PT) (ρ : Nat → Nat) : Nat :=
  Ax.flat (t.paxes.map (·.2)) (t.paxes.map (fun k => evalS σ ρ FUEL (Axis.phys k.1 k.2)))

/-- `project(ok, None, paxes, subst)[0].fill_(True)` -/
def mark (ok : List Bool) (positions : List Nat) : List Bool :=
  ok.zipIdx.map (fun (p : Bool × Nat) => p.1 || positions.contains p.2)

/-- `t.equal(u)` / `t.allclose(u)` with the elementwise test `cmp` (self-side element first) -/
def compareImpl (cmp : Ext → Ext → Bool) (fuel : Nat) (t u : PT) (next : Nat) : Option Bool :=
  if t.vshape != u.vshape then some false
  else
    let n := Ax.numel t.vshape
    let selfok0 := t.physical.map (fun x => cmp x u.default)
    let otherok0 := u.physical.map (fun y => cmp t.default y)
    match unifyAll fuel (t.vaxes.zip u.vaxes) ⟨[], next⟩ with
    | (false, _) =>
      some ((decide (n ≤ selfok0.length + otherok0.length) || cmp t.default u.default) && selfok0.all id && otherok0.all id)
    | (true, st) =>
      let σ := st.subst
      let tax := t.paxes.map (fun k => Axis.phys k.1 k.2)
      let uax := u.paxes.map (fun k => Axis.phys k.1 k.2)
      -- `subself, subaxes = project(self.physical, None, self.paxes, subst)`
      let subaxes := (project (contiguous (t.paxes.map (·.2))) tax σ).2
      -- `project(other.physical, subaxes, other.paxes, subst)` raises unless other's free axes are exactly `subaxes`
      match projectOnto (contiguous (u.paxes.map (·.2))) subaxes uax σ with
      | none => none
      | some _ =>
        let cells := (Ax.assigns (subaxes.map (·.2))).map (fun idx =>
          let ρ := envOf subaxes idx
          (ppos σ t ρ, ppos σ u ρ))
        if !(cells.all (fun c => cmp (t.physical[c.1]?.getD t.default) (u.physical[c.2]?.getD u.default))) then some false
        else
          let selfok := mark selfok0 (cells.map (·.1))
          let otherok := mark otherok0 (cells.map (·.2))
          some ((decide (n + cells.length ≤ selfok.length + otherok.length) || cmp t.default u.default) &&
                selfok.all id && otherok.all id)

/-- the side condition under which `compareImpl` is proved to equal `PT.compareModel`: a unification that fails must
fail because the patterns are disjoint (`unify` is not complete in general), and one that succeeds must not have
exhausted the model's fuel: no identity bound twice, and no bound axis left in the clones of the physical axes -/
def faithful (fuel : Nat) (t u : PT) (next : Nat) : Bool :=
  match unifyAll fuel (t.vaxes.zip u.vaxes) ⟨[], next⟩ with
  | (false, _) => !(t.cells.any (fun p => u.cells.any (·.1 == p.1)))
  | (true, st) =>
    nodupNat (st.subst.map (·.1)) &&
    (t.paxes ++ u.paxes).all (fun k => (clone st.subst FUEL (Axis.phys k.1 k.2)).fv.all (fun q => (bound st.subst q.1).isNone))

/-- the second side condition of `C13b.compareImpl_eq_compareModel`: every binding of the substitution found by a successful
unification is resolved by `FUEL - 1` units of fuel (its clone contains no bound axis) -/
def resolved (fuel : Nat) (t u : PT) (next : Nat) : Bool :=
  match unifyAll fuel (t.vaxes.zip u.vaxes) ⟨[], next⟩ with
  | (false, _) => true
  | (true, st) =>
    st.subst.all (fun p => (clone st.subst (FUEL - 1) p.2).fv.all (fun q => (bound st.subst q.1).isNone))

/-! ### protocol -/

def showOptBool : Option Bool → String
  | some b => showBool b
  | none => "ValueError"

def handle : List String → Option (Except String String)
  | "C13.impl" :: rest => some do
      let (t, u, rtol, atol, en, next) ← Tok.run (do
        let t ← parsePT; let u ← parsePT; let r ← Tok.rat; let a ← Tok.rat; let e ← Tok.bool; let n ← Tok.nat; pure (t, u, r, a, e, n)) rest
      pure s!"{showOptBool (compareImpl Ext.eqIEEE FUEL t u next)} {showOptBool (compareImpl (isclose rtol atol en) FUEL t u next)} {showBool (faithful FUEL t u next && resolved FUEL t u next)} {showBool (t.equalModel u)} {showBool (t.allcloseModel rtol atol en u)}"
  | _ => none

end Fggs.Eq
