/-
FggsModel.Strided — strided views, `Axis.stride(subst)`, `project` (fggs/indices.py) and `reduce_equation` /
`post_einsum` (fggs/equation.py): the layer between the patterned `einsum` and `torch_semiring_einsum` (C07).

A view is torch's tensor metadata (sizes, strides, storage offset); the element at an index tuple lives at
`offset + Σ index·stride` of the storage.  `project(tensor.physical, None, tensor.paxes, subst)` re-indexes an operand
over the physical axes that remain free under the substitution by building such a view (`as_strided`); for a sum-free
equation `reduce_equation` drops every dimension of stride 0 or size 1 from the operands (`as_strided` again), removes
from the equation the variables that no operand carries any more, and `post_einsum` puts them back into the result
(`unsqueeze` at their output positions, then `expand`).

Not modelled: the dead early exit of `reduce_equation` (`shrunk_shapes == original_shapes` compares a tuple with a
list, which is never equal in Python; the general path computes the same views), and the letters of the reduced
equation (`compile_equation` numbers the variables by first appearance, which is what the model returns).
-/
import FggsModel.Unify

namespace Fggs.Sd
open Ax Un

structure View where
  shape : List Nat
  strides : List Nat
  offset : Nat
deriving Repr, BEq, Inhabited

/-- storage address of the element at `idx` -/
def View.addr (v : View) (idx : List Nat) : Nat :=
  (idx.zip v.strides).foldl (fun acc p => acc + p.1 * p.2) v.offset

/-- row-major strides of a contiguous tensor -/
def contiguousStrides : List Nat → List Nat
  | [] => []
  | _ :: ss => Ax.numel ss :: contiguousStrides ss

def contiguous (shape : List Nat) : View := ⟨shape, contiguousStrides shape, 0⟩

/-! ### `Axis.stride(subst)` -/

/-- a physical axis (identity, size) with its coefficient -/
abbrev Coeffs := List ((Nat × Nat) × Nat)

/-- `stride[k] = stride.get(k, 0) + c` (a dict: first insertion fixes the position) -/
def addCoeff (s : Coeffs) (k : Nat × Nat) (c : Nat) : Coeffs :=
  if s.any (·.1.1 == k.1) then s.map (fun p => if p.1.1 == k.1 then (p.1, p.2 + c) else p) else s ++ [(k, c)]

/-- one step of `ProductAxis.stride`: scale what there is by the factor's numel, add the factor's own form -/
def combine (acc : Nat × Coeffs) (n : Nat) (f : Nat × Coeffs) : Nat × Coeffs :=
  (acc.1 * n + f.1, f.2.foldl (fun s p => addCoeff s p.1 p.2) (acc.2.map (fun p => (p.1, p.2 * n))))

mutual
/-- `e.stride({})`: the affine form of an axis as it stands -/
def strideC : Axis → Nat × Coeffs
  | .phys v n => (0, [((v, n), 1)])
  | .prod fs => strideCList fs (0, [])
  | .sum b t _ => let r := strideC t; (r.1 + b, r.2)
def strideCList : List Axis → Nat × Coeffs → Nat × Coeffs
  | [], acc => acc
  | f :: fs, acc => strideCList fs (combine acc f.numel (strideC f))
end

/-- `e.stride(subst)`: offset and coefficients of the affine map from the free physical axes to the virtual index; a
bound physical axis forwards to its binding.  Out of fuel: the axis is taken as it stands. -/
def strideS (σ : Subst) : Nat → Axis → Nat × Coeffs
  | 0, e => strideC e
  | fuel+1, .phys v n =>
    match bound σ v with
    | some e => strideS σ fuel e
    | none => (0, [((v, n), 1)])
  | fuel+1, .prod fs => fs.foldl (fun acc f => combine acc f.numel (strideS σ fuel f)) (0, [])
  | fuel+1, .sum b t _ => let r := strideS σ fuel t; (r.1 + b, r.2)

/-- the value of the affine form under an assignment of the physical axes -/
def applyS (r : Nat × Coeffs) (ρ : Nat → Nat) : Nat := r.2.foldl (fun acc p => acc + p.2 * ρ p.1.1) r.1

/-- the virtual index denoted by `e` under `σ` and an assignment of the free physical axes (the meaning `strideS` is
the affine form of) -/
def evalS (σ : Subst) (ρ : Nat → Nat) : Nat → Axis → Nat
  | 0, e => e.eval ρ
  | fuel+1, .phys v _ =>
    match bound σ v with
    | some e => evalS σ ρ fuel e
    | none => ρ v
  | fuel+1, .prod fs => fs.foldl (fun acc f => acc * f.numel + evalS σ ρ fuel f) 0
  | fuel+1, .sum b t _ => b + evalS σ ρ fuel t

/-! ### `project` -/

/-- the affine form of a whole index tuple into `virt`: offset and the stride of every free physical axis -/
def projectForm (virt : View) (vaxes : List Axis) (σ : Subst) : Nat × Coeffs :=
  (vaxes.zip virt.strides).foldl (fun (acc : Nat × Coeffs) (p : Axis × Nat) =>
    let r := strideS σ FUEL p.1
    (acc.1 + r.1 * p.2, r.2.foldl (fun s q => addCoeff s q.1 (q.2 * p.2)) acc.2)) (virt.offset, [])

/-- `project(virtual, None, vaxes, subst)`: the view and the physical axes it is indexed by (in order of first
occurrence) -/
def project (virt : View) (vaxes : List Axis) (σ : Subst) : View × List (Nat × Nat) :=
  let r := projectForm virt vaxes σ
  (⟨r.2.map (·.1.2), r.2.map (·.2), r.1⟩, r.2.map (·.1))

/-- `project(virtual, paxes, vaxes, subst)` with the physical axes given; `none` = ValueError (the given axes are not
exactly the free ones) -/
def projectOnto (virt : View) (paxes : List (Nat × Nat)) (vaxes : List Axis) (σ : Subst) : Option View :=
  let r := projectForm virt vaxes σ
  let keys := r.2.map (·.1.1)
  if keys.all (fun k => paxes.any (·.1 == k)) && paxes.all (fun p => keys.contains p.1) then
    some ⟨paxes.map (·.2), paxes.map (fun p => ((r.2.find? (·.1.1 == p.1)).map (·.2)).getD 0), r.1⟩
  else none

/-! ### `to_dense` as the library performs it -/

/-- `PatternedTensor.to_dense()`: a tensor of the virtual shape filled with the default, into which the physical tensor
is copied element by element through the view `project(virtual, self.paxes, self.vaxes, {})`; `none` = the ValueError
of `project` (the virtual axes do not mention exactly the physical axes) -/
def toDenseImpl (t : PT) : Option (List Ext) :=
  let vs := t.vshape
  match projectOnto (contiguous vs) t.paxes t.vaxes [] with
  | none => none
  | some w =>
    some ((Ax.assigns (t.paxes.map (·.2))).zipIdx.foldl (fun (arr : Array Ext) (p : List Nat × Nat) =>
      arr.setIfInBounds (w.addr p.1) (t.physical[p.2]?.getD t.default)) (Array.replicate (Ax.numel vs) t.default)).toList

/-! ### `reduce_equation` / `post_einsum` -/

/-- an einsum equation over variables `0 … numVars-1` -/
structure Eqn where
  inputs : List (List Nat)
  output : List Nat
  numVars : Nat
deriving Repr, BEq, Inhabited

/-- `unexpanded_shape`: the dimensions that are neither broadcast (stride 0) nor of size 1 -/
def reserved (v : View) : List Nat :=
  (List.range v.shape.length).filter (fun i => !(v.strides[i]?.getD 0 == 0 || v.shape[i]?.getD 0 == 1))

def shrink (v : View) : View :=
  let r := reserved v
  ⟨r.map (fun i => v.shape[i]?.getD 0), r.map (fun i => v.strides[i]?.getD 0), v.offset⟩

/-- `Equation.get_sizes`: the size of a variable is read at its first occurrence in the operands -/
def varSize (e : Eqn) (views : List View) (x : Nat) : Nat :=
  match (e.inputs.zip views).find? (fun p => p.1.contains x) with
  | some p => p.2.shape[p.1.idxOf x]?.getD 0
  | none => 0

/-- number the variables by first appearance (what `compile_equation` does with the letters) -/
def renumber (ins : List (List Nat)) (out : List Nat) : List (List Nat) × List Nat × Nat :=
  let order := (ins.flatten ++ out).eraseDups
  (ins.map (fun l => l.map order.idxOf), out.map order.idxOf, order.length)

structure Reduced where
  views : List View
  eqn : Eqn
  unsqueeze : List Nat
  outShape : List Nat
deriving Repr, Inhabited

/-- `reduce_equation(compiled_equation, tensors)` -/
def reduceEquation (e : Eqn) (views : List View) : Reduced :=
  let outShape := e.output.map (varSize e views)
  if e.output.length != e.numVars then ⟨views, e, [], outShape⟩
  else
    let shrunk := views.map shrink
    let shrunkVars := (e.inputs.zip views).map (fun p => (reserved p.2).map (fun i => p.1[i]?.getD 0))
    let kept := shrunkVars.flatten
    let removed := (e.inputs.flatten.eraseDups).filter (fun x => !kept.contains x)
    let unsq := (removed.map e.output.idxOf).mergeSort (· ≤ ·)
    let outVars := e.output.filter (fun x => !removed.contains x)
    let (ins', out', n') := renumber shrunkVars outVars
    ⟨shrunk, ⟨ins', out', n'⟩, unsq, outShape⟩

/-- `Tensor.unsqueeze(d)` on the metadata (torch's stride rule for the new dimension) -/
def unsqueeze (v : View) (d : Nat) : View :=
  let st := match v.shape[d]?, v.strides[d]? with
    | some n, some s => n * s
    | _, _ => 1
  ⟨(v.shape.take d) ++ [1] ++ (v.shape.drop d), (v.strides.take d) ++ [st] ++ (v.strides.drop d), v.offset⟩

/-- `Tensor.expand(shape)` for a shape of the same number of dimensions: a size-1 dimension that grows gets stride 0 -/
def expand (v : View) (shape : List Nat) : View :=
  ⟨shape, (List.range shape.length).map (fun i =>
      if v.shape[i]?.getD 1 == 1 && shape[i]?.getD 1 != 1 then 0 else v.strides[i]?.getD 0), v.offset⟩

/-- `post_einsum(result, unsqueeze_index, output_shape)` -/
def postEinsum (result : View) (unsq : List Nat) (outShape : List Nat) : View :=
  expand (unsq.foldl unsqueeze result) outShape

/-- the value of a SUM-FREE einsum at an assignment `a` of its variables (`a[x]` is the value of variable `x`): the
product of the operands' elements; `stor i` is the storage of operand `i` -/
def cellProduct {K : Type} (mul : K → K → K) (one : K) (stor : Nat → Nat → K) (e : Eqn) (views : List View)
    (a : List Nat) : K :=
  ((e.inputs.zip views).zipIdx.map (fun (p : (List Nat × View) × Nat) =>
    stor p.2 (p.1.2.addr (p.1.1.map (fun x => a[x]?.getD 0))))).foldl mul one

/-- the assignment of the variables given by an index tuple of the output -/
def assignOf (out : List Nat) (n : Nat) (idx : List Nat) : List Nat :=
  (List.range n).map (fun x => idx[out.idxOf x]?.getD 0)

/-- executable form of the theorem `C07e.reduce_correct` for one assignment `a` of the variables: some cell `idx'` of
the reduced result is the one the re-expanded result reads at the output index of `a`, and at `idx'` every reduced
operand addresses the storage element the original operand addresses at `a` -/
def cellOk (e : Eqn) (views : List View) (a : List Nat) : Bool :=
  let r := reduceEquation e views
  let shape' := r.eqn.output.map (varSize r.eqn r.views)
  let post := postEinsum (contiguous shape') r.unsqueeze r.outShape
  let target := post.addr (e.output.map (fun x => a[x]?.getD 0))
  (Ax.assigns shape').any (fun idx' =>
    (contiguous shape').addr idx' == target &&
    ((r.eqn.inputs.zip r.views).map (fun p => p.2.addr (p.1.map (fun x => (assignOf r.eqn.output r.eqn.numVars idx')[x]?.getD 0))))
      == ((e.inputs.zip views).map (fun p => p.2.addr (p.1.map (fun x => a[x]?.getD 0)))))

/-- what `torch_semiring_einsum` demands of an equation and its operands (decidable form of `C07e.WF`) -/
def wfB (e : Eqn) (views : List View) : Bool :=
  e.inputs.length == views.length &&
  (e.inputs.zip views).all (fun p => p.1.length == p.2.shape.length && p.1.length == p.2.strides.length) &&
  e.inputs.all (fun l => nodupNat l) && nodupNat e.output &&
  (e.inputs.flatten ++ e.output).all (fun x => decide (x < e.numVars)) &&
  e.output.all (fun x => e.inputs.flatten.contains x) &&
  (e.inputs.zip views).all (fun p => (List.range p.1.length).all (fun j =>
    p.2.shape[j]?.getD 0 == varSize e views (p.1[j]?.getD 0)))

/-- all cells of a job -/
def jobOk (e : Eqn) (views : List View) : Bool :=
  (Ax.assigns ((List.range e.numVars).map (varSize e views))).all (cellOk e views)

/-! ### protocol -/

def parseView : Parser View := do
  let sh ← Tok.list Tok.nat; let st ← Tok.list Tok.nat; let o ← Tok.nat
  pure ⟨sh, st, o⟩

def showView (v : View) : String := s!"{showList toString v.shape} {showList toString v.strides} {v.offset}"

def parseSubst : Parser Subst := Tok.list (do let v ← Tok.nat; let e ← parseAxis; pure (v, e))

def handle : List String → Option (Except String String)
  | "C07.project" :: rest => some do
      let (virt, vaxes, σ) ← Tok.run (do let v ← parseView; let a ← Tok.list parseAxis; let s ← parseSubst; pure (v, a, s)) rest
      let (w, pax) := project virt vaxes σ
      pure s!"{showView w} {showList (fun (p : Nat × Nat) => s!"{p.1} {p.2}") pax}"
  | "C07.projectOnto" :: rest => some do
      let (virt, pax, vaxes, σ) ← Tok.run (do
        let v ← parseView; let p ← Tok.list (do let v ← Tok.nat; let n ← Tok.nat; pure (v, n))
        let a ← Tok.list parseAxis; let s ← parseSubst; pure (v, p, a, s)) rest
      match projectOnto virt pax vaxes σ with
      | some w => pure s!"ok {showView w}"
      | none => pure "ValueError"
  | "C06.toDenseImpl" :: rest => some do
      let t ← Tok.run parsePT rest
      match toDenseImpl t with
      | some d => pure s!"ok {showList toString d} {showBool (d == t.dense)}"
      | none => pure "ValueError"
  | "C07.reduce" :: rest => some do
      let (ins, out, n, views) ← Tok.run (do
        let i ← Tok.list (Tok.list Tok.nat); let o ← Tok.list Tok.nat; let n ← Tok.nat; let v ← Tok.list parseView
        pure (i, o, n, v)) rest
      let r := reduceEquation ⟨ins, out, n⟩ views
      let res : View := contiguous (r.eqn.output.map (varSize r.eqn r.views))
      let post := postEinsum res r.unsqueeze r.outShape
      pure s!"{showList showView r.views} {showList (showList toString) r.eqn.inputs} {showList toString r.eqn.output} {r.eqn.numVars} {showList toString r.unsqueeze} {showList toString r.outShape} {showView post} {showBool (wfB ⟨ins, out, n⟩ views)} {showBool (out.length != n || jobOk ⟨ins, out, n⟩ views)}"
  | _ => none

end Fggs.Sd
