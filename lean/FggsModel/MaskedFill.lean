/-
FggsModel.MaskedFill — model of `PatternedTensor.masked_fill_into(dest, value)` of fggs/indices.py (C04: `F_viterbi`
records the index of the best rule with `tau_rule.gt(Fx[n]).masked_fill_into(lhs_pointer[n], ri)`): the Boolean
patterned tensor `self` is a mask over a DENSE tensor `dest` of the same virtual shape; the elements of `dest` where
the mask is true are overwritten with `value`.

The library never densifies the mask: it takes the strided view of `dest` at the cells the mask's pattern covers
(`project(dest, self.paxes, self.vaxes, {})`, model `Sd.projectOnto`) and

* if the mask's default is false: `projected.masked_fill_(self.physical, value)` — only covered cells can change;
* if the mask's default is true: the covered cells are first saved with the value where the physical mask is true
  (`torch.where(self.physical, value, projected)`), the WHOLE of `dest` is filled with the value, and the saved cells
  are written back through the view.

`none` = the ValueError of `project` (the virtual axes do not mention exactly the physical axes).
-/
import FggsModel.Strided

namespace Fggs.Mf
open Ax Un Sd

def truthy (x : Ext) : Bool := x != Ext.fin 0

/-- `self.masked_fill_into(dest, value)`; `dest` flat row-major of the mask's virtual shape; returns the new `dest` -/
def maskedFillInto (mask : PT) (dest : List Ext) (value : Ext) : Option (List Ext) :=
  match projectOnto (contiguous mask.vshape) mask.paxes mask.vaxes [] with
  | none => none
  | some w =>
    let cells := (Ax.assigns (mask.paxes.map (·.2))).zipIdx
    if truthy mask.default then
      -- preserved = where(physical, value, projected); dest.fill_(value); projected.copy_(preserved)
      let preserved := cells.map (fun (p : List Nat × Nat) =>
        if truthy (mask.physical[p.2]?.getD mask.default) then value else dest[w.addr p.1]?.getD value)
      some ((cells.zip preserved).foldl (fun (arr : Array Ext) (q : (List Nat × Nat) × Ext) =>
        arr.setIfInBounds (w.addr q.1.1) q.2) (Array.replicate dest.length value)).toList
    else
      -- projected.masked_fill_(physical, value)
      some (cells.foldl (fun (arr : Array Ext) (p : List Nat × Nat) =>
        if truthy (mask.physical[p.2]?.getD mask.default) then arr.setIfInBounds (w.addr p.1) value else arr) dest.toArray).toList

/-- what it must compute: `dest` with `value` wherever the dense mask is true -/
def spec (mask : PT) (dest : List Ext) (value : Ext) : List Ext :=
  (dest.zip mask.dense).map (fun p => if truthy p.2 then value else p.1)

def handle : List String → Option (Except String String)
  | "C04.maskedfill" :: rest => some do
      let (m, dest, v) ← Tok.run (do let m ← Ax.parsePT; let d ← Tok.list Tok.ext; let v ← Tok.ext; pure (m, d, v)) rest
      match maskedFillInto m dest v with
      | none => pure "none"
      | some r => pure ("some " ++ showList toString r ++ " " ++ showBool (r == spec m dest v) ++ " " ++ showBool m.wf)
  | _ => none

end Fggs.Mf
