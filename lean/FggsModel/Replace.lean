/-
FggsModel.Replace — model of fggs/derivations.py: replace_edge, start_graph, FGGDerivation.derive
(C15), on top of the structural model FggsModel.Graph.

Fresh objects: Python gives a new Node/Edge the id `id(obj)`, unique among live objects.  The
model draws implicit ids from a counter `fresh` that the caller guarantees to lie above every
implicit id in use; results are compared with the implementation up to a renaming of implicit ids.
-/
import FggsModel.Graph

namespace Fggs.G

/-- association list from replacement nodes to graph nodes; later bindings override (Python dict) -/
abbrev NodeMap := List (Node × Node)

def NodeMap.get (m : NodeMap) (r : Node) : Option Node := (m.find? (·.1 = r)).map (·.2)

/-- `node_map[r] = g`: overwrite in place if the key exists (dict keeps first-insertion order) -/
def NodeMap.set (m : NodeMap) (r g : Node) : NodeMap :=
  if m.any (·.1 = r) then m.map (fun p => if p.1 = r then (r, g) else p) else m ++ [(r, g)]

structure ReplaceResult where
  graph : Graph
  nodeMap : NodeMap                 -- replacement node ↦ graph node
  edgeMap : List (Edge × Edge)      -- replacement edge ↦ graph edge
  fresh : Nat

/-- copy the non-external nodes of the replacement with fresh ids -/
def copyNodes (g : Graph) (m : NodeMap) (fresh : Nat) : List Node → Except Err (Graph × NodeMap × Nat)
  | [] => .ok (g, m, fresh)
  | r :: rest =>
    if (m.get r).isSome then copyNodes g m fresh rest
    else do
      let gn : Node := ⟨r.label, .impl fresh⟩
      let g ← g.addNode gn
      copyNodes g (m ++ [(r, gn)]) (fresh + 1) rest

def copyEdges (g : Graph) (m : NodeMap) (em : List (Edge × Edge)) (fresh : Nat) :
    List Edge → Except Err (Graph × List (Edge × Edge) × Nat)
  | [] => .ok (g, em, fresh)
  | r :: rest => do
    -- `node_map[rnode]` for a node that is not in the replacement graph would be a KeyError
    let gnodes ← r.nodes.mapM (fun n => match m.get n with | some x => .ok x | none => .error Err.keyError)
    let ge ← mkEdge r.label gnodes (.impl fresh)
    let g ← g.addEdge ge
    copyEdges g m (em ++ [(r, ge)]) (fresh + 1) rest

/-- `replace_edge(graph, edge, replacement)` -/
def replaceEdge (fresh : Nat) (g : Graph) (e : Edge) (repl : Graph) : Except Err ReplaceResult :=
  if e.label.type ≠ repl.type then .error .valueError
  else do
    let g ← g.removeEdge e
    let m : NodeMap := (e.nodes.zip repl.ext).foldl (fun m (gn, rn) => m.set rn gn) []
    let (g, m, fresh) ← copyNodes g m fresh repl.nodes
    let (g, em, fresh) ← copyEdges g m [] fresh repl.edges
    pure ⟨g, m, em, fresh⟩

/-- `start_graph`: one edge labelled by the start symbol on fresh nodes -/
def startGraph (fresh : Nat) (s : ELabel) : Except Err (Graph × Edge × Nat) := do
  let ns : List Node := (s.type.zipIdx).map (fun (l, k) => ⟨l, .impl (fresh + k)⟩)
  let e ← mkEdge s ns (.impl (fresh + ns.length))
  let g ← ({} : Graph).addEdge e
  pure (g, e, fresh + ns.length + 1)

/-! ### the derived graph, independently of any rewriting order (specification)

A derivation tree: the rule used (its lhs and rhs graph) and one child per nonterminal edge of the
rhs, keyed by the edge's position in `rhs.edges`. -/
inductive Deriv where
  | mk (lhs : ELabel) (rhs : Graph) (children : List (Nat × Deriv))

/-- a node of the derived graph: the path of the rule instance that owns it (list of edge
positions from the root) and the node's position in that rule's rhs; external nodes are resolved
upwards to their owner.  The root's external nodes are owned by the pseudo-instance `none`. -/
structure PNode where
  path : Option (List Nat)
  pos : Nat
deriving DecidableEq, Repr

structure PEdge where
  label : ELabel
  nodes : List PNode
  path : List Nat
  pos : Nat
deriving Repr

def posOf (l : List Node) (n : Node) : Nat := l.findIdx (· = n)

/-- `bind` gives, for each external position of the current instance, the derived node it is
identified with. -/
partial def flattenAux (path : List Nat) (bind : List PNode) : Deriv → List PNode × List PEdge
  | .mk _ rhs children =>
    let resolve (n : Node) : PNode :=
      -- the *last* external position holding n wins (dict overwrite in replace_edge)
      match (rhs.ext.zipIdx.reverse.find? (·.1 = n)) with
      | some (_, k) => bind[k]?.getD ⟨some path, posOf rhs.nodes n⟩
      | none => ⟨some path, posOf rhs.nodes n⟩
    let ownNodes := (rhs.nodes.filter (fun n => !rhs.ext.contains n)).map resolve
    let step := fun (acc : List PNode × List PEdge) (p : Edge × Nat) =>
      let (e, k) := p
      match children.lookup k with
      | some d =>
        let (ns, es) := flattenAux (path ++ [k]) (e.nodes.map resolve) d
        (acc.1 ++ ns, acc.2 ++ es)
      | none => (acc.1, acc.2 ++ [⟨e.label, e.nodes.map resolve, path, k⟩])
    rhs.edges.zipIdx.foldl step (ownNodes, [])

def flatten (d : Deriv) : List PNode × List PEdge :=
  match d with
  | .mk lhs _ _ =>
    let roots : List PNode := (List.range lhs.type.length).map (fun k => ⟨none, k⟩)
    let (ns, es) := flattenAux [] roots d
    (roots ++ ns, es)

/-! ### protocol -/

def showPNode (n : PNode) : String :=
  match n.path with
  | none => s!"root {n.pos}"
  | some p => s!"at {showList toString p} {n.pos}"

def showReplace (r : ReplaceResult) : String :=
  showGraph r.graph ++ " " ++ showList (fun (p : Node × Node) => showNode p.1 ++ " " ++ showNode p.2) r.nodeMap
  ++ " " ++ showList (fun (p : Edge × Edge) => showId p.1.id ++ " " ++ showId p.2.id) r.edgeMap

partial def parseDeriv : Parser Deriv := do
  let lhs ← parseELabel
  let rhs ← parseGraph
  let cs ← Tok.list (do let k ← Tok.nat; let d ← parseDeriv; pure (k, d))
  pure (.mk lhs rhs cs)

def handleReplace : List String → Option (Except String String)
  | "C15.replace" :: rest => some do
      let (fresh, g, e, repl) ← Tok.run (do
        let f ← Tok.nat; let g ← parseGraph; let e ← parseEdge; let r ← parseGraph; pure (f, g, e, r)) rest
      match replaceEdge fresh g e repl with
      | .ok r => pure ("ok " ++ showReplace r ++ " " ++ showBool (graphInv r.graph))
      | .error err => pure ("raise " ++ err.toString)
  | "C15.flatten" :: rest => some do
      let d ← Tok.run parseDeriv rest
      let (ns, es) := flatten d
      pure (showList showPNode ns ++ " " ++
        showList (fun (e : PEdge) => s!"{showELabel e.label} {showList showPNode e.nodes} {showList toString e.path} {e.pos}") es)
  | _ => none

end Fggs.G
