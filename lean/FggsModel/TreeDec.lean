/-
FggsModel.TreeDec — model of the order-based part of fggs/factorize.py (C10): eliminate_node,
count_fillin, min_fill, tree_decomposition_from_order; the contract of a tree decomposition as an
executable decider `validTD`; widths; treewidth by exhaustive minimisation over elimination orders.

Graphs are adjacency association lists in dict insertion order; neighbour sets are duplicate-free
lists (set iteration order never influences a result that the model reproduces).
-/
import FggsModel.Basic

namespace Fggs.TD

abbrev UG := List (Nat × List Nat)

def verts (g : UG) : List Nat := g.map (·.1)
def nbrs (g : UG) (v : Nat) : List Nat := (g.lookup v).getD []
def insertU (l : List Nat) (x : Nat) : List Nat := if l.contains x then l else l ++ [x]

/-- `add_edge(graph, u, v)` on existing keys -/
def addEdge (g : UG) (u v : Nat) : UG :=
  g.map (fun p => if p.1 == u then (p.1, insertU p.2 v) else if p.1 == v then (p.1, insertU p.2 u) else p)

/-- `make_clique(graph, nodes)` -/
def makeClique (g : UG) (ns : List Nat) : UG :=
  ns.foldl (fun g a => ns.foldl (fun g b => if a != b then addEdge g a b else g) g) g

/-- `remove_node(graph, v)` -/
def removeNode (g : UG) (v : Nat) : UG :=
  (g.filter (·.1 != v)).map (fun p => (p.1, p.2.filter (· != v)))

/-- `eliminate_node(graph, v)` -/
def eliminate (g : UG) (v : Nat) : UG := removeNode (makeClique g (nbrs g v)) v

/-- `count_fillin(graph, u)`: number of missing edges among the neighbours -/
def countFillin (g : UG) (u : Nat) : Nat :=
  let ns := nbrs g u
  (ns.foldl (fun c a => ns.foldl (fun c b => if a != b && !(nbrs g a).contains b then c + 1 else c) c) 0) / 2

/-- `min(graph, key=...)`: the first key with the least value -/
def argminFirst (ks : List Nat) (f : Nat → Nat) : Option Nat :=
  ks.foldl (fun best k => match best with
    | none => some k
    | some b => if f k < f b then some k else some b) none

/-- `min_fill(graph)`: (dmax, order) -/
def minFill (g : UG) : Nat × List Nat :=
  let rec go : Nat → UG → Nat → List Nat → Nat × List Nat
    | 0, _, d, ord => (d, ord)
    | fuel+1, g, d, ord =>
      match argminFirst (verts g) (countFillin g) with
      | none => (d, ord)
      | some u => go fuel (eliminate g u) (max d (nbrs g u).length) (ord ++ [u])
  go g.length g 0 []

/-- a tree of bags: adjacency keyed by bag (bags as sorted lists), in insertion order -/
abbrev Tree := List (List Nat × List (List Nat))

def sortBag (l : List Nat) : List Nat := l.mergeSort (· ≤ ·)
def subset (a b : List Nat) : Bool := a.all (b.contains ·)

def treeAddNode (t : Tree) (b : List Nat) : Tree := if t.any (·.1 == b) then t else t ++ [(b, [])]
def treeAddEdge (t : Tree) (a b : List Nat) : Tree :=
  t.map (fun p => if p.1 == a then (p.1, if p.2.contains b then p.2 else p.2 ++ [b])
                  else if p.1 == b then (p.1, if p.2.contains a then p.2 else p.2 ++ [a]) else p)

/-- `tree_decomposition_from_order`; returns the tree and the graph as mutated by the call -/
def fromOrderAux : List Nat → UG → Tree × UG
  | [], g => ([], g)
  | v :: rest, g =>
    let clique := nbrs g v
    let g := eliminate g v
    let bag := sortBag (clique ++ [v])
    if clique.length < g.length then
      let (t, g') := fromOrderAux rest g
      -- `for tv in tree: if clique.issubset(tv): break`
      match t.find? (fun p => subset clique p.1) with
      | some (tv, _) => (treeAddEdge (treeAddNode t bag) tv bag, g')
      | none => (treeAddNode t bag, g')      -- (`assert False` in the source)
    else (treeAddNode [] bag, g)

def fromOrder (g : UG) (order : List Nat) : Tree :=
  if order.isEmpty then [([], [])] else (fromOrderAux order g).1

/-! ### the contract -/

def width (t : Tree) : Nat := (t.map (fun p => p.1.length)).foldl max 0 - 1

/-- bags reachable from `start` inside `allowed` -/
def reachBags (t : Tree) (allowed : List (List Nat)) (start : List Nat) : List (List Nat) :=
  let step (seen : List (List Nat)) : List (List Nat) :=
    seen.foldl (fun acc b => ((t.lookup b).getD []).foldl
      (fun acc c => if allowed.contains c && !acc.contains c then acc ++ [c] else acc) acc) seen
  (List.range t.length).foldl (fun seen _ => step seen) [start]

def validTD (g : UG) (t : Tree) : Bool :=
  let bags := t.map (·.1)
  -- a tree: symmetric adjacency among its bags, connected, |E| = |V| - 1, no duplicate bags
  !bags.isEmpty &&
  t.all (fun p => p.2.all (fun c => bags.contains c && ((t.lookup c).getD []).contains p.1 && c != p.1)) &&
  (List.range bags.length).all (fun i => (List.range bags.length).all (fun j => i == j || bags[i]! != bags[j]!)) &&
  (reachBags t bags (bags.headD [])).length == bags.length &&
  (t.map (fun p => p.2.length)).foldl (· + ·) 0 == 2 * (bags.length - 1) &&
  -- bags hold vertices only; every vertex and every edge is covered
  bags.all (fun b => b.all (fun v => (verts g).contains v)) &&
  (verts g).all (fun v => bags.any (·.contains v)) &&
  g.all (fun p => p.2.all (fun w => bags.any (fun b => b.contains p.1 && b.contains w))) &&
  -- running intersection: the bags containing a vertex are connected
  (verts g).all (fun v =>
    let bs := bags.filter (·.contains v)
    match bs with
    | [] => false
    | b0 :: _ => (reachBags t bs b0).length == bs.length)

/-! ### widths and treewidth -/

/-- width of the elimination game along `order` -/
def elimWidth : UG → List Nat → Nat
  | _, [] => 0
  | g, v :: rest => max (nbrs g v).length (elimWidth (eliminate g v) rest)

def perms : List Nat → List (List Nat)
  | [] => [[]]
  | l => l.flatMap (fun x => (perms (l.erase x)).map (x :: ·))
termination_by l => l.length
decreasing_by
  simp_wf
  rename_i h
  rw [List.length_erase_of_mem h]
  cases l with
  | nil => cases h
  | cons a t => simp

/-- treewidth = least elimination width (taken as the definition; exhaustive, for small graphs).
Branch and bound over vertex choices with the best width so far. -/
def twAux : Nat → UG → Nat → Nat → Nat
  | 0, _, cur, _ => cur
  | fuel+1, g, cur, best =>
    if g.isEmpty then cur
    else if cur ≥ best then best
    else (verts g).foldl (fun best v =>
      let c := max cur (nbrs g v).length
      if c ≥ best then best else min best (twAux fuel (eliminate g v) c best)) best

def tw (g : UG) : Nat := if g.isEmpty then 0 else twAux g.length g 0 (g.length)

/-! ### protocol -/

def parseUG : Parser UG := Tok.list (do let v ← Tok.nat; let ns ← Tok.list Tok.nat; pure (v, ns))
def parseTree : Parser Tree := Tok.list (do
  let b ← Tok.list Tok.nat; let cs ← Tok.list (Tok.list Tok.nat); pure (sortBag b, cs.map sortBag))
def showTree (t : Tree) : String :=
  showList (fun (p : List Nat × List (List Nat)) => s!"{showList toString p.1} {showList (showList toString) p.2}") t

def handle : List String → Option (Except String String)
  | "C10.minfill" :: rest => some do
      let g ← Tok.run parseUG rest
      let (d, ord) := minFill g
      pure s!"{d} {showList toString ord} {showTree (fromOrder g ord)}"
  | "C10.fromorder" :: rest => some do
      let (g, ord) ← Tok.run (do let g ← parseUG; let o ← Tok.list Tok.nat; pure (g, o)) rest
      pure (showTree (fromOrder g ord) ++ s!" {elimWidth g ord}")
  | "C10.check" :: rest => some do
      let (g, t) ← Tok.run (do let g ← parseUG; let t ← parseTree; pure (g, t)) rest
      pure s!"{showBool (validTD g t)} {width t} {tw g}"
  | _ => none

end Fggs.TD
