/-
FggsModel.VitEinsum — model of the patterned `log_viterbi_einsum_forward` of fggs/indices.py (C04, C07), the operation
`fggs.viterbi.sum_product_edges` is built on: the max-plus einsum of the patterned operands together with, for every
output cell, a POINTER per summed-out index variable (the value of that variable in a maximising assignment).

The unification pass and the re-indexing of the operands are those of `Ei.einsum`.  The physical Viterbi einsum returns,
for every assignment of the output physical axes, the maximum over the assignments of the remaining (inner) physical
axes and an arg-max (one value per inner physical axis).  The library then converts this physical arg-max into one
pointer per summed-out INDEX VARIABLE: the virtual axis of the variable, under the substitution, is an affine form
`o + Σ αₖ·k` of the free physical axes (`Axis.stride(subst)`, `Sd.strideS`), evaluated at the output assignment and the
arg-max.  The pointers are stacked into a patterned tensor whose last dimension indexes the summed-out variables
(in order of first appearance), with default 0.

Outside the model (trusted, exercised by the correspondence): `torch_semiring_einsum.log_viterbi_einsum_forward` is
taken to return the maximum and AN arg-max; the model picks the first one in row-major order of the inner axes (what a
single block of the library computes); the correspondence accepts any pointer that satisfies the contract `ptrOk`
below when the library's choice differs on a tie.
-/
import FggsModel.EinsumImpl
import FggsModel.Strided

namespace Fggs.Ve
open Ax Un Sem Ei

/-- the summed-out index variables with their table entries, in order of first appearance -/
def innerVars (j : EJob) (tbl : List (Nat × Axis)) : List (Nat × Axis) := tbl.filter (fun p => !j.out.contains p.1)

/-- `PatternedTensor(dense tensor, default)`: one fresh physical axis per dimension -/
def plain (shape : List Nat) (phys : List Ext) (default : Ext) : PT :=
  { physical := phys, paxes := shape.zipIdx.map (fun (n, i) => (i, n)),
    vaxes := shape.zipIdx.map (fun (n, i) => Axis.phys i n), default := default }

/-- `zero_result()` -/
def zeroResult (S : SR Ext) (outVaxes : List Axis) (n : Nat) : PT × PT :=
  let shape := outVaxes.map Axis.numel
  (Ei.zeroResult S outVaxes,
   Bn.normalize (plain (shape ++ [n]) (List.replicate (Ax.numel (shape ++ [n])) (Ext.fin 0)) (Ext.fin 0)))

/-- first maximal candidate: a later one replaces the incumbent only if strictly greater -/
def firstMax : List (List Nat × Ext) → List Nat × Ext
  | [] => ([], Ext.ninf)
  | c :: cs => cs.foldl (fun best d => if Ext.gt d.2 best.2 then d else best) c

/-- `log_viterbi_einsum_forward(tensors, inputs, output, semiring)`: (maximum, pointers) -/
def vitEinsum (S : SR Ext) (fuel : Nat) (j : EJob) (next : Nat) : PT × PT :=
  if j.ops.isEmpty then
    ({ physical := [S.one], paxes := [], vaxes := [], default := S.zero },
     { physical := [], paxes := [(0, 0)], vaxes := [Axis.phys 0 0], default := Ext.fin 0 })
  else
    let (tbl, ok, st) := collect fuel j next
    let σ := st.subst
    let outVaxes := j.out.map (fun i => clone σ FUEL ((tbl.lookup i).getD unitAxis))
    let iv := innerVars j tbl
    let n := iv.length
    if !ok then zeroResult S outVaxes n
    else
      let views := j.ops.map (fun p => viewAxes σ p.1)
      let allAxes := views.flatten.eraseDups
      if allAxes.any (fun k => k.2 == 0) then zeroResult S outVaxes n
      else
        let outAxes := (outVaxes.flatMap Axis.fv).eraseDups
        let inner := allAxes.filter (fun k => !outAxes.contains k)
        -- the physical Viterbi einsum: maximum and first arg-max over the inner axes, per assignment of the output axes
        let best : List (List Nat × Ext) := (Ax.assigns (outAxes.map (fun k => k.2))).map (fun a =>
          firstMax ((Ax.assigns (inner.map (fun k => k.2))).map (fun b =>
            (b, S.prod (j.ops.map (fun p => viewAt S σ p.1 (envOf (outAxes ++ inner) (a ++ b))))))))
        let out := Bn.normalize { physical := best.map (·.2), paxes := outAxes, vaxes := outVaxes, default := S.zero }
        -- one pointer per summed-out index variable: its affine form, at the output assignment and the arg-max
        let forms := iv.map (fun p => Sd.strideS σ FUEL p.2)
        let ptrOf := fun (f : Nat × Sd.Coeffs) =>
          ((Ax.assigns (outAxes.map (fun k => k.2))).zip best).map (fun ab =>
            Ext.ofNat (Sd.applyS f (envOf (outAxes ++ inner) (ab.1 ++ ab.2.1))))
        let fresh := st.next + 1
        let ptr : PT :=
          match forms with
          | [] => { physical := [], paxes := outAxes ++ [(fresh, 0)], vaxes := outVaxes ++ [Axis.phys fresh 0], default := Ext.fin 0 }
          | [f] => { physical := ptrOf f, paxes := outAxes, vaxes := outVaxes ++ [unitAxis], default := Ext.fin 0 }
          | _ => { physical := forms.flatMap ptrOf, paxes := (fresh, n) :: outAxes, vaxes := outVaxes ++ [Axis.phys fresh n],
                   default := Ext.fin 0 }
        (out, ptr)

/-! ### the contract of the pointers, decidable per job -/

/-- the weight of the assignment that gives the output variables the values `v` and the summed-out variables the values
`q` (every other variable does not exist): the product of the dense operands' entries -/
def weightAt (S : SR Ext) (j : EJob) (vars : List Nat) (vals : List Nat) : Ext :=
  let val := fun (x : Nat) => ((vars.zip vals).lookup x).getD 0
  S.prod (j.ops.map (fun p => (p.1.dense)[Ax.flat p.1.vshape (p.2.map val)]?.getD p.1.default))

/-- **`ptrOk`**: at every output cell whose pointers are within range, the pointed-at assignment has exactly the weight
stored in `out` (so it is a maximising one whenever `out` is the maximum) -/
def ptrOk (S : SR Ext) (j : EJob) (innerIdx : List Nat) (sizes : Nat → Nat) (out ptr : PT) : Bool :=
  let oshape := out.vshape
  let n := innerIdx.length
  ptr.vshape == oshape ++ [n] &&
  (Ax.assigns oshape).all (fun v =>
    let q := (List.range n).map (fun i => ((ptr.dense)[Ax.flat (oshape ++ [n]) (v ++ [i])]?.getD (Ext.fin 0)))
    let qn := q.map (fun x => match x with | Ext.fin r => r.num.toNat | _ => 0)
    let o := (out.dense)[Ax.flat oshape v]?.getD out.default
    let inRange := (innerIdx.zip qn).all (fun p => p.2 < sizes p.1)
    (o == S.zero || inRange) &&
    (!inRange || weightAt S j (j.out ++ innerIdx) (v ++ qn) == o))

/-! ### the extra fuel side condition of the theorem `C04.vitEinsum_ptrOk`, decidable per job -/

/-- `FUEL` units of fuel resolve the affine form of every SUMMED-OUT index variable: the clone of its table entry
contains no bound physical axis (`Ei.resolved` checks this for the bindings and for the OUTPUT variables only) -/
def resolvedInner (fuel : Nat) (j : EJob) (next : Nat) : Bool :=
  let c := collect fuel j next
  (innerVars j c.1).all (fun p => unbound c.2.2.subst (clone c.2.2.subst FUEL p.2))

/-! ### protocol -/

def handle : List String → Option (Except String String)
  | "C04.viteinsum" :: rest => some do
      let (j, next) ← Tok.run (do let j ← parseEJob; let n ← Tok.nat; pure (j, n)) rest
      let r := vitEinsum vitSR FUEL j next
      let c := collect FUEL j next
      let iv := (innerVars j c.1).map (·.1)
      let sizes := fun x => ((c.1.lookup x).map Axis.numel).getD 1
      pure (Bn.showPT r.1 ++ " " ++ Bn.showPT r.2 ++ " " ++ showBool c.2.1 ++ " " ++ showBool (resolved FUEL j next && resolvedInner FUEL j next && Ax.nodupNat j.out) ++ " " ++
            showBool (r.1.wf && r.2.wf) ++ " " ++ showBool (ptrOk vitSR j iv sizes r.1 r.2))
  | "C04.ptrok" :: rest => some do
      let (j, next, out, ptr) ← Tok.run (do let j ← parseEJob; let n ← Tok.nat; let o ← Ax.parsePT; let p ← Ax.parsePT; pure (j, n, o, p)) rest
      let c := collect FUEL j next
      let iv := (innerVars j c.1).map (·.1)
      let sizes := fun x => ((c.1.lookup x).map Axis.numel).getD 1
      pure (showBool (ptrOk vitSR j iv sizes out ptr))
  | _ => none

end Fggs.Ve
