/-
FggsModel.ShapeOps — the pattern-level operations of `PatternedTensor` that move, select, add or remove dimensions
without arithmetic (fggs/indices.py, C06): `Axis.index` and `__getitem__`, `permute` / `transpose` / `T`, `flatten`,
`unsqueeze`, `expand`, `any`.  Each works on the REPRESENTATION (physical tensor, physical axes, virtual axes, default);
what it must denote is torch's operation on the dense tensor (theorems C06g).

`none` = the Python code raises (IndexError for an index out of range, AssertionError, RuntimeError of `expand`).
Fresh physical axes are numbered from `next`.
-/
import FggsModel.Unify
import FggsModel.Binary

namespace Fggs.Sh
open Ax Un

/-- the dict `physical` of `Axis.index`: physical axis identity ↦ index -/
abbrev Pi := List (Nat × Nat)

mutual
/-- `e.index(physical, virtual)`: convert a virtual index into physical indices; the Boolean tells whether the virtual
index is occupied at all (and consistent with the indices fixed so far); `none` = IndexError -/
def index : Axis → Pi → Nat → Option (Bool × Pi)
  | .phys v n, pi, i =>
    if i ≥ n then none
    else match pi.lookup v with
      | some j => some (j == i, pi)
      | none => some (true, pi ++ [(v, i)])
  | .prod fs, pi, i => indexList fs pi i
  | .sum b t a, pi, i =>
    if i ≥ b + t.numel + a then none
    else if i < b || i - b ≥ t.numel then some (false, pi)
    else index t pi (i - b)
/-- `ProductAxis.index`: the factors from the last to the first, `divmod` by their sizes; the first factor that is
not occupied ends the loop -/
def indexList : List Axis → Pi → Nat → Option (Bool × Pi)
  | [], pi, i => if i != 0 then none else some (true, pi)
  | f :: fs, pi, i =>
    let n := numelList fs
    if n == 0 then none
    else match indexList fs pi (i % n) with
      | none => none
      | some (false, pi') => some (false, pi')
      | some (true, pi') => index f pi' (i / n)
end

/-- the loop `for e, vi in zip(self.vaxes, vis): if not e.index(pi, vi): return full(...)` -/
def indexAll : List (Axis × Nat) → Pi → Option (Bool × Pi)
  | [], pi => some (true, pi)
  | (e, i) :: rest, pi =>
    match index e pi i with
    | none => none
    | some (false, pi') => some (false, pi')
    | some (true, pi') => indexAll rest pi'

/-- `PatternedTensor.full(size, value)`: a dense tensor over fresh axes (the constructor squeezes the size-1 ones) -/
def full (shape : List Nat) (value : Ext) (next : Nat) : PT :=
  Bn.normalize
    { physical := List.replicate (Ax.numel shape) value,
      paxes := shape.zipIdx.map (fun (n, i) => (next + i, n)),
      vaxes := shape.zipIdx.map (fun (n, i) => Axis.phys (next + i) n),
      default := value }

/-- `t[vis]` -/
def getitem (t : PT) (vis : List Nat) (next : Nat) : Option PT :=
  if vis.length > t.vaxes.length then none
  else
    let rest := t.vaxes.drop vis.length
    match indexAll (t.vaxes.zip vis) [] with
    | none => none
    | some (false, _) => some (full (rest.map Axis.numel) t.default next)
    | some (true, pi) =>
      let paxes := t.paxes.filter (fun k => (pi.lookup k.1).isNone)
      -- `self.physical[tuple(pi.get(k, :) for k in self.paxes)]`
      let physical := (Ax.assigns (paxes.map (·.2))).map (fun idx =>
        let ρ := envOf paxes idx
        let full := t.paxes.map (fun k => match pi.lookup k.1 with | some i => i | none => ρ k.1)
        t.physical[Ax.flat (t.paxes.map (·.2)) full]?.getD t.default)
      let σ : Subst := pi.map (fun (p : Nat × Nat) =>
        let n := ((t.paxes.find? (·.1 == p.1)).map (·.2)).getD 0
        (p.1, Axis.sum p.2 unitAxis (n - p.2 - 1)))
      some (Bn.normalize { physical := physical, paxes := paxes, vaxes := rest.map (clone σ FUEL), default := t.default })

/-- `t.permute(dims)` (`dims` already made non-negative); `none` = AssertionError -/
def permute (t : PT) (dims : List Nat) : Option PT :=
  if dims.length != t.vaxes.length || !(List.range dims.length).all (dims.contains ·) then none
  else some { t with vaxes := dims.map (fun i => t.vaxes[i]?.getD unitAxis) }

/-- `t.transpose(dim0, dim1)` (non-negative dims) -/
def transpose (t : PT) (d0 d1 : Nat) : Option PT :=
  if d0 == d1 then some t
  else
    let a := min d0 d1; let b := max d0 d1
    if b ≥ t.vaxes.length then none
    else some { t with vaxes := t.vaxes.take a ++ (t.vaxes.drop b).take 1 ++ (t.vaxes.take b).drop (a + 1) ++
                                (t.vaxes.drop a).take 1 ++ t.vaxes.drop (b + 1) }

/-- `t.T` -/
def transposeAll (t : PT) : PT := { t with vaxes := t.vaxes.reverse }

/-- `t.flatten()` -/
def flatten (t : PT) : PT :=
  if t.vaxes.length == 1 then t else { t with vaxes := [productAxis t.vaxes] }

/-- `t.unsqueeze(dim)` (non-negative dim; Python's `list.insert` clamps) -/
def unsqueeze (t : PT) (d : Nat) : PT :=
  { t with vaxes := t.vaxes.take d ++ [unitAxis] ++ t.vaxes.drop d }

/-- one step of the loop of `expand` (dimensions from the last to the first): the new virtual axis and, if the
dimension grows, the fresh physical axis -/
def expandStep (e : Option Axis) (n : Nat) (fresh : Nat) : Option (Axis × Option (Nat × Nat)) :=
  let grow := match e with
    | none => true
    | some e => e.numel == 1 && n != 1
  let (e', k) :=
    if grow then
      let k := Axis.phys fresh n
      match e with
      | none => (k, some (fresh, n))
      | some e => if isUnit e then (k, some (fresh, n)) else (productAxis [e, k], some (fresh, n))
    else (e.getD unitAxis, none)
  if e'.numel != n then none else some (e', k)

/-- `t.expand(*sizes)`; `none` = RuntimeError -/
def expand (t : PT) (sizes : List Nat) (next : Nat) : Option PT :=
  if sizes.length < t.vaxes.length then none
  else
    let pad := sizes.length - t.vaxes.length
    let es : List (Option Axis) := List.replicate pad none ++ t.vaxes.map some
    -- right to left; the i-th fresh axis created gets identity next + i
    let r := ((es.zip sizes).reverse).foldl (fun (acc : Option (List Axis × List (Nat × Nat))) (p : Option Axis × Nat) =>
      match acc with
      | none => none
      | some (vs, ks) =>
        match expandStep p.1 p.2 (next + ks.length) with
        | none => none
        | some (e', k) => some (e' :: vs, match k with | some k => k :: ks | none => ks)) (some ([], []))
    match r with
    | none => none
    | some (vaxes, ks) =>
      let paxes := ks ++ t.paxes
      -- `self.physical.expand(...)`: the new leading dimensions are broadcast
      let physical := (Ax.assigns (paxes.map (·.2))).map (fun idx =>
        t.physical[Ax.flat (t.paxes.map (·.2)) (idx.drop ks.length)]?.getD t.default)
      some (Bn.normalize { physical := physical, paxes := paxes, vaxes := vaxes, default := t.default })

/-- truth value of an element of a Boolean tensor -/
def truthy (x : Ext) : Bool := x != Ext.fin 0

/-- `t.any(dim, keepdim)` for a Boolean tensor (`none` = dim out of range) -/
def any (t : PT) (dim : Nat) (keepdim : Bool) : Option PT :=
  match t.vaxes[dim]? with
  | none => none
  | some ed =>
    let vaxes := if keepdim then t.vaxes.set dim unitAxis else t.vaxes.eraseIdx dim
    let others := vaxes.flatMap Axis.fv
    let ks := ed.fv.eraseDups.filter (fun k => !others.any (·.1 == k.1))
    let paxes := t.paxes.filter (fun k => !ks.any (·.1 == k.1))
    let physical :=
      if truthy t.default && ed.numel > Ax.numel (ks.map (·.2)) then
        List.replicate (Ax.numel (paxes.map (·.2))) (Ext.fin 1)
      else
        (Ax.assigns (paxes.map (·.2))).map (fun idx =>
          let ρ := envOf paxes idx
          Bn.boolExt ((Ax.assigns (ks.map (·.2))).any (fun jdx =>
            let ρ' := envOf ks jdx
            let full := t.paxes.map (fun k => if ks.any (·.1 == k.1) then ρ' k.1 else ρ k.1)
            truthy (t.physical[Ax.flat (t.paxes.map (·.2)) full]?.getD t.default))))
    -- an element backed by nothing is the disjunction of defaults: false if the dimension is empty
    some { physical := physical, paxes := paxes, vaxes := vaxes, default := Bn.boolExt (truthy t.default && ed.numel > 0) }

/-! ### `stack` -/

/-- `default == t.default or (isnan(default) and isnan(t.default))` -/
def sameDefault (a b : Ext) : Bool :=
  match a, b with
  | .nan, .nan => true
  | _, _ => Ext.eqIEEE a b

/-- the slice of the stacked physical tensor that operand `t` fills: unify the generalised axes `lggs` with `t.vaxes`
(fresh substitution), view the slice over the fresh axes `ks` through `t`'s physical axes as looked up in the
substitution (`project(p, (e.lookup(subst) for e in t.paxes), ks, subst)`), copy `t.physical` into it; the rest of the
slice keeps the default.  `none` = the AssertionError raised when the unification fails or a looked-up axis is not a
physical axis. -/
def stackSlice (fuel : Nat) (lggs : List Axis) (ks : List (Nat × Nat)) (t : PT) (next : Nat) : Option (List Ext) :=
  match unifyAll fuel (lggs.zip t.vaxes) ⟨[], next⟩ with
  | (false, _) => none
  | (true, st) =>
    let looked := t.paxes.map (fun k => lookup st.subst FUEL (Axis.phys k.1 k.2))
    if !(looked.all (fun e => match e with | .phys _ _ => true | _ => false)) then none
    else
      let paxes' : List (Nat × Nat) := looked.map (fun e => match e with | .phys v n => (v, n) | _ => (0, 0))
      some (PT.mk t.physical paxes' (ks.map (fun g => clone st.subst FUEL (Axis.phys g.1 g.2))) t.default).dense

/-- `stack(tensors, dim)` (non-negative `dim`); `none` = AssertionError -/
def stack (fuel : Nat) (ts : List PT) (dim : Nat) (next : Nat) : Option PT :=
  match ts with
  | [] => none
  | [h] => some { h with vaxes := h.vaxes.take dim ++ [unitAxis] ++ h.vaxes.drop dim }
  | h :: tail =>
    if tail.any (fun t => t.vshape != h.vshape || !sameDefault h.default t.default) then none
    else
      -- anti-unify all input vaxes, left to right, with a fresh anti-substitution for every further operand
      let (lggs, st) := tail.foldl (fun (acc : List Axis × ASt) (t : PT) =>
        antiunifyAll fuel (acc.1.zip t.vaxes) ⟨[], acc.2.next⟩) (h.vaxes, ⟨[], next⟩)
      let n := ts.length
      let k : Nat × Nat := (st.next, n)
      let ks := st.pairs.map (·.2)
      let slices := ts.map (fun t => stackSlice fuel lggs ks t (st.next + 1))
      if slices.any Option.isNone then none
      else
        some (Bn.normalize
          { physical := (slices.map (fun s => s.getD [])).flatten,
            paxes := k :: ks,
            vaxes := lggs.take dim ++ [Axis.phys k.1 k.2] ++ lggs.drop dim,
            default := h.default })

/-- the fuel side condition of `C06j.stack_dense`, decided per job: in the substitution of every operand's slice no
identity is bound twice, the clones of the fresh axes contain no bound axis, the looked-up physical axes of the operand are
unbound -/
def stackResolved (fuel : Nat) (ts : List PT) (next : Nat) : Bool :=
  match ts with
  | h :: t1 :: rest =>
    let A := (t1 :: rest).foldl (fun (acc : List Axis × ASt) (t : PT) =>
      antiunifyAll fuel (acc.1.zip t.vaxes) ⟨[], acc.2.next⟩) (h.vaxes, ⟨[], next⟩)
    (h :: t1 :: rest).all (fun t =>
      match unifyAll fuel (A.1.zip t.vaxes) ⟨[], A.2.next + 1⟩ with
      | (false, _) => true
      | (true, st) =>
        nodupNat (st.subst.map (·.1)) &&
        (A.2.pairs.map (·.2)).all (fun g => (clone st.subst FUEL (Axis.phys g.1 g.2)).fv.all (fun q => (bound st.subst q.1).isNone)) &&
        t.paxes.all (fun p => (lookup st.subst FUEL (Axis.phys p.1 p.2)).fv.all (fun q => (bound st.subst q.1).isNone)))
  | _ => true

/-! ### protocol -/

def showOptPT : Option PT → String
  | some r => "ok " ++ Bn.showPT r ++ " " ++ showBool r.wf
  | none => "raises"

def handle : List String → Option (Except String String)
  | "C06.getitem" :: rest => some do
      let (t, vis, next) ← Tok.run (do let t ← parsePT; let v ← Tok.list Tok.nat; let n ← Tok.nat; pure (t, v, n)) rest
      pure (showOptPT (getitem t vis next))
  | "C06.permute" :: rest => some do
      let (t, dims) ← Tok.run (do let t ← parsePT; let v ← Tok.list Tok.nat; pure (t, v)) rest
      pure (showOptPT (permute t dims))
  | "C06.transpose" :: rest => some do
      let (t, a, b) ← Tok.run (do let t ← parsePT; let a ← Tok.nat; let b ← Tok.nat; pure (t, a, b)) rest
      pure (showOptPT (transpose t a b))
  | "C06.T" :: rest => some do
      let t ← Tok.run parsePT rest
      pure (showOptPT (some (transposeAll t)))
  | "C06.flatten" :: rest => some do
      let t ← Tok.run parsePT rest
      pure (showOptPT (some (flatten t)))
  | "C06.unsqueeze" :: rest => some do
      let (t, d) ← Tok.run (do let t ← parsePT; let d ← Tok.nat; pure (t, d)) rest
      pure (showOptPT (some (unsqueeze t d)))
  | "C06.expand" :: rest => some do
      let (t, s, next) ← Tok.run (do let t ← parsePT; let v ← Tok.list Tok.nat; let n ← Tok.nat; pure (t, v, n)) rest
      pure (showOptPT (expand t s next))
  | "C06.stack" :: rest => some do
      let (ts, d, next) ← Tok.run (do let t ← Tok.list parsePT; let d ← Tok.nat; let n ← Tok.nat; pure (t, d, n)) rest
      pure (showOptPT (stack FUEL ts d next) ++ " " ++ showBool (stackResolved FUEL ts next))
  | "C06.any" :: rest => some do
      let (t, d, k) ← Tok.run (do let t ← parsePT; let d ← Tok.nat; let k ← Tok.bool; pure (t, d, k)) rest
      pure (showOptPT (any t d k))
  | _ => none

end Fggs.Sh
