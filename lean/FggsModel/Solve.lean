/-
FggsModel.Solve — model of Semiring.solve_thunks (semirings.py): the in-place Gauss–Jordan / Lehmann
elimination with `star`, and the specification of the least solution of x = A x + b by Kleene
iteration (C09).  Matrices are lists of rows.
-/
import FggsModel.Basic
import FggsModel.Semiring
import FggsModel.Sem

namespace Fggs.Sv
open Sem

variable {K : Type}

def getM (S : SR K) (a : List (List K)) (i j : Nat) : K := (a[i]?.getD [])[j]?.getD S.zero
def getV (S : SR K) (x : List K) (i : Nat) : K := x[i]?.getD S.zero

/-- one pivot step `k` of `solve_thunks`:
    a[:,k] = a[:,k] * star(a[k,k]);  a[:,k+1:] += a[:,k,None] * a[k,k+1:];  x += a[:,k] * x[k] -/
def pivot (S : SR K) (star : K → K) (n k : Nat) (a : List (List K)) (x : List K) : List (List K) × List K :=
  let s := star (getM S a k k)
  -- column k scaled (every row, including row k)
  let a1 : List (List K) := (List.range n).map (fun i => (List.range n).map (fun j =>
    if j == k then S.mul (getM S a i k) s else getM S a i j))
  -- the products are computed from a1 before anything is added
  let a2 : List (List K) := (List.range n).map (fun i => (List.range n).map (fun j =>
    if j > k then S.add (getM S a1 i j) (S.mul (getM S a1 i k) (getM S a1 k j)) else getM S a1 i j))
  let xk := getV S x k
  let x2 : List K := (List.range n).map (fun i => S.add (getV S x i) (S.mul (getM S a2 i k) xk))
  (a2, x2)

/-- `Semiring.solve_thunks` for a vector right-hand side -/
def solveLoop (S : SR K) (star : K → K) (a : List (List K)) (b : List K) : List K :=
  let n := a.length
  ((List.range n).foldl (fun (st : List (List K) × List K) k => pivot S star n k st.1 st.2) (a, b)).2

/-- `A x + b` -/
def affine (S : SR K) (a : List (List K)) (b x : List K) : List K :=
  (List.range a.length).map (fun i =>
    S.add (S.sum ((List.range a.length).map (fun j => S.mul (getM S a i j) (getV S x j)))) (getV S b i))

/-- Kleene iteration for `x = A x + b` from zero: the partial sums `Σ_{m<n} A^m b` -/
def kleeneLin (S : SR K) (a : List (List K)) (b : List K) : Nat → List K
  | 0 => List.replicate a.length S.zero
  | n+1 => affine S a b (kleeneLin S a b n)

def iterateLin [BEq K] (S : SR K) (a : List (List K)) (b : List K) (n : Nat) : List K × Bool :=
  let rec go : Nat → List K → List K × Bool
    | 0, x => (x, false)
    | fuel+1, x => let y := affine S a b x; if y == x then (x, true) else go fuel y
  go n (List.replicate a.length S.zero)

def parseMat {K} (p : Parser K) : Parser (List (List K)) := Tok.list (Tok.list p)

def handle : List String → Option (Except String String)
  | "C09.solve" :: sr :: rest => some do
      match sr with
      | "real" =>
        let (a, b, n) ← Tok.run (do let a ← parseMat Tok.ext; let b ← Tok.list Tok.ext; let n ← Tok.nat; pure (a, b, n)) rest
        let x := solveLoop realSR Impl.realStar a b
        let fixed := affine realSR a b x
        let lo := kleeneLin realSR a b n
        pure s!"{showList toString x} {showBool (fixed == x)} {showList toString (lo.map (Sem.truncDown 60))}"
      | "viterbi" =>
        let (a, b, n) ← Tok.run (do let a ← parseMat Tok.ext; let b ← Tok.list Tok.ext; let n ← Tok.nat; pure (a, b, n)) rest
        let x := solveLoop vitSR Impl.vitStar a b
        let (lfp, st) := iterateLin vitSR a b n
        pure s!"{showList toString x} {showBool st} {showList toString lfp}"
      | "bool" =>
        let (a, b, n) ← Tok.run (do let a ← parseMat Sem.pBool; let b ← Tok.list Sem.pBool; let n ← Tok.nat; pure (a, b, n)) rest
        let x := solveLoop boolSR (fun _ => true) a b
        let (lfp, st) := iterateLin boolSR a b n
        pure s!"{showList showBool x} {showBool st} {showList showBool lfp}"
      | _ => throw "bad semiring"
  | _ => none

end Fggs.Sv
