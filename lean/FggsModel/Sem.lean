/-
FggsModel.Sem — semantic level: grammars with finite domains over a semiring record, the
specification of the sum-product (sums over derivations and assignments), the equation system F,
Kleene iteration, and the model of `sum_product_edges` (the code's steps) — C01, C02, C04, C11, C12.

Edge labels are numbered: terminals `0..T-1`, nonterminals `T..T+N-1`.
Tensors are flat row-major lists.
-/
import FggsModel.Basic
import FggsModel.Semiring

namespace Fggs.Sem

/-- a semiring, as a record (so that this file needs no algebra library) -/
structure SR (K : Type) where
  zero : K
  one : K
  add : K → K → K
  mul : K → K → K

namespace SR
def sum {K} (S : SR K) (l : List K) : K := l.foldl S.add S.zero
def prod {K} (S : SR K) (l : List K) : K := l.foldl S.mul S.one
/-- `from_int n = 1 + … + 1` -/
def ofNat {K} (S : SR K) : Nat → K
  | 0 => S.zero
  | n+1 => S.add (ofNat S n) S.one
end SR

structure Rule where
  lhs : Nat                       -- nonterminal index
  nodes : List Nat                -- node label of every node
  ext : List Nat                  -- external nodes (positions), possibly repeated
  edges : List (Nat × List Nat)   -- (edge label, attachment node positions)
deriving Repr, Inhabited, DecidableEq

structure Grammar (K : Type) where
  nls : List Nat                  -- domain size per node label
  terms : List (List Nat)         -- type (node labels) per terminal
  nts : List (List Nat)           -- type per nonterminal
  start : Nat
  rules : List Rule
  weights : List (List K)         -- per terminal, flat row-major
deriving Inhabited

variable {K : Type}

namespace Grammar

def T (G : Grammar K) : Nat := G.terms.length
def dom (G : Grammar K) (nl : Nat) : Nat := G.nls[nl]?.getD 0
def labelType (G : Grammar K) (l : Nat) : List Nat :=
  if l < G.T then G.terms[l]?.getD [] else G.nts[l - G.T]?.getD []
def shapeOf (G : Grammar K) (ty : List Nat) : List Nat := ty.map G.dom
def rulesOf (G : Grammar K) (x : Nat) : List Rule := G.rules.filter (·.lhs == x)

end Grammar

/-- all index tuples of a shape, row-major (last index fastest) -/
def assigns : List Nat → List (List Nat)
  | [] => [[]]
  | n :: rest => (List.range n).flatMap (fun i => (assigns rest).map (i :: ·))

def numel (shape : List Nat) : Nat := shape.foldl (· * ·) 1

/-- row-major position -/
def flat : List Nat → List Nat → Nat
  | _ :: ss, i :: is => i * numel ss + flat ss is
  | _, _ => 0

/-- values of the nonterminals: one flat tensor each (`none` = no value yet = zero) -/
abbrev Val (K : Type) := List (Option (List K))

def getT (S : SR K) (t : List K) (shape idx : List Nat) : K := t[flat shape idx]?.getD S.zero

/-- weight of edge label `l` at the index tuple `idx`, given nonterminal values `x` -/
def edgeWeight (S : SR K) (G : Grammar K) (x : Val K) (l : Nat) (idx : List Nat) : K :=
  let shape := G.shapeOf (G.labelType l)
  if l < G.T then getT S (G.weights[l]?.getD []) shape idx
  else match x[l - G.T]?.join with
    | some t => getT S t shape idx
    | none => S.zero

/-! ### specification of one rule: sum over assignments of the product of edge weights -/

/-- `Σ_{ρ : nodes → values, ρ∘ext = a} Π_{e ∈ edges} w_e(ρ∘e.nodes)` -/
def ruleCell (S : SR K) (G : Grammar K) (x : Val K) (r : Rule) (a : List Nat) : K :=
  S.sum (((assigns (G.shapeOf r.nodes)).filter (fun ρ => r.ext.map (fun v => ρ[v]?.getD 0) == a)).map (fun ρ =>
    S.prod (r.edges.map (fun e => edgeWeight S G x e.1 (e.2.map (fun v => ρ[v]?.getD 0))))))

def ruleValue (S : SR K) (G : Grammar K) (x : Val K) (r : Rule) : List K :=
  (assigns (G.shapeOf (r.ext.map (fun v => r.nodes[v]?.getD 0)))).map (ruleCell S G x r)

def addT (S : SR K) (a b : List K) : List K := List.zipWith S.add a b

/-- the equation system: `F(x)[X] = Σ_{rules of X} ruleValue`; zero tensor if there is no rule -/
def F (S : SR K) (G : Grammar K) (x : Val K) : Val K :=
  (List.range G.nts.length).map (fun X =>
    let z : List K := List.replicate (numel (G.shapeOf (G.nts[X]?.getD []))) S.zero
    some ((G.rulesOf X).foldl (fun acc r => addT S acc (ruleValue S G x r)) z))

def zeroVal (G : Grammar K) : Val K := List.replicate G.nts.length none

/-- Kleene iteration from zero: `F^n(0)` — the sums over derivations of depth ≤ n -/
def kleene (S : SR K) (G : Grammar K) : Nat → Val K
  | 0 => zeroVal G
  | n+1 => F S G (kleene S G n)

/-! ### derivations, explicitly (specification of "sum over all derivations") -/

inductive Deriv where
  | mk (rule : Nat) (children : List Deriv)     -- rule index in G.rules; one child per nonterminal edge, in order
deriving Repr, Inhabited

/-- all tuples choosing one element from each list -/
def tuples {α} : List (List α) → List (List α)
  | [] => [[]]
  | l :: rest => l.flatMap (fun x => (tuples rest).map (x :: ·))

/-- derivations of nonterminal `X` of depth ≤ n -/
def derivs (G : Grammar K) : Nat → Nat → List Deriv
  | 0, _ => []
  | n+1, X =>
    (G.rules.zipIdx.filter (fun p => p.1.lhs == X)).flatMap (fun (r, ri) =>
      let ntEdges := r.edges.filter (fun e => e.1 ≥ G.T)
      (tuples (ntEdges.map (fun e => derivs G n (e.1 - G.T)))).map (fun cs => Deriv.mk ri cs))

/-- weight of a derivation (of depth ≤ fuel) as a tensor over the external assignment: sum over the
assignments of the rule's nodes of (terminal weights) × (children's weights at the induced assignments) -/
def derivCell (S : SR K) (G : Grammar K) : Nat → Deriv → List Nat → K
  | 0, _, _ => S.zero
  | fuel+1, .mk ri cs, a =>
    let r := G.rules[ri]?.getD default
    S.sum (((assigns (G.shapeOf r.nodes)).filter (fun ρ => r.ext.map (fun v => ρ[v]?.getD 0) == a)).map (fun ρ =>
      let step := fun (acc : K × List Deriv) (e : Nat × List Nat) =>
        let idx := e.2.map (fun v => ρ[v]?.getD 0)
        if e.1 < G.T then (S.mul acc.1 (edgeWeight S G [] e.1 idx), acc.2)
        else match acc.2 with
          | c :: rest => (S.mul acc.1 (derivCell S G fuel c idx), rest)
          | [] => (S.mul acc.1 S.zero, [])
      (r.edges.foldl step (S.one, cs)).1))

/-- `Σ_{d ∈ derivs X n} weight d` as a flat tensor -/
def derivSum (S : SR K) (G : Grammar K) (n X : Nat) : List K :=
  (assigns (G.shapeOf (G.nts[X]?.getD []))).map (fun a => S.sum ((derivs G n X).map (fun d => derivCell S G n d a)))

/-! ### model of `sum_product_edges` (sum_product.py), step by step -/

/-- generic einsum specification: variables `0..nvars-1` with sizes, operands given as functions of
the assignment of their index variables, outputs a list of variables.  Only variables that occur in
some operand or in the output are summed over (the others do not exist for the einsum: size 1). -/
def einsumSpec (S : SR K) (sizes : List Nat) (ops : List ((List Nat → K) × List Nat)) (out : List Nat) : List K :=
  let used := ops.flatMap (·.2) ++ out
  let sizes' := sizes.zipIdx.map (fun (n, v) => if used.contains v then n else 1)
  (assigns (out.map (fun v => sizes[v]?.getD 0))).map (fun a =>
    S.sum (((assigns sizes').filter (fun ρ => out.map (fun v => ρ[v]?.getD 0) == a)).map (fun ρ =>
      S.prod (ops.map (fun op => op.1 (op.2.map (fun v => ρ[v]?.getD 0)))))))

/-- `sum_product_edges(fgg, nodes, edges, ext, inputs)`; `none` = some edge label has no value.
Variables are the rule's node positions, plus one fresh variable per repeated entry of `ext`. -/
def Impl.sumProductEdges (S : SR K) (G : Grammar K) (x : Val K) (nodes : List Nat) (edges : List (Nat × List Nat))
    (ext : List Nat) : Option (List K) :=
  -- (i) rename_duplicate_nodes: a repeated external gets a copy joined by an identity factor
  let step := fun (acc : List Nat × List Nat × List (Nat × Nat)) (v : Nat) =>
    let (ext', labs, ids) := acc
    if ext'.contains v then
      let c := labs.length
      (ext' ++ [c], labs ++ [nodes[v]?.getD 0], ids ++ [(v, c)])
    else (ext' ++ [v], labs, ids)
  let (ext', labs, ids) := ext.foldl step ([], nodes, [])
  let sizes := G.shapeOf labs
  -- (ii) a missing nonterminal value makes the whole product zero
  if edges.any (fun e => e.1 ≥ G.T && (x[e.1 - G.T]?.join).isNone) then none
  else
    let connected : List Nat := (ids.flatMap (fun p => [p.1, p.2]) ++ edges.flatMap (·.2)).eraseDups
    let idOps : List ((List Nat → K) × List Nat) :=
      ids.map (fun p => ((fun idx => if idx[0]? == idx[1]? then S.one else S.zero), [p.1, p.2]))
    let edgeOps : List ((List Nat → K) × List Nat) := edges.map (fun e => (edgeWeight S G x e.1, e.2))
    -- (iii) external nodes attached to nothing are dropped before the einsum …
    let outputs := ext'.filter (connected.contains ·)
    let core := einsumSpec S sizes (idOps ++ edgeOps) outputs
    -- … and restored by view/expand (broadcast)
    let outShape := outputs.map (fun v => sizes[v]?.getD 0)
    let full : List K := (assigns (ext'.map (fun v => sizes[v]?.getD 0))).map (fun a =>
      let sub := (ext'.zip a).filter (fun p => connected.contains p.1) |>.map (·.2)
      getT S core outShape sub)
    -- (iv) multiply_in_disconnected_internals
    let mult := ((List.range nodes.length).filter (fun v => !connected.contains v && !ext'.contains v)).foldl
      (fun m v => m * (sizes[v]?.getD 0)) 1
    some (if mult == 1 then full else full.map (fun c => S.mul c (S.ofNat mult)))

/-- the model of `F` built from `sum_product_edges` -/
def Impl.F (S : SR K) (G : Grammar K) (x : Val K) : Val K :=
  (List.range G.nts.length).map (fun X =>
    (G.rulesOf X).foldl (fun (acc : Option (List K)) r =>
      match Impl.sumProductEdges S G x r.nodes r.edges r.ext with
      | none => acc
      | some t => match acc with
        | none => some t
        | some a => some (addT S a t)) none)

/-- process the components in the given order; a non-recursive component is one application of F
restricted to it (`method = one-step`) -/
def Impl.sumProductsNonrec (S : SR K) (G : Grammar K) (order : List (List Nat)) : Val K :=
  order.foldl (fun x comp =>
    let fx := Impl.F S G x
    (List.range G.nts.length).map (fun X => if comp.contains X then fx[X]?.join else x[X]?.join)) (zeroVal G)

/-! ### semiring instances -/

def realSR : SR Ext := ⟨Ext.fin 0, Ext.fin 1, Impl.realAdd, Impl.realMul 0⟩
def vitSR : SR Ext := ⟨Ext.ninf, Ext.fin 0, Impl.vitAdd, Impl.vitMul⟩
def boolSR : SR Bool := ⟨false, true, (· || ·), (· && ·)⟩

/-- dual numbers over a semiring-with-subtraction-free arithmetic: (value, ε-coefficient) -/
def dualSR : SR (Ext × Ext) :=
  ⟨(Ext.fin 0, Ext.fin 0), (Ext.fin 1, Ext.fin 0),
   fun a b => (Impl.realAdd a.1 b.1, Impl.realAdd a.2 b.2),
   fun a b => (Impl.realMul 0 a.1 b.1, Impl.realAdd (Impl.realMul 0 a.1 b.2) (Impl.realMul 0 a.2 b.1))⟩

/-! ### protocol -/

def parseGrammar {K} (pw : Parser K) : Parser (Grammar K) := do
  let nls ← Tok.list Tok.nat
  let terms ← Tok.list (Tok.list Tok.nat)
  let nts ← Tok.list (Tok.list Tok.nat)
  let start ← Tok.nat
  let rules ← Tok.list (do
    let lhs ← Tok.nat; let nodes ← Tok.list Tok.nat; let ext ← Tok.list Tok.nat
    let edges ← Tok.list (do let l ← Tok.nat; let att ← Tok.list Tok.nat; pure (l, att))
    pure (⟨lhs, nodes, ext, edges⟩ : Rule))
  let weights ← Tok.list (Tok.list pw)
  pure ⟨nls, terms, nts, start, rules, weights⟩

def showVal {K} (f : K → String) (v : Val K) : String :=
  showList (fun (t : Option (List K)) => showOpt (showList f) t) v

def valEq {K} [BEq K] (a b : Val K) : Bool := a == b

/-- iterate F to a fixed point (exact), at most `n` times; returns (value, iterations, stable) -/
def iterate {K} [BEq K] (S : SR K) (G : Grammar K) (n : Nat) : Val K × Nat × Bool :=
  let rec go : Nat → Nat → Val K → Val K × Nat × Bool
    | 0, k, x => (x, k, false)
    | fuel+1, k, x =>
      let y := F S G x
      if y == x then (x, k, true) else go fuel (k+1) y
  go n 0 (zeroVal G)

def parseOrder : Parser (List (List Nat)) := Tok.list (Tok.list Tok.nat)

def pBool : Parser Bool := do
  let e ← Tok.ext
  pure (e != Ext.fin 0)

/-! ### certified enclosure of the least fixed point (Real semiring, C02)

`lo = kleeneDown n`: Kleene iteration with every cell rounded DOWN to `bits` fractional bits after
each step; by monotonicity of F (non-negative weights) `kleeneDown n ≤ kleene n ≤ lfp`.
`hi`: any value with `F hi ≤ hi` (checked exactly) is an upper bound of the least fixed point. -/

def truncDown (bits : Nat) : Ext → Ext
  | .fin a => .fin (((a * (2 ^ bits : Nat)).floor : Int) / ((2 ^ bits : Nat) : Rat))
  | x => x

/-- saturation: a finite value above `2^40` is replaced by `2^40` (still a lower bound).  Without it the
iterates of a divergent non-linear grammar double their bit length at every step. -/
def capDown : Ext → Ext
  | .fin a => if a > ((2 ^ 40 : Nat) : Rat) then .fin ((2 ^ 40 : Nat) : Rat) else .fin a
  | x => x

def kleeneDown (G : Grammar Ext) (bits : Nat) : Nat → Val Ext
  | 0 => zeroVal G
  | n+1 => (F realSR G (kleeneDown G bits n)).map (fun t => t.map (fun l => l.map (fun c => capDown (truncDown bits c))))

/-- cellwise `a ≤ b` (absent = zero) -/
def valLe (G : Grammar Ext) (a b : Val Ext) : Bool :=
  (List.range G.nts.length).all (fun X =>
    let n := numel (G.shapeOf (G.nts[X]?.getD []))
    let get (v : Val Ext) (i : Nat) : Ext := match v[X]?.join with | some t => t[i]?.getD (Ext.fin 0) | none => Ext.fin 0
    (List.range n).all (fun i => (get a i).le (get b i)))

def parseVal : Parser (Val Ext) := Tok.list (Tok.optional (Tok.list Tok.ext))

/-! ### derivatives by dual numbers (C03): evaluate the equation system over K[ε]/(ε²) with weight
entry (terminal `wi`, cell `ci`) perturbed by ε; the ε-part of the result is ∂/∂w. -/

def toDual (G : Grammar Ext) (wi ci : Nat) : Grammar (Ext × Ext) :=
  { nls := G.nls, terms := G.terms, nts := G.nts, start := G.start, rules := G.rules,
    weights := G.weights.zipIdx.map (fun (w, i) => w.zipIdx.map (fun (c, j) =>
      (c, if i == wi && j == ci then Ext.fin 1 else Ext.fin 0))) }

/-- Kleene iteration over dual numbers, both parts rounded down to `bits` fractional bits when `bits > 0` -/
def kleeneDual (G : Grammar (Ext × Ext)) (bits : Nat) : Nat → Val (Ext × Ext)
  | 0 => zeroVal G
  | n+1 =>
    let y := F dualSR G (kleeneDual G bits n)
    if bits == 0 then y else y.map (fun t => t.map (fun l => l.map (fun c => (capDown (truncDown bits c.1), capDown (truncDown bits c.2)))))

/-! ### checking a concrete derivation with assignments (C04: what `viterbi` returns) -/

inductive ADeriv where
  | mk (rule : Nat) (asst : List Nat) (children : List ADeriv)   -- asst: value per node position
deriving Repr, Inhabited

/-- well-formedness and weight of a derivation rooted at nonterminal `X` whose external nodes must
take the values `extVals`: the rule belongs to `X`; every node has a value in its domain; external
nodes agree with the parent; exactly one child per nonterminal edge (in order), each well formed at
the induced values; weight = product of terminal weights and children's weights. -/
def checkDeriv (S : SR K) (G : Grammar K) : Nat → ADeriv → Nat → List Nat → Option K
  | 0, _, _, _ => none
  | fuel+1, .mk ri asst cs, X, extVals =>
    match G.rules[ri]? with
    | none => none
    | some r =>
      if r.lhs != X then none
      else if asst.length != r.nodes.length then none
      else if !((asst.zip r.nodes).all (fun (v, l) => decide (v < G.dom l))) then none
      else if r.ext.map (fun v => asst[v]?.getD 0) != extVals then none
      else
        let step := fun (acc : Option (K × List ADeriv)) (e : Nat × List Nat) =>
          match acc with
          | none => none
          | some (w, rest) =>
            let idx := e.2.map (fun v => asst[v]?.getD 0)
            if e.1 < G.T then some (S.mul w (edgeWeight S G [] e.1 idx), rest)
            else match rest with
              | c :: rest' => (checkDeriv S G fuel c (e.1 - G.T) idx).map (fun wc => (S.mul w wc, rest'))
              | [] => none
        match r.edges.foldl step (some (S.one, cs)) with
        | some (w, []) => some w
        | _ => none

partial def parseADeriv : Parser ADeriv := do
  let r ← Tok.nat; let a ← Tok.list Tok.nat; let cs ← Tok.list parseADeriv
  pure (.mk r a cs)

def handle : List String → Option (Except String String)
  | "C04.check" :: rest => some do
      let (G, d, a) ← Tok.run (do let g ← parseGrammar Tok.ext; let d ← parseADeriv; let a ← Tok.list Tok.nat; pure (g, d, a)) rest
      pure (showOpt toString (checkDeriv vitSR G 64 d G.start a))
  | "C03.dual" :: rest => some do
      let (G, entries, n, bits) ← Tok.run (do
        let g ← parseGrammar Tok.ext
        let es ← Tok.list (do let a ← Tok.nat; let b ← Tok.nat; pure (a, b))
        let n ← Tok.nat; let b ← Tok.nat; pure (g, es, n, b)) rest
      -- for every requested entry: the start tensor's value and ε-part
      let outs := entries.map (fun (wi, ci) =>
        let v := kleeneDual (toDual G wi ci) bits n
        match v[G.start]?.join with
        | some t => showList (fun (c : Ext × Ext) => s!"{c.1} {c.2}") t
        | none => "0")
      pure (String.intercalate " " outs)
  | "C02.enclose" :: rest => some do
      let (G, hi, n, bits) ← Tok.run (do
        let g ← parseGrammar Tok.ext; let hi ← parseVal; let n ← Tok.nat; let b ← Tok.nat; pure (g, hi, n, b)) rest
      let lo := kleeneDown G bits n
      pure s!"{showBool (valLe G (F realSR G hi) hi)} {showBool (valLe G lo hi)} {showVal toString lo}"
  | "C01.real" :: rest => some do
      let (G, order, n) ← Tok.run (do let g ← parseGrammar Tok.ext; let o ← parseOrder; let n ← Tok.nat; pure (g, o, n)) rest
      let impl := Impl.sumProductsNonrec realSR G order
      let spec := (List.range G.nts.length).map (fun X => some (derivSum realSR G n X))
      pure (showVal toString impl ++ " " ++ showVal toString spec ++ " " ++ showVal toString (kleene realSR G n))
  | "C01.viterbi" :: rest => some do
      let (G, order, n) ← Tok.run (do let g ← parseGrammar Tok.ext; let o ← parseOrder; let n ← Tok.nat; pure (g, o, n)) rest
      let impl := Impl.sumProductsNonrec vitSR G order
      let spec := (List.range G.nts.length).map (fun X => some (derivSum vitSR G n X))
      pure (showVal toString impl ++ " " ++ showVal toString spec ++ " " ++ showVal toString (kleene vitSR G n))
  | "C01.bool" :: rest => some do
      let (G, order, n) ← Tok.run (do let g ← parseGrammar pBool; let o ← parseOrder; let n ← Tok.nat; pure (g, o, n)) rest
      let impl := Impl.sumProductsNonrec boolSR G order
      let spec := (List.range G.nts.length).map (fun X => some (derivSum boolSR G n X))
      pure (showVal showBool impl ++ " " ++ showVal showBool spec ++ " " ++ showVal showBool (kleene boolSR G n))
  | "C02.iterate" :: sr :: rest => some do
      match sr with
      | "viterbi" =>
        let (G, n) ← Tok.run (do let g ← parseGrammar Tok.ext; let n ← Tok.nat; pure (g, n)) rest
        let (x, k, st) := iterate vitSR G n
        pure s!"{showBool st} {k} {showVal toString x}"
      | "bool" =>
        let (G, n) ← Tok.run (do let g ← parseGrammar pBool; let n ← Tok.nat; pure (g, n)) rest
        let (x, k, st) := iterate boolSR G n
        pure s!"{showBool st} {k} {showVal showBool x}"
      | "real" =>
        let (G, n) ← Tok.run (do let g ← parseGrammar Tok.ext; let n ← Tok.nat; pure (g, n)) rest
        let (x, k, st) := iterate realSR G n
        pure s!"{showBool st} {k} {showVal toString x}"
      | _ => throw "bad semiring"
  | _ => none

end Fggs.Sem
