/-
FggsModel.Viterbi — model of the reconstruction phase of `viterbi` (viterbi.py, C04): from the tables left by the
fixed-point iteration — `maximum` (the value of every nonterminal), `lhs_pointer[nt][ext_asst]` (index of the rule that
attains it) and `rhs_pointer[nt][ri][ext_asst]` (the values of the rule's internal nodes that attain it, listed in order
of first appearance along the edges) — `reconstruct` builds the derivation top down.

`reconstruct` transcribes the Python function; `reconstructChecked` additionally verifies, at every rule instance it
visits, that the pointers are LOCALLY optimal: the product of the rule's edge weights at the pointed-to assignment
(nonterminal edges read from `maximum`) equals `maximum[nt][ext_asst]`.  The tables themselves come from the
implementation (hook `viterbi._verif_tables`, FGGS_VERIF=1); how `F_viterbi` fills them (argmax with torch's
tie-breaking) is not modelled.
-/
import FggsModel.Sem

namespace Fggs.Vt
open Sem

variable {K : Type}

structure Tables where
  /-- per nonterminal: for every cell (flat, row-major over the nonterminal's type) the index of the chosen rule among
  the nonterminal's rules -/
  lhs : List (List Nat)
  /-- per nonterminal, per rule (`none`: the rule had no value), per cell: the values of the internal nodes -/
  rhs : List (List (Option (List (List Nat))))

/-- internal nodes in order of first appearance along the edges (`for e in edges: for v in e.nodes: if v not in rhs_asst`) -/
def appearOrder (r : Rule) : List Nat :=
  ((r.edges.flatMap (·.2)).eraseDups).filter (fun v => !r.ext.contains v)

/-- the assignment of all node positions of `r`: externals from `extVals` (`dict(zip(ext, nt_asst))`: a later position of a
repeated external wins), internal nodes with an edge from the pointer, edgeless nodes 0 -/
def assemble (r : Rule) (extVals ptr : List Nat) : List Nat :=
  (List.range r.nodes.length).map (fun v =>
    match (r.ext.zip extVals).reverse.find? (·.1 == v) with
    | some p => p.2
    | none =>
      match (appearOrder r).idxOf? v with
      | some i => ptr[i]?.getD 0
      | none => 0)

/-- the position in `G.rules` of the `ri`-th rule of nonterminal `X` -/
def globalIndex (G : Grammar K) (X ri : Nat) : Option Nat :=
  ((G.rules.zipIdx.filter (fun p => p.1.lhs == X))[ri]?).map (·.2)

/-- `reconstruct(nt, nt_asst)`; `none` = Python would raise (index out of range, `None` pointer, the assertion on the
pointer length) or the recursion does not end within `fuel` nested calls -/
def reconstruct (G : Grammar K) (tb : Tables) : Nat → Nat → List Nat → Option ADeriv
  | 0, _, _ => none
  | fuel+1, X, extVals => do
    let shape := G.shapeOf (G.nts[X]?.getD [])
    let cell := flat shape extVals
    let ri ← (tb.lhs[X]?.getD [])[cell]?
    let r ← (G.rulesOf X)[ri]?
    let gi ← globalIndex G X ri
    let ptrs ← ((tb.rhs[X]?.getD [])[ri]?).join
    let ptr ← ptrs[cell]?
    if ptr.length != (appearOrder r).length then none
    else
      let asst := assemble r extVals ptr
      let kids ← (r.edges.filter (fun e => decide (e.1 ≥ G.T))).mapM (fun e =>
        reconstruct G tb fuel (e.1 - G.T) (e.2.map (fun v => asst[v]?.getD 0)))
      pure (ADeriv.mk gi asst kids)

/-- the weight of rule `r` at the assignment `asst`, nonterminal edges read from the values `x` -/
def localWeight (S : SR K) (G : Grammar K) (x : Val K) (r : Rule) (asst : List Nat) : K :=
  S.prod (r.edges.map (fun e => edgeWeight S G x e.1 (e.2.map (fun v => asst[v]?.getD 0))))

/-- `reconstruct` with the local optimality check at every visited rule instance, and the well-formedness conditions of
`checkDeriv` (values in their domains, externals as given) -/
def reconstructChecked [BEq K] (S : SR K) (G : Grammar K) (x : Val K) (tb : Tables) : Nat → Nat → List Nat → Option ADeriv
  | 0, _, _ => none
  | fuel+1, X, extVals => do
    let shape := G.shapeOf (G.nts[X]?.getD [])
    let cell := flat shape extVals
    let ri ← (tb.lhs[X]?.getD [])[cell]?
    let r ← (G.rulesOf X)[ri]?
    let gi ← globalIndex G X ri
    let ptrs ← ((tb.rhs[X]?.getD [])[ri]?).join
    let ptr ← ptrs[cell]?
    if ptr.length != (appearOrder r).length then none
    else
      let asst := assemble r extVals ptr
      let xcell : K := match x[X]?.join with
        | some t => getT S t shape extVals
        | none => S.zero
      if !((asst.zip r.nodes).all (fun p => decide (p.1 < G.dom p.2))) then none
      else if r.ext.map (fun v => asst[v]?.getD 0) != extVals then none
      else if !(localWeight S G x r asst == xcell) then none
      else
        let kids ← (r.edges.filter (fun e => decide (e.1 ≥ G.T))).mapM (fun e =>
          reconstructChecked S G x tb fuel (e.1 - G.T) (e.2.map (fun v => asst[v]?.getD 0)))
        pure (ADeriv.mk gi asst kids)

/-! ### protocol -/

partial def showADeriv : ADeriv → String
  | .mk r a cs => s!"{r} {showList toString a} {showList showADeriv cs}"

def parseTables : Parser Tables := do
  let lhs ← Tok.list (Tok.list Tok.nat)
  let rhs ← Tok.list (Tok.list (Tok.optional (Tok.list (Tok.list Tok.nat))))
  pure ⟨lhs, rhs⟩

def handle : List String → Option (Except String String)
  | "C04.reconstruct" :: rest => some do
      let (G, x, tb, a) ← Tok.run (do
        let g ← parseGrammar Tok.ext; let x ← parseVal; let tb ← parseTables; let a ← Tok.list Tok.nat; pure (g, x, tb, a)) rest
      let d := reconstruct G tb 64 G.start a
      let dc := reconstructChecked vitSR G x tb 64 G.start a
      let fixed := (List.range G.nts.length).all (fun X =>
        let n := numel (G.shapeOf (G.nts[X]?.getD []))
        let cells (v : Val Ext) : List Ext := match v[X]?.join with | some t => t | none => List.replicate n vitSR.zero
        cells (F vitSR G x) == cells x)
      pure s!"{showOpt showADeriv d} {showBool dc.isSome} {showBool fixed}"
  | _ => none

end Fggs.Vt
