/-
FggsModel.Semiring — model of fggs/semirings.py (C08).

`Impl.*` are literal compositions of the primitive `Ext` operations, in the order in which
semirings.py composes torch calls.  `big` is the largest finite value of the dtype (it appears
only where the source omits `posinf`/`neginf`).
-/
import FggsModel.Basic

namespace Fggs

/-- the operations of fggs.semirings.Semiring that act elementwise -/
structure SROps (S : Type) where
  fromInt : Nat → S
  add : S → S → S
  mul : S → S → S
  sub : S → S → S
  star : S → S

namespace Impl
open Ext

/-- RealSemiring -/
def realAdd (x y : Ext) : Ext := x.add y
/-- `x.sub(y).relu_().nan_to_num_(nan=0., posinf=inf)` -/
def realSub (big : Rat) (x y : Ext) : Ext :=
  nanToNum big (fin 0) (some pinf) none (relu (x.sub y))
/-- `x.mul(y).nan_to_num_(nan=0., posinf=inf)` -/
def realMul (big : Rat) (x y : Ext) : Ext :=
  nanToNum big (fin 0) (some pinf) none (x.mul y)
/-- `y = 1/(1-x); y.masked_fill_(x >= 1, inf)` -/
def realStar (x : Ext) : Ext :=
  if x.ge (fin 1) then pinf else (fin 1).div ((fin 1).sub x)

def real (big : Rat) : SROps Ext where
  fromInt := ofNat
  add := realAdd
  mul := realMul big
  sub := realSub big
  star := realStar

/-- ViterbiSemiring (log domain): `torch.where(n > 0, 0., -inf)` -/
def vitFromInt (n : Nat) : Ext := if n > 0 then fin 0 else ninf
def vitAdd (x y : Ext) : Ext := x.maximum y
/-- `x.add(y).nan_to_num_(nan=-inf, neginf=-inf, posinf=inf)` -/
def vitMul (x y : Ext) : Ext :=
  nanToNum 0 ninf (some pinf) (some ninf) (x.add y)
def vitSub (x _y : Ext) : Ext := x
/-- `torch.where(x > 0, inf, 0.)` (after the fix for D2; the pinned tree had `x >= 0`). -/
def vitStar (x : Ext) : Ext := if x.gt (fin 0) then pinf else fin 0
/-- the pinned tree's star, kept for the historical counterexample theorem -/
def vitStarOld (x : Ext) : Ext := if x.ge (fin 0) then pinf else fin 0

def viterbi : SROps Ext where
  fromInt := vitFromInt
  add := vitAdd
  mul := vitMul
  sub := vitSub
  star := vitStar

/-- BoolSemiring -/
def bool : SROps Bool where
  fromInt := fun n => decide (n > 0)
  add := (· || ·)
  mul := (· && ·)
  sub := fun x y => x && !y
  star := fun _ => true

/-- LogSemiring on the log side.  `mul` is exact (`x.add(y)` + `nan_to_num_`).  `add` is
`logaddexp`, exact on special values; on two finite values it is transcendental and the model
returns `none` (the harness compares those in the tolerance regime). -/
def logMul (x y : Ext) : Ext :=
  nanToNum 0 ninf (some pinf) (some ninf) (x.add y)

def logAdd? : Ext → Ext → Option Ext
  | nan, _ => some nan
  | _, nan => some nan
  | pinf, _ => some pinf
  | _, pinf => some pinf
  | ninf, y => some y
  | x, ninf => some x
  | fin _, fin _ => none

/-- `LogSemiring.star` on special values and at `x ≥ 0`:
`-where(x < -1, log1p(-exp x), log(-expm1 x)).nan_to_num(nan=-inf, neginf=-inf)`.
For `x ≥ 0` finite: `-expm1 x ≤ 0`, `log` gives nan or -inf → -inf → negated `+inf`. -/
def logStar? : Ext → Option Ext
  | nan => some pinf      -- where(nan < -1) picks log(-expm1 nan) = nan → -inf → +inf
  | pinf => some pinf     -- log(-expm1 inf) = log(-inf) = nan → -inf → +inf
  | ninf => some (fin 0)  -- log1p(-exp(-inf)) = log1p(-0) = 0
  | fin a => if 0 ≤ a then some pinf else none

/-- `LogSemiring.from_int` on 0 and 1 (other values are logs of naturals: transcendental) -/
def logFromInt? (n : Nat) : Option Ext :=
  if n = 0 then some ninf else if n = 1 then some (fin 0) else none

end Impl

/-- a semiring operation request for the driver -/
def srEval (big : Rat) (sr op : String) (args : List Ext) : Except String String :=
  let R := Impl.real big
  let V := Impl.viterbi
  let b (x : Ext) : Bool := x != Ext.fin 0
  let sb (x : Bool) : String := showBool x
  let so : Option Ext → String := showOpt toString
  match sr, op, args with
  | "real", "add", [x, y] => pure (toString (R.add x y))
  | "real", "mul", [x, y] => pure (toString (R.mul x y))
  | "real", "sub", [x, y] => pure (toString (R.sub x y))
  | "real", "star", [x] => pure (toString (R.star x))
  | "viterbi", "add", [x, y] => pure (toString (V.add x y))
  | "viterbi", "mul", [x, y] => pure (toString (V.mul x y))
  | "viterbi", "sub", [x, y] => pure (toString (V.sub x y))
  | "viterbi", "star", [x] => pure (toString (V.star x))
  | "log", "mul", [x, y] => pure (toString (Impl.logMul x y))
  | "log", "add", [x, y] => pure (so (Impl.logAdd? x y))
  | "log", "star", [x] => pure (so (Impl.logStar? x))
  | "bool", "add", [x, y] => pure (sb (Impl.bool.add (b x) (b y)))
  | "bool", "mul", [x, y] => pure (sb (Impl.bool.mul (b x) (b y)))
  | "bool", "sub", [x, y] => pure (sb (Impl.bool.sub (b x) (b y)))
  | "bool", "star", [x] => pure (sb (Impl.bool.star (b x)))
  | _, _, _ => throw s!"bad semiring request {sr} {op}"

def srFromInt (sr : String) (n : Nat) : Except String String :=
  match sr with
  | "real" => pure (toString (Impl.real 0 |>.fromInt n))
  | "viterbi" => pure (toString (Impl.viterbi.fromInt n))
  | "bool" => pure (showBool (Impl.bool.fromInt n))
  | "log" => pure (showOpt toString (Impl.logFromInt? n))
  | _ => throw s!"bad semiring {sr}"

end Fggs
