/-
FggsModel.Factorize — relational model of fggs.factorize.factorize_rule (C05).

factorize_rule iterates over Python sets of Node objects (bags, `bag & parent`, tree neighbours), so
the order of nodes, of child externals and of rules in its output is not determined by the input.
The model is therefore a *relation*: `factorizationOf orig avoid out` holds when `out` is what the
algorithm may produce for SOME tree decomposition and SOME iteration orders:
one rule per bag; the root keeps the lhs and externals; a child's externals are `bag ∩ parent`;
an original edge lives in the rule of bag B iff B ⊇ e.nodes and not parent ⊇ e.nodes; one new
nonterminal edge per child, attached to the child's externals in the child's order; fresh names.
The tree decomposition the implementation used is read off the output (`tdOf`) and checked with
the C10 decider.
-/
import FggsModel.Conj
import FggsModel.TreeDec

namespace Fggs.Fz
open Cj

def subsetN (a b : List Node) : Bool := a.all (b.contains ·)
def isNew (avoid : List String) (l : Label) : Bool := !avoid.contains l.name

/-- the rule whose lhs is `l` -/
def ruleOf (out : List Rule) (l : Label) : Option Rule := out.find? (·.lhs = l)

/-- edges of an output rule that are the new nonterminal edges (label introduced by the factorization) -/
def newEdges (avoid : List String) (r : Rule) : List Edge := r.edges.filter (fun e => isNew avoid e.label)
def oldEdges (avoid : List String) (r : Rule) : List Edge := r.edges.filter (fun e => !isNew avoid e.label)

/-- parent of the rule with lhs `l`: the unique rule having a new edge labelled `l` -/
def parentsOf (avoid : List String) (out : List Rule) (l : Label) : List Rule :=
  out.filter (fun r => (newEdges avoid r).any (·.label = l))

def nodupB {α} [DecidableEq α] : List α → Bool
  | [] => true
  | x :: xs => !xs.contains x && nodupB xs

/-- all rules reachable from the root by following new edges, bounded -/
def reachRules (avoid : List String) (out : List Rule) (root : Rule) : List Label :=
  (List.range out.length).foldl (fun seen _ =>
    seen.foldl (fun acc l => match ruleOf out l with
      | none => acc
      | some r => (newEdges avoid r).foldl (fun acc e => if acc.contains e.label then acc else acc ++ [e.label]) acc) seen)
    [root.lhs]

def factorizationOf (orig : Rule) (avoid : List String) (out : List Rule) : Bool :=
  match out.filter (·.lhs = orig.lhs) with
  | [root] =>
    -- the root keeps the externals, in order
    decide (root.ext = orig.ext) &&
    -- fresh names: pairwise distinct, not to be avoided, nonterminal, typed by their externals
    nodupB (out.map (·.lhs.name)) &&
    out.all (fun r => r.lhs = orig.lhs || (isNew avoid r.lhs && !r.lhs.terminal && decide (r.lhs.type = r.ext.map (·.label)))) &&
    -- every rule's nodes are original nodes, without repetition; externals are nodes of the rule
    out.all (fun r => nodupB r.nodes && subsetN r.nodes orig.nodes && subsetN r.ext r.nodes) &&
    -- tree shape: every non-root rule has exactly one parent, exactly one edge there, attached to its externals in order
    out.all (fun r => r.lhs = orig.lhs ||
      (match parentsOf avoid out r.lhs with
       | [p] => (match (newEdges avoid p).filter (·.label = r.lhs) with
                 | [e] => decide (e.nodes = r.ext) &&
                          -- externals of a child = bag ∩ parent bag
                          nodupB r.ext && r.ext.all (fun v => p.nodes.contains v) &&
                          r.nodes.all (fun v => !p.nodes.contains v || r.ext.contains v)
                 | _ => false)
       | _ => false)) &&
    -- the root has no parent; every new edge points to an existing rule; everything hangs on the root
    (parentsOf avoid out orig.lhs).isEmpty &&
    out.all (fun r => (newEdges avoid r).all (fun e => (ruleOf out e.label).isSome && e.label ≠ orig.lhs)) &&
    (reachRules avoid out root).length == out.length &&
    -- original edges: in the rule of bag B iff B ⊇ e.nodes and not (parent ⊇ e.nodes)
    out.all (fun r =>
      let parentBag : Option (List Node) := (parentsOf avoid out r.lhs).head?.map (·.nodes)
      nodupB (oldEdges avoid r) &&
      (oldEdges avoid r).all (fun e => orig.edges.contains e && subsetN e.nodes r.nodes &&
          (match parentBag with | none => true | some pb => !subsetN e.nodes pb)) &&
      orig.edges.all (fun e => !(subsetN e.nodes r.nodes &&
          (match parentBag with | none => true | some pb => !subsetN e.nodes pb)) || (oldEdges avoid r).contains e))
  | _ => false

/-- primal graph of the rule (edges and the externals made cliques) over node positions -/
def primal (orig : Rule) : TD.UG :=
  let pos (v : Node) : Nat := orig.nodes.findIdx (· = v)
  let cliques := orig.edges.map (·.nodes) ++ [orig.ext]
  let g0 : TD.UG := (List.range orig.nodes.length).map (fun i => (i, []))
  cliques.foldl (fun g c => TD.makeClique g ((c.map pos).eraseDups)) g0

/-- the tree of bags the output corresponds to -/
def tdOf (orig : Rule) (avoid : List String) (out : List Rule) : TD.Tree :=
  let pos (v : Node) : Nat := orig.nodes.findIdx (· = v)
  let bagOf (r : Rule) : List Nat := TD.sortBag (r.nodes.map pos)
  out.map (fun r =>
    (bagOf r,
     ((newEdges avoid r).filterMap (fun e => (ruleOf out e.label).map bagOf)) ++
     ((parentsOf avoid out r.lhs).map bagOf)))

def handle : List String → Option (Except String String)
  | "C05.check" :: rest => some do
      let (orig, avoid, out) ← Tok.run (do
        let o ← parseRule; let a ← Tok.list parseS; let rs ← Tok.list parseRule; pure (o, a, rs)) rest
      let t := tdOf orig avoid out
      pure s!"{showBool (factorizationOf orig avoid out)} {showBool (TD.validTD (primal orig) t)} {TD.width t} {TD.tw (primal orig)}"
  | _ => none

end Fggs.Fz
