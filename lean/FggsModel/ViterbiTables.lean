/-
FggsModel.ViterbiTables — how `viterbi` FILLS its tables (fggs/viterbi.py, C04): `F_viterbi` (per nonterminal and rule:
the maximum over the internal nodes of the product of the edge weights, with the maximising assignment; the rule index
is recorded where a rule is STRICTLY better than the rules before it) and the driver loop (components in dependency
order; one application for a non-recursive singleton, otherwise fixed-point iteration until `allclose`, at most `kmax`
times; the tables of the LAST application are kept).

The argmax over the internal nodes is taken by `torch_semiring_einsum`'s kernel; the model takes the FIRST maximal
assignment in row-major order of the nodes' first appearance (`firstMax`).  The kernel's tie-breaking is not modelled:
the implementation's right-hand-side pointers are compared with the model's only through `ptrOk` (the pointed-to
assignment attains the rule's maximum), its values and left-hand-side pointers exactly.
-/
import FggsModel.Viterbi
import FggsModel.Pipeline

namespace Fggs.Vt
open Sem Pipe

variable {K : Type}

/-- first maximal element: a later candidate replaces the incumbent only if strictly greater -/
def firstMax (gt : K → K → Bool) : List (List Nat × K) → Option (List Nat × K)
  | [] => none
  | c :: cs => some (cs.foldl (fun best d => if gt d.2 best.2 then d else best) c)

/-- the assignments of the internal nodes that have an edge, in order of first appearance (row-major) -/
def innerAssigns (G : Grammar K) (r : Rule) : List (List Nat) :=
  Sem.assigns ((appearOrder r).map (fun v => G.dom (r.nodes[v]?.getD 0)))

/-- an external assignment is consistent when repeated external nodes carry the same value (the identity factor of
`rename_duplicate_nodes`) -/
def extConsistent (r : Rule) (extVals : List Nat) : Bool :=
  (r.ext.zip extVals).all (fun p => (r.ext.zip extVals).all (fun q => p.1 != q.1 || p.2 == q.2))

/-- the weight of rule `r` at external assignment `extVals` and pointer `ptr` -/
def candWeight (S : SR K) (G : Grammar K) (x : Val K) (r : Rule) (extVals ptr : List Nat) : K :=
  if extConsistent r extVals then localWeight S G x r (assemble r extVals ptr) else S.zero

/-- `sum_product_edges(fgg, rule, x, inputs)` of viterbi.py: per external assignment the best weight and the
maximising assignment of the internal nodes; `none` = some edge label has no value -/
def ruleTable (S : SR K) (gt : K → K → Bool) (G : Grammar K) (x : Val K) (r : Rule) : Option (List (K × List Nat)) :=
  if r.edges.any (fun e => decide (e.1 ≥ G.T) && (x[e.1 - G.T]?.join).isNone) then none
  else
    let shape := G.shapeOf (r.ext.map (fun v => r.nodes[v]?.getD 0))
    some ((Sem.assigns shape).map (fun extVals =>
      match firstMax gt ((innerAssigns G r).map (fun ptr => (ptr, candWeight S G x r extVals ptr))) with
      | some b => (b.2, b.1)
      | none => (S.zero, [])))

structure NtTables (K : Type) where
  value : Option (List K)
  lhs : List Nat
  rhs : List (Option (List (List Nat)))
  /-- the valuation this application of `F_viterbi` read (the component's nonterminals as they were before it) -/
  readVal : Val K := []

/-- `F_viterbi` for one nonterminal -/
def fViterbiNt (S : SR K) (gt : K → K → Bool) (G : Grammar K) (x : Val K) (X : Nat) : NtTables K :=
  let ncell := numel (G.shapeOf (G.nts[X]?.getD []))
  ((G.rulesOf X).zipIdx.foldl (fun (acc : NtTables K) (p : Rule × Nat) =>
    match ruleTable S gt G x p.1 with
    | none => { acc with rhs := acc.rhs ++ [none] }
    | some tbl =>
      let vals := tbl.map (·.1)
      let ptrs := tbl.map (·.2)
      match acc.value with
      | some f =>
        { value := some (List.zipWith (fun t f => if gt t f then t else f) vals f),
          lhs := List.zipWith (fun (tf : K × K) l => if gt tf.1 tf.2 then p.2 else l) (vals.zip f) acc.lhs,
          rhs := acc.rhs ++ [some ptrs] }
      | none => { value := some vals, lhs := List.replicate ncell p.2, rhs := acc.rhs ++ [some ptrs] })
    { value := none, lhs := List.replicate ncell 0, rhs := [] })

/-- the state of the driver loop -/
structure VState (K : Type) where
  maximum : Val K
  tables : List (Nat × NtTables K)      -- nonterminal ↦ its tables (latest first)
  converged : Bool

def tablesOf (st : VState K) (X : Nat) : Option (NtTables K) := st.tables.lookup X

/-- one application of `F_viterbi` to a component: the component's nonterminals read `y`, everything else `maximum` -/
def fViterbi (S : SR K) (gt : K → K → Bool) (G : Grammar K) (maximum : Val K) (comp : List Nat) (y : Val K) : List (Nat × NtTables K) :=
  let v := overlay G.nts.length maximum y comp
  comp.map (fun X => (X, { fViterbiNt S gt G v X with readVal := v }))

def valuesOf (G : Grammar K) (comp : List Nat) (ts : List (Nat × NtTables K)) : Val K :=
  (List.range G.nts.length).map (fun X => if comp.contains X then (ts.lookup X).bind (·.value) else none)

/-- the fixed-point loop of `viterbi`: `x1 = F(x)`; stop when `x ≈ x1`; at most `fuel` applications; returns the LAST
application's tables and whether the loop was left through `break` -/
def vitLoop [BEq K] (S : SR K) (gt : K → K → Bool) (G : Grammar K) (maximum : Val K) (comp : List Nat) :
    Nat → Val K → List (Nat × NtTables K) → List (Nat × NtTables K) × Bool
  | 0, _, last => (last, false)
  | fuel+1, y, _ =>
    let ts := fViterbi S gt G maximum comp y
    let y1 := valuesOf G comp ts
    if valEqOn S G comp y y1 then (ts, true) else vitLoop S gt G maximum comp fuel y1 ts

def isTrivial (G : Grammar K) (comp : List Nat) : Bool :=
  match comp with
  | [X] => !((G.rulesOf X).any (fun r => r.edges.any (fun e => e.1 == G.T + X)))
  | _ => false

def vitComp [BEq K] (S : SR K) (gt : K → K → Bool) (G : Grammar K) (kmax : Nat) (st : VState K) (comp : List Nat) : VState K :=
  let y0 : Val K := List.replicate G.nts.length none
  let (ts, conv) :=
    if isTrivial G comp then (fViterbi S gt G st.maximum comp y0, true)
    else vitLoop S gt G st.maximum comp kmax y0 []
  { maximum := overlay G.nts.length st.maximum (valuesOf G comp ts) comp,
    tables := ts ++ st.tables, converged := st.converged && conv }

/-- the table-filling phase of `viterbi(fgg, …, kmax=kmax)` -/
def viterbiTables [BEq K] (S : SR K) (gt : K → K → Bool) (G : Grammar K) (kmax : Nat) : VState K :=
  (sccOrder G).foldl (vitComp S gt G kmax) { maximum := zeroVal G, tables := [], converged := true }

/-- the tables in the format `reconstruct` reads -/
def toTables (G : Grammar K) (st : VState K) : Tables :=
  { lhs := (List.range G.nts.length).map (fun X => ((tablesOf st X).map (·.lhs)).getD []),
    rhs := (List.range G.nts.length).map (fun X => ((tablesOf st X).map (·.rhs)).getD []) }

/-- is the pointer `ptr` of rule `r` at `extVals` an argmax (it attains the value the model found)? -/
def ptrOk [BEq K] (S : SR K) (gt : K → K → Bool) (G : Grammar K) (v : Val K) (r : Rule) (extVals ptr : List Nat) (best : K) : Bool :=
  ptr.length == (appearOrder r).length &&
  ((ptr.zip (appearOrder r)).all (fun p => decide (p.1 < G.dom (r.nodes[p.2]?.getD 0))) || (innerAssigns G r).isEmpty) &&
  (candWeight S G v r extVals ptr == best || (innerAssigns G r).isEmpty)

/-! ### protocol -/

def showNat2 (l : List (List Nat)) : String := showList (showList toString) l

def handleT : List String → Option (Except String String)
  | "C04.tables" :: rest => some do
      let (G, tb, kmax) ← Tok.run (do let g ← parseGrammar Tok.ext; let tb ← parseTables; let k ← Tok.nat; pure (g, tb, k)) rest
      let gt := fun (a b : Ext) => a.gt b
      let st := viterbiTables vitSR gt G kmax
      let mt := toTables G st
      -- left-hand-side pointers: exactly; right-hand-side pointers: every pointer of the implementation attains the rule's maximum
      let lhsEq := (List.range G.nts.length).all (fun X =>
        (tb.lhs[X]?.getD []) == (mt.lhs[X]?.getD []) || (tablesOf st X).isNone || ((tablesOf st X).bind (·.value)).isNone)
      -- the pointers are checked against the valuation the LAST application read (`readVal`): at convergence it has the final values,
      -- except that a nonterminal may still have been absent (= zero) in it
      let rhsOk := (List.range G.nts.length).all (fun X =>
        let v := ((tablesOf st X).map (·.readVal)).getD st.maximum
        let rules := G.rulesOf X
        let shape := G.shapeOf (G.nts[X]?.getD [])
        rules.zipIdx.all (fun (p : Rule × Nat) =>
          match ((tb.rhs[X]?.getD [])[p.2]?).join, ruleTable vitSR gt G v p.1 with
          | some ptrs, some tbl =>
            ((Sem.assigns shape).zipIdx.all (fun (q : List Nat × Nat) =>
              match ptrs[q.2]?, tbl[q.2]? with
              | some ptr, some best => ptrOk vitSR gt G v p.1 q.1 ptr best.1
              | _, _ => false))
          | none, none => true
          | _, _ => false))
      pure s!"{showVal toString st.maximum} {showBool st.converged} {showBool lhsEq} {showBool rhsOk}"
  | _ => none

end Fggs.Vt
