/-
fggsdriver — line protocol: one request per line `<op> <tokens…>`, one reply line
`ok <payload>` or `err <message>`.
-/
import FggsModel

open Fggs

def handle (toks : List String) : Except String String :=
  match toks with
  | "echo" :: rest => pure (String.intercalate " " rest)
  | "echo.ext" :: rest => do
      let xs ← Tok.run (Tok.list Tok.ext) rest
      pure (showList toString xs)
  | "C08.op" :: sr :: op :: rest => do
      let (big, xs) ← Tok.run (do let b ← Tok.rat; let xs ← Tok.list Tok.ext; pure (b, xs)) rest
      srEval big sr op xs
  | "C08.fromInt" :: sr :: rest => do
      let n ← Tok.run Tok.nat rest
      srFromInt sr n
  | op :: _ =>
    match Scc.handle toks <|> Interp.handle toks <|> G.handle toks <|> G.handleReplace toks <|> J.handle toks <|> Cj.handle toks <|> TD.handle toks <|> Fz.handle toks <|> Sem.handle toks <|> Ax.handle toks <|> Es.handle toks <|> Sv.handle toks <|> Hp.handle toks <|> Un.handle toks <|> Pipe.handle toks <|> Ms.handle toks <|> Bn.handle toks <|> Ei.handle toks <|> Nw.handle toks <|> Vt.handle toks <|> Rs.handle toks <|> Sd.handle toks <|> Sh.handle toks <|> Eq.handle toks <|> Ps.handle toks <|> Vt.handleT toks <|> It.handle toks <|> Wh.handle toks <|> Jw.handle toks <|> Pj.handle toks <|> Ve.handle toks <|> Mf.handle toks <|> Jl.handle toks <|> Bw.handle toks with
    | some r => r
    | none => throw s!"unknown op {op}"
  | [] => throw "empty request"

partial def loop (hin hout : IO.FS.Stream) : IO Unit := do
  let line ← hin.getLine
  if line.isEmpty then return ()
  let toks := (line.trimAscii.toString.splitOn " ").filter (· ≠ "")
  match handle toks with
  | .ok s => hout.putStrLn ("ok " ++ s)
  | .error e => hout.putStrLn ("err " ++ (e.replace "\n" " "))
  hout.flush
  loop hin hout

def main : IO Unit := do
  loop (← IO.getStdin) (← IO.getStdout)
