/-
C11cLinLemmas — the method `linear` and Newton's method commute with an injective, star-preserving homomorphism of
semiring records (continuation of C11cLemmas).
-/
import FggsProofs.C11cLemmas

set_option linter.unusedSimpArgs false
set_option linter.unusedVariables false
set_option linter.unusedSectionVars false

namespace C11cL
open Fggs Fggs.Sem Fggs.Pipe Fggs.Nw C11

variable {K K' : Type}

/-- the map on optional tensors -/
abbrev mapOT (f : K → K') : Option (List K) → Option (List K') := Option.map (List.map f)

theorem join_map_mapOT (f : K → K') (o : Option (Option (List K))) :
    (o.map (mapOT f)).join = (o.join).map (List.map f) := by
  cases o with
  | none => rfl
  | some t => rfl

section hom
variable {S : SR K} {S' : SR K'} {f : K → K'} (hf : Hom S S' f)
include hf

/-! ### the Jacobian -/

theorem jacTerm_hom (G : Grammar K) (x : Val K) (r : Rule) (i : Nat) :
    jacTerm S' (mapG f G) (mapVal f x) r i = (jacTerm S G x r i).map (List.map f) := by
  unfold jacTerm
  cases r.edges[i]? with
  | none => rfl
  | some e => exact sumProductEdges_hom hf G x _ _ _

theorem jacInner_hom (G : Grammar K) (x : Val K) (r : Rule) (l : Nat) (is : List Nat) (acc : Option (List K)) :
    is.foldl (fun (acc : Option (List K')) i =>
        match r.edges[i]? with
        | some e => if e.1 == l then addOpt S' acc (jacTerm S' (mapG f G) (mapVal f x) r i) else acc
        | none => acc) (acc.map (List.map f)) =
      (is.foldl (fun (acc : Option (List K)) i =>
        match r.edges[i]? with
        | some e => if e.1 == l then addOpt S acc (jacTerm S G x r i) else acc
        | none => acc) acc).map (List.map f) := by
  induction is generalizing acc with
  | nil => rfl
  | cons i is ih =>
    simp only [List.foldl_cons]
    rw [← ih]
    congr 1
    cases r.edges[i]? with
    | none => rfl
    | some e =>
      simp only []
      split
      · rw [jacTerm_hom hf, addOpt_hom hf]
      · rfl

theorem jacLabel_hom (G : Grammar K) (x : Val K) (X l : Nat) :
    jacLabel S' (mapG f G) (mapVal f x) X l = (jacLabel S G x X l).map (List.map f) := by
  unfold jacLabel
  simp only [mapG_rulesOf]
  have key : ∀ (rs : List Rule) (acc : Option (List K)),
      rs.foldl (fun (acc : Option (List K')) r =>
        (List.range r.edges.length).foldl (fun (acc : Option (List K')) i =>
          match r.edges[i]? with
          | some e => if e.1 == l then addOpt S' acc (jacTerm S' (mapG f G) (mapVal f x) r i) else acc
          | none => acc) acc) (acc.map (List.map f)) =
      (rs.foldl (fun (acc : Option (List K)) r =>
        (List.range r.edges.length).foldl (fun (acc : Option (List K)) i =>
          match r.edges[i]? with
          | some e => if e.1 == l then addOpt S acc (jacTerm S G x r i) else acc
          | none => acc) acc) acc).map (List.map f) := by
    intro rs
    induction rs with
    | nil => intro acc; rfl
    | cons r rs ih =>
      intro acc
      simp only [List.foldl_cons]
      rw [jacInner_hom hf, ih]
  exact key _ none

/-! ### `linear` -/

/-- how `linearParts`' result is mapped -/
def mapParts (f : K → K') (p : List (Nat × Option (List K)) × List ((Nat × Nat) × Option (List K))) :
    List (Nat × Option (List K')) × List ((Nat × Nat) × Option (List K')) :=
  (p.1.map (fun q => (q.1, mapOT f q.2)), p.2.map (fun q => (q.1, mapOT f q.2)))

omit hf in
theorem restrict_hom (n : Nat) (x : Val K) (comp : List Nat) :
    (List.range n).map (fun X => if comp.contains X then none else (mapVal f x)[X]?.join) =
      mapVal f ((List.range n).map (fun X => if comp.contains X then none else x[X]?.join)) := by
  conv_rhs => unfold mapVal
  rw [List.map_map]
  apply List.map_congr_left
  intro X _
  simp only [Function.comp_def, mapVal_get_join]
  split <;> rfl

theorem foldl_f0_hom (G : Grammar K) (x : Val K) (comp : List Nat) (rs : List Rule) (acc : Option (List K)) :
    rs.foldl (fun (acc : Option (List K')) r =>
        if (compEdges G comp r).length == 0 then
          addOpt S' acc (Impl.sumProductEdges S' (mapG f G) (mapVal f x) r.nodes r.edges r.ext) else acc)
        (acc.map (List.map f)) =
      (rs.foldl (fun (acc : Option (List K)) r =>
        if (compEdges G comp r).length == 0 then
          addOpt S acc (Impl.sumProductEdges S G x r.nodes r.edges r.ext) else acc) acc).map (List.map f) := by
  induction rs generalizing acc with
  | nil => rfl
  | cons r rs ih =>
    simp only [List.foldl_cons]
    rw [← ih]
    congr 1
    split
    · rw [sumProductEdges_hom hf, addOpt_hom hf]
    · rfl

omit hf in
/-- the ValueError test of `linear` (independent of the values) -/
def linCond (G : Grammar K) (comp : List Nat) : Bool :=
  comp.any (fun X => (G.rulesOf X).any (fun r => decide ((compEdges G comp r).length ≥ 2)))

omit hf in
theorem linearParts_eq (S : SR K) (G : Grammar K) (x : Val K) (comp : List Nat) :
    linearParts S G x comp =
      if linCond G comp then Except.error "ValueError"
      else Except.ok
        (comp.map (fun X => (X, (G.rulesOf X).foldl (fun (acc : Option (List K)) r =>
          if (compEdges G comp r).length == 0 then
            addOpt S acc (Impl.sumProductEdges S G
              ((List.range G.nts.length).map (fun X => if comp.contains X then none else x[X]?.join))
              r.nodes r.edges r.ext) else acc) none)),
         comp.flatMap (fun X => comp.map (fun Y => ((X, Y), jacLabel S G
            ((List.range G.nts.length).map (fun X => if comp.contains X then none else x[X]?.join)) X (G.T + Y))))) := rfl

omit hf in
theorem linCond_mapG (G : Grammar K) (comp : List Nat) : linCond (mapG f G) comp = linCond G comp := rfl

theorem linearParts_hom (G : Grammar K) (x : Val K) (comp : List Nat) :
    linearParts S' (mapG f G) (mapVal f x) comp = (linearParts S G x comp).map (mapParts f) := by
  rw [linearParts_eq, linearParts_eq, linCond_mapG]
  cases linCond G comp
  swap
  · rfl
  · simp only [Bool.false_eq_true, if_false, Except.map, mapParts, mapOT, mapG_nts, mapG_rulesOf, mapG_compEdges, mapG_T]
    rw [restrict_hom]
    congr 2
    · rw [List.map_map]
      apply List.map_congr_left
      intro X _
      simp only [Function.comp_def]
      congr 1
      exact foldl_f0_hom hf G _ comp _ none
    · rw [List.map_flatMap]
      congr 1
      funext X
      rw [List.map_map]
      apply List.map_congr_left
      intro Y _
      simp only [Function.comp_def]
      rw [jacLabel_hom hf]

theorem linearSystem_hom (G : Grammar K) (comp : List Nat)
    (f0 : List (Nat × Option (List K))) (j0 : List ((Nat × Nat) × Option (List K))) :
    linearSystem S' (mapG f G) comp (f0.map (fun q => (q.1, mapOT f q.2))) (j0.map (fun q => (q.1, mapOT f q.2))) =
      ((linearSystem S G comp f0 j0).1.map (List.map f), (linearSystem S G comp f0 j0).2.map f) := by
  unfold linearSystem
  simp only [mapG_compCells, mapG_nts, mapG_shapeOf, lookup_map_snd, join_map_mapOT, List.map_map]
  congr 1
  · apply List.map_congr_left
    intro p _
    simp only [Function.comp_def, List.map_map]
    apply List.map_congr_left
    intro q _
    cases (List.lookup (p.1, q.1) j0).join with
    | none => exact hf.zero.symm
    | some t => exact getD_hom hf t _
  · apply List.map_congr_left
    intro p _
    simp only [Function.comp_def]
    cases (List.lookup p.1 f0).join with
    | none => exact hf.zero.symm
    | some t => exact getD_hom hf t _

omit hf in
theorem unflatten_hom (G : Grammar K) (comp : List Nat) (sol : List K) :
    unflatten (mapG f G) comp (sol.map f) = mapVal f (unflatten G comp sol) := by
  unfold unflatten
  simp only [mapG_compCells, mapG_nts]
  conv_rhs => unfold mapVal
  rw [List.map_map]
  apply List.map_congr_left
  intro X _
  simp only [Function.comp_def]
  split
  · simp only [Option.map_some]
    congr 1
    exact zip_filter_map_snd f (fun c : Nat × Nat => c.1 == X) _ sol
  · rfl

omit hf in
theorem linearSolve_eq_unflatten (S : SR K) (star : K → K) (G : Grammar K) (x : Val K) (comp : List Nat) :
    linearSolve S star G x comp =
      (linearParts S G x comp).map (fun p =>
        unflatten G comp (Sv.solveLoop S star (linearSystem S G comp p.1 p.2).1 (linearSystem S G comp p.1 p.2).2)) := by
  unfold linearSolve unflatten
  cases linearParts S G x comp with
  | error e => rfl
  | ok p => rfl

theorem linearSolve_hom (star : K → K) (star' : K' → K') (hs : ∀ a, star' (f a) = f (star a))
    (G : Grammar K) (x : Val K) (comp : List Nat) :
    linearSolve S' star' (mapG f G) (mapVal f x) comp = (linearSolve S star G x comp).map (mapVal f) := by
  rw [linearSolve_eq_unflatten, linearSolve_eq_unflatten, linearParts_hom hf]
  cases linearParts S G x comp with
  | error e => rfl
  | ok p =>
    simp only [Except.map, mapParts]
    rw [linearSystem_hom hf]
    simp only []
    rw [C09b.solveLoop_map_hom S S' f hf star star' hs, unflatten_hom]

/-! ### Newton's method -/

theorem zipComp_hom (op : K → K → K) (op' : K' → K' → K') (hop : ∀ a b, op' (f a) (f b) = f (op a b))
    (G : Grammar K) (comp : List Nat) (a b : Val K) :
    zipComp S' (mapG f G) comp op' (mapVal f a) (mapVal f b) = mapVal f (zipComp S G comp op a b) := by
  unfold zipComp
  simp only [mapG_nts]
  conv_rhs => unfold mapVal
  rw [List.map_map]
  apply List.map_congr_left
  intro X _
  simp only [Function.comp_def]
  split
  · simp only [Option.map_some]
    congr 1
    rw [cellsOf_hom hf, cellsOf_hom hf, List.map_zipWith, List.zipWith_map]
    congr 1
    funext p q
    exact hop p q
  · rfl

theorem jacSystem_hom (G : Grammar K) (x : Val K) (comp : List Nat) (y rhs : Val K) :
    jacSystem S' (mapG f G) (mapVal f x) comp (mapVal f y) (mapVal f rhs) =
      ((jacSystem S G x comp y rhs).1.map (List.map f), (jacSystem S G x comp y rhs).2.map f) := by
  unfold jacSystem
  simp only [mapG_nts, mapG_T]
  rw [overlay_hom, ← linearSystem_hom hf]
  congr 1
  · rw [List.map_map]
    apply List.map_congr_left
    intro X _
    simp only [Function.comp_def, mapOT, Option.map_some, cellsOf_hom hf]
  · rw [List.map_flatMap]
    congr 1
    funext X
    rw [List.map_map]
    apply List.map_congr_left
    intro Y _
    simp only [Function.comp_def]
    rw [jacLabel_hom hf]

end hom

section homb
variable [BEq K] [BEq K'] (hbeq : ∀ a b : K, (a == b) = true ↔ a = b) (hbeq' : ∀ a b : K', (a == b) = true ↔ a = b)
variable {S : SR K} {S' : SR K'} {f : K → K'} (hf : Hom S S' f) (hinj : Function.Injective f)
variable (star : K → K) (star' : K' → K') (hs : ∀ a, star' (f a) = f (star a))
variable (sub maxOp : K → K → K) (sub' maxOp' : K' → K' → K')
variable (hsub : ∀ a b, sub' (f a) (f b) = f (sub a b)) (hmax : ∀ a b, maxOp' (f a) (f b) = f (maxOp a b))
include hbeq hbeq' hf hinj hs hsub hmax

theorem newtonStep_hom (G : Grammar K) (x : Val K) (comp : List Nat) (x0 : Val K) :
    newtonStep S' star' sub' maxOp' (mapG f G) (mapVal f x) comp (mapVal f x0) =
      (mapVal f (newtonStep S star sub maxOp G x comp x0).1, (newtonStep S star sub maxOp G x comp x0).2) := by
  unfold newtonStep
  simp only [compF_hom hf, zipComp_hom hf maxOp maxOp' hmax, zipComp_hom hf sub sub' hsub,
    valEqOn_hom hbeq hbeq' hf hinj, jacSystem_hom hf,
    C09b.solveLoop_map_hom S S' f hf star star' hs, unflatten_hom,
    zipComp_hom hf S.add S'.add (fun a b => (hf.add a b).symm)]

theorem newtonGo_hom (G : Grammar K) (x : Val K) (comp : List Nat) (fuel : Nat) (x0 : Val K) :
    newtonGo S' star' sub' maxOp' (mapG f G) (mapVal f x) comp fuel (mapVal f x0) =
      (mapVal f (newtonGo S star sub maxOp G x comp fuel x0).1, (newtonGo S star sub maxOp G x comp fuel x0).2) := by
  induction fuel generalizing x0 with
  | zero => rfl
  | succ n ih =>
    simp only [newtonGo]
    rw [newtonStep_hom hbeq hbeq' hf hinj star star' hs sub maxOp sub' maxOp' hsub hmax]
    simp only []
    split
    · rfl
    · rw [ih]

theorem newton_hom (G : Grammar K) (x : Val K) (comp : List Nat) (kmax : Nat) :
    newton S' star' sub' maxOp' (mapG f G) (mapVal f x) comp kmax =
      (mapVal f (newton S star sub maxOp G x comp kmax).1, (newton S star sub maxOp G x comp kmax).2) := by
  unfold newton
  simp only [mapG_nts]
  rw [← mapVal_replicate_none f, newtonGo_hom hbeq hbeq' hf hinj star star' hs sub maxOp sub' maxOp' hsub hmax]

end homb

end C11cL
