/-
Helper lemmas for Props/C06t.lean (the sparsity shortcut of `sub` / `div`, model `Bn.shortcut2` of FggsModel/Binary.lean).

* `expandFront_map`, `layout_map`: the layout of a pointwise-mapped operand is the pointwise map of the layout;
* `shortcut_list2`: on flat lists — the second list mapped by `flip`, combined with `op2` at the positions `bs` only,
  where every position outside `bs` holds the (right) identity in the first list, is the cell-by-cell operation `op`.
-/
import FggsModel.Binary
import FggsProofs.Props.C06
import Mathlib.Data.List.Basic

set_option linter.unusedSimpArgs false
set_option linter.unusedVariables false

namespace C06tL
open Fggs Fggs.Ax Fggs.Un Fggs.Bn

theorem expandFront_map (f : Ext → Ext) (phys : List Ext) (newAxes : List (Nat × Nat)) :
    expandFront (phys.map f) newAxes = (expandFront phys newAxes).map f := by
  unfold expandFront
  rw [List.map_flatten, List.map_replicate]

/-- the layout of a pointwise-mapped operand is the pointwise map of the layout -/
theorem layout_map (u : PT) (f : Ext → Ext) (paxes : List (Nat × Nat)) (fs : List Axis) :
    layout { physical := u.physical.map f, paxes := u.paxes, vaxes := u.vaxes, default := f u.default } paxes fs =
      (layout u paxes fs).map f := by
  unfold layout
  simp only []
  rw [expandFront_map, ← C06.dense_map]
  rfl

/-- the sparsity shortcut of a non-commutative operation on flat lists -/
theorem shortcut_list2 (op : Ext → Ext → Ext) (identity : Ext) (flip : Ext → Ext) (op2 : Ext → Ext → Ext)
    (hflip : ∀ a b, op2 (flip b) a = op a b) (hleft : ∀ b, op identity b = flip b)
    (a b : List Ext) (d : Ext) (bs : List Nat) (hlen : a.length = b.length)
    (hun : ∀ k, k < b.length → bs.contains k = false → b[k]? = some identity) :
    (a.map flip).zipIdx.map (fun (p : Ext × Nat) => if bs.contains p.2 then op2 p.1 (b[p.2]?.getD d) else p.1) =
      List.zipWith op b a := by
  apply List.ext_getElem?
  intro k
  rw [List.getElem?_map, List.getElem?_zipIdx, List.getElem?_zipWith, List.getElem?_map]
  by_cases hk : k < a.length
  · have hkb : k < b.length := by omega
    rw [List.getElem?_eq_getElem hk, List.getElem?_eq_getElem hkb]
    simp only [Option.map_some, Nat.zero_add, Option.getD_some]
    cases hc : bs.contains k with
    | true => simp [List.getElem?_eq_getElem hkb, hflip]
    | false =>
      have := hun k hkb hc
      rw [List.getElem?_eq_getElem hkb] at this
      simp only [Option.some.injEq] at this
      simp [this, hleft]
  · have hkb : ¬ k < b.length := by omega
    rw [List.getElem?_eq_none (by omega), List.getElem?_eq_none (by omega)]
    simp

end C06tL
