/-
C09dMainLemmas — helpers for Props/C09d.lean, part 4: the two unifications of `Ps.solve` as instances of `PCtx`
(`relB_eq`, `relA_eq`: the dense matrices handed to `Ms.blockSolve` are the relevant cells of `b.dense` and `a.dense`),
and the result tensor (`final_normOK`, `final_cell`, `final_zero`).
-/
import FggsModel.PatSolve
import FggsProofs.C09dRenameLemmas
import FggsProofs.C09dProjLemmas
import FggsProofs.C09dCtxLemmas
import FggsProofs.C07bCollectLemmas
import FggsProofs.C07bStateLemmas
import Mathlib.Tactic.Linarith
import Mathlib.Data.List.Basic
import Mathlib.Data.List.Nodup

set_option linter.unusedSimpArgs false
set_option linter.unusedVariables false

namespace C09dL
open Fggs Fggs.Ax Fggs.Un Fggs.Sd Fggs.Ps C06b C06dL C07bL

/-! ### a size function from a list of physical axes -/

def szL (L : List (Nat × Nat)) : Nat → Nat := fun v =>
  match L.find? (fun p => p.1 == v) with
  | some p => p.2
  | none => 1

theorem szL_spec {L : List (Nat × Nat)} (hf : ∀ p ∈ L, ∀ q ∈ L, p.1 = q.1 → p.2 = q.2) :
    ∀ q ∈ L, szL L q.1 = q.2 := by
  intro q hq
  unfold szL
  cases hfd : L.find? (fun p => p.1 == q.1) with
  | none =>
    rw [List.find?_eq_none] at hfd
    exact absurd (by simp) (hfd q hq)
  | some p =>
    have hp := List.mem_of_find?_eq_some hfd
    have hpq : p.1 = q.1 := by simpa using List.find?_some hfd
    exact hf p hp q hq hpq

/-! ### what a successful run of `unifyAll` from the empty substitution gives -/

structure RunFacts (ps : List (Axis × Axis)) (n0 : Nat) (st : St) (sz : Nat → Nat) : Prop where
  sized : SizedSt sz st
  no1 : StQ N1 st
  le : n0 ≤ st.next
  sound : ∀ ρ, Sat ρ st.subst → ∀ p ∈ ps, p.1.eval ρ = p.2.eval ρ
  mgu : ∀ ρ, (∀ p ∈ ps, InRange ρ p.1 ∧ InRange ρ p.2) → (∀ p ∈ ps, p.1.eval ρ = p.2.eval ρ) →
    ∃ ρ', Agree n0 ρ ρ' ∧ Sat ρ' st.subst ∧ InRangeS ρ' st.subst

theorem runFacts_of {fuel : Nat} {ps : List (Axis × Axis)} {n0 : Nat} {st : St}
    (h : unifyAll fuel ps ⟨[], n0⟩ = (true, st)) (sz0 : Nat → Nat) (hty : PairsQ (Tp sz0) n0 ps)
    (hnum : ∀ p ∈ ps, p.1.numel = p.2.numel) (hn1 : PairsQ N1 n0 ps) :
    ∃ sz, Agree n0 sz0 sz ∧ RunFacts ps n0 st sz := by
  have hr := runAll_of_unifyAll h
  obtain ⟨sz, hag, hsz⟩ := hr.sized sz0 ⟨stQ_nil _ _, fun p hp => nomatch hp⟩ hty hnum
  refine ⟨sz, hag, hsz, RunAll.no1 hr (stQ_nil _ _) hn1, hr.grows.2, ?_, ?_⟩
  · exact hr.sound (stQ_nil _ _) (fun p hp => ⟨Tp.nz (hty p hp).1, Tp.nz (hty p hp).2⟩)
  · intro ρ hr' heq
    exact hr.mgu (stQ_nil _ _) (fun p hp => ⟨fun q hq => ((hty p hp).1 q hq).1, fun q hq => ((hty p hp).2 q hq).1⟩)
      ρ (fun p hp => nomatch hp) (fun p hp => nomatch hp) hr' heq

theorem unifyAll_single {fuel : Nat} {e f : Axis} {st st' : St} (h : unify fuel e f st = (true, st')) :
    unifyAll fuel [(e, f)] st = (true, st') := by
  rw [unifyAll, h]
  rfl

/-- the bindings of a sized run without axes of size 1 -/
theorem RunFacts.szσ {ps : List (Axis × Axis)} {n0 : Nat} {st : St} {sz : Nat → Nat} (R : RunFacts ps n0 st sz) :
    ∀ p ∈ st.subst, p.2.numel = sz p.1 ∧ ∀ q ∈ p.2.fv, q.2 = sz q.1 ∧ 2 ≤ q.2 := by
  intro p hp
  refine ⟨R.sized.2 p hp, fun q hq => ?_⟩
  have h1 := (R.sized.1 p hp).2 q hq
  have h2 : q.2 ≠ 1 := (R.no1 p hp).2 q hq
  exact ⟨h1.2.1.symm, by have := h1.2.2; omega⟩

/-! ### the Boolean check on a substitution: no identity bound twice, every binding resolved by `FUEL - 2` units -/

def resolvedS (σ : Subst) : Bool :=
  nodupNat (σ.map (·.1)) && σ.all (fun p => Ei.unbound σ (clone σ (FUEL - 2) p.2))

theorem resolvedS_spec {σ : Subst} (h : resolvedS σ = true) : (σ.map (·.1)).Nodup ∧ GoodS σ 3998 := by
  unfold resolvedS at h
  rw [Bool.and_eq_true] at h
  refine ⟨(nodupNat_iff _).1 h.1, ?_⟩
  intro p hp
  have := List.all_eq_true.1 h.2 p hp
  unfold Ei.unbound at this
  rw [List.all_eq_true] at this
  intro q hq
  have := this q hq
  simpa using this

/-! ### the operands and the axis computed by the growth loop -/

structure Ops (a b : PT) (a0 a1 b0 : Axis) (brest : List Axis) (next : Nat) : Prop where
  sa : Struct a
  sb : Struct b
  va : a.vaxes = [a0, a1]
  vb : b.vaxes = b0 :: brest
  sq1 : a0.numel = a1.numel
  sq2 : a0.numel = b0.numel
  pos : ∀ p ∈ a.paxes ++ b.paxes, 0 < p.2
  disj : ∀ p ∈ a.paxes, ∀ q ∈ b.paxes, p.1 ≠ q.1
  below : ∀ p ∈ a.paxes ++ b.paxes, p.1 < next

/-- what the rest of `solve` needs to know about the axis `e` returned by the growth loop -/
structure EOK (b0 e : Axis) (next nx : Nat) : Prop where
  le : next ≤ nx
  lo : ∀ q ∈ e.fv, next ≤ q.1 ∧ q.1 < nx
  big : ∀ q ∈ e.fv, 2 ≤ q.2
  fn : ∀ p ∈ e.fv, ∀ q ∈ e.fv, p.1 = q.1 → p.2 = q.2
  numel : e.numel = b0.numel

theorem mem_firstOcc {es : List Axis} {q : Nat × Nat} : q ∈ firstOcc es ↔ ∃ x ∈ es, q ∈ x.fv := by
  unfold firstOcc
  rw [List.mem_eraseDups, List.mem_flatMap]

theorem mem_firstOcc_one {e : Axis} {q : Nat × Nat} : q ∈ firstOcc [e] ↔ q ∈ e.fv := by
  rw [mem_firstOcc]
  simp

theorem firstOcc_nodup (es : List Axis) : (firstOcc es).Nodup := nodup_eraseDups _

/-- a duplicate-free list of axes inside a list with distinct identities has distinct identities -/
theorem nodup_ids_of_sub {L M : List (Nat × Nat)} (hL : L.Nodup) (hsub : ∀ q ∈ L, q ∈ M) (hM : (M.map (·.1)).Nodup) :
    (L.map (·.1)).Nodup :=
  List.Nodup.map_on (fun p hp q hq e => eq_of_mem_nodup_fst hM (hsub p hp) (hsub q hq) e) hL

theorem nodup_ids_of_fn {L : List (Nat × Nat)} (hL : L.Nodup) (hf : ∀ p ∈ L, ∀ q ∈ L, p.1 = q.1 → p.2 = q.2) :
    (L.map (·.1)).Nodup :=
  List.Nodup.map_on (fun p hp q hq e => Prod.ext e (hf p hp q hq e)) hL

section setting
variable {a b : PT} {a0 a1 b0 e : Axis} {brest : List Axis} {next nx : Nat}

/-- the size function of all the physical axes `solve` starts from -/
def sz0 (a b : PT) (e : Axis) (next nx : Nat) : Nat → Nat := fun v =>
  if v < next then szL (a.paxes ++ b.paxes) v
  else if v < nx then szL e.fv v
  else szL ((firstOcc [e]).map (rp (renOf (firstOcc [e]) nx))) v

theorem Ops.fn_ab (O : Ops a b a0 a1 b0 brest next) :
    ∀ p ∈ a.paxes ++ b.paxes, ∀ q ∈ a.paxes ++ b.paxes, p.1 = q.1 → p.2 = q.2 := by
  intro p hp q hq e
  rcases List.mem_append.1 hp with hp | hp <;> rcases List.mem_append.1 hq with hq | hq
  · rw [eq_of_mem_nodup_fst O.sa.nodup hp hq e]
  · exact absurd e (O.disj p hp q hq)
  · exact absurd e.symm (O.disj q hq p hp)
  · rw [eq_of_mem_nodup_fst O.sb.nodup hp hq e]

theorem Ops.sz_ab (O : Ops a b a0 a1 b0 brest next) {q : Nat × Nat} (hq : q ∈ a.paxes ++ b.paxes) :
    sz0 a b e next nx q.1 = q.2 := by
  unfold sz0
  rw [if_pos (O.below q hq)]
  exact szL_spec O.fn_ab q hq

theorem EOK.sz_e (E : EOK b0 e next nx) {q : Nat × Nat} (hq : q ∈ e.fv) : sz0 a b e next nx q.1 = q.2 := by
  unfold sz0
  have := E.lo q hq
  rw [if_neg (by omega), if_pos this.2]
  exact szL_spec E.fn q hq

theorem EOK.fv_nodup (E : EOK b0 e next nx) : ((firstOcc [e]).map (·.1)).Nodup :=
  nodup_ids_of_fn (firstOcc_nodup _) (fun p hp q hq => E.fn p (mem_firstOcc_one.1 hp) q (mem_firstOcc_one.1 hq))

/-- the renamed copies of the axes of `e` -/
theorem EOK.fv0_mem (E : EOK b0 e next nx) {q : Nat × Nat}
    (hq : q ∈ (firstOcc [e]).map (rp (renOf (firstOcc [e]) nx))) :
    nx ≤ q.1 ∧ q.1 < nx + (firstOcc [e]).length ∧ 2 ≤ q.2 := by
  obtain ⟨k, hk, rfl⟩ := List.mem_map.1 hq
  have := rf_renOf_mem nx (List.mem_map_of_mem (f := (·.1)) hk)
  exact ⟨this.1, this.2, E.big k (mem_firstOcc_one.1 hk)⟩

theorem EOK.fn_fv0 (E : EOK b0 e next nx) :
    ∀ p ∈ (firstOcc [e]).map (rp (renOf (firstOcc [e]) nx)), ∀ q ∈ (firstOcc [e]).map (rp (renOf (firstOcc [e]) nx)),
      p.1 = q.1 → p.2 = q.2 := by
  intro p hp q hq e'
  obtain ⟨k, hk, rfl⟩ := List.mem_map.1 hp
  obtain ⟨l, hl, rfl⟩ := List.mem_map.1 hq
  have := rf_renOf_inj nx (List.mem_map_of_mem (f := (·.1)) hk) (List.mem_map_of_mem (f := (·.1)) hl) e'
  exact E.fn k (mem_firstOcc_one.1 hk) l (mem_firstOcc_one.1 hl) this

theorem EOK.sz_fv0 (E : EOK b0 e next nx) {q : Nat × Nat}
    (hq : q ∈ (firstOcc [e]).map (rp (renOf (firstOcc [e]) nx))) : sz0 a b e next nx q.1 = q.2 := by
  unfold sz0
  have := E.fv0_mem hq
  have hle : next ≤ nx := by
    obtain ⟨k, hk, _⟩ := List.mem_map.1 hq
    have := E.lo k (mem_firstOcc_one.1 hk)
    omega
  rw [if_neg (by omega), if_neg (by omega)]
  exact szL_spec E.fn_fv0 q hq

theorem EOK.fv0_nodup (E : EOK b0 e next nx) :
    (((firstOcc [e]).map (rp (renOf (firstOcc [e]) nx))).map (·.1)).Nodup := by
  rw [List.map_map]
  have : ((fun x : Nat × Nat => x.1) ∘ rp (renOf (firstOcc [e]) nx)) =
      (rf (renOf (firstOcc [e]) nx)) ∘ (fun x : Nat × Nat => x.1) := rfl
  rw [this, ← List.map_map]
  refine List.Nodup.map_on ?_ E.fv_nodup
  intro x hx y hy h
  exact rf_renOf_inj nx hx hy h

theorem Ops.big_ab (O : Ops a b a0 a1 b0 brest next) {q : Nat × Nat} (hq : q ∈ a.paxes ++ b.paxes) : 2 ≤ q.2 := by
  have h0 := O.pos q hq
  have h1 : q.2 ≠ 1 := by
    rcases List.mem_append.1 hq with h | h
    · exact O.sa.no1 q h
    · exact O.sb.no1 q h
  omega

theorem Ops.fvb_sub (O : Ops a b a0 a1 b0 brest next) {q : Nat × Nat} (hq : q ∈ firstOcc brest) : q ∈ b.paxes := by
  obtain ⟨x, hx, hqx⟩ := mem_firstOcc.1 hq
  exact O.sb.fvsub x (by rw [O.vb]; exact List.mem_cons_of_mem _ hx) q hqx

theorem Ops.fvb_nodup (O : Ops a b a0 a1 b0 brest next) : ((firstOcc brest).map (·.1)).Nodup :=
  nodup_ids_of_sub (firstOcc_nodup _) (fun q hq => O.fvb_sub hq) O.sb.nodup

theorem Ops.b0_sub (O : Ops a b a0 a1 b0 brest next) {q : Nat × Nat} (hq : q ∈ b0.fv) : q ∈ b.paxes :=
  O.sb.fvsub b0 (by rw [O.vb]; exact List.mem_cons_self) q hq

theorem Ops.a0_sub (O : Ops a b a0 a1 b0 brest next) {q : Nat × Nat} (hq : q ∈ a0.fv) : q ∈ a.paxes :=
  O.sa.fvsub a0 (by rw [O.va]; simp) q hq

theorem Ops.a1_sub (O : Ops a b a0 a1 b0 brest next) {q : Nat × Nat} (hq : q ∈ a1.fv) : q ∈ a.paxes :=
  O.sa.fvsub a1 (by rw [O.va]; simp) q hq

theorem Ops.tp_ab (O : Ops a b a0 a1 b0 brest next) {n : Nat} (hn : next ≤ n) {q : Nat × Nat}
    (hq : q ∈ a.paxes ++ b.paxes) : Tp (sz0 a b e next nx) n q :=
  ⟨Nat.lt_of_lt_of_le (O.below q hq) hn, O.sz_ab hq, O.pos q hq⟩

theorem EOK.tp_e (E : EOK b0 e next nx) {n : Nat} (hn : nx ≤ n) : AxQ (Tp (sz0 a b e next nx)) n e :=
  fun q hq => ⟨Nat.lt_of_lt_of_le (E.lo q hq).2 hn, E.sz_e hq, by have := E.big q hq; omega⟩

/-- **the unification of `e` with the row axis of `b`** as a context -/
theorem relB_ctx (O : Ops a b a0 a1 b0 brest next) (E : EOK b0 e next nx) (hnx : next ≤ nx) {fuel n2 : Nat} {stb : St}
    (hn2 : nx ≤ n2)
    (hu : unify fuel e b0 ⟨[], n2⟩ = (true, stb)) (hres : resolvedS stb.subst = true) :
    ∃ sz, PCtx b stb.subst (firstOcc [e]) (firstOcc brest) (e :: brest) sz ∧ n2 ≤ stb.next := by
  have hnn : next ≤ n2 := Nat.le_trans hnx hn2
  have htyb0 : AxQ (Tp (sz0 a b e next nx)) n2 b0 :=
    fun q hq => O.tp_ab hnn (List.mem_append_right _ (O.b0_sub hq))
  obtain ⟨sz, hag, R⟩ := runFacts_of (unifyAll_single hu) (sz0 a b e next nx)
    (fun p hp => by
      simp only [List.mem_singleton] at hp; subst hp
      exact ⟨E.tp_e hn2, htyb0⟩)
    (fun p hp => by
      simp only [List.mem_singleton] at hp; subst hp
      exact E.numel)
    (fun p hp => by
      simp only [List.mem_singleton] at hp; subst hp
      refine ⟨fun q hq => ?_, fun q hq => ?_⟩
      · have := E.big q hq
        show q.2 ≠ 1
        omega
      · exact O.sb.no1 q (O.b0_sub hq))
  obtain ⟨hnd, hgood⟩ := resolvedS_spec hres
  have hszA : ∀ q ∈ b.paxes ++ (firstOcc [e] ++ firstOcc brest), q.2 = sz q.1 ∧ 2 ≤ q.2 := by
    intro q hq
    rcases List.mem_append.1 hq with h | h
    · have h' : q ∈ a.paxes ++ b.paxes := List.mem_append_right _ h
      refine ⟨?_, O.big_ab h'⟩
      rw [hag q.1 (Nat.lt_of_lt_of_le (O.below q h') hnn)]
      exact (O.sz_ab h').symm
    · rcases List.mem_append.1 h with h | h
      · have h' := mem_firstOcc_one.1 h
        refine ⟨?_, E.big q h'⟩
        rw [hag q.1 (Nat.lt_of_lt_of_le (E.lo q h').2 hn2)]
        exact (E.sz_e h').symm
      · have h' : q ∈ a.paxes ++ b.paxes := List.mem_append_right _ (O.fvb_sub h)
        refine ⟨?_, O.big_ab h'⟩
        rw [hag q.1 (Nat.lt_of_lt_of_le (O.below q h') hnn)]
        exact (O.sz_ab h').symm
  refine ⟨sz, ?_, R.le⟩
  refine ⟨O.sb, hszA, R.szσ, hnd, hgood, ?_, ?_, ?_, ?_, ?_, ?_⟩
  · -- distinct identities of the row and column axes
    rw [List.map_append, List.nodup_append]
    refine ⟨E.fv_nodup, O.fvb_nodup, ?_⟩
    intro x hx y hy exy
    obtain ⟨p, hp, rfl⟩ := List.mem_map.1 hx
    obtain ⟨q, hq, rfl⟩ := List.mem_map.1 hy
    have h1 := (E.lo p (mem_firstOcc_one.1 hp)).1
    have h2 := O.below q (List.mem_append_right _ (O.fvb_sub hq))
    have : p.1 = q.1 := exy
    omega
  · intro x hx q hq
    rcases List.mem_cons.1 hx with rfl | hx
    · exact List.mem_append_left _ (mem_firstOcc_one.2 hq)
    · exact List.mem_append_right _ (mem_firstOcc.2 ⟨x, hx, hq⟩)
  · intro q hq
    rcases List.mem_append.1 hq with h | h
    · exact ⟨e, by simp, mem_firstOcc_one.1 h⟩
    · obtain ⟨x, hx, hqx⟩ := mem_firstOcc.1 h
      exact ⟨x, List.mem_cons_of_mem _ hx, hqx⟩
  · show (e :: brest).map Axis.numel = b.vaxes.map Axis.numel
    rw [O.vb, List.map_cons, List.map_cons, E.numel]
  · intro ρ hs
    rw [O.vb, List.map_cons, List.map_cons, R.sound ρ hs (e, b0) (by simp)]
  · intro τ ρ hτ hρ heq
    rw [O.vb, List.map_cons, List.map_cons] at heq
    have he0 : b0.eval τ = e.eval ρ := List.head_eq_of_cons_eq heq
    have her : brest.map (Axis.eval τ) = brest.map (Axis.eval ρ) := List.tail_eq_of_cons_eq heq
    have hagree : ∀ q ∈ firstOcc brest, τ q.1 = ρ q.1 := by
      intro q hq
      obtain ⟨x, hx, hqx⟩ := mem_firstOcc.1 hq
      have hxe : x.eval τ = x.eval ρ := List.map_inj_left.1 her x hx
      exact eval_inj τ ρ x
        (fun k hk => hτ k (O.fvb_sub (mem_firstOcc.2 ⟨x, hx, hk⟩)))
        (fun k hk => hρ k (List.mem_append_right _ (mem_firstOcc.2 ⟨x, hx, hk⟩))) hxe q hqx
    -- the joint assignment
    have hρ0 : ∀ q ∈ b.paxes, (fun v => if v ∈ b.paxes.map (·.1) then τ v else ρ v) q.1 = τ q.1 := by
      intro q hq
      show (if q.1 ∈ b.paxes.map (·.1) then τ q.1 else ρ q.1) = τ q.1
      rw [if_pos (List.mem_map_of_mem hq)]
    have hρ1 : ∀ q ∈ firstOcc [e] ++ firstOcc brest,
        (fun v => if v ∈ b.paxes.map (·.1) then τ v else ρ v) q.1 = ρ q.1 := by
      intro q hq
      show (if q.1 ∈ b.paxes.map (·.1) then τ q.1 else ρ q.1) = ρ q.1
      rcases List.mem_append.1 hq with h | h
      · rw [if_neg]
        intro hm
        obtain ⟨k, hk, ek⟩ := List.mem_map.1 hm
        have h1 := (E.lo q (mem_firstOcc_one.1 h)).1
        have h2 := O.below k (List.mem_append_right _ hk)
        have : k.1 = q.1 := ek
        omega
      · rw [if_pos (List.mem_map_of_mem (O.fvb_sub h))]
        exact hagree q h
    obtain ⟨ρ', ag, hs', hrs'⟩ := R.mgu (fun v => if v ∈ b.paxes.map (·.1) then τ v else ρ v)
      (fun p hp => by
        simp only [List.mem_singleton] at hp; subst hp
        refine ⟨fun q hq => ?_, fun q hq => ?_⟩
        · rw [hρ1 q (List.mem_append_left _ (mem_firstOcc_one.2 hq))]
          exact hρ q (List.mem_append_left _ (mem_firstOcc_one.2 hq))
        · rw [hρ0 q (O.b0_sub hq)]
          exact hτ q (O.b0_sub hq))
      (fun p hp => by
        simp only [List.mem_singleton] at hp; subst hp
        show e.eval _ = b0.eval _
        rw [eval_congr _ ρ e (fun q hq => hρ1 q (List.mem_append_left _ (mem_firstOcc_one.2 hq))),
          eval_congr _ τ b0 (fun q hq => hρ0 q (O.b0_sub hq))]
        exact he0.symm)
    refine ⟨ρ', ?_, ?_, hs', hrs'⟩
    · intro q hq
      rw [ag q.1 (Nat.lt_of_lt_of_le (O.below q (List.mem_append_right _ hq)) hnn)]
      exact hρ0 q hq
    · intro q hq
      have hlt : q.1 < n2 := (hszA q (List.mem_append_right _ hq)) |> fun _ => by
        rcases List.mem_append.1 hq with h | h
        · exact Nat.lt_of_lt_of_le (E.lo q (mem_firstOcc_one.1 h)).2 hn2
        · exact Nat.lt_of_lt_of_le (O.below q (List.mem_append_right _ (O.fvb_sub h))) hnn
      rw [ag q.1 hlt]
      exact hρ1 q hq

theorem EOK.e0_fv (E : EOK b0 e next nx) {q : Nat × Nat} :
    q ∈ (renameAxis (renOf (firstOcc [e]) nx) e).fv ↔ q ∈ (firstOcc [e]).map (rp (renOf (firstOcc [e]) nx)) := by
  rw [rename_fv, List.mem_map, List.mem_map]
  constructor
  · rintro ⟨k, hk, rfl⟩; exact ⟨k, mem_firstOcc_one.2 hk, rfl⟩
  · rintro ⟨k, hk, rfl⟩; exact ⟨k, mem_firstOcc_one.1 hk, rfl⟩

/-- **the unification of the renamed copy of `e` with the row axis of `a` and of `e` with its column axis** -/
theorem relA_ctx (O : Ops a b a0 a1 b0 brest next) (E : EOK b0 e next nx) (hnx : next ≤ nx) {fuel n3 : Nat} {sta : St}
    (hn3 : nx + (firstOcc [e]).length ≤ n3)
    (hu : unifyAll fuel [(renameAxis (renOf (firstOcc [e]) nx) e, a0), (e, a1)] ⟨[], n3⟩ = (true, sta))
    (hres : resolvedS sta.subst = true) :
    ∃ sz, PCtx a sta.subst ((firstOcc [e]).map (rp (renOf (firstOcc [e]) nx))) (firstOcc [e])
      [renameAxis (renOf (firstOcc [e]) nx) e, e] sz := by
  have hn2 : nx ≤ n3 := by omega
  have hnn : next ≤ n3 := Nat.le_trans hnx hn2
  have htya : ∀ x, (∀ q ∈ x.fv, q ∈ a.paxes) → AxQ (Tp (sz0 a b e next nx)) n3 x :=
    fun x hx q hq => O.tp_ab hnn (List.mem_append_left _ (hx q hq))
  have htye0 : AxQ (Tp (sz0 a b e next nx)) n3 (renameAxis (renOf (firstOcc [e]) nx) e) := by
    intro q hq
    have hq' := E.e0_fv.1 hq
    have := E.fv0_mem hq'
    exact ⟨by omega, E.sz_fv0 hq', by omega⟩
  have hps : ∀ p ∈ [(renameAxis (renOf (firstOcc [e]) nx) e, a0), (e, a1)],
      p = (renameAxis (renOf (firstOcc [e]) nx) e, a0) ∨ p = (e, a1) := by
    intro p hp
    simpa using hp
  obtain ⟨sz, hag, R⟩ := runFacts_of hu (sz0 a b e next nx)
    (fun p hp => by
      rcases hps p hp with rfl | rfl
      · exact ⟨htye0, htya a0 (fun q hq => O.a0_sub hq)⟩
      · exact ⟨E.tp_e hn2, htya a1 (fun q hq => O.a1_sub hq)⟩)
    (fun p hp => by
      rcases hps p hp with rfl | rfl
      · show (renameAxis _ e).numel = a0.numel
        rw [rename_numel, E.numel, O.sq2]
      · show e.numel = a1.numel
        rw [E.numel, ← O.sq2, O.sq1])
    (fun p hp => by
      rcases hps p hp with rfl | rfl
      · refine ⟨fun q hq => ?_, fun q hq => O.sa.no1 q (O.a0_sub hq)⟩
        have := E.fv0_mem (E.e0_fv.1 hq)
        show q.2 ≠ 1
        omega
      · refine ⟨fun q hq => ?_, fun q hq => O.sa.no1 q (O.a1_sub hq)⟩
        have := E.big q hq
        show q.2 ≠ 1
        omega)
  obtain ⟨hnd, hgood⟩ := resolvedS_spec hres
  have hltF : ∀ q ∈ (firstOcc [e]).map (rp (renOf (firstOcc [e]) nx)) ++ firstOcc [e], next ≤ q.1 ∧ q.1 < n3 := by
    intro q hq
    rcases List.mem_append.1 hq with h | h
    · have := E.fv0_mem h; omega
    · have := E.lo q (mem_firstOcc_one.1 h); omega
  have hszA : ∀ q ∈ a.paxes ++ ((firstOcc [e]).map (rp (renOf (firstOcc [e]) nx)) ++ firstOcc [e]),
      q.2 = sz q.1 ∧ 2 ≤ q.2 := by
    intro q hq
    rcases List.mem_append.1 hq with h | h
    · have h' : q ∈ a.paxes ++ b.paxes := List.mem_append_left _ h
      refine ⟨?_, O.big_ab h'⟩
      rw [hag q.1 (Nat.lt_of_lt_of_le (O.below q h') hnn)]
      exact (O.sz_ab h').symm
    · have hlt := (hltF q h).2
      rcases List.mem_append.1 h with h | h
      · refine ⟨?_, (E.fv0_mem h).2.2⟩
        rw [hag q.1 hlt]
        exact (E.sz_fv0 h).symm
      · have h' := mem_firstOcc_one.1 h
        refine ⟨?_, E.big q h'⟩
        rw [hag q.1 hlt]
        exact (E.sz_e h').symm
  refine ⟨sz, ?_⟩
  refine ⟨O.sa, hszA, R.szσ, hnd, hgood, ?_, ?_, ?_, ?_, ?_, ?_⟩
  · rw [List.map_append, List.nodup_append]
    refine ⟨E.fv0_nodup, E.fv_nodup, ?_⟩
    intro x hx y hy exy
    obtain ⟨p, hp, rfl⟩ := List.mem_map.1 hx
    obtain ⟨q, hq, rfl⟩ := List.mem_map.1 hy
    have h1 := (E.fv0_mem hp).1
    have h2 := (E.lo q (mem_firstOcc_one.1 hq)).2
    have : p.1 = q.1 := exy
    omega
  · intro x hx q hq
    simp only [List.mem_cons, List.not_mem_nil, or_false] at hx
    rcases hx with rfl | rfl
    · exact List.mem_append_left _ (E.e0_fv.1 hq)
    · exact List.mem_append_right _ (mem_firstOcc_one.2 hq)
  · intro q hq
    rcases List.mem_append.1 hq with h | h
    · exact ⟨_, by simp, E.e0_fv.2 h⟩
    · exact ⟨e, by simp, mem_firstOcc_one.1 h⟩
  · show [(renameAxis _ e).numel, e.numel] = a.vaxes.map Axis.numel
    rw [O.va, rename_numel, E.numel, ← O.sq2]
    simp only [List.map_cons, List.map_nil]
    rw [← O.sq1]
  · intro ρ hs
    rw [O.va]
    simp only [List.map_cons, List.map_nil]
    have s0 := R.sound ρ hs (renameAxis (renOf (firstOcc [e]) nx) e, a0) (by simp)
    have s1 := R.sound ρ hs (e, a1) (by simp)
    simp only at s0 s1
    rw [s0, s1]
  · intro τ ρ hτ hρ heq
    rw [O.va] at heq
    simp only [List.map_cons, List.map_nil] at heq
    have he0 : a0.eval τ = (renameAxis (renOf (firstOcc [e]) nx) e).eval ρ := List.head_eq_of_cons_eq heq
    have he1 : a1.eval τ = e.eval ρ := List.head_eq_of_cons_eq (List.tail_eq_of_cons_eq heq)
    have hρ0 : ∀ q ∈ a.paxes, (fun v => if v ∈ a.paxes.map (·.1) then τ v else ρ v) q.1 = τ q.1 := by
      intro q hq
      show (if q.1 ∈ a.paxes.map (·.1) then τ q.1 else ρ q.1) = τ q.1
      rw [if_pos (List.mem_map_of_mem hq)]
    have hρ1 : ∀ q ∈ (firstOcc [e]).map (rp (renOf (firstOcc [e]) nx)) ++ firstOcc [e],
        (fun v => if v ∈ a.paxes.map (·.1) then τ v else ρ v) q.1 = ρ q.1 := by
      intro q hq
      show (if q.1 ∈ a.paxes.map (·.1) then τ q.1 else ρ q.1) = ρ q.1
      rw [if_neg]
      intro hm
      obtain ⟨k, hk, ek⟩ := List.mem_map.1 hm
      have h1 := (hltF q hq).1
      have h2 := O.below k (List.mem_append_left _ hk)
      have : k.1 = q.1 := ek
      omega
    have hin : ∀ x, (∀ q ∈ x.fv, q ∈ a.paxes) →
        InRange (fun v => if v ∈ a.paxes.map (·.1) then τ v else ρ v) x ∧
        x.eval (fun v => if v ∈ a.paxes.map (·.1) then τ v else ρ v) = x.eval τ := by
      intro x hx
      refine ⟨fun q hq => ?_, eval_congr _ τ x (fun q hq => hρ0 q (hx q hq))⟩
      rw [hρ0 q (hx q hq)]; exact hτ q (hx q hq)
    have hinF : ∀ x, (∀ q ∈ x.fv, q ∈ (firstOcc [e]).map (rp (renOf (firstOcc [e]) nx)) ++ firstOcc [e]) →
        InRange (fun v => if v ∈ a.paxes.map (·.1) then τ v else ρ v) x ∧
        x.eval (fun v => if v ∈ a.paxes.map (·.1) then τ v else ρ v) = x.eval ρ := by
      intro x hx
      refine ⟨fun q hq => ?_, eval_congr _ ρ x (fun q hq => hρ1 q (hx q hq))⟩
      rw [hρ1 q (hx q hq)]; exact hρ q (hx q hq)
    have hxe0 := hinF (renameAxis (renOf (firstOcc [e]) nx) e) (fun q hq => List.mem_append_left _ (E.e0_fv.1 hq))
    have hxe := hinF e (fun q hq => List.mem_append_right _ (mem_firstOcc_one.2 hq))
    have hxa0 := hin a0 (fun q hq => O.a0_sub hq)
    have hxa1 := hin a1 (fun q hq => O.a1_sub hq)
    obtain ⟨ρ', ag, hs', hrs'⟩ := R.mgu (fun v => if v ∈ a.paxes.map (·.1) then τ v else ρ v)
      (fun p hp => by
        rcases hps p hp with rfl | rfl
        · exact ⟨hxe0.1, hxa0.1⟩
        · exact ⟨hxe.1, hxa1.1⟩)
      (fun p hp => by
        rcases hps p hp with rfl | rfl
        · show (renameAxis _ e).eval _ = a0.eval _
          rw [hxe0.2, hxa0.2]; exact he0.symm
        · show e.eval _ = a1.eval _
          rw [hxe.2, hxa1.2]; exact he1.symm)
    refine ⟨ρ', ?_, ?_, hs', hrs'⟩
    · intro q hq
      rw [ag q.1 (Nat.lt_of_lt_of_le (O.below q (List.mem_append_left _ hq)) hnn)]
      exact hρ0 q hq
    · intro q hq
      rw [ag q.1 (hltF q hq).2]
      exact hρ1 q hq

/-! ### the matrices handed to `Ms.blockSolve` -/

/-- copies of the definitions of Props/C09d.lean (`idxs`, `virt`, `relA`, `relB`) -/
def idxsL (es : List Axis) : List (List Nat) := assigns ((firstOcc es).map (·.2))
def virtL (es : List Axis) (idx : List Nat) : List Nat := es.map (Axis.eval (envOf (firstOcc es) idx))
def relAL (a : PT) (e : Axis) : Ms.Mat Ext :=
  (idxsL [e]).map (fun p => (idxsL [e]).map (fun q => cellOf a (virtL [e] p ++ virtL [e] q)))
def relBL (b : PT) (e : Axis) (brest : List Axis) : Ms.Mat Ext :=
  (idxsL [e]).map (fun p => (idxsL brest).map (fun c => cellOf b (virtL [e] p ++ virtL brest c)))

theorem relB_eq (S : Fggs.Sem.SR Ext) {σ : Subst} {sz : Nat → Nat}
    (C : PCtx b σ (firstOcc [e]) (firstOcc brest) (e :: brest) sz) :
    toMat S (numel ((firstOcc [e]).map (·.2))) (numel ((firstOcc brest).map (·.2)))
      (Bn.normalize (projT b σ (firstOcc [e]) (firstOcc brest))).dense = relBL b e brest := by
  rw [C.toMat_eq S]
  unfold relBL idxsL
  apply List.map_congr_left
  intro i1 h1
  apply List.map_congr_left
  intro i2 h2
  congr 1
  unfold virtL
  simp only [List.map_cons, List.map_nil, List.singleton_append]
  congr 1
  · apply eval_congr
    intro q hq
    exact (env12_left C.ndF h1 h2 q (mem_firstOcc_one.2 hq)).symm
  · apply List.map_congr_left
    intro x hx
    apply eval_congr
    intro q hq
    exact (env12_right C.ndF h1 h2 q (mem_firstOcc.2 ⟨x, hx, hq⟩)).symm

theorem map_rp_snd (ren : List (Nat × Nat)) (L : List (Nat × Nat)) : (L.map (rp ren)).map (·.2) = L.map (·.2) := by
  rw [List.map_map]; rfl

theorem relA_eq (S : Fggs.Sem.SR Ext) {σ : Subst} {sz : Nat → Nat}
    (C : PCtx a σ ((firstOcc [e]).map (rp (renOf (firstOcc [e]) nx))) (firstOcc [e])
      [renameAxis (renOf (firstOcc [e]) nx) e, e] sz) :
    toMat S (numel ((firstOcc [e]).map (·.2))) (numel ((firstOcc [e]).map (·.2)))
      (Bn.normalize (projT a σ ((firstOcc [e]).map (rp (renOf (firstOcc [e]) nx))) (firstOcc [e]))).dense = relAL a e := by
  have h := C.toMat_eq S
  rw [map_rp_snd] at h
  rw [h]
  unfold relAL idxsL
  apply List.map_congr_left
  intro i1 h1
  apply List.map_congr_left
  intro i2 h2
  have h1' : i1 ∈ assigns (((firstOcc [e]).map (rp (renOf (firstOcc [e]) nx))).map (·.2)) := by
    rw [map_rp_snd]; exact h1
  congr 1
  unfold virtL
  simp only [List.map_cons, List.map_nil, List.singleton_append]
  congr 1
  · rw [rename_eval]
    apply eval_congr
    intro q hq
    have hqf : q ∈ firstOcc [e] := mem_firstOcc_one.2 hq
    have : envOf ((firstOcc [e]).map (rp (renOf (firstOcc [e]) nx))) i1 (rf (renOf (firstOcc [e]) nx) q.1) =
        envOf ((firstOcc [e]).map (rp (renOf (firstOcc [e]) nx)) ++ firstOcc [e]) (i1 ++ i2)
          (rf (renOf (firstOcc [e]) nx) q.1) :=
      env12_left C.ndF h1' h2 (rp (renOf (firstOcc [e]) nx) q) (List.mem_map_of_mem hqf)
    show envOf _ _ (rf (renOf (firstOcc [e]) nx) q.1) = _
    rw [← this]
    exact envOf_rename _ q.1 _ i1 (fun k hk ek =>
      rf_renOf_inj nx (List.mem_map_of_mem (f := (·.1)) hk) (List.mem_map_of_mem (f := (·.1)) hqf) ek)
  · congr 1
    apply eval_congr
    intro q hq
    exact (env12_right C.ndF h1' h2 q (mem_firstOcc_one.2 hq)).symm

/-! ### the result tensor -/

/-- the tensor `solve` hands to the constructor at the end -/
def finalT (e : Axis) (brest : List Axis) (nx1 : Nat) (phys : List Ext) (d : Ext) : PT :=
  { physical := phys, paxes := firstOcc [e] ++ (firstOcc brest).map (rp (renOf (firstOcc brest) nx1)),
    vaxes := e :: renameList (renOf (firstOcc brest) nx1) brest, default := d }

theorem fvb0_mem {nx1 : Nat} {q : Nat × Nat} (hq : q ∈ (firstOcc brest).map (rp (renOf (firstOcc brest) nx1))) :
    nx1 ≤ q.1 := by
  obtain ⟨k, hk, rfl⟩ := List.mem_map.1 hq
  exact (rf_renOf_mem nx1 (List.mem_map_of_mem (f := (·.1)) hk)).1

theorem fvb0_nodup (nx1 : Nat) (hnd : ((firstOcc brest).map (·.1)).Nodup) :
    (((firstOcc brest).map (rp (renOf (firstOcc brest) nx1))).map (·.1)).Nodup := by
  rw [List.map_map]
  have : ((fun x : Nat × Nat => x.1) ∘ rp (renOf (firstOcc brest) nx1)) =
      (rf (renOf (firstOcc brest) nx1)) ∘ (fun x : Nat × Nat => x.1) := rfl
  rw [this, ← List.map_map]
  refine List.Nodup.map_on ?_ hnd
  intro x hx y hy h
  exact rf_renOf_inj nx1 hx hy h

theorem final_ndF (O : Ops a b a0 a1 b0 brest next) (E : EOK b0 e next nx) {nx1 : Nat} (h1 : nx ≤ nx1) :
    ((firstOcc [e] ++ (firstOcc brest).map (rp (renOf (firstOcc brest) nx1))).map (·.1)).Nodup := by
  rw [List.map_append, List.nodup_append]
  refine ⟨E.fv_nodup, fvb0_nodup nx1 O.fvb_nodup, ?_⟩
  intro x hx y hy exy
  obtain ⟨p, hp, rfl⟩ := List.mem_map.1 hx
  obtain ⟨q, hq, rfl⟩ := List.mem_map.1 hy
  have h1' := (E.lo p (mem_firstOcc_one.1 hp)).2
  have h2 := fvb0_mem hq
  have : p.1 = q.1 := exy
  omega

theorem mem_renamed_fv {ren : List (Nat × Nat)} {q : Nat × Nat} :
    (∃ x ∈ renameList ren brest, q ∈ x.fv) ↔ q ∈ (firstOcc brest).map (rp ren) := by
  rw [renameList_eq_map]
  constructor
  · rintro ⟨x, hx, hq⟩
    obtain ⟨y, hy, rfl⟩ := List.mem_map.1 hx
    rw [rename_fv] at hq
    obtain ⟨k, hk, rfl⟩ := List.mem_map.1 hq
    exact List.mem_map_of_mem (mem_firstOcc.2 ⟨y, hy, hk⟩)
  · intro h
    obtain ⟨k, hk, rfl⟩ := List.mem_map.1 h
    obtain ⟨y, hy, hky⟩ := mem_firstOcc.1 hk
    exact ⟨renameAxis ren y, List.mem_map_of_mem hy, by rw [rename_fv]; exact List.mem_map_of_mem hky⟩

theorem final_normOK (O : Ops a b a0 a1 b0 brest next) (E : EOK b0 e next nx) {nx1 : Nat} (h1 : nx ≤ nx1)
    (phys : List Ext) (d : Ext)
    (hlen : phys.length = numel ((firstOcc [e]).map (·.2)) * numel ((firstOcc brest).map (·.2))) :
    NormOK (finalT e brest nx1 phys d) where
  len := by
    show phys.length = numel ((firstOcc [e] ++ (firstOcc brest).map (rp (renOf (firstOcc brest) nx1))).map (·.2))
    rw [List.map_append, numel_append, map_rp_snd, hlen]
  nodup := final_ndF O E h1
  fvsub := by
    intro x hx q hq
    rcases List.mem_cons.1 hx with rfl | hx
    · exact List.mem_append_left _ (mem_firstOcc_one.2 hq)
    · exact List.mem_append_right _ (mem_renamed_fv.1 ⟨x, hx, hq⟩)
  occ := by
    intro p hp
    rcases List.mem_append.1 hp with h | h
    · exact ⟨e, List.mem_cons_self, mem_firstOcc_one.1 h⟩
    · obtain ⟨x, hx, hpx⟩ := mem_renamed_fv.2 h
      exact ⟨x, List.mem_cons_of_mem _ hx, hpx⟩
  top := by
    intro g hg
    right
    intro q hq
    rcases List.mem_cons.1 hg with rfl | hg
    · have := E.big q hq; omega
    · have := mem_renamed_fv.1 ⟨g, hg, hq⟩
      obtain ⟨k, hk, rfl⟩ := List.mem_map.1 this
      exact O.sb.no1 k (O.fvb_sub hk)

theorem final_vshape (O : Ops a b a0 a1 b0 brest next) (E : EOK b0 e next nx) (nx1 : Nat) (phys : List Ext) (d : Ext) :
    (finalT e brest nx1 phys d).vshape = b.vshape := by
  unfold finalT PT.vshape
  simp only
  rw [O.vb, List.map_cons, List.map_cons, E.numel, renameList_eq_map, List.map_map]
  congr 1
  apply List.map_congr_left
  intro x _
  exact rename_numel _ x

theorem final_sem (O : Ops a b a0 a1 b0 brest next) (E : EOK b0 e next nx) {nx1 : Nat} (h1 : nx ≤ nx1)
    (phys : List Ext) (d : Ext) : Sem (finalT e brest nx1 phys d) :=
  sem_of_occ (final_ndF O E h1)
    (by
      intro x hx q hq
      rcases List.mem_cons.1 hx with rfl | hx
      · exact List.mem_append_left _ (mem_firstOcc_one.2 hq)
      · exact List.mem_append_right _ (mem_renamed_fv.1 ⟨x, hx, hq⟩))
    (by
      intro p hp
      rcases List.mem_append.1 hp with h | h
      · exact ⟨e, List.mem_cons_self, mem_firstOcc_one.1 h⟩
      · obtain ⟨x, hx, hpx⟩ := mem_renamed_fv.2 h
        exact ⟨x, List.mem_cons_of_mem _ hx, hpx⟩)

/-- the virtual index tuple of the result under an assignment of its physical axes -/
theorem final_vaxes_eval (O : Ops a b a0 a1 b0 brest next) (nx1 : Nat) (phys : List Ext) (d : Ext) (γ : Nat → Nat)
    {i1 i2 : List Nat} (g1 : ∀ q ∈ firstOcc [e], envOf (firstOcc [e]) i1 q.1 = γ q.1)
    (g2 : ∀ q ∈ firstOcc brest, envOf (firstOcc brest) i2 q.1 = γ (rf (renOf (firstOcc brest) nx1) q.1)) :
    (finalT e brest nx1 phys d).vaxes.map (Axis.eval γ) = virtL [e] i1 ++ virtL brest i2 := by
  unfold finalT virtL
  simp only [List.map_cons, List.map_nil, List.singleton_append]
  congr 1
  · apply eval_congr
    intro q hq
    exact (g1 q (mem_firstOcc_one.2 hq)).symm
  · rw [renameList_eq_map, List.map_map]
    apply List.map_congr_left
    intro x hx
    simp only [Function.comp]
    rw [rename_eval]
    apply eval_congr
    intro q hq
    exact (g2 q (mem_firstOcc.2 ⟨x, hx, hq⟩)).symm

/-- **the cells of the result inside the pattern** -/
theorem final_cell (O : Ops a b a0 a1 b0 brest next) (E : EOK b0 e next nx) {nx1 : Nat} (h1 : nx ≤ nx1)
    (phys : List Ext) (d : Ext) {i1 i2 : List Nat} (hi1 : i1 ∈ idxsL [e]) (hi2 : i2 ∈ idxsL brest) :
    cellOf (finalT e brest nx1 phys d) (virtL [e] i1 ++ virtL brest i2) =
      phys[flat ((firstOcc [e]).map (·.2)) i1 * numel ((firstOcc brest).map (·.2)) +
        flat ((firstOcc brest).map (·.2)) i2]?.getD d := by
  have hs := final_sem O E h1 phys d
  have nd := final_ndF O E h1 (nx1 := nx1)
  have hi2' : i2 ∈ assigns (((firstOcc brest).map (rp (renOf (firstOcc brest) nx1))).map (·.2)) := by
    rw [map_rp_snd]; exact hi2
  obtain ⟨hr, hp1, hp2⟩ := env12 nd hi1 hi2'
  have hb : Backs (finalT e brest nx1 phys d) (virtL [e] i1 ++ virtL brest i2)
      (envOf (firstOcc [e] ++ (firstOcc brest).map (rp (renOf (firstOcc brest) nx1))) (i1 ++ i2)) := by
    refine ⟨hr, ?_⟩
    apply final_vaxes_eval O nx1 phys d
    · exact env12_left nd hi1 hi2'
    · intro q hq
      have : envOf ((firstOcc brest).map (rp (renOf (firstOcc brest) nx1))) i2 (rf (renOf (firstOcc brest) nx1) q.1) =
          envOf (firstOcc [e] ++ (firstOcc brest).map (rp (renOf (firstOcc brest) nx1))) (i1 ++ i2)
            (rf (renOf (firstOcc brest) nx1) q.1) :=
        env12_right nd hi1 hi2' (rp (renOf (firstOcc brest) nx1) q) (List.mem_map_of_mem hq)
      show _ = envOf _ _ (rf (renOf (firstOcc brest) nx1) q.1)
      rw [← this]
      exact (envOf_rename _ q.1 _ i2 (fun k hk ek =>
        rf_renOf_inj nx1 (List.mem_map_of_mem (f := (·.1)) hk) (List.mem_map_of_mem (f := (·.1)) hq) ek)).symm
  unfold cellOf
  rw [dense_backed hs hb]
  simp only [Option.getD_some]
  show phys[flat ((firstOcc [e] ++ (firstOcc brest).map (rp (renOf (firstOcc brest) nx1))).map (·.2))
    (pidx (firstOcc [e] ++ (firstOcc brest).map (rp (renOf (firstOcc brest) nx1))) _)]?.getD d = _
  rw [pidx_append, hp1, hp2, List.map_append, map_rp_snd,
    flat_append _ _ _ _ (by rw [mem_assigns_length hi1])]

/-- **the cells of the result outside the pattern hold the default** -/
theorem final_zero (O : Ops a b a0 a1 b0 brest next) (E : EOK b0 e next nx) {nx1 : Nat} (h1 : nx ≤ nx1)
    (phys : List Ext) (d : Ext) {idx : List Nat} (hidx : idx ∈ assigns (finalT e brest nx1 phys d).vshape)
    (hout : ∀ i1 ∈ idxsL [e], ∀ i2 ∈ idxsL brest, idx ≠ virtL [e] i1 ++ virtL brest i2) :
    cellOf (finalT e brest nx1 phys d) idx = d := by
  have hs := final_sem O E h1 phys d
  unfold cellOf
  rw [dense_unbacked hs hidx]
  · rfl
  · intro γ hγ
    have hr1 : ∀ q ∈ firstOcc [e], γ q.1 < q.2 := fun q hq => hγ.1 q (List.mem_append_left _ hq)
    have hr2 : ∀ q ∈ firstOcc brest, (fun v => γ (rf (renOf (firstOcc brest) nx1) v)) q.1 < q.2 :=
      fun q hq => hγ.1 (rp (renOf (firstOcc brest) nx1) q) (List.mem_append_right _ (List.mem_map_of_mem hq))
    refine hout (pidx (firstOcc [e]) γ) (pidx_mem_assigns γ _ hr1)
      (pidx (firstOcc brest) (fun v => γ (rf (renOf (firstOcc brest) nx1) v))) (pidx_mem_assigns _ _ hr2) ?_
    rw [← hγ.2]
    apply final_vaxes_eval O nx1 phys d
    · exact envOf_of_pidx rfl
    · exact envOf_of_pidx rfl

/-- an element of a flattened matrix -/
theorem flatten_getElem {α : Type} (c : Nat) : ∀ (M : List (List α)) (p j : Nat), (∀ r ∈ M, r.length = c) → j < c →
    M.flatten[p * c + j]? = (M[p]?.getD [])[j]?
  | [], p, j, _, _ => by simp
  | r :: M, 0, j, h, hj => by
    have hr := h r (by simp)
    rw [List.flatten_cons, Nat.zero_mul, Nat.zero_add, List.getElem?_append_left (by omega)]
    simp
  | r :: M, p+1, j, h, hj => by
    have hr := h r (by simp)
    rw [List.flatten_cons, List.getElem?_append_right (by rw [hr, Nat.succ_mul]; omega)]
    have : (p + 1) * c + j - r.length = p * c + j := by rw [hr, Nat.succ_mul]; omega
    rw [this, flatten_getElem c M p j (fun r' hr' => h r' (by simp [hr'])) hj]
    simp

theorem flatten_length {α : Type} (c : Nat) : ∀ (M : List (List α)), (∀ r ∈ M, r.length = c) →
    M.flatten.length = M.length * c
  | [], _ => by simp
  | r :: M, h => by
    rw [List.flatten_cons, List.length_append, h r (by simp), flatten_length c M (fun r' hr' => h r' (by simp [hr'])),
      List.length_cons, Nat.succ_mul, Nat.add_comm]

end setting

end C09dL
