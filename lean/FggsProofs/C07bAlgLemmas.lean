/-
C07bAlgLemmas — semiring sums over index lists (re-indexing along an injection, dropping zero summands) and
list facts (`eraseDups`, `assigns` of an appended shape) used by C07b.
-/
import FggsModel.Sem
import FggsModel.Axis
import FggsProofs.Props.C01
import FggsProofs.Props.C12
import FggsProofs.C06dBaseLemmas
import Mathlib.Data.List.Basic
import Mathlib.Data.List.Nodup
import Mathlib.Data.List.Perm.Basic
import Mathlib.Data.List.Pairwise
import Mathlib.Data.List.Forall2

set_option linter.unusedSimpArgs false
set_option linter.unusedVariables false

namespace C07bL
open Fggs Fggs.Sem

variable {K : Type}

/-! ### sums -/

theorem foldl_add (S : SR K) (hS : C01.SRLaws S) (l : List K) (a : K) :
    l.foldl S.add a = S.add a (S.sum l) := by
  induction l generalizing a with
  | nil => simp [SR.sum]; rw [hS.add_comm, hS.zero_add]
  | cons b l ih =>
    simp only [SR.sum, List.foldl_cons]
    rw [ih, ih (S.add S.zero b), hS.zero_add, hS.add_assoc]

theorem sum_cons (S : SR K) (hS : C01.SRLaws S) (a : K) (l : List K) :
    S.sum (a :: l) = S.add a (S.sum l) := by
  show (a :: l).foldl S.add S.zero = _
  rw [List.foldl_cons, foldl_add S hS, hS.zero_add]

theorem foldl_mul (S : SR K) (hS : C01.SRLaws S) (l : List K) (c : K) :
    l.foldl S.mul c = S.mul c (S.prod l) := by
  induction l generalizing c with
  | nil => simp [SR.prod]; rw [hS.mul_comm, hS.one_mul]
  | cons b l ih =>
    simp only [SR.prod, List.foldl_cons]
    rw [ih, ih (S.mul S.one b), hS.one_mul, hS.mul_assoc]

theorem prod_cons (S : SR K) (hS : C01.SRLaws S) (a : K) (l : List K) :
    S.prod (a :: l) = S.mul a (S.prod l) := by
  show (a :: l).foldl S.mul S.one = _
  rw [List.foldl_cons, foldl_mul S hS, hS.one_mul]

theorem sum_all_zero (S : SR K) (hS : C01.SRLaws S) (l : List K) (h : ∀ x ∈ l, x = S.zero) :
    S.sum l = S.zero := by
  induction l with
  | nil => rfl
  | cons a l ih =>
    rw [sum_cons S hS, h a (List.mem_cons_self ..), hS.zero_add]
    exact ih (fun x hx => h x (List.mem_cons_of_mem _ hx))

theorem prod_zero_of_mem (S : SR K) (hS : C01.SRLaws S) (l : List K) (h : S.zero ∈ l) :
    S.prod l = S.zero := by
  induction l with
  | nil => simp at h
  | cons a l ih =>
    rw [prod_cons S hS]
    rcases List.mem_cons.1 h with h | h
    · rw [← h, hS.zero_mul]
    · rw [ih h, hS.mul_comm, hS.zero_mul]

/-- summands that are zero may be dropped -/
theorem sum_filter_of_zero (S : SR K) (hS : C01.SRLaws S) {α : Type} (l : List α) (p : α → Bool) (g : α → K)
    (h : ∀ a ∈ l, p a = false → g a = S.zero) : S.sum (l.map g) = S.sum ((l.filter p).map g) := by
  induction l with
  | nil => rfl
  | cons a l ih =>
    have ih' := ih (fun x hx => h x (List.mem_cons_of_mem _ hx))
    rw [List.map_cons, sum_cons S hS, List.filter_cons]
    cases hp : p a with
    | true => simp only [if_true, List.map_cons]; rw [sum_cons S hS, ih']
    | false =>
      simp only [Bool.false_eq_true, if_false]
      rw [h a (List.mem_cons_self ..) hp, hS.zero_add, ih']

/-- **re-indexing a sum along an injection**: `f` maps the index list `B` injectively into `A`, the summands
correspond, and every summand of `A` outside the image is zero -/
theorem sum_reindex (S : SR K) (hS : C01.SRLaws S) {α β : Type} (A : List α) (B : List β) (f : β → α)
    (g : α → K) (h : β → K) (hA : A.Nodup) (hB : B.Nodup) (hf : ∀ b ∈ B, f b ∈ A)
    (hinj : ∀ b ∈ B, ∀ b' ∈ B, f b = f b' → b = b') (hgh : ∀ b ∈ B, g (f b) = h b)
    (hz : ∀ a ∈ A, g a ≠ S.zero → ∃ b ∈ B, f b = a) : S.sum (A.map g) = S.sum (B.map h) := by
  classical
  let p : α → Bool := fun a => decide (∃ b ∈ B, f b = a)
  have h1 : S.sum (A.map g) = S.sum ((A.filter p).map g) := by
    apply sum_filter_of_zero S hS
    intro a ha hp
    by_contra hne
    have := hz a ha hne
    simp only [p, decide_eq_false_iff_not] at hp
    exact hp this
  have h2 : (A.filter p).Perm (B.map f) := by
    rw [List.perm_ext_iff_of_nodup (hA.filter _) (List.Nodup.map_on hinj hB)]
    intro a
    simp only [List.mem_filter, List.mem_map, p, decide_eq_true_eq]
    constructor
    · rintro ⟨_, b, hb, rfl⟩; exact ⟨b, hb, rfl⟩
    · rintro ⟨b, hb, rfl⟩; exact ⟨hf b hb, b, hb, rfl⟩
  rw [h1, C12.sum_perm S hS _ _ (h2.map g), List.map_map]
  congr 1
  apply List.map_congr_left
  intro b hb
  exact hgh b hb

/-! ### `eraseDups` -/

theorem nodup_eraseDups {α : Type} [BEq α] [LawfulBEq α] : ∀ (l : List α), l.eraseDups.Nodup := by
  intro l
  induction h : l.length using Nat.strong_induction_on generalizing l with
  | _ n ih =>
    cases l with
    | nil => simp
    | cons a as =>
      rw [List.eraseDups_cons, List.nodup_cons]
      refine ⟨?_, ?_⟩
      · rw [List.mem_eraseDups, List.mem_filter]
        simp
      · refine ih (as.filter (fun b => !b == a)).length ?_ _ rfl
        rw [← h, List.length_cons]
        exact Nat.lt_succ_of_le (List.length_filter_le _ _)

/-- pairs `(identity, size)` whose sizes are given by a function have distinct identities once duplicates are removed -/
theorem nodup_fst_eraseDups (sz : Nat → Nat) (l : List (Nat × Nat)) (h : ∀ q ∈ l, sz q.1 = q.2) :
    (l.eraseDups.map (·.1)).Nodup := by
  refine List.Nodup.map_on ?_ (nodup_eraseDups l)
  intro x hx y hy e
  rw [List.mem_eraseDups] at hx hy
  have h1 := h x hx
  have h2 := h y hy
  rw [e] at h1
  exact Prod.ext e (by rw [← h1, ← h2])

/-! ### the two copies of `assigns` / `flat` / `numel` -/

theorem assigns_eq : ∀ (s : List Nat), Ax.assigns s = Sem.assigns s
  | [] => rfl
  | n :: rest => by rw [Ax.assigns, Sem.assigns, assigns_eq rest]

theorem numel_eq (s : List Nat) : Ax.numel s = Sem.numel s := rfl

theorem flat_eq : ∀ (s c : List Nat), Ax.flat s c = Sem.flat s c
  | [], _ => by rw [Ax.flat, Sem.flat] <;> simp
  | _ :: _, [] => by rw [Ax.flat, Sem.flat] <;> simp
  | _ :: ss, i :: is => by rw [Ax.flat, Sem.flat, flat_eq ss is, numel_eq]

/-! ### index tuples of an appended shape -/

open C06dL in
theorem mem_assigns_append {s1 s2 a b : List Nat} (ha : a ∈ Ax.assigns s1) (hb : b ∈ Ax.assigns s2) :
    a ++ b ∈ Ax.assigns (s1 ++ s2) := by
  rw [mem_assigns_iff] at ha hb ⊢
  exact List.rel_append ha hb

open C06dL in
theorem mem_assigns_split {s1 s2 w : List Nat} (hw : w ∈ Ax.assigns (s1 ++ s2)) :
    w.take s1.length ∈ Ax.assigns s1 ∧ w.drop s1.length ∈ Ax.assigns s2 := by
  rw [mem_assigns_iff] at hw
  have h1 := List.forall₂_take s1.length hw
  have h2 := List.forall₂_drop s1.length hw
  rw [List.take_left' rfl] at h1
  rw [List.drop_left' rfl] at h2
  exact ⟨(mem_assigns_iff _ _).2 h1, (mem_assigns_iff _ _).2 h2⟩

end C07bL
