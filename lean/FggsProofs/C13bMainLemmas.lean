/-
C13bMainLemmas — the overlap that `Eq.compareImpl` enumerates (assignments of the free physical axes under the
substitution found by unifying the virtual axes of the two operands) is exactly the set of pairs of flat positions of
the two physical tensors that back the same cell, each pair once.

* soundness (`C06b.RunAll.sound`) through the lift of an assignment of the free axes (`C07bL.lift_sat`): every pair
  enumerated backs one cell;
* most-generality (`C06b.unifyAll_mgu`): every pair backing one cell is enumerated;
* injectivity of the axes' index maps (`C06dL.eval_inj`): no pair is enumerated twice, and both operands have the same
  free axes (so `projectOnto` does not raise).
-/
import FggsModel.EqualImpl
import FggsProofs.C06bLemmas
import FggsProofs.C06dBaseLemmas
import FggsProofs.C07bCloneLemmas
import FggsProofs.C07eStrideLemmas
import FggsProofs.C13bCombLemmas
import FggsProofs.C13bKeysLemmas
import FggsProofs.C13bSizeLemmas
import Mathlib.Tactic.Linarith
import Mathlib.Data.List.Basic
import Mathlib.Data.List.Nodup

set_option linter.unusedSimpArgs false
set_option linter.unusedVariables false

namespace C13bL
open Fggs Fggs.Ax Fggs.Un Fggs.Sd Fggs.Eq C06b C06dL C07bL

/-! ### small list facts -/

theorem find?_of_nodup {l : List (Nat × Nat)} (hn : (l.map (·.1)).Nodup) {p : Nat × Nat} (hp : p ∈ l) :
    l.find? (·.1 == p.1) = some p := by
  cases hf : l.find? (·.1 == p.1) with
  | none =>
    rw [List.find?_eq_none] at hf
    exact absurd (by simp) (hf p hp)
  | some q =>
    have hq := List.mem_of_find?_eq_some hf
    have hk : q.1 = p.1 := by simpa using List.find?_some hf
    rw [List.inj_on_of_nodup_map hn hq hp hk]

theorem zip_map_eq {α β : Type} (f : α → β) : ∀ (l1 l2 : List α), l1.map f = l2.map f →
    ∀ p ∈ l1.zip l2, f p.1 = f p.2
  | [], _, _, p, hp => by simp at hp
  | _ :: _, [], _, p, hp => by simp at hp
  | a :: l1, b :: l2, h, p, hp => by
    simp only [List.map_cons, List.cons.injEq] at h
    simp only [List.zip_cons_cons, List.mem_cons] at hp
    rcases hp with rfl | hp
    · exact h.1
    · exact zip_map_eq f l1 l2 h.2 p hp

theorem map_eq_of_zip {α β : Type} (f g : α → β) : ∀ (l1 l2 : List α), l1.length = l2.length →
    (∀ p ∈ l1.zip l2, f p.1 = g p.2) → l1.map f = l2.map g
  | [], [], _, _ => rfl
  | [], _ :: _, h, _ => by simp at h
  | _ :: _, [], h, _ => by simp at h
  | a :: l1, b :: l2, h, hp => by
    rw [List.map_cons, List.map_cons, hp (a, b) (by simp),
      map_eq_of_zip f g l1 l2 (by simpa using h) (fun p hp' => hp p (by simp [hp']))]

/-! ### the cells of a patterned tensor by flat position -/

theorem cells_length (T : PT) : T.cells.length = numel (T.paxes.map (·.2)) := by
  unfold PT.cells
  rw [List.length_map, List.length_zipIdx, length_assigns]

theorem cells_getElem? (T : PT) (i : Nat) :
    T.cells[i]? = ((assigns (T.paxes.map (·.2)))[i]?).map (fun idx =>
      (T.vaxes.map (Axis.eval (envOf T.paxes idx)), T.physical[i]?.getD T.default)) := by
  unfold PT.cells
  rw [List.getElem?_map, List.getElem?_zipIdx]
  cases (assigns (T.paxes.map (·.2)))[i]? <;> simp

/-- the cell at the flat position of an index tuple -/
theorem cells_at_flat (T : PT) {idx : List Nat} (h : idx ∈ assigns (T.paxes.map (·.2))) :
    T.cells[flat (T.paxes.map (·.2)) idx]? =
      some (T.vaxes.map (Axis.eval (envOf T.paxes idx)),
        T.physical[flat (T.paxes.map (·.2)) idx]?.getD T.default) := by
  rw [cells_getElem?, getElem_flat h]; rfl

theorem cells_map_snd (T : PT) (hl : T.physical.length = numel (T.paxes.map (·.2))) :
    T.cells.map (·.2) = T.physical := by
  apply List.ext_getElem?
  intro i
  rw [List.getElem?_map, cells_getElem?]
  by_cases hi : i < numel (T.paxes.map (·.2))
  · have h1 : i < (assigns (T.paxes.map (·.2))).length := by rw [length_assigns]; exact hi
    have h2 : i < T.physical.length := by rw [hl]; exact hi
    rw [List.getElem?_eq_getElem h1, List.getElem?_eq_getElem h2]
    simp
  · have h1 : (assigns (T.paxes.map (·.2))).length ≤ i := by rw [length_assigns]; omega
    have h2 : T.physical.length ≤ i := by rw [hl]; omega
    rw [List.getElem?_eq_none h1, List.getElem?_eq_none h2]
    simp

/-! ### the operands and the successful unification -/

/-- the physical axis `k` as an axis -/
abbrev pax (k : Nat × Nat) : Axis := .phys k.1 k.2

/-- the clone of a physical axis -/
def cl (σ : Subst) (k : Nat × Nat) : Axis := clone σ FUEL (.phys k.1 k.2)

/-- the operands of `equal` (the structural part of `wf`, positive sizes, disjoint identities below the counter) -/
structure Ops (t u : PT) (next : Nat) : Prop where
  st : Struct t
  su : Struct u
  post : ∀ p ∈ t.paxes, 0 < p.2
  posu : ∀ p ∈ u.paxes, 0 < p.2
  disj : ∀ p ∈ t.paxes, ∀ q ∈ u.paxes, p.1 ≠ q.1
  below : ∀ p ∈ t.paxes ++ u.paxes, p.1 < next

/-- the size function of the operands' physical axes -/
def sz0 (t u : PT) : Nat → Nat := fun v =>
  match (t.paxes ++ u.paxes).find? (·.1 == v) with
  | some p => p.2
  | none => 0

theorem Ops.nodup {t u : PT} {next : Nat} (h : Ops t u next) : ((t.paxes ++ u.paxes).map (·.1)).Nodup := by
  rw [List.map_append, List.nodup_append]
  refine ⟨h.st.nodup, h.su.nodup, ?_⟩
  intro a ha b hb
  obtain ⟨p, hp, rfl⟩ := List.mem_map.1 ha
  obtain ⟨q, hq, rfl⟩ := List.mem_map.1 hb
  exact h.disj p hp q hq

theorem sz0_eq {t u : PT} {next : Nat} (h : Ops t u next) {p : Nat × Nat} (hp : p ∈ t.paxes ++ u.paxes) :
    sz0 t u p.1 = p.2 := by
  unfold sz0
  rw [find?_of_nodup h.nodup hp]

theorem Ops.pos {t u : PT} {next : Nat} (h : Ops t u next) {p : Nat × Nat} (hp : p ∈ t.paxes ++ u.paxes) :
    0 < p.2 := by
  rcases List.mem_append.1 hp with hp | hp
  · exact h.post p hp
  · exact h.posu p hp

theorem Ops.no1 {t u : PT} {next : Nat} (h : Ops t u next) {p : Nat × Nat} (hp : p ∈ t.paxes ++ u.paxes) :
    p.2 ≠ 1 := by
  rcases List.mem_append.1 hp with hp | hp
  · exact h.st.no1 p hp
  · exact h.su.no1 p hp

/-- everything the proof uses about a successful, fully resolved unification of the virtual axes -/
structure Succ (t u : PT) (next : Nat) (st : St) (sz : Nat → Nat) : Prop where
  sized : SizedSt sz st
  le : next ≤ st.next
  szt : ∀ k ∈ t.paxes ++ u.paxes, sz k.1 = k.2
  sound : ∀ τ, Sat τ st.subst → t.vaxes.map (Axis.eval τ) = u.vaxes.map (Axis.eval τ)
  mgu : ∀ ρ : Nat → Nat, (∀ e ∈ t.vaxes, InRange ρ e) → (∀ f ∈ u.vaxes, InRange ρ f) →
    t.vaxes.map (Axis.eval ρ) = u.vaxes.map (Axis.eval ρ) →
    ∃ ρ', (∀ v < next, ρ' v = ρ v) ∧ Sat ρ' st.subst ∧ InRangeS ρ' st.subst
  no1 : No1S st.subst
  nodup : (st.subst.map (·.1)).Nodup
  good : GoodS st.subst 3999

/-- the facts follow from the run -/
theorem succ_of_run {t u : PT} {next fuel : Nat} {st : St} (h : Ops t u next) (hvs : t.vshape = u.vshape)
    (hrun : unifyAll fuel (t.vaxes.zip u.vaxes) ⟨[], next⟩ = (true, st))
    (hnd : (st.subst.map (·.1)).Nodup) (hg : GoodS st.subst 3999) :
    ∃ sz, Succ t u next st sz := by
  have R := runAll_of_unifyAll hrun
  have hlen : t.vaxes.length = u.vaxes.length := by
    have := congrArg List.length hvs
    simpa [PT.vshape] using this
  have hmemT : ∀ p ∈ t.vaxes.zip u.vaxes, p.1 ∈ t.vaxes ∧ p.2 ∈ u.vaxes := fun p hp =>
    ⟨(List.of_mem_zip (a := p.1) (b := p.2) hp).1, (List.of_mem_zip (a := p.1) (b := p.2) hp).2⟩
  have htT : ∀ e ∈ t.vaxes, AxQ (Tp (sz0 t u)) next e := fun e he q hq => by
    have hq' := h.st.fvsub e he q hq
    exact ⟨h.below q (List.mem_append_left _ hq'), sz0_eq h (List.mem_append_left _ hq'), h.post q hq'⟩
  have htU : ∀ e ∈ u.vaxes, AxQ (Tp (sz0 t u)) next e := fun e he q hq => by
    have hq' := h.su.fvsub e he q hq
    exact ⟨h.below q (List.mem_append_right _ hq'), sz0_eq h (List.mem_append_right _ hq'), h.posu q hq'⟩
  have hst0 : SizedSt (sz0 t u) ⟨[], next⟩ := ⟨fun p hp => by simp at hp, fun p hp => by simp at hp⟩
  have hpq : PairsQ (Tp (sz0 t u)) next (t.vaxes.zip u.vaxes) := fun p hp =>
    ⟨htT _ (hmemT p hp).1, htU _ (hmemT p hp).2⟩
  obtain ⟨sz, hag, hsz⟩ := R.sized (sz0 t u) hst0 hpq (zip_map_eq Axis.numel _ _ hvs)
  have hle : next ≤ st.next := R.grows.2
  refine ⟨sz, hsz, hle, ?_, ?_, ?_, ?_, hnd, hg⟩
  · intro k hk
    rw [hag k.1 (h.below k hk)]
    exact sz0_eq h hk
  · intro τ hs
    apply map_eq_of_zip _ _ _ _ hlen
    exact R.sound (fun p hp => by simp at hp)
      (fun p hp => ⟨Tp.nz (htT _ (hmemT p hp).1), Tp.nz (htU _ (hmemT p hp).2)⟩) τ hs
  · intro ρ hrt hru heq
    exact R.mgu (fun p hp => by simp at hp)
      (fun p hp => ⟨fun q hq => (htT _ (hmemT p hp).1 q hq).1, fun q hq => (htU _ (hmemT p hp).2 q hq).1⟩)
      ρ (fun p hp => by simp at hp) (fun p hp => by simp at hp)
      (fun p hp => ⟨hrt _ (hmemT p hp).1, hru _ (hmemT p hp).2⟩)
      (zip_map_eq (Axis.eval ρ) _ _ heq)
  · apply runAll_no1 R (fun p hp => by simp at hp)
    intro p hp
    exact ⟨fun q hq => h.st.no1 q (h.st.fvsub _ (hmemT p hp).1 q hq),
      fun q hq => h.su.no1 q (h.su.fvsub _ (hmemT p hp).2 q hq)⟩

/-! ### the clones of the physical axes -/

section facts
variable {t u : PT} {next : Nat} {st : St} {sz : Nat → Nat}

theorem Succ.numelOkS (S : Succ t u next st sz) : NumelOkS st.subst := S.sized.numelOkS

theorem Succ.paxTp (S : Succ t u next st sz) (h : Ops t u next) {k : Nat × Nat} (hk : k ∈ t.paxes ++ u.paxes) :
    AxQ (Tp sz) st.next (pax k) := by
  intro q hq
  simp only [Axis.fv, List.mem_singleton] at hq
  subst hq
  exact ⟨Nat.lt_of_lt_of_le (h.below k hk) S.le, S.szt k hk, h.pos hk⟩

theorem Succ.paxNumelOk (S : Succ t u next st sz) (h : Ops t u next) {k : Nat × Nat}
    (hk : k ∈ t.paxes ++ u.paxes) : NumelOk st.subst (pax k) := S.sized.numelOk (S.paxTp h hk)

/-- the index map under the substitution is the clone's -/
theorem Succ.evalS_eq (S : Succ t u next st sz) (h : Ops t u next) {k : Nat × Nat} (hk : k ∈ t.paxes ++ u.paxes)
    (ρ : Nat → Nat) : evalS st.subst ρ FUEL (Axis.phys k.1 k.2) = (cl st.subst k).eval ρ :=
  C07eL.evalS_clone_aux st.subst S.numelOkS ρ FUEL _ (S.paxNumelOk h hk)

/-- … and the clone evaluates to the lift -/
theorem cl_eval (σ : Subst) (k : Nat × Nat) (ρ : Nat → Nat) : (cl σ k).eval ρ = lift σ 3999 ρ k.1 :=
  (lift_eq σ 3999 ρ k.1 k.2).symm

theorem Succ.cl_numel (S : Succ t u next st sz) (h : Ops t u next) {k : Nat × Nat} (hk : k ∈ t.paxes ++ u.paxes) :
    (cl st.subst k).numel = k.2 :=
  clone_numel' S.numelOkS FUEL _ (S.paxNumelOk h hk)

theorem Succ.cl_fv (S : Succ t u next st sz) (h : Ops t u next) {k : Nat × Nat} (hk : k ∈ t.paxes ++ u.paxes)
    {q : Nat × Nat} (hq : q ∈ (cl st.subst k).fv) : Tp sz st.next q ∧ 2 ≤ q.2 := by
  rcases clone_fv_sub st.subst FUEL _ q hq with h1 | ⟨p, hp, h1⟩
  · simp only [Axis.fv, List.mem_singleton] at h1
    subst h1
    have h2 := h.pos hk
    have h3 := h.no1 hk
    exact ⟨S.paxTp h hk _ (by simp [Axis.fv]), by omega⟩
  · have h2 := (S.sized.1 p hp).2 q h1
    have h3 := S.no1 p hp q h1
    exact ⟨h2, by have := h2.2.2; omega⟩

theorem Succ.cl_good (S : Succ t u next st sz) (k : Nat × Nat) : C07bL.Good st.subst FUEL (pax k) := by
  cases hb : bound st.subst k.1 with
  | none =>
    unfold C07bL.Good
    rw [clone_phys_none hb]
    intro q hq
    simp only [Axis.fv, List.mem_singleton] at hq
    subst hq
    exact hb
  | some a => exact (good_phys_some hb 3999 k.2).2 (S.good _ (bound_mem hb))

/-- the lift of any assignment satisfies the substitution -/
theorem Succ.lift_sat (S : Succ t u next st sz) (ρ : Nat → Nat) : Sat (lift st.subst 3999 ρ) st.subst :=
  C07bL.lift_sat S.numelOkS S.nodup S.good ρ

/-- the flat position selected by an assignment of the free axes -/
theorem Succ.ppos_t (S : Succ t u next st sz) (h : Ops t u next) (ρ : Nat → Nat) :
    ppos st.subst t ρ = flat (t.paxes.map (·.2)) (pidx t.paxes (lift st.subst 3999 ρ)) := by
  unfold ppos pidx
  congr 1
  apply List.map_congr_left
  intro k hk
  rw [S.evalS_eq h (List.mem_append_left _ hk), cl_eval]

theorem Succ.ppos_u (S : Succ t u next st sz) (h : Ops t u next) (ρ : Nat → Nat) :
    ppos st.subst u ρ = flat (u.paxes.map (·.2)) (pidx u.paxes (lift st.subst 3999 ρ)) := by
  unfold ppos pidx
  congr 1
  apply List.map_congr_left
  intro k hk
  rw [S.evalS_eq h (List.mem_append_right _ hk), cl_eval]

/-- the lift of an assignment that respects the free axes of the clones is in range on the physical axes -/
theorem Succ.lift_lt (S : Succ t u next st sz) (h : Ops t u next) {ρ : Nat → Nat} {k : Nat × Nat}
    (hk : k ∈ t.paxes ++ u.paxes) (hr : InRange ρ (cl st.subst k)) : lift st.subst 3999 ρ k.1 < k.2 := by
  rw [← cl_eval, ← S.cl_numel h hk]
  exact hr.lt

/-! ### both operands have the same free axes -/

/-- a free axis of the clone of a physical axis of `A` is a free axis of the clone of a physical axis of `B`, when
every assignment satisfying the substitution gives both operands the same cell (the index maps are injective, so
moving along a free axis of `A` moves the cell, hence some physical index of `B`) -/
theorem free_transfer {A B : PT} {σ : Subst} (hA : Sem A) (hB : ∀ e ∈ B.vaxes, ∀ q ∈ e.fv, q ∈ B.paxes)
    (hσ : NumelOkS σ) (hnd : (σ.map (·.1)).Nodup) (hg : GoodS σ 3999)
    (hnum : ∀ k ∈ A.paxes, (cl σ k).numel = k.2)
    (hsize : ∀ k ∈ A.paxes, ∀ q ∈ (cl σ k).fv, 2 ≤ q.2)
    (hsound : ∀ τ, Sat τ σ → A.vaxes.map (Axis.eval τ) = B.vaxes.map (Axis.eval τ))
    {k : Nat × Nat} (hk : k ∈ A.paxes) {q : Nat × Nat} (hq : q ∈ (cl σ k).fv) :
    ∃ k' ∈ B.paxes, ∃ q' ∈ (cl σ k').fv, q'.1 = q.1 := by
  by_contra hno
  have hno' : ∀ k' ∈ B.paxes, ∀ q' ∈ (cl σ k').fv, q'.1 ≠ q.1 := fun k' hk' q' hq' e => hno ⟨k', hk', q', hq', e⟩
  let ρ : Nat → Nat := fun _ => 0
  let ρ' : Nat → Nat := fun v => if v = q.1 then 1 else 0
  have hr : ∀ k'' ∈ A.paxes, InRange ρ (cl σ k'') := fun k'' hk'' p hp => by
    have := hsize k'' hk'' p hp
    show 0 < p.2
    omega
  have hr' : ∀ k'' ∈ A.paxes, InRange ρ' (cl σ k'') := fun k'' hk'' p hp => by
    have := hsize k'' hk'' p hp
    show (if p.1 = q.1 then 1 else 0) < p.2
    split <;> omega
  have hs := C07bL.lift_sat hσ hnd hg ρ
  have hs' := C07bL.lift_sat hσ hnd hg ρ'
  -- `B` does not see the difference
  have hB' : B.vaxes.map (Axis.eval (lift σ 3999 ρ)) = B.vaxes.map (Axis.eval (lift σ 3999 ρ')) := by
    apply List.map_congr_left
    intro e he
    apply eval_congr
    intro p hp
    have hp' := hB e he p hp
    rw [← cl_eval σ p, ← cl_eval σ p]
    apply eval_congr
    intro p' hp''
    have := hno' p hp' p' hp''
    show (0 : Nat) = if p'.1 = q.1 then 1 else 0
    rw [if_neg this]
  have hA' : A.vaxes.map (Axis.eval (lift σ 3999 ρ)) = A.vaxes.map (Axis.eval (lift σ 3999 ρ')) := by
    rw [hsound _ hs, hsound _ hs', hB']
  have hlt : ∀ k'' ∈ A.paxes, lift σ 3999 ρ k''.1 < k''.2 := fun k'' hk'' => by
    rw [← cl_eval, ← hnum k'' hk'']; exact (hr k'' hk'').lt
  have hlt' : ∀ k'' ∈ A.paxes, lift σ 3999 ρ' k''.1 < k''.2 := fun k'' hk'' => by
    rw [← cl_eval, ← hnum k'' hk'']; exact (hr' k'' hk'').lt
  have hkk := hA.inj _ _ hlt hlt' hA' k hk
  rw [← cl_eval, ← cl_eval] at hkk
  have := eval_inj ρ ρ' (cl σ k) (hr k hk) (hr' k hk) hkk q hq
  simp [ρ, ρ'] at this

/-! ### the free axes `project` returns -/

/-- what is used of the list of free axes -/
structure FreeAx (t u : PT) (σ : Subst) (F : List (Nat × Nat)) : Prop where
  nodup : (F.map (·.1)).Nodup
  fromT : ∀ q ∈ F, ∃ k ∈ t.paxes, q ∈ (cl σ k).fv
  ofT : ∀ k ∈ t.paxes, ∀ q ∈ (cl σ k).fv, q.1 ∈ F.map (·.1)
  ofU : ∀ k ∈ u.paxes, ∀ q ∈ (cl σ k).fv, q.1 ∈ F.map (·.1)

/-- the axes of `project(self.physical, None, self.paxes, subst)` -/
def subaxes (t : PT) (σ : Subst) : List (Nat × Nat) :=
  (project (contiguous (t.paxes.map (·.2))) (t.paxes.map (fun k => Axis.phys k.1 k.2)) σ).2

theorem strides_len (T : PT) :
    (T.paxes.map (fun k => Axis.phys k.1 k.2)).length ≤ (contiguous (T.paxes.map (·.2))).strides.length := by
  unfold contiguous
  simp only [contiguousStrides_length, List.length_map]
  exact Nat.le_refl _

theorem Succ.sound_symm (S : Succ t u next st sz) :
    ∀ τ, Sat τ st.subst → u.vaxes.map (Axis.eval τ) = t.vaxes.map (Axis.eval τ) := fun τ hs => (S.sound τ hs).symm

theorem Succ.freeAx (S : Succ t u next st sz) (h : Ops t u next) : FreeAx t u st.subst (subaxes t st.subst) := by
  obtain ⟨k1, k2, k3⟩ := project_keys (contiguous (t.paxes.map (·.2))) (t.paxes.map (fun k => Axis.phys k.1 k.2))
    st.subst (strides_len t)
  have hofT : ∀ k ∈ t.paxes, ∀ q ∈ (cl st.subst k).fv, q.1 ∈ (subaxes t st.subst).map (·.1) :=
    fun k hk q hq => k3 _ (List.mem_map_of_mem (f := fun k : Nat × Nat => Axis.phys k.1 k.2) hk) q hq
  refine ⟨k1, ?_, hofT, ?_⟩
  · intro q hq
    obtain ⟨e, he, hqe⟩ := k2 q hq
    obtain ⟨k, hk, rfl⟩ := List.mem_map.1 he
    exact ⟨k, hk, hqe⟩
  · intro k hk q hq
    obtain ⟨k', hk', q', hq', e⟩ := free_transfer (A := u) (B := t) h.su.sem h.st.fvsub S.numelOkS S.nodup S.good
      (fun k hk => S.cl_numel h (List.mem_append_right _ hk))
      (fun k hk q hq => (S.cl_fv h (List.mem_append_right _ hk) hq).2) S.sound_symm hk hq
    rw [← e]
    exact hofT k' hk' q' hq'

/-- `projectOnto` does not raise -/
theorem Succ.projectOnto_some (S : Succ t u next st sz) (h : Ops t u next) :
    ∃ w, projectOnto (contiguous (u.paxes.map (·.2))) (subaxes t st.subst)
      (u.paxes.map (fun k => Axis.phys k.1 k.2)) st.subst = some w := by
  have F := S.freeAx h
  apply projectOnto_isSome _ _ _ _ (strides_len u)
  · intro e he q hq
    obtain ⟨k, hk, rfl⟩ := List.mem_map.1 he
    exact F.ofU k hk q hq
  · intro p hp
    obtain ⟨k, hk, hpk⟩ := F.fromT p hp
    obtain ⟨k', hk', q', hq', e⟩ := free_transfer (A := t) (B := u) h.st.sem h.su.fvsub S.numelOkS S.nodup S.good
      (fun k hk => S.cl_numel h (List.mem_append_left _ hk))
      (fun k hk q hq => (S.cl_fv h (List.mem_append_left _ hk) hq).2) S.sound hk hpk
    exact ⟨_, List.mem_map_of_mem (f := fun k : Nat × Nat => Axis.phys k.1 k.2) hk', q', hq', e⟩

/-! ### the pairs of positions enumerated by `compareImpl` -/

/-- the list of pairs of flat positions `compareImpl` enumerates -/
def pairs (σ : Subst) (t u : PT) (F : List (Nat × Nat)) : List (Nat × Nat) :=
  (assigns (F.map (·.2))).map (fun idx => (ppos σ t (envOf F idx), ppos σ u (envOf F idx)))

/-- a free axis of a clone is a member of the list of free axes, with its size -/
theorem Succ.mem_F (S : Succ t u next st sz) (h : Ops t u next) {F : List (Nat × Nat)} (hF : FreeAx t u st.subst F)
    {k : Nat × Nat} (hk : k ∈ t.paxes ++ u.paxes) {q : Nat × Nat} (hq : q ∈ (cl st.subst k).fv) : q ∈ F := by
  have hid : q.1 ∈ F.map (·.1) := by
    rcases List.mem_append.1 hk with hk' | hk'
    · exact hF.ofT k hk' q hq
    · exact hF.ofU k hk' q hq
  obtain ⟨q', hq', e⟩ := List.mem_map.1 hid
  obtain ⟨k', hk', hqk'⟩ := hF.fromT q' hq'
  have h1 := (S.cl_fv h (List.mem_append_left _ hk') hqk').1.2.1
  have h2 := (S.cl_fv h hk hq).1.2.1
  have : q' = q := by
    apply Prod.ext e
    rw [← h1, ← h2]
    exact congrArg sz e
  rw [← this]; exact hq'

theorem Succ.envF_inRange (S : Succ t u next st sz) (h : Ops t u next) {F : List (Nat × Nat)}
    (hF : FreeAx t u st.subst F) {idx : List Nat} (hidx : idx ∈ assigns (F.map (·.2)))
    {k : Nat × Nat} (hk : k ∈ t.paxes ++ u.paxes) : InRange (envOf F idx) (cl st.subst k) :=
  fun q hq => envOf_inRange F idx hF.nodup ((mem_assigns_iff _ _).1 hidx) q (S.mem_F h hF hk hq)

/-- the cell at the flat position selected by an in-range assignment of the physical axes -/
theorem key_at {T : PT} (hT : Struct T) (τ : Nat → Nat) (hlt : ∀ k ∈ T.paxes, τ k.1 < k.2) :
    T.cells[flat (T.paxes.map (·.2)) (pidx T.paxes τ)]? =
      some (T.vaxes.map (Axis.eval τ), T.physical[flat (T.paxes.map (·.2)) (pidx T.paxes τ)]?.getD T.default) := by
  rw [cells_at_flat T (pidx_mem_assigns τ T.paxes hlt)]
  congr 2
  apply List.map_congr_left
  intro e he
  apply eval_congr
  intro q hq
  exact envOf_pidx τ T.paxes q.1 (List.mem_map_of_mem (f := (·.1)) (hT.fvsub e he q hq))

/-- **soundness**: every enumerated pair of positions backs one cell -/
theorem Succ.pairs_sound (S : Succ t u next st sz) (h : Ops t u next) {F : List (Nat × Nat)}
    (hF : FreeAx t u st.subst F) {idx : List Nat} (hidx : idx ∈ assigns (F.map (·.2))) :
    ∃ (hi : ppos st.subst t (envOf F idx) < t.cells.length) (hj : ppos st.subst u (envOf F idx) < u.cells.length),
      (t.cells[ppos st.subst t (envOf F idx)]).1 = (u.cells[ppos st.subst u (envOf F idx)]).1 := by
  have hlt : ∀ k ∈ t.paxes, lift st.subst 3999 (envOf F idx) k.1 < k.2 := fun k hk =>
    S.lift_lt h (List.mem_append_left _ hk) (S.envF_inRange h hF hidx (List.mem_append_left _ hk))
  have hlu : ∀ k ∈ u.paxes, lift st.subst 3999 (envOf F idx) k.1 < k.2 := fun k hk =>
    S.lift_lt h (List.mem_append_right _ hk) (S.envF_inRange h hF hidx (List.mem_append_right _ hk))
  have e1 := key_at h.st _ hlt
  have e2 := key_at h.su _ hlu
  rw [← S.ppos_t h] at e1
  rw [← S.ppos_u h] at e2
  obtain ⟨hi, e1'⟩ := List.getElem?_eq_some_iff.1 e1
  obtain ⟨hj, e2'⟩ := List.getElem?_eq_some_iff.1 e2
  refine ⟨hi, hj, ?_⟩
  rw [e1', e2']
  exact S.sound _ (S.lift_sat _)

/-- **most general**: every pair of positions backing one cell is enumerated -/
theorem Succ.pairs_complete (S : Succ t u next st sz) (h : Ops t u next) {F : List (Nat × Nat)}
    (hF : FreeAx t u st.subst F) {i j : Nat} (hi : i < t.cells.length) (hj : j < u.cells.length)
    (hkey : (t.cells[i]).1 = (u.cells[j]).1) : (i, j) ∈ pairs st.subst t u F := by
  have hi' : i < (assigns (t.paxes.map (·.2))).length := by rw [length_assigns, ← cells_length]; exact hi
  have hj' : j < (assigns (u.paxes.map (·.2))).length := by rw [length_assigns, ← cells_length]; exact hj
  have hit : (assigns (t.paxes.map (·.2)))[i] ∈ assigns (t.paxes.map (·.2)) := List.getElem_mem hi'
  have hiu : (assigns (u.paxes.map (·.2)))[j] ∈ assigns (u.paxes.map (·.2)) := List.getElem_mem hj'
  generalize hgit : (assigns (t.paxes.map (·.2)))[i] = it at hit
  generalize hgiu : (assigns (u.paxes.map (·.2)))[j] = iu at hiu
  have e1 : t.cells[i]? = some (t.vaxes.map (Axis.eval (envOf t.paxes it)), t.physical[i]?.getD t.default) := by
    rw [cells_getElem?, List.getElem?_eq_getElem hi', hgit]; rfl
  have e2 : u.cells[j]? = some (u.vaxes.map (Axis.eval (envOf u.paxes iu)), u.physical[j]?.getD u.default) := by
    rw [cells_getElem?, List.getElem?_eq_getElem hj', hgiu]; rfl
  obtain ⟨_, e1'⟩ := List.getElem?_eq_some_iff.1 e1
  obtain ⟨_, e2'⟩ := List.getElem?_eq_some_iff.1 e2
  rw [e1', e2'] at hkey
  simp only at hkey
  -- the joint assignment of the physical axes of both operands
  let ρ0 : Nat → Nat := fun v => if v ∈ t.paxes.map (·.1) then envOf t.paxes it v else envOf u.paxes iu v
  have hρt : ∀ k ∈ t.paxes, ρ0 k.1 = envOf t.paxes it k.1 := fun k hk => by
    show (if k.1 ∈ t.paxes.map (·.1) then _ else _) = _
    rw [if_pos (List.mem_map_of_mem (f := (·.1)) hk)]
  have hρu : ∀ k ∈ u.paxes, ρ0 k.1 = envOf u.paxes iu k.1 := fun k hk => by
    show (if k.1 ∈ t.paxes.map (·.1) then _ else _) = _
    rw [if_neg]
    intro hm
    obtain ⟨p, hp, e⟩ := List.mem_map.1 hm
    exact h.disj p hp k hk e
  have hrt : ∀ e ∈ t.vaxes, InRange ρ0 e := fun e he q hq => by
    have hq' := h.st.fvsub e he q hq
    rw [hρt q hq']
    exact envOf_inRange' h.st.sem hit q hq'
  have hru : ∀ e ∈ u.vaxes, InRange ρ0 e := fun e he q hq => by
    have hq' := h.su.fvsub e he q hq
    rw [hρu q hq']
    exact envOf_inRange' h.su.sem hiu q hq'
  have hevt : t.vaxes.map (Axis.eval ρ0) = t.vaxes.map (Axis.eval (envOf t.paxes it)) := by
    apply List.map_congr_left
    intro e he
    exact eval_congr _ _ e (fun q hq => hρt q (h.st.fvsub e he q hq))
  have hevu : u.vaxes.map (Axis.eval ρ0) = u.vaxes.map (Axis.eval (envOf u.paxes iu)) := by
    apply List.map_congr_left
    intro e he
    exact eval_congr _ _ e (fun q hq => hρu q (h.su.fvsub e he q hq))
  obtain ⟨ρ', hag, hsat, hrs⟩ := S.mgu ρ0 hrt hru (by rw [hevt, hevu]; exact hkey)
  -- the assignment of the free axes
  have hρ'k : ∀ k ∈ t.paxes ++ u.paxes, ρ' k.1 = ρ0 k.1 := fun k hk => hag k.1 (h.below k hk)
  have hFr : ∀ q ∈ F, ρ' q.1 < q.2 := by
    intro q hq
    obtain ⟨k, hk, hqk⟩ := hF.fromT q hq
    rcases clone_fv_sub st.subst FUEL _ q hqk with h1 | ⟨p, hp, h1⟩
    · simp only [Axis.fv, List.mem_singleton] at h1
      subst h1
      rw [hρ'k _ (List.mem_append_left _ hk), hρt _ hk]
      exact envOf_inRange' h.st.sem hit _ hk
    · exact hrs p hp q h1
  have hidx : pidx F ρ' ∈ assigns (F.map (·.2)) := pidx_mem_assigns ρ' F hFr
  have hlift : ∀ k ∈ t.paxes ++ u.paxes, lift st.subst 3999 (envOf F (pidx F ρ')) k.1 = ρ0 k.1 := by
    intro k hk
    rw [← cl_eval]
    have e3 : (cl st.subst k).eval (envOf F (pidx F ρ')) = (cl st.subst k).eval ρ' := by
      apply eval_congr
      intro q hq
      exact envOf_pidx ρ' F q.1 (List.mem_map_of_mem (f := (·.1)) (S.mem_F h hF hk hq))
    rw [e3]
    have := (clone_spec hsat S.numelOkS FUEL (pax k) (S.paxNumelOk h hk)).1
    rw [show (cl st.subst k) = clone st.subst FUEL (pax k) from rfl, this]
    exact hρ'k k hk
  refine List.mem_map.2 ⟨pidx F ρ', hidx, ?_⟩
  have lt : it.length = t.paxes.length := by rw [mem_assigns_length hit, List.length_map]
  have lu : iu.length = u.paxes.length := by rw [mem_assigns_length hiu, List.length_map]
  have pt : pidx t.paxes (lift st.subst 3999 (envOf F (pidx F ρ'))) = it := by
    rw [← pidx_envOf t.paxes it h.st.nodup lt]
    apply pidx_congr
    intro k hk
    rw [hlift k (List.mem_append_left _ hk), hρt k hk]
  have pu : pidx u.paxes (lift st.subst 3999 (envOf F (pidx F ρ'))) = iu := by
    rw [← pidx_envOf u.paxes iu h.su.nodup lu]
    apply pidx_congr
    intro k hk
    rw [hlift k (List.mem_append_right _ hk), hρu k hk]
  show (ppos st.subst t (envOf F (pidx F ρ')), ppos st.subst u (envOf F (pidx F ρ'))) = (i, j)
  rw [S.ppos_t h, S.ppos_u h, pt, pu, ← hgit, ← hgiu, flat_getElem hi', flat_getElem hj']

/-- **no repetition**: the position in `t` determines the assignment of the free axes -/
theorem Succ.pairs_nodup (S : Succ t u next st sz) (h : Ops t u next) {F : List (Nat × Nat)}
    (hF : FreeAx t u st.subst F) : (pairs st.subst t u F).Nodup := by
  unfold pairs
  refine List.Nodup.map_on ?_ (nodup_assigns _)
  intro x hx y hy e
  have e1 : ppos st.subst t (envOf F x) = ppos st.subst t (envOf F y) := congrArg Prod.fst e
  rw [S.ppos_t h, S.ppos_t h] at e1
  have hltx : ∀ k ∈ t.paxes, lift st.subst 3999 (envOf F x) k.1 < k.2 := fun k hk =>
    S.lift_lt h (List.mem_append_left _ hk) (S.envF_inRange h hF hx (List.mem_append_left _ hk))
  have hlty : ∀ k ∈ t.paxes, lift st.subst 3999 (envOf F y) k.1 < k.2 := fun k hk =>
    S.lift_lt h (List.mem_append_left _ hk) (S.envF_inRange h hF hy (List.mem_append_left _ hk))
  have e2 := flat_inj (pidx_mem_assigns _ t.paxes hltx) (pidx_mem_assigns _ t.paxes hlty) e1
  have e3 : ∀ q ∈ F, envOf F x q.1 = envOf F y q.1 := by
    intro q hq
    obtain ⟨k, hk, hqk⟩ := hF.fromT q hq
    have e4 : lift st.subst 3999 (envOf F x) k.1 = lift st.subst 3999 (envOf F y) k.1 :=
      List.map_inj_left.1 e2 k hk
    rw [← cl_eval, ← cl_eval] at e4
    exact eval_inj _ _ (cl st.subst k) (S.envF_inRange h hF hx (List.mem_append_left _ hk))
      (S.envF_inRange h hF hy (List.mem_append_left _ hk)) e4 q hqk
  have lx : x.length = F.length := by rw [mem_assigns_length hx, List.length_map]
  have ly : y.length = F.length := by rw [mem_assigns_length hy, List.length_map]
  rw [← pidx_envOf F x hF.nodup lx, ← pidx_envOf F y hF.nodup ly]
  exact pidx_congr e3

/-- the characterisation of the enumerated pairs, as `compare_core` wants it -/
theorem Succ.pairs_mem (S : Succ t u next st sz) (h : Ops t u next) {F : List (Nat × Nat)}
    (hF : FreeAx t u st.subst F) (i j : Nat) :
    (i, j) ∈ pairs st.subst t u F ↔ ∃ (hi : i < t.cells.length) (hj : j < u.cells.length),
      (t.cells[i]).1 = (u.cells[j]).1 := by
  constructor
  · intro hm
    obtain ⟨idx, hidx, e⟩ := List.mem_map.1 hm
    obtain ⟨hi, hj, hk⟩ := S.pairs_sound h hF hidx
    simp only [Prod.mk.injEq] at e
    obtain ⟨rfl, rfl⟩ := e
    exact ⟨hi, hj, hk⟩
  · rintro ⟨hi, hj, hk⟩
    exact S.pairs_complete h hF hi hj hk

end facts

/-! ### the two decision procedures -/

/-- `PT.compareModel` after the comparison of the shapes -/
def modelBody (cmp : Ext → Ext → Bool) (t u : PT) : Bool :=
  if !((t.cells.filter (fun p => u.cells.any (·.1 == p.1))).all
          (fun p => match u.cells.find? (·.1 == p.1) with | some q => cmp p.2 q.2 | none => true)) then false
  else
    (decide (numel t.vshape + (t.cells.filter (fun p => u.cells.any (·.1 == p.1))).length
        ≤ t.cells.length + u.cells.length) || cmp t.default u.default) &&
     t.cells.all (fun p => cmp p.2 u.default || u.cells.any (·.1 == p.1)) &&
     u.cells.all (fun q => cmp t.default q.2 || t.cells.any (·.1 == q.1))

theorem compareModel_eq_body (cmp : Ext → Ext → Bool) (t u : PT) (hvs : t.vshape = u.vshape) :
    PT.compareModel cmp t u = modelBody cmp t u := by
  unfold PT.compareModel modelBody
  have hne : (t.vshape != u.vshape) = false := by simp [hvs]
  rw [hne]
  rfl

/-- `Eq.compareImpl` after the unification, from the list of pairs of positions -/
def implBody (cmp : Ext → Ext → Bool) (t u : PT) (L : List (Nat × Nat)) : Option Bool :=
  if !(L.all (fun c => cmp (t.physical[c.1]?.getD t.default) (u.physical[c.2]?.getD u.default))) then some false
  else
    some ((decide (numel t.vshape + L.length ≤
        (mark (t.physical.map (fun x => cmp x u.default)) (L.map (·.1))).length +
        (mark (u.physical.map (fun y => cmp t.default y)) (L.map (·.2))).length) || cmp t.default u.default) &&
      (mark (t.physical.map (fun x => cmp x u.default)) (L.map (·.1))).all id &&
      (mark (u.physical.map (fun y => cmp t.default y)) (L.map (·.2))).all id)

/-- the two agree when the list of pairs is the overlap -/
theorem implBody_eq (cmp : Ext → Ext → Bool) (t u : PT) (ht : Struct t) (hu : Struct u)
    (L : List (Nat × Nat)) (hL : L.Nodup)
    (hmem : ∀ i j, (i, j) ∈ L ↔ ∃ (hi : i < t.cells.length) (hj : j < u.cells.length),
      (t.cells[i]).1 = (u.cells[j]).1) :
    implBody cmp t u L = some (modelBody cmp t u) := by
  have hc := compare_core cmp t.default u.default (numel t.vshape) t.cells u.cells ht.sem.keys_nodup
    hu.sem.keys_nodup L hL hmem
  rw [cells_map_snd t ht.len, cells_map_snd u hu.len] at hc
  unfold implBody
  rw [← apply_ite some, hc]
  unfold modelBody
  rfl

/-- with no overlap: the formula of the failure branch -/
theorem implBody_nil (cmp : Ext → Ext → Bool) (t u : PT) :
    implBody cmp t u [] =
      some ((decide (numel t.vshape ≤ (t.physical.map (fun x => cmp x u.default)).length +
          (u.physical.map (fun y => cmp t.default y)).length) || cmp t.default u.default) &&
        (t.physical.map (fun x => cmp x u.default)).all id && (u.physical.map (fun y => cmp t.default y)).all id) := by
  unfold implBody
  simp only [List.all_nil, Bool.not_true, Bool.false_eq_true, if_false, List.map_nil, mark_nil, List.length_nil,
    Nat.add_zero]

end C13bL
