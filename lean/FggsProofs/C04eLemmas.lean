/-
C04eLemmas — helpers for Props/C04e.lean: a conditional scatter into an array (`setIfInBounds` folded over a list of
updates with pairwise distinct addresses), and the two branches of `masked_fill_into` against the scatter that defines
the dense mask, abstractly (no patterned tensors).
-/
import FggsModel.MaskedFill
import Mathlib.Data.List.Basic
import Mathlib.Data.List.Nodup

set_option linter.unusedSimpArgs false
set_option linter.unusedVariables false

namespace C04eL
open Fggs Fggs.Mf

/-! ### conditional scatter -/

theorem csc_size {β : Type} (c : β → Bool) (a : β → Nat) (v : β → Ext) : ∀ (L : List β) (arr : Array Ext),
    (L.foldl (fun arr b => if c b then arr.setIfInBounds (a b) (v b) else arr) arr).size = arr.size
  | [], arr => rfl
  | b :: L, arr => by
    rw [List.foldl_cons, csc_size c a v L]
    split <;> simp

theorem csc_other {β : Type} (c : β → Bool) (a : β → Nat) (v : β → Ext) (k : Nat) : ∀ (L : List β) (arr : Array Ext),
    (∀ b ∈ L, c b = true → a b ≠ k) →
    (L.foldl (fun arr b => if c b then arr.setIfInBounds (a b) (v b) else arr) arr)[k]? = arr[k]?
  | [], arr, _ => rfl
  | b :: L, arr, h => by
    rw [List.foldl_cons, csc_other c a v k L _ (fun x hx => h x (List.mem_cons_of_mem _ hx))]
    by_cases hc : c b = true
    · rw [if_pos hc, Array.getElem?_setIfInBounds, if_neg (h b List.mem_cons_self hc)]
    · rw [if_neg hc]

theorem csc_hit {β : Type} (c : β → Bool) (a : β → Nat) (v : β → Ext) : ∀ (L : List β) (arr : Array Ext) (b : β),
    (L.map a).Nodup → b ∈ L → c b = true → a b < arr.size →
    (L.foldl (fun arr b => if c b then arr.setIfInBounds (a b) (v b) else arr) arr)[a b]? = some (v b)
  | [], arr, b, _, h, _, _ => by simp at h
  | x :: L, arr, b, hn, h, hc, hlt => by
    rw [List.map_cons, List.nodup_cons] at hn
    rw [List.foldl_cons]
    rcases List.mem_cons.1 h with rfl | h'
    · rw [csc_other c a v (a b) L _ ?_, if_pos hc, Array.getElem?_setIfInBounds, if_pos rfl, if_pos hlt]
      intro y hy _ e
      exact hn.1 (e ▸ List.mem_map_of_mem hy)
    · refine csc_hit c a v L _ b hn.2 h' hc ?_
      split <;> simpa using hlt

/-! ### plain scatter -/

theorem sc_eq {β : Type} (a : β → Nat) (v : β → Ext) (L : List β) (arr : Array Ext) :
    L.foldl (fun arr b => arr.setIfInBounds (a b) (v b)) arr
      = L.foldl (fun arr b => if (fun _ => true) b then arr.setIfInBounds (a b) (v b) else arr) arr := by
  simp

theorem sc_size {β : Type} (a : β → Nat) (v : β → Ext) (L : List β) (arr : Array Ext) :
    (L.foldl (fun arr b => arr.setIfInBounds (a b) (v b)) arr).size = arr.size := by
  rw [sc_eq, csc_size]

theorem sc_other {β : Type} (a : β → Nat) (v : β → Ext) (k : Nat) (L : List β) (arr : Array Ext)
    (h : ∀ b ∈ L, a b ≠ k) :
    (L.foldl (fun arr b => arr.setIfInBounds (a b) (v b)) arr)[k]? = arr[k]? := by
  rw [sc_eq, csc_other]
  exact fun b hb _ => h b hb

theorem sc_hit {β : Type} (a : β → Nat) (v : β → Ext) (L : List β) (arr : Array Ext) (b : β)
    (hn : (L.map a).Nodup) (hb : b ∈ L) (hlt : a b < arr.size) :
    (L.foldl (fun arr b => arr.setIfInBounds (a b) (v b)) arr)[a b]? = some (v b) := by
  rw [sc_eq, csc_hit _ a v L arr b hn hb rfl hlt]

/-! ### `where(mask, value, dest)` cell by cell -/

theorem where_get (dest D : List Ext) (value : Ext) (i : Nat) (d x : Ext) (h1 : dest[i]? = some d)
    (h2 : D[i]? = some x) :
    ((dest.zip D).map (fun p => if truthy p.2 then value else p.1))[i]? = some (if truthy x then value else d) := by
  have hz : (dest.zip D)[i]? = some (d, x) := List.getElem?_zip_eq_some.2 ⟨h1, h2⟩
  rw [List.getElem?_map, hz]
  rfl

theorem zip_map_self {β γ : Type} (f : β → γ) : ∀ (L : List β), L.zip (L.map f) = L.map (fun b => (b, f b))
  | [] => rfl
  | b :: L => by rw [List.map_cons, List.zip_cons_cons, zip_map_self f L, List.map_cons]

/-! ### the two branches -/

/-- default false: only the covered cells whose physical mask is true are overwritten -/
theorem fill_false {β : Type} (a : β → Nat) (ph : β → Ext) (L : List β) (hn : (L.map a).Nodup) (dest : List Ext)
    (value dflt : Ext) (hd : truthy dflt = false) (hlt : ∀ b ∈ L, a b < dest.length) :
    (L.foldl (fun (arr : Array Ext) b => if truthy (ph b) then arr.setIfInBounds (a b) value else arr)
        dest.toArray).toList
      = (dest.zip (L.foldl (fun (arr : Array Ext) b => arr.setIfInBounds (a b) (ph b))
          (Array.replicate dest.length dflt)).toList).map (fun p => if truthy p.2 then value else p.1) := by
  apply List.ext_getElem?
  intro i
  by_cases hi : i < dest.length
  · have hdi : dest[i]? = some dest[i] := List.getElem?_eq_getElem hi
    by_cases hex : ∃ b ∈ L, a b = i
    · obtain ⟨b, hb, rfl⟩ := hex
      have hD := sc_hit a ph L (Array.replicate dest.length dflt) b hn hb (by simpa using hi)
      rw [where_get dest _ value (a b) _ _ hdi (by rw [Array.getElem?_toList]; exact hD), Array.getElem?_toList]
      by_cases ht : truthy (ph b) = true
      · rw [if_pos ht]
        exact csc_hit (fun b => truthy (ph b)) a (fun _ => value) L dest.toArray b hn hb ht (by simpa using hi)
      · rw [if_neg ht, csc_other (fun b => truthy (ph b)) a (fun _ => value) (a b) L dest.toArray ?_]
        · simp
        · intro y hy hty e
          have : y = b := List.inj_on_of_nodup_map hn hy hb e
          exact ht (this ▸ hty)
    · have hne : ∀ b ∈ L, a b ≠ i := fun b hb e => hex ⟨b, hb, e⟩
      have hD := sc_other a ph i L (Array.replicate dest.length dflt) hne
      rw [where_get dest _ value i _ dflt hdi (by rw [Array.getElem?_toList, hD]; simp [hi]), Array.getElem?_toList,
        csc_other (fun b => truthy (ph b)) a (fun _ => value) i L dest.toArray (fun b hb _ => hne b hb)]
      simp [hd, hi]
  · rw [List.getElem?_eq_none, List.getElem?_eq_none]
    · simp [sc_size]; omega
    · rw [Array.length_toList, csc_size (fun b => truthy (ph b)) a (fun _ => value)]; simp; omega

/-- default true: fill everything, then restore the covered cells whose physical mask is false -/
theorem fill_true {β : Type} (a : β → Nat) (ph : β → Ext) (L : List β) (hn : (L.map a).Nodup) (dest : List Ext)
    (value dflt : Ext) (hd : truthy dflt = true) (hlt : ∀ b ∈ L, a b < dest.length) :
    ((L.zip (L.map (fun b => if truthy (ph b) then value else dest[a b]?.getD value))).foldl
        (fun (arr : Array Ext) (q : β × Ext) => arr.setIfInBounds (a q.1) q.2)
        (Array.replicate dest.length value)).toList
      = (dest.zip (L.foldl (fun (arr : Array Ext) b => arr.setIfInBounds (a b) (ph b))
          (Array.replicate dest.length dflt)).toList).map (fun p => if truthy p.2 then value else p.1) := by
  rw [zip_map_self, List.foldl_map]
  apply List.ext_getElem?
  intro i
  by_cases hi : i < dest.length
  · have hdi : dest[i]? = some dest[i] := List.getElem?_eq_getElem hi
    by_cases hex : ∃ b ∈ L, a b = i
    · obtain ⟨b, hb, rfl⟩ := hex
      have hD := sc_hit a ph L (Array.replicate dest.length dflt) b hn hb (by simpa using hi)
      rw [where_get dest _ value (a b) _ _ hdi (by rw [Array.getElem?_toList]; exact hD), Array.getElem?_toList]
      have := sc_hit a (fun b => if truthy (ph b) then value else dest[a b]?.getD value) L
        (Array.replicate dest.length value) b hn hb (by simpa using hi)
      rw [this, hdi]
      rfl
    · have hne : ∀ b ∈ L, a b ≠ i := fun b hb e => hex ⟨b, hb, e⟩
      have hD := sc_other a ph i L (Array.replicate dest.length dflt) hne
      rw [where_get dest _ value i _ dflt hdi (by rw [Array.getElem?_toList, hD]; simp [hi]), Array.getElem?_toList,
        sc_other a (fun b => if truthy (ph b) then value else dest[a b]?.getD value) i L _ hne]
      simp [hd, hi]
  · rw [List.getElem?_eq_none, List.getElem?_eq_none]
    · simp [sc_size]; omega
    · rw [Array.length_toList, sc_size a]; simp; omega

end C04eL
