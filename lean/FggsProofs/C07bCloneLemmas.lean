/-
C07bCloneLemmas — `clone` with enough fuel: when the clone of an axis contains no bound physical axis (`Good`), more
fuel changes neither its meaning nor its free axes; an assignment `ρ` of the unbound axes lifts to the assignment
`lift σ N ρ` of all axes that SATISFIES the substitution, and the clone of an axis under `ρ` is the axis under the lift.
-/
import FggsModel.Unify
import FggsProofs.Props.C06
import FggsProofs.C06bLemmas
import FggsProofs.C06dBaseLemmas
import FggsProofs.C06dSideLemmas

set_option linter.unusedSimpArgs false
set_option linter.unusedVariables false

namespace C07bL
open Fggs Fggs.Ax Fggs.Un C06b

/-- no physical axis of `e` is bound -/
def Unb (σ : Subst) (e : Axis) : Prop := ∀ q ∈ e.fv, bound σ q.1 = none

/-- `n` units of fuel resolve `e` completely -/
def Good (σ : Subst) (n : Nat) (e : Axis) : Prop := Unb σ (clone σ n e)

theorem clone_zero (σ : Subst) (e : Axis) : clone σ 0 e = e := by rw [clone]

theorem map_clone_zero (σ : Subst) (fs : List Axis) : fs.map (clone σ 0) = fs := by
  conv_rhs => rw [← List.map_id fs]
  apply List.map_congr_left
  intro x _
  exact clone_zero σ x

theorem clone_phys_some {σ : Subst} {v : Nat} {a : Axis} (h : bound σ v = some a) (n m : Nat) :
    clone σ (n+1) (.phys v m) = clone σ n a := by rw [clone, h]

theorem clone_phys_none {σ : Subst} {v : Nat} (h : bound σ v = none) (n m : Nat) :
    clone σ n (.phys v m) = .phys v m := by
  cases n with
  | zero => rw [clone]
  | succ n => rw [clone, h]

/-- `numel` of a clone, without reference to an assignment -/
theorem clone_numel' {σ : Subst} (hσ : NumelOkS σ) : ∀ (fuel : Nat) (e : Axis), NumelOk σ e →
    (clone σ fuel e).numel = e.numel
  | 0, e, _ => by rw [clone]
  | fuel+1, .phys v n, he => by
    rw [clone]
    split
    · next a hb =>
      rw [clone_numel' hσ fuel a (hσ _ (bound_mem hb)), Axis.numel]
      exact he (v, n) (by simp [Axis.fv]) a hb
    · rfl
  | fuel+1, .prod fs, he => by
    rw [clone, C06.productAxis_numel, Axis.numel, Axis.numel]
    have : ∀ (gs : List Axis), (∀ x ∈ gs, NumelOk σ x) → numelList (gs.map (clone σ fuel)) = numelList gs := by
      intro gs
      induction gs with
      | nil => intro _; rfl
      | cons g gs ih =>
        intro h
        rw [List.map_cons, numelList, numelList, clone_numel' hσ fuel g (h g (by simp)),
          ih (fun x hx => h x (by simp [hx]))]
    exact this fs (he.prod)
  | fuel+1, .sum b t a, he => by
    rw [clone, Axis.numel, Axis.numel, clone_numel' hσ fuel t (fun q hq => he q (by simpa [Axis.fv] using hq))]

theorem numelOk_sum {σ : Subst} {b a : Nat} {t : Axis} (h : NumelOk σ (.sum b t a)) : NumelOk σ t :=
  fun q hq => h q (by simpa [Axis.fv] using hq)

/-- two maps over the factors that agree in meaning and size -/
theorem evalList_map_congr (ρ ρ' : Nat → Nat) (c c' : Axis → Axis) : ∀ (fs : List Axis),
    (∀ x ∈ fs, (c x).eval ρ = (c' x).eval ρ' ∧ (c x).numel = (c' x).numel) →
    ∀ acc, evalList ρ (fs.map c) acc = evalList ρ' (fs.map c') acc
  | [], _, _ => rfl
  | x :: xs, h, acc => by
    obtain ⟨h1, h2⟩ := h x (by simp)
    rw [List.map_cons, List.map_cons, evalList, evalList, h1, h2]
    exact evalList_map_congr ρ ρ' c c' xs (fun y hy => h y (by simp [hy])) _

theorem good_prod {σ : Subst} {n : Nat} {fs : List Axis} :
    Good σ (n+1) (.prod fs) ↔ ∀ f ∈ fs, Good σ n f := by
  unfold Good Unb
  rw [clone]
  constructor
  · intro h f hf q hq
    exact h q ((mem_fv_productAxis _).2 ⟨_, List.mem_map_of_mem hf, hq⟩)
  · intro h q hq
    obtain ⟨f', hf', hq'⟩ := (mem_fv_productAxis _).1 hq
    obtain ⟨f, hf, rfl⟩ := List.mem_map.1 hf'
    exact h f hf q hq'

theorem good_sum {σ : Subst} {n b a : Nat} {t : Axis} : Good σ (n+1) (.sum b t a) ↔ Good σ n t := by
  unfold Good Unb
  rw [clone]
  simp only [Axis.fv]

theorem good_phys_some {σ : Subst} {v : Nat} {a : Axis} (h : bound σ v = some a) (n m : Nat) :
    Good σ (n+1) (.phys v m) ↔ Good σ n a := by
  unfold Good
  rw [clone_phys_some h]

/-- **one more unit of fuel changes nothing once the clone is resolved** -/
theorem good_succ {σ : Subst} (hσ : NumelOkS σ) : ∀ (n : Nat) (e : Axis), NumelOk σ e → Good σ n e →
    Good σ (n+1) e ∧ (∀ ρ, (clone σ (n+1) e).eval ρ = (clone σ n e).eval ρ) ∧
      (∀ q, q ∈ (clone σ (n+1) e).fv ↔ q ∈ (clone σ n e).fv)
  | 0, .phys v m, _, hg => by
    have hb : bound σ v = none := by
      have := hg (v, m) (by rw [clone_zero]; simp [Axis.fv])
      exact this
    unfold Good
    rw [clone_phys_none hb, clone_phys_none hb] at *
    exact ⟨hg, fun _ => rfl, fun _ => Iff.rfl⟩
  | 0, .prod fs, _, hg => by
    unfold Good at *
    rw [clone_zero] at hg
    rw [clone_zero, clone, map_clone_zero]
    refine ⟨?_, fun ρ => C06.productAxis_eval fs ρ, fun q => ?_⟩
    · intro q hq
      exact hg q (mem_fv_prod.2 ((mem_fv_productAxis _).1 hq))
    · rw [mem_fv_productAxis, mem_fv_prod]
  | 0, .sum b t a, _, hg => by
    unfold Good at *
    rw [clone_zero] at hg
    rw [clone_zero, clone, clone_zero]
    exact ⟨hg, fun _ => rfl, fun _ => Iff.rfl⟩
  | n+1, .phys v m, he, hg => by
    cases hb : bound σ v with
    | none =>
      unfold Good at *
      rw [clone_phys_none hb, clone_phys_none hb] at *
      exact ⟨hg, fun _ => rfl, fun _ => Iff.rfl⟩
    | some a =>
      have ha : NumelOk σ a := hσ _ (bound_mem hb)
      obtain ⟨i1, i2, i3⟩ := good_succ hσ n a ha ((good_phys_some hb n m).1 hg)
      refine ⟨(good_phys_some hb (n+1) m).2 i1, fun ρ => ?_, fun q => ?_⟩
      · rw [clone_phys_some hb, clone_phys_some hb]; exact i2 ρ
      · rw [clone_phys_some hb, clone_phys_some hb]; exact i3 q
  | n+1, .prod fs, he, hg => by
    have hfs := good_prod.1 hg
    have ih : ∀ f ∈ fs, _ := fun f hf => good_succ hσ n f (he.prod f hf) (hfs f hf)
    refine ⟨good_prod.2 (fun f hf => (ih f hf).1), fun ρ => ?_, fun q => ?_⟩
    · rw [clone, clone, C06.productAxis_eval, C06.productAxis_eval, Axis.eval, Axis.eval]
      apply evalList_map_congr
      intro x hx
      exact ⟨(ih x hx).2.1 ρ, by
        rw [clone_numel' hσ _ x (he.prod x hx), clone_numel' hσ _ x (he.prod x hx)]⟩
    · rw [clone, clone, mem_fv_productAxis, mem_fv_productAxis]
      constructor
      · rintro ⟨f', hf', hq⟩
        obtain ⟨f, hf, rfl⟩ := List.mem_map.1 hf'
        exact ⟨_, List.mem_map_of_mem hf, ((ih f hf).2.2 q).1 hq⟩
      · rintro ⟨f', hf', hq⟩
        obtain ⟨f, hf, rfl⟩ := List.mem_map.1 hf'
        exact ⟨_, List.mem_map_of_mem hf, ((ih f hf).2.2 q).2 hq⟩
  | n+1, .sum b t a, he, hg => by
    obtain ⟨i1, i2, i3⟩ := good_succ hσ n t (numelOk_sum he) (good_sum.1 hg)
    refine ⟨good_sum.2 i1, fun ρ => ?_, fun q => ?_⟩
    · rw [clone, clone, Axis.eval, Axis.eval, i2 ρ]
    · rw [clone, clone]; simp only [Axis.fv]; exact i3 q

/-- … nor does any larger amount of fuel -/
theorem good_mono {σ : Subst} (hσ : NumelOkS σ) {e : Axis} (he : NumelOk σ e) {n : Nat} (hg : Good σ n e) :
    ∀ k, Good σ (n+k) e ∧ (∀ ρ, (clone σ (n+k) e).eval ρ = (clone σ n e).eval ρ) ∧
      (∀ q, q ∈ (clone σ (n+k) e).fv ↔ q ∈ (clone σ n e).fv)
  | 0 => ⟨hg, fun _ => rfl, fun _ => Iff.rfl⟩
  | k+1 => by
    obtain ⟨i1, i2, i3⟩ := good_mono hσ he hg k
    obtain ⟨j1, j2, j3⟩ := good_succ hσ (n+k) e he i1
    exact ⟨j1, fun ρ => (j2 ρ).trans (i2 ρ), fun q => (j3 q).trans (i3 q)⟩

/-- two resolving amounts of fuel give the same meaning and the same free axes -/
theorem good_agree {σ : Subst} (hσ : NumelOkS σ) {e : Axis} (he : NumelOk σ e) {n m : Nat} (hn : Good σ n e)
    (hm : Good σ m e) :
    (∀ ρ, (clone σ n e).eval ρ = (clone σ m e).eval ρ) ∧ (∀ q, q ∈ (clone σ n e).fv ↔ q ∈ (clone σ m e).fv) := by
  rcases Nat.le_total n m with h | h
  · obtain ⟨k, rfl⟩ := Nat.exists_eq_add_of_le h
    obtain ⟨_, i2, i3⟩ := good_mono hσ he hn k
    exact ⟨fun ρ => (i2 ρ).symm, fun q => (i3 q).symm⟩
  · obtain ⟨k, rfl⟩ := Nat.exists_eq_add_of_le h
    obtain ⟨_, i2, i3⟩ := good_mono hσ he hm k
    exact ⟨i2, i3⟩

/-! ### lifting an assignment of the unbound axes -/

/-- the value of every physical axis under an assignment of the unbound ones: the clone of the axis, evaluated -/
def lift (σ : Subst) (N : Nat) (ρ : Nat → Nat) : Nat → Nat := fun v => (clone σ (N+1) (.phys v 0)).eval ρ

theorem lift_none {σ : Subst} {v : Nat} (h : bound σ v = none) (N : Nat) (ρ : Nat → Nat) : lift σ N ρ v = ρ v := by
  unfold lift
  rw [clone_phys_none h]; rfl

theorem lift_some {σ : Subst} {v : Nat} {a : Axis} (h : bound σ v = some a) (N : Nat) (ρ : Nat → Nat) :
    lift σ N ρ v = (clone σ N a).eval ρ := by
  unfold lift
  rw [clone_phys_some h]

/-- the lift is what `viewAt` computes: the size annotation of the physical axis is irrelevant -/
theorem lift_eq (σ : Subst) (N : Nat) (ρ : Nat → Nat) (v m : Nat) :
    lift σ N ρ v = (clone σ (N+1) (.phys v m)).eval ρ := by
  cases hb : bound σ v with
  | none => rw [lift_none hb, clone_phys_none hb]; rfl
  | some a => rw [lift_some hb, clone_phys_some hb]

/-- every binding is resolved by `N` units of fuel -/
def GoodS (σ : Subst) (N : Nat) : Prop := ∀ p ∈ σ, Good σ N p.2

/-- **the clone under `ρ` is the axis under the lift of `ρ`** -/
theorem clone_eval_lift {σ : Subst} (hσ : NumelOkS σ) {N : Nat} (hg : GoodS σ N) (ρ : Nat → Nat) :
    ∀ (n : Nat) (e : Axis), NumelOk σ e → Good σ n e → (clone σ n e).eval ρ = e.eval (lift σ N ρ)
  | 0, e, _, hgd => by
    rw [clone_zero] at *
    apply eval_congr
    intro q hq
    unfold Good at hgd
    rw [clone_zero] at hgd
    rw [lift_none (hgd q hq)]
  | n+1, .phys v m, he, hgd => by
    cases hb : bound σ v with
    | none =>
      rw [clone_phys_none hb]
      show ρ v = lift σ N ρ v
      rw [lift_none hb]
    | some a =>
      have ha : NumelOk σ a := hσ _ (bound_mem hb)
      rw [clone_phys_some hb]
      show _ = lift σ N ρ v
      rw [lift_some hb]
      exact (good_agree hσ ha ((good_phys_some hb n m).1 hgd) (hg _ (bound_mem hb))).1 ρ
  | n+1, .prod fs, he, hgd => by
    have hfs := good_prod.1 hgd
    rw [clone, C06.productAxis_eval, Axis.eval, Axis.eval]
    have := evalList_map_congr ρ (lift σ N ρ) (clone σ n) id fs (fun x hx =>
      ⟨clone_eval_lift hσ hg ρ n x (he.prod x hx) (hfs x hx), clone_numel' hσ n x (he.prod x hx)⟩) 0
    rw [List.map_id] at this
    exact this
  | n+1, .sum b t a, he, hgd => by
    rw [clone, Axis.eval, Axis.eval, clone_eval_lift hσ hg ρ n t (numelOk_sum he) (good_sum.1 hgd)]

theorem bound_of_mem_nodup {σ : Subst} (hnd : (σ.map (·.1)).Nodup) {p : Nat × Axis} (hp : p ∈ σ) :
    bound σ p.1 = some p.2 := by
  cases hb : bound σ p.1 with
  | none =>
    exfalso
    unfold bound at hb
    simp only [Option.map_eq_none_iff, List.find?_eq_none] at hb
    have := hb p hp
    simp at this
  | some a =>
    have hm := bound_mem hb
    have : (p.1, a) = p := List.inj_on_of_nodup_map hnd hm hp rfl
    rw [← this]

/-- **the lift satisfies the substitution** (no key bound twice, every binding resolved by `N` units of fuel) -/
theorem lift_sat {σ : Subst} (hσ : NumelOkS σ) (hnd : (σ.map (·.1)).Nodup) {N : Nat} (hg : GoodS σ N)
    (ρ : Nat → Nat) : Sat (lift σ N ρ) σ := by
  intro p hp
  rw [lift_some (bound_of_mem_nodup hnd hp)]
  exact clone_eval_lift hσ hg ρ N p.2 (hσ p hp) (hg p hp)

/-- a satisfying assignment is its own lift -/
theorem lift_of_sat {σ : Subst} (hσ : NumelOkS σ) {τ : Nat → Nat} (hs : Sat τ σ) (N : Nat) (v : Nat) :
    lift σ N τ v = τ v := by
  cases hb : bound σ v with
  | none => exact lift_none hb N τ
  | some a =>
    have hm := bound_mem hb
    rw [lift_some hb, (clone_spec hs hσ N a (hσ _ hm)).1]
    exact (hs _ hm).symm

/-- the lift depends on `ρ` only through the free axes of the clones -/
theorem lift_congr {σ : Subst} {N : Nat} {ρ ρ' : Nat → Nat} {v : Nat} (m : Nat)
    (h : ∀ q ∈ (clone σ (N+1) (.phys v m)).fv, ρ q.1 = ρ' q.1) : lift σ N ρ v = lift σ N ρ' v := by
  rw [lift_eq σ N ρ v m, lift_eq σ N ρ' v m]
  exact eval_congr ρ ρ' _ h

/-- the free axes of a clone come from the axis or from the bindings -/
theorem clone_fv_sub (σ : Subst) : ∀ (n : Nat) (e : Axis) (q : Nat × Nat), q ∈ (clone σ n e).fv →
    q ∈ e.fv ∨ ∃ p ∈ σ, q ∈ p.2.fv
  | 0, e, q, h => by rw [clone_zero] at h; exact .inl h
  | n+1, .phys v m, q, h => by
    cases hb : bound σ v with
    | none => rw [clone_phys_none hb] at h; exact .inl h
    | some a =>
      rw [clone_phys_some hb] at h
      rcases clone_fv_sub σ n a q h with h1 | h1
      · exact .inr ⟨_, bound_mem hb, h1⟩
      · exact .inr h1
  | n+1, .prod fs, q, h => by
    rw [clone] at h
    obtain ⟨f', hf', hq⟩ := (mem_fv_productAxis _).1 h
    obtain ⟨f, hf, rfl⟩ := List.mem_map.1 hf'
    rcases clone_fv_sub σ n f q hq with h1 | h1
    · exact .inl (mem_fv_prod.2 ⟨f, hf, h1⟩)
    · exact .inr h1
  | n+1, .sum b t a, q, h => by
    rw [clone] at h
    simp only [Axis.fv] at h ⊢
    exact clone_fv_sub σ n t q h

/-- the free axes of a resolved clone are those of the clones of the axis' physical axes -/
theorem clone_fv_phys {σ : Subst} (hσ : NumelOkS σ) {N : Nat} (hg : GoodS σ N) :
    ∀ (n : Nat) (e : Axis), NumelOk σ e → Good σ n e → ∀ q, q ∈ (clone σ n e).fv →
      ∃ k ∈ e.fv, q ∈ (clone σ (N+1) (.phys k.1 k.2)).fv
  | 0, e, _, hgd, q, hq => by
    rw [clone_zero] at hq
    unfold Good at hgd
    rw [clone_zero] at hgd
    exact ⟨q, hq, by rw [clone_phys_none (hgd q hq)]; simp [Axis.fv]⟩
  | n+1, .phys v m, he, hgd, q, hq => by
    refine ⟨(v, m), by simp [Axis.fv], ?_⟩
    cases hb : bound σ v with
    | none => rw [clone_phys_none hb] at hq ⊢; exact hq
    | some a =>
      have ha : NumelOk σ a := hσ _ (bound_mem hb)
      rw [clone_phys_some hb] at hq ⊢
      exact ((good_agree hσ ha ((good_phys_some hb n m).1 hgd) (hg _ (bound_mem hb))).2 q).1 hq
  | n+1, .prod fs, he, hgd, q, hq => by
    rw [clone] at hq
    obtain ⟨f', hf', hq'⟩ := (mem_fv_productAxis _).1 hq
    obtain ⟨f, hf, rfl⟩ := List.mem_map.1 hf'
    obtain ⟨k, hk, hqk⟩ := clone_fv_phys hσ hg n f (he.prod f hf) (good_prod.1 hgd f hf) q hq'
    exact ⟨k, mem_fv_prod.2 ⟨f, hf, hk⟩, hqk⟩
  | n+1, .sum b t a, he, hgd, q, hq => by
    rw [clone] at hq
    simp only [Axis.fv] at hq ⊢
    exact clone_fv_phys hσ hg n t (numelOk_sum he) (good_sum.1 hgd) q hq

theorem FUEL_eq : FUEL = 3999 + 1 := rfl

end C07bL
