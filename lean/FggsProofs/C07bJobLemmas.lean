/-
C07bJobLemmas — what the hypotheses on an einsum job (`C07.JobOK`, here `JobHyp`) give: consistent sizes of the index
variables (`Es.Job.sizes`), a size function for the operands' physical axes, and the facts about the final state of
`Ei.collect` (soundness, most-generality, consistent sizes, no axis of size 1) that the correctness proof uses.
-/
import FggsModel.EinsumImpl
import FggsModel.Einsum
import FggsProofs.C06bLemmas
import FggsProofs.C06dBaseLemmas
import FggsProofs.C06dSideLemmas
import FggsProofs.C07bAlgLemmas
import FggsProofs.C07bCloneLemmas
import FggsProofs.C07bCollectLemmas

set_option linter.unusedSimpArgs false
set_option linter.unusedVariables false

namespace C07bL
open Fggs Fggs.Ax Fggs.Un Fggs.Ei Fggs.Sem C06b C06dL

/-- the hypotheses of `C07.JobOK` (same fields) -/
structure JobHyp (S : SR Ext) (j : EJob) (next : Nat) : Prop where
  wf : ∀ p ∈ j.ops, p.1.wf = true
  zeroDefault : ∀ p ∈ j.ops, p.1.default = S.zero
  arity : ∀ p ∈ j.ops, p.2.length = p.1.vaxes.length
  fresh : ∀ p ∈ j.ops, ∀ k ∈ p.1.paxes, k.1 < next
  pos : ∀ p ∈ j.ops, ∀ k ∈ p.1.paxes, 0 < k.2
  disjoint : j.ops.Pairwise (fun p q => ∀ k ∈ p.1.paxes, ∀ l ∈ q.1.paxes, k.1 ≠ l.1)
  sizes : ∀ p ∈ j.ops, ∀ q ∈ j.ops, ∀ i i', i < p.2.length → i' < q.2.length → p.2[i]? = q.2[i']? →
    p.1.vshape[i]? = q.1.vshape[i']?
  out : ∀ v ∈ j.out, ∃ p ∈ j.ops, v ∈ p.2

theorem mem_zip_iff {α β : Type} {l1 : List α} {l2 : List β} {a : α} {b : β} :
    (a, b) ∈ l1.zip l2 ↔ ∃ i : Nat, l1[i]? = some a ∧ l2[i]? = some b := by
  rw [List.mem_iff_getElem?]
  constructor
  · rintro ⟨i, hi⟩
    exact ⟨i, List.getElem?_zip_eq_some.1 hi⟩
  · rintro ⟨i, hi⟩
    exact ⟨i, List.getElem?_zip_eq_some.2 hi⟩

theorem mem_occs {j : EJob} {e : Axis} {v : Nat} :
    (e, v) ∈ occs j ↔ ∃ p ∈ j.ops, ∃ i : Nat, p.1.vaxes[i]? = some e ∧ p.2[i]? = some v := by
  unfold occs
  rw [List.mem_flatMap]
  constructor
  · rintro ⟨p, hp, h⟩
    exact ⟨p, hp, mem_zip_iff.1 h⟩
  · rintro ⟨p, hp, h⟩
    exact ⟨p, hp, mem_zip_iff.2 h⟩

section job
variable {S : SR Ext} {j : EJob} {next : Nat} (J : JobHyp S j next)
include J

theorem struct_of {p : PT × List Nat} (hp : p ∈ j.ops) : Struct p.1 := (wf_iff_struct _).1 (J.wf p hp)

theorem sem_of {p : PT × List Nat} (hp : p ∈ j.ops) : C06dL.Sem p.1 := (struct_of J hp).sem

/-- a physical axis belongs to one operand only -/
theorem pax_unique {p q : PT × List Nat} (hp : p ∈ j.ops) (hq : q ∈ j.ops) {k l : Nat × Nat} (hk : k ∈ p.1.paxes)
    (hl : l ∈ q.1.paxes) (e : k.1 = l.1) : p = q ∧ k = l := by
  by_cases hpq : p = q
  · subst hpq
    exact ⟨rfl, eq_of_mem_nodup_fst (struct_of J hp).nodup hk hl e⟩
  · exfalso
    have hsymm : Std.Symm (fun (p q : PT × List Nat) => ∀ k ∈ p.1.paxes, ∀ l ∈ q.1.paxes, k.1 ≠ l.1) :=
      ⟨fun a b h k hk l hl e => h l hl k hk e.symm⟩
    exact (List.Pairwise.forall J.disjoint hp hq hpq) k hk l hl e

/-- the size of every physical axis of the operands -/
def sz0 (j : EJob) : Nat → Nat := fun v =>
  match (j.ops.flatMap (fun (p : PT × List Nat) => p.1.paxes)).find? (fun k => k.1 == v) with
  | some k => k.2
  | none => 0

theorem sz0_spec {p : PT × List Nat} (hp : p ∈ j.ops) {k : Nat × Nat} (hk : k ∈ p.1.paxes) : sz0 j k.1 = k.2 := by
  unfold sz0
  cases hf : (j.ops.flatMap (fun (p : PT × List Nat) => p.1.paxes)).find? (fun l => l.1 == k.1) with
  | none =>
    exfalso
    rw [List.find?_eq_none] at hf
    exact hf k (List.mem_flatMap.2 ⟨p, hp, hk⟩) (by simp)
  | some l =>
    have hm := List.mem_of_find?_eq_some hf
    have he : l.1 = k.1 := by simpa using List.find?_some hf
    obtain ⟨q, hq, hl⟩ := List.mem_flatMap.1 hm
    rw [(pax_unique J hq hp hl hk he).2]

/-- the occurrences are virtual axes of operands -/
theorem occ_typed {e : Axis} {v : Nat} (h : (e, v) ∈ occs j) : AxQ (Tp (sz0 j)) next e := by
  obtain ⟨p, hp, i, h1, _⟩ := mem_occs.1 h
  intro q hq
  have hqp : q ∈ p.1.paxes := (struct_of J hp).fvsub e (List.mem_of_getElem? h1) q hq
  exact ⟨J.fresh p hp q hqp, sz0_spec J hp hqp, J.pos p hp q hqp⟩

/-- occurrences of the same index variable have the same size -/
theorem occ_numel {e e' : Axis} {v : Nat} (h : (e, v) ∈ occs j) (h' : (e', v) ∈ occs j) : e.numel = e'.numel := by
  obtain ⟨p, hp, i, h1, h2⟩ := mem_occs.1 h
  obtain ⟨q, hq, i', h1', h2'⟩ := mem_occs.1 h'
  have hi : i < p.2.length := by
    rcases Nat.lt_or_ge i p.2.length with h | h
    · exact h
    · rw [List.getElem?_eq_none h] at h2; cases h2
  have hi' : i' < q.2.length := by
    rcases Nat.lt_or_ge i' q.2.length with h | h
    · exact h
    · rw [List.getElem?_eq_none h] at h2'; cases h2'
  have := J.sizes p hp q hq i i' hi hi' (by rw [h2, h2'])
  unfold PT.vshape at this
  rw [List.getElem?_map, List.getElem?_map, h1, h1'] at this
  simpa using this

end job

/-! ### `Es.Job.sizes` -/

theorem le_foldl_max : ∀ (l : List Nat) (a : Nat), a ≤ l.foldl max a ∧ ∀ x ∈ l, x ≤ l.foldl max a
  | [], a => ⟨Nat.le_refl _, fun x hx => by simp at hx⟩
  | y :: l, a => by
    obtain ⟨h1, h2⟩ := le_foldl_max l (max a y)
    rw [List.foldl_cons]
    refine ⟨Nat.le_trans (Nat.le_max_left a y) h1, fun x hx => ?_⟩
    rcases List.mem_cons.1 hx with rfl | hx
    · exact Nat.le_trans (Nat.le_max_right a x) h1
    · exact h2 x hx

/-- the number of index variables -/
def nvars (ops : List (PT × List Nat)) (out : List Nat) : Nat :=
  ((ops.flatMap (·.2)) ++ out).foldl max 0 + (if (ops.flatMap (·.2) ++ out).isEmpty then 0 else 1)

theorem lt_nvars {ops : List (PT × List Nat)} {out : List Nat} {v : Nat} (h : v ∈ ops.flatMap (·.2) ++ out) :
    v < nvars ops out := by
  unfold nvars
  have h1 := (le_foldl_max (ops.flatMap (·.2) ++ out) 0).2 v h
  have h2 : (ops.flatMap (·.2) ++ out).isEmpty = false := by
    cases hl : ops.flatMap (·.2) ++ out with
    | nil => rw [hl] at h; simp at h
    | cons _ _ => rfl
  rw [h2]
  simp only [Bool.false_eq_true, if_false]
  omega

/-- the size of index variable `v` as `Job.sizes` computes it -/
def sizeOf (ops : List (PT × List Nat)) (v : Nat) : Nat :=
  match ops.findSome? (fun (p : PT × List Nat) => ((p.2.zip p.1.vshape).find? (·.1 == v)).map (·.2)) with
  | some n => n
  | none => 1

theorem sizes_eq (ops : List (PT × List Nat)) (out : List Nat) :
    (Es.Job.mk ops out).sizes = (List.range (nvars ops out)).map (sizeOf ops) := rfl

theorem length_sizes (ops : List (PT × List Nat)) (out : List Nat) :
    (Es.Job.mk ops out).sizes.length = nvars ops out := by
  rw [sizes_eq]; simp

theorem getElem?_sizes (ops : List (PT × List Nat)) (out : List Nat) {v : Nat} (hv : v < nvars ops out) :
    (Es.Job.mk ops out).sizes[v]? = some (sizeOf ops v) := by
  rw [sizes_eq, List.getElem?_map, List.getElem?_range hv]; rfl

section job2
variable {S : SR Ext} {j : EJob} {next : Nat} (J : JobHyp S j next)
include J

/-- every occurrence of an index variable has the size `Job.sizes` gives it -/
theorem sizeOf_occ {e : Axis} {v : Nat} (h : (e, v) ∈ occs j) : sizeOf j.ops v = e.numel := by
  obtain ⟨p, hp, i, h1, h2⟩ := mem_occs.1 h
  unfold sizeOf
  cases hf : j.ops.findSome? (fun (p : PT × List Nat) => ((p.2.zip p.1.vshape).find? (·.1 == v)).map (·.2)) with
  | none =>
    exfalso
    rw [List.findSome?_eq_none_iff] at hf
    have := hf p hp
    simp only [Option.map_eq_none_iff, List.find?_eq_none] at this
    have hm : (v, e.numel) ∈ p.2.zip p.1.vshape := by
      rw [mem_zip_iff]
      refine ⟨i, h2, ?_⟩
      unfold PT.vshape
      rw [List.getElem?_map, h1]; rfl
    exact this _ hm (by simp)
  | some n =>
    obtain ⟨q, hq, hfq⟩ := List.exists_of_findSome?_eq_some hf
    rw [Option.map_eq_some_iff] at hfq
    obtain ⟨x, hx, rfl⟩ := hfq
    have hm := List.mem_of_find?_eq_some hx
    have hk : x.1 = v := by simpa using List.find?_some hx
    obtain ⟨i', g1, g2⟩ := mem_zip_iff.1 (show (x.1, x.2) ∈ q.2.zip q.1.vshape from hm)
    unfold PT.vshape at g2
    rw [List.getElem?_map] at g2
    cases hq' : q.1.vaxes[i']? with
    | none => rw [hq'] at g2; cases g2
    | some e' =>
      rw [hq'] at g2
      simp only [Option.map_some, Option.some.injEq] at g2
      rw [hk] at g1
      have : (e', v) ∈ occs j := mem_occs.2 ⟨q, hq, i', hq', g1⟩
      show x.2 = e.numel
      rw [← g2]
      exact occ_numel J this h

omit J in
/-- a variable that no operand uses has size 1 -/
theorem sizeOf_unused {v : Nat} (h : ∀ p ∈ j.ops, v ∉ p.2) : sizeOf j.ops v = 1 := by
  unfold sizeOf
  cases hf : j.ops.findSome? (fun (p : PT × List Nat) => ((p.2.zip p.1.vshape).find? (·.1 == v)).map (·.2)) with
  | none => rfl
  | some n =>
    exfalso
    obtain ⟨q, hq, hfq⟩ := List.exists_of_findSome?_eq_some hf
    rw [Option.map_eq_some_iff] at hfq
    obtain ⟨x, hx, rfl⟩ := hfq
    have hm := List.mem_of_find?_eq_some hx
    have hk : x.1 = v := by simpa using List.find?_some hx
    have := (List.of_mem_zip (show (x.1, x.2) ∈ q.2.zip q.1.vshape from hm)).1
    rw [hk] at this
    exact h q hq this

end job2

end C07bL
