/-
C07bCexLemmas — a commutative semiring on ALL of `Ext` (the lattice `(max, min)` of a linear order with bottom `nan`
and top `pinf`), used to instantiate `C07.einsum_dense` in the counterexample to the statement without `resolved`.
-/
import FggsModel.Sem
import FggsProofs.Props.C01
import Mathlib.Data.Prod.Lex
import Mathlib.Order.Lattice
import Mathlib.Order.MinMax
import Mathlib.Algebra.Order.Ring.Rat

set_option linter.unusedSimpArgs false
set_option linter.unusedVariables false

namespace C07bL
open Fggs Fggs.Sem

/-- an injection of `Ext` into a linear order: `nan < -∞ < finite (by value) < +∞` -/
def extKey : Ext → ℕ ×ₗ ℚ
  | .nan => toLex (0, 0)
  | .ninf => toLex (1, 0)
  | .fin a => toLex (2, a)
  | .pinf => toLex (3, 0)

theorem extKey_inj : Function.Injective extKey := by
  intro a b h
  cases a <;> cases b <;> simp [extKey] at h ⊢
  exact h

/-- the linear order on `Ext` pulled back along `extKey` -/
@[reducible] def extOrder : LinearOrder Ext := LinearOrder.lift' extKey extKey_inj

/-- the lattice semiring on `Ext`: sum = maximum, product = minimum, zero = `nan` (bottom), one = `+∞` (top) -/
def latSR : SR Ext := ⟨.nan, .pinf, extOrder.max, extOrder.min⟩

theorem nan_le (a : Ext) : extOrder.le .nan a := by
  show extKey .nan ≤ extKey a
  cases a <;> simp [extKey, Prod.Lex.le_iff]

theorem le_pinf (a : Ext) : extOrder.le a .pinf := by
  show extKey a ≤ extKey .pinf
  cases a <;> simp [extKey, Prod.Lex.le_iff]

theorem latSR_laws : C01.SRLaws latSR := by
  let _ := extOrder
  constructor
  · intro a b c; exact max_assoc a b c
  · intro a b; exact max_comm a b
  · intro a; exact max_eq_right (nan_le a)
  · intro a b c; exact min_assoc a b c
  · intro a b; exact min_comm a b
  · intro a; exact min_eq_right (le_pinf a)
  · intro a; exact min_eq_left (nan_le a)
  · intro a b c; exact min_max_distrib_left a b c

end C07bL
