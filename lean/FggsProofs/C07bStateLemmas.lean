/-
C07bStateLemmas — the facts about the final state of `Ei.collect` on a job satisfying `JobHyp` when every unification
succeeded: the table holds the first occurrence of every index variable; the substitution is consistently sized,
introduces no axis of size 1, equalises all occurrences of an index variable (soundness) and loses no joint
assignment of the operands' physical axes that equalises them (most general).
-/
import FggsProofs.C07bJobLemmas

set_option linter.unusedSimpArgs false
set_option linter.unusedVariables false

namespace C07bL
open Fggs Fggs.Ax Fggs.Un Fggs.Ei Fggs.Sem C06b C06dL

structure Facts (j : EJob) (next : Nat) (tbl : List (Nat × Axis)) (st : St) (sz : Nat → Nat) : Prop where
  sized : SizedSt sz st
  szpax : ∀ p ∈ j.ops, ∀ k ∈ p.1.paxes, sz k.1 = k.2
  le : next ≤ st.next
  no1 : StQ N1 st
  tblmem : ∀ v e0, tbl.lookup v = some e0 → (e0, v) ∈ occs j
  tblocc : ∀ q ∈ occs j, ∃ e0, tbl.lookup q.2 = some e0
  sound : ∀ ρ, Sat ρ st.subst → ∀ q ∈ occs j, ∀ e0, tbl.lookup q.2 = some e0 → e0.eval ρ = q.1.eval ρ
  mgu : ∀ ρ, (∀ p ∈ j.ops, ∀ k ∈ p.1.paxes, ρ k.1 < k.2) →
    (∀ q ∈ occs j, ∀ q' ∈ occs j, q.2 = q'.2 → q.1.eval ρ = q'.1.eval ρ) →
    ∃ ρ', Agree next ρ ρ' ∧ Sat ρ' st.subst ∧ InRangeS ρ' st.subst

theorem stQ_nil (Q : Nat → Nat × Nat → Prop) (next : Nat) : StQ Q ⟨[], next⟩ := fun p hp => nomatch hp

theorem facts_of_collect {S : SR Ext} {j : EJob} {next : Nat} (J : JobHyp S j next) {fuel : Nat}
    {tbl : List (Nat × Axis)} {st : St} (hc : collect fuel j next = (tbl, true, st)) :
    ∃ sz, Facts j next tbl st sz := by
  rw [collect_eq] at hc
  obtain ⟨-, htbl, hr⟩ := fold_spec fuel _ _ _ _ _ _ hc
  obtain ⟨t1, -, t3, t4⟩ := tbl_props (occs j) (occs j) [] (fun q hq => hq) (fun v e0 h => by simp at h)
  rw [← htbl] at t1 t3
  have hocc : ∀ p ∈ pairsOf [] (occs j), ∃ v, (p.1, v) ∈ occs j ∧ (p.2, v) ∈ occs j := t4
  have hfv : ∀ {e : Axis} {v : Nat}, (e, v) ∈ occs j → ∃ p ∈ j.ops, ∀ q ∈ e.fv, q ∈ p.1.paxes := by
    intro e v h
    obtain ⟨p, hp, i, h1, _⟩ := mem_occs.1 h
    exact ⟨p, hp, (struct_of J hp).fvsub e (List.mem_of_getElem? h1)⟩
  have hty : PairsQ (Tp (sz0 j)) next (pairsOf [] (occs j)) := by
    intro p hp
    obtain ⟨v, h1, h2⟩ := hocc p hp
    exact ⟨occ_typed J h1, occ_typed J h2⟩
  have hnum : ∀ p ∈ pairsOf [] (occs j), p.1.numel = p.2.numel := by
    intro p hp
    obtain ⟨v, h1, h2⟩ := hocc p hp
    exact occ_numel J h1 h2
  obtain ⟨sz, hag, hsz⟩ := hr.sized (sz0 j) ⟨stQ_nil _ _, fun p hp => nomatch hp⟩ hty hnum
  refine ⟨sz, hsz, ?_, hr.grows.2, ?_, t1, ?_, ?_, ?_⟩
  · intro p hp k hk
    rw [hag k.1 (J.fresh p hp k hk)]
    exact sz0_spec J hp hk
  · refine RunAll.no1 hr (stQ_nil _ _) ?_
    intro p hp
    obtain ⟨v, h1, h2⟩ := hocc p hp
    obtain ⟨p1, hp1, f1⟩ := hfv h1
    obtain ⟨p2, hp2, f2⟩ := hfv h2
    exact ⟨fun q hq => (struct_of J hp1).no1 q (f1 q hq), fun q hq => (struct_of J hp2).no1 q (f2 q hq)⟩
  · intro q hq
    obtain ⟨e0, h1, _⟩ := t3 q hq
    exact ⟨e0, h1⟩
  · intro ρ hs q hq e0 hl
    obtain ⟨e0', h1, h2⟩ := t3 q hq
    rw [hl] at h1
    cases h1
    rcases h2 with h2 | h2
    · rw [h2]
    · exact hr.sound (stQ_nil _ _) (fun p hp => ⟨Tp.nz (hty p hp).1, Tp.nz (hty p hp).2⟩) ρ hs _ h2
  · intro ρ hρ heq
    refine hr.mgu (stQ_nil _ _) (fun p hp => ⟨fun q hq => ((hty p hp).1 q hq).1, fun q hq => ((hty p hp).2 q hq).1⟩)
      ρ (fun p hp => nomatch hp) (fun p hp => nomatch hp) ?_ ?_
    · intro p hp
      obtain ⟨v, h1, h2⟩ := hocc p hp
      obtain ⟨p1, hp1, f1⟩ := hfv h1
      obtain ⟨p2, hp2, f2⟩ := hfv h2
      exact ⟨fun q hq => hρ p1 hp1 q (f1 q hq), fun q hq => hρ p2 hp2 q (f2 q hq)⟩
    · intro p hp
      obtain ⟨v, h1, h2⟩ := hocc p hp
      exact heq _ h1 _ h2 rfl

end C07bL
