/-
C09dCtxLemmas — helpers for Props/C09d.lean, part 3: the dense matrix `solve` reads out of an operand.

`PCtx T σ F1 F2 X sz` collects what is known when `solve` converts an operand `T` "to a regular matrix": `σ` is the
substitution of a successful unification of `T`'s virtual axes with the pattern axes `X` (sound and most general),
consistently sized, without axes of size 0 or 1, no identity bound twice, every binding resolved by `FUEL - 2` units of
fuel; `F1` / `F2` are the physical axes of the pattern that enumerate the rows / columns.  Then the patterned tensor
`projT T σ F1 F2` (physical = `projected T σ`, virtual axes = the clones of the products of `F1` and of `F2`) is its own
normal form and its dense matrix holds, at row `i1` and column `i2`, the cell of `T.dense` at the virtual index the
pattern `X` denotes under the assignment `(i1, i2)` of `F1 ++ F2` (`PCtx.toMat_eq`).
-/
import FggsModel.PatSolve
import FggsProofs.C09dProjLemmas
import FggsProofs.C07bAlgLemmas
import Mathlib.Tactic.Linarith
import Mathlib.Data.List.Basic
import Mathlib.Data.List.Nodup

set_option linter.unusedSimpArgs false
set_option linter.unusedVariables false

namespace C09dL
open Fggs Fggs.Ax Fggs.Un Fggs.Sd Fggs.Ps C06b C06dL C07bL

/-! ### the product of a list of physical axes -/

theorem flatMap_physL : ∀ (F : List (Nat × Nat)), flat1 (physL F) = physL F
  | [] => rfl
  | k :: F => by
    have ih := flatMap_physL F
    unfold flat1 physL at ih ⊢
    rw [List.map_cons, List.flatMap_cons, ih]
    rfl

theorem productAxis_physL_two (k1 k2 : Nat × Nat) (F : List (Nat × Nat)) :
    productAxis (physL (k1 :: k2 :: F)) = .prod (physL (k1 :: k2 :: F)) := by
  rw [productAxis_eq, flatMap_physL]
  rfl

theorem mem_fv_prodPhys (F : List (Nat × Nat)) (q : Nat × Nat) : q ∈ (productAxis (physL F)).fv ↔ q ∈ F := by
  rw [mem_fv_productAxis]
  constructor
  · rintro ⟨f, hf, hq⟩
    obtain ⟨k, hk, rfl⟩ := List.mem_map.1 hf
    simp only [Axis.fv, List.mem_singleton] at hq
    rw [hq]; exact hk
  · intro h
    exact ⟨.phys q.1 q.2, List.mem_map.2 ⟨q, h, rfl⟩, by simp [Axis.fv]⟩

theorem numelList_physL : ∀ (F : List (Nat × Nat)), numelList (physL F) = numel (F.map (·.2))
  | [] => rfl
  | k :: F => by
    have ih := numelList_physL F
    unfold physL at ih ⊢
    rw [List.map_cons, numelList, List.map_cons, numel_cons, ih]
    rfl

theorem prodPhys_numel (F : List (Nat × Nat)) : (productAxis (physL F)).numel = numel (F.map (·.2)) := by
  rw [C06.productAxis_numel, Axis.numel, numelList_physL]

theorem prodPhys_eval (F : List (Nat × Nat)) (ρ : Nat → Nat) :
    (productAxis (physL F)).eval ρ = flat (F.map (·.2)) (pidx F ρ) := by
  rw [C06.productAxis_eval, C06.evalList_eq_flat']
  unfold physL pidx
  rw [List.map_map, List.map_map]
  rfl

theorem flat2 (a b i j : Nat) : flat [a, b] [i, j] = i * b + j := by
  simp [flat, numel]

theorem normalize_of_no1 (T : PT) (h : ∀ p ∈ T.paxes, p.2 ≠ 1) : Bn.normalize T = T := by
  rw [normalize_eq]
  rw [if_pos]
  unfold unitSubst
  rw [List.isEmpty_iff, List.map_eq_nil_iff, List.filter_eq_nil_iff]
  intro p hp
  simpa using h p hp

theorem normalize_default (T : PT) : (Bn.normalize T).default = T.default := by
  rw [normalize_eq]
  split <;> rfl

theorem map_eq_getElem {α β γ : Type} {l1 : List α} {l2 : List β} {f : α → γ} {g : β → γ}
    (h : l1.map f = l2.map g) (i : Nat) (h1 : i < l1.length) (h2 : i < l2.length) : f l1[i] = g l2[i] := by
  have := congrArg (fun l => l[i]?) h
  simp only [List.getElem?_map, List.getElem?_eq_getElem h1, List.getElem?_eq_getElem h2, Option.map_some] at this
  exact Option.some.inj this

/-! ### the tensor `solve` builds from an operand -/

/-- the row (column) axis: the product of the pattern's physical axes under the substitution -/
def rowAx (σ : Subst) (F : List (Nat × Nat)) : Axis := clone σ FUEL (productAxis (physL F))

/-- the operand re-indexed through the substitution, as a matrix over the pattern's axes (before `normalize`) -/
def projT (T : PT) (σ : Subst) (F1 F2 : List (Nat × Nat)) : PT :=
  { physical := (projected T σ).1, paxes := (projected T σ).2, vaxes := [rowAx σ F1, rowAx σ F2], default := T.default }

/-- the cell of the dense tensor at an index tuple (`C09d.cell`) -/
def cellOf (T : PT) (idx : List Nat) : Ext := T.dense[flat T.vshape idx]?.getD T.default

/-- every physical axis evaluated through the substitution -/
def Lf (σ : Subst) (γ : Nat → Nat) : Nat → Nat := lift σ 3998 γ

structure PCtx (T : PT) (σ : Subst) (F1 F2 : List (Nat × Nat)) (X : List Axis) (sz : Nat → Nat) : Prop where
  st : Struct T
  szA : ∀ q ∈ T.paxes ++ (F1 ++ F2), q.2 = sz q.1 ∧ 2 ≤ q.2
  szσ : ∀ p ∈ σ, p.2.numel = sz p.1 ∧ ∀ q ∈ p.2.fv, q.2 = sz q.1 ∧ 2 ≤ q.2
  nd : (σ.map (·.1)).Nodup
  good : GoodS σ 3998
  ndF : ((F1 ++ F2).map (·.1)).Nodup
  fvX : ∀ x ∈ X, ∀ q ∈ x.fv, q ∈ F1 ++ F2
  occX : ∀ q ∈ F1 ++ F2, ∃ x ∈ X, q ∈ x.fv
  numX : X.map Axis.numel = T.vshape
  sound : ∀ ρ, Sat ρ σ → T.vaxes.map (Axis.eval ρ) = X.map (Axis.eval ρ)
  mgu : ∀ τ ρ, (∀ q ∈ T.paxes, τ q.1 < q.2) → (∀ q ∈ F1 ++ F2, ρ q.1 < q.2) →
      T.vaxes.map (Axis.eval τ) = X.map (Axis.eval ρ) →
      ∃ ρ', (∀ q ∈ T.paxes, ρ' q.1 = τ q.1) ∧ (∀ q ∈ F1 ++ F2, ρ' q.1 = ρ q.1) ∧ Sat ρ' σ ∧ InRangeS ρ' σ

section ctx
variable {T : PT} {σ : Subst} {F1 F2 : List (Nat × Nat)} {X : List Axis} {sz : Nat → Nat}

theorem PCtx.numelOkS (C : PCtx T σ F1 F2 X sz) : NumelOkS σ := by
  intro p hp q hq b hb
  rw [(C.szσ _ (bound_mem hb)).1, ((C.szσ p hp).2 q hq).1]

theorem PCtx.numelOk (C : PCtx T σ F1 F2 X sz) {k : Nat × Nat} (hk : k ∈ T.paxes ++ (F1 ++ F2)) :
    NumelOk σ (.phys k.1 k.2) := by
  intro q hq b hb
  simp only [Axis.fv, List.mem_singleton] at hq
  subst hq
  rw [(C.szσ _ (bound_mem hb)).1]
  exact (C.szA k hk).1.symm

theorem PCtx.good9 (C : PCtx T σ F1 F2 X sz) (k : Nat × Nat) : Good σ 3999 (.phys k.1 k.2) := by
  cases hb : bound σ k.1 with
  | none =>
    unfold Good
    rw [clone_phys_none hb]
    intro q hq
    simp only [Axis.fv, List.mem_singleton] at hq
    rw [hq]; exact hb
  | some a => exact (good_phys_some hb 3998 k.2).2 (C.good _ (bound_mem hb))

theorem PCtx.goodF (C : PCtx T σ F1 F2 X sz) {k : Nat × Nat} (hk : k ∈ T.paxes ++ (F1 ++ F2)) :
    Good σ FUEL (.phys k.1 k.2) :=
  (good_succ C.numelOkS 3999 _ (C.numelOk hk) (C.good9 k)).1

theorem PCtx.fv_9F (C : PCtx T σ F1 F2 X sz) {k : Nat × Nat} (hk : k ∈ T.paxes ++ (F1 ++ F2)) (q : Nat × Nat) :
    q ∈ (clone σ FUEL (.phys k.1 k.2)).fv ↔ q ∈ (clone σ 3999 (.phys k.1 k.2)).fv :=
  (good_succ C.numelOkS 3999 _ (C.numelOk hk) (C.good9 k)).2.2 q

theorem PCtx.Lf_sat (C : PCtx T σ F1 F2 X sz) (γ : Nat → Nat) : Sat (Lf σ γ) σ :=
  lift_sat C.numelOkS C.nd C.good γ

theorem PCtx.clone_eval (C : PCtx T σ F1 F2 X sz) {n : Nat} {e : Axis} (he : NumelOk σ e) (hg : Good σ n e)
    (γ : Nat → Nat) : (clone σ n e).eval γ = e.eval (Lf σ γ) :=
  clone_eval_lift C.numelOkS C.good γ n e he hg

theorem PCtx.phys_eval (C : PCtx T σ F1 F2 X sz) {k : Nat × Nat} (hk : k ∈ T.paxes ++ (F1 ++ F2)) (γ : Nat → Nat) :
    (clone σ FUEL (.phys k.1 k.2)).eval γ = Lf σ γ k.1 := by
  rw [C.clone_eval (C.numelOk hk) (C.goodF hk) γ]; rfl

theorem PCtx.fv_big (C : PCtx T σ F1 F2 X sz) {k : Nat × Nat} (hk : k ∈ T.paxes ++ (F1 ++ F2)) {n : Nat}
    {q : Nat × Nat} (hq : q ∈ (clone σ n (.phys k.1 k.2)).fv) : q.2 = sz q.1 ∧ 2 ≤ q.2 := by
  rcases clone_fv_sub σ n _ q hq with h | ⟨p, hp, h⟩
  · simp only [Axis.fv, List.mem_singleton] at h
    rw [h]; exact C.szA k hk
  · exact (C.szσ p hp).2 q h

theorem PCtx.Lf_lt (C : PCtx T σ F1 F2 X sz) {k : Nat × Nat} (hk : k ∈ T.paxes ++ (F1 ++ F2)) {γ : Nat → Nat}
    (hγ : ∀ q ∈ (clone σ FUEL (.phys k.1 k.2)).fv, γ q.1 < q.2) : Lf σ γ k.1 < k.2 := by
  rw [← C.phys_eval hk γ]
  have := C06.eval_lt_numel _ γ hγ
  rw [clone_numel' C.numelOkS FUEL _ (C.numelOk hk)] at this
  exact this

theorem PCtx.Lf_congr (C : PCtx T σ F1 F2 X sz) {k : Nat × Nat} (hk : k ∈ T.paxes ++ (F1 ++ F2)) {γ γ' : Nat → Nat}
    (h : ∀ q ∈ (clone σ FUEL (.phys k.1 k.2)).fv, γ q.1 = γ' q.1) : Lf σ γ k.1 = Lf σ γ' k.1 := by
  rw [← C.phys_eval hk γ, ← C.phys_eval hk γ']
  exact eval_congr γ γ' _ h

theorem PCtx.mem_P2 (C : PCtx T σ F1 F2 X sz) (q : Nat × Nat) :
    q ∈ (projected T σ).2 ↔ ∃ k ∈ T.paxes, q ∈ (clone σ FUEL (.phys k.1 k.2)).fv :=
  mem_projAxes T σ sz (fun k hk q hq => (C.fv_big (List.mem_append_left _ hk) hq).1) q

theorem PCtx.P2_big (C : PCtx T σ F1 F2 X sz) {q : Nat × Nat} (hq : q ∈ (projected T σ).2) :
    q.2 = sz q.1 ∧ 2 ≤ q.2 := by
  obtain ⟨k, hk, h⟩ := (C.mem_P2 q).1 hq
  exact C.fv_big (List.mem_append_left _ hk) h

theorem PCtx.len (C : PCtx T σ F1 F2 X sz) : X.length = T.vaxes.length := by
  have := congrArg List.length C.numX
  simpa [PT.vshape] using this

/-- the free axes of the clones of the pattern's axes are axes of `projected` (semantic argument: the pattern and the
operand's virtual axes are the same function of the free axes) -/
theorem PCtx.fvF (C : PCtx T σ F1 F2 X sz) {k : Nat × Nat} (hk : k ∈ F1 ++ F2) {q : Nat × Nat}
    (hq : q ∈ (clone σ FUEL (.phys k.1 k.2)).fv) : q ∈ (projected T σ).2 := by
  by_contra hn
  have hk' : k ∈ T.paxes ++ (F1 ++ F2) := List.mem_append_right _ hk
  obtain ⟨x, hx, hkx⟩ := C.occX k hk
  obtain ⟨i, hi, hxi⟩ := List.getElem_of_mem hx
  have hi' : i < T.vaxes.length := by rw [← C.len]; exact hi
  have hqb := C.fv_big hk' hq
  have r0 : ∀ k' ∈ T.paxes ++ (F1 ++ F2), ∀ q' ∈ (clone σ FUEL (.phys k'.1 k'.2)).fv, (fun _ : Nat => 0) q'.1 < q'.2 := by
    intro k' hk'' q' hq'
    have := (C.fv_big hk'' hq').2
    show 0 < q'.2
    omega
  have r1 : ∀ k' ∈ T.paxes ++ (F1 ++ F2), ∀ q' ∈ (clone σ FUEL (.phys k'.1 k'.2)).fv,
      (fun v : Nat => if v = q.1 then 1 else 0) q'.1 < q'.2 := by
    intro k' hk'' q' hq'
    have := (C.fv_big hk'' hq').2
    show (if q'.1 = q.1 then 1 else 0) < q'.2
    split <;> omega
  have hst : ∀ γ, x.eval (Lf σ γ) = (T.vaxes[i]).eval (Lf σ γ) := by
    intro γ
    have := map_eq_getElem (C.sound _ (C.Lf_sat γ)) i hi' hi
    rw [← hxi]; exact this.symm
  have ht : (T.vaxes[i]).eval (Lf σ (fun _ => 0)) = (T.vaxes[i]).eval (Lf σ (fun v => if v = q.1 then 1 else 0)) := by
    apply eval_congr
    intro k' hk''
    have hkT : k' ∈ T.paxes := C.st.fvsub _ (List.getElem_mem hi') k' hk''
    apply C.Lf_congr (List.mem_append_left _ hkT)
    intro q' hq'
    show 0 = if q'.1 = q.1 then 1 else 0
    by_cases e : q'.1 = q.1
    · exfalso
      have hb' := C.fv_big (List.mem_append_left _ hkT) hq'
      have : q' = q := Prod.ext e (by rw [hb'.1, hqb.1, e])
      rw [this] at hq'
      exact hn ((C.mem_P2 q).2 ⟨k', hkT, hq'⟩)
    · rw [if_neg e]
  have hx01 : x.eval (Lf σ (fun _ => 0)) = x.eval (Lf σ (fun v => if v = q.1 then 1 else 0)) := by
    rw [hst, hst, ht]
  have hin0 : InRange (Lf σ (fun _ => 0)) x := fun k'' hk'' =>
    C.Lf_lt (List.mem_append_right _ (C.fvX x hx k'' hk'')) (r0 _ (List.mem_append_right _ (C.fvX x hx k'' hk'')))
  have hin1 : InRange (Lf σ (fun v => if v = q.1 then 1 else 0)) x := fun k'' hk'' =>
    C.Lf_lt (List.mem_append_right _ (C.fvX x hx k'' hk'')) (r1 _ (List.mem_append_right _ (C.fvX x hx k'' hk'')))
  have hL := eval_inj _ _ x hin0 hin1 hx01 k hkx
  rw [← C.phys_eval hk', ← C.phys_eval hk'] at hL
  have := eval_inj _ _ _ (fun q' hq' => r0 k hk' q' hq') (fun q' hq' => r1 k hk' q' hq') hL q hq
  simp at this

theorem PCtx.Lf_range (C : PCtx T σ F1 F2 X sz) {γ : Nat → Nat} (hγ : ∀ q ∈ (projected T σ).2, γ q.1 < q.2) :
    ∀ k ∈ T.paxes ++ (F1 ++ F2), Lf σ γ k.1 < k.2 := by
  intro k hk
  apply C.Lf_lt hk
  intro q hq
  rcases List.mem_append.1 hk with h | h
  · exact hγ q ((C.mem_P2 q).2 ⟨k, h, hq⟩)
  · exact hγ q (C.fvF h hq)

/-! ### the row and column axes -/

theorem PCtx.rowAx_good (C : PCtx T σ F1 F2 X sz) {F : List (Nat × Nat)} (hF : ∀ k ∈ F, k ∈ T.paxes ++ (F1 ++ F2)) :
    Good σ FUEL (productAxis (physL F)) := by
  match F, hF with
  | [], _ =>
    show Good σ (3999+1) (.prod [])
    exact good_prod.2 (fun f hf => nomatch hf)
  | [k], hF =>
    show Good σ FUEL (.phys k.1 k.2)
    exact C.goodF (hF k (by simp))
  | k1 :: k2 :: F, hF =>
    rw [productAxis_physL_two]
    show Good σ (3999+1) _
    refine good_prod.2 (fun f hf => ?_)
    obtain ⟨k, hk, rfl⟩ := List.mem_map.1 hf
    exact C.good9 k

theorem PCtx.rowAx_numelOk (C : PCtx T σ F1 F2 X sz) {F : List (Nat × Nat)}
    (hF : ∀ k ∈ F, k ∈ T.paxes ++ (F1 ++ F2)) : NumelOk σ (productAxis (physL F)) := by
  intro q hq b hb
  have hqF := (mem_fv_prodPhys F q).1 hq
  exact C.numelOk (hF q hqF) (q.1, q.2) (by simp [Axis.fv]) b hb

theorem PCtx.rowAx_eval (C : PCtx T σ F1 F2 X sz) {F : List (Nat × Nat)} (hF : ∀ k ∈ F, k ∈ T.paxes ++ (F1 ++ F2))
    (γ : Nat → Nat) : (rowAx σ F).eval γ = flat (F.map (·.2)) (pidx F (Lf σ γ)) := by
  unfold rowAx
  rw [C.clone_eval (C.rowAx_numelOk hF) (C.rowAx_good hF) γ, prodPhys_eval]

theorem PCtx.rowAx_numel (C : PCtx T σ F1 F2 X sz) {F : List (Nat × Nat)} (hF : ∀ k ∈ F, k ∈ T.paxes ++ (F1 ++ F2)) :
    (rowAx σ F).numel = numel (F.map (·.2)) := by
  unfold rowAx
  rw [clone_numel' C.numelOkS FUEL _ (C.rowAx_numelOk hF), prodPhys_numel]

theorem PCtx.rowAx_fv (C : PCtx T σ F1 F2 X sz) {F : List (Nat × Nat)} (hF : ∀ k ∈ F, k ∈ T.paxes ++ (F1 ++ F2))
    {q : Nat × Nat} (hq : q ∈ (rowAx σ F).fv) : ∃ k ∈ F, q ∈ (clone σ FUEL (.phys k.1 k.2)).fv := by
  obtain ⟨k, hk, h⟩ := clone_fv_phys C.numelOkS C.good FUEL _ (C.rowAx_numelOk hF) (C.rowAx_good hF) q hq
  have hkF := (mem_fv_prodPhys F k).1 hk
  exact ⟨k, hkF, (C.fv_9F (hF k hkF) q).2 h⟩

theorem PCtx.hF1 (C : PCtx T σ F1 F2 X sz) : ∀ k ∈ F1, k ∈ T.paxes ++ (F1 ++ F2) :=
  fun k hk => List.mem_append_right _ (List.mem_append_left _ hk)

theorem PCtx.hF2 (C : PCtx T σ F1 F2 X sz) : ∀ k ∈ F2, k ∈ T.paxes ++ (F1 ++ F2) :=
  fun k hk => List.mem_append_right _ (List.mem_append_right _ hk)

theorem PCtx.projT_vshape (C : PCtx T σ F1 F2 X sz) :
    (projT T σ F1 F2).vshape = [numel (F1.map (·.2)), numel (F2.map (·.2))] := by
  unfold projT PT.vshape
  simp only [List.map_cons, List.map_nil]
  rw [C.rowAx_numel C.hF1, C.rowAx_numel C.hF2]

theorem pidx_eq_iff {F : List (Nat × Nat)} {ρ ρ' : Nat → Nat} : pidx F ρ = pidx F ρ' ↔ ∀ k ∈ F, ρ k.1 = ρ' k.1 := by
  unfold pidx
  exact List.map_inj_left

/-- the row index determines the assignment of the row axes -/
theorem PCtx.pidx_of_flat (C : PCtx T σ F1 F2 X sz) {F : List (Nat × Nat)} {ρ ρ' : Nat → Nat}
    (h1 : ∀ k ∈ F, ρ k.1 < k.2) (h2 : ∀ k ∈ F, ρ' k.1 < k.2)
    (h : flat (F.map (·.2)) (pidx F ρ) = flat (F.map (·.2)) (pidx F ρ')) : ∀ k ∈ F, ρ k.1 = ρ' k.1 :=
  pidx_eq_iff.1 (flat_inj (pidx_mem_assigns ρ F h1) (pidx_mem_assigns ρ' F h2) h)

theorem PCtx.projT_sem (C : PCtx T σ F1 F2 X sz) : Sem (projT T σ F1 F2) where
  nodup := projAxes_nodup T σ
  fvsub := by
    intro e he q hq
    have he' : e ∈ [rowAx σ F1, rowAx σ F2] := he
    simp only [List.mem_cons, List.not_mem_nil, or_false] at he'
    rcases he' with rfl | rfl
    · obtain ⟨k, hk, h⟩ := C.rowAx_fv C.hF1 hq
      exact C.fvF (List.mem_append_left _ hk) h
    · obtain ⟨k, hk, h⟩ := C.rowAx_fv C.hF2 hq
      exact C.fvF (List.mem_append_right _ hk) h
  inj := by
    intro γ γ' h1 h2 he p hp
    have he' : [(rowAx σ F1).eval γ, (rowAx σ F2).eval γ] = [(rowAx σ F1).eval γ', (rowAx σ F2).eval γ'] := he
    rw [C.rowAx_eval C.hF1, C.rowAx_eval C.hF2, C.rowAx_eval C.hF1, C.rowAx_eval C.hF2] at he'
    have e1 := List.head_eq_of_cons_eq he'
    have e2 := List.head_eq_of_cons_eq (List.tail_eq_of_cons_eq he')
    have g1 := C.Lf_range h1
    have g2 := C.Lf_range h2
    have a1 := C.pidx_of_flat (fun k hk => g1 k (C.hF1 k hk)) (fun k hk => g2 k (C.hF1 k hk)) e1
    have a2 := C.pidx_of_flat (fun k hk => g1 k (C.hF2 k hk)) (fun k hk => g2 k (C.hF2 k hk)) e2
    have hX : X.map (Axis.eval (Lf σ γ)) = X.map (Axis.eval (Lf σ γ')) := by
      apply List.map_congr_left
      intro x hx
      apply eval_congr
      intro q hq
      rcases List.mem_append.1 (C.fvX x hx q hq) with h | h
      · exact a1 q h
      · exact a2 q h
    have hT : T.vaxes.map (Axis.eval (Lf σ γ)) = T.vaxes.map (Axis.eval (Lf σ γ')) := by
      rw [C.sound _ (C.Lf_sat γ), C.sound _ (C.Lf_sat γ'), hX]
    have hag := C.st.sem.inj _ _ (fun k hk => g1 k (List.mem_append_left _ hk))
      (fun k hk => g2 k (List.mem_append_left _ hk)) hT
    obtain ⟨k, hk, hpk⟩ := (C.mem_P2 p).1 hp
    have hk' : k ∈ T.paxes ++ (F1 ++ F2) := List.mem_append_left _ hk
    have := hag k hk
    rw [← C.phys_eval hk', ← C.phys_eval hk'] at this
    exact eval_inj γ γ' _ (fun q hq => h1 q ((C.mem_P2 q).2 ⟨k, hk, hq⟩))
      (fun q hq => h2 q ((C.mem_P2 q).2 ⟨k, hk, hq⟩)) this p hpk

/-! ### the cells -/

/-- the assignment of `F1 ++ F2` given by a pair of index tuples -/
theorem env12 {F1 F2 : List (Nat × Nat)} (nd : ((F1 ++ F2).map (·.1)).Nodup) {i1 i2 : List Nat}
    (h1 : i1 ∈ assigns (F1.map (·.2))) (h2 : i2 ∈ assigns (F2.map (·.2))) :
    (∀ q ∈ F1 ++ F2, envOf (F1 ++ F2) (i1 ++ i2) q.1 < q.2) ∧
    pidx F1 (envOf (F1 ++ F2) (i1 ++ i2)) = i1 ∧ pidx F2 (envOf (F1 ++ F2) (i1 ++ i2)) = i2 := by
  have hm : i1 ++ i2 ∈ assigns ((F1 ++ F2).map (·.2)) := by
    rw [List.map_append]; exact mem_assigns_append h1 h2
  have hl : (i1 ++ i2).length = (F1 ++ F2).length := by
    rw [mem_assigns_length hm, List.length_map]
  refine ⟨envOf_inRange _ _ nd ((mem_assigns_iff _ _).1 hm), ?_⟩
  have hp := pidx_envOf (F1 ++ F2) (i1 ++ i2) nd hl
  rw [pidx_append] at hp
  have hl1 : (pidx F1 (envOf (F1 ++ F2) (i1 ++ i2))).length = i1.length := by
    rw [mem_assigns_length h1]; simp [pidx]
  exact List.append_inj hp hl1

/-- an index tuple is the index tuple of its own assignment -/
theorem envOf_of_pidx {F : List (Nat × Nat)} {ρ : Nat → Nat} {i : List Nat} (h : pidx F ρ = i) :
    ∀ q ∈ F, envOf F i q.1 = ρ q.1 := by
  intro q hq
  rw [← h]
  exact envOf_pidx ρ F q.1 (List.mem_map_of_mem hq)

theorem env12_left {F1 F2 : List (Nat × Nat)} (nd : ((F1 ++ F2).map (·.1)).Nodup) {i1 i2 : List Nat}
    (h1 : i1 ∈ assigns (F1.map (·.2))) (h2 : i2 ∈ assigns (F2.map (·.2))) :
    ∀ q ∈ F1, envOf F1 i1 q.1 = envOf (F1 ++ F2) (i1 ++ i2) q.1 :=
  envOf_of_pidx (env12 nd h1 h2).2.1

theorem env12_right {F1 F2 : List (Nat × Nat)} (nd : ((F1 ++ F2).map (·.1)).Nodup) {i1 i2 : List Nat}
    (h1 : i1 ∈ assigns (F1.map (·.2))) (h2 : i2 ∈ assigns (F2.map (·.2))) :
    ∀ q ∈ F2, envOf F2 i2 q.1 = envOf (F1 ++ F2) (i1 ++ i2) q.1 :=
  envOf_of_pidx (env12 nd h1 h2).2.2

theorem PCtx.env12 (C : PCtx T σ F1 F2 X sz) {i1 i2 : List Nat} (h1 : i1 ∈ assigns (F1.map (·.2)))
    (h2 : i2 ∈ assigns (F2.map (·.2))) :
    (∀ q ∈ F1 ++ F2, envOf (F1 ++ F2) (i1 ++ i2) q.1 < q.2) ∧
    pidx F1 (envOf (F1 ++ F2) (i1 ++ i2)) = i1 ∧ pidx F2 (envOf (F1 ++ F2) (i1 ++ i2)) = i2 :=
  C09dL.env12 C.ndF h1 h2

theorem PCtx.cell (C : PCtx T σ F1 F2 X sz) {i1 i2 : List Nat} (h1 : i1 ∈ assigns (F1.map (·.2)))
    (h2 : i2 ∈ assigns (F2.map (·.2))) :
    X.map (Axis.eval (envOf (F1 ++ F2) (i1 ++ i2))) ∈ assigns T.vshape ∧
    (projT T σ F1 F2).dense[flat (projT T σ F1 F2).vshape [flat (F1.map (·.2)) i1, flat (F2.map (·.2)) i2]]? =
      T.dense[flat T.vshape (X.map (Axis.eval (envOf (F1 ++ F2) (i1 ++ i2))))]? := by
  obtain ⟨hr12, hp1, hp2⟩ := C.env12 h1 h2
  generalize hρ : envOf (F1 ++ F2) (i1 ++ i2) = ρ12 at hr12 hp1 hp2 ⊢
  have hc : X.map (Axis.eval ρ12) ∈ assigns T.vshape := by
    rw [← C.numX, mem_assigns_iff, List.forall₂_map_left_iff, List.forall₂_map_right_iff, List.forall₂_same]
    intro x hx
    exact C06.eval_lt_numel x ρ12 (fun q hq => hr12 q (C.fvX x hx q hq))
  refine ⟨hc, ?_⟩
  have hsP := C.projT_sem
  have hsT := C.st.sem
  have hcP : [flat (F1.map (·.2)) i1, flat (F2.map (·.2)) i2] ∈ assigns (projT T σ F1 F2).vshape := by
    rw [C.projT_vshape, mem_assigns_iff]
    exact List.Forall₂.cons (flat_lt h1) (List.Forall₂.cons (flat_lt h2) List.Forall₂.nil)
  by_cases hb : ∃ γ, Backs (projT T σ F1 F2) [flat (F1.map (·.2)) i1, flat (F2.map (·.2)) i2] γ
  · obtain ⟨γ, hb⟩ := hb
    have hγ : ∀ q ∈ (projected T σ).2, γ q.1 < q.2 := hb.1
    have hev : [(rowAx σ F1).eval γ, (rowAx σ F2).eval γ] = [flat (F1.map (·.2)) i1, flat (F2.map (·.2)) i2] := hb.2
    rw [C.rowAx_eval C.hF1, C.rowAx_eval C.hF2] at hev
    have e1 := List.head_eq_of_cons_eq hev
    have e2 := List.head_eq_of_cons_eq (List.tail_eq_of_cons_eq hev)
    rw [← hp1] at e1
    rw [← hp2] at e2
    have g := C.Lf_range hγ
    have a1 := C.pidx_of_flat (fun k hk => g k (C.hF1 k hk))
      (fun k hk => hr12 k (List.mem_append_left _ hk)) e1
    have a2 := C.pidx_of_flat (fun k hk => g k (C.hF2 k hk))
      (fun k hk => hr12 k (List.mem_append_right _ hk)) e2
    have hbT : Backs T (X.map (Axis.eval ρ12)) (Lf σ γ) := by
      refine ⟨fun k hk => g k (List.mem_append_left _ hk), ?_⟩
      rw [C.sound _ (C.Lf_sat γ)]
      apply List.map_congr_left
      intro x hx
      apply eval_congr
      intro q hq
      rcases List.mem_append.1 (C.fvX x hx q hq) with h | h
      · exact a1 q h
      · exact a2 q h
    rw [dense_backed hsT hbT, dense_backed hsP hb]
    show some ((projected T σ).1[flat ((projected T σ).2.map (·.2)) (pidx (projected T σ).2 γ)]?.getD T.default) = _
    rw [projected_elem T σ C.numelOkS (fun k hk => C.numelOk (List.mem_append_left _ hk)) γ hγ]
    simp only [Option.getD_some]
    have : T.paxes.map (fun k => (clone σ FUEL (.phys k.1 k.2)).eval γ) = pidx T.paxes (Lf σ γ) := by
      unfold pidx
      apply List.map_congr_left
      intro k hk
      exact C.phys_eval (List.mem_append_left _ hk) γ
    rw [this]
  · have hb' : ∀ γ, ¬ Backs (projT T σ F1 F2) [flat (F1.map (·.2)) i1, flat (F2.map (·.2)) i2] γ :=
      fun γ hγ => hb ⟨γ, hγ⟩
    rw [dense_unbacked hsP hcP hb']
    have hnT : ∀ τ, ¬ Backs T (X.map (Axis.eval ρ12)) τ := by
      intro τ hτ
      obtain ⟨ρ', ag1, ag2, hs, hrs⟩ := C.mgu τ ρ12 hτ.1 hr12 hτ.2
      apply hb' ρ'
      refine ⟨?_, ?_⟩
      · intro q hq
        obtain ⟨k, hk, hqk⟩ := (C.mem_P2 q).1 hq
        rcases clone_fv_sub σ FUEL _ q hqk with h | ⟨p, hp, h⟩
        · simp only [Axis.fv, List.mem_singleton] at h
          rw [h]
          show ρ' k.1 < k.2
          rw [ag1 k hk]; exact hτ.1 k hk
        · exact hrs p hp q h
      · show [(rowAx σ F1).eval ρ', (rowAx σ F2).eval ρ'] = _
        rw [C.rowAx_eval C.hF1, C.rowAx_eval C.hF2]
        have hL : ∀ v, Lf σ ρ' v = ρ' v := fun v => lift_of_sat C.numelOkS hs 3998 v
        have q1 : pidx F1 (Lf σ ρ') = i1 := by
          rw [← hp1]
          exact pidx_eq_iff.2 (fun k hk => by rw [hL]; exact ag2 k (List.mem_append_left _ hk))
        have q2 : pidx F2 (Lf σ ρ') = i2 := by
          rw [← hp2]
          exact pidx_eq_iff.2 (fun k hk => by rw [hL]; exact ag2 k (List.mem_append_right _ hk))
        rw [q1, q2]
    rw [dense_unbacked hsT hc hnT]
    rfl

/-- **the dense matrix read out of the operand** -/
theorem PCtx.toMat_eq (C : PCtx T σ F1 F2 X sz) (S : Fggs.Sem.SR Ext) :
    toMat S (numel (F1.map (·.2))) (numel (F2.map (·.2))) (Bn.normalize (projT T σ F1 F2)).dense =
      (assigns (F1.map (·.2))).map (fun i1 => (assigns (F2.map (·.2))).map (fun i2 =>
        cellOf T (X.map (Axis.eval (envOf (F1 ++ F2) (i1 ++ i2)))))) := by
  rw [normalize_of_no1 _ (fun p hp => by
    have := (C.P2_big (q := p) hp).2
    omega)]
  unfold toMat
  apply List.ext_getElem (by simp [length_assigns])
  intro i hi1 hi2
  simp only [List.getElem_map, List.getElem_range]
  apply List.ext_getElem (by simp [length_assigns])
  intro j hj1 hj2
  simp only [List.getElem_map, List.getElem_range]
  have hi : i < (assigns (F1.map (·.2))).length := by simpa using hi2
  have hj : j < (assigns (F2.map (·.2))).length := by simpa using hj2
  obtain ⟨hc, hcell⟩ := C.cell (List.getElem_mem hi) (List.getElem_mem hj)
  rw [flat_getElem hi, flat_getElem hj, C.projT_vshape, flat2] at hcell
  rw [hcell]
  unfold cellOf
  have hlt : flat T.vshape (X.map (Axis.eval (envOf (F1 ++ F2)
      ((assigns (F1.map (·.2)))[i] ++ (assigns (F2.map (·.2)))[j])))) < T.dense.length := by
    rw [length_dense]; exact flat_lt hc
  rw [List.getElem?_eq_getElem hlt]
  rfl

end ctx

end C09dL
