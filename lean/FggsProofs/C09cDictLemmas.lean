/-
Helper lemmas for Props/C09c.lean, part 2: the dictionaries of blocks and their dense view.
`dA a x y i j` / `dB b x i` read a cell of a block (an absent block is zero); every dictionary operation of
`FggsModel/Multi.lean` is characterised through this view.
-/
import FggsModel.Multi
import FggsProofs.C09cAlgLemmas

set_option linter.unusedSimpArgs false
set_option linter.unusedVariables false

namespace C09cL
open Fggs Fggs.Sem Fggs.Sv Fggs.Ms C09bL

variable {K : Type}

/-! ### association lists -/
section assoc
variable {α β : Type} [BEq α] [LawfulBEq α]

def setKV (l : List (α × β)) (k : α) (v : β) : List (α × β) :=
  if l.any (fun p => p.1 == k) then l.map (fun p => if p.1 == k then (k, v) else p) else l ++ [(k, v)]

theorem lookup_map_ne (l : List (α × β)) (k k' : α) (v : β) (h : k' ≠ k) :
    (l.map (fun p => if p.1 == k then (k, v) else p)).lookup k' = l.lookup k' := by
  induction l with
  | nil => rfl
  | cons p l ih =>
    obtain ⟨pk, pv⟩ := p
    by_cases hp : pk = k
    · subst hp
      have h1 : (k' == pk) = false := by simpa using h
      simp only [List.map_cons, beq_self_eq_true, if_true, List.lookup_cons, h1, ih]
    · have h1 : (pk == k) = false := by simpa using hp
      simp only [List.map_cons, h1, Bool.false_eq_true, if_false, List.lookup_cons, ih]

theorem lookup_map_eq (l : List (α × β)) (k : α) (v : β) (h : l.any (fun p => p.1 == k) = true) :
    (l.map (fun p => if p.1 == k then (k, v) else p)).lookup k = some v := by
  induction l with
  | nil => simp at h
  | cons p l ih =>
    obtain ⟨pk, pv⟩ := p
    by_cases hp : pk = k
    · subst hp
      simp only [List.map_cons, beq_self_eq_true, if_true, List.lookup_cons]
    · have h1 : (pk == k) = false := by simpa using hp
      have h2 : (k == pk) = false := by simpa using fun e : k = pk => hp e.symm
      simp only [List.any_cons, h1, Bool.false_or] at h
      simp only [List.map_cons, h1, Bool.false_eq_true, if_false, List.lookup_cons, h2, ih h]

theorem lookup_none_of_any (l : List (α × β)) (k : α) (h : l.any (fun p => p.1 == k) = false) :
    l.lookup k = none := by
  induction l with
  | nil => rfl
  | cons p l ih =>
    obtain ⟨pk, pv⟩ := p
    simp only [List.any_cons, Bool.or_eq_false_iff] at h
    have h2 : (k == pk) = false := by
      have : pk ≠ k := by simpa using h.1
      simpa using fun e : k = pk => this e.symm
    simp only [List.lookup_cons, h2, ih h.2]

theorem lookup_setKV [DecidableEq α] (l : List (α × β)) (k : α) (v : β) (k' : α) :
    (setKV l k v).lookup k' = if k' = k then some v else l.lookup k' := by
  unfold setKV
  by_cases hany : l.any (fun p => p.1 == k) = true
  · rw [if_pos hany]
    by_cases hk : k' = k
    · subst hk; rw [if_pos rfl]; exact lookup_map_eq l k' v hany
    · rw [if_neg hk]; exact lookup_map_ne l k k' v hk
  · rw [if_neg hany]
    have hany' : l.any (fun p => p.1 == k) = false := by
      cases hh : l.any (fun p => p.1 == k)
      · rfl
      · exact absurd hh hany
    rw [List.lookup_append]
    by_cases hk : k' = k
    · subst hk
      rw [if_pos rfl, lookup_none_of_any l k' hany']
      simp [List.lookup_cons]
    · rw [if_neg hk]
      have : (k' == k) = false := by simpa using hk
      simp [List.lookup_cons, this]

end assoc

/-! ### the dictionaries of blocks -/

theorem getA_setA (a : MBlocks K) (x y : Nat) (m : Mat K) (x' y' : Nat) :
    getA (setA a x y m) x' y' = if (x', y') = (x, y) then some m else getA a x' y' :=
  lookup_setKV a (x, y) m (x', y')

theorem getB_setB (b : VBlocks K) (x : Nat) (v : List K) (x' : Nat) :
    getB (setB b x v) x' = if x' = x then some v else getB b x' :=
  lookup_setKV b x v x'

/-- a cell of a matrix block, absent = zero -/
def dA (S : SR K) (a : MBlocks K) (x y i j : Nat) : K :=
  match getA a x y with
  | some m => matGet S m i j
  | none => S.zero

/-- a cell of a vector block, absent = zero -/
def dB (S : SR K) (b : VBlocks K) (x i : Nat) : K :=
  match getB b x with
  | some v => getV S v i
  | none => S.zero

theorem dA_congr (S : SR K) (a a' : MBlocks K) (x y : Nat) (h : getA a x y = getA a' x y) :
    dA S a x y = dA S a' x y := by
  funext i j; unfold dA; rw [h]

theorem dB_congr (S : SR K) (b b' : VBlocks K) (x : Nat) (h : getB b x = getB b' x) :
    dB S b x = dB S b' x := by
  funext i; unfold dB; rw [h]

theorem dA_some (S : SR K) (a : MBlocks K) (x y : Nat) (m : Mat K) (h : getA a x y = some m) :
    dA S a x y = matGet S m := by
  funext i j; unfold dA; rw [h]

theorem dA_none (S : SR K) (a : MBlocks K) (x y : Nat) (h : getA a x y = none) :
    dA S a x y = fun _ _ => S.zero := by
  funext i j; unfold dA; rw [h]

theorem dB_some (S : SR K) (b : VBlocks K) (x : Nat) (v : List K) (h : getB b x = some v) :
    dB S b x = getV S v := by
  funext i; unfold dB; rw [h]

theorem dB_none (S : SR K) (b : VBlocks K) (x : Nat) (h : getB b x = none) :
    dB S b x = fun _ => S.zero := by
  funext i; unfold dB; rw [h]

/-! ### cells of the dense block operations -/

theorem matGet_tab (S : SR K) (r c : Nat) (f : Nat → Nat → K) (i j : Nat) (hi : i < r) (hj : j < c) :
    matGet S ((List.range r).map (fun i => (List.range c).map (fun j => f i j))) i j = f i j := by
  simp [matGet, getM, hi, hj]

theorem matGet_matAdd (S : SR K) (r c : Nat) (m1 m2 : Mat K) (i j : Nat) (hi : i < r) (hj : j < c) :
    matGet S (matAdd S r c m1 m2) i j = S.add (matGet S m1 i j) (matGet S m2 i j) :=
  matGet_tab S r c _ i j hi hj

theorem matGet_matMul (S : SR K) (r k c : Nat) (m1 m2 : Mat K) (i j : Nat) (hi : i < r) (hj : j < c) :
    matGet S (matMul S r k c m1 m2) i j = dot S k (matGet S m1 i) (fun l => matGet S m2 l j) :=
  matGet_tab S r c _ i j hi hj

theorem matGet_transpose (S : SR K) (r c : Nat) (m : Mat K) (j i : Nat) (hj : j < c) (hi : i < r) :
    matGet S (transpose S r c m) j i = matGet S m i j :=
  matGet_tab S c r (fun j i => matGet S m i j) j i hj hi

theorem getV_matVec (S : SR K) (r k : Nat) (m : Mat K) (v : List K) (i : Nat) (hi : i < r) :
    getV S (matVec S r k m v) i = dot S k (matGet S m i) (getV S v) :=
  getV_tab S r _ i hi

theorem getV_vecAdd (S : SR K) (r : Nat) (v1 v2 : List K) (i : Nat) (hi : i < r) :
    getV S (vecAdd S r v1 v2) i = S.add (getV S v1 i) (getV S v2 i) :=
  getV_tab S r _ i hi

theorem getV_blockSolveVec {S : SR K} (hS : C01.SRLaws S) (star : K → K) (hstar : C09.StarLaw S star)
    (n : Nat) (a : Mat K) (v : List K) (i : Nat) (hi : i < n) :
    getV S (blockSolveVec S star n a v) i = sig S star n (matGet S a) (getV S v) i :=
  solveLoop_closed hS star hstar n (matGet S a) (getV S v) i hi

theorem matGet_blockSolve {S : SR K} (hS : C01.SRLaws S) (star : K → K) (hstar : C09.StarLaw S star)
    (n c : Nat) (a b : Mat K) (i j : Nat) (hi : i < n) (hj : j < c) :
    matGet S (blockSolve S star n c a b) i j = sig S star n (matGet S a) (fun l => matGet S b l j) i := by
  unfold blockSolve
  simp only
  rw [matGet_tab S n c _ i j hi hj]
  have : ((List.range c).map (fun j => solveLoop S star
      ((List.range n).map (fun i => (List.range n).map (fun j => matGet S a i j)))
      ((List.range n).map (fun i => matGet S b i j))))[j]? = some (solveLoop S star
      ((List.range n).map (fun i => (List.range n).map (fun j => matGet S a i j)))
      ((List.range n).map (fun i => matGet S b i j))) := by
    simp [hj]
  rw [this]
  exact solveLoop_closed hS star hstar n (matGet S a) (fun l => matGet S b l j) i hi

/-! ### `add_single` -/

theorem getA_addA_ne (S : SR K) (a : MBlocks K) (x y r c : Nat) (m : Mat K) (x' y' : Nat)
    (h : (x', y') ≠ (x, y)) : getA (addA S a x y r c m) x' y' = getA a x' y' := by
  unfold addA
  split <;> rw [getA_setA, if_neg h]

theorem dA_addA {S : SR K} (hS : C01.SRLaws S) (a : MBlocks K) (x y r c : Nat) (m : Mat K) (i j : Nat)
    (hi : i < r) (hj : j < c) :
    dA S (addA S a x y r c m) x y i j = S.add (dA S a x y i j) (matGet S m i j) := by
  unfold addA
  split
  · rename_i old hold
    rw [dA_some S _ x y _ (by rw [getA_setA, if_pos rfl]), dA_some S a x y old hold,
      matGet_matAdd S r c old m i j hi hj]
  · rename_i hnone
    rw [dA_some S _ x y _ (by rw [getA_setA, if_pos rfl]), dA_none S a x y hnone, hS.zero_add]

theorem getB_addB_ne (S : SR K) (b : VBlocks K) (x r : Nat) (v : List K) (x' : Nat) (h : x' ≠ x) :
    getB (addB S b x r v) x' = getB b x' := by
  unfold addB
  split <;> rw [getB_setB, if_neg h]

theorem dB_addB {S : SR K} (hS : C01.SRLaws S) (b : VBlocks K) (x r : Nat) (v : List K) (i : Nat) (hi : i < r) :
    dB S (addB S b x r v) x i = S.add (dB S b x i) (getV S v i) := by
  unfold addB
  split
  · rename_i old hold
    rw [dB_some S _ x _ (by rw [getB_setB, if_pos rfl]), dB_some S b x old hold, getV_vecAdd S r old v i hi]
  · rename_i hnone
    rw [dB_some S _ x _ (by rw [getB_setB, if_pos rfl]), dB_none S b x hnone, hS.zero_add]

end C09cL
