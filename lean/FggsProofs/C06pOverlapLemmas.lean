/-
C06pOverlapLemmas — the overlap of two PATTERNS that the assignments of the free axes under a unifier enumerate: a copy
of the part of C13bMainLemmas that `Props/C06p.lean` needs, with the hypotheses weakened so that the second operand may
be the requested pattern of `PatternedTensor.project` (not a tensor: no physical storage, physical axes of size 1
allowed).  `Pat` replaces `Struct` (no `len`, no `no1`), `Ops'` replaces `Ops`, `Succ'` replaces `Succ` (no `No1S`; two
new fields: the two lists of virtual axes reach the same unbound axes under the unifier, from C06pReachLemmas).

That both views are indexed by the same free axes (`Succ'.freeAx`, `Succ'.projectOnto_some`) is proved from the syntactic
invariant `RunAll.reach` instead of the semantic `C13bL.free_transfer` (which needs two positions along every free axis,
i.e. no physical axis of size 1).  Everything else is the proof of C13bMainLemmas word for word.
-/
import FggsModel.EqualImpl
import FggsProofs.C13bMainLemmas
import FggsProofs.C06pReachLemmas
import Mathlib.Tactic.Linarith
import Mathlib.Data.List.Basic
import Mathlib.Data.List.Nodup

set_option linter.unusedSimpArgs false
set_option linter.unusedVariables false

namespace C06pL
open Fggs Fggs.Ax Fggs.Un Fggs.Sd Fggs.Eq C06b C06dL C07bL C13bL

/-- a pattern: distinct physical axes that are exactly the free axes of the virtual axes -/
structure Pat (T : PT) : Prop where
  nodup : (T.paxes.map (·.1)).Nodup
  fvsub : ∀ e ∈ T.vaxes, ∀ q ∈ e.fv, q ∈ T.paxes
  occ : ∀ p ∈ T.paxes, ∃ e ∈ T.vaxes, p ∈ e.fv

theorem Pat.sem {T : PT} (h : Pat T) : Sem T := sem_of_occ h.nodup h.fvsub h.occ

theorem Pat.of_struct {T : PT} (h : Struct T) : Pat T := ⟨h.nodup, h.fvsub, h.occ⟩

/-- the two patterns (positive sizes, disjoint identities below the counter) -/
structure Ops' (t u : PT) (next : Nat) : Prop where
  st : Pat t
  su : Pat u
  post : ∀ p ∈ t.paxes, 0 < p.2
  posu : ∀ p ∈ u.paxes, 0 < p.2
  disj : ∀ p ∈ t.paxes, ∀ q ∈ u.paxes, p.1 ≠ q.1
  below : ∀ p ∈ t.paxes ++ u.paxes, p.1 < next

theorem exists_mem_zip_right {α β : Type} : ∀ (as : List α) (bs : List β), bs.length ≤ as.length →
    ∀ b ∈ bs, ∃ a, (a, b) ∈ as.zip bs
  | _, [], _, b, hb => by simp at hb
  | [], _ :: _, h, _, _ => by simp at h
  | a :: as, b' :: bs, h, b, hb => by
    rw [List.mem_cons] at hb
    rcases hb with rfl | hb
    · exact ⟨a, by simp⟩
    · have hl : bs.length ≤ as.length := by simpa using h
      obtain ⟨a', ha'⟩ := exists_mem_zip_right as bs hl b hb
      exact ⟨a', by rw [List.zip_cons_cons]; exact List.mem_cons_of_mem _ ha'⟩

theorem Ops'.nodup {t u : PT} {next : Nat} (h : Ops' t u next) : ((t.paxes ++ u.paxes).map (·.1)).Nodup := by
  rw [List.map_append, List.nodup_append]
  refine ⟨h.st.nodup, h.su.nodup, ?_⟩
  intro a ha b hb
  obtain ⟨p, hp, rfl⟩ := List.mem_map.1 ha
  obtain ⟨q, hq, rfl⟩ := List.mem_map.1 hb
  exact h.disj p hp q hq

theorem sz0_eq' {t u : PT} {next : Nat} (h : Ops' t u next) {p : Nat × Nat} (hp : p ∈ t.paxes ++ u.paxes) :
    sz0 t u p.1 = p.2 := by
  unfold sz0
  rw [find?_of_nodup h.nodup hp]

theorem Ops'.pos {t u : PT} {next : Nat} (h : Ops' t u next) {p : Nat × Nat} (hp : p ∈ t.paxes ++ u.paxes) :
    0 < p.2 := by
  rcases List.mem_append.1 hp with hp | hp
  · exact h.post p hp
  · exact h.posu p hp

/-- everything the proof uses about a successful, fully resolved unification of the virtual axes -/
structure Succ' (t u : PT) (next : Nat) (st : St) (sz : Nat → Nat) : Prop where
  sized : SizedSt sz st
  le : next ≤ st.next
  szt : ∀ k ∈ t.paxes ++ u.paxes, sz k.1 = k.2
  sound : ∀ τ, Sat τ st.subst → t.vaxes.map (Axis.eval τ) = u.vaxes.map (Axis.eval τ)
  mgu : ∀ ρ : Nat → Nat, (∀ e ∈ t.vaxes, InRange ρ e) → (∀ f ∈ u.vaxes, InRange ρ f) →
    t.vaxes.map (Axis.eval ρ) = u.vaxes.map (Axis.eval ρ) →
    ∃ ρ', (∀ v < next, ρ' v = ρ v) ∧ Sat ρ' st.subst ∧ InRangeS ρ' st.subst
  nodup : (st.subst.map (·.1)).Nodup
  good : GoodS st.subst 3999
  reachT : ∀ e ∈ t.vaxes, ∀ v, Reach st.subst e v → ∃ f ∈ u.vaxes, Reach st.subst f v
  reachU : ∀ f ∈ u.vaxes, ∀ v, Reach st.subst f v → ∃ e ∈ t.vaxes, Reach st.subst e v

/-- the facts follow from the run -/
theorem succ_of_run' {t u : PT} {next fuel : Nat} {st : St} (h : Ops' t u next) (hvs : t.vshape = u.vshape)
    (hrun : unifyAll fuel (t.vaxes.zip u.vaxes) ⟨[], next⟩ = (true, st))
    (hnd : (st.subst.map (·.1)).Nodup) (hg : GoodS st.subst 3999) :
    ∃ sz, Succ' t u next st sz := by
  have R := runAll_of_unifyAll hrun
  have hlen : t.vaxes.length = u.vaxes.length := by
    have := congrArg List.length hvs
    simpa [PT.vshape] using this
  have hmemT : ∀ p ∈ t.vaxes.zip u.vaxes, p.1 ∈ t.vaxes ∧ p.2 ∈ u.vaxes := fun p hp =>
    ⟨(List.of_mem_zip (a := p.1) (b := p.2) hp).1, (List.of_mem_zip (a := p.1) (b := p.2) hp).2⟩
  have htT : ∀ e ∈ t.vaxes, AxQ (Tp (sz0 t u)) next e := fun e he q hq => by
    have hq' := h.st.fvsub e he q hq
    exact ⟨h.below q (List.mem_append_left _ hq'), sz0_eq' h (List.mem_append_left _ hq'), h.post q hq'⟩
  have htU : ∀ e ∈ u.vaxes, AxQ (Tp (sz0 t u)) next e := fun e he q hq => by
    have hq' := h.su.fvsub e he q hq
    exact ⟨h.below q (List.mem_append_right _ hq'), sz0_eq' h (List.mem_append_right _ hq'), h.posu q hq'⟩
  have hst0 : SizedSt (sz0 t u) ⟨[], next⟩ := ⟨fun p hp => by simp at hp, fun p hp => by simp at hp⟩
  have hpq : PairsQ (Tp (sz0 t u)) next (t.vaxes.zip u.vaxes) := fun p hp =>
    ⟨htT _ (hmemT p hp).1, htU _ (hmemT p hp).2⟩
  obtain ⟨sz, hag, hsz⟩ := R.sized (sz0 t u) hst0 hpq (zip_map_eq Axis.numel _ _ hvs)
  have hle : next ≤ st.next := R.grows.2
  have hreach := C06pL.RunAll.reach R (fun p hp => by simp at hp)
    (fun p hp => ⟨Tp.nz (htT _ (hmemT p hp).1), Tp.nz (htU _ (hmemT p hp).2)⟩) st.subst hnd (fun p hp => hp)
  refine ⟨sz, hsz, hle, ?_, ?_, ?_, hnd, hg, ?_, ?_⟩
  · intro k hk
    rw [hag k.1 (h.below k hk)]
    exact sz0_eq' h hk
  · intro τ hs
    apply map_eq_of_zip _ _ _ _ hlen
    exact R.sound (fun p hp => by simp at hp)
      (fun p hp => ⟨Tp.nz (htT _ (hmemT p hp).1), Tp.nz (htU _ (hmemT p hp).2)⟩) τ hs
  · intro ρ hrt hru heq
    exact R.mgu (fun p hp => by simp at hp)
      (fun p hp => ⟨fun q hq => (htT _ (hmemT p hp).1 q hq).1, fun q hq => (htU _ (hmemT p hp).2 q hq).1⟩)
      ρ (fun p hp => by simp at hp) (fun p hp => by simp at hp)
      (fun p hp => ⟨hrt _ (hmemT p hp).1, hru _ (hmemT p hp).2⟩)
      (zip_map_eq (Axis.eval ρ) _ _ heq)
  · intro e he v hr
    obtain ⟨f, hf⟩ := exists_mem_zip t.vaxes u.vaxes (Nat.le_of_eq hlen) e he
    exact ⟨f, (hmemT _ hf).2, (hreach _ hf v).1 hr⟩
  · intro f hf v hr
    obtain ⟨e, he⟩ := exists_mem_zip_right t.vaxes u.vaxes (Nat.le_of_eq hlen.symm) f hf
    exact ⟨e, (hmemT _ he).1, (hreach _ he v).2 hr⟩

/-! ### the clones of the physical axes -/

section facts
variable {t u : PT} {next : Nat} {st : St} {sz : Nat → Nat}

theorem Succ'.numelOkS (S : Succ' t u next st sz) : NumelOkS st.subst := S.sized.numelOkS

theorem Succ'.paxTp (S : Succ' t u next st sz) (h : Ops' t u next) {k : Nat × Nat} (hk : k ∈ t.paxes ++ u.paxes) :
    AxQ (Tp sz) st.next (pax k) := by
  intro q hq
  simp only [Axis.fv, List.mem_singleton] at hq
  subst hq
  exact ⟨Nat.lt_of_lt_of_le (h.below k hk) S.le, S.szt k hk, h.pos hk⟩

theorem Succ'.paxNumelOk (S : Succ' t u next st sz) (h : Ops' t u next) {k : Nat × Nat}
    (hk : k ∈ t.paxes ++ u.paxes) : NumelOk st.subst (pax k) := S.sized.numelOk (S.paxTp h hk)

/-- the index map under the substitution is the clone's -/
theorem Succ'.evalS_eq (S : Succ' t u next st sz) (h : Ops' t u next) {k : Nat × Nat} (hk : k ∈ t.paxes ++ u.paxes)
    (ρ : Nat → Nat) : evalS st.subst ρ FUEL (Axis.phys k.1 k.2) = (cl st.subst k).eval ρ :=
  C07eL.evalS_clone_aux st.subst S.numelOkS ρ FUEL _ (S.paxNumelOk h hk)

theorem Succ'.cl_numel (S : Succ' t u next st sz) (h : Ops' t u next) {k : Nat × Nat} (hk : k ∈ t.paxes ++ u.paxes) :
    (cl st.subst k).numel = k.2 :=
  clone_numel' S.numelOkS FUEL _ (S.paxNumelOk h hk)

theorem Succ'.cl_fv (S : Succ' t u next st sz) (h : Ops' t u next) {k : Nat × Nat} (hk : k ∈ t.paxes ++ u.paxes)
    {q : Nat × Nat} (hq : q ∈ (cl st.subst k).fv) : Tp sz st.next q := by
  rcases clone_fv_sub st.subst FUEL _ q hq with h1 | ⟨p, hp, h1⟩
  · simp only [Axis.fv, List.mem_singleton] at h1
    subst h1
    exact S.paxTp h hk _ (by simp [Axis.fv])
  · exact (S.sized.1 p hp).2 q h1

theorem Succ'.cl_good (S : Succ' t u next st sz) (k : Nat × Nat) : C07bL.Good st.subst FUEL (pax k) := by
  cases hb : bound st.subst k.1 with
  | none =>
    unfold C07bL.Good
    rw [clone_phys_none hb]
    intro q hq
    simp only [Axis.fv, List.mem_singleton] at hq
    subst hq
    exact hb
  | some a => exact (good_phys_some hb 3999 k.2).2 (S.good _ (bound_mem hb))

/-- the lift of any assignment satisfies the substitution -/
theorem Succ'.lift_sat (S : Succ' t u next st sz) (ρ : Nat → Nat) : Sat (lift st.subst 3999 ρ) st.subst :=
  C07bL.lift_sat S.numelOkS S.nodup S.good ρ

/-- the flat position selected by an assignment of the free axes -/
theorem Succ'.ppos_t (S : Succ' t u next st sz) (h : Ops' t u next) (ρ : Nat → Nat) :
    ppos st.subst t ρ = flat (t.paxes.map (·.2)) (pidx t.paxes (lift st.subst 3999 ρ)) := by
  unfold ppos pidx
  congr 1
  apply List.map_congr_left
  intro k hk
  rw [S.evalS_eq h (List.mem_append_left _ hk), cl_eval]

theorem Succ'.ppos_u (S : Succ' t u next st sz) (h : Ops' t u next) (ρ : Nat → Nat) :
    ppos st.subst u ρ = flat (u.paxes.map (·.2)) (pidx u.paxes (lift st.subst 3999 ρ)) := by
  unfold ppos pidx
  congr 1
  apply List.map_congr_left
  intro k hk
  rw [S.evalS_eq h (List.mem_append_right _ hk), cl_eval]

/-- the lift of an assignment that respects the free axes of the clones is in range on the physical axes -/
theorem Succ'.lift_lt (S : Succ' t u next st sz) (h : Ops' t u next) {ρ : Nat → Nat} {k : Nat × Nat}
    (hk : k ∈ t.paxes ++ u.paxes) (hr : InRange ρ (cl st.subst k)) : lift st.subst 3999 ρ k.1 < k.2 := by
  rw [← cl_eval, ← S.cl_numel h hk]
  exact hr.lt

/-! ### both patterns have the same free axes -/

/-- a free axis of the clone of a physical axis of `A` is a free axis of the clone of a physical axis of `B`, when the
virtual axes of `B` reach every unbound axis that those of `A` reach -/
theorem reach_transfer {A B : PT} {σ : Subst} (hA : Pat A) (hB : Pat B)
    (hgood : ∀ k : Nat × Nat, C07bL.Good σ FUEL (pax k))
    (hreach : ∀ e ∈ A.vaxes, ∀ v, Reach σ e v → ∃ f ∈ B.vaxes, Reach σ f v)
    {k : Nat × Nat} (hk : k ∈ A.paxes) {q : Nat × Nat} (hq : q ∈ (cl σ k).fv) :
    ∃ k' ∈ B.paxes, ∃ q' ∈ (cl σ k').fv, q'.1 = q.1 := by
  have h1 : Reach σ (pax k) q.1 := (clone_fv_reach σ FUEL (pax k) (hgood k) q.1).1 ⟨q, hq, rfl⟩
  rw [reach_phys] at h1
  obtain ⟨e, he, hke⟩ := hA.occ k hk
  obtain ⟨f, hf, k', hk', h2⟩ := hreach e he q.1 ⟨k, hke, h1⟩
  have h3 : Reach σ (pax k') q.1 := (reach_phys σ k'.1 k'.2 q.1).2 h2
  obtain ⟨q', hq', e'⟩ := (clone_fv_reach σ FUEL (pax k') (hgood k') q.1).2 h3
  exact ⟨k', hB.fvsub f hf k' hk', q', hq', e'⟩

/-! ### the free axes `project` returns -/

theorem Succ'.freeAx (S : Succ' t u next st sz) (h : Ops' t u next) : FreeAx t u st.subst (subaxes t st.subst) := by
  obtain ⟨k1, k2, k3⟩ := project_keys (contiguous (t.paxes.map (·.2))) (t.paxes.map (fun k => Axis.phys k.1 k.2))
    st.subst (strides_len t)
  have hofT : ∀ k ∈ t.paxes, ∀ q ∈ (cl st.subst k).fv, q.1 ∈ (subaxes t st.subst).map (·.1) :=
    fun k hk q hq => k3 _ (List.mem_map_of_mem (f := fun k : Nat × Nat => Axis.phys k.1 k.2) hk) q hq
  refine ⟨k1, ?_, hofT, ?_⟩
  · intro q hq
    obtain ⟨e, he, hqe⟩ := k2 q hq
    obtain ⟨k, hk, rfl⟩ := List.mem_map.1 he
    exact ⟨k, hk, hqe⟩
  · intro k hk q hq
    obtain ⟨k', hk', q', hq', e⟩ := reach_transfer (A := u) (B := t) h.su h.st S.cl_good S.reachU hk hq
    rw [← e]
    exact hofT k' hk' q' hq'

/-- `projectOnto` does not raise -/
theorem Succ'.projectOnto_some (S : Succ' t u next st sz) (h : Ops' t u next) :
    ∃ w, projectOnto (contiguous (u.paxes.map (·.2))) (subaxes t st.subst)
      (u.paxes.map (fun k => Axis.phys k.1 k.2)) st.subst = some w := by
  have F := S.freeAx h
  apply projectOnto_isSome _ _ _ _ (strides_len u)
  · intro e he q hq
    obtain ⟨k, hk, rfl⟩ := List.mem_map.1 he
    exact F.ofU k hk q hq
  · intro p hp
    obtain ⟨k, hk, hpk⟩ := F.fromT p hp
    obtain ⟨k', hk', q', hq', e⟩ := reach_transfer (A := t) (B := u) h.st h.su S.cl_good S.reachT hk hpk
    exact ⟨_, List.mem_map_of_mem (f := fun k : Nat × Nat => Axis.phys k.1 k.2) hk', q', hq', e⟩

/-! ### the pairs of positions -/

/-- a free axis of a clone is a member of the list of free axes, with its size -/
theorem Succ'.mem_F (S : Succ' t u next st sz) (h : Ops' t u next) {F : List (Nat × Nat)} (hF : FreeAx t u st.subst F)
    {k : Nat × Nat} (hk : k ∈ t.paxes ++ u.paxes) {q : Nat × Nat} (hq : q ∈ (cl st.subst k).fv) : q ∈ F := by
  have hid : q.1 ∈ F.map (·.1) := by
    rcases List.mem_append.1 hk with hk' | hk'
    · exact hF.ofT k hk' q hq
    · exact hF.ofU k hk' q hq
  obtain ⟨q', hq', e⟩ := List.mem_map.1 hid
  obtain ⟨k', hk', hqk'⟩ := hF.fromT q' hq'
  have h1 := (S.cl_fv h (List.mem_append_left _ hk') hqk').2.1
  have h2 := (S.cl_fv h hk hq).2.1
  have : q' = q := by
    apply Prod.ext e
    rw [← h1, ← h2]
    exact congrArg sz e
  rw [← this]; exact hq'

theorem Succ'.envF_inRange (S : Succ' t u next st sz) (h : Ops' t u next) {F : List (Nat × Nat)}
    (hF : FreeAx t u st.subst F) {idx : List Nat} (hidx : idx ∈ assigns (F.map (·.2)))
    {k : Nat × Nat} (hk : k ∈ t.paxes ++ u.paxes) : InRange (envOf F idx) (cl st.subst k) :=
  fun q hq => envOf_inRange F idx hF.nodup ((mem_assigns_iff _ _).1 hidx) q (S.mem_F h hF hk hq)

/-- the cell at the flat position selected by an in-range assignment of the physical axes -/
theorem key_at' {T : PT} (hT : Pat T) (τ : Nat → Nat) (hlt : ∀ k ∈ T.paxes, τ k.1 < k.2) :
    T.cells[flat (T.paxes.map (·.2)) (pidx T.paxes τ)]? =
      some (T.vaxes.map (Axis.eval τ), T.physical[flat (T.paxes.map (·.2)) (pidx T.paxes τ)]?.getD T.default) := by
  rw [cells_at_flat T (pidx_mem_assigns τ T.paxes hlt)]
  congr 2
  apply List.map_congr_left
  intro e he
  apply eval_congr
  intro q hq
  exact envOf_pidx τ T.paxes q.1 (List.mem_map_of_mem (f := (·.1)) (hT.fvsub e he q hq))

/-- **soundness**: every enumerated pair of positions backs one cell -/
theorem Succ'.pairs_sound (S : Succ' t u next st sz) (h : Ops' t u next) {F : List (Nat × Nat)}
    (hF : FreeAx t u st.subst F) {idx : List Nat} (hidx : idx ∈ assigns (F.map (·.2))) :
    ∃ (hi : ppos st.subst t (envOf F idx) < t.cells.length) (hj : ppos st.subst u (envOf F idx) < u.cells.length),
      (t.cells[ppos st.subst t (envOf F idx)]).1 = (u.cells[ppos st.subst u (envOf F idx)]).1 := by
  have hlt : ∀ k ∈ t.paxes, lift st.subst 3999 (envOf F idx) k.1 < k.2 := fun k hk =>
    S.lift_lt h (List.mem_append_left _ hk) (S.envF_inRange h hF hidx (List.mem_append_left _ hk))
  have hlu : ∀ k ∈ u.paxes, lift st.subst 3999 (envOf F idx) k.1 < k.2 := fun k hk =>
    S.lift_lt h (List.mem_append_right _ hk) (S.envF_inRange h hF hidx (List.mem_append_right _ hk))
  have e1 := key_at' h.st _ hlt
  have e2 := key_at' h.su _ hlu
  rw [← S.ppos_t h] at e1
  rw [← S.ppos_u h] at e2
  obtain ⟨hi, e1'⟩ := List.getElem?_eq_some_iff.1 e1
  obtain ⟨hj, e2'⟩ := List.getElem?_eq_some_iff.1 e2
  refine ⟨hi, hj, ?_⟩
  rw [e1', e2']
  exact S.sound _ (S.lift_sat _)

/-- **most general**: every pair of positions backing one cell is enumerated -/
theorem Succ'.pairs_complete (S : Succ' t u next st sz) (h : Ops' t u next) {F : List (Nat × Nat)}
    (hF : FreeAx t u st.subst F) {i j : Nat} (hi : i < t.cells.length) (hj : j < u.cells.length)
    (hkey : (t.cells[i]).1 = (u.cells[j]).1) : (i, j) ∈ pairs st.subst t u F := by
  have hi' : i < (assigns (t.paxes.map (·.2))).length := by rw [length_assigns, ← cells_length]; exact hi
  have hj' : j < (assigns (u.paxes.map (·.2))).length := by rw [length_assigns, ← cells_length]; exact hj
  have hit : (assigns (t.paxes.map (·.2)))[i] ∈ assigns (t.paxes.map (·.2)) := List.getElem_mem hi'
  have hiu : (assigns (u.paxes.map (·.2)))[j] ∈ assigns (u.paxes.map (·.2)) := List.getElem_mem hj'
  generalize hgit : (assigns (t.paxes.map (·.2)))[i] = it at hit
  generalize hgiu : (assigns (u.paxes.map (·.2)))[j] = iu at hiu
  have e1 : t.cells[i]? = some (t.vaxes.map (Axis.eval (envOf t.paxes it)), t.physical[i]?.getD t.default) := by
    rw [cells_getElem?, List.getElem?_eq_getElem hi', hgit]; rfl
  have e2 : u.cells[j]? = some (u.vaxes.map (Axis.eval (envOf u.paxes iu)), u.physical[j]?.getD u.default) := by
    rw [cells_getElem?, List.getElem?_eq_getElem hj', hgiu]; rfl
  obtain ⟨_, e1'⟩ := List.getElem?_eq_some_iff.1 e1
  obtain ⟨_, e2'⟩ := List.getElem?_eq_some_iff.1 e2
  rw [e1', e2'] at hkey
  simp only at hkey
  -- the joint assignment of the physical axes of both operands
  let ρ0 : Nat → Nat := fun v => if v ∈ t.paxes.map (·.1) then envOf t.paxes it v else envOf u.paxes iu v
  have hρt : ∀ k ∈ t.paxes, ρ0 k.1 = envOf t.paxes it k.1 := fun k hk => by
    show (if k.1 ∈ t.paxes.map (·.1) then _ else _) = _
    rw [if_pos (List.mem_map_of_mem (f := (·.1)) hk)]
  have hρu : ∀ k ∈ u.paxes, ρ0 k.1 = envOf u.paxes iu k.1 := fun k hk => by
    show (if k.1 ∈ t.paxes.map (·.1) then _ else _) = _
    rw [if_neg]
    intro hm
    obtain ⟨p, hp, e⟩ := List.mem_map.1 hm
    exact h.disj p hp k hk e
  have hrt : ∀ e ∈ t.vaxes, InRange ρ0 e := fun e he q hq => by
    have hq' := h.st.fvsub e he q hq
    rw [hρt q hq']
    exact envOf_inRange' h.st.sem hit q hq'
  have hru : ∀ e ∈ u.vaxes, InRange ρ0 e := fun e he q hq => by
    have hq' := h.su.fvsub e he q hq
    rw [hρu q hq']
    exact envOf_inRange' h.su.sem hiu q hq'
  have hevt : t.vaxes.map (Axis.eval ρ0) = t.vaxes.map (Axis.eval (envOf t.paxes it)) := by
    apply List.map_congr_left
    intro e he
    exact eval_congr _ _ e (fun q hq => hρt q (h.st.fvsub e he q hq))
  have hevu : u.vaxes.map (Axis.eval ρ0) = u.vaxes.map (Axis.eval (envOf u.paxes iu)) := by
    apply List.map_congr_left
    intro e he
    exact eval_congr _ _ e (fun q hq => hρu q (h.su.fvsub e he q hq))
  obtain ⟨ρ', hag, hsat, hrs⟩ := S.mgu ρ0 hrt hru (by rw [hevt, hevu]; exact hkey)
  -- the assignment of the free axes
  have hρ'k : ∀ k ∈ t.paxes ++ u.paxes, ρ' k.1 = ρ0 k.1 := fun k hk => hag k.1 (h.below k hk)
  have hFr : ∀ q ∈ F, ρ' q.1 < q.2 := by
    intro q hq
    obtain ⟨k, hk, hqk⟩ := hF.fromT q hq
    rcases clone_fv_sub st.subst FUEL _ q hqk with h1 | ⟨p, hp, h1⟩
    · simp only [Axis.fv, List.mem_singleton] at h1
      subst h1
      rw [hρ'k _ (List.mem_append_left _ hk), hρt _ hk]
      exact envOf_inRange' h.st.sem hit _ hk
    · exact hrs p hp q h1
  have hidx : pidx F ρ' ∈ assigns (F.map (·.2)) := pidx_mem_assigns ρ' F hFr
  have hlift : ∀ k ∈ t.paxes ++ u.paxes, lift st.subst 3999 (envOf F (pidx F ρ')) k.1 = ρ0 k.1 := by
    intro k hk
    rw [← cl_eval]
    have e3 : (cl st.subst k).eval (envOf F (pidx F ρ')) = (cl st.subst k).eval ρ' := by
      apply eval_congr
      intro q hq
      exact envOf_pidx ρ' F q.1 (List.mem_map_of_mem (f := (·.1)) (S.mem_F h hF hk hq))
    rw [e3]
    have := (clone_spec hsat S.numelOkS FUEL (pax k) (S.paxNumelOk h hk)).1
    rw [show (cl st.subst k) = clone st.subst FUEL (pax k) from rfl, this]
    exact hρ'k k hk
  refine List.mem_map.2 ⟨pidx F ρ', hidx, ?_⟩
  have lt : it.length = t.paxes.length := by rw [mem_assigns_length hit, List.length_map]
  have lu : iu.length = u.paxes.length := by rw [mem_assigns_length hiu, List.length_map]
  have pt : pidx t.paxes (lift st.subst 3999 (envOf F (pidx F ρ'))) = it := by
    rw [← pidx_envOf t.paxes it h.st.nodup lt]
    apply pidx_congr
    intro k hk
    rw [hlift k (List.mem_append_left _ hk), hρt k hk]
  have pu : pidx u.paxes (lift st.subst 3999 (envOf F (pidx F ρ'))) = iu := by
    rw [← pidx_envOf u.paxes iu h.su.nodup lu]
    apply pidx_congr
    intro k hk
    rw [hlift k (List.mem_append_right _ hk), hρu k hk]
  show (ppos st.subst t (envOf F (pidx F ρ')), ppos st.subst u (envOf F (pidx F ρ'))) = (i, j)
  rw [S.ppos_t h, S.ppos_u h, pt, pu, ← hgit, ← hgiu, flat_getElem hi', flat_getElem hj']

/-- the characterisation of the enumerated pairs, as `compare_core` wants it -/
theorem Succ'.pairs_mem (S : Succ' t u next st sz) (h : Ops' t u next) {F : List (Nat × Nat)}
    (hF : FreeAx t u st.subst F) (i j : Nat) :
    (i, j) ∈ pairs st.subst t u F ↔ ∃ (hi : i < t.cells.length) (hj : j < u.cells.length),
      (t.cells[i]).1 = (u.cells[j]).1 := by
  constructor
  · intro hm
    obtain ⟨idx, hidx, e⟩ := List.mem_map.1 hm
    obtain ⟨hi, hj, hk⟩ := S.pairs_sound h hF hidx
    simp only [Prod.mk.injEq] at e
    obtain ⟨rfl, rfl⟩ := e
    exact ⟨hi, hj, hk⟩
  · rintro ⟨hi, hj, hk⟩
    exact S.pairs_complete h hF hi hj hk

end facts

end C06pL
