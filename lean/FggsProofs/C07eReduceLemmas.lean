/-
C07eReduceLemmas — `reduce_equation` / `post_einsum` of FggsModel/Strided.lean for a sum-free equation: the pieces of
`reduceEquation` by name, what well-formedness gives (the output is a permutation of the variables; the kept variables
are renumbered injectively; the sizes of the reduced equation are the original sizes), and the main lemma
`reduce_main`.
-/
import FggsModel.Strided
import FggsProofs.C07eAddrLemmas
import FggsProofs.C06dBaseLemmas
import FggsProofs.C07bAlgLemmas
import Mathlib.Tactic.Linarith
import Mathlib.Data.List.Basic
import Mathlib.Data.List.Nodup
import Mathlib.Data.List.Pairwise
import Mathlib.Data.List.Perm.Basic
import Mathlib.Data.List.Perm.Subperm
import Mathlib.Data.List.Forall2

set_option linter.unusedSimpArgs false
set_option linter.unusedVariables false

namespace C07eL
open Fggs Fggs.Ax Fggs.Sd

/-- copy of `C07e.WF` (which lives in Props/C07e.lean) -/
structure WFe (e : Eqn) (views : List View) : Prop where
  len : e.inputs.length = views.length
  dims : ∀ p ∈ e.inputs.zip views, p.1.length = p.2.shape.length ∧ p.1.length = p.2.strides.length
  nodupIn : ∀ l ∈ e.inputs, l.Nodup
  nodupOut : e.output.Nodup
  range : ∀ x ∈ e.inputs.flatten ++ e.output, x < e.numVars
  outUsed : ∀ x ∈ e.output, x ∈ e.inputs.flatten
  sizes : ∀ p ∈ e.inputs.zip views, ∀ j, j < p.1.length → p.2.shape[j]?.getD 0 = varSize e views (p.1[j]?.getD 0)

/-! ### the pieces of `reduceEquation` -/

/-- the variables of the reserved dimensions of one operand -/
def sv (z : List Nat × View) : List Nat := (reserved z.2).map (fun i => z.1[i]?.getD 0)

def shrunkVars (e : Eqn) (views : List View) : List (List Nat) := (e.inputs.zip views).map sv

def kept (e : Eqn) (views : List View) : List Nat := (shrunkVars e views).flatten

def removed (e : Eqn) (views : List View) : List Nat :=
  (e.inputs.flatten.eraseDups).filter (fun x => !(kept e views).contains x)

def outVars (e : Eqn) (views : List View) : List Nat :=
  e.output.filter (fun x => !(removed e views).contains x)

def order (e : Eqn) (views : List View) : List Nat := ((shrunkVars e views).flatten ++ outVars e views).eraseDups

/-- the new number of a kept variable -/
def ren (e : Eqn) (views : List View) (x : Nat) : Nat := (order e views).idxOf x

theorem reduceEquation_eq (e : Eqn) (views : List View) (hsf : e.output.length = e.numVars) :
    reduceEquation e views =
      ⟨views.map shrink,
       ⟨(shrunkVars e views).map (fun l => l.map (ren e views)), (outVars e views).map (ren e views),
        (order e views).length⟩,
       ((removed e views).map e.output.idxOf).mergeSort (· ≤ ·),
       e.output.map (varSize e views)⟩ := by
  unfold reduceEquation
  simp only [hsf, bne_self_eq_false, Bool.false_eq_true, if_false]
  rfl

/-! ### consequences of well-formedness -/

theorem mem_kept_iff (e : Eqn) (views : List View) (x : Nat) : x ∈ kept e views ↔ ∃ z ∈ e.inputs.zip views, x ∈ sv z := by
  unfold kept shrunkVars
  rw [List.mem_flatten]
  constructor
  · rintro ⟨l, hl, hx⟩
    rw [List.mem_map] at hl
    obtain ⟨z, hz, rfl⟩ := hl
    exact ⟨z, hz, hx⟩
  · rintro ⟨z, hz, hx⟩
    exact ⟨_, List.mem_map.2 ⟨z, hz, rfl⟩, hx⟩

theorem mem_removed_iff (e : Eqn) (views : List View) (x : Nat) : x ∈ removed e views ↔ x ∈ e.inputs.flatten ∧ x ∉ kept e views := by
  unfold removed
  rw [List.mem_filter, List.mem_eraseDups]
  simp

theorem contiguousStrides_length : ∀ (s : List Nat), (contiguousStrides s).length = s.length
  | [] => rfl
  | _ :: ss => by rw [contiguousStrides, List.length_cons, contiguousStrides_length ss, List.length_cons]


section
variable {e : Eqn} {views : List View} (h : WFe e views) (hsf : e.output.length = e.numVars)
include h hsf

theorem mem_output_iff (x : Nat) : x ∈ e.output ↔ x < e.numVars := by
  have hsub : e.output ⊆ List.range e.numVars := by
    intro y hy
    rw [List.mem_range]
    exact h.range y (by simp [hy])
  have hp := (List.subperm_of_subset h.nodupOut hsub).perm_of_length_le (by simp [hsf])
  rw [hp.mem_iff, List.mem_range]

omit hsf in
theorem mem_sv_mem {z : List Nat × View} (hz : z ∈ e.inputs.zip views) {x : Nat} (hx : x ∈ sv z) : x ∈ z.1 := by
  unfold sv at hx
  rw [List.mem_map] at hx
  obtain ⟨i, hi, rfl⟩ := hx
  unfold reserved at hi
  rw [List.mem_filter, List.mem_range] at hi
  have hi' : i < z.1.length := by rw [(h.dims z hz).1]; exact hi.1
  rw [List.getElem?_eq_getElem hi']
  exact List.getElem_mem hi'

omit hsf in
theorem kept_sub_inputs {x : Nat} (hx : x ∈ kept e views) : x ∈ e.inputs.flatten := by
  obtain ⟨z, hz, hxz⟩ := (mem_kept_iff e views x).1 hx
  rw [List.mem_flatten]
  exact ⟨z.1, (List.of_mem_zip hz).1, mem_sv_mem h hz hxz⟩

theorem inputs_sub_output {x : Nat} (hx : x ∈ e.inputs.flatten) : x ∈ e.output :=
  (mem_output_iff h hsf x).2 (h.range x (by simp [hx]))

theorem mem_outVars_iff (x : Nat) : x ∈ outVars e views ↔ x ∈ kept e views := by
  unfold outVars
  rw [List.mem_filter]
  simp only [Bool.not_eq_eq_eq_not, Bool.not_true, List.contains_eq_mem, decide_eq_false_iff_not]
  rw [mem_removed_iff e views]
  constructor
  · rintro ⟨ho, hn⟩
    by_contra hk
    exact hn ⟨h.outUsed x ho, hk⟩
  · intro hk
    exact ⟨inputs_sub_output h hsf (kept_sub_inputs h hk), fun hn => hn.2 hk⟩

theorem mem_order_iff (x : Nat) : x ∈ order e views ↔ x ∈ kept e views := by
  unfold order
  rw [List.mem_eraseDups, List.mem_append, mem_outVars_iff h hsf]
  unfold kept
  simp

theorem ren_inj {x y : Nat} (hx : x ∈ kept e views) (hxy : ren e views x = ren e views y) : x = y :=
  (List.idxOf_inj ((mem_order_iff h hsf x).2 hx)).1 hxy

theorem ren_lt {x : Nat} (hx : x ∈ kept e views) : ren e views x < (order e views).length :=
  List.idxOf_lt_length_iff.2 ((mem_order_iff h hsf x).2 hx)

end

/-! ### list helpers -/

theorem idxOf_map_inj {f : Nat → Nat} (x : Nat) : ∀ (l : List Nat), (∀ a ∈ l, f a = f x → a = x) →
    (l.map f).idxOf (f x) = l.idxOf x
  | [], _ => rfl
  | a :: l, hinj => by
    rw [List.map_cons, List.idxOf_cons, List.idxOf_cons, idxOf_map_inj x l (fun b hb => hinj b (by simp [hb]))]
    by_cases hax : a = x
    · subst hax; simp
    · have : f a ≠ f x := fun e => hax (hinj a (by simp) e)
      have h1 : (f a == f x) = false := beq_eq_false_iff_ne.2 this
      have h2 : (a == x) = false := beq_eq_false_iff_ne.2 hax
      rw [h1, h2]

theorem mem_map_inj {f : Nat → Nat} {x : Nat} {l : List Nat} (hinj : ∀ a ∈ l, f a = f x → a = x)
    (hm : f x ∈ l.map f) : x ∈ l := by
  rw [List.mem_map] at hm
  obtain ⟨a, ha, hfa⟩ := hm
  rw [← hinj a ha hfa]; exact ha

/-- reading two lists mapped along one list of positions at the position of `x` in the first -/
theorem getElem_map_idxOf (ks : List Nat) (g f : Nat → Nat) (x : Nat) (hx : x ∈ ks.map g) :
    ∃ k ∈ ks, g k = x ∧ (ks.map f)[(ks.map g).idxOf x]?.getD 0 = f k := by
  have hlt : (ks.map g).idxOf x < (ks.map g).length := List.idxOf_lt_length_iff.2 hx
  have hlt' : (ks.map g).idxOf x < ks.length := by simpa using hlt
  refine ⟨ks[(ks.map g).idxOf x], List.getElem_mem hlt', ?_, ?_⟩
  · have := List.getElem_idxOf hlt
    rwa [List.getElem_map] at this
  · rw [List.getElem?_eq_getElem (by simpa using hlt'), List.getElem_map]; rfl

theorem zip_map_zip {α β γ δ : Type} : ∀ (l1 : List α) (l2 : List β), l1.length = l2.length →
    ∀ (F : α × β → γ) (G : β → δ), ((l1.zip l2).map F).zip (l2.map G) = (l1.zip l2).map (fun z => (F z, G z.2))
  | [], [], _, _, _ => rfl
  | [], _ :: _, h, _, _ => by simp at h
  | _ :: _, [], h, _, _ => by simp at h
  | a :: l1, b :: l2, h, F, G => by
    simp only [List.zip_cons_cons, List.map_cons, List.cons.injEq, true_and]
    exact zip_map_zip l1 l2 (by simpa using h) F G

theorem zip_self_eq {α β : Type} (l1 : List α) (l2 : List β) (hl : l1.length = l2.length) :
    l1 = (l1.zip l2).map Prod.fst ∧ l2 = (l1.zip l2).map Prod.snd :=
  ⟨(List.map_fst_zip (by omega)).symm, (List.map_snd_zip (by omega)).symm⟩

/-! ### the reduced equation -/

section
variable {e : Eqn} {views : List View} (h : WFe e views) (hsf : e.output.length = e.numVars)
include h hsf

omit hsf in
/-- the operands of the reduced equation, along the operands of the original one -/
theorem reduced_zip :
    ((shrunkVars e views).map (fun l => l.map (ren e views))).zip (views.map shrink)
      = (e.inputs.zip views).map (fun z => ((sv z).map (ren e views), shrink z.2)) := by
  unfold shrunkVars
  rw [List.map_map, zip_map_zip _ _ h.len]
  rfl

/-- **the sizes of the reduced equation are the original sizes** -/
theorem varSize_reduced {x : Nat} (hx : x ∈ kept e views) :
    varSize ⟨(shrunkVars e views).map (fun l => l.map (ren e views)), (outVars e views).map (ren e views),
        (order e views).length⟩ (views.map shrink) (ren e views x) = varSize e views x := by
  unfold varSize
  simp only
  rw [reduced_zip h, List.find?_map]
  cases hf : (e.inputs.zip views).find? ((fun p => p.1.contains (ren e views x)) ∘
      (fun z => ((sv z).map (ren e views), shrink z.2))) with
  | none =>
    exfalso
    rw [List.find?_eq_none] at hf
    obtain ⟨z, hz, hxz⟩ := (mem_kept_iff e views x).1 hx
    apply hf z hz
    simp only [Function.comp, List.contains_eq_mem, decide_eq_true_eq]
    exact List.mem_map.2 ⟨x, hxz, rfl⟩
  | some z =>
    have hz := List.mem_of_find?_eq_some hf
    have hc := List.find?_some hf
    simp only [Function.comp, List.contains_eq_mem, decide_eq_true_eq] at hc
    have hinj : ∀ a ∈ sv z, ren e views a = ren e views x → a = x := fun a ha hax =>
      ren_inj h hsf ((mem_kept_iff e views a).2 ⟨z, hz, ha⟩) hax
    have hxz : x ∈ sv z := mem_map_inj hinj hc
    simp only [Option.map_some]
    rw [idxOf_map_inj x (sv z) hinj]
    unfold shrink
    simp only
    obtain ⟨k, hk, hgk, hfk⟩ := getElem_map_idxOf (reserved z.2) (fun i => z.1[i]?.getD 0)
      (fun i => z.2.shape[i]?.getD 0) x hxz
    unfold sv
    rw [hfk]
    rw [← hgk]
    apply h.sizes z hz
    unfold reserved at hk
    rw [List.mem_filter, List.mem_range] at hk
    rw [(h.dims z hz).1]; exact hk.1

/-- the shape of the reduced result -/
theorem shape_reduced :
    ((outVars e views).map (ren e views)).map
      (varSize ⟨(shrunkVars e views).map (fun l => l.map (ren e views)), (outVars e views).map (ren e views),
        (order e views).length⟩ (views.map shrink))
      = (outVars e views).map (varSize e views) := by
  rw [List.map_map]
  apply List.map_congr_left
  intro x hx
  exact varSize_reduced h hsf ((mem_outVars_iff h hsf x).1 hx)

/-- the assignment of the reduced variables read off the chosen cell gives a kept variable its original value -/
theorem assignOf_ren (a : List Nat) {x : Nat} (hx : x ∈ kept e views) :
    (assignOf ((outVars e views).map (ren e views)) (order e views).length
      ((outVars e views).map (fun x => a[x]?.getD 0)))[ren e views x]?.getD 0 = a[x]?.getD 0 := by
  unfold assignOf
  have hlt := ren_lt h hsf hx
  rw [List.getElem?_map, List.getElem?_range hlt]
  simp only [Option.map_some, Option.getD_some]
  have hxo : x ∈ outVars e views := (mem_outVars_iff h hsf x).2 hx
  rw [idxOf_map_inj x (outVars e views) (fun b hb hbx => ren_inj h hsf ((mem_outVars_iff h hsf b).1 hb) hbx),
    List.getElem?_map, List.getElem?_idxOf hxo]
  rfl

/-- operand by operand, the reduced view addresses the same storage element -/
theorem operand_addr (a : List Nat) (hal : a.length = e.numVars)
    (ha : ∀ x, x < e.numVars → a[x]?.getD 0 < varSize e views x) {z : List Nat × View}
    (hz : z ∈ e.inputs.zip views) :
    (shrink z.2).addr (((sv z).map (ren e views)).map (fun y =>
        (assignOf ((outVars e views).map (ren e views)) (order e views).length
          ((outVars e views).map (fun x => a[x]?.getD 0)))[y]?.getD 0))
      = z.2.addr (z.1.map (fun x => a[x]?.getD 0)) := by
  have hd := h.dims z hz
  rw [← shrink_addr z.2 (z.1.map (fun x => a[x]?.getD 0)) (by rw [List.length_map]; exact hd.1)]
  · congr 1
    rw [List.map_map]
    unfold sv
    rw [List.map_map]
    apply List.map_congr_left
    intro k hk
    have hk' : k < z.1.length := by
      unfold reserved at hk
      rw [List.mem_filter, List.mem_range] at hk
      rw [hd.1]; exact hk.1
    simp only [Function.comp]
    rw [assignOf_ren h hsf a ((mem_kept_iff e views _).2 ⟨z, hz, List.mem_map.2 ⟨k, hk, rfl⟩⟩)]
    rw [List.getElem?_map, List.getElem?_eq_getElem hk']
    simp
  · intro k hk
    have hk' : k < z.1.length := by rw [hd.1]; exact hk
    rw [h.sizes z hz k hk', List.getElem?_map, List.getElem?_eq_getElem hk']
    simp only [Option.map_some, Option.getD_some]
    apply ha
    apply h.range
    rw [List.mem_append, List.mem_flatten]
    exact Or.inl ⟨z.1, (List.of_mem_zip hz).1, List.getElem_mem hk'⟩

/-! ### the positions to unsqueeze -/

theorem unsq_eq :
    ((removed e views).map e.output.idxOf).mergeSort (· ≤ ·)
      = posOf (fun x => (removed e views).contains x) e.output := by
  have hperm := List.mergeSort_perm ((removed e views).map e.output.idxOf) (· ≤ ·)
  have hrem_out : ∀ x ∈ removed e views, x ∈ e.output := fun x hx =>
    inputs_sub_output h hsf ((mem_removed_iff e views x).1 hx).1
  have hnd : ((removed e views).map e.output.idxOf).Nodup := by
    apply List.Nodup.map_on
    · intro x hx y hy hxy
      exact (List.idxOf_inj (hrem_out x hx)).1 hxy
    · unfold removed
      exact (C07bL.nodup_eraseDups _).filter _
  apply sorted_unique
  · have hs : (((removed e views).map e.output.idxOf).mergeSort (· ≤ ·)).Pairwise (fun a b => (decide (a ≤ b)) = true) :=
      List.pairwise_mergeSort (le := fun a b => decide (a ≤ b))
        (by intro a b c h1 h2; simp only [decide_eq_true_eq] at *; omega)
        (by intro a b; simp only [Bool.or_eq_true, decide_eq_true_eq]; omega) _
    have hn := (hperm.nodup_iff).2 hnd
    exact (hs.and hn).imp (fun {a b} hab => by
      have := hab.1; simp only [decide_eq_true_eq] at this
      have := hab.2; omega)
  · exact posOf_sorted _ _
  · intro p
    rw [hperm.mem_iff, mem_posOf, List.mem_map]
    constructor
    · rintro ⟨x, hx, rfl⟩
      have hxo := hrem_out x hx
      refine ⟨List.idxOf_lt_length_iff.2 hxo, ?_⟩
      rw [List.getElem?_idxOf hxo]
      simpa using hx
    · rintro ⟨hp, hc⟩
      rw [List.getElem?_eq_getElem hp] at hc
      simp only [Option.getD_some, List.contains_eq_mem, decide_eq_true_eq] at hc
      exact ⟨_, hc, h.nodupOut.idxOf_getElem p hp⟩

/-- **`post_einsum`** reads, at the output index of `a`, the cell of the reduced result at the kept output variables -/
theorem post_addr (a : List Nat) (ha : ∀ x, x < e.numVars → a[x]?.getD 0 < varSize e views x) :
    (postEinsum (contiguous ((outVars e views).map (varSize e views)))
        (((removed e views).map e.output.idxOf).mergeSort (· ≤ ·)) (e.output.map (varSize e views))).addr
        (e.output.map (fun x => a[x]?.getD 0))
      = (contiguous ((outVars e views).map (varSize e views))).addr ((outVars e views).map (fun x => a[x]?.getD 0)) := by
  unfold postEinsum
  rw [unsq_eq h hsf]
  have hE : ∀ {β : Type} (f : Nat → β), eraseAll (posOf (fun x => (removed e views).contains x) e.output) (e.output.map f)
      = (outVars e views).map f := fun f => eraseAll_posOf _ f e.output
  have hb : ∀ d ∈ posOf (fun x => (removed e views).contains x) e.output,
      d < (e.output.map (varSize e views)).length := by
    intro d hd
    rw [List.length_map]; exact ((mem_posOf _ _ _).1 hd).1
  have hlen := length_eraseAll _ (e.output.map (varSize e views)) (posOf_sorted _ _) hb
  rw [hE] at hlen
  rw [expand_foldl_unsqueeze_addr _ _ _ _ (posOf_sorted _ _) hb]
  · rw [hE, hE]
    exact expand_self_addr (contiguous ((outVars e views).map (varSize e views)))
      (by simp [contiguous, contiguousStrides_length]) _
  · simpa [contiguous] using hlen
  · simpa [contiguous, contiguousStrides_length] using hlen
  · intro d hd ho
    have hd' := ((mem_posOf _ _ _).1 hd).1
    rw [List.getElem?_map, List.getElem?_eq_getElem hd'] at ho ⊢
    simp only [Option.map_some, Option.getD_some] at ho ⊢
    have := ha e.output[d] (h.range _ (by simp))
    omega

/-- the chosen cell is a cell of the reduced result -/
theorem idx_mem_assigns (a : List Nat) (ha : ∀ x, x < e.numVars → a[x]?.getD 0 < varSize e views x) :
    (outVars e views).map (fun x => a[x]?.getD 0) ∈ Ax.assigns ((outVars e views).map (varSize e views)) := by
  rw [C06dL.mem_assigns_iff, List.forall₂_map_left_iff, List.forall₂_map_right_iff, List.forall₂_same]
  intro x hx
  apply ha
  apply h.range
  rw [List.mem_append]
  exact Or.inl (kept_sub_inputs h ((mem_outVars_iff h hsf x).1 hx))

/-- **`reduce_equation` + `post_einsum` are correct** (the statement of `C07e.reduce_correct`) -/
theorem reduce_main (a : List Nat) (hal : a.length = e.numVars)
    (ha : ∀ x, x < e.numVars → a[x]?.getD 0 < varSize e views x) :
    let r := reduceEquation e views
    let shape' := r.eqn.output.map (varSize r.eqn r.views)
    r.outShape = e.output.map (varSize e views) ∧
    (postEinsum (contiguous shape') r.unsqueeze r.outShape).shape = r.outShape ∧
    r.views.length = views.length ∧
    ∃ idx' ∈ Ax.assigns shape',
      (postEinsum (contiguous shape') r.unsqueeze r.outShape).addr (e.output.map (fun x => a[x]?.getD 0))
        = (contiguous shape').addr idx' ∧
      (r.eqn.inputs.zip r.views).map (fun p => p.2.addr (p.1.map (fun x => (assignOf r.eqn.output r.eqn.numVars idx')[x]?.getD 0)))
        = (e.inputs.zip views).map (fun p => p.2.addr (p.1.map (fun x => a[x]?.getD 0))) := by
  rw [reduceEquation_eq e views hsf]
  simp only
  rw [shape_reduced h hsf]
  refine ⟨trivial, rfl, by simp, (outVars e views).map (fun x => a[x]?.getD 0), idx_mem_assigns h hsf a ha,
    post_addr h hsf a ha, ?_⟩
  rw [reduced_zip h, List.map_map]
  apply List.map_congr_left
  intro z hz
  exact operand_addr h hsf a hal ha hz

end

end C07eL
