/-
C05c lemmas — variable elimination along a rooted tree decomposition.

Part A: iterated sums over the values of a list of nodes (`bsum`), as functions of a valuation
`Node → Nat`: splitting, reordering, pulling out factors that do not depend on the summed nodes, product of
sums over disjoint node sets.  Bridge from the association-list sums of `FactorizeSem` (`asgs`, `valOf`).
Part B: the tree of rules of a factorization: the nodes / edges collected below a rule (`collect`), their
disjointness (running intersection), completeness with enough fuel, no duplicates.
Part C: the induction: `factValue` of a rule = sum over the nodes below it of the product of the edges below it.
-/
import FggsModel.FactorizeSem
import FggsProofs.Props.C01
import FggsProofs.C05bLemmas
import Mathlib.Tactic.Linarith
import Mathlib.Data.List.Basic
import Mathlib.Data.List.Nodup
import Mathlib.Data.List.Perm.Basic

set_option linter.unusedSimpArgs false
set_option linter.unusedVariables false

namespace C05c
open Fggs Fggs.Cj Fggs.Fz Fggs.TD

variable {K : Type}

/-! ## Part A — algebra -/

section toolkit
variable {S : Sem.SR K} (hS : C01.SRLaws S)
include hS

theorem add_zero (a : K) : S.add a S.zero = a := by rw [hS.add_comm, hS.zero_add]
theorem mul_one (a : K) : S.mul a S.one = a := by rw [hS.mul_comm, hS.one_mul]
theorem mul_zero (a : K) : S.mul a S.zero = S.zero := by rw [hS.mul_comm, hS.zero_mul]
theorem right_distrib (a b c : K) : S.mul (S.add a b) c = S.add (S.mul a c) (S.mul b c) := by
  rw [hS.mul_comm, hS.left_distrib, hS.mul_comm c a, hS.mul_comm c b]

theorem foldl_add (l : List K) (a : K) : l.foldl S.add a = S.add a (S.sum l) := by
  induction l generalizing a with
  | nil => simp [Sem.SR.sum, add_zero hS]
  | cons b l ih =>
    simp only [Sem.SR.sum, List.foldl_cons]
    rw [ih, ih (S.add S.zero b), hS.zero_add, hS.add_assoc]

omit hS in
theorem sum_nil' : S.sum ([] : List K) = S.zero := rfl

theorem sum_cons (a : K) (l : List K) : S.sum (a :: l) = S.add a (S.sum l) := by
  show (a :: l).foldl S.add S.zero = _
  rw [List.foldl_cons, foldl_add hS, hS.zero_add]

theorem sum_singleton (a : K) : S.sum [a] = a := by
  rw [sum_cons hS, sum_nil', add_zero hS]

theorem sum_append (l₁ l₂ : List K) : S.sum (l₁ ++ l₂) = S.add (S.sum l₁) (S.sum l₂) := by
  induction l₁ with
  | nil => simp [sum_nil', hS.zero_add]
  | cons a l ih => rw [List.cons_append, sum_cons hS, sum_cons hS, ih, hS.add_assoc]

theorem sum_flatMap {α : Type} (l : List α) (g : α → List K) :
    S.sum (l.flatMap g) = S.sum (l.map (fun x => S.sum (g x))) := by
  induction l with
  | nil => rfl
  | cons a l ih => rw [List.flatMap_cons, sum_append hS, List.map_cons, sum_cons hS, ih]

theorem sum_map_zero {α : Type} (l : List α) : S.sum (l.map (fun _ => S.zero)) = S.zero := by
  induction l with
  | nil => rfl
  | cons a l ih => rw [List.map_cons, sum_cons hS, ih, hS.zero_add]

theorem sum_map_add {α : Type} (l : List α) (f g : α → K) :
    S.sum (l.map (fun x => S.add (f x) (g x))) = S.add (S.sum (l.map f)) (S.sum (l.map g)) := by
  induction l with
  | nil => simp [sum_nil', hS.zero_add]
  | cons a l ih =>
    simp only [List.map_cons, sum_cons hS, ih]
    rw [hS.add_assoc, hS.add_assoc, ← hS.add_assoc (g a), ← hS.add_assoc (S.sum (l.map f)),
      hS.add_comm (g a)]

theorem sum_comm {α β : Type} (l₁ : List α) (l₂ : List β) (f : α → β → K) :
    S.sum (l₁.map (fun x => S.sum (l₂.map (fun y => f x y)))) =
    S.sum (l₂.map (fun y => S.sum (l₁.map (fun x => f x y)))) := by
  induction l₁ with
  | nil => simp only [List.map_nil, sum_nil', sum_map_zero hS]
  | cons a l ih =>
    simp only [List.map_cons, sum_cons hS, ih]
    rw [sum_map_add hS]

theorem sum_mul_left (c : K) (l : List K) : S.mul c (S.sum l) = S.sum (l.map (S.mul c)) := by
  induction l with
  | nil => simp [sum_nil', mul_zero hS]
  | cons a l ih => rw [List.map_cons, sum_cons hS, sum_cons hS, hS.left_distrib, ih]

theorem sum_mul_right (c : K) (l : List K) :
    S.mul (S.sum l) c = S.sum (l.map (fun x => S.mul x c)) := by
  induction l with
  | nil => simp [sum_nil', hS.zero_mul]
  | cons a l ih => rw [List.map_cons, sum_cons hS, sum_cons hS, right_distrib hS, ih]

theorem foldl_mul (l : List K) (c : K) : l.foldl S.mul c = S.mul c (S.prod l) := by
  induction l generalizing c with
  | nil => simp [Sem.SR.prod, mul_one hS]
  | cons b l ih =>
    simp only [Sem.SR.prod, List.foldl_cons]
    rw [ih, ih (S.mul S.one b), hS.one_mul, hS.mul_assoc]

omit hS in
theorem prod_nil' : S.prod ([] : List K) = S.one := rfl

theorem prod_cons (a : K) (l : List K) : S.prod (a :: l) = S.mul a (S.prod l) := by
  show (a :: l).foldl S.mul S.one = _
  rw [List.foldl_cons, foldl_mul hS, hS.one_mul]

theorem prod_append (l₁ l₂ : List K) : S.prod (l₁ ++ l₂) = S.mul (S.prod l₁) (S.prod l₂) := by
  induction l₁ with
  | nil => simp [prod_nil', hS.one_mul]
  | cons a l ih => rw [List.cons_append, prod_cons hS, prod_cons hS, ih, hS.mul_assoc]

theorem prod_flatMap {α : Type} (l : List α) (g : α → List K) :
    S.prod (l.flatMap g) = S.prod (l.map (fun x => S.prod (g x))) := by
  induction l with
  | nil => rfl
  | cons a l ih => rw [List.flatMap_cons, prod_append hS, List.map_cons, prod_cons hS, ih]

theorem prod_perm (l l' : List K) (h : l.Perm l') : S.prod l = S.prod l' := by
  induction h with
  | nil => rfl
  | cons a _ ih => rw [prod_cons hS, prod_cons hS, ih]
  | swap a b l =>
    rw [prod_cons hS, prod_cons hS, prod_cons hS, prod_cons hS, ← hS.mul_assoc, ← hS.mul_assoc,
      hS.mul_comm a b]
  | trans _ _ ih1 ih2 => rw [ih1, ih2]

end toolkit

/-! ### iterated sums over valuations -/

/-- `ρ[v ↦ i]` -/
def upd (ρ : Node → Nat) (v : Node) (i : Nat) : Node → Nat := fun w => if w = v then i else ρ w

/-- `Σ_{values of the nodes vs} f (ρ updated at vs)` -/
def bsum (S : Sem.SR K) (dom : Node → Nat) : List Node → (Node → Nat) → ((Node → Nat) → K) → K
  | [], ρ, f => f ρ
  | v :: vs, ρ, f => S.sum ((List.range (dom v)).map (fun i => bsum S dom vs (upd ρ v i) f))

/-- `f` reads its valuation only at nodes satisfying `P` -/
def Dep (P : Node → Prop) (f : (Node → Nat) → K) : Prop :=
  ∀ σ σ' : Node → Nat, (∀ v, P v → σ v = σ' v) → f σ = f σ'

theorem Dep.mono {P Q : Node → Prop} {f : (Node → Nat) → K} (h : Dep P f) (hpq : ∀ v, P v → Q v) : Dep Q f :=
  fun σ σ' hag => h σ σ' (fun v hv => hag v (hpq v hv))

theorem bsum_congr (S : Sem.SR K) (dom : Node → Nat) (vs : List Node) (ρ : Node → Nat)
    {f g : (Node → Nat) → K} (h : ∀ σ, f σ = g σ) : bsum S dom vs ρ f = bsum S dom vs ρ g := by
  have : f = g := funext h
  rw [this]

theorem bsum_append (S : Sem.SR K) (dom : Node → Nat) (vs ws : List Node) (ρ : Node → Nat)
    (f : (Node → Nat) → K) :
    bsum S dom (vs ++ ws) ρ f = bsum S dom vs ρ (fun σ => bsum S dom ws σ f) := by
  induction vs generalizing ρ with
  | nil => rfl
  | cons v vs ih =>
    simp only [List.cons_append, bsum]
    congr 1
    apply List.map_congr_left
    intro i _
    exact ih _

theorem bsum_dep (S : Sem.SR K) (dom : Node → Nat) {P : Node → Prop} {f : (Node → Nat) → K} (hf : Dep P f)
    (vs : List Node) (ρ ρ' : Node → Nat) (hag : ∀ v, P v → v ∈ vs ∨ ρ v = ρ' v) :
    bsum S dom vs ρ f = bsum S dom vs ρ' f := by
  induction vs generalizing ρ ρ' with
  | nil =>
    simp only [bsum]
    apply hf
    intro v hv
    rcases hag v hv with h | h
    · cases h
    · exact h
  | cons w vs ih =>
    simp only [bsum]
    congr 1
    apply List.map_congr_left
    intro i _
    apply ih
    intro v hv
    by_cases hvw : v = w
    · right; simp [upd, hvw]
    · rcases hag v hv with h | h
      · rcases List.mem_cons.1 h with h | h
        · exact absurd h hvw
        · exact Or.inl h
      · right; simp [upd, hvw, h]

section bsumalg
variable {S : Sem.SR K} (hS : C01.SRLaws S)
include hS

theorem bsum_mul_const_right (dom : Node → Nat) (vs : List Node) (ρ : Node → Nat)
    (f h : (Node → Nat) → K) (c : K)
    (hc : ∀ σ : Node → Nat, (∀ v, v ∉ vs → σ v = ρ v) → h σ = c) :
    bsum S dom vs ρ (fun σ => S.mul (f σ) (h σ)) = S.mul (bsum S dom vs ρ f) c := by
  induction vs generalizing ρ with
  | nil =>
    simp only [bsum]
    rw [hc ρ (fun _ _ => rfl)]
  | cons w vs ih =>
    simp only [bsum]
    rw [sum_mul_right hS, List.map_map]
    congr 1
    apply List.map_congr_left
    intro i _
    simp only [Function.comp]
    apply ih
    intro σ hσ
    apply hc
    intro v hv
    rw [hσ v (fun hm => hv (List.mem_cons_of_mem _ hm))]
    have : v ≠ w := fun hvw => hv (by simp [hvw])
    simp [upd, this]

theorem bsum_mul_const_left (dom : Node → Nat) (vs : List Node) (ρ : Node → Nat)
    (f h : (Node → Nat) → K) (c : K)
    (hc : ∀ σ : Node → Nat, (∀ v, v ∉ vs → σ v = ρ v) → h σ = c) :
    bsum S dom vs ρ (fun σ => S.mul (h σ) (f σ)) = S.mul c (bsum S dom vs ρ f) := by
  rw [hS.mul_comm c, ← bsum_mul_const_right hS dom vs ρ f h c hc]
  apply bsum_congr
  intro σ
  exact hS.mul_comm _ _

omit hS in
theorem upd_comm (ρ : Node → Nat) {x y : Node} (hxy : x ≠ y) (i j : Nat) :
    upd (upd ρ y i) x j = upd (upd ρ x j) y i := by
  funext w
  simp only [upd]
  by_cases h1 : w = x
  · have : w ≠ y := fun h => hxy (h1.symm.trans h)
    simp [h1, hxy]
  · simp [h1]

theorem bsum_perm (dom : Node → Nat) {vs ws : List Node} (hp : vs.Perm ws) (ρ : Node → Nat)
    (f : (Node → Nat) → K) : bsum S dom vs ρ f = bsum S dom ws ρ f := by
  induction hp generalizing ρ with
  | nil => rfl
  | cons a _ ih =>
    simp only [bsum]
    congr 1
    apply List.map_congr_left
    intro i _
    exact ih _
  | swap x y l =>
    by_cases hxy : x = y
    · subst hxy; rfl
    · simp only [bsum]
      rw [sum_comm hS]
      congr 1
      apply List.map_congr_left
      intro j _
      congr 1
      apply List.map_congr_left
      intro i _
      rw [upd_comm ρ hxy]
  | trans _ _ ih1 ih2 => rw [ih1, ih2]

/-- a product of sums over pairwise independent node lists is the sum over all of them of the product -/
theorem prod_bsum (dom : Node → Nat) {ι : Type} (l : List ι) (vsOf : ι → List Node)
    (POf : ι → Node → Prop) (gOf : ι → (Node → Nat) → K)
    (hdep : ∀ i ∈ l, Dep (POf i) (gOf i))
    (hpw : l.Pairwise (fun i j => (∀ v ∈ vsOf j, ¬ POf i v) ∧ (∀ v ∈ vsOf i, ¬ POf j v)))
    (σ : Node → Nat) :
    S.prod (l.map (fun i => bsum S dom (vsOf i) σ (gOf i))) =
      bsum S dom (l.flatMap vsOf) σ (fun σ' => S.prod (l.map (fun i => gOf i σ'))) := by
  induction l with
  | nil => rfl
  | cons i l ih =>
    rw [List.pairwise_cons] at hpw
    obtain ⟨hi, hpw'⟩ := hpw
    have ih' := ih (fun j hj => hdep j (List.mem_cons_of_mem _ hj)) hpw'
    rw [List.map_cons, prod_cons hS, ih', List.flatMap_cons, bsum_append]
    have hG : Dep (fun v => ∃ j ∈ l, POf j v) (fun σ' => S.prod (l.map (fun j => gOf j σ'))) := by
      intro σ1 σ2 hag
      show S.prod _ = S.prod _
      congr 1
      apply List.map_congr_left
      intro j hj
      exact hdep j (List.mem_cons_of_mem _ hj) σ1 σ2 (fun v hv => hag v ⟨j, hj, hv⟩)
    have inner : ∀ σ1, bsum S dom (l.flatMap vsOf) σ1 (fun σ' => S.prod ((i :: l).map (fun i => gOf i σ'))) =
        S.mul (gOf i σ1) (bsum S dom (l.flatMap vsOf) σ1 (fun σ' => S.prod (l.map (fun j => gOf j σ')))) := by
      intro σ1
      rw [← bsum_mul_const_left hS dom (l.flatMap vsOf) σ1 _ (gOf i) (gOf i σ1)]
      · apply bsum_congr
        intro σ'
        rw [List.map_cons, prod_cons hS]
      · intro σ2 hσ2
        apply hdep i (by simp)
        intro v hv
        apply hσ2
        intro hm
        obtain ⟨j, hj, hvj⟩ := List.mem_flatMap.1 hm
        exact (hi j hj).1 v hvj hv
    rw [bsum_congr S dom _ _ inner]
    rw [bsum_mul_const_right hS dom (vsOf i) σ (gOf i) _
      (bsum S dom (l.flatMap vsOf) σ (fun σ' => S.prod (l.map (fun j => gOf j σ'))))]
    intro σ1 hσ1
    apply bsum_dep S dom hG
    intro v ⟨j, hj, hvj⟩
    right
    apply hσ1
    intro hm
    exact (hi j hj).2 v hm hvj

end bsumalg

/-! ### bridge from association lists -/

theorem valOf_snoc (α : List (Node × Nat)) (v : Node) (i : Nat) (hv : v ∉ α.map (·.1)) :
    valOf (α ++ [(v, i)]) = upd (valOf α) v i := by
  funext w
  simp only [valOf, upd, List.lookup_append]
  by_cases hw : w = v
  · subst hw
    rw [(C05b.lookup_none_iff α w).2 hv]
    simp [List.lookup]
  · have : (w == v) = false := by simp [hw]
    simp [List.lookup, this, hw]

theorem sum_asgs_eq_bsum {S : Sem.SR K} (hS : C01.SRLaws S) (dom : Node → Nat) (vs : List Node)
    (α : List (Node × Nat)) (f : (Node → Nat) → K) (hnd : vs.Nodup) (hdis : ∀ v ∈ vs, v ∉ α.map (·.1)) :
    S.sum ((asgs dom vs).map (fun β => f (valOf (α ++ β)))) = bsum S dom vs (valOf α) f := by
  induction vs generalizing α with
  | nil => simp [asgs, bsum, sum_singleton hS]
  | cons v vs ih =>
    rw [List.nodup_cons] at hnd
    simp only [asgs, bsum, List.map_flatMap, List.map_map]
    rw [sum_flatMap hS]
    congr 1
    apply List.map_congr_left
    intro i _
    have : ((fun β => f (valOf (α ++ β))) ∘ fun x => (v, i) :: x) =
        fun β => f (valOf ((α ++ [(v, i)]) ++ β)) := by
      funext β
      simp [Function.comp]
    rw [this, ih (α ++ [(v, i)]) hnd.2, valOf_snoc α v i (hdis v (by simp))]
    intro w hw
    rw [List.map_append, List.mem_append]
    rintro (h | h)
    · exact hdis w (List.mem_cons_of_mem _ hw) h
    · simp only [List.map_cons, List.map_nil, List.mem_singleton] at h
      subst h
      exact hnd.1 hw

theorem valOf_map_self (l : List Node) (ρ : Node → Nat) (v : Node) (hv : v ∈ l) :
    valOf (l.map (fun v => (v, ρ v))) v = ρ v := by
  induction l with
  | nil => cases hv
  | cons a l ih =>
    simp only [valOf, List.map_cons, List.lookup_cons]
    by_cases h : v = a
    · subst h; simp
    · have hb : (v == a) = false := by simp [h]
      rw [hb]
      rcases List.mem_cons.1 hv with h' | h'
      · exact absurd h' h
      · exact ih h'


/-! ## Part B — the tree of rules -/

section Tree
open C05b

theorem pairwise_ne_of_filter {α β : Type} [DecidableEq β] (key : α → β) :
    ∀ l : List α, (∀ x ∈ l, (l.filter (fun y => decide (key y = key x))).length ≤ 1) →
      l.Pairwise (fun a b => key a ≠ key b)
  | [], _ => List.Pairwise.nil
  | a :: l, h => by
    rw [List.pairwise_cons]
    constructor
    · intro b hb hab
      have h1 := h a (by simp)
      rw [List.filter_cons_of_pos (by simp)] at h1
      have : b ∈ l.filter (fun y => decide (key y = key a)) :=
        List.mem_filter.2 ⟨hb, by simp [hab]⟩
      have hl : 0 < (l.filter (fun y => decide (key y = key a))).length := List.length_pos_of_mem this
      simp only [List.length_cons] at h1
      omega
    · apply pairwise_ne_of_filter key l
      intro x hx
      refine le_trans ?_ (h x (List.mem_cons_of_mem _ hx))
      exact (List.Sublist.filter _ (List.sublist_cons_self a l)).length_le

/-- the part of `factorizationOf` that `C05b.Facts` does not record -/
theorem unpack2 (orig : Rule) (avoid : List String) (out : List Rule)
    (h : factorizationOf orig avoid out = true) :
    (∀ r ∈ out, r.nodes.Nodup ∧ ∀ v ∈ r.ext, v ∈ r.nodes) ∧
    (∀ r ∈ out, r.lhs ≠ orig.lhs → ∃ p e, parentsOf avoid out r.lhs = [p] ∧
        (newEdges avoid p).filter (fun x => decide (x.label = r.lhs)) = [e] ∧
        (∀ v ∈ r.ext, v ∈ p.nodes) ∧ (∀ v ∈ r.nodes, v ∈ p.nodes → v ∈ r.ext)) := by
  unfold factorizationOf at h
  split at h
  · rename_i root hroot
    simp only [Bool.and_eq_true, decide_eq_true_eq] at h
    obtain ⟨⟨⟨⟨⟨⟨⟨⟨h1, h2⟩, h3⟩, h4⟩, h5⟩, h6⟩, h7⟩, h8⟩, h9⟩ := h
    refine ⟨?_, ?_⟩
    · intro r hr
      have := List.all_eq_true.mp h4 r hr
      simp only [Bool.and_eq_true] at this
      exact ⟨(nodupB_iff _).mp this.1.1, (subsetN_iff _ _).mp this.2⟩
    · intro r hr hne
      have := List.all_eq_true.mp h5 r hr
      rw [Bool.or_eq_true, decide_eq_true_eq] at this
      rcases this with h | hts
      · exact absurd h hne
      · split at hts
        · rename_i p hp
          split at hts
          · rename_i e he
            simp only [Bool.and_eq_true, decide_eq_true_eq] at hts
            obtain ⟨⟨⟨_, _⟩, hall⟩, hmeet⟩ := hts
            refine ⟨p, e, hp, he, ?_, ?_⟩
            · intro v hv
              simpa using List.all_eq_true.mp hall v hv
            · intro v hv hvp
              have := List.all_eq_true.mp hmeet v hv
              simp only [Bool.or_eq_true, Bool.not_eq_true', List.contains_iff_mem] at this
              rcases this with h' | h'
              · have : p.nodes.contains v = true := by simpa using hvp
                rw [this] at h'; cases h'
              · simpa using h'
          · cases hts
        · cases hts
  · cases h

/-- everything the proof uses about a factorization -/
structure Ctx (orig : Rule) (avoid : List String) (out : List Rule) (root : Rule) : Prop where
  F : Facts orig avoid out root
  T : RootedTD (par avoid out) (fun r => r ∈ out) root (fun r (v : Node) => v ∈ r.nodes)
  nodes_nodup : ∀ r ∈ out, r.nodes.Nodup
  ext_sub : ∀ r ∈ out, ∀ v ∈ r.ext, v ∈ r.nodes
  child_ext : ∀ c ∈ out, ∀ p, par avoid out c = some p → ∀ v ∈ c.ext, v ∈ p.nodes
  child_meet : ∀ c ∈ out, ∀ p, par avoid out c = some p → ∀ v ∈ c.nodes, v ∈ p.nodes → v ∈ c.ext
  new_labels : ∀ r ∈ out, (newEdges avoid r).Pairwise (fun e e' => e.label ≠ e'.label)

variable {orig : Rule} {avoid : List String} {out : List Rule} {root : Rule}

theorem Ctx.of (h : factorizationOf orig avoid out = true)
    (hv : validTD (primal orig) (tdOf orig avoid out) = true) : ∃ root, Ctx orig avoid out root := by
  obtain ⟨root, F⟩ := unpack orig avoid out h
  obtain ⟨hA, hB⟩ := unpack2 orig avoid out h
  have T := rootedTD F (TDOK.of_validTD hv)
  have hshape : ∀ c ∈ out, ∀ p, par avoid out c = some p → ∃ e,
      (newEdges avoid p).filter (fun x => decide (x.label = c.lhs)) = [e] ∧
      (∀ v ∈ c.ext, v ∈ p.nodes) ∧ (∀ v ∈ c.nodes, v ∈ p.nodes → v ∈ c.ext) := by
    intro c hc p hp
    by_cases hl : c.lhs = orig.lhs
    · rw [F.root_only c hc hl, F.par_root] at hp; cases hp
    · obtain ⟨p', e, hp', he, h1, h2⟩ := hB c hc hl
      have : par avoid out c = some p' := by unfold par; rw [hp']; rfl
      rw [this] at hp
      cases hp
      exact ⟨e, he, h1, h2⟩
  refine ⟨root, F, T, fun r hr => (hA r hr).1, fun r hr => (hA r hr).2, ?_, ?_, ?_⟩
  · intro c hc p hp
    obtain ⟨e, _, h1, _⟩ := hshape c hc p hp
    exact h1
  · intro c hc p hp
    obtain ⟨e, _, _, h2⟩ := hshape c hc p hp
    exact h2
  · intro r hr
    apply pairwise_ne_of_filter (fun e : Edge => e.label)
    intro e he
    obtain ⟨⟨c, hc⟩, _⟩ := F.new_target r hr e he
    obtain ⟨hcout, hclhs⟩ := ruleOf_some hc
    obtain ⟨e', he', _, _⟩ := hshape c hcout r (F.par_of_newEdge hr he hcout hclhs)
    rw [hclhs] at he'
    rw [he']
    simp

section lemmas
variable (C : Ctx orig avoid out root)
include C

omit C in
theorem anc_mem {a b : Rule} (h : Anc (par avoid out) a b) : b ∈ out → a ∈ out := by
  induction h with
  | refl => exact id
  | step _ hp ih => intro hc; exact ih (par_mem hp)

theorem Ctx.no_self_par {r : Rule} (hr : r ∈ out) : par avoid out r ≠ some r := by
  intro hp
  obtain ⟨n, hn⟩ := (C.T.reach r hr).toN
  have := AncN.depth_unique C.T.root_par hn (AncN.step hn hp)
  omega

theorem Ctx.anc_antisymm {a b : Rule} (ha : a ∈ out) (h1 : Anc (par avoid out) a b)
    (h2 : Anc (par avoid out) b a) : a = b :=
  Anc.antisymm C.T.root_par (C.T.reach a ha) h1 h2

theorem Ctx.child_not_anc {c r : Rule} (hc : c ∈ out) (hp : par avoid out c = some r) :
    ¬ Anc (par avoid out) c r := by
  intro h
  have : c = r := C.anc_antisymm hc h (Anc.step (Anc.refl r) hp)
  subst this
  exact C.no_self_par hc hp

omit C in
theorem anc_head {par : Rule → Option Rule} {a d : Rule} (h : Anc par a d) :
    a = d ∨ ∃ c, par c = some a ∧ Anc par c d := by
  induction h with
  | refl => exact Or.inl rfl
  | step h hp ih =>
    rename_i b c
    rcases ih with h' | ⟨c', hc', hanc⟩
    · subst h'
      exact Or.inr ⟨c, hp, Anc.refl _⟩
    · exact Or.inr ⟨c', hc', Anc.step hanc hp⟩

theorem Ctx.same_depth {c c' r d : Rule} (hc : c ∈ out) (hc' : c' ∈ out)
    (hp : par avoid out c = some r) (hp' : par avoid out c' = some r)
    (h1 : Anc (par avoid out) c d) (h2 : Anc (par avoid out) c' d) : c = c' := by
  rcases Anc.comparable h1 h2 with h | h
  · cases h with
    | refl => rfl
    | step h' hpar =>
      rw [hp'] at hpar
      cases hpar
      exact absurd h' (C.child_not_anc hc hp)
  · cases h with
    | refl => rfl
    | step h' hpar =>
      rw [hp] at hpar
      cases hpar
      exact absurd h' (C.child_not_anc hc' hp')

theorem Ctx.child_of_newEdge {r : Rule} {e : Edge} (hr : r ∈ out) (he : e ∈ newEdges avoid r) :
    ∃ c, ruleOf out e.label = some c ∧ c ∈ out ∧ par avoid out c = some r ∧ c.lhs = e.label := by
  obtain ⟨⟨c, hc⟩, _⟩ := C.F.new_target r hr e he
  obtain ⟨hcout, hclhs⟩ := ruleOf_some hc
  exact ⟨c, hc, hcout, C.F.par_of_newEdge hr he hcout hclhs, hclhs⟩

theorem Ctx.newEdge_of_child {c r : Rule} (hc : c ∈ out) (hp : par avoid out c = some r) :
    ∃ e ∈ newEdges avoid r, ruleOf out e.label = some c := by
  have hr : r ∈ out := par_mem hp
  unfold par at hp
  obtain ⟨ys, hys⟩ := List.head?_eq_some_iff.1 hp
  have hm : r ∈ parentsOf avoid out c.lhs := by rw [hys]; simp
  obtain ⟨_, hany⟩ := List.mem_filter.mp hm
  obtain ⟨e, he, hel⟩ := List.any_eq_true.mp hany
  have hel' : e.label = c.lhs := by simpa using hel
  obtain ⟨⟨c', hc'⟩, _⟩ := C.F.new_target r hr e he
  obtain ⟨hc'out, hc'lhs⟩ := ruleOf_some hc'
  have : c' = c := C.F.lhs_inj c' hc'out c hc (by rw [hc'lhs, hel'])
  subst this
  exact ⟨e, he, hc'⟩

/-- the depth of a rule is smaller than the number of rules -/
theorem Ctx.depth_lt {r : Rule} {n : Nat} (hr : r ∈ out) (h : AncN (par avoid out) root r n) :
    n < out.length := by
  have key : ∀ (a : Rule) (n : Nat), AncN (par avoid out) root a n → a ∈ out →
      ∃ l : List Rule, l.length = n + 1 ∧ l.Nodup ∧
        ∀ x ∈ l, x ∈ out ∧ ∃ k, k ≤ n ∧ AncN (par avoid out) root x k := by
    intro a n h
    induction h with
    | refl =>
      intro ha
      exact ⟨[root], rfl, by simp, by
        intro x hx
        simp only [List.mem_singleton] at hx
        subst hx
        exact ⟨ha, 0, le_refl _, AncN.refl _⟩⟩
    | step h' hp ih =>
      rename_i b c m
      intro hc
      obtain ⟨l, hlen, hnd, hall⟩ := ih (par_mem hp)
      refine ⟨l ++ [c], by simp [hlen], ?_, ?_⟩
      · refine List.Nodup.append hnd (by simp) ?_
        intro x hx hx'
        simp only [List.mem_singleton] at hx'
        subst hx'
        obtain ⟨_, k, hk, hxk⟩ := hall x hx
        have := AncN.depth_unique C.T.root_par hxk (AncN.step h' hp)
        omega
      · intro x hx
        rcases List.mem_append.1 hx with hx | hx
        · obtain ⟨h1, k, hk, hxk⟩ := hall x hx
          exact ⟨h1, k, by omega, hxk⟩
        · simp only [List.mem_singleton] at hx
          subst hx
          exact ⟨hc, m + 1, le_refl _, AncN.step h' hp⟩
  obtain ⟨l, hlen, hnd, hall⟩ := key r n h hr
  have : l.length ≤ out.length := List.Nodup.length_le_of_subset hnd (fun x hx => (hall x hx).1)
  omega

end lemmas

/-! ### what hangs below a rule -/

/-- the lists `g d` of all rules `d` in the subtree of `r` (depth bounded by the fuel), top-down -/
def collect {X : Type} (avoid : List String) (out : List Rule) (g : Rule → List X) : Nat → Rule → List X
  | 0, _ => []
  | fuel+1, r => g r ++ (newEdges avoid r).flatMap (fun e =>
      match ruleOf out e.label with
      | some c => collect avoid out g fuel c
      | none => [])

/-- `v` is a node of some rule in the subtree of `c` -/
def InSub (avoid : List String) (out : List Rule) (c : Rule) (v : Node) : Prop :=
  ∃ d ∈ out, Anc (par avoid out) c d ∧ v ∈ d.nodes

section lemmas2
variable (C : Ctx orig avoid out root)
include C

theorem Ctx.collect_sub {X : Type} (g : Rule → List X) (fuel : Nat) {r : Rule} (hr : r ∈ out) {x : X}
    (hx : x ∈ collect avoid out g fuel r) : ∃ d ∈ out, Anc (par avoid out) r d ∧ x ∈ g d := by
  induction fuel generalizing r with
  | zero => simp [collect] at hx
  | succ fuel ih =>
    simp only [collect, List.mem_append, List.mem_flatMap] at hx
    rcases hx with hx | ⟨e, he, hx⟩
    · exact ⟨r, hr, Anc.refl _, hx⟩
    · obtain ⟨c, hc, hcout, hpar, _⟩ := C.child_of_newEdge hr he
      simp only [hc] at hx
      obtain ⟨d, hd, hanc, hxd⟩ := ih hcout hx
      exact ⟨d, hd, Anc.trans (Anc.step (Anc.refl r) hpar) hanc, hxd⟩

omit C in
theorem mem_internal {r : Rule} {v : Node} : v ∈ internal r ↔ v ∈ r.nodes ∧ v ∉ r.ext := by
  simp [internal, List.mem_filter]

/-- a rule in which `v` is internal is the top-most rule containing `v` -/
theorem Ctx.internal_top {r d : Rule} {v : Node} (hr : r ∈ out) (hd : d ∈ out)
    (hanc : Anc (par avoid out) r d) (hvd : v ∈ internal d) (hvr : v ∈ r.nodes) : r = d := by
  cases hanc with
  | refl => rfl
  | step h hp =>
    rename_i b
    exfalso
    have hvd' := mem_internal.1 hvd
    have := C.T.interval hr hvr hd hvd'.1 h (Anc.step (Anc.refl b) hp)
    exact hvd'.2 (C.child_meet d hd b hp v hvd'.1 this.2)

theorem Ctx.below_not_parent (fuel : Nat) {c r : Rule} (hc : c ∈ out) (hp : par avoid out c = some r)
    {v : Node} (hv : v ∈ collect avoid out internal fuel c) : v ∉ r.nodes := by
  intro hvr
  obtain ⟨d, hd, hanc, hvd⟩ := C.collect_sub internal fuel hc hv
  have hr : r ∈ out := par_mem hp
  have : r = d := C.internal_top hr hd (Anc.trans (Anc.step (Anc.refl r) hp) hanc) hvd hvr
  subst this
  exact C.child_not_anc hc hp hanc

theorem Ctx.below_disjoint (fuel : Nat) {c c' r : Rule} (hc : c ∈ out) (hc' : c' ∈ out)
    (hp : par avoid out c = some r) (hp' : par avoid out c' = some r) (hne : c ≠ c')
    {v : Node} (hv : v ∈ collect avoid out internal fuel c') (hs : InSub avoid out c v) : False := by
  obtain ⟨d', hd', hanc', hvd'⟩ := C.collect_sub internal fuel hc' hv
  obtain ⟨d, hd, hanc, hvd⟩ := hs
  obtain ⟨t, ht, htop⟩ := C.T.top_of hd hvd
  have htd' := C.T.below_top ht.left.1 ht.left.2 htop hd' (mem_internal.1 hvd').1
  have : t = d' := C.internal_top ht.left.1 hd' htd'.toAnc hvd' ht.left.2
  subst this
  exact hne (C.same_depth hc hc' hp hp' hanc (Anc.trans hanc' ht.toAnc))

theorem Ctx.below_spec (fuel : Nat) {r : Rule} (hr : r ∈ out) {v : Node}
    (hv : v ∈ collect avoid out internal fuel r) : v ∉ r.ext ∧ InSub avoid out r v := by
  obtain ⟨d, hd, hanc, hvd⟩ := C.collect_sub internal fuel hr hv
  refine ⟨?_, d, hd, hanc, (mem_internal.1 hvd).1⟩
  intro hvr
  have : r = d := C.internal_top hr hd hanc hvd (C.ext_sub r hr v hvr)
  subst this
  exact (mem_internal.1 hvd).2 hvr

theorem Ctx.edges_inSub (fuel : Nat) {r : Rule} (hr : r ∈ out) {e : Edge}
    (he : e ∈ collect avoid out (oldEdges avoid) fuel r) : ∀ v ∈ e.nodes, InSub avoid out r v := by
  obtain ⟨d, hd, hanc, hed⟩ := C.collect_sub (oldEdges avoid) fuel hr he
  intro v hv
  exact ⟨d, hd, hanc, ((keepsB_iff avoid out d e).1 (C.F.old_sub d hd e hed).2).1 v hv⟩

/-- with enough fuel everything in the subtree is collected -/
theorem Ctx.collect_complete {X : Type} (g : Rule → List X) (fuel : Nat) {r : Rule} {n : Nat} (hr : r ∈ out)
    (hn : AncN (par avoid out) root r n) (hlen : out.length ≤ n + fuel) {d : Rule} (hd : d ∈ out)
    (hanc : Anc (par avoid out) r d) {x : X} (hx : x ∈ g d) : x ∈ collect avoid out g fuel r := by
  induction fuel generalizing r n with
  | zero => have := C.depth_lt hr hn; omega
  | succ fuel ih =>
    simp only [collect, List.mem_append, List.mem_flatMap]
    rcases anc_head hanc with h | ⟨c, hpar, hcd⟩
    · subst h; exact Or.inl hx
    · right
      have hc : c ∈ out := anc_mem hcd hd
      obtain ⟨e, he, hce⟩ := C.newEdge_of_child hc hpar
      refine ⟨e, he, ?_⟩
      simp only [hce]
      exact ih hc (AncN.step hn hpar) (by omega) hcd

theorem Ctx.below_complete (fuel : Nat) {r : Rule} {n : Nat} (hr : r ∈ out)
    (hn : AncN (par avoid out) root r n) (hlen : out.length ≤ n + fuel) {v : Node}
    (hv : InSub avoid out r v) : v ∈ r.ext ∨ v ∈ collect avoid out internal fuel r := by
  induction fuel generalizing r n with
  | zero => have := C.depth_lt hr hn; omega
  | succ fuel ih =>
    obtain ⟨d, hd, hanc, hvd⟩ := hv
    have hnodes : v ∈ r.nodes → v ∈ r.ext ∨ v ∈ collect avoid out internal (fuel + 1) r := by
      intro hvr
      by_cases hext : v ∈ r.ext
      · exact Or.inl hext
      · right
        simp only [collect, List.mem_append]
        exact Or.inl (mem_internal.2 ⟨hvr, hext⟩)
    rcases anc_head hanc with h | ⟨c, hpar, hcd⟩
    · subst h; exact hnodes hvd
    · have hc : c ∈ out := anc_mem hcd hd
      rcases ih hc (AncN.step hn hpar) (by omega) ⟨d, hd, hcd, hvd⟩ with h | h
      · exact hnodes (C.child_ext c hc r hpar v h)
      · right
        obtain ⟨e, he, hce⟩ := C.newEdge_of_child hc hpar
        simp only [collect, List.mem_append, List.mem_flatMap]
        right
        refine ⟨e, he, ?_⟩
        simp only [hce]
        exact h

theorem Ctx.collect_nodup {X : Type} (g : Rule → List X) (hg : ∀ d ∈ out, (g d).Nodup)
    (hinj : ∀ d ∈ out, ∀ d' ∈ out, ∀ x, x ∈ g d → x ∈ g d' → d = d')
    (fuel : Nat) {r : Rule} (hr : r ∈ out) : (collect avoid out g fuel r).Nodup := by
  induction fuel generalizing r with
  | zero => simp [collect]
  | succ fuel ih =>
    simp only [collect]
    refine List.Nodup.append (hg r hr) ?_ ?_
    · rw [List.nodup_flatMap]
      constructor
      · intro e he
        obtain ⟨c, hc, hcout, _, _⟩ := C.child_of_newEdge hr he
        simp only [hc]
        exact ih hcout
      · refine List.Pairwise.imp_of_mem ?_ (C.new_labels r hr)
        intro e e' he he' hne
        obtain ⟨c, hc, hcout, hpar, hcl⟩ := C.child_of_newEdge hr he
        obtain ⟨c', hc', hcout', hpar', hcl'⟩ := C.child_of_newEdge hr he'
        simp only [Function.onFun, hc, hc']
        intro x hx hx'
        obtain ⟨d, hd, hanc, hxd⟩ := C.collect_sub g fuel hcout hx
        obtain ⟨d', hd', hanc', hxd'⟩ := C.collect_sub g fuel hcout' hx'
        have : d = d' := hinj d hd d' hd' x hxd hxd'
        subst this
        have : c = c' := C.same_depth hcout hcout' hpar hpar' hanc hanc'
        subst this
        exact hne (hcl.symm.trans hcl')
    · intro x hx hx'
      obtain ⟨e, he, hx'⟩ := List.mem_flatMap.1 hx'
      obtain ⟨c, hc, hcout, hpar, _⟩ := C.child_of_newEdge hr he
      simp only [hc] at hx'
      obtain ⟨d, hd, hanc, hxd⟩ := C.collect_sub g fuel hcout hx'
      have : r = d := hinj r hr d hd x hx hxd
      subst this
      exact C.child_not_anc hcout hpar hanc

end lemmas2
end Tree


/-! ## Part C — the induction -/

section Main
open C05b

variable {orig : Rule} {avoid : List String} {out : List Rule} {root : Rule}

/-- product of the weights of a list of edges at a valuation -/
def eprod (S : Sem.SR K) (I : Meaning K) (es : List Edge) (σ : Node → Nat) : K :=
  S.prod (es.map (fun e => I.wt e (e.nodes.map σ)))

theorem eprod_dep (S : Sem.SR K) (I : Meaning K) (es : List Edge) (P : Node → Prop)
    (h : ∀ e ∈ es, ∀ v ∈ e.nodes, P v) : Dep P (eprod S I es) := by
  intro σ σ' hag
  unfold eprod
  congr 1
  apply List.map_congr_left
  intro e he
  congr 1
  apply List.map_congr_left
  intro v hv
  exact hag v (h e he v hv)

/-- the summand of `factValue` as a function of the valuation -/
def fBody (S : Sem.SR K) (I : Meaning K) (avoid : List String) (out : List Rule) (fuel : Nat) (r : Rule)
    (σ : Node → Nat) : K :=
  S.mul (S.prod ((oldEdges avoid r).map (fun e => I.wt e (e.nodes.map σ))))
        (S.prod ((newEdges avoid r).map (fun e =>
          match ruleOf out e.label with
          | some c => factValue S I avoid out fuel c (c.ext.map (fun v => (v, σ v)))
          | none => S.zero)))

theorem factValue_succ (S : Sem.SR K) (I : Meaning K) (avoid : List String) (out : List Rule) (fuel : Nat)
    (r : Rule) (α : List (Node × Nat)) :
    factValue S I avoid out (fuel + 1) r α =
      S.sum ((asgs I.dom (internal r)).map (fun β => fBody S I avoid out fuel r (valOf (α ++ β)))) := rfl

theorem main_claim {S : Sem.SR K} (hS : C01.SRLaws S) (I : Meaning K) (C : Ctx orig avoid out root) :
    ∀ (fuel : Nat) (r : Rule) (n : Nat), r ∈ out → AncN (par avoid out) root r n → out.length ≤ n + fuel →
      ∀ ρ : Node → Nat,
        factValue S I avoid out fuel r (r.ext.map (fun v => (v, ρ v))) =
          bsum S I.dom (collect avoid out internal fuel r) ρ
            (eprod S I (collect avoid out (oldEdges avoid) fuel r)) := by
  intro fuel
  induction fuel with
  | zero =>
    intro r n hr hn hlen
    have := C.depth_lt hr hn
    omega
  | succ fuel ih =>
    intro r n hr hn hlen ρ
    -- per child: nodes below, the predicate "in the subtree", the product of the edges below
    let vsOf : Edge → List Node := fun e =>
      match ruleOf out e.label with
      | some c => collect avoid out internal fuel c
      | none => []
    let esOf : Edge → List Edge := fun e =>
      match ruleOf out e.label with
      | some c => collect avoid out (oldEdges avoid) fuel c
      | none => []
    let POf : Edge → Node → Prop := fun e v =>
      match ruleOf out e.label with
      | some c => InSub avoid out c v
      | none => False
    let gOf : Edge → (Node → Nat) → K := fun e => eprod S I (esOf e)
    have hcoll1 : collect avoid out internal (fuel + 1) r = internal r ++ (newEdges avoid r).flatMap vsOf := rfl
    have hcoll2 : collect avoid out (oldEdges avoid) (fuel + 1) r =
        oldEdges avoid r ++ (newEdges avoid r).flatMap esOf := rfl
    have hint_nd : (internal r).Nodup := (C.nodes_nodup r hr).filter _
    have hdis : ∀ v ∈ internal r, v ∉ (r.ext.map (fun v => (v, ρ v))).map (·.1) := by
      intro v hv
      rw [List.map_map]
      simp only [Function.comp_def, List.map_id']
      exact (mem_internal.1 hv).2
    rw [factValue_succ, sum_asgs_eq_bsum hS I.dom (internal r) _ _ hint_nd hdis]
    have hdep : ∀ e ∈ newEdges avoid r, Dep (POf e) (gOf e) := by
      intro e he
      obtain ⟨c, hc, hcout, hpar, _⟩ := C.child_of_newEdge hr he
      show Dep (POf e) (eprod S I (esOf e))
      apply eprod_dep
      intro e' he' v hv
      simp only [POf, esOf, hc] at he' ⊢
      exact C.edges_inSub fuel hcout he' v hv
    have hpw : (newEdges avoid r).Pairwise
        (fun i j => (∀ v ∈ vsOf j, ¬ POf i v) ∧ (∀ v ∈ vsOf i, ¬ POf j v)) := by
      refine List.Pairwise.imp_of_mem ?_ (C.new_labels r hr)
      intro e e' he he' hne
      obtain ⟨c, hc, hcout, hpar, hcl⟩ := C.child_of_newEdge hr he
      obtain ⟨c', hc', hcout', hpar', hcl'⟩ := C.child_of_newEdge hr he'
      have hcc : c ≠ c' := by
        intro h; subst h; exact hne (hcl.symm.trans hcl')
      simp only [vsOf, POf, hc, hc']
      exact ⟨fun v hv hs => C.below_disjoint fuel hcout hcout' hpar hpar' hcc hv hs,
        fun v hv hs => C.below_disjoint fuel hcout' hcout hpar' hpar (Ne.symm hcc) hv hs⟩
    have hbody : ∀ σ, fBody S I avoid out fuel r σ =
        bsum S I.dom ((newEdges avoid r).flatMap vsOf) σ
          (eprod S I (collect avoid out (oldEdges avoid) (fuel + 1) r)) := by
      intro σ
      unfold fBody
      have e1 : (newEdges avoid r).map (fun e =>
            match ruleOf out e.label with
            | some c => factValue S I avoid out fuel c (c.ext.map (fun v => (v, σ v)))
            | none => S.zero) =
          (newEdges avoid r).map (fun e => bsum S I.dom (vsOf e) σ (gOf e)) := by
        apply List.map_congr_left
        intro e he
        obtain ⟨c, hc, hcout, hpar, _⟩ := C.child_of_newEdge hr he
        simp only [vsOf, gOf, esOf, hc]
        exact ih c (n + 1) hcout (AncN.step hn hpar) (by omega) σ
      rw [e1, prod_bsum hS I.dom (newEdges avoid r) vsOf POf gOf hdep hpw σ]
      rw [← bsum_mul_const_left hS I.dom _ σ _ (eprod S I (oldEdges avoid r)) _]
      · apply bsum_congr
        intro σ'
        rw [hcoll2]
        unfold eprod
        rw [List.map_append, prod_append hS, List.map_flatMap, prod_flatMap hS]
        rfl
      · intro σ' hσ'
        apply eprod_dep S I (oldEdges avoid r) (fun v => v ∈ r.nodes)
        · intro e he v hv
          exact ((keepsB_iff avoid out r e).1 (C.F.old_sub r hr e he).2).1 v hv
        · intro v hv
          apply hσ'
          intro hm
          obtain ⟨e, he, hve⟩ := List.mem_flatMap.1 hm
          obtain ⟨c, hc, hcout, hpar, _⟩ := C.child_of_newEdge hr he
          simp only [vsOf, hc] at hve
          exact C.below_not_parent fuel hcout hpar hve hv
    rw [bsum_congr S I.dom _ _ hbody, ← bsum_append, ← hcoll1]
    apply bsum_dep S I.dom (P := InSub avoid out r)
    · apply eprod_dep
      intro e he v hv
      exact C.edges_inSub (fuel + 1) hr he v hv
    · intro v hv
      rcases C.below_complete (fuel + 1) hr hn hlen hv with h | h
      · right
        exact valOf_map_self r.ext ρ v h
      · exact Or.inl h

theorem Ctx.internal_inj (C : Ctx orig avoid out root) :
    ∀ d ∈ out, ∀ d' ∈ out, ∀ v, v ∈ internal d → v ∈ internal d' → d = d' := by
  intro d hd d' hd' v hvd hvd'
  obtain ⟨t, ht, htop⟩ := C.T.top_of hd (mem_internal.1 hvd).1
  have h1 : t = d := C.internal_top ht.left.1 hd ht.toAnc hvd ht.left.2
  have htd' := C.T.below_top ht.left.1 ht.left.2 htop hd' (mem_internal.1 hvd').1
  have h2 : t = d' := C.internal_top ht.left.1 hd' htd'.toAnc hvd' ht.left.2
  exact h1.symm.trans h2

end Main

end C05c
