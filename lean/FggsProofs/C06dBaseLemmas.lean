/-
Helper lemmas for Props/C06d.lean, part 1: the meaning of `PT.dense` in terms of assignments of the physical axes.

* row-major enumeration (`assigns`, `flat`, `numel`) — the first block is a copy of private lemmas of Props/C13.lean;
* `envOf` versus `pidx` (index tuple of an assignment);
* every axis denotes an injective map of the in-range assignments of its physical axes (`eval_inj`);
* `Sem T`: what is needed for the cells of `T.dense` to be described by the assignments backing them
  (`dense_backed`, `dense_unbacked`); `Struct T`: the structural part of `PT.wf`, which implies all of `PT.wf`
  (`wf_iff_struct`).
-/
import FggsModel.Binary
import FggsProofs.Props.C06
import FggsProofs.C06bLemmas
import Mathlib.Tactic.Linarith
import Mathlib.Tactic.Ring
import Mathlib.Data.List.Basic
import Mathlib.Data.List.Nodup
import Mathlib.Data.List.Forall2

set_option linter.unusedSimpArgs false
set_option linter.unusedVariables false

namespace C06dL
open Fggs Fggs.Ax Fggs.Un C06b

/-! ### row-major enumeration (copied from Props/C13.lean, where these lemmas are private) -/

theorem foldl_mul (l : List Nat) : ∀ (a : Nat), l.foldl (· * ·) a = a * l.foldl (· * ·) 1 := by
  induction l with
  | nil => intro a; simp
  | cons x l ih => intro a; rw [List.foldl_cons, List.foldl_cons, ih (a * x), ih (1 * x)]; ring

theorem numel_nil : numel [] = 1 := rfl

theorem numel_cons (x : Nat) (l : List Nat) : numel (x :: l) = x * numel l := by
  unfold numel; rw [List.foldl_cons, foldl_mul]; ring

theorem range_block (m : Nat) : ∀ n : Nat,
    (List.range n).flatMap (fun i => (List.range m).map (fun j => i * m + j)) = List.range (n * m)
  | 0 => by simp
  | n + 1 => by
    rw [List.range_succ, List.flatMap_append, range_block m n, Nat.succ_mul, List.range_add]
    simp

theorem map_flat_assigns : ∀ shape : List Nat,
    (assigns shape).map (flat shape) = List.range (numel shape)
  | [] => by simp [assigns, flat, numel_nil]
  | n :: rest => by
    rw [assigns, List.map_flatMap, numel_cons, ← range_block]
    congr 1
    funext i
    rw [List.map_map, ← map_flat_assigns rest, List.map_map]
    rfl

theorem length_assigns (shape : List Nat) : (assigns shape).length = numel shape := by
  have := congrArg List.length (map_flat_assigns shape)
  simpa using this

theorem nodup_assigns (shape : List Nat) : (assigns shape).Nodup := by
  apply List.Nodup.of_map (flat shape)
  rw [map_flat_assigns]; exact List.nodup_range

theorem flat_inj {shape : List Nat} {c d : List Nat} (hc : c ∈ assigns shape) (hd : d ∈ assigns shape)
    (h : flat shape c = flat shape d) : c = d := by
  have hn : ((assigns shape).map (flat shape)).Nodup := by rw [map_flat_assigns]; exact List.nodup_range
  exact List.inj_on_of_nodup_map hn hc hd h

theorem flat_lt {shape : List Nat} {c : List Nat} (hc : c ∈ assigns shape) :
    flat shape c < numel shape := by
  have : flat shape c ∈ (assigns shape).map (flat shape) := List.mem_map_of_mem hc
  rw [map_flat_assigns] at this
  simpa using this

theorem flat_getElem {shape : List Nat} {k : Nat} (hk : k < (assigns shape).length) :
    flat shape (assigns shape)[k] = k := by
  have h := congrArg (fun l => l[k]?) (map_flat_assigns shape)
  simp only [List.getElem?_map] at h
  rw [List.getElem?_eq_getElem hk, List.getElem?_range (by rw [← length_assigns]; exact hk)] at h
  simpa using h

theorem mem_assigns_iff : ∀ (shape c : List Nat),
    c ∈ assigns shape ↔ List.Forall₂ (· < ·) c shape
  | [], c => by
    simp [assigns]
  | n :: rest, c => by
    simp only [assigns, List.mem_flatMap, List.mem_range, List.mem_map]
    constructor
    · rintro ⟨i, hi, d, hd, rfl⟩
      exact List.Forall₂.cons hi ((mem_assigns_iff rest d).1 hd)
    · intro h
      cases h with
      | cons hi hr => exact ⟨_, hi, _, (mem_assigns_iff rest _).2 hr, rfl⟩

/-- the tuple at flat position `flat shape c` is `c` -/
theorem getElem_flat {shape c : List Nat} (hc : c ∈ assigns shape) :
    (assigns shape)[flat shape c]? = some c := by
  have hlt : flat shape c < (assigns shape).length := by rw [length_assigns]; exact flat_lt hc
  rw [List.getElem?_eq_getElem hlt]
  congr 1
  exact flat_inj (List.getElem_mem hlt) hc (flat_getElem hlt)

theorem numel_append : ∀ (a b : List Nat), numel (a ++ b) = numel a * numel b
  | [], b => by simp [numel_nil]
  | x :: a, b => by rw [List.cons_append, numel_cons, numel_cons, numel_append a b]; ring

theorem flat_append : ∀ (s1 i1 s2 i2 : List Nat), s1.length = i1.length →
    flat (s1 ++ s2) (i1 ++ i2) = flat s1 i1 * numel s2 + flat s2 i2
  | [], [], s2, i2, _ => by simp [flat]
  | [], _ :: _, _, _, h => by simp at h
  | _ :: _, [], _, _, h => by simp at h
  | n :: s1, i :: i1, s2, i2, h => by
    have ih := flat_append s1 i1 s2 i2 (by simpa using h)
    simp only [List.cons_append, flat]
    rw [ih, numel_append]; ring

/-- two lists of the length of the index space that agree at the flat position of every index tuple are equal -/
theorem list_ext_flat {α : Type} (shape : List Nat) (l1 l2 : List α) (h1 : l1.length = numel shape)
    (h2 : l2.length = numel shape) (h : ∀ c ∈ assigns shape, l1[flat shape c]? = l2[flat shape c]?) : l1 = l2 := by
  apply List.ext_getElem?
  intro k
  by_cases hk : k < numel shape
  · have hk' : k < (assigns shape).length := by rw [length_assigns]; exact hk
    have := h _ (List.getElem_mem hk')
    rwa [flat_getElem hk'] at this
  · rw [List.getElem?_eq_none (by omega), List.getElem?_eq_none (by omega)]

/-! ### the fold of `dense` (copied from Props/C13.lean) -/

theorem foldl_set_size (pos : List Nat × Ext → Nat) : ∀ (L : List (List Nat × Ext)) (arr : Array Ext),
    (L.foldl (fun a kv => a.setIfInBounds (pos kv) kv.2) arr).size = arr.size
  | [], arr => rfl
  | kv :: L, arr => by rw [List.foldl_cons, foldl_set_size pos L]; simp

theorem foldl_set_other (pos : List Nat × Ext → Nat) (k : Nat) :
    ∀ (L : List (List Nat × Ext)) (arr : Array Ext), (∀ kv ∈ L, pos kv ≠ k) →
    (L.foldl (fun a kv => a.setIfInBounds (pos kv) kv.2) arr)[k]? = arr[k]?
  | [], arr, _ => rfl
  | kv :: L, arr, h => by
    rw [List.foldl_cons, foldl_set_other pos k L _ (fun x hx => h x (List.mem_cons_of_mem _ hx)),
      Array.getElem?_setIfInBounds, if_neg (h kv List.mem_cons_self)]

theorem foldl_set_hit (pos : List Nat × Ext → Nat) :
    ∀ (L : List (List Nat × Ext)) (arr : Array Ext) (kv : List Nat × Ext), (L.map pos).Nodup → kv ∈ L →
    pos kv < arr.size →
    (L.foldl (fun a kv => a.setIfInBounds (pos kv) kv.2) arr)[pos kv]? = some kv.2
  | [], arr, kv, _, h, _ => by simp at h
  | x :: L, arr, kv, hn, h, hlt => by
    rw [List.map_cons, List.nodup_cons] at hn
    rw [List.foldl_cons]
    rcases List.mem_cons.1 h with rfl | h'
    · rw [foldl_set_other pos (pos kv) L _ ?_, Array.getElem?_setIfInBounds, if_pos rfl, if_pos hlt]
      intro y hy e
      exact hn.1 (e ▸ List.mem_map_of_mem hy)
    · exact foldl_set_hit pos L _ kv hn.2 h' (by simpa using hlt)

def keys (t : PT) : List (List Nat) := t.cells.map (·.1)

theorem keys_eq (t : PT) :
    keys t = (assigns (t.paxes.map (·.2))).map (fun idx => t.vaxes.map (Axis.eval (envOf t.paxes idx))) := by
  unfold keys PT.cells
  rw [List.map_map]
  have : ((fun x : List Nat × Ext => x.1) ∘ fun p : List Nat × Nat =>
      (t.vaxes.map (Axis.eval (envOf t.paxes p.1)), t.physical[p.2]?.getD t.default)) =
      (fun idx => t.vaxes.map (Axis.eval (envOf t.paxes idx))) ∘ Prod.fst := rfl
  rw [this, ← List.map_map, List.zipIdx_map_fst]

theorem nodup_of_range_check {α : Type} [Inhabited α] [BEq α] [LawfulBEq α] (l : List α)
    (h : ((List.range l.length).all (fun i => (List.range l.length).all (fun j => i == j || l[i]! != l[j]!))) = true) :
    l.Nodup := by
  simp only [List.all_eq_true, List.mem_range, Bool.or_eq_true, beq_iff_eq, bne_iff_ne] at h
  rw [List.Nodup, List.pairwise_iff_getElem]
  intro i j hi hj hij
  rcases h i hi j hj with e | e
  · omega
  · rwa [getElem!_pos l i hi, getElem!_pos l j hj] at e

theorem range_check_of_nodup {α : Type} [Inhabited α] [BEq α] [LawfulBEq α] (l : List α) (h : l.Nodup) :
    ((List.range l.length).all (fun i => (List.range l.length).all (fun j => i == j || l[i]! != l[j]!))) = true := by
  simp only [List.all_eq_true, List.mem_range, Bool.or_eq_true, beq_iff_eq, bne_iff_ne]
  intro i hi j hj
  by_cases e : i = j
  · exact Or.inl e
  · right
    rw [getElem!_pos l i hi, getElem!_pos l j hj]
    intro he
    exact e ((List.Nodup.getElem_inj_iff h).1 he)

/-- the value of cell `c` of the denoted tensor -/
def valueAt (t : PT) (c : List Nat) : Ext :=
  match t.cells.find? (·.1 == c) with | some p => p.2 | none => t.default

theorem dense_eq_fold (t : PT) :
    t.dense = (t.cells.foldl (fun a kv => a.setIfInBounds (flat t.vshape kv.1) kv.2)
      (Array.replicate (numel t.vshape) t.default)).toList := by
  unfold PT.dense PT.cells
  rw [List.foldl_map]

theorem length_dense (t : PT) : t.dense.length = numel t.vshape := by
  rw [dense_eq_fold, Array.length_toList, foldl_set_size (fun kv => flat t.vshape kv.1)]; simp

/-- `C13.dense_cell'` from the two conjuncts of `wf` it uses -/
theorem dense_cell_keys (t : PT) (hn : (keys t).Nodup) (hr : ∀ c ∈ keys t, c ∈ assigns t.vshape)
    (c : List Nat) (hc : c ∈ assigns t.vshape) :
    t.dense[flat t.vshape c]? = some (valueAt t c) := by
  rw [dense_eq_fold, Array.getElem?_toList]
  have hpos : (t.cells.map (fun kv => flat t.vshape kv.1)).Nodup := by
    have : t.cells.map (fun kv => flat t.vshape kv.1) = (keys t).map (flat t.vshape) := by
      unfold keys; rw [List.map_map]; rfl
    rw [this]
    exact List.Nodup.map_on (fun x hx y hy e => flat_inj (hr x hx) (hr y hy) e) hn
  unfold valueAt
  cases hf : t.cells.find? (·.1 == c) with
  | some p =>
    have hp := List.mem_of_find?_eq_some hf
    have hk : p.1 = c := by simpa using List.find?_some hf
    have := foldl_set_hit (fun kv => flat t.vshape kv.1) t.cells
      (Array.replicate (numel t.vshape) t.default) p hpos hp
      (by simpa using flat_lt (hr p.1 (List.mem_map_of_mem hp)))
    simp only [hk] at this
    simpa using this
  | none =>
    rw [List.find?_eq_none] at hf
    rw [foldl_set_other (fun kv => flat t.vshape kv.1)]
    · simp [flat_lt hc]
    · intro kv hkv e
      have := flat_inj (hr kv.1 (List.mem_map_of_mem hkv)) hc e
      exact hf kv hkv (by simpa using this)

theorem valueAt_of_mem (t : PT) (hn : (keys t).Nodup) (p : List Nat × Ext) (hp : p ∈ t.cells) :
    valueAt t p.1 = p.2 := by
  unfold valueAt
  cases hf : t.cells.find? (·.1 == p.1) with
  | none =>
    rw [List.find?_eq_none] at hf
    exact absurd (by simp) (hf p hp)
  | some q =>
    have hq := List.mem_of_find?_eq_some hf
    have hk : q.1 = p.1 := by simpa using List.find?_some hf
    have : q = p := List.inj_on_of_nodup_map hn hq hp hk
    rw [this]

theorem valueAt_of_not_mem (t : PT) (c : List Nat) (hc : c ∉ keys t) : valueAt t c = t.default := by
  unfold valueAt
  cases hf : t.cells.find? (·.1 == c) with
  | none => rfl
  | some q =>
    have hq := List.mem_of_find?_eq_some hf
    have hk : q.1 = c := by simpa using List.find?_some hf
    exact absurd (hk ▸ List.mem_map_of_mem hq) hc

/-! ### `envOf` and the index tuple of an assignment -/

/-- the index tuple of the physical tensor that the assignment `ρ` selects -/
def pidx (paxes : List (Nat × Nat)) (ρ : Nat → Nat) : List Nat := paxes.map (fun p => ρ p.1)

theorem envOf_cons (p : Nat × Nat) (ps : List (Nat × Nat)) (i : Nat) (is : List Nat) (v : Nat) :
    envOf (p :: ps) (i :: is) v = if p.1 = v then i else envOf ps is v := by
  unfold envOf
  simp only [List.zip_cons_cons, List.find?_cons]
  by_cases h : p.1 = v
  · simp [h]
  · have : (p.1 == v) = false := by simpa using h
    simp only [this]
    rw [if_neg h]

theorem envOf_nil_left (idx : List Nat) (v : Nat) : envOf [] idx v = 0 := by
  unfold envOf; simp

theorem envOf_nil_right (ps : List (Nat × Nat)) (v : Nat) : envOf ps [] v = 0 := by
  unfold envOf; simp

theorem envOf_not_mem : ∀ (ps : List (Nat × Nat)) (idx : List Nat) (v : Nat), v ∉ ps.map (·.1) → envOf ps idx v = 0
  | [], idx, v, _ => envOf_nil_left idx v
  | p :: ps, [], v, _ => envOf_nil_right _ v
  | p :: ps, i :: is, v, h => by
    simp only [List.map_cons, List.mem_cons, not_or] at h
    rw [envOf_cons, if_neg (fun e => h.1 e.symm)]
    exact envOf_not_mem ps is v h.2

theorem envOf_pidx (ρ : Nat → Nat) : ∀ (ps : List (Nat × Nat)) (v : Nat), v ∈ ps.map (·.1) →
    envOf ps (pidx ps ρ) v = ρ v
  | [], v, h => by simp at h
  | p :: ps, v, h => by
    rw [pidx, List.map_cons, envOf_cons]
    by_cases e : p.1 = v
    · rw [if_pos e, e]
    · rw [if_neg e]
      simp only [List.map_cons, List.mem_cons] at h
      rcases h with h | h
      · exact absurd h.symm e
      · exact envOf_pidx ρ ps v h

theorem pidx_envOf : ∀ (ps : List (Nat × Nat)) (idx : List Nat), (ps.map (·.1)).Nodup → idx.length = ps.length →
    pidx ps (envOf ps idx) = idx
  | [], [], _, _ => rfl
  | [], _ :: _, _, h => by simp at h
  | _ :: _, [], _, h => by simp at h
  | p :: ps, i :: is, hn, hl => by
    rw [List.map_cons, List.nodup_cons] at hn
    rw [pidx, List.map_cons, envOf_cons, if_pos rfl]
    congr 1
    have ih := pidx_envOf ps is hn.2 (by simpa using hl)
    rw [← ih]
    unfold pidx
    apply List.map_congr_left
    intro q hq
    rw [envOf_cons, if_neg]
    · rw [show List.map (fun p => envOf ps is p.1) ps = pidx ps (envOf ps is) from rfl, ih]
    · intro e
      exact hn.1 (e ▸ List.mem_map_of_mem (f := (·.1)) hq)

theorem envOf_inRange : ∀ (ps : List (Nat × Nat)) (idx : List Nat), (ps.map (·.1)).Nodup →
    List.Forall₂ (· < ·) idx (ps.map (·.2)) → ∀ p ∈ ps, envOf ps idx p.1 < p.2
  | [], _, _, _, p, hp => by simp at hp
  | q :: ps, [], _, h, _, _ => by simp at h
  | q :: ps, i :: is, hn, h, p, hp => by
    rw [List.map_cons, List.nodup_cons] at hn
    rw [List.map_cons, List.forall₂_cons] at h
    rw [envOf_cons]
    rcases List.mem_cons.1 hp with rfl | hp'
    · rw [if_pos rfl]; exact h.1
    · rw [if_neg]
      · exact envOf_inRange ps is hn.2 h.2 p hp'
      · intro e
        exact hn.1 (e ▸ List.mem_map_of_mem (f := (·.1)) hp')

theorem pidx_forall₂ (ρ : Nat → Nat) : ∀ (ps : List (Nat × Nat)), (∀ p ∈ ps, ρ p.1 < p.2) →
    List.Forall₂ (· < ·) (pidx ps ρ) (ps.map (·.2))
  | [], _ => List.Forall₂.nil
  | p :: ps, h => by
    rw [pidx, List.map_cons, List.map_cons]
    exact List.Forall₂.cons (h p (by simp)) (pidx_forall₂ ρ ps (fun q hq => h q (by simp [hq])))

theorem pidx_mem_assigns (ρ : Nat → Nat) (ps : List (Nat × Nat)) (h : ∀ p ∈ ps, ρ p.1 < p.2) :
    pidx ps ρ ∈ assigns (ps.map (·.2)) :=
  (mem_assigns_iff _ _).2 (pidx_forall₂ ρ ps h)

theorem pidx_congr {ρ ρ' : Nat → Nat} {ps : List (Nat × Nat)} (h : ∀ p ∈ ps, ρ p.1 = ρ' p.1) :
    pidx ps ρ = pidx ps ρ' :=
  List.map_congr_left h

/-! ### every axis denotes an injective map -/

theorem evalList_lt (ρ : Nat → Nat) (fs : List Axis) (h : ∀ q ∈ fvList fs, ρ q.1 < q.2) :
    evalList ρ fs 0 < numelList fs := by
  have := C06.eval_lt_numel (.prod fs) ρ (by simpa [C06.Respects, Axis.fv] using h)
  rwa [Axis.eval, Axis.numel] at this

mutual
/-- two in-range assignments with the same virtual index agree on every physical axis of the axis -/
theorem eval_inj (ρ ρ' : Nat → Nat) : ∀ (e : Axis), InRange ρ e → InRange ρ' e → e.eval ρ = e.eval ρ' →
    ∀ q ∈ e.fv, ρ q.1 = ρ' q.1
  | .phys v n, _, _, h, q, hq => by
    simp only [Axis.fv, List.mem_singleton] at hq
    subst hq
    simpa [Axis.eval] using h
  | .prod fs, h1, h2, h, q, hq => by
    rw [Axis.eval, Axis.eval] at h
    exact evalList_inj ρ ρ' fs (by simpa [InRange, Axis.fv] using h1) (by simpa [InRange, Axis.fv] using h2) h q
      (by simpa [Axis.fv] using hq)
  | .sum b t a, h1, h2, h, q, hq => by
    rw [Axis.eval, Axis.eval] at h
    exact eval_inj ρ ρ' t (fun p hp => h1 p (by simpa [Axis.fv] using hp))
      (fun p hp => h2 p (by simpa [Axis.fv] using hp)) (by omega) q (by simpa [Axis.fv] using hq)
theorem evalList_inj (ρ ρ' : Nat → Nat) : ∀ (fs : List Axis), (∀ q ∈ fvList fs, ρ q.1 < q.2) →
    (∀ q ∈ fvList fs, ρ' q.1 < q.2) → evalList ρ fs 0 = evalList ρ' fs 0 → ∀ q ∈ fvList fs, ρ q.1 = ρ' q.1
  | [], _, _, _, q, hq => by simp [fvList] at hq
  | f :: fs, h1, h2, h, q, hq => by
    rw [evalList_cons_zero, evalList_cons_zero] at h
    have l1 := evalList_lt ρ fs (fun p hp => h1 p (by simp [fvList, hp]))
    have l2 := evalList_lt ρ' fs (fun p hp => h2 p (by simp [fvList, hp]))
    obtain ⟨e1, e2⟩ := digit_eq h l1 l2
    simp only [fvList, List.mem_append] at hq
    rcases hq with hq | hq
    · exact eval_inj ρ ρ' f (fun p hp => h1 p (by simp [fvList, hp])) (fun p hp => h2 p (by simp [fvList, hp])) e2 q hq
    · exact evalList_inj ρ ρ' fs (fun p hp => h1 p (by simp [fvList, hp])) (fun p hp => h2 p (by simp [fvList, hp]))
        e1 q hq
end

/-! ### the cells of `dense` in terms of backing assignments -/

/-- `ρ` is an in-range assignment of the physical axes of `T` that the virtual axes map to the index tuple `c` -/
def Backs (T : PT) (c : List Nat) (ρ : Nat → Nat) : Prop :=
  (∀ p ∈ T.paxes, ρ p.1 < p.2) ∧ T.vaxes.map (Axis.eval ρ) = c

/-- what the description of `dense` by backing assignments needs -/
structure Sem (T : PT) : Prop where
  nodup : (T.paxes.map (·.1)).Nodup
  fvsub : ∀ e ∈ T.vaxes, ∀ q ∈ e.fv, q ∈ T.paxes
  inj : ∀ ρ ρ', (∀ p ∈ T.paxes, ρ p.1 < p.2) → (∀ p ∈ T.paxes, ρ' p.1 < p.2) →
    T.vaxes.map (Axis.eval ρ) = T.vaxes.map (Axis.eval ρ') → ∀ p ∈ T.paxes, ρ p.1 = ρ' p.1

theorem Sem.inRange {T : PT} (h : Sem T) {ρ : Nat → Nat} (hρ : ∀ p ∈ T.paxes, ρ p.1 < p.2) :
    ∀ e ∈ T.vaxes, InRange ρ e :=
  fun e he q hq => hρ q (h.fvsub e he q hq)

theorem Sem.mem_assigns {T : PT} (h : Sem T) {ρ : Nat → Nat} (hρ : ∀ p ∈ T.paxes, ρ p.1 < p.2) :
    T.vaxes.map (Axis.eval ρ) ∈ assigns T.vshape := by
  rw [mem_assigns_iff, PT.vshape, List.forall₂_map_left_iff, List.forall₂_map_right_iff, List.forall₂_same]
  intro e he
  exact C06.eval_lt_numel e ρ (h.inRange hρ e he)

theorem Backs.mem_assigns {T : PT} (h : Sem T) {c : List Nat} {ρ : Nat → Nat} (hb : Backs T c ρ) :
    c ∈ assigns T.vshape := hb.2 ▸ h.mem_assigns hb.1

theorem mem_assigns_length {shape c : List Nat} (h : c ∈ assigns shape) : c.length = shape.length :=
  ((mem_assigns_iff _ _).1 h).length_eq

theorem envOf_inRange' {T : PT} (h : Sem T) {idx : List Nat} (hi : idx ∈ assigns (T.paxes.map (·.2))) :
    ∀ p ∈ T.paxes, envOf T.paxes idx p.1 < p.2 :=
  envOf_inRange T.paxes idx h.nodup ((mem_assigns_iff _ _).1 hi)

theorem Sem.keys_range {T : PT} (h : Sem T) : ∀ c ∈ keys T, c ∈ assigns T.vshape := by
  intro c hc
  rw [keys_eq] at hc
  obtain ⟨idx, hi, rfl⟩ := List.mem_map.1 hc
  exact h.mem_assigns (envOf_inRange' h hi)

theorem Sem.keys_nodup {T : PT} (h : Sem T) : (keys T).Nodup := by
  rw [keys_eq]
  refine List.Nodup.map_on ?_ (nodup_assigns _)
  intro x hx y hy e
  have hxy := h.inj _ _ (envOf_inRange' h hx) (envOf_inRange' h hy) e
  have lx : x.length = T.paxes.length := by rw [mem_assigns_length hx, List.length_map]
  have ly : y.length = T.paxes.length := by rw [mem_assigns_length hy, List.length_map]
  rw [← pidx_envOf T.paxes x h.nodup lx, ← pidx_envOf T.paxes y h.nodup ly]
  exact pidx_congr hxy

theorem mem_cells_of_backs {T : PT} (h : Sem T) {c : List Nat} {ρ : Nat → Nat} (hb : Backs T c ρ) :
    (c, T.physical[flat (T.paxes.map (·.2)) (pidx T.paxes ρ)]?.getD T.default) ∈ T.cells := by
  unfold PT.cells
  have hm := pidx_mem_assigns ρ T.paxes hb.1
  refine List.mem_map.2 ⟨(pidx T.paxes ρ, flat (T.paxes.map (·.2)) (pidx T.paxes ρ)), ?_, ?_⟩
  · rw [List.mem_zipIdx_iff_getElem?]
    simpa using getElem_flat hm
  · simp only
    congr 1
    rw [← hb.2]
    apply List.map_congr_left
    intro e he
    apply eval_congr
    intro q hq
    exact envOf_pidx ρ T.paxes q.1 (List.mem_map_of_mem (f := (·.1)) (h.fvsub e he q hq))

/-- **a backed cell holds the physical element selected by the backing assignment** -/
theorem dense_backed {T : PT} (h : Sem T) {c : List Nat} {ρ : Nat → Nat} (hb : Backs T c ρ) :
    T.dense[flat T.vshape c]? = some (T.physical[flat (T.paxes.map (·.2)) (pidx T.paxes ρ)]?.getD T.default) := by
  rw [dense_cell_keys T h.keys_nodup h.keys_range c (hb.mem_assigns h)]
  congr 1
  exact valueAt_of_mem T h.keys_nodup _ (mem_cells_of_backs h hb)

/-- **an in-range cell that no assignment backs holds the default** -/
theorem dense_unbacked {T : PT} (h : Sem T) {c : List Nat} (hc : c ∈ assigns T.vshape) (hn : ∀ ρ, ¬ Backs T c ρ) :
    T.dense[flat T.vshape c]? = some T.default := by
  rw [dense_cell_keys T h.keys_nodup h.keys_range c hc]
  congr 1
  apply valueAt_of_not_mem
  intro hk
  rw [keys_eq] at hk
  obtain ⟨idx, hi, rfl⟩ := List.mem_map.1 hk
  exact hn _ ⟨envOf_inRange' h hi, rfl⟩

/-! ### the structural part of `wf` -/

structure Struct (T : PT) : Prop where
  len : T.physical.length = numel (T.paxes.map (·.2))
  nodup : (T.paxes.map (·.1)).Nodup
  no1 : ∀ p ∈ T.paxes, p.2 ≠ 1
  fvsub : ∀ e ∈ T.vaxes, ∀ q ∈ e.fv, q ∈ T.paxes
  occ : ∀ p ∈ T.paxes, ∃ e ∈ T.vaxes, p ∈ e.fv

theorem sem_of_occ {T : PT} (nodup : (T.paxes.map (·.1)).Nodup) (fvsub : ∀ e ∈ T.vaxes, ∀ q ∈ e.fv, q ∈ T.paxes)
    (occ : ∀ p ∈ T.paxes, ∃ e ∈ T.vaxes, p ∈ e.fv) : Sem T where
  nodup := nodup
  fvsub := fvsub
  inj := by
    intro ρ ρ' h1 h2 he p hp
    obtain ⟨e, hev, hpe⟩ := occ p hp
    have hee : e.eval ρ = e.eval ρ' := List.map_inj_left.1 he e hev
    exact eval_inj ρ ρ' e (fun q hq => h1 q (fvsub e hev q hq)) (fun q hq => h2 q (fvsub e hev q hq)) hee p hpe

theorem Struct.sem {T : PT} (h : Struct T) : Sem T := sem_of_occ h.nodup h.fvsub h.occ

theorem nodupNat_iff : ∀ (l : List Nat), nodupNat l = true ↔ l.Nodup
  | [] => by simp [nodupNat]
  | x :: xs => by
    rw [nodupNat, Bool.and_eq_true, nodupNat_iff xs, List.nodup_cons]
    simp

theorem wf_iff_struct (T : PT) : T.wf = true ↔ Struct T := by
  constructor
  · intro h
    unfold PT.wf at h
    simp only [Bool.and_eq_true] at h
    obtain ⟨⟨⟨⟨⟨h1, h2⟩, h3⟩, h4⟩, h5⟩, -⟩ := h
    refine ⟨by simpa using h1, (nodupNat_iff _).1 h2, ?_, ?_, ?_⟩
    · intro p hp
      have := List.all_eq_true.1 h3 p hp
      simpa using this
    · intro e he q hq
      have := List.all_eq_true.1 h4 q (List.mem_flatMap.2 ⟨e, he, hq⟩)
      simpa using this
    · intro p hp
      have := List.all_eq_true.1 h5 p hp
      simp only [List.contains_iff_mem, List.mem_flatMap] at this
      exact this
  · intro h
    have hs := h.sem
    unfold PT.wf
    simp only [Bool.and_eq_true]
    refine ⟨⟨⟨⟨⟨by simpa using h.len, (nodupNat_iff _).2 h.nodup⟩, ?_⟩, ?_⟩, ?_⟩, ?_, ?_⟩
    · rw [List.all_eq_true]
      intro p hp
      simpa using h.no1 p hp
    · rw [List.all_eq_true]
      intro q hq
      obtain ⟨e, he, hqe⟩ := List.mem_flatMap.1 hq
      simpa using h.fvsub e he q hqe
    · rw [List.all_eq_true]
      intro p hp
      simp only [List.contains_iff_mem, List.mem_flatMap]
      exact h.occ p hp
    · rw [← keys_eq, List.all_eq_true]
      intro c hc
      have := (mem_assigns_iff _ _).1 (hs.keys_range c hc)
      rw [List.forall₂_iff_zip] at this
      rw [List.all_eq_true]
      intro q hq
      obtain ⟨a, b⟩ := q
      simpa using this.2 hq
    · rw [← keys_eq]
      exact range_check_of_nodup _ hs.keys_nodup

end C06dL
