/-
C06pReachLemmas — a SYNTACTIC invariant of unification: after a successful run, under the final substitution, the two
axes of every unified pair reach the same unbound physical axes (`Reach`: follow the bindings from the physical axes an
axis mentions).  For a resolved clone the identities of its free axes are exactly the reached ones (`clone_fv_reach`).

This is what makes the two strided views of `PatternedTensor.project` be indexed by the same free axes; unlike the
semantic argument of `C13bL.free_transfer` (move along a free axis and observe the cell) it also covers physical axes of
size 1, which no cell observes.
-/
import FggsModel.Unify
import FggsProofs.C06bLemmas
import FggsProofs.C07bCloneLemmas
import Mathlib.Tactic.Linarith
import Mathlib.Tactic.Tauto
import Mathlib.Data.List.Basic

set_option linter.unusedSimpArgs false
set_option linter.unusedVariables false

namespace C06pL
open Fggs Fggs.Ax Fggs.Un C06b C07bL

/-- from the identity `w`, following the bindings, the unbound identity `v` is reached -/
inductive RV (σ : Subst) : Nat → Nat → Prop
  | free {w : Nat} (hb : bound σ w = none) : RV σ w w
  | step {w v : Nat} {a : Axis} {q : Nat × Nat} (hb : bound σ w = some a) (hq : q ∈ a.fv) (h : RV σ q.1 v) : RV σ w v

/-- the unbound identities an axis reaches -/
def Reach (σ : Subst) (e : Axis) (v : Nat) : Prop := ∃ q ∈ e.fv, RV σ q.1 v

theorem rv_none {σ : Subst} {w : Nat} (hb : bound σ w = none) (v : Nat) : RV σ w v ↔ v = w := by
  constructor
  · intro h
    cases h with
    | free _ => rfl
    | step hb' _ _ => rw [hb] at hb'; cases hb'
  · rintro rfl
    exact .free hb

theorem rv_some {σ : Subst} {w : Nat} {a : Axis} (hb : bound σ w = some a) (v : Nat) : RV σ w v ↔ Reach σ a v := by
  constructor
  · intro h
    cases h with
    | free hb' => rw [hb] at hb'; cases hb'
    | step hb' hq h =>
      rw [hb] at hb'
      cases hb'
      exact ⟨_, hq, h⟩
  · rintro ⟨q, hq, h⟩
    exact .step hb hq h

theorem reach_phys (σ : Subst) (w n v : Nat) : Reach σ (.phys w n) v ↔ RV σ w v := by
  unfold Reach
  simp [Axis.fv]

theorem reach_prod (σ : Subst) (es : List Axis) (v : Nat) : Reach σ (.prod es) v ↔ ∃ x ∈ es, Reach σ x v := by
  unfold Reach
  constructor
  · rintro ⟨q, hq, h⟩
    obtain ⟨f, hf, hqf⟩ := mem_fv_prod.1 hq
    exact ⟨f, hf, q, hqf, h⟩
  · rintro ⟨f, hf, q, hqf, h⟩
    exact ⟨q, mem_fv_prod.2 ⟨f, hf, hqf⟩, h⟩

theorem reach_sum (σ : Subst) (b a : Nat) (t : Axis) (v : Nat) : Reach σ (.sum b t a) v ↔ Reach σ t v := by
  unfold Reach
  simp only [Axis.fv]

theorem reach_productAxis (σ : Subst) (fs : List Axis) (v : Nat) :
    Reach σ (productAxis fs) v ↔ ∃ x ∈ fs, Reach σ x v := by
  unfold Reach
  constructor
  · rintro ⟨q, hq, h⟩
    obtain ⟨f, hf, hqf⟩ := (mem_fv_productAxis _).1 hq
    exact ⟨f, hf, q, hqf, h⟩
  · rintro ⟨f, hf, q, hqf, h⟩
    exact ⟨q, (mem_fv_productAxis _).2 ⟨f, hf, hqf⟩, h⟩

theorem reach_unit (σ : Subst) (v : Nat) : ¬ Reach σ unitAxis v := by
  rintro ⟨q, hq, _⟩
  simp [unitAxis_fv] at hq

theorem reach_nil (σ : Subst) (v : Nat) : ¬ Reach σ (.prod []) v := reach_unit σ v

/-- the forwarding chain of an earlier state is followed by the final substitution -/
theorem Lk.reach {σ' σ : Subst} (hnd : (σ.map (·.1)).Nodup) (hsub : ∀ p ∈ σ', p ∈ σ) {e0 e : Axis}
    (h : Lk σ' e0 e) (v : Nat) : Reach σ e0 v ↔ Reach σ e v := by
  induction h with
  | refl e => exact Iff.rfl
  | @step w n a e hb h ih =>
    have hb' : bound σ w = some a := bound_of_mem_nodup hnd (p := (w, a)) (hsub _ hb)
    rw [reach_phys, rv_some hb']
    exact ih

/-- what a goal means for the reached identities -/
def ReachG (σ : Subst) : Goal → Prop
  | .u e f => ∀ v, Reach σ e v ↔ Reach σ f v
  | .p es fs => ∀ v, (∃ x ∈ es, Reach σ x v) ↔ (∃ x ∈ fs, Reach σ x v)
  | .n xs => ∀ x ∈ xs, ∀ v, ¬ Reach σ x v

theorem sub_of_grows {g : Goal} {st st' : St} (h : Run g st st') {σ : Subst} (hsub : ∀ p ∈ st'.subst, p ∈ σ) :
    ∀ p ∈ st.subst, p ∈ σ := by
  obtain ⟨⟨l, e⟩, _⟩ := h.grows
  intro p hp
  exact hsub p (by rw [e]; exact List.mem_append_right _ hp)

/-- **both sides of a unified pair reach the same unbound axes**, under any substitution without repeated keys that
contains the final one -/
theorem Run.reach {g : Goal} {st st' : St} (h : Run g st st') :
    StQ NZ st → GoalQ NZ st.next g → ∀ σ : Subst, (σ.map (·.1)).Nodup → (∀ p ∈ st'.subst, p ∈ σ) → ReachG σ g := by
  induction h with
  | @same e0 f0 e f st he hf hs =>
    intro hst hg σ hnd hsub v
    rw [Lk.reach hnd hsub he, Lk.reach hnd hsub hf]
    cases e <;> cases f <;> simp [samePhys] at hs
    subst hs
    rw [reach_phys, reach_phys]
  | zero he hf hz =>
    intro hst hg σ hnd hsub
    obtain ⟨q, hq, h0⟩ := zeroList_fv _ hz
    exact absurd h0 ((he.axQ hst hg.1) q (by rw [Axis.fv]; exact hq))
  | @prod e0 f0 es fs st st' he hf h ih =>
    intro hst hg σ hnd hsub v
    have hsub0 := sub_of_grows h hsub
    have := ih hst ⟨fun x hx => (he.axQ hst hg.1).prod x (by simpa using hx),
      fun x hx => (hf.axQ hst hg.2).prod x (by simpa using hx)⟩ σ hnd hsub v
    rw [Lk.reach hnd hsub0 he, Lk.reach hnd hsub0 hf, reach_prod, reach_prod]
    simpa only [List.mem_reverse] using this
  | @prodSum e0 f0 t b a es st st' he hf h ih =>
    intro hst hg σ hnd hsub v
    have hsub0 := sub_of_grows h hsub
    have := ih hst ⟨fun x hx => (he.axQ hst hg.1).prod x (by simpa using hx), fun x hx => by
      simp only [List.mem_singleton] at hx
      rw [hx]; exact hf.axQ hst hg.2⟩ σ hnd hsub v
    rw [Lk.reach hnd hsub0 he, Lk.reach hnd hsub0 hf, reach_prod]
    simpa only [List.mem_reverse, List.mem_singleton, exists_eq_left] using this
  | @sumProd e0 f0 t b a fs st st' he hf h ih =>
    intro hst hg σ hnd hsub v
    have hsub0 := sub_of_grows h hsub
    have := ih hst ⟨fun x hx => by
      simp only [List.mem_singleton] at hx
      rw [hx]; exact he.axQ hst hg.1, fun x hx => (hf.axQ hst hg.2).prod x (by simpa using hx)⟩ σ hnd hsub v
    rw [Lk.reach hnd hsub0 he, Lk.reach hnd hsub0 hf, reach_prod]
    simpa only [List.mem_reverse, List.mem_singleton, exists_eq_left] using this
  | @sum e0 f0 t1 t2 b a st st' he hf h ih =>
    intro hst hg σ hnd hsub v
    have hsub0 := sub_of_grows h hsub
    have := ih hst ⟨(he.axQ hst hg.1).sum, (hf.axQ hst hg.2).sum⟩ σ hnd hsub v
    rw [Lk.reach hnd hsub0 he, Lk.reach hnd hsub0 hf, reach_sum, reach_sum]
    exact this
  | @bindL e0 f0 f v n st he hf =>
    intro hst hg σ hnd hsub x
    have hsub0 : ∀ p ∈ st.subst, p ∈ σ := fun p hp => hsub p (List.mem_cons_of_mem _ hp)
    have hb : bound σ v = some f := bound_of_mem_nodup hnd (p := (v, f)) (hsub _ List.mem_cons_self)
    rw [Lk.reach hnd hsub0 he, Lk.reach hnd hsub0 hf, reach_phys, rv_some hb]
  | @bindR e0 f0 e w n st he hf =>
    intro hst hg σ hnd hsub x
    have hsub0 : ∀ p ∈ st.subst, p ∈ σ := fun p hp => hsub p (List.mem_cons_of_mem _ hp)
    have hb : bound σ w = some e := bound_of_mem_nodup hnd (p := (w, e)) (hsub _ List.mem_cons_self)
    rw [Lk.reach hnd hsub0 he, Lk.reach hnd hsub0 hf, reach_phys, rv_some hb]
  | @unitL e0 f0 t st st' he hf h ih =>
    intro hst hg σ hnd hsub v
    have hsub0 := sub_of_grows h hsub
    have := ih hst ⟨AxQ.unit, (hf.axQ hst hg.2).sum⟩ σ hnd hsub v
    rw [Lk.reach hnd hsub0 he, Lk.reach hnd hsub0 hf, reach_sum]
    exact this
  | @unitR e0 f0 t st st' he hf h ih =>
    intro hst hg σ hnd hsub v
    have hsub0 := sub_of_grows h hsub
    have := ih hst ⟨AxQ.unit, (he.axQ hst hg.1).sum⟩ σ hnd hsub v
    rw [Lk.reach hnd hsub0 he, Lk.reach hnd hsub0 hf, reach_sum]
    exact this.symm
  | @pEq e9 f9 es fs st st1 st' hmn h1 h2 ih1 ih2 =>
    intro hst hg σ hnd hsub v
    have hg1 : GoalQ NZ st.next (.u e9 f9) := ⟨hg.1 _ (by simp), hg.2 _ (by simp)⟩
    have hst1 := h1.preserves NZ_ok hst hg1
    have e1 := ih1 hst hg1 σ hnd (sub_of_grows h2 hsub) v
    have e2 := ih2 hst1 (GoalQ.mono NZ_ok h1.grows.2 (g := .p _ _)
      ⟨fun x hx => hg.1 x (by simp [hx]), fun x hx => hg.2 x (by simp [hx])⟩) σ hnd hsub v
    simp only [List.mem_cons, exists_eq_or_imp]
    rw [e1, e2]
  | @pUnitR f9 es fs st st1 st' hn h1 h2 ih1 ih2 =>
    intro hst hg σ hnd hsub v
    have hg1 : GoalQ NZ st.next (.u f9 unitAxis) := ⟨hg.2 _ (by simp), AxQ.unit⟩
    have hst1 := h1.preserves NZ_ok hst hg1
    have e1 := ih1 hst hg1 σ hnd (sub_of_grows h2 hsub) v
    have e2 := ih2 hst1 (GoalQ.mono NZ_ok h1.grows.2 (g := .p _ _)
      ⟨hg.1, fun x hx => hg.2 x (by simp [hx])⟩) σ hnd hsub v
    have hu := reach_unit σ v
    simp only [List.mem_cons, exists_eq_or_imp]
    rw [e1, e2, or_iff_right hu]
  | @pUnitL e9 es fs st st1 st' hm h1 h2 ih1 ih2 =>
    intro hst hg σ hnd hsub v
    have hg1 : GoalQ NZ st.next (.u e9 unitAxis) := ⟨hg.1 _ (by simp), AxQ.unit⟩
    have hst1 := h1.preserves NZ_ok hst hg1
    have e1 := ih1 hst hg1 σ hnd (sub_of_grows h2 hsub) v
    have e2 := ih2 hst1 (GoalQ.mono NZ_ok h1.grows.2 (g := .p _ _)
      ⟨fun x hx => hg.1 x (by simp [hx]), hg.2⟩) σ hnd hsub v
    have hu := reach_unit σ v
    simp only [List.mem_cons, exists_eq_or_imp]
    rw [e1, e2, or_iff_right hu]
  | @pLt e9 f9 es fs st st1 st' hlt hd h1 h2 ih1 ih2 =>
    intro hst hg σ hnd hsub v
    have hq := div_ne_zero_of hlt hd
    have hg1 : GoalQ NZ st.fresh.next (.u f9 (productAxis [.phys st.next (f9.numel / e9.numel), e9])) :=
      ⟨(hg.2 _ (by simp)).mono NZ_ok (Nat.le_succ _), AxQ.split NZ_ok hq (hg.1 _ (by simp))⟩
    have hst1 := h1.preserves NZ_ok (hst.fresh NZ_ok) hg1
    have e1 := ih1 (hst.fresh NZ_ok) hg1 σ hnd (sub_of_grows h2 hsub) v
    have e2 := ih2 hst1 ⟨fun x hx q hq' => hg.1 x (by simp [hx]) q hq', fun x hx => by
      simp only [List.mem_cons] at hx
      rcases hx with rfl | hx
      · intro p hp
        simp only [Axis.fv, List.mem_singleton] at hp
        rw [hp]; exact hq
      · exact fun q hq' => hg.2 x (by simp [hx]) q hq'⟩ σ hnd hsub v
    rw [reach_productAxis] at e1
    simp only [List.mem_cons, exists_eq_or_imp, List.not_mem_nil, false_and, exists_false, or_false, exists_eq_left] at e1 e2 ⊢
    rw [e1, e2, or_left_comm, ← or_assoc]
  | @pGt e9 f9 es fs st st1 st' hlt hd h1 h2 ih1 ih2 =>
    intro hst hg σ hnd hsub v
    have hq := div_ne_zero_of hlt hd
    have hg1 : GoalQ NZ st.fresh.next (.u e9 (productAxis [.phys st.next (e9.numel / f9.numel), f9])) :=
      ⟨(hg.1 _ (by simp)).mono NZ_ok (Nat.le_succ _), AxQ.split NZ_ok hq (hg.2 _ (by simp))⟩
    have hst1 := h1.preserves NZ_ok (hst.fresh NZ_ok) hg1
    have e1 := ih1 (hst.fresh NZ_ok) hg1 σ hnd (sub_of_grows h2 hsub) v
    have e2 := ih2 hst1 ⟨fun x hx => by
      simp only [List.mem_cons] at hx
      rcases hx with rfl | hx
      · intro p hp
        simp only [Axis.fv, List.mem_singleton] at hp
        rw [hp]; exact hq
      · exact fun q hq' => hg.1 x (by simp [hx]) q hq', fun x hx q hq' => hg.2 x (by simp [hx]) q hq'⟩ σ hnd hsub v
    rw [reach_productAxis] at e1
    simp only [List.mem_cons, exists_eq_or_imp, List.not_mem_nil, false_and, exists_false, or_false, exists_eq_left] at e1 e2 ⊢
    rw [e1, ← e2, or_assoc, or_left_comm]
  | @pEnd es fs st st' he h ih =>
    intro hst hg σ hnd hsub v
    have := ih hst (fun x hx => by
      simp only [List.mem_append, List.mem_reverse] at hx
      rcases hx with hx | hx
      · exact hg.1 x hx
      · exact hg.2 x hx) σ hnd hsub
    constructor
    · rintro ⟨x, hx, hr⟩
      exact absurd hr (this x (by simp [hx]) v)
    · rintro ⟨x, hx, hr⟩
      exact absurd hr (this x (by simp [hx]) v)
  | nNil => intro _ _ σ _ _ x hx; simp at hx
  | @nCons x xs st st1 st' h1 h2 ih1 ih2 =>
    intro hst hg σ hnd hsub
    have hg1 : GoalQ NZ st.next (.u x unitAxis) := ⟨hg _ (by simp), AxQ.unit⟩
    have hst1 := h1.preserves NZ_ok hst hg1
    have e1 := ih1 hst hg1 σ hnd (sub_of_grows h2 hsub)
    have e2 := ih2 hst1 (fun y hy => hg y (by simp [hy])) σ hnd hsub
    intro y hy v
    simp only [List.mem_cons] at hy
    rcases hy with rfl | hy
    · rw [e1 v]; exact reach_unit σ v
    · exact e2 y hy v

theorem RunAll.reach {ps : List (Axis × Axis)} {st st' : St} (h : RunAll ps st st') :
    StQ NZ st → PairsQ NZ st.next ps → ∀ σ : Subst, (σ.map (·.1)).Nodup → (∀ p ∈ st'.subst, p ∈ σ) →
    ∀ p ∈ ps, ∀ v, Reach σ p.1 v ↔ Reach σ p.2 v := by
  induction h with
  | nil => intro _ _ σ _ _ p hp; simp at hp
  | @cons e f rest st st1 st' h1 h2 ih =>
    intro hst hp σ hnd hsub p hp'
    have hst1 := h1.preserves NZ_ok hst (hp (e, f) (by simp))
    simp only [List.mem_cons] at hp'
    rcases hp' with rfl | hp'
    · have hsub1 : ∀ p ∈ st1.subst, p ∈ σ := by
        obtain ⟨⟨l, e'⟩, _⟩ := h2.grows
        intro p hp
        exact hsub p (by rw [e']; exact List.mem_append_right _ hp)
      exact C06pL.Run.reach h1 hst (hp (e, f) (by simp)) σ hnd hsub1
    · exact ih hst1 (fun q hq => hp q (by simp [hq])) σ hnd hsub p hp'

/-! ### the free axes of a resolved clone -/

/-- the identities of the free axes of a resolved clone are the reached ones -/
theorem clone_fv_reach (σ : Subst) : ∀ (n : Nat) (e : Axis), Good σ n e → ∀ v,
    (∃ q ∈ (clone σ n e).fv, q.1 = v) ↔ Reach σ e v
  | 0, e, hg, v => by
    unfold Good at hg
    rw [clone_zero] at hg ⊢
    unfold Reach
    constructor
    · rintro ⟨q, hq, rfl⟩
      exact ⟨q, hq, .free (hg q hq)⟩
    · rintro ⟨q, hq, h⟩
      exact ⟨q, hq, ((rv_none (hg q hq) v).1 h).symm⟩
  | n+1, .phys w m, hg, v => by
    rw [reach_phys]
    cases hb : bound σ w with
    | none =>
      rw [clone_phys_none hb, rv_none hb]
      simp only [Axis.fv, List.mem_singleton, exists_eq_left]
      exact eq_comm
    | some a =>
      rw [clone_phys_some hb, rv_some hb]
      exact clone_fv_reach σ n a ((good_phys_some hb n m).1 hg) v
  | n+1, .prod fs, hg, v => by
    have hfs := good_prod.1 hg
    rw [clone, reach_prod]
    constructor
    · rintro ⟨q, hq, rfl⟩
      obtain ⟨f', hf', hq'⟩ := (mem_fv_productAxis _).1 hq
      obtain ⟨f, hf, rfl⟩ := List.mem_map.1 hf'
      exact ⟨f, hf, (clone_fv_reach σ n f (hfs f hf) q.1).1 ⟨q, hq', rfl⟩⟩
    · rintro ⟨f, hf, hr⟩
      obtain ⟨q, hq, rfl⟩ := (clone_fv_reach σ n f (hfs f hf) v).2 hr
      exact ⟨q, (mem_fv_productAxis _).2 ⟨_, List.mem_map_of_mem hf, hq⟩, rfl⟩
  | n+1, .sum b t a, hg, v => by
    rw [clone, reach_sum]
    simp only [Axis.fv]
    exact clone_fv_reach σ n t (good_sum.1 hg) v

end C06pL
