/-
Helper lemmas for Props/C06j.lean, part 1: the fold of `stack` over the operands (FggsModel/ShapeOps.lean) —
anti-unify the generalised axes so far with the next operand's virtual axes, with a FRESH anti-substitution.

* `antiunifyAll_gen`: `antiunifyAll` over a list of pairs with the facts of `C06dA.antiunify_gen` (every pair
  created occurs in a result axis, has a size ≠ 1, records sub-axes of the arguments);
* `LInv`: the invariant of the fold: the generalised axes `lggs` are an injective pattern over the axes `ks`
  (the physical axes of the first operand before the first step, the fresh axes of the LAST anti-substitution after a
  step), of the common shape, and every operand processed so far is COVERED: each of its in-range assignments is matched
  by an in-range assignment of `ks` with the same virtual index tuple (`Covers`);
* `auFold_inv`: the invariant holds after the fold.
-/
import FggsModel.ShapeOps
import FggsProofs.Props.C06
import FggsProofs.C06bLemmas
import FggsProofs.C06cLemmas
import FggsProofs.C06dBaseLemmas
import FggsProofs.C06dAntiLemmas
import FggsProofs.C06dSideLemmas
import FggsProofs.C06dExpLemmas
import Mathlib.Tactic.Linarith
import Mathlib.Data.List.Basic
import Mathlib.Data.List.Forall2

set_option linter.unusedSimpArgs false
set_option linter.unusedVariables false

namespace C06jL
open Fggs Fggs.Ax Fggs.Un Fggs.Sh C06b C06cL C06dL

/-! ### names for the parts of `stack` -/

/-- the step function of the fold of `stack` -/
def auStep (fuel : Nat) (acc : List Axis × ASt) (t : PT) : List Axis × ASt :=
  antiunifyAll fuel (acc.1.zip t.vaxes) ⟨[], acc.2.next⟩

/-- the fold of `stack`: the generalised axes and the LAST anti-substitution -/
def auFold (fuel : Nat) (h : PT) (tail : List PT) (next : Nat) : List Axis × ASt :=
  tail.foldl (auStep fuel) (h.vaxes, ⟨[], next⟩)

/-- the slices of the operands -/
def slicesOf (fuel : Nat) (ts : List PT) (A : List Axis × ASt) : List (Option (List Ext)) :=
  ts.map (fun t => stackSlice fuel A.1 (A.2.pairs.map (·.2)) t (A.2.next + 1))

/-- the tensor `stack` hands to the constructor -/
def rawStack (fuel : Nat) (ts : List PT) (A : List Axis × ASt) (dim : Nat) (d : Ext) : PT :=
  { physical := ((slicesOf fuel ts A).map (fun s => s.getD [])).flatten,
    paxes := (A.2.next, ts.length) :: A.2.pairs.map (·.2),
    vaxes := A.1.take dim ++ [Axis.phys A.2.next ts.length] ++ A.1.drop dim,
    default := d }

theorem stack_eq (fuel : Nat) (h t1 : PT) (rest : List PT) (dim next : Nat) :
    stack fuel (h :: t1 :: rest) dim next =
      if (t1 :: rest).any (fun t => t.vshape != h.vshape || !sameDefault h.default t.default) then none
      else if (slicesOf fuel (h :: t1 :: rest) (auFold fuel h (t1 :: rest) next)).any Option.isNone then none
      else some (Bn.normalize (rawStack fuel (h :: t1 :: rest) (auFold fuel h (t1 :: rest) next) dim h.default)) := rfl

/-! ### `antiunifyAll` with the facts of `C06dA.antiunify_gen` -/

/-- the result axis `g` generalises the pair `p` of axes -/
def GenAt (P : List Pair) (g : Axis) (p : Axis × Axis) : Prop :=
  g.numel = p.1.numel ∧ (∀ q ∈ g.fv, q.2 ≠ 1 ∧ ∃ x ∈ P, x.2 = q) ∧
  (∀ ρ, InRange ρ p.1 → g.eval (lift Prod.fst P ρ) = p.1.eval ρ) ∧
  (∀ ρ, InRange ρ p.2 → g.eval (lift Prod.snd P ρ) = p.2.eval ρ)

theorem GenAt.mono {P more : List Pair} {g : Axis} {p : Axis × Axis} (h : GenAt P g p) : GenAt (P ++ more) g p := by
  obtain ⟨a, b, d, e⟩ := h
  have b' : ∀ q ∈ g.fv, ∃ x ∈ P, x.2 = q := fun q hq => (b q hq).2
  refine ⟨a, ?_, ?_, ?_⟩
  · intro q hq
    obtain ⟨h1, x, hx, hxq⟩ := b q hq
    exact ⟨h1, x, List.mem_append_left _ hx, hxq⟩
  · intro ρ hρ
    rw [eval_lift_append _ _ _ _ _ b']
    exact d ρ hρ
  · intro ρ hρ
    rw [eval_lift_append _ _ _ _ _ b']
    exact e ρ hρ

def AllGen (sz : Nat → Nat) (Q1 Q2 : Nat × Nat → Prop) (ps : List (Axis × Axis)) (st : ASt) (r : List Axis × ASt) :
    Prop :=
  C06dA.OK r.2 ∧ SizedP sz r.2.pairs ∧ st.next ≤ r.2.next ∧
  (∃ new, r.2.pairs = st.pairs ++ new ∧ ∀ p ∈ new, C06dA.NewOK Q1 Q2 st.next p ∧ ∃ g ∈ r.1, p.2 ∈ g.fv) ∧
  List.Forall₂ (GenAt r.2.pairs) r.1 ps

theorem antiunifyAll_gen (sz : Nat → Nat) (Q1 Q2 : Nat × Nat → Prop) (fuel : Nat) :
    ∀ (ps : List (Axis × Axis)) (st : ASt), C06dA.OK st → SizedP sz st.pairs →
    (∀ p ∈ ps, C06dA.AxP Q1 p.1 ∧ C06dA.AxP Q2 p.2 ∧ Sized sz p.1 ∧ Sized sz p.2 ∧ p.1.numel = p.2.numel) →
    AllGen sz Q1 Q2 ps st (antiunifyAll fuel ps st)
  | [], st, hst, hsz, _ => by
    rw [antiunifyAll]
    exact ⟨hst, hsz, Nat.le_refl _, ⟨[], by simp, by simp⟩, List.Forall₂.nil⟩
  | (e, f) :: rest, st, hst, hsz, hps => by
    rw [antiunifyAll_cons]
    obtain ⟨he, hf, hse, hsf, hn⟩ := hps (e, f) (by simp)
    have h1 := C06dA.antiunify_gen sz Q1 Q2 fuel e f st hst hsz he hf hse hsf hn
    generalize antiunify fuel e f st = r1 at h1 ⊢
    obtain ⟨hok1, hsz1, hnx1, ⟨new1, hnew1, hne1⟩, hnum1, hfv1, hL1, hR1⟩ := h1
    have h2 := antiunifyAll_gen sz Q1 Q2 fuel rest r1.2 hok1 hsz1 (fun p hp => hps p (by simp [hp]))
    generalize antiunifyAll fuel rest r1.2 = r2 at h2 ⊢
    obtain ⟨hok2, hsz2, hnx2, ⟨new2, hnew2, hne2⟩, hall⟩ := h2
    refine ⟨hok2, hsz2, Nat.le_trans hnx1 hnx2, ⟨new1 ++ new2, ?_, ?_⟩, ?_⟩
    · show r2.2.pairs = st.pairs ++ (new1 ++ new2)
      rw [hnew2, hnew1, List.append_assoc]
    · intro p hp
      rcases List.mem_append.1 hp with hp | hp
      · obtain ⟨a, b⟩ := hne1 p hp
        exact ⟨a, r1.1, List.mem_cons_self, b⟩
      · obtain ⟨a, g, hg, b⟩ := hne2 p hp
        exact ⟨a.mono hnx1, g, List.mem_cons_of_mem _ hg, b⟩
    · show List.Forall₂ (GenAt r2.2.pairs) (r1.1 :: r2.1) ((e, f) :: rest)
      refine List.Forall₂.cons ?_ hall
      rw [hnew2]
      exact GenAt.mono ⟨hnum1, hfv1, hL1, hR1⟩

/-! ### small list facts -/

theorem zip_map_fst_f {α β γ : Type} (f : α → γ) : ∀ (l1 : List α) (l2 : List β), l1.length = l2.length →
    (l1.zip l2).map (fun p => f p.1) = l1.map f
  | [], [], _ => rfl
  | [], _ :: _, h => by simp at h
  | _ :: _, [], h => by simp at h
  | a :: l1, b :: l2, h => by
    rw [List.zip_cons_cons, List.map_cons, List.map_cons, zip_map_fst_f f l1 l2 (by simpa using h)]

theorem zip_map_snd_f {α β γ : Type} (f : β → γ) : ∀ (l1 : List α) (l2 : List β), l1.length = l2.length →
    (l1.zip l2).map (fun p => f p.2) = l2.map f
  | [], [], _ => rfl
  | [], _ :: _, h => by simp at h
  | _ :: _, [], h => by simp at h
  | a :: l1, b :: l2, h => by
    rw [List.zip_cons_cons, List.map_cons, List.map_cons, zip_map_snd_f f l1 l2 (by simpa using h)]

/-! ### the invariant of the fold -/

/-- every in-range assignment of the physical axes of `t` is matched by an in-range assignment of `ks` that the
generalised axes map to the same virtual index tuple -/
def Covers (lggs : List Axis) (ks : List (Nat × Nat)) (t : PT) : Prop :=
  ∀ ρ, (∀ p ∈ t.paxes, ρ p.1 < p.2) →
    ∃ γ, (∀ k ∈ ks, γ k.1 < k.2) ∧ lggs.map (Axis.eval γ) = t.vaxes.map (Axis.eval ρ)

structure LInv (shape : List Nat) (done : List PT) (lggs : List Axis) (ks : List (Nat × Nat)) (lo hi : Nat) :
    Prop where
  ksnd : (ks.map (·.1)).Nodup
  kslo : ∀ k ∈ ks, lo ≤ k.1
  kslt : ∀ k ∈ ks, k.1 < hi
  kspos : ∀ k ∈ ks, 0 < k.2
  ksno1 : ∀ k ∈ ks, k.2 ≠ 1
  fvl : ∀ g ∈ lggs, ∀ q ∈ g.fv, q ∈ ks
  occ : ∀ k ∈ ks, ∃ g ∈ lggs, k ∈ g.fv
  numl : lggs.map Axis.numel = shape
  cov : ∀ t ∈ done, Covers lggs ks t

/-- an operand as the library holds it -/
structure OpOK (shape : List Nat) (next : Nat) (t : PT) : Prop where
  wf : t.wf = true
  shape : t.vshape = shape
  fresh : ∀ p ∈ t.paxes, p.1 < next
  pos : ∀ p ∈ t.paxes, 0 < p.2

/-- the size carried by an identity -/
def szOf (ks : List (Nat × Nat)) (t : PT) : Nat → Nat := fun v =>
  match (ks ++ t.paxes).find? (fun p => p.1 == v) with
  | some p => p.2
  | none => 1

theorem szOf_spec {ks : List (Nat × Nat)} {t : PT} (hk : (ks.map (·.1)).Nodup) (ht : (t.paxes.map (·.1)).Nodup)
    (hc : ∀ k ∈ ks, ∀ p ∈ t.paxes, k.1 = p.1 → k.2 = p.2) :
    ∀ q ∈ ks ++ t.paxes, q.2 = szOf ks t q.1 := by
  intro q hq
  unfold szOf
  cases hf : (ks ++ t.paxes).find? (fun p => p.1 == q.1) with
  | none =>
    rw [List.find?_eq_none] at hf
    exact absurd (by simp) (hf q hq)
  | some p =>
    have hp := List.mem_of_find?_eq_some hf
    have hpq : p.1 = q.1 := by simpa using List.find?_some hf
    show q.2 = p.2
    rcases List.mem_append.1 hp with hp | hp <;> rcases List.mem_append.1 hq with hq | hq
    · rw [eq_of_mem_nodup_fst hk hp hq hpq]
    · exact (hc p hp q hq hpq).symm
    · exact hc q hq p hp hpq.symm
    · rw [eq_of_mem_nodup_fst ht hp hq hpq]

theorem mem_map_snd {P : List Pair} {k : Nat × Nat} : k ∈ P.map (·.2) ↔ ∃ x ∈ P, x.2 = k := by
  simp

/-- **one step of the fold keeps the invariant** -/
theorem step_inv (fuel : Nat) {shape : List Nat} {done : List PT} {lggs : List Axis} {ks : List (Nat × Nat)}
    {lo hi : Nat} (inv : LInv shape done lggs ks lo hi) {t : PT} {next n0 : Nat} (ht : OpOK shape next t)
    (hc : ∀ k ∈ ks, ∀ p ∈ t.paxes, k.1 = p.1 → k.2 = p.2) :
    LInv shape (t :: done) (antiunifyAll fuel (lggs.zip t.vaxes) ⟨[], n0⟩).1
      ((antiunifyAll fuel (lggs.zip t.vaxes) ⟨[], n0⟩).2.pairs.map (·.2)) n0
      (antiunifyAll fuel (lggs.zip t.vaxes) ⟨[], n0⟩).2.next ∧
    n0 ≤ (antiunifyAll fuel (lggs.zip t.vaxes) ⟨[], n0⟩).2.next := by
  have st := (wf_iff_struct t).1 ht.wf
  have hsz := szOf_spec inv.ksnd st.nodup hc
  have hlen : lggs.length = t.vaxes.length := by
    have := congrArg List.length (inv.numl.trans ht.shape.symm)
    simpa [PT.vshape] using this
  have hps : ∀ p ∈ lggs.zip t.vaxes, C06dA.AxP (· ∈ ks) p.1 ∧ C06dA.AxP (· ∈ t.paxes) p.2 ∧
      Sized (szOf ks t) p.1 ∧ Sized (szOf ks t) p.2 ∧ p.1.numel = p.2.numel := by
    intro p hp
    have h1 := (List.of_mem_zip hp).1
    have h2 := (List.of_mem_zip hp).2
    refine ⟨inv.fvl p.1 h1, st.fvsub p.2 h2, fun q hq => hsz q (List.mem_append_left _ (inv.fvl p.1 h1 q hq)),
      fun q hq => hsz q (List.mem_append_right _ (st.fvsub p.2 h2 q hq)), ?_⟩
    exact C06dE.zip_numel_eq lggs t.vaxes (inv.numl.trans ht.shape.symm) p hp
  have hg := antiunifyAll_gen (szOf ks t) (· ∈ ks) (· ∈ t.paxes) fuel (lggs.zip t.vaxes) ⟨[], n0⟩
    ⟨by simp, by simp, by simp⟩ (by intro p hp; simp at hp) hps
  generalize antiunifyAll fuel (lggs.zip t.vaxes) ⟨[], n0⟩ = r at hg ⊢
  obtain ⟨hok, _, hnx, ⟨new, hnew, hne⟩, hall⟩ := hg
  have hnew' : r.2.pairs = new := by simpa using hnew
  have hP : ∀ x ∈ r.2.pairs, C06dA.NewOK (· ∈ ks) (· ∈ t.paxes) n0 x ∧ ∃ g ∈ r.1, x.2 ∈ g.fv := by
    intro x hx
    rw [hnew'] at hx
    exact hne x hx
  have hnd : (r.2.pairs.map (fun p => p.2.1)).Nodup := hok.nodup
  -- readings are in range
  have hrL : ∀ γ : Nat → Nat, (∀ k ∈ ks, γ k.1 < k.2) → ∀ x ∈ r.2.pairs, lift Prod.fst r.2.pairs γ x.2.1 < x.2.2 := by
    intro γ hγ x hx
    rw [lift_at_mem Prod.fst r.2.pairs γ hnd hx, (hok.size x hx).1]
    exact InRange.lt (fun q hq => hγ q ((hP x hx).1.2.2.1 q hq))
  have hrR : ∀ ρ : Nat → Nat, (∀ p ∈ t.paxes, ρ p.1 < p.2) → ∀ x ∈ r.2.pairs,
      lift Prod.snd r.2.pairs ρ x.2.1 < x.2.2 := by
    intro ρ hρ x hx
    rw [lift_at_mem Prod.snd r.2.pairs ρ hnd hx, (hok.size x hx).1, (hok.size x hx).2]
    exact InRange.lt (fun q hq => hρ q ((hP x hx).1.2.2.2 q hq))
  refine ⟨⟨?_, ?_, ?_, ?_, ?_, ?_, ?_, ?_, ?_⟩, hnx⟩
  · rw [List.map_map]; exact hnd
  · intro k hk
    obtain ⟨x, hx, rfl⟩ := mem_map_snd.1 hk
    exact (hP x hx).1.2.1
  · intro k hk
    obtain ⟨x, hx, rfl⟩ := mem_map_snd.1 hk
    exact hok.ids x hx
  · intro k hk
    obtain ⟨x, hx, rfl⟩ := mem_map_snd.1 hk
    rw [(hok.size x hx).1]
    exact numel_pos_aux _ (fun q hq => inv.kspos q ((hP x hx).1.2.2.1 q hq))
  · intro k hk
    obtain ⟨x, hx, rfl⟩ := mem_map_snd.1 hk
    exact (hP x hx).1.1
  · intro g hg q hq
    obtain ⟨p, _, hgp⟩ := C06dE.forall₂_mem_left hall g hg
    exact mem_map_snd.2 (hgp.2.1 q hq).2
  · intro k hk
    obtain ⟨x, hx, rfl⟩ := mem_map_snd.1 hk
    exact (hP x hx).2
  · rw [C06dE.forall₂_map_eq Axis.numel (fun p => p.1.numel) (fun a b hab => hab.1) hall,
      zip_map_fst_f Axis.numel _ _ hlen]
    exact inv.numl
  · intro u hu
    rcases List.mem_cons.1 hu with rfl | hu
    · intro ρ hρ
      refine ⟨lift Prod.snd r.2.pairs ρ, ?_, ?_⟩
      · intro k hk
        obtain ⟨x, hx, rfl⟩ := mem_map_snd.1 hk
        exact hrR ρ hρ x hx
      · rw [C06dE.forall₂_map_eq' (Axis.eval (lift Prod.snd r.2.pairs ρ)) (fun p => p.2.eval ρ) hall,
          zip_map_snd_f (Axis.eval ρ) _ _ hlen]
        intro g p hp hgp
        exact hgp.2.2.2 ρ (fun q hq => hρ q (st.fvsub p.2 (List.of_mem_zip hp).2 q hq))
    · intro ρ hρ
      obtain ⟨γ0, hγ0, he0⟩ := inv.cov u hu ρ hρ
      refine ⟨lift Prod.fst r.2.pairs γ0, ?_, ?_⟩
      · intro k hk
        obtain ⟨x, hx, rfl⟩ := mem_map_snd.1 hk
        exact hrL γ0 hγ0 x hx
      · rw [← he0, C06dE.forall₂_map_eq' (Axis.eval (lift Prod.fst r.2.pairs γ0)) (fun p => p.1.eval γ0) hall,
          zip_map_fst_f (Axis.eval γ0) _ _ hlen]
        intro g p hp hgp
        exact hgp.2.2.1 γ0 (fun q hq => hγ0 q (inv.fvl p.1 (List.of_mem_zip hp).1 q hq))

theorem LInv.weaken {shape : List Nat} {done : List PT} {lggs : List Axis} {ks : List (Nat × Nat)} {lo lo' hi : Nat}
    (h : LInv shape done lggs ks lo hi) (hle : lo' ≤ lo) : LInv shape done lggs ks lo' hi :=
  { h with kslo := fun k hk => Nat.le_trans hle (h.kslo k hk) }

/-- **the fold keeps the invariant**; after at least one step the axes `ks` are the fresh axes of the last
anti-substitution, with identities at or above `next` -/
theorem foldl_inv (fuel : Nat) (shape : List Nat) (next : Nat) : ∀ (todo : List PT) (t : PT) (done : List PT)
    (acc : List Axis × ASt) (ks : List (Nat × Nat)) (lo hi : Nat), LInv shape done acc.1 ks lo hi →
    next ≤ acc.2.next → (∀ u ∈ t :: todo, OpOK shape next u) →
    (∀ u ∈ t :: todo, ∀ k ∈ ks, ∀ p ∈ u.paxes, k.1 = p.1 → k.2 = p.2) →
    LInv shape ((t :: todo).reverse ++ done) ((t :: todo).foldl (auStep fuel) acc).1
      (((t :: todo).foldl (auStep fuel) acc).2.pairs.map (·.2)) next ((t :: todo).foldl (auStep fuel) acc).2.next ∧
    next ≤ ((t :: todo).foldl (auStep fuel) acc).2.next
  | [], t, done, acc, ks, lo, hi, inv, hn, hop, hc => by
    obtain ⟨h1, h2⟩ := step_inv fuel (n0 := acc.2.next) inv (hop t (by simp)) (hc t (by simp))
    simp only [List.foldl_cons, List.foldl_nil, List.reverse_cons, List.reverse_nil, List.nil_append,
      List.singleton_append]
    exact ⟨h1.weaken hn, Nat.le_trans hn h2⟩
  | t' :: todo, t, done, acc, ks, lo, hi, inv, hn, hop, hc => by
    obtain ⟨h1, h2⟩ := step_inv fuel (n0 := acc.2.next) inv (hop t (by simp)) (hc t (by simp))
    have ih := foldl_inv fuel shape next todo t' (t :: done) (auStep fuel acc t) _ _ _ h1 (Nat.le_trans hn h2)
      (fun u hu => hop u (List.mem_cons_of_mem _ hu))
      (fun u hu k hk p hp e => by
        have := h1.kslo k hk
        have := (hop u (List.mem_cons_of_mem _ hu)).fresh p hp
        omega)
    rw [List.foldl_cons, List.reverse_cons, List.append_assoc]
    exact ih

/-- the invariant before the first step: the first operand generalises itself -/
theorem inv_init {h : PT} {next : Nat} (hh : OpOK h.vshape next h) : LInv h.vshape [h] h.vaxes h.paxes 0 next := by
  have st := (wf_iff_struct h).1 hh.wf
  refine ⟨st.nodup, fun _ _ => Nat.zero_le _, hh.fresh, hh.pos, st.no1, st.fvsub, st.occ, rfl, ?_⟩
  intro t ht ρ hρ
  simp only [List.mem_singleton] at ht
  subst ht
  exact ⟨ρ, hρ, rfl⟩

/-- **the invariant after the fold of `stack`** (at least two operands) -/
theorem auFold_inv (fuel : Nat) (h t1 : PT) (rest : List PT) (next : Nat)
    (hop : ∀ u ∈ h :: t1 :: rest, OpOK h.vshape next u)
    (hc : ∀ u ∈ t1 :: rest, ∀ k ∈ h.paxes, ∀ p ∈ u.paxes, k.1 = p.1 → k.2 = p.2) :
    LInv h.vshape ((t1 :: rest).reverse ++ [h]) (auFold fuel h (t1 :: rest) next).1
      ((auFold fuel h (t1 :: rest) next).2.pairs.map (·.2)) next (auFold fuel h (t1 :: rest) next).2.next ∧
    next ≤ (auFold fuel h (t1 :: rest) next).2.next :=
  foldl_inv fuel h.vshape next rest t1 [h] (h.vaxes, ⟨[], next⟩) h.paxes 0 next (inv_init (hop h (by simp)))
    (Nat.le_refl _) (fun u hu => hop u (List.mem_cons_of_mem _ hu)) hc

end C06jL
