/-
C07eStrideLemmas — the affine forms of FggsModel/Strided.lean (`strideC`, `strideS`, `projectForm`): the value of the
form under an assignment is offset + linear part; `addCoeff` / `combine` keep the axis identities distinct and add /
scale the value.  (Adapted from the private helpers of Props/C06.lean for the older `Axis.stride`.)
-/
import FggsModel.Strided
import FggsProofs.C06bLemmas
import FggsProofs.C07bCloneLemmas
import Mathlib.Tactic.Linarith
import Mathlib.Tactic.Ring
import Mathlib.Data.List.Basic

set_option linter.unusedSimpArgs false
set_option linter.unusedVariables false

namespace C07eL
open Fggs Fggs.Ax Fggs.Un Fggs.Sd

/-- the linear part of an affine form -/
def lin (ρ : Nat → Nat) : Coeffs → Nat
  | [] => 0
  | p :: s => p.2 * ρ p.1.1 + lin ρ s

theorem foldl_lin (ρ : Nat → Nat) : ∀ (s : Coeffs) (a : Nat),
    s.foldl (fun acc p => acc + p.2 * ρ p.1.1) a = a + lin ρ s
  | [], a => by simp [lin]
  | p :: s, a => by rw [List.foldl_cons, foldl_lin ρ s, lin]; ring

theorem applyS_eq (ρ : Nat → Nat) (r : Nat × Coeffs) : applyS r ρ = r.1 + lin ρ r.2 := by
  simp [applyS, foldl_lin]

theorem lin_append (ρ : Nat → Nat) : ∀ (s s' : Coeffs), lin ρ (s ++ s') = lin ρ s + lin ρ s'
  | [], s' => by simp [lin]
  | p :: s, s' => by rw [List.cons_append, lin, lin, lin_append ρ s s']; ring

theorem lin_scale (ρ : Nat → Nat) (n : Nat) : ∀ (s : Coeffs),
    lin ρ (s.map (fun p => (p.1, p.2 * n))) = lin ρ s * n
  | [] => by simp [lin]
  | p :: s => by rw [List.map_cons, lin, lin, lin_scale ρ n s]; ring

/-- the axis identities of a form -/
def keys (s : Coeffs) : List Nat := s.map (·.1.1)

theorem upd_not_mem (v c : Nat) : ∀ (s : Coeffs), v ∉ keys s →
    s.map (fun p => if p.1.1 == v then (p.1, p.2 + c) else p) = s
  | [], _ => rfl
  | p :: s, h => by
    simp only [keys, List.map_cons, List.mem_cons, not_or] at h
    have hs := upd_not_mem v c s h.2
    have hp : (p.1.1 == v) = false := by simpa using fun e => h.1 e.symm
    rw [List.map_cons, hs, hp]; rfl

theorem lin_upd (ρ : Nat → Nat) (v c : Nat) : ∀ (s : Coeffs), (keys s).Nodup → v ∈ keys s →
    lin ρ (s.map (fun p => if p.1.1 == v then (p.1, p.2 + c) else p)) = lin ρ s + c * ρ v
  | [], _, h => by simp [keys] at h
  | p :: s, hn, h => by
    simp only [keys, List.map_cons, List.nodup_cons] at hn
    by_cases hp : p.1.1 = v
    · have hv : v ∉ keys s := by rw [← hp]; exact hn.1
      rw [List.map_cons, upd_not_mem v c s hv]
      simp only [hp, beq_self_eq_true, if_true, lin]
      rw [← hp]; ring
    · have hv : v ∈ keys s := by
        simp only [keys, List.map_cons, List.mem_cons] at h
        rcases h with h | h
        · exact absurd h.symm hp
        · exact h
      have ih := lin_upd ρ v c s hn.2 hv
      have hp' : (p.1.1 == v) = false := by simpa using hp
      rw [List.map_cons, hp']
      simp only [Bool.false_eq_true, if_false]
      rw [lin, ih, lin]; ring

theorem keys_upd (v c : Nat) (s : Coeffs) :
    keys (s.map (fun p => if p.1.1 == v then (p.1, p.2 + c) else p)) = keys s := by
  simp only [keys, List.map_map]
  apply List.map_congr_left
  intro p _
  by_cases hp : p.1.1 = v <;> simp [hp]

theorem any_iff_mem_keys (s : Coeffs) (v : Nat) :
    s.any (·.1.1 == v) = true ↔ v ∈ keys s := by
  simp only [keys, List.any_eq_true, beq_iff_eq, List.mem_map]

theorem addCoeff_spec (ρ : Nat → Nat) (s : Coeffs) (k : Nat × Nat) (c : Nat) (hn : (keys s).Nodup) :
    lin ρ (Sd.addCoeff s k c) = lin ρ s + c * ρ k.1 ∧ (keys (Sd.addCoeff s k c)).Nodup := by
  unfold Sd.addCoeff
  by_cases h : s.any (·.1.1 == k.1) = true
  · rw [if_pos h]
    have hv := (any_iff_mem_keys s k.1).1 h
    exact ⟨lin_upd ρ k.1 c s hn hv, by rw [keys_upd]; exact hn⟩
  · rw [if_neg h]
    have hv : k.1 ∉ keys s := fun hv => h ((any_iff_mem_keys s k.1).2 hv)
    refine ⟨by rw [lin_append]; simp [lin], ?_⟩
    simp only [keys, List.map_append, List.map_cons, List.map_nil]
    rw [List.nodup_append]
    refine ⟨hn, by simp, ?_⟩
    intro a ha b hb
    simp only [List.mem_singleton] at hb
    rintro rfl
    exact hv (hb ▸ ha)

/-- adding the coefficients of a form, each scaled by `m` -/
theorem foldl_addCoeff_spec (ρ : Nat → Nat) (m : Nat) : ∀ (s' s : Coeffs), (keys s).Nodup →
    lin ρ (s'.foldl (fun acc p => Sd.addCoeff acc p.1 (p.2 * m)) s) = lin ρ s + lin ρ s' * m ∧
    (keys (s'.foldl (fun acc p => Sd.addCoeff acc p.1 (p.2 * m)) s)).Nodup
  | [], s, hn => by simp [lin, hn]
  | p :: s', s, hn => by
    have h1 := addCoeff_spec ρ s p.1 (p.2 * m) hn
    have h2 := foldl_addCoeff_spec ρ m s' (Sd.addCoeff s p.1 (p.2 * m)) h1.2
    rw [List.foldl_cons]
    refine ⟨?_, h2.2⟩
    rw [h2.1, h1.1, lin]; ring

theorem foldl_addCoeff_spec1 (ρ : Nat → Nat) (s' s : Coeffs) (hn : (keys s).Nodup) :
    lin ρ (s'.foldl (fun acc p => Sd.addCoeff acc p.1 p.2) s) = lin ρ s + lin ρ s' ∧
    (keys (s'.foldl (fun acc p => Sd.addCoeff acc p.1 p.2) s)).Nodup := by
  have h := foldl_addCoeff_spec ρ 1 s' s hn
  simpa using h

theorem keys_scale (n : Nat) (s : Coeffs) :
    keys (s.map (fun p => (p.1, p.2 * n))) = keys s := by
  simp [keys, List.map_map, Function.comp_def]

/-- one step of `ProductAxis.stride` -/
theorem combine_spec (ρ : Nat → Nat) (acc : Nat × Coeffs) (n : Nat) (f : Nat × Coeffs) (hn : (keys acc.2).Nodup) :
    applyS (combine acc n f) ρ = applyS acc ρ * n + applyS f ρ ∧ (keys (combine acc n f).2).Nodup := by
  have hsc : (keys (acc.2.map (fun p => (p.1, p.2 * n)))).Nodup := by rw [keys_scale]; exact hn
  have hf := foldl_addCoeff_spec1 ρ f.2 _ hsc
  unfold combine
  refine ⟨?_, hf.2⟩
  rw [applyS_eq, applyS_eq, applyS_eq]
  simp only
  rw [hf.1, lin_scale]; ring

/-- folding `combine` over factors whose forms have the values `h` -/
theorem foldl_combine_spec (ρ : Nat → Nat) (g : Axis → Nat × Coeffs) (h : Axis → Nat) :
    ∀ (fs : List Axis) (acc : Nat × Coeffs), (keys acc.2).Nodup → (∀ f ∈ fs, applyS (g f) ρ = h f) →
    applyS (fs.foldl (fun acc f => combine acc f.numel (g f)) acc) ρ
        = fs.foldl (fun a f => a * f.numel + h f) (applyS acc ρ) ∧
      (keys (fs.foldl (fun acc f => combine acc f.numel (g f)) acc).2).Nodup
  | [], acc, hn, _ => ⟨rfl, hn⟩
  | f :: fs, acc, hn, hg => by
    have h1 := combine_spec ρ acc f.numel (g f) hn
    have h2 := foldl_combine_spec ρ g h fs _ h1.2 (fun x hx => hg x (by simp [hx]))
    rw [List.foldl_cons, List.foldl_cons]
    refine ⟨?_, h2.2⟩
    rw [h2.1, h1.1, hg f (by simp)]

mutual
theorem strideC_aux (ρ : Nat → Nat) : ∀ (e : Axis),
    applyS (strideC e) ρ = e.eval ρ ∧ (keys (strideC e).2).Nodup
  | .phys v n => by simp [strideC, Axis.eval, applyS, keys]
  | .prod fs => by
    have h := strideCList_aux ρ fs (0, []) (by simp [keys])
    rw [strideC, Axis.eval]
    refine ⟨?_, h.2⟩
    rw [h.1]; simp [applyS]
  | .sum b t a => by
    have ih := strideC_aux ρ t
    rw [strideC, Axis.eval]
    refine ⟨?_, ih.2⟩
    have := ih.1
    rw [applyS_eq] at this ⊢
    simp only
    omega
theorem strideCList_aux (ρ : Nat → Nat) : ∀ (fs : List Axis) (acc : Nat × Coeffs), (keys acc.2).Nodup →
    applyS (strideCList fs acc) ρ = applyS acc ρ * numelList fs + evalList ρ fs 0 ∧
    (keys (strideCList fs acc).2).Nodup
  | [], acc, hn => by simp [strideCList, numelList, evalList, hn]
  | f :: fs, acc, hn => by
    have ihf := strideC_aux ρ f
    have hc := combine_spec ρ acc f.numel (strideC f) hn
    have ih := strideCList_aux ρ fs _ hc.2
    rw [strideCList]
    refine ⟨?_, ih.2⟩
    rw [ih.1, hc.1, ihf.1, C06b.evalList_cons_zero, numelList]
    ring
end

/-- the product case of `evalS` at fuel 0 -/
theorem foldl_eval (ρ : Nat → Nat) : ∀ (fs : List Axis) (acc : Nat),
    fs.foldl (fun a f => a * f.numel + f.eval ρ) acc = evalList ρ fs acc
  | [], acc => by simp [evalList]
  | f :: fs, acc => by rw [List.foldl_cons, evalList, foldl_eval ρ fs]

theorem strideS_aux (σ : Subst) (ρ : Nat → Nat) : ∀ (fuel : Nat) (e : Axis),
    applyS (strideS σ fuel e) ρ = evalS σ ρ fuel e ∧ (keys (strideS σ fuel e).2).Nodup
  | 0, e => by
    rw [strideS, evalS]; exact strideC_aux ρ e
  | fuel+1, .phys v n => by
    rw [strideS, evalS]
    split
    · exact strideS_aux σ ρ fuel _
    · simp [applyS, keys]
  | fuel+1, .prod fs => by
    rw [strideS, evalS]
    have h := foldl_combine_spec ρ (strideS σ fuel) (evalS σ ρ fuel) fs (0, []) (by simp [keys])
      (fun f _ => (strideS_aux σ ρ fuel f).1)
    refine ⟨?_, h.2⟩
    rw [h.1]; simp [applyS]
  | fuel+1, .sum b t a => by
    have ih := strideS_aux σ ρ fuel t
    rw [strideS, evalS]
    refine ⟨?_, ih.2⟩
    have := ih.1
    rw [applyS_eq] at this ⊢
    simp only
    omega

/-! ### `evalS` and `clone` -/

theorem evalS_clone_aux (σ : Subst) (hσ : C06b.NumelOkS σ) (ρ : Nat → Nat) : ∀ (fuel : Nat) (e : Axis),
    C06b.NumelOk σ e → evalS σ ρ fuel e = (clone σ fuel e).eval ρ
  | 0, e, _ => by rw [evalS, clone]
  | fuel+1, .phys v n, he => by
    cases hb : bound σ v with
    | some a =>
      rw [evalS, clone, hb]
      exact evalS_clone_aux σ hσ ρ fuel a (hσ _ (C06b.bound_mem hb))
    | none => rw [evalS, clone, hb]; simp [Axis.eval]
  | fuel+1, .prod fs, he => by
    rw [evalS, clone, C06.productAxis_eval, Axis.eval]
    have : ∀ (gs : List Axis) (acc : Nat), (∀ x ∈ gs, C06b.NumelOk σ x) →
        gs.foldl (fun a f => a * f.numel + evalS σ ρ fuel f) acc = evalList ρ (gs.map (clone σ fuel)) acc := by
      intro gs
      induction gs with
      | nil => intro acc _; simp [evalList]
      | cons g gs ih =>
        intro acc h
        rw [List.foldl_cons, List.map_cons, evalList, ih _ (fun x hx => h x (by simp [hx])),
          evalS_clone_aux σ hσ ρ fuel g (h g (by simp)), C07bL.clone_numel' hσ fuel g (h g (by simp))]
    exact this fs 0 he.prod
  | fuel+1, .sum b t a, he => by
    rw [evalS, clone, Axis.eval, evalS_clone_aux σ hσ ρ fuel t (C07bL.numelOk_sum he)]

/-! ### `projectForm` -/

/-- one step of `projectForm` -/
theorem projStep_spec (ρ : Nat → Nat) (acc r : Nat × Coeffs) (m : Nat) (hn : (keys acc.2).Nodup) :
    applyS (acc.1 + r.1 * m, r.2.foldl (fun s q => Sd.addCoeff s q.1 (q.2 * m)) acc.2) ρ
        = applyS acc ρ + applyS r ρ * m ∧
      (keys (r.2.foldl (fun s q => Sd.addCoeff s q.1 (q.2 * m)) acc.2)).Nodup := by
  have h := foldl_addCoeff_spec ρ m r.2 acc.2 hn
  refine ⟨?_, h.2⟩
  rw [applyS_eq, applyS_eq, applyS_eq]
  simp only
  rw [h.1]; ring

theorem projectForm_fold (σ : Subst) (ρ : Nat → Nat) : ∀ (l : List (Axis × Nat)) (acc : Nat × Coeffs),
    (keys acc.2).Nodup →
    applyS (l.foldl (fun (acc : Nat × Coeffs) (p : Axis × Nat) =>
        let r := strideS σ FUEL p.1
        (acc.1 + r.1 * p.2, r.2.foldl (fun s q => Sd.addCoeff s q.1 (q.2 * p.2)) acc.2)) acc) ρ
      = l.foldl (fun a p => a + evalS σ ρ FUEL p.1 * p.2) (applyS acc ρ) ∧
    (keys (l.foldl (fun (acc : Nat × Coeffs) (p : Axis × Nat) =>
        let r := strideS σ FUEL p.1
        (acc.1 + r.1 * p.2, r.2.foldl (fun s q => Sd.addCoeff s q.1 (q.2 * p.2)) acc.2)) acc).2).Nodup
  | [], acc, hn => ⟨rfl, hn⟩
  | p :: l, acc, hn => by
    have h1 := projStep_spec ρ acc (strideS σ FUEL p.1) p.2 hn
    have h2 := projectForm_fold σ ρ l
      (acc.1 + (strideS σ FUEL p.1).1 * p.2,
        (strideS σ FUEL p.1).2.foldl (fun s q => Sd.addCoeff s q.1 (q.2 * p.2)) acc.2) h1.2
    rw [List.foldl_cons, List.foldl_cons]
    refine ⟨?_, h2.2⟩
    simp only at h2 ⊢
    rw [h2.1, h1.1, (strideS_aux σ ρ FUEL p.1).1]

theorem projectForm_spec (virt : View) (vaxes : List Axis) (σ : Subst) (ρ : Nat → Nat) :
    applyS (projectForm virt vaxes σ) ρ
        = (vaxes.zip virt.strides).foldl (fun a p => a + evalS σ ρ FUEL p.1 * p.2) virt.offset ∧
      (keys (projectForm virt vaxes σ).2).Nodup := by
  have h := projectForm_fold σ ρ (vaxes.zip virt.strides) (virt.offset, []) (by simp [keys])
  unfold projectForm
  refine ⟨?_, h.2⟩
  rw [h.1]; simp [applyS]

/-- the address of a view whose index tuple and strides are both given along one list -/
theorem addr_map {α : Type} (f g : α → Nat) : ∀ (ks : List α) (o : Nat),
    ((ks.map f).zip (ks.map g)).foldl (fun acc p => acc + p.1 * p.2) o
      = ks.foldl (fun acc k => acc + f k * g k) o
  | [], o => rfl
  | k :: ks, o => by
    rw [List.map_cons, List.map_cons, List.zip_cons_cons, List.foldl_cons, List.foldl_cons, addr_map f g ks]

theorem addr_zip_map {α : Type} (f : α → Nat) : ∀ (ks : List α) (st : List Nat) (o : Nat),
    ((ks.map f).zip st).foldl (fun acc p => acc + p.1 * p.2) o
      = (ks.zip st).foldl (fun acc p => acc + f p.1 * p.2) o
  | [], st, o => by simp
  | k :: ks, [], o => by simp
  | k :: ks, s :: st, o => by
    rw [List.map_cons, List.zip_cons_cons, List.zip_cons_cons, List.foldl_cons, List.foldl_cons,
      addr_zip_map f ks st]

end C07eL
