/-
C09dProjLemmas — helpers for Props/C09d.lean, part 2: what `Ps.projected` reads.

* the physical axes (identity, size) of the affine forms `strideC` / `strideS` / `projectForm` are free axes of the
  clones; under a size function the axes of `projected T σ` are exactly the free axes of the clones of `T`'s physical axes
  (`mem_projAxes`);
* the element of `projected T σ` at the index tuple of an assignment `γ` of those axes is the physical element of `T`
  at the indices `clone σ FUEL (phys k)` evaluated at `γ` (`projected_elem`).
-/
import FggsModel.PatSolve
import FggsProofs.Props.C06
import FggsProofs.Props.C07e
import FggsProofs.C06bLemmas
import FggsProofs.C06dBaseLemmas
import FggsProofs.C06dSideLemmas
import FggsProofs.C06iLemmas
import FggsProofs.C07bCloneLemmas
import FggsProofs.C07eStrideLemmas
import Mathlib.Tactic.Linarith
import Mathlib.Data.List.Basic
import Mathlib.Data.List.Nodup

set_option linter.unusedSimpArgs false
set_option linter.unusedVariables false

namespace C09dL
open Fggs Fggs.Ax Fggs.Un Fggs.Sd Fggs.Ps C06b C06dL C07bL

/-- the physical axes (identity, size) of a form -/
def pairs (s : Coeffs) : List (Nat × Nat) := s.map (·.1)

theorem keys_eq_pairs (s : Coeffs) : C07eL.keys s = (pairs s).map (·.1) := by
  unfold C07eL.keys pairs; rw [List.map_map]; rfl

theorem mem_pairs_addCoeff (s : Coeffs) (k : Nat × Nat) (c : Nat) (q : Nat × Nat)
    (h : q ∈ pairs (Sd.addCoeff s k c)) : q ∈ pairs s ∨ q = k := by
  unfold Sd.addCoeff at h
  split at h
  · left
    unfold pairs at h ⊢
    rw [List.map_map] at h
    obtain ⟨p, hp, rfl⟩ := List.mem_map.1 h
    refine List.mem_map.2 ⟨p, hp, ?_⟩
    simp only [Function.comp]
    split <;> rfl
  · unfold pairs at h ⊢
    rw [List.map_append, List.mem_append] at h
    rcases h with h | h
    · exact .inl h
    · right; simpa using h

theorem mem_pairs_foldl_addCoeff (g : (Nat × Nat) × Nat → Nat) (q : Nat × Nat) : ∀ (s' s : Coeffs),
    q ∈ pairs (s'.foldl (fun acc p => Sd.addCoeff acc p.1 (g p)) s) → q ∈ pairs s ∨ q ∈ pairs s'
  | [], s, h => .inl h
  | p :: s', s, h => by
    rw [List.foldl_cons] at h
    rcases mem_pairs_foldl_addCoeff g q s' _ h with h | h
    · rcases mem_pairs_addCoeff _ _ _ _ h with h | h
      · exact .inl h
      · right; rw [h]; simp [pairs]
    · right; simp only [pairs, List.map_cons, List.mem_cons]; exact .inr h

theorem mem_pairs_combine (acc : Nat × Coeffs) (n : Nat) (f : Nat × Coeffs) (q : Nat × Nat)
    (h : q ∈ pairs (combine acc n f).2) : q ∈ pairs acc.2 ∨ q ∈ pairs f.2 := by
  unfold combine at h
  simp only at h
  rcases mem_pairs_foldl_addCoeff (fun p => p.2) q _ _ h with h | h
  · left
    unfold pairs at h ⊢
    rw [List.map_map] at h
    exact h
  · exact .inr h

mutual
theorem mem_pairs_strideC (q : Nat × Nat) : ∀ (e : Axis), q ∈ pairs (strideC e).2 → q ∈ e.fv
  | .phys w n, h => by simpa [strideC, pairs, Axis.fv] using h
  | .prod fs, h => by
    rw [strideC] at h
    rw [Axis.fv]
    rcases mem_pairs_strideCList q fs (0, []) h with h | h
    · simp [pairs] at h
    · exact h
  | .sum b t a, h => by
    rw [strideC] at h
    rw [Axis.fv]
    exact mem_pairs_strideC q t h
theorem mem_pairs_strideCList (q : Nat × Nat) : ∀ (fs : List Axis) (acc : Nat × Coeffs),
    q ∈ pairs (strideCList fs acc).2 → q ∈ pairs acc.2 ∨ q ∈ fvList fs
  | [], acc, h => by rw [strideCList] at h; exact .inl h
  | f :: fs, acc, h => by
    rw [strideCList] at h
    rw [fvList, List.mem_append]
    rcases mem_pairs_strideCList q fs _ h with h | h
    · rcases mem_pairs_combine _ _ _ _ h with h | h
      · exact .inl h
      · exact .inr (.inl (mem_pairs_strideC q f h))
    · exact .inr (.inr h)
end

theorem mem_pairs_foldl_combine (q : Nat × Nat) (g : Axis → Nat × Coeffs) : ∀ (fs : List Axis) (acc : Nat × Coeffs),
    q ∈ pairs (fs.foldl (fun acc f => combine acc f.numel (g f)) acc).2 → q ∈ pairs acc.2 ∨ ∃ f ∈ fs, q ∈ pairs (g f).2
  | [], acc, h => .inl h
  | f :: fs, acc, h => by
    rw [List.foldl_cons] at h
    rcases mem_pairs_foldl_combine q g fs _ h with h | ⟨f', hf', h⟩
    · rcases mem_pairs_combine _ _ _ _ h with h | h
      · exact .inl h
      · exact .inr ⟨f, by simp, h⟩
    · exact .inr ⟨f', by simp [hf'], h⟩

theorem mem_keys_foldl_combine (v : Nat) (g : Axis → Nat × Coeffs) : ∀ (fs : List Axis) (acc : Nat × Coeffs),
    v ∈ C07eL.keys (fs.foldl (fun acc f => combine acc f.numel (g f)) acc).2 ↔
      v ∈ C07eL.keys acc.2 ∨ ∃ f ∈ fs, v ∈ C07eL.keys (g f).2
  | [], acc => by simp
  | f :: fs, acc => by
    rw [List.foldl_cons, mem_keys_foldl_combine v g fs, C06iL.mem_keys_combine]
    simp only [List.mem_cons, exists_eq_or_imp]
    tauto

/-- the axes of `e.stride(subst)` are free axes of `e.clone(subst)` -/
theorem mem_pairs_strideS (σ : Subst) (q : Nat × Nat) : ∀ (fuel : Nat) (e : Axis),
    q ∈ pairs (strideS σ fuel e).2 → q ∈ (clone σ fuel e).fv
  | 0, e, h => by
    rw [strideS] at h
    rw [clone]
    exact mem_pairs_strideC q e h
  | fuel+1, .phys v n, h => by
    cases hb : bound σ v with
    | some a =>
      rw [strideS, hb] at h
      rw [clone, hb]
      exact mem_pairs_strideS σ q fuel a h
    | none =>
      rw [strideS, hb] at h
      rw [clone, hb]
      simpa [pairs, Axis.fv] using h
  | fuel+1, .prod fs, h => by
    rw [strideS] at h
    rw [clone, mem_fv_productAxis]
    rcases mem_pairs_foldl_combine q (strideS σ fuel) fs (0, []) h with h | ⟨f, hf, h⟩
    · simp [pairs] at h
    · exact ⟨_, List.mem_map_of_mem hf, mem_pairs_strideS σ q fuel f h⟩
  | fuel+1, .sum b t a, h => by
    rw [strideS] at h
    rw [clone]
    simp only [Axis.fv]
    exact mem_pairs_strideS σ q fuel t h

/-- … and their identities are exactly those of the free axes of the clone -/
theorem mem_keys_strideS (σ : Subst) (v : Nat) : ∀ (fuel : Nat) (e : Axis),
    v ∈ C07eL.keys (strideS σ fuel e).2 ↔ v ∈ (clone σ fuel e).fv.map (·.1)
  | 0, e => by
    rw [strideS, clone]
    exact C06iL.mem_keys_strideC v e
  | fuel+1, .phys w n => by
    cases hb : bound σ w with
    | some a =>
      rw [strideS, clone, hb]
      exact mem_keys_strideS σ v fuel a
    | none =>
      rw [strideS, clone, hb]
      simp [C07eL.keys, Axis.fv]
  | fuel+1, .prod fs => by
    rw [strideS, clone, mem_keys_foldl_combine]
    simp only [List.mem_map]
    constructor
    · rintro (h | ⟨f, hf, h⟩)
      · simp [C07eL.keys] at h
      obtain ⟨q, hq, rfl⟩ := List.mem_map.1 ((mem_keys_strideS σ _ fuel f).1 h)
      exact ⟨q, (mem_fv_productAxis _).2 ⟨_, List.mem_map_of_mem hf, hq⟩, rfl⟩
    · rintro ⟨q, hq, rfl⟩
      obtain ⟨f', hf', hq'⟩ := (mem_fv_productAxis _).1 hq
      obtain ⟨f, hf, rfl⟩ := List.mem_map.1 hf'
      exact .inr ⟨f, hf, (mem_keys_strideS σ _ fuel f).2 (List.mem_map_of_mem hq')⟩
  | fuel+1, .sum b t a => by
    rw [strideS, clone]
    simp only [Axis.fv]
    exact mem_keys_strideS σ v fuel t

theorem mem_pairs_projFold (σ : Subst) (q : Nat × Nat) : ∀ (l : List (Axis × Nat)) (acc : Nat × Coeffs),
    q ∈ pairs (l.foldl (fun (acc : Nat × Coeffs) (p : Axis × Nat) =>
        let r := strideS σ FUEL p.1
        (acc.1 + r.1 * p.2, r.2.foldl (fun s q => Sd.addCoeff s q.1 (q.2 * p.2)) acc.2)) acc).2
      → q ∈ pairs acc.2 ∨ ∃ p ∈ l, q ∈ pairs (strideS σ FUEL p.1).2
  | [], acc, h => .inl h
  | p :: l, acc, h => by
    rw [List.foldl_cons] at h
    rcases mem_pairs_projFold σ q l _ h with h | ⟨p', hp', h⟩
    · simp only at h
      rcases mem_pairs_foldl_addCoeff (fun x => x.2 * p.2) q _ _ h with h | h
      · exact .inl h
      · exact .inr ⟨p, by simp, h⟩
    · exact .inr ⟨p', by simp [hp'], h⟩

/-- the vaxes `project` is applied to: the physical axes of the operand as axes -/
def physL (F : List (Nat × Nat)) : List Axis := F.map (fun k => Axis.phys k.1 k.2)

theorem projected_snd (T : PT) (σ : Subst) :
    (projected T σ).2 = pairs (projectForm (contiguous (T.paxes.map (·.2))) (physL T.paxes) σ).2 := rfl

theorem zip_physL_fst (L : List (Nat × Nat)) :
    ((physL L).zip (contiguous (L.map (·.2))).strides).map Prod.fst = physL L := by
  apply List.map_fst_zip
  simp [contiguous, C06iL.length_contiguousStrides, physL]

/-- the axes of `projected T σ`: free axes of the clones of `T`'s physical axes -/
theorem projAxes_sub (T : PT) (σ : Subst) {q : Nat × Nat} (h : q ∈ (projected T σ).2) :
    ∃ k ∈ T.paxes, q ∈ (clone σ FUEL (.phys k.1 k.2)).fv := by
  rw [projected_snd] at h
  unfold projectForm at h
  rcases mem_pairs_projFold σ q _ _ h with h | ⟨p, hp, h⟩
  · simp [pairs] at h
  · have : p.1 ∈ physL T.paxes := by
      rw [← zip_physL_fst T.paxes]; exact List.mem_map_of_mem hp
    obtain ⟨k, hk, hk'⟩ := List.mem_map.1 this
    refine ⟨k, hk, ?_⟩
    rw [hk']
    exact mem_pairs_strideS σ q FUEL p.1 h

theorem projAxes_ids (T : PT) (σ : Subst) {k q : Nat × Nat} (hk : k ∈ T.paxes)
    (h : q ∈ (clone σ FUEL (.phys k.1 k.2)).fv) : q.1 ∈ (projected T σ).2.map (·.1) := by
  rw [projected_snd, ← keys_eq_pairs]
  unfold projectForm
  rw [C06iL.mem_keys_projFold]
  right
  have hm : Axis.phys k.1 k.2 ∈ physL T.paxes := List.mem_map.2 ⟨k, hk, rfl⟩
  rw [← zip_physL_fst T.paxes] at hm
  obtain ⟨p, hp, hp'⟩ := List.mem_map.1 hm
  refine ⟨p, hp, ?_⟩
  rw [hp']
  exact (mem_keys_strideS σ q.1 FUEL _).2 (List.mem_map_of_mem h)

/-- under a size function the axes of `projected` are exactly the free axes of the clones -/
theorem mem_projAxes (T : PT) (σ : Subst) (sz : Nat → Nat)
    (hsz : ∀ k ∈ T.paxes, ∀ q ∈ (clone σ FUEL (.phys k.1 k.2)).fv, q.2 = sz q.1) (q : Nat × Nat) :
    q ∈ (projected T σ).2 ↔ ∃ k ∈ T.paxes, q ∈ (clone σ FUEL (.phys k.1 k.2)).fv := by
  constructor
  · exact projAxes_sub T σ
  · rintro ⟨k, hk, h⟩
    obtain ⟨q', hq', e⟩ := List.mem_map.1 (projAxes_ids T σ hk h)
    obtain ⟨k', hk', h'⟩ := projAxes_sub T σ hq'
    have : q' = q := Prod.ext e (by rw [hsz k' hk' q' h', hsz k hk q h, e])
    rw [← this]; exact hq'

theorem projAxes_nodup (T : PT) (σ : Subst) : ((projected T σ).2.map (·.1)).Nodup :=
  (C07e.project_axes (contiguous (T.paxes.map (fun x : Nat × Nat => x.2))) (physL T.paxes) σ).1

theorem projected_length (T : PT) (σ : Subst) :
    (projected T σ).1.length = numel ((projected T σ).2.map (·.2)) := by
  unfold projected
  simp only [List.length_map]
  exact length_assigns _

/-- **what `projected` reads** at the index tuple of an assignment of its axes -/
theorem projected_elem (T : PT) (σ : Subst) (hσ : NumelOkS σ) (hk : ∀ k ∈ T.paxes, NumelOk σ (.phys k.1 k.2))
    (γ : Nat → Nat) (hγ : ∀ q ∈ (projected T σ).2, γ q.1 < q.2) :
    (projected T σ).1[flat ((projected T σ).2.map (·.2)) (pidx (projected T σ).2 γ)]? =
      some (T.physical[flat (T.paxes.map (·.2))
        (T.paxes.map (fun k => (clone σ FUEL (.phys k.1 k.2)).eval γ))]?.getD T.default) := by
  have hm := pidx_mem_assigns γ (projected T σ).2 hγ
  have ha := C07e.project_addr (contiguous (T.paxes.map (·.2))) (physL T.paxes) σ γ
  have hidx : (physL T.paxes).map (evalS σ γ FUEL) = T.paxes.map (fun k => (clone σ FUEL (.phys k.1 k.2)).eval γ) := by
    unfold physL
    rw [List.map_map]
    apply List.map_congr_left
    intro k hk'
    exact C07e.evalS_eq_clone_eval σ hσ γ FUEL _ (hk k hk')
  have hc : (contiguous (T.paxes.map (·.2))).addr ((physL T.paxes).map (evalS σ γ FUEL)) =
      flat (T.paxes.map (·.2)) ((physL T.paxes).map (evalS σ γ FUEL)) := by
    unfold View.addr contiguous
    simp only
    rw [C06iL.addr_contiguous]; simp
  rw [hc, hidx] at ha
  show ((assigns ((projected T σ).2.map (·.2))).map (fun idx => T.physical[(project (contiguous (T.paxes.map (·.2)))
      (T.paxes.map (fun k => Axis.phys k.1 k.2)) σ).1.addr idx]?.getD T.default))[_]? = _
  rw [List.getElem?_map, getElem_flat hm]
  simp only [Option.map_some]
  have ha' : (project (contiguous (T.paxes.map (·.2))) (T.paxes.map (fun k => Axis.phys k.1 k.2)) σ).1.addr
      (pidx (projected T σ).2 γ) = flat (T.paxes.map (·.2))
        (T.paxes.map (fun k => (clone σ FUEL (.phys k.1 k.2)).eval γ)) := ha
  rw [ha']

end C09dL
