/-
Helper lemmas for Props/C06h.lean, part 2: `Sh.any`.

The virtual axes are split as `A ++ ed :: B` (`ed` the reduced dimension).  `ksOf A ed B` are the physical axes that
occur only in `ed`; they are summed out.  `anyR` is the result of the model; `any_cell` describes its cells.
-/
import FggsModel.ShapeOps
import FggsProofs.C06hExpandLemmas
import Mathlib.Data.List.Nodup
import Mathlib.Data.List.Perm.Subperm
import Mathlib.Data.List.Forall2

set_option linter.unusedSimpArgs false
set_option linter.unusedVariables false

namespace C06hL
open Fggs Fggs.Ax Fggs.Un Fggs.Sh Fggs.Bn C06b C06dL

/-! ### list facts -/

/-- (copy of `C07bL.nodup_eraseDups`) -/
theorem nodup_eraseDups {α : Type} [BEq α] [LawfulBEq α] : ∀ (l : List α), l.eraseDups.Nodup := by
  intro l
  induction h : l.length using Nat.strong_induction_on generalizing l with
  | _ n ih =>
    cases l with
    | nil => simp
    | cons a as =>
      rw [List.eraseDups_cons, List.nodup_cons]
      refine ⟨?_, ?_⟩
      · rw [List.mem_eraseDups, List.mem_filter]
        simp
      · refine ih (as.filter (fun b => !b == a)).length ?_ _ rfl
        rw [← h, List.length_cons]
        exact Nat.lt_succ_of_le (List.length_filter_le _ _)

/-- pigeonhole: a short list misses an element of `range n` -/
theorem exists_lt_not_mem (l : List Nat) (n : Nat) (h : l.length < n) : ∃ j, j < n ∧ j ∉ l := by
  by_contra hc
  have hall : ∀ j, j < n → j ∈ l := by
    intro j hj
    by_contra hm
    exact hc ⟨j, hj, hm⟩
  have hsub : List.range n ⊆ l := fun j hj => hall j (List.mem_range.1 hj)
  have := (List.Nodup.subperm List.nodup_range hsub).length_le
  simp at this
  omega

/-- a duplicate-free list of at least `n` numbers below `n` contains every number below `n` -/
theorem mem_of_nodup_lt (l : List Nat) (n : Nat) (hn : l.Nodup) (hlt : ∀ x ∈ l, x < n) (hlen : n ≤ l.length)
    {j : Nat} (hj : j < n) : j ∈ l := by
  have hsub : l ⊆ List.range n := fun x hx => List.mem_range.2 (hlt x hx)
  have hp := (hn.subperm hsub).perm_of_length_le (by simpa using hlen)
  exact hp.mem_iff.2 (List.mem_range.2 hj)

theorem forall₂_app {α β : Type} {R : α → β → Prop} {a : List α} {b : List β} {c : List α} {d : List β}
    (h1 : List.Forall₂ R a b) (h2 : List.Forall₂ R c d) : List.Forall₂ R (a ++ c) (b ++ d) := by
  induction h1 with
  | nil => exact h2
  | cons h _ ih => exact List.Forall₂.cons h ih

theorem truthy_boolExt (b : Bool) : truthy (boolExt b) = b := by
  cases b <;> simp [truthy, boolExt]

theorem backs_congr {T : PT} {c : List Nat} {ρ ρ' : Nat → Nat} (hs : Sem T) (h : ∀ p ∈ T.paxes, ρ p.1 = ρ' p.1)
    (hb : Backs T c ρ) : Backs T c ρ' := by
  refine ⟨fun p hp => by rw [← h p hp]; exact hb.1 p hp, ?_⟩
  rw [← hb.2]
  apply List.map_congr_left
  intro e he
  apply eval_congr
  intro q hq
  exact (h q (hs.fvsub e he q hq)).symm

/-! ### the result of `any` -/

/-- the physical axes of the other dimensions -/
def oth (A B : List Axis) : List (Nat × Nat) := (A ++ B).flatMap Axis.fv

/-- the physical axes that occur only in the reduced dimension -/
def ksOf (A : List Axis) (ed : Axis) (B : List Axis) : List (Nat × Nat) :=
  ed.fv.eraseDups.filter (fun k => !(oth A B).any (·.1 == k.1))

def paxOf (t : PT) (ks : List (Nat × Nat)) : List (Nat × Nat) := t.paxes.filter (fun k => !ks.any (·.1 == k.1))

/-- `ρ'` on the summed axes, `ρ` elsewhere -/
def comb (ks : List (Nat × Nat)) (ρ ρ' : Nat → Nat) : Nat → Nat := fun v => if ks.any (·.1 == v) then ρ' v else ρ v

def vaxOf (keep : Bool) (A B : List Axis) : List Axis := if keep then A ++ unitAxis :: B else A ++ B

/-- the physical element selected by an assignment -/
def tphys (t : PT) (σ : Nat → Nat) : Ext := t.physical[flat (t.paxes.map (·.2)) (pidx t.paxes σ)]?.getD t.default

def physOf (t : PT) (ed : Axis) (ks : List (Nat × Nat)) : List Ext :=
  if truthy t.default && ed.numel > numel (ks.map (·.2)) then
    List.replicate (numel ((paxOf t ks).map (·.2))) (Ext.fin 1)
  else
    (assigns ((paxOf t ks).map (·.2))).map (fun idx =>
      boolExt ((assigns (ks.map (·.2))).any (fun jdx =>
        truthy (tphys t (comb ks (envOf (paxOf t ks) idx) (envOf ks jdx))))))

def anyR (t : PT) (A : List Axis) (ed : Axis) (B : List Axis) (keep : Bool) : PT :=
  { physical := physOf t ed (ksOf A ed B), paxes := paxOf t (ksOf A ed B), vaxes := vaxOf keep A B,
    default := boolExt (truthy t.default && ed.numel > 0) }

theorem any_eq (t : PT) (A : List Axis) (ed : Axis) (B : List Axis) (keep : Bool) (h : t.vaxes = A ++ ed :: B) :
    Sh.any t A.length keep = some (anyR t A ed B keep) := by
  unfold Sh.any
  have h1 : t.vaxes[A.length]? = some ed := by rw [h]; simp
  rw [h1]
  simp only
  have hv : (if keep = true then t.vaxes.set A.length unitAxis else t.vaxes.eraseIdx A.length) = vaxOf keep A B := by
    unfold vaxOf; rw [h]
    cases keep with
    | true => simp
    | false =>
      simp only [Bool.false_eq_true, if_false]
      rw [List.eraseIdx_append_of_length_le (Nat.le_refl _)]
      simp
  rw [hv]
  have ho : (vaxOf keep A B).flatMap Axis.fv = oth A B := by
    unfold vaxOf oth; cases keep <;> simp [unitAxis_fv]
  rw [ho]
  rfl

structure AnyCtx (t : PT) (A : List Axis) (ed : Axis) (B : List Axis) : Prop where
  st : Struct t
  split : t.vaxes = A ++ ed :: B

section any
variable {t : PT} {A : List Axis} {ed : Axis} {B : List Axis}

theorem AnyCtx.memAB (c : AnyCtx t A ed B) {e : Axis} (he : e ∈ A ∨ e ∈ B) : e ∈ t.vaxes := by
  rw [c.split]
  rcases he with he | he <;> simp [he]

theorem AnyCtx.mem_ed (c : AnyCtx t A ed B) : ed ∈ t.vaxes := by
  rw [c.split]; simp

theorem mem_oth {q : Nat × Nat} : q ∈ oth A B ↔ ∃ e, (e ∈ A ∨ e ∈ B) ∧ q ∈ e.fv := by
  unfold oth
  simp only [List.mem_flatMap, List.mem_append]

theorem ks_sub_fv {k : Nat × Nat} (hk : k ∈ ksOf A ed B) : k ∈ ed.fv :=
  List.mem_eraseDups.1 (List.mem_filter.1 hk).1

theorem AnyCtx.ks_sub (c : AnyCtx t A ed B) {k : Nat × Nat} (hk : k ∈ ksOf A ed B) : k ∈ t.paxes :=
  c.st.fvsub ed c.mem_ed k (ks_sub_fv hk)

theorem ks_not_oth {k : Nat × Nat} (hk : k ∈ ksOf A ed B) {q : Nat × Nat} (hq : q ∈ oth A B) : q.1 ≠ k.1 := by
  have := (List.mem_filter.1 hk).2
  simp only [Bool.not_eq_true', List.any_eq_false, beq_iff_eq] at this
  exact this q hq

theorem AnyCtx.ks_nodup (c : AnyCtx t A ed B) : ((ksOf A ed B).map (·.1)).Nodup := by
  refine List.Nodup.map_on ?_ ((nodup_eraseDups _).filter _)
  intro x hx y hy e
  exact eq_of_mem_nodup_fst c.st.nodup (c.ks_sub hx) (c.ks_sub hy) e

theorem AnyCtx.inKs_iff (c : AnyCtx t A ed B) {p : Nat × Nat} (hp : p ∈ t.paxes) :
    (ksOf A ed B).any (·.1 == p.1) = true ↔ p ∈ ksOf A ed B := by
  rw [List.any_eq_true]
  constructor
  · rintro ⟨k, hk, he⟩
    have : k = p := eq_of_mem_nodup_fst c.st.nodup (c.ks_sub hk) hp (by simpa using he)
    rw [← this]; exact hk
  · intro h
    exact ⟨p, h, by simp⟩

theorem AnyCtx.mem_pax (c : AnyCtx t A ed B) {p : Nat × Nat} :
    p ∈ paxOf t (ksOf A ed B) ↔ p ∈ t.paxes ∧ p ∉ ksOf A ed B := by
  unfold paxOf
  rw [List.mem_filter]
  constructor
  · rintro ⟨h1, h2⟩
    refine ⟨h1, fun hk => ?_⟩
    rw [(c.inKs_iff h1).2 hk] at h2
    cases h2
  · rintro ⟨h1, h2⟩
    refine ⟨h1, ?_⟩
    cases hb : (ksOf A ed B).any (·.1 == p.1) with
    | false => rfl
    | true => exact absurd ((c.inKs_iff h1).1 hb) h2

theorem AnyCtx.oth_sub_pax (c : AnyCtx t A ed B) {q : Nat × Nat} (hq : q ∈ oth A B) : q ∈ paxOf t (ksOf A ed B) := by
  rw [c.mem_pax]
  obtain ⟨e, he, hqe⟩ := mem_oth.1 hq
  exact ⟨c.st.fvsub e (c.memAB he) q hqe, fun hk => ks_not_oth hk hq rfl⟩

theorem AnyCtx.ed_fv_cases (c : AnyCtx t A ed B) {q : Nat × Nat} (hq : q ∈ ed.fv) :
    q ∈ ksOf A ed B ∨ q ∈ oth A B := by
  by_cases hk : q ∈ ksOf A ed B
  · exact Or.inl hk
  · right
    unfold ksOf at hk
    rw [List.mem_filter, List.mem_eraseDups] at hk
    have : (oth A B).any (·.1 == q.1) = true := by
      cases hb : (oth A B).any (·.1 == q.1) with
      | true => rfl
      | false => exact absurd ⟨hq, by simp [hb]⟩ hk
    obtain ⟨q', hq', he⟩ := List.any_eq_true.1 this
    have h1 := (c.mem_pax.1 (c.oth_sub_pax hq')).1
    have h2 := c.st.fvsub ed c.mem_ed q hq
    have : q' = q := eq_of_mem_nodup_fst c.st.nodup h1 h2 (by simpa using he)
    rw [← this]; exact hq'

theorem AnyCtx.pax_or_ks (c : AnyCtx t A ed B) {p : Nat × Nat} (hp : p ∈ t.paxes) :
    p ∈ ksOf A ed B ∨ p ∈ paxOf t (ksOf A ed B) := by
  by_cases hk : p ∈ ksOf A ed B
  · exact Or.inl hk
  · exact Or.inr (c.mem_pax.2 ⟨hp, hk⟩)

theorem mem_vaxOf {keep : Bool} {e : Axis} (h : e ∈ vaxOf keep A B) : (e ∈ A ∨ e ∈ B) ∨ e = unitAxis := by
  unfold vaxOf at h
  cases keep with
  | true =>
    simp only [if_true, List.mem_append, List.mem_cons] at h
    rcases h with h | h | h
    · exact Or.inl (Or.inl h)
    · exact Or.inr h
    · exact Or.inl (Or.inr h)
  | false =>
    simp only [Bool.false_eq_true, if_false, List.mem_append] at h
    exact Or.inl h

theorem vaxOf_mem {keep : Bool} {e : Axis} (h : e ∈ A ∨ e ∈ B) : e ∈ vaxOf keep A B := by
  unfold vaxOf
  cases keep <;> rcases h with h | h <;> simp [h]

theorem anyR_struct (c : AnyCtx t A ed B) (keep : Bool) : Struct (anyR t A ed B keep) where
  len := by
    show (physOf t ed (ksOf A ed B)).length = numel ((paxOf t (ksOf A ed B)).map (·.2))
    unfold physOf
    split <;> simp [length_assigns]
  nodup := List.Nodup.sublist (List.Sublist.map _ List.filter_sublist) c.st.nodup
  no1 := fun p hp => c.st.no1 p (List.mem_filter.1 hp).1
  fvsub := by
    intro e he q hq
    rcases mem_vaxOf he with he | rfl
    · exact c.oth_sub_pax (mem_oth.2 ⟨e, he, hq⟩)
    · simp [unitAxis_fv] at hq
  occ := by
    intro p hp
    have hp' := c.mem_pax.1 hp
    obtain ⟨e, he, hpe⟩ := c.st.occ p hp'.1
    have hoth : p ∈ oth A B := by
      rw [c.split] at he
      simp only [List.mem_append, List.mem_cons] at he
      rcases he with he | rfl | he
      · exact mem_oth.2 ⟨e, Or.inl he, hpe⟩
      · rcases c.ed_fv_cases hpe with h | h
        · exact absurd h hp'.2
        · exact h
      · exact mem_oth.2 ⟨e, Or.inr he, hpe⟩
    obtain ⟨e', he', hpe'⟩ := mem_oth.1 hoth
    exact ⟨e', vaxOf_mem he', hpe'⟩

theorem anyR_vshape (keep : Bool) :
    (anyR t A ed B keep).vshape = if keep then A.map Axis.numel ++ 1 :: B.map Axis.numel
      else A.map Axis.numel ++ B.map Axis.numel := by
  unfold PT.vshape anyR vaxOf
  cases keep <;> simp [unitAxis_numel]

theorem AnyCtx.vshape (c : AnyCtx t A ed B) : t.vshape = A.map Axis.numel ++ ed.numel :: B.map Axis.numel := by
  unfold PT.vshape
  rw [c.split]; simp

end any

/-! ### the cells of the result -/

def cellOf (T : PT) (c : List Nat) : Ext := T.dense[flat T.vshape c]?.getD T.default

/-- the index of the result cell -/
def crOf (keep : Bool) (iA iB : List Nat) : List Nat := if keep then iA ++ [0] ++ iB else iA ++ iB

section cells
variable {t : PT} {A : List Axis} {ed : Axis} {B : List Axis}

theorem comb_ks (c : AnyCtx t A ed B) (ρ ρ' : Nat → Nat) {k : Nat × Nat} (hk : k ∈ ksOf A ed B) :
    comb (ksOf A ed B) ρ ρ' k.1 = ρ' k.1 := by
  unfold comb
  rw [if_pos ((c.inKs_iff (c.ks_sub hk)).2 hk)]

theorem comb_pax (c : AnyCtx t A ed B) (ρ ρ' : Nat → Nat) {p : Nat × Nat} (hp : p ∈ paxOf t (ksOf A ed B)) :
    comb (ksOf A ed B) ρ ρ' p.1 = ρ p.1 := by
  have hp' := c.mem_pax.1 hp
  unfold comb
  rw [if_neg]
  intro h
  exact hp'.2 ((c.inKs_iff hp'.1).1 h)

theorem evalAB_congr (c : AnyCtx t A ed B) {ρ σ : Nat → Nat} (h : ∀ p ∈ paxOf t (ksOf A ed B), ρ p.1 = σ p.1) :
    A.map (Axis.eval ρ) = A.map (Axis.eval σ) ∧ B.map (Axis.eval ρ) = B.map (Axis.eval σ) := by
  constructor
  · apply List.map_congr_left
    intro e he
    apply eval_congr
    intro q hq
    exact h q (c.oth_sub_pax (mem_oth.2 ⟨e, Or.inl he, hq⟩))
  · apply List.map_congr_left
    intro e he
    apply eval_congr
    intro q hq
    exact h q (c.oth_sub_pax (mem_oth.2 ⟨e, Or.inr he, hq⟩))

theorem backs_r_iff (keep : Bool) (iA iB : List Nat) (hlen : iA.length = A.length) (ρ : Nat → Nat) :
    Backs (anyR t A ed B keep) (crOf keep iA iB) ρ ↔
      (∀ p ∈ paxOf t (ksOf A ed B), ρ p.1 < p.2) ∧ A.map (Axis.eval ρ) = iA ∧ B.map (Axis.eval ρ) = iB := by
  unfold Backs
  show (∀ p ∈ paxOf t (ksOf A ed B), ρ p.1 < p.2) ∧ (vaxOf keep A B).map (Axis.eval ρ) = _ ↔ _
  refine and_congr_right fun _ => ?_
  unfold vaxOf crOf
  cases keep with
  | true =>
    simp only [if_true, List.map_append, List.map_cons, unitAxis_eval, List.append_assoc, List.singleton_append]
    constructor
    · intro h
      obtain ⟨h1, h2⟩ := List.append_inj h (by simp [hlen])
      exact ⟨h1, by simpa using h2⟩
    · rintro ⟨h1, h2⟩
      rw [h1, h2]
  | false =>
    simp only [Bool.false_eq_true, if_false, List.map_append]
    constructor
    · intro h
      exact List.append_inj h (by simp [hlen])
    · rintro ⟨h1, h2⟩
      rw [h1, h2]

theorem backs_t_iff (c : AnyCtx t A ed B) (iA iB : List Nat) (hlen : iA.length = A.length) (j : Nat) (σ : Nat → Nat) :
    Backs t (iA ++ [j] ++ iB) σ ↔
      (∀ p ∈ t.paxes, σ p.1 < p.2) ∧ A.map (Axis.eval σ) = iA ∧ ed.eval σ = j ∧ B.map (Axis.eval σ) = iB := by
  unfold Backs
  refine and_congr_right fun _ => ?_
  rw [c.split]
  simp only [List.map_append, List.map_cons, List.append_assoc, List.singleton_append]
  constructor
  · intro h
    obtain ⟨h1, h2⟩ := List.append_inj h (by simp [hlen])
    simp only [List.cons.injEq] at h2
    exact ⟨h1, h2.1, h2.2⟩
  · rintro ⟨h1, h2, h3⟩
    rw [h1, h2, h3]

/-- a backing assignment of a cell of the operand backs the result cell -/
theorem restrict_backs (c : AnyCtx t A ed B) (keep : Bool) {iA iB : List Nat} (hlen : iA.length = A.length) {j : Nat}
    {σ : Nat → Nat} (h : Backs t (iA ++ [j] ++ iB) σ) : Backs (anyR t A ed B keep) (crOf keep iA iB) σ := by
  obtain ⟨h1, h2, _, h4⟩ := (backs_t_iff c iA iB hlen j σ).1 h
  exact (backs_r_iff keep iA iB hlen σ).2 ⟨fun p hp => h1 p (c.mem_pax.1 hp).1, h2, h4⟩

/-- a backing assignment `ρ` of the result cell -/
structure BackCtx (t : PT) (A : List Axis) (ed : Axis) (B : List Axis) (keep : Bool) (iA iB : List Nat)
    (ρ : Nat → Nat) : Prop where
  c : AnyCtx t A ed B
  hlen : iA.length = A.length
  hb : Backs (anyR t A ed B keep) (crOf keep iA iB) ρ

variable {keep : Bool} {iA iB : List Nat} {ρ : Nat → Nat}

theorem BackCtx.hρ (x : BackCtx t A ed B keep iA iB ρ) : ∀ p ∈ paxOf t (ksOf A ed B), ρ p.1 < p.2 :=
  ((backs_r_iff keep iA iB x.hlen ρ).1 x.hb).1
theorem BackCtx.hA (x : BackCtx t A ed B keep iA iB ρ) : A.map (Axis.eval ρ) = iA :=
  ((backs_r_iff keep iA iB x.hlen ρ).1 x.hb).2.1
theorem BackCtx.hB (x : BackCtx t A ed B keep iA iB ρ) : B.map (Axis.eval ρ) = iB :=
  ((backs_r_iff keep iA iB x.hlen ρ).1 x.hb).2.2

/-- backing assignments of the operand's cells along the dimension agree with `ρ` on the remaining axes -/
theorem BackCtx.agree (x : BackCtx t A ed B keep iA iB ρ) {j : Nat} {σ : Nat → Nat}
    (h : Backs t (iA ++ [j] ++ iB) σ) : ∀ p ∈ paxOf t (ksOf A ed B), ρ p.1 = σ p.1 := by
  have hr := restrict_backs x.c keep x.hlen h
  exact (anyR_struct x.c keep).sem.inj ρ σ x.hb.1 hr.1 (x.hb.2.trans hr.2.symm)

theorem BackCtx.comb_range (x : BackCtx t A ed B keep iA iB ρ) {jdx : List Nat}
    (hj : jdx ∈ assigns ((ksOf A ed B).map (·.2))) :
    ∀ p ∈ t.paxes, comb (ksOf A ed B) ρ (envOf (ksOf A ed B) jdx) p.1 < p.2 := by
  intro p hp
  rcases x.c.pax_or_ks hp with hk | hk
  · rw [comb_ks x.c _ _ hk]
    exact envOf_inRange _ jdx x.c.ks_nodup ((mem_assigns_iff _ _).1 hj) p hk
  · rw [comb_pax x.c _ _ hk]
    exact x.hρ p hk

theorem BackCtx.comb_backs (x : BackCtx t A ed B keep iA iB ρ) {jdx : List Nat}
    (hj : jdx ∈ assigns ((ksOf A ed B).map (·.2))) :
    Backs t (iA ++ [ed.eval (comb (ksOf A ed B) ρ (envOf (ksOf A ed B) jdx))] ++ iB)
      (comb (ksOf A ed B) ρ (envOf (ksOf A ed B) jdx)) := by
  have hag := evalAB_congr x.c (ρ := comb (ksOf A ed B) ρ (envOf (ksOf A ed B) jdx)) (σ := ρ)
    (fun p hp => comb_pax x.c _ _ hp)
  exact (backs_t_iff x.c iA iB x.hlen _ _).2 ⟨x.comb_range hj, hag.1.trans x.hA, rfl, hag.2.trans x.hB⟩

/-- a backing assignment of a cell along the dimension is `ρ` combined with its own values on the summed axes -/
theorem BackCtx.reconstruct (x : BackCtx t A ed B keep iA iB ρ) {j : Nat} {σ : Nat → Nat}
    (h : Backs t (iA ++ [j] ++ iB) σ) :
    pidx (ksOf A ed B) σ ∈ assigns ((ksOf A ed B).map (·.2)) ∧
      ∀ p ∈ t.paxes, comb (ksOf A ed B) ρ (envOf (ksOf A ed B) (pidx (ksOf A ed B) σ)) p.1 = σ p.1 := by
  refine ⟨pidx_mem_assigns σ _ (fun k hk => h.1 k (x.c.ks_sub hk)), ?_⟩
  intro p hp
  rcases x.c.pax_or_ks hp with hk | hk
  · rw [comb_ks x.c _ _ hk]
    exact envOf_pidx σ _ p.1 (List.mem_map_of_mem (f := (·.1)) hk)
  · rw [comb_pax x.c _ _ hk]
    exact x.agree h p hk

/-- the indices along the dimension of the cells backed over `ρ` -/
def Jof (ed : Axis) (ks : List (Nat × Nat)) (ρ : Nat → Nat) : List Nat :=
  (assigns (ks.map (·.2))).map (fun jdx => ed.eval (comb ks ρ (envOf ks jdx)))

theorem length_Jof (ks : List (Nat × Nat)) (ρ : Nat → Nat) : (Jof ed ks ρ).length = numel (ks.map (·.2)) := by
  unfold Jof
  rw [List.length_map, length_assigns]

theorem BackCtx.comb_inRange_ed (x : BackCtx t A ed B keep iA iB ρ) {jdx : List Nat}
    (hj : jdx ∈ assigns ((ksOf A ed B).map (·.2))) :
    InRange (comb (ksOf A ed B) ρ (envOf (ksOf A ed B) jdx)) ed :=
  fun q hq => x.comb_range hj q (x.c.st.fvsub ed x.c.mem_ed q hq)

theorem BackCtx.J_lt (x : BackCtx t A ed B keep iA iB ρ) : ∀ j ∈ Jof ed (ksOf A ed B) ρ, j < ed.numel := by
  intro j hj
  obtain ⟨jdx, hjdx, rfl⟩ := List.mem_map.1 hj
  exact (x.comb_inRange_ed hjdx).lt

theorem BackCtx.J_backed (x : BackCtx t A ed B keep iA iB ρ) {j : Nat} (hj : j ∈ Jof ed (ksOf A ed B) ρ) :
    ∃ σ, Backs t (iA ++ [j] ++ iB) σ := by
  obtain ⟨jdx, hjdx, rfl⟩ := List.mem_map.1 hj
  exact ⟨_, x.comb_backs hjdx⟩

theorem BackCtx.J_complete (x : BackCtx t A ed B keep iA iB ρ) {j : Nat} {σ : Nat → Nat}
    (h : Backs t (iA ++ [j] ++ iB) σ) : j ∈ Jof ed (ksOf A ed B) ρ := by
  obtain ⟨hm, hag⟩ := x.reconstruct h
  refine List.mem_map.2 ⟨_, hm, ?_⟩
  rw [← ((backs_t_iff x.c iA iB x.hlen j σ).1 h).2.2.1]
  apply eval_congr
  intro q hq
  exact hag q (x.c.st.fvsub ed x.c.mem_ed q hq)

theorem BackCtx.J_nodup (x : BackCtx t A ed B keep iA iB ρ) : (Jof ed (ksOf A ed B) ρ).Nodup := by
  unfold Jof
  refine List.Nodup.map_on ?_ (nodup_assigns _)
  intro j1 h1 j2 h2 he
  have hag := eval_inj _ _ ed (x.comb_inRange_ed h1) (x.comb_inRange_ed h2) he
  have l1 : j1.length = (ksOf A ed B).length := by rw [mem_assigns_length h1, List.length_map]
  have l2 : j2.length = (ksOf A ed B).length := by rw [mem_assigns_length h2, List.length_map]
  rw [← pidx_envOf _ j1 x.c.ks_nodup l1, ← pidx_envOf _ j2 x.c.ks_nodup l2]
  apply pidx_congr
  intro k hk
  have := hag k (ks_sub_fv hk)
  rwa [comb_ks x.c _ _ hk, comb_ks x.c _ _ hk] at this

/-- the value of a backed cell along the dimension -/
theorem BackCtx.cell_comb (x : BackCtx t A ed B keep iA iB ρ) {jdx : List Nat}
    (hj : jdx ∈ assigns ((ksOf A ed B).map (·.2))) :
    cellOf t (iA ++ [ed.eval (comb (ksOf A ed B) ρ (envOf (ksOf A ed B) jdx))] ++ iB) =
      tphys t (comb (ksOf A ed B) ρ (envOf (ksOf A ed B) jdx)) := by
  unfold cellOf tphys
  exact cell_backed x.c.st.sem (x.comb_backs hj)

/-- **many cells, true default**: some cell along the dimension is unbacked -/
theorem BackCtx.big (x : BackCtx t A ed B keep iA iB ρ) (hd : truthy t.default = true)
    (hgt : numel ((ksOf A ed B).map (·.2)) < ed.numel)
    (hct : ∀ j, j < ed.numel → iA ++ [j] ++ iB ∈ assigns t.vshape) :
    (List.range ed.numel).any (fun j => truthy (cellOf t (iA ++ [j] ++ iB))) = true := by
  obtain ⟨j, hj, hnot⟩ := exists_lt_not_mem (Jof ed (ksOf A ed B) ρ) ed.numel (by rw [length_Jof]; exact hgt)
  rw [List.any_eq_true]
  refine ⟨j, List.mem_range.2 hj, ?_⟩
  unfold cellOf
  rw [cell_unbacked x.c.st.sem (hct j hj) (fun σ hσ => hnot (x.J_complete hσ))]
  exact hd

/-- **the summed-out cells** -/
theorem BackCtx.small (x : BackCtx t A ed B keep iA iB ρ)
    (hsmall : truthy t.default = true → ed.numel ≤ numel ((ksOf A ed B).map (·.2)))
    (hct : ∀ j, j < ed.numel → iA ++ [j] ++ iB ∈ assigns t.vshape) :
    (assigns ((ksOf A ed B).map (·.2))).any (fun jdx =>
        truthy (tphys t (comb (ksOf A ed B) ρ (envOf (ksOf A ed B) jdx)))) =
      (List.range ed.numel).any (fun j => truthy (cellOf t (iA ++ [j] ++ iB))) := by
  rw [Bool.eq_iff_iff, List.any_eq_true, List.any_eq_true]
  constructor
  · rintro ⟨jdx, hjdx, htr⟩
    refine ⟨_, List.mem_range.2 (x.comb_inRange_ed hjdx).lt, ?_⟩
    rw [x.cell_comb hjdx]; exact htr
  · rintro ⟨j, hj, htr⟩
    rw [List.mem_range] at hj
    by_cases hb : ∃ σ, Backs t (iA ++ [j] ++ iB) σ
    · obtain ⟨σ, hσ⟩ := hb
      obtain ⟨hm, hag⟩ := x.reconstruct hσ
      refine ⟨_, hm, ?_⟩
      have : tphys t (comb (ksOf A ed B) ρ (envOf (ksOf A ed B) (pidx (ksOf A ed B) σ))) = tphys t σ := by
        unfold tphys
        rw [pidx_congr hag]
      rw [this]
      unfold cellOf at htr
      rw [cell_backed x.c.st.sem hσ] at htr
      exact htr
    · exfalso
      have hn : ∀ σ, ¬ Backs t (iA ++ [j] ++ iB) σ := fun σ hσ => hb ⟨σ, hσ⟩
      unfold cellOf at htr
      rw [cell_unbacked x.c.st.sem (hct j hj) hn] at htr
      have hle := hsmall htr
      have hmem := mem_of_nodup_lt _ ed.numel x.J_nodup x.J_lt (by rw [length_Jof]; exact hle) hj
      obtain ⟨σ, hσ⟩ := x.J_backed hmem
      exact hn σ hσ

/-- **`any` along a dimension** -/
theorem any_cell (c : AnyCtx t A ed B) (keep : Bool)
    (iA iB : List Nat) (hA : List.Forall₂ (· < ·) iA (A.map Axis.numel))
    (hB : List.Forall₂ (· < ·) iB (B.map Axis.numel)) :
    truthy (cellOf (anyR t A ed B keep) (crOf keep iA iB)) =
      (List.range ed.numel).any (fun j => truthy (cellOf t (iA ++ [j] ++ iB))) := by
  have hlen : iA.length = A.length := by simpa using hA.length_eq
  have hsr : Sem (anyR t A ed B keep) := (anyR_struct c keep).sem
  have hcr : crOf keep iA iB ∈ assigns (anyR t A ed B keep).vshape := by
    rw [mem_assigns_iff, anyR_vshape]
    unfold crOf
    cases keep with
    | true =>
      simp only [if_true, List.append_assoc, List.singleton_append]
      exact forall₂_app hA (List.Forall₂.cons (by omega) hB)
    | false =>
      simp only [Bool.false_eq_true, if_false]
      exact forall₂_app hA hB
  have hct : ∀ j, j < ed.numel → iA ++ [j] ++ iB ∈ assigns t.vshape := by
    intro j hj
    rw [mem_assigns_iff, c.vshape]
    simp only [List.append_assoc, List.singleton_append]
    exact forall₂_app hA (List.Forall₂.cons hj hB)
  by_cases hb : ∃ ρ, Backs (anyR t A ed B keep) (crOf keep iA iB) ρ
  · obtain ⟨ρ0, hb0⟩ := hb
    -- the assignment read off the index tuple
    have hnd : ((paxOf t (ksOf A ed B)).map (·.1)).Nodup := (anyR_struct c keep).nodup
    have hagree : ∀ p ∈ paxOf t (ksOf A ed B),
        ρ0 p.1 = envOf (paxOf t (ksOf A ed B)) (pidx (paxOf t (ksOf A ed B)) ρ0) p.1 :=
      fun p hp => (envOf_pidx ρ0 _ p.1 (List.mem_map_of_mem (f := (·.1)) hp)).symm
    have hbρ : Backs (anyR t A ed B keep) (crOf keep iA iB)
        (envOf (paxOf t (ksOf A ed B)) (pidx (paxOf t (ksOf A ed B)) ρ0)) := backs_congr hsr hagree hb0
    have hip : pidx (paxOf t (ksOf A ed B)) (envOf (paxOf t (ksOf A ed B)) (pidx (paxOf t (ksOf A ed B)) ρ0)) =
        pidx (paxOf t (ksOf A ed B)) ρ0 := pidx_envOf _ _ hnd (by simp [pidx])
    have hipm : pidx (paxOf t (ksOf A ed B)) ρ0 ∈ assigns ((paxOf t (ksOf A ed B)).map (·.2)) :=
      pidx_mem_assigns ρ0 _ hb0.1
    have x : BackCtx t A ed B keep iA iB (envOf (paxOf t (ksOf A ed B)) (pidx (paxOf t (ksOf A ed B)) ρ0)) :=
      ⟨c, hlen, hbρ⟩
    unfold cellOf
    rw [cell_backed hsr hbρ]
    show truthy ((physOf t ed (ksOf A ed B))[flat ((paxOf t (ksOf A ed B)).map (·.2))
      (pidx (paxOf t (ksOf A ed B)) (envOf (paxOf t (ksOf A ed B)) (pidx (paxOf t (ksOf A ed B)) ρ0)))]?.getD
        (boolExt (truthy t.default && decide (ed.numel > 0)))) = _
    rw [hip]
    unfold physOf
    split
    · next hbig =>
      simp only [Bool.and_eq_true, decide_eq_true_eq] at hbig
      rw [List.getElem?_replicate, if_pos (flat_lt hipm)]
      rw [show (List.range ed.numel).any (fun j => truthy (t.dense[flat t.vshape (iA ++ [j] ++ iB)]?.getD t.default))
        = true from x.big hbig.1 hbig.2 hct]
      simp [truthy]
    · next hbig =>
      simp only [Bool.and_eq_true, decide_eq_true_eq, not_and, not_lt] at hbig
      rw [getElem?_map_assigns _ hipm]
      simp only [Option.getD_some]
      rw [truthy_boolExt]
      exact x.small hbig hct
  · have hn : ∀ ρ, ¬ Backs (anyR t A ed B keep) (crOf keep iA iB) ρ := fun ρ hρ => hb ⟨ρ, hρ⟩
    unfold cellOf
    rw [cell_unbacked hsr hcr hn]
    show truthy (boolExt (truthy t.default && decide (ed.numel > 0))) = _
    rw [truthy_boolExt]
    have hall : ∀ j, j < ed.numel → t.dense[flat t.vshape (iA ++ [j] ++ iB)]?.getD t.default = t.default := by
      intro j hj
      exact cell_unbacked c.st.sem (hct j hj) (fun σ hσ => hn σ (restrict_backs c keep hlen hσ))
    cases hd : (truthy t.default && decide (ed.numel > 0)) with
    | true =>
      simp only [Bool.and_eq_true, decide_eq_true_eq] at hd
      symm
      rw [List.any_eq_true]
      exact ⟨0, List.mem_range.2 hd.2, by rw [hall 0 hd.2]; exact hd.1⟩
    | false =>
      symm
      rw [List.any_eq_false]
      intro j hj
      have hj' := List.mem_range.1 hj
      rw [hall j hj']
      have : decide (ed.numel > 0) = true := by simp; omega
      rw [this, Bool.and_true] at hd
      rw [hd]
      simp

end cells

theorem physOf_bool (t : PT) (ed : Axis) (ks : List (Nat × Nat)) :
    ∀ x ∈ physOf t ed ks, x = Ext.fin 0 ∨ x = Ext.fin 1 := by
  intro x hx
  unfold physOf at hx
  split at hx
  · exact Or.inr (List.eq_of_mem_replicate hx)
  · obtain ⟨idx, _, rfl⟩ := List.mem_map.1 hx
    generalize (assigns (ks.map (·.2))).any _ = b
    cases b <;> simp [boolExt]

/-- the split of the virtual axes at a dimension -/
theorem split_at (t : PT) (dim : Nat) (hd : dim < t.vaxes.length) :
    t.vaxes = t.vaxes.take dim ++ t.vaxes[dim] :: t.vaxes.drop (dim + 1) := by
  rw [← List.drop_eq_getElem_cons hd, List.take_append_drop]

end C06hL
