/-
C11cLemmas — every function of the pipeline model commutes with an (injective, star-preserving) homomorphism of
semiring records: `edgeWeight`, `einsumSpec`, `Impl.sumProductEdges`, `Impl.F`, `overlay`, `compF`, `cellsOf`, `valEqOn`,
`fpGo`, `fixedPoint`, `jacTerm`, `jacLabel`, `linearParts`, `linearSystem`, `linearSolve`, and the Newton pipeline.
-/
import FggsModel.Pipeline
import FggsModel.Newton
import FggsProofs.Props.C09b
import FggsProofs.Props.C11
import Mathlib.Data.List.Basic

set_option linter.unusedSimpArgs false
set_option linter.unusedVariables false
set_option linter.unusedSectionVars false

namespace C11cL
open Fggs Fggs.Sem Fggs.Pipe Fggs.Nw C11

variable {K K' : Type}

/-! ### the mapped grammar: everything but the weights is unchanged -/

@[simp] theorem mapG_T (f : K → K') (G : Grammar K) : (mapG f G).T = G.T := rfl
@[simp] theorem mapG_nts (f : K → K') (G : Grammar K) : (mapG f G).nts = G.nts := rfl
@[simp] theorem mapG_rules (f : K → K') (G : Grammar K) : (mapG f G).rules = G.rules := rfl
@[simp] theorem mapG_labelType (f : K → K') (G : Grammar K) (l : Nat) :
    (mapG f G).labelType l = G.labelType l := rfl
@[simp] theorem mapG_shapeOf (f : K → K') (G : Grammar K) (ty : List Nat) :
    (mapG f G).shapeOf ty = G.shapeOf ty := rfl
@[simp] theorem mapG_rulesOf (f : K → K') (G : Grammar K) (X : Nat) :
    (mapG f G).rulesOf X = G.rulesOf X := rfl
@[simp] theorem mapG_weights (f : K → K') (G : Grammar K) :
    (mapG f G).weights = G.weights.map (fun w => w.map f) := rfl
@[simp] theorem mapG_sccOrder (f : K → K') (G : Grammar K) : sccOrder (mapG f G) = sccOrder G := rfl
@[simp] theorem mapG_compEdges (f : K → K') (G : Grammar K) (comp : List Nat) (r : Rule) :
    compEdges (mapG f G) comp r = compEdges G comp r := rfl
@[simp] theorem mapG_maxRhs (f : K → K') (G : Grammar K) (comp : List Nat) :
    maxRhs (mapG f G) comp = maxRhs G comp := rfl
@[simp] theorem mapG_compCells (f : K → K') (G : Grammar K) (comp : List Nat) :
    compCells (mapG f G) comp = compCells G comp := rfl

theorem mapG_zeroVal (f : K → K') (G : Grammar K) : zeroVal (mapG f G) = mapVal f (zeroVal G) := by
  simp [zeroVal, mapVal]

theorem mapVal_replicate_none (f : K → K') (n : Nat) :
    mapVal f (List.replicate n none) = List.replicate n none := by
  simp [mapVal]

theorem mapVal_get_join (f : K → K') (x : Val K) (i : Nat) :
    (mapVal f x)[i]?.join = (x[i]?.join).map (List.map f) := by
  unfold mapVal
  rw [List.getElem?_map]
  cases x[i]? with
  | none => rfl
  | some o => cases o <;> rfl

/-! ### generic list facts -/

theorem lookup_map_snd {α β γ : Type} [BEq α] (g : β → γ) (l : List (α × β)) (k : α) :
    (l.map (fun q => (q.1, g q.2))).lookup k = (l.lookup k).map g := by
  induction l with
  | nil => rfl
  | cons q l ih =>
    obtain ⟨a, b⟩ := q
    simp only [List.map_cons, List.lookup_cons]
    cases k == a <;> simp [ih]

theorem zip_filter_map_snd {α β γ : Type} (g : β → γ) (p : α → Bool) (l : List α) (s : List β) :
    ((l.zip (s.map g)).filter (fun q => p q.1)).map (·.2) =
      (((l.zip s).filter (fun q => p q.1)).map (·.2)).map g := by
  induction l generalizing s with
  | nil => simp
  | cons a l ih =>
    cases s with
    | nil => simp
    | cons b s =>
      simp only [List.map_cons, List.zip_cons_cons, List.filter_cons]
      cases p a <;> simp [ih]

section hom
variable {S : SR K} {S' : SR K'} {f : K → K'} (hf : Hom S S' f)
include hf

/-! ### copies of the private helpers of C11 -/

theorem foldl_add_hom (l : List K) (a : K) :
    f (l.foldl S.add a) = (l.map f).foldl S'.add (f a) := by
  induction l generalizing a with
  | nil => rfl
  | cons b l ih => simp only [List.foldl_cons, List.map_cons]; rw [ih, hf.add]

theorem foldl_mul_hom (l : List K) (a : K) :
    f (l.foldl S.mul a) = (l.map f).foldl S'.mul (f a) := by
  induction l generalizing a with
  | nil => rfl
  | cons b l ih => simp only [List.foldl_cons, List.map_cons]; rw [ih, hf.mul]

theorem sum_hom (l : List K) : f (S.sum l) = S'.sum (l.map f) := by
  unfold SR.sum; rw [foldl_add_hom hf, hf.zero]

theorem prod_hom (l : List K) : f (S.prod l) = S'.prod (l.map f) := by
  unfold SR.prod; rw [foldl_mul_hom hf, hf.one]

theorem ofNat_hom (n : Nat) : f (S.ofNat n) = S'.ofNat n := by
  induction n with
  | zero => exact hf.zero
  | succ n ih => simp only [SR.ofNat]; rw [hf.add, ih, hf.one]

theorem getT_hom (t : List K) (shape idx : List Nat) :
    getT S' (t.map f) shape idx = f (getT S t shape idx) := by
  unfold getT
  rw [List.getElem?_map]
  cases t[flat shape idx]? with
  | none => simp [hf.zero]
  | some a => rfl

theorem getD_hom (t : List K) (i : Nat) : (t.map f)[i]?.getD S'.zero = f (t[i]?.getD S.zero) := by
  rw [List.getElem?_map]
  cases t[i]? with
  | none => simp [hf.zero]
  | some a => rfl

theorem edgeWeight_hom (G : Grammar K) (x : Val K) (l : Nat) (idx : List Nat) :
    edgeWeight S' (mapG f G) (mapVal f x) l idx = f (edgeWeight S G x l idx) := by
  unfold edgeWeight
  simp only [mapG_T, mapG_labelType, mapG_shapeOf, mapG_weights]
  by_cases h : l < G.T
  · simp only [h, if_true]
    rw [← getT_hom hf]
    congr 1
    rw [List.getElem?_map]
    cases G.weights[l]? <;> rfl
  · simp only [h, if_false]
    rw [mapVal_get_join]
    cases x[l - G.T]?.join with
    | none => simp [hf.zero]
    | some t => simp [getT_hom hf]

theorem addT_hom (a b : List K) : addT S' (a.map f) (b.map f) = (addT S a b).map f := by
  unfold addT
  rw [List.map_zipWith, List.zipWith_map]
  congr 1
  funext p q
  exact (hf.add p q).symm

theorem addOpt_hom (acc t : Option (List K)) :
    addOpt S' (acc.map (List.map f)) (t.map (List.map f)) = (addOpt S acc t).map (List.map f) := by
  cases t with
  | none => rfl
  | some t =>
    cases acc with
    | none => rfl
    | some a => simp [addOpt, addT_hom hf]

/-! ### `einsumSpec` and `sum_product_edges` -/

theorem einsumSpec_hom (sizes : List Nat) (ops : List ((List Nat → K) × List Nat)) (out : List Nat) :
    einsumSpec S' sizes (ops.map (fun op => ((fun idx => f (op.1 idx)), op.2))) out =
      (einsumSpec S sizes ops out).map f := by
  unfold einsumSpec
  have hused : (ops.map (fun op => ((fun idx => f (op.1 idx)), op.2))).flatMap (·.2) = ops.flatMap (·.2) := by
    rw [List.flatMap_map]
  simp only [hused, List.map_map]
  apply List.map_congr_left
  intro a _
  simp only [Function.comp_def]
  rw [sum_hom hf, List.map_map]
  congr 1
  apply List.map_congr_left
  intro ρ _
  simp only [Function.comp_def]
  rw [prod_hom hf, List.map_map]
  rfl

theorem sumProductEdges_hom (G : Grammar K) (x : Val K) (nodes : List Nat) (edges : List (Nat × List Nat))
    (ext : List Nat) :
    Impl.sumProductEdges S' (mapG f G) (mapVal f x) nodes edges ext =
      (Impl.sumProductEdges S G x nodes edges ext).map (List.map f) := by
  unfold Impl.sumProductEdges
  simp only [mapG_T, mapG_shapeOf, mapVal_get_join, Option.isNone_map]
  generalize List.foldl _ ([], nodes, []) ext = p
  obtain ⟨ext', labs, ids⟩ := p
  simp only []
  have hops : (List.map (fun p : Nat × Nat => ((fun idx : List Nat => if (idx[0]? == idx[1]?) = true then S'.one else S'.zero), [p.1, p.2])) ids
        ++ List.map (fun e : Nat × List Nat => (edgeWeight S' (mapG f G) (mapVal f x) e.1, e.2)) edges) =
      (List.map (fun p : Nat × Nat => ((fun idx : List Nat => if (idx[0]? == idx[1]?) = true then S.one else S.zero), [p.1, p.2])) ids
        ++ List.map (fun e : Nat × List Nat => (edgeWeight S G x e.1, e.2)) edges).map
          (fun op => ((fun idx => f (op.1 idx)), op.2)) := by
    simp only [List.map_append, List.map_map, Function.comp_def]
    congr 1
    · apply List.map_congr_left
      intro p _
      congr 1
      funext idx
      split <;> simp [hf.one, hf.zero]
    · apply List.map_congr_left
      intro e _
      congr 1
      funext idx
      exact edgeWeight_hom hf G x e.1 idx
  rw [hops, einsumSpec_hom hf]
  simp only [getT_hom hf]
  generalize hc : (List.any edges _) = c
  generalize hc' : (List.any edges _) = c'
  have hcc : c = c' := by
    rw [← hc, ← hc']
    rfl
  subst hcc
  clear hc hc'
  cases c
  · simp only [Bool.false_eq_true, if_false, Option.map_some]
    congr 1
    split
    · rw [List.map_map]; rfl
    · simp only [List.map_map, Function.comp_def, hf.mul, ofNat_hom hf]
  · rfl

/-! ### `F`, `overlay`, `compF`, `cellsOf` -/

theorem foldl_spe_hom (G : Grammar K) (x : Val K) (rs : List Rule) (acc : Option (List K)) :
    rs.foldl (fun (acc : Option (List K')) r =>
        addOpt S' acc (Impl.sumProductEdges S' (mapG f G) (mapVal f x) r.nodes r.edges r.ext)) (acc.map (List.map f)) =
      (rs.foldl (fun (acc : Option (List K)) r =>
        addOpt S acc (Impl.sumProductEdges S G x r.nodes r.edges r.ext)) acc).map (List.map f) := by
  induction rs generalizing acc with
  | nil => rfl
  | cons r rs ih =>
    simp only [List.foldl_cons]
    rw [sumProductEdges_hom hf, addOpt_hom hf, ih]

omit hf in
theorem implF_eq_addOpt (S : SR K) (G : Grammar K) (x : Val K) :
    Impl.F S G x = (List.range G.nts.length).map (fun X =>
      (G.rulesOf X).foldl (fun (acc : Option (List K)) r =>
        addOpt S acc (Impl.sumProductEdges S G x r.nodes r.edges r.ext)) none) := by
  unfold Impl.F
  apply List.map_congr_left
  intro X _
  congr 1

theorem implF_hom (G : Grammar K) (x : Val K) :
    Impl.F S' (mapG f G) (mapVal f x) = mapVal f (Impl.F S G x) := by
  rw [implF_eq_addOpt, implF_eq_addOpt]
  simp only [mapG_nts, mapG_rulesOf]
  unfold mapVal
  rw [List.map_map]
  apply List.map_congr_left
  intro X _
  simp only [Function.comp_def]
  rw [← foldl_spe_hom hf]
  rfl

omit hf in
theorem overlay_hom (n : Nat) (x y : Val K) (comp : List Nat) :
    overlay n (mapVal f x) (mapVal f y) comp = mapVal f (overlay n x y comp) := by
  unfold overlay
  conv_rhs => unfold mapVal
  rw [List.map_map]
  apply List.map_congr_left
  intro X _
  simp only [Function.comp_def, mapVal_get_join]
  split <;> rfl

theorem compF_hom (G : Grammar K) (x : Val K) (comp : List Nat) (y : Val K) :
    compF S' (mapG f G) (mapVal f x) comp (mapVal f y) = mapVal f (compF S G x comp y) := by
  unfold compF
  simp only [mapG_nts]
  rw [overlay_hom, implF_hom hf]
  conv_rhs => unfold mapVal
  rw [List.map_map]
  apply List.map_congr_left
  intro X _
  simp only [Function.comp_def, mapVal_get_join]
  split <;> rfl

theorem cellsOf_hom (G : Grammar K) (v : Val K) (X : Nat) :
    cellsOf S' (mapG f G) (mapVal f v) X = (cellsOf S G v X).map f := by
  unfold cellsOf
  simp only [mapG_nts, mapG_shapeOf, mapVal_get_join]
  cases v[X]?.join with
  | none => simp [hf.zero]
  | some t => rfl

end hom

/-! ### the stopping test: equal after mapping iff equal before -/

theorem lawful_of_beq [BEq K] (hbeq : ∀ a b : K, (a == b) = true ↔ a = b) : LawfulBEq K :=
  { rfl := fun {a} => (hbeq a a).2 rfl, eq_of_beq := fun {a b} h => (hbeq a b).1 h }

theorem list_beq_map [BEq K] [BEq K'] (hbeq : ∀ a b : K, (a == b) = true ↔ a = b)
    (hbeq' : ∀ a b : K', (a == b) = true ↔ a = b) (f : K → K') (hinj : Function.Injective f) (l l' : List K) :
    (l.map f == l'.map f) = (l == l') := by
  have := lawful_of_beq hbeq
  have := lawful_of_beq hbeq'
  rw [Bool.eq_iff_iff, beq_iff_eq, beq_iff_eq]
  exact (List.map_injective_iff.2 hinj).eq_iff

section homb
variable [BEq K] [BEq K'] (hbeq : ∀ a b : K, (a == b) = true ↔ a = b) (hbeq' : ∀ a b : K', (a == b) = true ↔ a = b)
variable {S : SR K} {S' : SR K'} {f : K → K'} (hf : Hom S S' f) (hinj : Function.Injective f)
include hbeq hbeq' hf hinj

theorem valEqOn_hom (G : Grammar K) (comp : List Nat) (a b : Val K) :
    valEqOn S' (mapG f G) comp (mapVal f a) (mapVal f b) = valEqOn S G comp a b := by
  unfold valEqOn
  congr 1
  funext X
  rw [cellsOf_hom hf, cellsOf_hom hf, list_beq_map hbeq hbeq' f hinj]

theorem fpGo_hom (G : Grammar K) (x : Val K) (comp : List Nat) (fuel : Nat) (x0 x1 : Val K) :
    fpGo S' (mapG f G) (mapVal f x) comp fuel (mapVal f x0) (mapVal f x1) =
      (mapVal f (fpGo S G x comp fuel x0 x1).1, (fpGo S G x comp fuel x0 x1).2) := by
  induction fuel generalizing x0 x1 with
  | zero => rfl
  | succ n ih =>
    simp only [fpGo]
    rw [valEqOn_hom hbeq hbeq' hf hinj]
    split
    · rfl
    · rw [compF_hom hf, ih]

theorem fixedPoint_hom (G : Grammar K) (x : Val K) (comp : List Nat) (kmax : Nat) :
    fixedPoint S' (mapG f G) (mapVal f x) comp kmax =
      (mapVal f (fixedPoint S G x comp kmax).1, (fixedPoint S G x comp kmax).2) := by
  unfold fixedPoint
  simp only [mapG_nts]
  rw [← mapVal_replicate_none f, compF_hom hf, fpGo_hom hbeq hbeq' hf hinj]

end homb

end C11cL
