/-
Helper lemmas for Props/C06e.lean, part 5: `unify` succeeds on the unification problem of `reshape` when the target
shape merges adjacent dimensions of the operand's shape (and inserts / removes dimensions of size 1), for every large
enough fuel.  The proof follows the executable model directly (not the over-approximation `Run`).
-/
import FggsModel.Reshape
import FggsProofs.C06bLemmas
import FggsProofs.C06dBaseLemmas
import FggsProofs.C06eSemLemmas
import FggsProofs.C06eMainLemmas
import FggsProofs.C06eFastLemmas
import Mathlib.Data.List.Basic
import Mathlib.Tactic.Linarith

set_option linter.unusedSimpArgs false
set_option linter.unusedVariables false

namespace C06eL
open Fggs Fggs.Ax Fggs.Un Fggs.Rs C06b C06dL

/-! ### equations of the model -/

theorem unify_prod_unit (F : Nat) (gs : List Axis) (st : St) (hz : zeroList gs = false) :
    unify (F+1) (.prod gs) unitAxis st = unifyProd F gs.reverse [] st := by
  rw [unify.eq_2]
  simp only [lookup_prod, unitAxis, samePhys, hz]
  simp

theorem unify_sum_unit (F : Nat) (t : Axis) (st : St) :
    unify (F+1) (.sum 0 t 0) unitAxis st = unify F unitAxis t st := by
  rw [unify.eq_2]
  simp only [lookup_prod, lookup_sum, unitAxis, samePhys]
  simp

theorem unify_unit_sum (F : Nat) (t : Axis) (st : St) :
    unify (F+1) unitAxis (.sum 0 t 0) st = unify F unitAxis t st := by
  rw [unify.eq_2]
  simp only [lookup_prod, lookup_sum, unitAxis, samePhys]
  simp

theorem unify_unit_prod (F : Nat) (gs : List Axis) (st : St) :
    unify (F+1) unitAxis (.prod gs) st = unifyProd F [] gs.reverse st := by
  rw [unify.eq_2]
  simp only [lookup_prod, lookup_sum, unitAxis, samePhys]
  simp [zeroList]

theorem unifyProd_nil_left (F : Nat) (fs : List Axis) (st : St) :
    unifyProd (F+1) [] fs st = unifyUnits F fs.reverse st := by
  rw [unifyProd.eq_3 _ _ _ _ (by intros; simp_all)]
  simp

theorem unifyProd_nil_right (F : Nat) (es : List Axis) (st : St) :
    unifyProd (F+1) es [] st = unifyUnits F es.reverse st := by
  rw [unifyProd.eq_3 _ _ _ _ (by intros; simp_all)]
  simp

/-! ### axes with one element and no physical axis unify with the unit axis (nothing is bound) -/

mutual
/-- fuel that suffices to unify an axis with the unit axis -/
def need : Axis → Nat
  | .phys _ _ => 1
  | .prod fs => needList fs + 2
  | .sum _ t _ => need t + 1
def needList : List Axis → Nat
  | [] => 1
  | f :: fs => need f + 1 + needList fs
end

inductive UnitLike : Axis → Prop
  | prod {gs : List Axis} (h : ∀ g ∈ gs, UnitLike g) : UnitLike (.prod gs)
  | sum {t : Axis} (h : UnitLike t) : UnitLike (.sum 0 t 0)

theorem needList_append : ∀ (xs ys : List Axis), needList (xs ++ ys) + 1 = needList xs + needList ys
  | [], ys => by simp [needList]; omega
  | x :: xs, ys => by
    have := needList_append xs ys
    simp only [List.cons_append, needList]; omega

theorem needList_reverse : ∀ (xs : List Axis), needList xs.reverse = needList xs
  | [] => rfl
  | x :: xs => by
    have h1 := needList_append xs.reverse [x]
    have h2 := needList_reverse xs
    simp only [List.reverse_cons, needList] at h1 ⊢
    omega

theorem needList_mem : ∀ {xs : List Axis} {x : Axis}, x ∈ xs → need x < needList xs
  | y :: ys, x, h => by
    rw [needList]
    rcases List.mem_cons.1 h with rfl | h
    · omega
    · have := needList_mem h; omega

theorem UnitLike.zero {x : Axis} (h : UnitLike x) : Un.zero x = false := by
  induction h with
  | @prod gs h ih =>
    rw [Un.zero]
    induction gs with
    | nil => rfl
    | cons g gs ihg =>
      rw [zeroList, ih g (by simp), ihg (fun y hy => h y (by simp [hy])) (fun y hy => ih y (by simp [hy]))]
      rfl
  | sum h ih => simp [Un.zero, ih]

theorem zeroList_unitLike : ∀ (gs : List Axis), (∀ g ∈ gs, UnitLike g) → zeroList gs = false
  | [], _ => rfl
  | g :: gs, h => by
    rw [zeroList, (h g (by simp)).zero, zeroList_unitLike gs (fun y hy => h y (by simp [hy]))]; rfl

/-- `unifyUnits` from the per-element statement -/
theorem unifyUnits_ok : ∀ (xs : List Axis) (F : Nat) (st : St),
    (∀ x ∈ xs, ∀ F', need x ≤ F' → unify F' x unitAxis st = (true, st)) → needList xs ≤ F →
    unifyUnits F xs st = (true, st)
  | [], F, st, _, hF => by
    cases F with
    | zero => simp [needList] at hF
    | succ F => rw [unifyUnits]
  | x :: xs, F, st, h, hF => by
    rw [needList] at hF
    cases F with
    | zero => omega
    | succ F =>
      rw [unifyUnits.eq_3, h x (by simp) F (by omega)]
      exact unifyUnits_ok xs F st (fun y hy => h y (by simp [hy])) (by omega)

theorem unit_ok {x : Axis} (h : UnitLike x) : ∀ (F : Nat) (st : St), need x ≤ F →
    unify F x unitAxis st = (true, st) ∧ unify F unitAxis x st = (true, st) := by
  induction h with
  | @prod gs h ih =>
    intro F st hF
    rw [need] at hF
    obtain ⟨F, rfl⟩ : ∃ F', F = F' + 2 := ⟨F - 2, by omega⟩
    have hu : unifyUnits F gs st = (true, st) :=
      unifyUnits_ok gs F st (fun g hg F' hF' => (ih g hg F' st hF').1) (by omega)
    constructor
    · rw [unify_prod_unit _ _ _ (zeroList_unitLike gs h), unifyProd_nil_right, List.reverse_reverse]
      exact hu
    · rw [unify_unit_prod, unifyProd_nil_left, List.reverse_reverse]
      exact hu
  | @sum t h ih =>
    intro F st hF
    rw [need] at hF
    obtain ⟨F, rfl⟩ : ∃ F', F = F' + 1 := ⟨F - 1, by omega⟩
    have := (ih F st (by omega)).2
    exact ⟨by rw [unify_sum_unit]; exact this, by rw [unify_unit_sum]; exact this⟩

mutual
/-- an axis with one element all of whose physical axes have at least two elements has no physical axis -/
theorem unitLike_of_numel : ∀ (x : Axis), x.numel = 1 → (∀ q ∈ x.fv, 2 ≤ q.2) → UnitLike x
  | .phys v n, h, hq => by
    have := hq (v, n) (by simp [Axis.fv])
    simp only [Axis.numel] at h
    omega
  | .prod gs, h, hq => by
    rw [Axis.numel] at h
    exact .prod (unitLike_of_numelList gs h (by simpa [Axis.fv] using hq))
  | .sum b t a, h, hq => by
    rw [Axis.numel] at h
    have hp : 0 < t.numel := numel_pos_aux t (fun q hq' => by
      have := hq q (by simpa [Axis.fv] using hq'); omega)
    have hb : b = 0 := by omega
    have ha : a = 0 := by omega
    subst hb ha
    exact .sum (unitLike_of_numel t (by omega) (fun q hq' => hq q (by simpa [Axis.fv] using hq')))
theorem unitLike_of_numelList : ∀ (gs : List Axis), numelList gs = 1 → (∀ q ∈ fvList gs, 2 ≤ q.2) →
    ∀ g ∈ gs, UnitLike g
  | [], _, _, g, hg => by simp at hg
  | x :: xs, h, hq, g, hg => by
    rw [numelList] at h
    have h1 : x.numel = 1 := Nat.eq_one_of_mul_eq_one_right h
    have h2 : numelList xs = 1 := Nat.eq_one_of_mul_eq_one_left h
    rcases List.mem_cons.1 hg with hgx | hg
    · rw [hgx]; exact unitLike_of_numel x h1 (fun q hq' => hq q (by simp [fvList, hq']))
    · exact unitLike_of_numelList xs h2 (fun q hq' => hq q (by simp [fvList, hq'])) g hg
end

/-! ### binding an unbound physical axis -/

theorem lookup_unbound (σ : Subst) (k v m : Nat) (hb : bound σ v = none) : lookup σ k (.phys v m) = .phys v m := by
  cases k with
  | zero => rw [lookup]
  | succ k => rw [lookup, hb]

theorem unify_bindL (F : Nat) (v m : Nat) (f0 : Axis) (st : St) (hb : bound st.subst v = none)
    (hs : samePhys (.phys v m) (lookup st.subst (F+1) f0) = false) :
    unify (F+1) (.phys v m) f0 st = (true, bind st v (lookup st.subst (F+1) f0)) := by
  rw [unify.eq_2]
  simp only [lookup_unbound _ _ _ _ hb]
  generalize lookup st.subst (F+1) f0 = f at hs ⊢
  simp only [hs]
  cases f <;> simp

theorem unify_bindR (F : Nat) (es : List Axis) (w n : Nat) (st : St) (hb : bound st.subst w = none) :
    unify (F+1) (.prod es) (.phys w n) st = (true, bind st w (.prod es)) := by
  rw [unify.eq_2]
  simp only [lookup_unbound _ _ _ _ hb, lookup_prod, samePhys]
  simp

theorem bound_cons_ne (σ : Subst) (v w : Nat) (a : Axis) (h : v ≠ w) : bound ((v, a) :: σ) w = bound σ w := by
  unfold bound
  rw [List.find?_cons]
  have : (v == w) = false := by simpa using h
  simp [this]

theorem bound_none_of_keys {σ : Subst} {v : Nat} (h : ∀ p ∈ σ, p.1 ≠ v) : bound σ v = none := by
  unfold bound
  rw [Option.map_eq_none_iff, List.find?_eq_none]
  intro p hp
  simpa using h p hp

/-! ### the walk over the factors -/

/-- the sizes of the two stacks (top first) line up: the walk of `unifyProd` with fresh axes on the left only meets
equal sizes, one-element factors on the right, and right factors that divide the left size -/
def Wk : List Nat → List Nat → Prop
  | [], ns => ∀ n ∈ ns, n = 1
  | _ :: _, [] => False
  | m :: ms, n :: ns =>
    if m = n then Wk ms ns else if n = 1 then Wk (m :: ms) ns else n < m ∧ m % n = 0 ∧ Wk ((m / n) :: ms) ns
termination_by _ ns => ns.length

/-- the state during the walk: only fresh identities are bound, the left stack consists of distinct unbound fresh
axes of size ≥ 2 -/
structure FreshSt (next : Nat) (st : St) (es : List Axis) : Prop where
  keys : ∀ p ∈ st.subst, next ≤ p.1 ∧ p.1 < st.next
  es_ok : ∀ x ∈ es, ∃ v n, x = .phys v n ∧ next ≤ v ∧ v < st.next ∧ bound st.subst v = none ∧ 2 ≤ n
  nodup : (es.map (fun x => (toPair x).1)).Nodup
  le : next ≤ st.next

/-- a term of the operand: old physical axes of size ≥ 2 -/
def OldTerm (next : Nat) (f : Axis) : Prop := ∀ q ∈ f.fv, q.1 < next ∧ 2 ≤ q.2

theorem FreshSt.old_unbound {next : Nat} {st : St} {es : List Axis} (h : FreshSt next st es) {v : Nat} (hv : v < next) :
    bound st.subst v = none :=
  bound_none_of_keys (fun p hp e => by have := (h.keys p hp).1; omega)

theorem FreshSt.lookup_old {next : Nat} {st : St} {es : List Axis} (h : FreshSt next st es) {f : Axis}
    (hf : OldTerm next f) (k : Nat) : lookup st.subst k f = f := by
  cases f with
  | phys w n => exact lookup_unbound _ _ _ _ (h.old_unbound (hf (w, n) (by simp [Axis.fv])).1)
  | prod gs => exact lookup_prod _ _ _
  | sum b t a => exact lookup_sum _ _ _ _ _

theorem samePhys_old {next v m : Nat} (hv : next ≤ v) {f : Axis} (hf : OldTerm next f) :
    samePhys (.phys v m) f = false := by
  cases f with
  | phys w n =>
    have := (hf (w, n) (by simp [Axis.fv])).1
    simp [samePhys]; omega
  | prod gs => rfl
  | sum b t a => rfl

theorem OldTerm.unitLike {next : Nat} {f : Axis} (hf : OldTerm next f) (h1 : f.numel = 1) : UnitLike f :=
  unitLike_of_numel f h1 (fun q hq => (hf q hq).2)

theorem productAxis_split_not_phys (kv kn : Nat) (f9 : Axis) (h : f9.numel ≠ 1) :
    ∃ gs, productAxis [.phys kv kn, f9] = .prod gs := by
  cases f9 with
  | phys w n => exact ⟨_, rfl⟩
  | sum b t a => exact ⟨_, rfl⟩
  | prod gs =>
    cases gs with
    | nil => simp [Axis.numel, numelList] at h
    | cons g gs => exact ⟨_, rfl⟩

theorem FreshSt.tail_bind {next : Nat} {st : St} {x : Axis} {es : List Axis} (h : FreshSt next st (x :: es))
    {v n : Nat} (hx : x = .phys v n) (a : Axis) : FreshSt next (bind st v a) es := by
  obtain ⟨v', n', hx', h1, h2, h3, h4⟩ := h.es_ok x (by simp)
  rw [hx] at hx'
  cases hx'
  have hnd := h.nodup
  rw [List.map_cons, List.nodup_cons] at hnd
  refine ⟨?_, ?_, hnd.2, h.le⟩
  · intro p hp
    change p ∈ (v, a) :: st.subst at hp
    rcases List.mem_cons.1 hp with rfl | hp
    · exact ⟨h1, h2⟩
    · exact h.keys p hp
  · intro y hy
    obtain ⟨w, m, rfl, g1, g2, g3, g4⟩ := h.es_ok y (by simp [hy])
    refine ⟨w, m, rfl, g1, g2, ?_, g4⟩
    change bound ((v, a) :: st.subst) w = none
    rw [bound_cons_ne _ _ _ _ ?_]
    · exact g3
    · intro e
      apply hnd.1
      rw [hx]
      simp only [toPair]
      rw [e]
      exact List.mem_map.2 ⟨_, hy, rfl⟩

theorem FreshSt.push_bind {next : Nat} {st : St} {x : Axis} {es : List Axis} (h : FreshSt next st (x :: es))
    {v n : Nat} (hx : x = .phys v n) (a : Axis) (q : Nat) (hq : 2 ≤ q) :
    FreshSt next (bind st.fresh v a) (.phys st.next q :: es) := by
  obtain ⟨v', n', hx', h1, h2, h3, h4⟩ := h.es_ok x (by simp)
  rw [hx] at hx'
  cases hx'
  have hnd := h.nodup
  rw [List.map_cons, List.nodup_cons] at hnd
  have hkeys : ∀ p ∈ (bind st.fresh v a).subst, next ≤ p.1 ∧ p.1 < st.next := by
    intro p hp
    change p ∈ (v, a) :: st.subst at hp
    rcases List.mem_cons.1 hp with rfl | hp
    · exact ⟨h1, h2⟩
    · exact h.keys p hp
  refine ⟨fun p hp => ⟨(hkeys p hp).1, by have := (hkeys p hp).2; show p.1 < st.next + 1; omega⟩, ?_, ?_,
    by have := h.le; show next ≤ st.next + 1; omega⟩
  · intro y hy
    rcases List.mem_cons.1 hy with rfl | hy
    · refine ⟨st.next, q, rfl, h.le, by show st.next < st.next + 1; omega, ?_, hq⟩
      exact bound_none_of_keys (fun p hp e => by have := (hkeys p hp).2; omega)
    · obtain ⟨w, m, rfl, g1, g2, g3, g4⟩ := h.es_ok y (by simp [hy])
      refine ⟨w, m, rfl, g1, by show w < st.next + 1; omega, ?_, g4⟩
      change bound ((v, a) :: st.subst) w = none
      rw [bound_cons_ne _ _ _ _ ?_]
      · exact g3
      · intro e
        apply hnd.1
        rw [hx]
        simp only [toPair]
        rw [e]
        exact List.mem_map.2 ⟨_, hy, rfl⟩
  · rw [List.map_cons, List.nodup_cons]
    refine ⟨?_, hnd.2⟩
    intro hm
    obtain ⟨y, hy, e⟩ := List.mem_map.1 hm
    obtain ⟨w, m, rfl, g1, g2, g3, g4⟩ := h.es_ok y (by simp [hy])
    simp only [toPair] at e
    omega

/-- **the walk succeeds** -/
theorem walk_ok (next : Nat) : ∀ (fs es : List Axis) (st : St) (F : Nat), FreshSt next st es →
    (∀ f ∈ fs, OldTerm next f) → Wk (es.map Axis.numel) (fs.map Axis.numel) → needList fs + 2 ≤ F →
    ∃ st', unifyProd F es fs st = (true, st')
  | [], es, st, F, hst, _, hw, hF => by
    cases es with
    | cons e es => simp [Wk] at hw
    | nil =>
      obtain ⟨F, rfl⟩ : ∃ F', F = F' + 2 := ⟨F - 2, by simp [needList] at hF; omega⟩
      exact ⟨st, by rw [unifyProd_nil_left]; rfl⟩
  | f9 :: fs, [], st, F, hst, hfs, hw, hF => by
    rw [List.map_nil, Wk] at hw
    obtain ⟨F, rfl⟩ : ∃ F', F = F' + 1 := ⟨F - 1, by omega⟩
    refine ⟨st, ?_⟩
    rw [unifyProd_nil_left]
    apply unifyUnits_ok
    · intro x hx F' hF'
      rw [List.mem_reverse] at hx
      exact (unit_ok ((hfs x hx).unitLike (hw _ (List.mem_map_of_mem hx))) F' st hF').1
    · rw [needList_reverse]; omega
  | f9 :: fs, e9 :: es, st, F, hst, hfs, hw, hF => by
    rw [needList] at hF
    obtain ⟨F, rfl⟩ : ∃ F', F = F' + 2 := ⟨F - 2, by omega⟩
    obtain ⟨v, m, rfl, h1, h2, h3, h4⟩ := hst.es_ok e9 (by simp)
    have hf9 := hfs f9 (by simp)
    rw [List.map_cons, List.map_cons, Wk] at hw
    rw [unifyProd.eq_2]
    simp only [Axis.numel] at hw ⊢
    by_cases hmn : m = f9.numel
    · replace hw := (if_pos hmn).mp hw
      have c1 : (m == f9.numel) = true := by simpa using hmn
      simp only [c1, ↓reduceIte]
      rw [unify_bindL F v m f9 st h3 (by rw [hst.lookup_old hf9]; exact samePhys_old h1 hf9)]
      simp only []
      exact walk_ok next fs es _ (F+1) (hst.tail_bind rfl _) (fun f hf => hfs f (by simp [hf])) hw (by omega)
    · replace hw := (if_neg hmn).mp hw
      have c1 : (m == f9.numel) = false := by simpa using hmn
      simp only [c1, Bool.false_eq_true, ↓reduceIte]
      by_cases hn1 : f9.numel = 1
      · replace hw := (if_pos hn1).mp hw
        have c2 : (f9.numel == 1) = true := by simpa using hn1
        simp only [c2, ↓reduceIte]
        rw [(unit_ok (hf9.unitLike hn1) (F+1) st (by omega)).1]
        simp only []
        exact walk_ok next fs (.phys v m :: es) st (F+1) hst (fun f hf => hfs f (by simp [hf])) hw (by omega)
      · replace hw := (if_neg hn1).mp hw
        obtain ⟨hlt, hd, hw⟩ := hw
        have c2 : (f9.numel == 1) = false := by simpa using hn1
        have c3 : (m == 1) = false := by simp; omega
        have c4 : ¬ m < f9.numel := by omega
        have hd' : (m % f9.numel != 0) = false := by simp [hd]
        simp only [c2, c3, c4, hd', Bool.false_eq_true, ↓reduceIte]
        obtain ⟨gs, hgs⟩ := productAxis_split_not_phys st.next (m / f9.numel) f9 hn1
        have hu := unify_bindL F v m (productAxis [.phys st.next (m / f9.numel), f9]) st.fresh h3
          (by rw [hgs, lookup_prod]; rfl)
        change unify (F+1) (.phys v m) _ ⟨st.subst, st.next + 1⟩ = _ at hu
        rw [hu]
        simp only []
        exact walk_ok next fs (.phys st.next (m / f9.numel) :: es) _ (F+1)
          (hst.push_bind rfl _ _ (div_ge_two_of hlt hd)) (fun f hf => hfs f (by simp [hf])) hw (by omega)

/-! ### the sizes line up when the right factors are grouped as the left sizes say -/

theorem Wk_nil_iff (ns : List Nat) : Wk [] ns ↔ ∀ n ∈ ns, n = 1 := by rw [Wk]

theorem Wk_ones : ∀ (os ms ns : List Nat), (∀ m ∈ ms, 2 ≤ m) → (∀ n ∈ os, n = 1) → Wk ms ns → Wk ms (os ++ ns)
  | [], ms, ns, _, _, h => h
  | o :: os, ms, ns, hm, ho, h => by
    have ih := Wk_ones os ms ns hm (fun n hn => ho n (by simp [hn])) h
    have o1 : o = 1 := ho o (by simp)
    subst o1
    cases ms with
    | nil =>
      rw [Wk_nil_iff] at ih ⊢
      intro n hn
      rcases List.mem_cons.1 hn with rfl | hn
      · rfl
      · exact ih n hn
    | cons m ms =>
      have := hm m (by simp)
      rw [List.cons_append, Wk, if_neg (by omega), if_pos rfl]
      exact ih

theorem numel_pos_of : ∀ (l : List Nat), (∀ n ∈ l, 0 < n) → 0 < numel l
  | [], _ => by simp [numel_nil]
  | x :: l, h => by
    rw [numel_cons]
    exact Nat.mul_pos (h x (by simp)) (numel_pos_of l (fun n hn => h n (by simp [hn])))

theorem Wk_group : ∀ (g : List Nat) (m : Nat) (ms ns : List Nat), (∀ n ∈ g, 0 < n) → m = numel g → 2 ≤ m →
    (∀ m' ∈ ms, 2 ≤ m') → Wk ms ns → Wk (m :: ms) (g ++ ns)
  | [], m, ms, ns, _, hm, h2, _, _ => by simp [numel_nil] at hm; omega
  | x :: g, m, ms, ns, hg, hm, h2, hms, h => by
    rw [numel_cons] at hm
    have hx : 0 < x := hg x (by simp)
    have hk : 0 < numel g := numel_pos_of g (fun n hn => hg n (by simp [hn]))
    rw [List.cons_append, Wk]
    by_cases e1 : m = x
    · rw [if_pos e1]
      have : numel g = 1 := by
        have : x * numel g = x * 1 := by rw [← hm, e1]; simp
        exact Nat.eq_of_mul_eq_mul_left hx this
      exact Wk_ones g ms ns hms (numel_eq_one g this) h
    · rw [if_neg e1]
      by_cases e2 : x = 1
      · rw [if_pos e2]
        exact Wk_group g m ms ns (fun n hn => hg n (by simp [hn])) (by rw [hm, e2]; simp) h2 hms h
      · rw [if_neg e2]
        have hk2 : 2 ≤ numel g := by
          rcases Nat.lt_or_ge (numel g) 2 with h' | h'
          · have : numel g = 1 := by omega
            rw [this] at hm; omega
          · exact h'
        have hdiv : m / x = numel g := by rw [hm]; exact Nat.mul_div_cancel_left _ hx
        refine ⟨?_, ?_, ?_⟩
        · rw [hm]; nlinarith
        · rw [hm]; exact Nat.mul_mod_right _ _
        · rw [hdiv]
          exact Wk_group g (numel g) ms ns (fun n hn => hg n (by simp [hn])) rfl hk2 hms h

theorem Wk_groups : ∀ (Gs : List (List Nat)), (∀ G ∈ Gs, ∀ n ∈ G, 0 < n) →
    Wk ((Gs.map numel).filter (· ≠ 1)) Gs.flatten
  | [], _ => by simp [Wk]
  | G :: Gs, h => by
    have ih := Wk_groups Gs (fun G' hG' => h G' (by simp [hG']))
    have hms : ∀ m' ∈ (Gs.map numel).filter (· ≠ 1), 2 ≤ m' := by
      intro m' hm'
      rw [List.mem_filter] at hm'
      obtain ⟨G', hG', rfl⟩ := List.mem_map.1 hm'.1
      have := numel_pos_of G' (h G' (by simp [hG']))
      have := hm'.2
      simp at this
      omega
    rw [List.map_cons, List.flatten_cons, List.filter_cons]
    by_cases e : numel G = 1
    · simp only [e, ne_eq, not_true_eq_false, decide_false, Bool.false_eq_true, if_false]
      exact Wk_ones G _ _ hms (numel_eq_one G e) ih
    · simp only [ne_eq, e, not_false_eq_true, decide_true, if_true]
      have := numel_pos_of G (h G (by simp))
      exact Wk_group G _ _ _ (h G (by simp)) rfl (by omega) hms ih

/-! ### from a grouping of the virtual axes to the sizes of the two stacks -/

/-- the virtual axes `vs` are grouped into consecutive runs whose sizes are the entries of `s` (an empty run for an
inserted dimension of size 1), followed by axes of one element -/
def Decomp (vs : List Axis) (s : List Nat) : Prop :=
  ∃ (vgs : List (List Axis)) (vtl : List Axis), vs = vgs.flatten ++ vtl ∧ s = vgs.map numelList ∧ ∀ x ∈ vtl, x.numel = 1

theorem flat1_append (a b : List Axis) : flat1 (a ++ b) = flat1 a ++ flat1 b := by
  unfold flat1; exact List.flatMap_append

theorem flat1_cons (f : Axis) (fs : List Axis) :
    flat1 (f :: fs) = (match f with | .prod gs => gs | e => [e]) ++ flat1 fs := by
  cases f <;> simp [flat1]

theorem flat1_flatten : ∀ (L : List (List Axis)), flat1 L.flatten = (L.map flat1).flatten
  | [] => rfl
  | g :: L => by rw [List.flatten_cons, flat1_append, flat1_flatten L, List.map_cons, List.flatten_cons]

theorem numelList_flat1 : ∀ (fs : List Axis), numelList (flat1 fs) = numelList fs
  | [] => by simp [flat1]
  | f :: fs => by
    rw [flat1_cons, numelList_append, numelList_flat1 fs, numelList]
    cases f <;> simp [numelList, Axis.numel]

theorem numel_reverse (l : List Nat) : numel l.reverse = numel l := by
  induction l with
  | nil => rfl
  | cons x l ih => rw [List.reverse_cons, numel_append, ih, numel_cons, numel_cons, numel_nil]; ring

theorem numelList_one_of : ∀ (xs : List Axis), (∀ x ∈ xs, x.numel = 1) → numelList xs = 1
  | [], _ => rfl
  | x :: xs, h => by
    rw [numelList, h x (by simp), numelList_one_of xs (fun y hy => h y (by simp [hy]))]

/-- the sizes of the factors of a run of axes -/
def fsz (g : List Axis) : List Nat := (flat1 g).map Axis.numel

theorem numel_fsz (g : List Axis) : numel (fsz g) = numelList g := by
  unfold fsz; rw [numel_map_numel, numelList_flat1]

theorem fsz_pos {vs : List Axis} (hp : ∀ v ∈ vs, ∀ q ∈ v.fv, 0 < q.2) {g : List Axis} (hg : ∀ x ∈ g, x ∈ vs) :
    ∀ n ∈ fsz g, 0 < n := by
  intro n hn
  unfold fsz at hn
  obtain ⟨x, hx, rfl⟩ := List.mem_map.1 hn
  apply numel_pos_aux
  intro q hq
  obtain ⟨v, hv, hqv⟩ := (mem_fvList_flat1 g).1 (mem_fvList.2 ⟨x, hx, hq⟩)
  exact hp v (hg v hv) q hqv

theorem decomp_wk {vs : List Axis} {s : List Nat} (hd : Decomp vs s) (hp : ∀ v ∈ vs, ∀ q ∈ v.fv, 0 < q.2) :
    Wk ((s.filter (· ≠ 1)).reverse) (((flat1 vs).map Axis.numel).reverse) := by
  obtain ⟨vgs, vtl, rfl, rfl, htl⟩ := hd
  have e1 : (flat1 (vgs.flatten ++ vtl)).map Axis.numel = (vgs.map fsz).flatten ++ fsz vtl := by
    rw [flat1_append, List.map_append, flat1_flatten, List.map_flatten, List.map_map]
    rfl
  rw [e1, List.reverse_append, List.reverse_flatten, ← List.filter_reverse, ← List.map_reverse]
  set Gs : List (List Nat) := ((vgs.map fsz).map List.reverse).reverse with hGs
  have e2 : (vgs.reverse).map numelList = Gs.map numel := by
    rw [hGs, List.map_reverse, List.map_reverse, List.map_map, List.map_map]
    congr 1
    apply List.map_congr_left
    intro g _
    simp only [Function.comp]
    rw [numel_reverse, numel_fsz]
  rw [e2]
  have hGpos : ∀ G ∈ Gs, ∀ n ∈ G, 0 < n := by
    intro G hG n hn
    rw [hGs, List.mem_reverse, List.map_map] at hG
    obtain ⟨g, hg, rfl⟩ := List.mem_map.1 hG
    simp only [Function.comp, List.mem_reverse] at hn
    exact fsz_pos hp (fun x hx => List.mem_append_left _ (List.mem_flatten.2 ⟨g, hg, hx⟩)) n hn
  apply Wk_ones _ _ _ ?_ ?_ (Wk_groups Gs hGpos)
  · intro m' hm'
    rw [List.mem_filter] at hm'
    obtain ⟨G', hG', rfl⟩ := List.mem_map.1 hm'.1
    have := numel_pos_of G' (hGpos G' hG')
    have := hm'.2
    simp at this
    omega
  · intro n hn
    rw [List.mem_reverse] at hn
    unfold fsz at hn
    obtain ⟨x, hx, rfl⟩ := List.mem_map.1 hn
    exact numelList_eq_one (flat1 vtl) (by rw [numelList_flat1]; exact numelList_one_of vtl htl) x hx

/-! ### the top-level call -/

/-- the non-unit fresh axes -/
def ego : List Nat → Nat → List Axis
  | [], _ => []
  | n :: s, k => if n = 1 then ego s (k + 1) else Axis.phys k n :: ego s (k + 1)

theorem flat1_vgo : ∀ (s : List Nat) (k : Nat), flat1 (vgo s k) = ego s k
  | [], k => rfl
  | n :: s, k => by
    rw [vgo, flat1_cons, flat1_vgo s (k + 1), ego]
    by_cases h : n = 1
    · subst h; simp [unitAxis]
    · have : (n == 1) = false := by simpa using h
      simp [this, h]

theorem ego_numel : ∀ (s : List Nat) (k : Nat), (ego s k).map Axis.numel = s.filter (· ≠ 1)
  | [], k => rfl
  | n :: s, k => by
    rw [ego, List.filter_cons]
    by_cases h : n = 1
    · simp [h, ego_numel s (k + 1)]
    · simp [h, ego_numel s (k + 1), Axis.numel]

theorem ego_mem : ∀ (s : List Nat) (k : Nat), (∀ n ∈ s, 0 < n) → ∀ x ∈ ego s k,
    ∃ v n, x = .phys v n ∧ k ≤ v ∧ v < k + s.length ∧ 2 ≤ n
  | [], k, _, x, hx => by simp [ego] at hx
  | n :: s, k, hs, x, hx => by
    rw [ego] at hx
    have ih := ego_mem s (k + 1) (fun m hm => hs m (by simp [hm]))
    by_cases h : n = 1
    · rw [if_pos h] at hx
      obtain ⟨v, m, rfl, h1, h2, h3⟩ := ih x hx
      exact ⟨v, m, rfl, by omega, by simp only [List.length_cons]; omega, h3⟩
    · rw [if_neg h] at hx
      rcases List.mem_cons.1 hx with rfl | hx
      · have := hs n (by simp)
        exact ⟨k, n, rfl, Nat.le_refl _, by simp only [List.length_cons]; omega, by omega⟩
      · obtain ⟨v, m, rfl, h1, h2, h3⟩ := ih x hx
        exact ⟨v, m, rfl, by omega, by simp only [List.length_cons]; omega, h3⟩

theorem ego_nodup : ∀ (s : List Nat) (k : Nat), (∀ n ∈ s, 0 < n) → ((ego s k).map (fun x => (toPair x).1)).Nodup
  | [], k, _ => by simp [ego]
  | n :: s, k, hs => by
    rw [ego]
    have ih := ego_nodup s (k + 1) (fun m hm => hs m (by simp [hm]))
    by_cases h : n = 1
    · rw [if_pos h]; exact ih
    · rw [if_neg h, List.map_cons, List.nodup_cons]
      refine ⟨?_, ih⟩
      intro hm
      obtain ⟨x, hx, e⟩ := List.mem_map.1 hm
      obtain ⟨v, m, rfl, h1, _, _⟩ := ego_mem s (k + 1) (fun m hm => hs m (by simp [hm])) x hx
      simp only [toPair] at e
      omega

theorem ego_fresh (s : List Nat) (next : Nat) (hs : ∀ n ∈ s, 0 < n) :
    FreshSt next ⟨[], next + s.length⟩ (ego s next).reverse where
  keys := fun p hp => by simp at hp
  es_ok := fun x hx => by
    rw [List.mem_reverse] at hx
    obtain ⟨v, n, rfl, h1, h2, h3⟩ := ego_mem s next hs x hx
    exact ⟨v, n, rfl, h1, h2, by simp [bound], h3⟩
  nodup := by
    rw [List.map_reverse, List.nodup_reverse]
    exact ego_nodup s next hs
  le := Nat.le_add_right _ _

theorem lookup_nil : ∀ (k : Nat) (e : Axis), lookup [] k e = e
  | 0, e => by rw [lookup]
  | k+1, .phys v n => by rw [lookup]; simp [bound]
  | k+1, .prod fs => lookup_prod _ _ _
  | k+1, .sum b t a => lookup_sum _ _ _ _ _

theorem zeroList_ego : ∀ (E : List Axis), (∀ x ∈ E, ∃ v n, x = Axis.phys v n ∧ 2 ≤ n) → zeroList E = false
  | [], _ => rfl
  | x :: E, h => by
    obtain ⟨v, n, rfl, hn⟩ := h x (by simp)
    rw [zeroList, zeroList_ego E (fun y hy => h y (by simp [hy]))]
    simp [Un.zero]; omega

theorem unify_prod_prod (F : Nat) (es fs : List Axis) (st : St) (hz : zeroList es = false) :
    unify (F+1) (.prod es) (.prod fs) st = unifyProd F es.reverse fs.reverse st := by
  rw [unify.eq_2]
  simp only [lookup_prod, samePhys, hz]
  simp

theorem unify_prod_sum (F : Nat) (e1 : Axis) (es : List Axis) (b a : Nat) (t : Axis) (st : St)
    (hz : zeroList (e1 :: es) = false) :
    unify (F+1) (.prod (e1 :: es)) (.sum b t a) st = unifyProd F (e1 :: es).reverse [.sum b t a] st := by
  rw [unify.eq_2]
  simp only [lookup_prod, lookup_sum, samePhys, hz]
  simp

theorem Wk_single {ms : List Nat} {n : Nat} (h : Wk ms [n]) (hl : ms.length ≠ 1) : ms = [] ∧ n = 1 := by
  cases ms with
  | nil => rw [Wk_nil_iff] at h; exact ⟨rfl, h n (by simp)⟩
  | cons m ms =>
    rw [Wk] at h
    split at h
    · cases ms with
      | nil => simp at hl
      | cons m' ms => simp [Wk] at h
    · split at h
      · simp [Wk] at h
      · simp [Wk] at h

theorem productAxis_single {fs : List Axis} {e : Axis} (h : flat1 fs = [e]) : productAxis fs = e := by
  rw [productAxis_eq, h]

theorem productAxis_of_flat1 {fs : List Axis} (h : (flat1 fs).length ≠ 1) : productAxis fs = .prod (flat1 fs) := by
  rw [productAxis_eq]
  rcases hc : flat1 fs with _ | ⟨e1, _ | ⟨e2, E⟩⟩
  · rfl
  · rw [hc] at h; simp at h
  · rfl

theorem dispatch_right (next : Nat) (F : Nat) (st : St) (hst : st.subst = []) (E vaxes : List Axis)
    (hz : zeroList E = false) (hEl : E.length ≠ 1)
    (hw : Wk (E.map Axis.numel).reverse (((flat1 vaxes).map Axis.numel).reverse))
    (hwalk : ∃ st', unifyProd F E.reverse (flat1 vaxes).reverse st = (true, st'))
    (holdR : ∀ x ∈ flat1 vaxes, OldTerm next x) (hF : needList (flat1 vaxes) + 4 ≤ F + 1) :
    ∃ st', unify (F+1) (.prod E) (productAxis vaxes) st = (true, st') := by
  by_cases hl : (flat1 vaxes).length = 1
  · obtain ⟨r, hRc⟩ := List.length_eq_one_iff.1 hl
    rw [productAxis_single hRc]
    rw [hRc] at hw hwalk holdR hF
    have holdr := holdR r (by simp)
    simp only [List.map_cons, List.map_nil, List.reverse_cons, List.reverse_nil, List.nil_append] at hw
    cases r with
    | phys w n => exact ⟨_, unify_bindR F _ w n _ (by rw [hst]; simp [bound])⟩
    | prod gs =>
      obtain ⟨he, hn⟩ := Wk_single hw (by simpa using hEl)
      have hE : E = [] := by simpa using he
      subst hE
      exact ⟨_, (unit_ok (holdr.unitLike hn) (F+1) _ (by simp [needList] at hF; omega)).2⟩
    | sum b t a =>
      rcases E with _ | ⟨e1, E⟩
      · obtain ⟨_, hn⟩ := Wk_single hw (by simp)
        exact ⟨_, (unit_ok (holdr.unitLike hn) (F+1) _ (by simp [needList] at hF; omega)).2⟩
      · rw [unify_prod_sum _ _ _ _ _ _ _ hz]
        exact hwalk
  · rw [productAxis_of_flat1 hl, unify_prod_prod _ _ _ _ hz]; exact hwalk

/-- **the unification problem of `reshape` succeeds** when the sizes line up, for every large enough fuel -/
theorem unify_merge_ok (s : List Nat) (next : Nat) (vaxes : List Axis) (hs : ∀ n ∈ s, 0 < n)
    (hold : ∀ v ∈ vaxes, OldTerm next v)
    (hw : Wk ((s.filter (· ≠ 1)).reverse) (((flat1 vaxes).map Axis.numel).reverse)) (F : Nat)
    (hF : needList (flat1 vaxes) + 4 ≤ F) :
    ∃ st', unify F (productAxis (vnewOf s next)) (productAxis vaxes) ⟨[], next + s.length⟩ = (true, st') := by
  obtain ⟨F, rfl⟩ : ∃ F', F = F' + 1 := ⟨F - 1, by omega⟩
  have hfresh := ego_fresh s next hs
  have hE : flat1 (vnewOf s next) = ego s next := by rw [vnewOf_eq, flat1_vgo]
  have holdR : ∀ x ∈ flat1 vaxes, OldTerm next x := by
    intro x hx q hq
    obtain ⟨v, hv, hqv⟩ := (mem_fvList_flat1 vaxes).1 (mem_fvList.2 ⟨x, hx, hq⟩)
    exact hold v hv q hqv
  have holdP : OldTerm next (productAxis vaxes) := by
    intro q hq
    obtain ⟨v, hv, hqv⟩ := (mem_fv_productAxis vaxes).1 hq
    exact hold v hv q hqv
  have hEmem : ∀ x ∈ ego s next, ∃ v n, x = Axis.phys v n ∧ 2 ≤ n := by
    intro x hx
    obtain ⟨v, n, rfl, _, _, h3⟩ := ego_mem s next hs x hx
    exact ⟨v, n, rfl, h3⟩
  have hz : zeroList (ego s next) = false := zeroList_ego _ hEmem
  have hw' : Wk ((ego s next).map Axis.numel).reverse (((flat1 vaxes).map Axis.numel).reverse) := by
    rw [ego_numel]; exact hw
  have hwalk : ∃ st', unifyProd F (ego s next).reverse (flat1 vaxes).reverse ⟨[], next + s.length⟩ = (true, st') := by
    apply walk_ok next _ _ _ F hfresh (fun f hf => holdR f (List.mem_reverse.1 hf))
    · rw [List.map_reverse, List.map_reverse]; exact hw'
    · rw [needList_reverse]; omega
  by_cases hl : (ego s next).length = 1
  · -- a single fresh axis is bound at once
    obtain ⟨e1, hEc⟩ := List.length_eq_one_iff.1 hl
    obtain ⟨v, n, he1, h1, _, _⟩ := ego_mem s next hs e1 (by rw [hEc]; simp)
    rw [productAxis_single (hE.trans hEc), he1]
    refine ⟨_, unify_bindL F v n _ _ (by simp [bound]) ?_⟩
    rw [lookup_nil]
    exact samePhys_old h1 holdP
  · rw [productAxis_of_flat1 (by rw [hE]; exact hl), hE]
    exact dispatch_right next F _ rfl _ _ hz hl hw' hwalk holdR hF

end C06eL
