/-
C06iLemmas — helpers for Props/C06i.lean: with the empty substitution `strideS` is `strideC`; the axis identities of the
affine forms (`addCoeff`, `combine`, `strideC`, `projectForm`) as sets; the row-major position as an address of the
contiguous view; reading the coefficients of a form along a list of axis identities.
-/
import FggsModel.Strided
import FggsProofs.C07eStrideLemmas
import FggsProofs.C07eAddrLemmas
import FggsProofs.C06dBaseLemmas
import Mathlib.Tactic.Linarith
import Mathlib.Tactic.Ring
import Mathlib.Data.List.Basic
import Mathlib.Data.List.Nodup

set_option linter.unusedSimpArgs false
set_option linter.unusedVariables false

namespace C06iL
open Fggs Fggs.Ax Fggs.Un Fggs.Sd C07eL

/-! ### the empty substitution -/

theorem bound_nil (v : Nat) : bound [] v = none := rfl

theorem foldl_combine_eq_strideCList (g : Axis → Nat × Coeffs) : ∀ (fs : List Axis) (acc : Nat × Coeffs),
    (∀ f ∈ fs, g f = strideC f) →
    fs.foldl (fun acc f => combine acc f.numel (g f)) acc = strideCList fs acc
  | [], acc, _ => by rw [strideCList]; rfl
  | f :: fs, acc, h => by
    rw [List.foldl_cons, strideCList, h f (by simp)]
    exact foldl_combine_eq_strideCList g fs _ (fun x hx => h x (by simp [hx]))

theorem strideS_nil : ∀ (fuel : Nat) (e : Axis), strideS [] fuel e = strideC e
  | 0, e => by rw [strideS]
  | fuel+1, .phys v n => by rw [strideS, bound_nil, strideC]
  | fuel+1, .prod fs => by
    rw [strideS, strideC]
    exact foldl_combine_eq_strideCList _ fs _ (fun f _ => strideS_nil fuel f)
  | fuel+1, .sum b t a => by rw [strideS, strideC, strideS_nil fuel t]

theorem evalS_nil (ρ : Nat → Nat) (fuel : Nat) (e : Axis) : evalS [] ρ fuel e = e.eval ρ := by
  rw [← (strideS_aux [] ρ fuel e).1, strideS_nil, (strideC_aux ρ e).1]

/-! ### the axis identities of the forms, as sets -/

theorem mem_keys_addCoeff (s : Coeffs) (k : Nat × Nat) (c v : Nat) :
    v ∈ keys (Sd.addCoeff s k c) ↔ v ∈ keys s ∨ v = k.1 := by
  unfold Sd.addCoeff
  by_cases h : s.any (·.1.1 == k.1) = true
  · rw [if_pos h, keys_upd]
    have hv := (any_iff_mem_keys s k.1).1 h
    constructor
    · exact Or.inl
    · rintro (h | rfl)
      · exact h
      · exact hv
  · rw [if_neg h]
    simp [keys]

theorem mem_keys_foldl_addCoeff (g : (Nat × Nat) × Nat → Nat) (v : Nat) : ∀ (s' s : Coeffs),
    v ∈ keys (s'.foldl (fun acc p => Sd.addCoeff acc p.1 (g p)) s) ↔ v ∈ keys s ∨ v ∈ keys s'
  | [], s => by simp [keys]
  | p :: s', s => by
    rw [List.foldl_cons, mem_keys_foldl_addCoeff g v s', mem_keys_addCoeff]
    simp only [keys, List.map_cons, List.mem_cons]
    tauto

theorem mem_keys_combine (acc : Nat × Coeffs) (n : Nat) (f : Nat × Coeffs) (v : Nat) :
    v ∈ keys (combine acc n f).2 ↔ v ∈ keys acc.2 ∨ v ∈ keys f.2 := by
  unfold combine
  simp only
  rw [mem_keys_foldl_addCoeff (fun p => p.2), keys_scale]

mutual
theorem mem_keys_strideC (v : Nat) : ∀ (e : Axis), v ∈ keys (strideC e).2 ↔ v ∈ e.fv.map (·.1)
  | .phys w n => by simp [strideC, Axis.fv, keys]
  | .prod fs => by
    rw [strideC, Axis.fv, mem_keys_strideCList v fs]
    simp [keys]
  | .sum b t a => by
    rw [strideC, Axis.fv]
    exact mem_keys_strideC v t
theorem mem_keys_strideCList (v : Nat) : ∀ (fs : List Axis) (acc : Nat × Coeffs),
    v ∈ keys (strideCList fs acc).2 ↔ v ∈ keys acc.2 ∨ v ∈ (fvList fs).map (·.1)
  | [], acc => by simp [strideCList, fvList]
  | f :: fs, acc => by
    rw [strideCList, mem_keys_strideCList v fs, mem_keys_combine, mem_keys_strideC v f, fvList, List.map_append,
      List.mem_append]
    tauto
end

theorem mem_keys_projFold (σ : Subst) (v : Nat) : ∀ (l : List (Axis × Nat)) (acc : Nat × Coeffs),
    v ∈ keys (l.foldl (fun (acc : Nat × Coeffs) (p : Axis × Nat) =>
        let r := strideS σ FUEL p.1
        (acc.1 + r.1 * p.2, r.2.foldl (fun s q => Sd.addCoeff s q.1 (q.2 * p.2)) acc.2)) acc).2
      ↔ v ∈ keys acc.2 ∨ ∃ p ∈ l, v ∈ keys (strideS σ FUEL p.1).2
  | [], acc => by simp
  | p :: l, acc => by
    rw [List.foldl_cons, mem_keys_projFold σ v l]
    simp only
    rw [mem_keys_foldl_addCoeff (fun q => q.2 * p.2)]
    simp only [List.mem_cons, exists_eq_or_imp]
    tauto

theorem length_contiguousStrides : ∀ (s : List Nat), (contiguousStrides s).length = s.length
  | [] => rfl
  | _ :: s => by rw [contiguousStrides, List.length_cons, List.length_cons, length_contiguousStrides s]

/-- the axis identities of the form of `to_dense`'s view are those of the free axes of the virtual axes -/
theorem mem_keys_projectForm_nil (vaxes : List Axis) (v : Nat) :
    v ∈ keys (projectForm (contiguous (vaxes.map Axis.numel)) vaxes []).2 ↔ ∃ e ∈ vaxes, v ∈ e.fv.map (·.1) := by
  unfold projectForm
  rw [mem_keys_projFold]
  simp only [keys, List.map_nil, List.not_mem_nil, false_or]
  have hfst : ((vaxes.zip (contiguous (vaxes.map Axis.numel)).strides).map Prod.fst) = vaxes := by
    apply List.map_fst_zip
    simp [contiguous, length_contiguousStrides]
  constructor
  · rintro ⟨p, hp, hv⟩
    refine ⟨p.1, ?_, ?_⟩
    · rw [← hfst]; exact List.mem_map_of_mem hp
    · rw [strideS_nil] at hv
      exact (mem_keys_strideC v p.1).1 hv
  · rintro ⟨e, he, hv⟩
    rw [← hfst] at he
    obtain ⟨p, hp, rfl⟩ := List.mem_map.1 he
    refine ⟨p, hp, ?_⟩
    rw [strideS_nil]
    exact (mem_keys_strideC v p.1).2 hv

/-! ### the row-major position as an address of the contiguous view -/

theorem addr_contiguous : ∀ (vs is : List Nat) (o : Nat),
    (is.zip (contiguousStrides vs)).foldl (fun acc p => acc + p.1 * p.2) o = o + flat vs is
  | [], is, o => by simp [contiguousStrides, flat]
  | n :: vs, [], o => by simp [flat]
  | n :: vs, i :: is, o => by
    rw [contiguousStrides, List.zip_cons_cons, List.foldl_cons, addr_contiguous vs is, flat]
    ring

/-! ### reading the coefficients of a form along a list of identities -/

/-- the coefficient of the axis `v` in a form, as `projectOnto` reads it -/
def coef (s : Coeffs) (v : Nat) : Nat := ((s.find? (·.1.1 == v)).map (·.2)).getD 0

theorem coef_nil (v : Nat) : coef [] v = 0 := rfl

theorem coef_cons (p : (Nat × Nat) × Nat) (s : Coeffs) (v : Nat) :
    coef (p :: s) v = if p.1.1 = v then p.2 else coef s v := by
  unfold coef
  rw [List.find?_cons]
  by_cases h : p.1.1 = v
  · simp [h]
  · have : (p.1.1 == v) = false := by simpa using h
    rw [this, if_neg h]

theorem coef_not_mem : ∀ (s : Coeffs) (v : Nat), v ∉ keys s → coef s v = 0
  | [], v, _ => rfl
  | p :: s, v, h => by
    simp only [keys, List.map_cons, List.mem_cons, not_or] at h
    rw [coef_cons, if_neg (fun e => h.1 e.symm)]
    exact coef_not_mem s v h.2

theorem sum_map_zero {α : Type} (f : α → Nat) : ∀ (L : List α), (∀ x ∈ L, f x = 0) → (L.map f).sum = 0
  | [], _ => rfl
  | x :: L, h => by
    rw [List.map_cons, List.sum_cons, h x (by simp), sum_map_zero f L (fun y hy => h y (by simp [hy]))]

theorem sum_map_add' {α : Type} (f g : α → Nat) : ∀ (L : List α),
    (L.map (fun x => f x + g x)).sum = (L.map f).sum + (L.map g).sum
  | [] => rfl
  | x :: L => by
    rw [List.map_cons, List.map_cons, List.map_cons, List.sum_cons, List.sum_cons, List.sum_cons, sum_map_add' f g L]
    ring

theorem sum_single (a c : Nat) (f : Nat → Nat) : ∀ (L : List Nat), L.Nodup → a ∈ L →
    (L.map (fun v => if a = v then f v else 0)).sum = f a
  | [], _, h => by simp at h
  | x :: L, hn, h => by
    rw [List.nodup_cons] at hn
    rw [List.map_cons, List.sum_cons]
    by_cases e : a = x
    · subst e
      have : (L.map (fun v => if a = v then f v else 0)).sum = 0 := by
        apply sum_map_zero
        intro v hv
        rw [if_neg]
        rintro rfl
        exact hn.1 hv
      rw [this]; simp
    · rw [if_neg e, Nat.zero_add]
      exact sum_single a c f L hn.2 (by
        rcases List.mem_cons.1 h with h | h
        · exact absurd h e
        · exact h)

theorem sum_coef (ρ : Nat → Nat) : ∀ (s : Coeffs) (L : List Nat), (keys s).Nodup → L.Nodup → (∀ k ∈ keys s, k ∈ L) →
    (L.map (fun v => ρ v * coef s v)).sum = lin ρ s
  | [], L, _, _, _ => by
    simp [coef_nil, lin]
  | p :: s, L, hs, hL, hsub => by
    simp only [keys, List.map_cons, List.nodup_cons] at hs
    have hp : p.1.1 ∈ L := hsub _ (by simp [keys])
    have ih := sum_coef ρ s L hs.2 hL (fun k hk => hsub k (by simp only [keys, List.map_cons, List.mem_cons]; exact Or.inr hk))
    have hpt : ∀ v, ρ v * coef (p :: s) v = ρ v * coef s v + (if p.1.1 = v then p.2 * ρ v else 0) := by
      intro v
      rw [coef_cons]
      by_cases e : p.1.1 = v
      · rw [if_pos e, if_pos e, coef_not_mem s v (e ▸ hs.1)]; ring
      · rw [if_neg e, if_neg e]; rfl
    simp only [hpt]
    rw [sum_map_add', ih, sum_single p.1.1 0 (fun v => p.2 * ρ v) L hL hp, lin]
    ring

/-- the address of the view `projectOnto` builds, at the index tuple of an assignment -/
theorem addr_projected (ρ : Nat → Nat) (s : Coeffs) (o : Nat) (paxes : List (Nat × Nat))
    (hs : (keys s).Nodup) (hp : (paxes.map (·.1)).Nodup) (hsub : ∀ k ∈ keys s, k ∈ paxes.map (·.1)) :
    ((paxes.map (fun p => ρ p.1)).zip (paxes.map (fun p => ((s.find? (·.1.1 == p.1)).map (·.2)).getD 0))).foldl
        (fun acc p => acc + p.1 * p.2) o = o + lin ρ s := by
  rw [addr_map, foldl_add_sum]
  congr 1
  have := sum_coef ρ s (paxes.map (·.1)) hs hp hsub
  rw [List.map_map] at this
  exact this

theorem foldl_congr_mem {α β : Type} (f g : α → β → α) : ∀ (l : List β) (a : α), (∀ a, ∀ b ∈ l, f a b = g a b) →
    l.foldl f a = l.foldl g a
  | [], a, _ => rfl
  | b :: l, a, h => by
    rw [List.foldl_cons, List.foldl_cons, h a b (by simp)]
    exact foldl_congr_mem f g l _ (fun a x hx => h a x (by simp [hx]))

/-- `projectOnto` succeeds when the axis identities of the form are exactly the given ones -/
theorem projectOnto_some (virt : View) (paxes : List (Nat × Nat)) (vaxes : List Axis) (σ : Subst)
    (h1 : ∀ k ∈ keys (projectForm virt vaxes σ).2, k ∈ paxes.map (·.1))
    (h2 : ∀ p ∈ paxes, p.1 ∈ keys (projectForm virt vaxes σ).2) :
    projectOnto virt paxes vaxes σ = some ⟨paxes.map (·.2),
      paxes.map (fun p => (((projectForm virt vaxes σ).2.find? (·.1.1 == p.1)).map (·.2)).getD 0),
      (projectForm virt vaxes σ).1⟩ := by
  unfold projectOnto
  simp only
  rw [if_pos]
  rw [Bool.and_eq_true, List.all_eq_true, List.all_eq_true]
  constructor
  · intro k hk
    have := h1 k hk
    rw [List.any_eq_true]
    obtain ⟨p, hp, rfl⟩ := List.mem_map.1 this
    exact ⟨p, hp, by simp⟩
  · intro p hp
    have := h2 p hp
    simpa [keys] using this

end C06iL
