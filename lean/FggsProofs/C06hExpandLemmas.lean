/-
Helper lemmas for Props/C06h.lean, part 1: `Sh.expand`.

* the cells of `dense` by backing assignments (`cell_backed`, `cell_unbacked`, `cell_transfer`);
* the loop of `expand` as two structurally recursive functions `outV` (the new virtual axes) and `outK` (the fresh
  physical axes), `expand_eq`;
* the meaning of the new virtual axes (`outV_eval_iff`): an assignment is mapped to the index tuple `idx` iff it is
  mapped by the operand's axes to the source index and the fresh axes carry the coordinates of `idx` at the grown
  dimensions;
* the raw result satisfies `NormOK`, and its cells are the source cells of the operand (`raw_cell`).
-/
import FggsModel.ShapeOps
import FggsProofs.Props.C06
import FggsProofs.C06bLemmas
import FggsProofs.C06dBaseLemmas
import FggsProofs.C06dSideLemmas
import Mathlib.Tactic.Linarith
import Mathlib.Data.List.Basic

set_option linter.unusedSimpArgs false
set_option linter.unusedVariables false

namespace C06hL
open Fggs Fggs.Ax Fggs.Un Fggs.Sh Fggs.Bn C06b C06dL

/-! ### cells -/

theorem cell_backed {T : PT} (h : Sem T) {c : List Nat} {ρ : Nat → Nat} (hb : Backs T c ρ) :
    T.dense[flat T.vshape c]?.getD T.default =
      T.physical[flat (T.paxes.map (·.2)) (pidx T.paxes ρ)]?.getD T.default := by
  rw [dense_backed h hb]; rfl

theorem cell_unbacked {T : PT} (h : Sem T) {c : List Nat} (hc : c ∈ assigns T.vshape) (hn : ∀ ρ, ¬ Backs T c ρ) :
    T.dense[flat T.vshape c]?.getD T.default = T.default := by
  rw [dense_unbacked h hc hn]; rfl

/-- two cells of two tensors with the same default are equal if backing assignments correspond and select equal
physical elements -/
theorem cell_transfer {A B : PT} (hA : Sem A) (hB : Sem B) (hd : A.default = B.default) {c d : List Nat}
    (hc : c ∈ assigns A.vshape) (hdm : d ∈ assigns B.vshape)
    (h1 : ∀ ρ, Backs A c ρ → ∃ ρ', Backs B d ρ' ∧
      A.physical[flat (A.paxes.map (·.2)) (pidx A.paxes ρ)]?.getD A.default =
        B.physical[flat (B.paxes.map (·.2)) (pidx B.paxes ρ')]?.getD B.default)
    (h2 : ∀ ρ', Backs B d ρ' → ∃ ρ, Backs A c ρ) :
    A.dense[flat A.vshape c]?.getD A.default = B.dense[flat B.vshape d]?.getD B.default := by
  by_cases hb : ∃ ρ, Backs A c ρ
  · obtain ⟨ρ, hρ⟩ := hb
    obtain ⟨ρ', hρ', hv⟩ := h1 ρ hρ
    rw [cell_backed hA hρ, cell_backed hB hρ', hv]
  · have hnA : ∀ ρ, ¬ Backs A c ρ := fun ρ hρ => hb ⟨ρ, hρ⟩
    have hnB : ∀ ρ', ¬ Backs B d ρ' := fun ρ' hρ' => hb (h2 ρ' hρ')
    rw [cell_unbacked hA hc hnA, cell_unbacked hB hdm hnB, hd]

theorem normalize_default (T : PT) : (normalize T).default = T.default := by
  unfold normalize
  simp only
  split <;> rfl

/-- in-range from the index tuple -/
theorem inRange_of_pidx {ks : List (Nat × Nat)} {ρ : Nat → Nat}
    (h : List.Forall₂ (· < ·) (pidx ks ρ) (ks.map (·.2))) : ∀ k ∈ ks, ρ k.1 < k.2 := by
  unfold pidx at h
  rw [List.forall₂_map_left_iff, List.forall₂_map_right_iff, List.forall₂_same] at h
  exact h

/-- an element of a list built over `assigns` at the flat position of an index tuple -/
theorem getElem?_map_assigns {α : Type} (f : List Nat → α) {shape c : List Nat} (hc : c ∈ assigns shape) :
    ((assigns shape).map f)[flat shape c]? = some (f c) := by
  rw [List.getElem?_map, getElem_flat hc]; rfl

/-! ### one step of the loop -/

/-- does the dimension grow? -/
def grow (p : Option Axis × Nat) : Bool :=
  match p.1 with
  | none => true
  | some e => e.numel == 1 && p.2 != 1

/-- the new virtual axis -/
def stepAxis (p : Option Axis × Nat) (fresh : Nat) : Axis :=
  if grow p then
    match p.1 with
    | none => .phys fresh p.2
    | some e => if isUnit e then .phys fresh p.2 else productAxis [e, .phys fresh p.2]
  else p.1.getD unitAxis

/-- torch's rule for one dimension -/
def stepOK (p : Option Axis × Nat) : Bool :=
  match p.1 with
  | none => true
  | some e => e.numel == 1 || e.numel == p.2

theorem expandStep_eq (e : Option Axis) (n fresh : Nat) :
    expandStep e n fresh =
      if (stepAxis (e, n) fresh).numel != n then none
      else some (stepAxis (e, n) fresh, if grow (e, n) then some (fresh, n) else none) := by
  unfold expandStep stepAxis grow
  cases e with
  | none => simp
  | some e =>
    by_cases hg : (e.numel == 1 && n != 1) = true
    · by_cases hu : isUnit e = true <;> simp [hg, hu]
    · simp [hg]

theorem grow_some {e : Axis} {n : Nat} (h : grow (some e, n) = true) : e.numel = 1 ∧ n ≠ 1 := by
  simpa [grow] using h

theorem not_grow_some {p : Option Axis × Nat} (h : grow p = false) : ∃ e, p.1 = some e := by
  obtain ⟨a, n⟩ := p
  cases a with
  | none => simp [grow] at h
  | some e => exact ⟨e, rfl⟩

theorem stepAxis_numel (p : Option Axis × Nat) (fresh : Nat) :
    (stepAxis p fresh).numel = if grow p then p.2 else (p.1.getD unitAxis).numel := by
  obtain ⟨a, n⟩ := p
  unfold stepAxis
  by_cases hg : grow (a, n) = true
  · rw [if_pos hg, if_pos hg]
    cases a with
    | none => simp [Axis.numel]
    | some e =>
      obtain ⟨h1, _⟩ := grow_some hg
      by_cases hu : isUnit e = true
      · simp [hu, Axis.numel]
      · simp only [hu]
        rw [if_neg (by simp), C06.productAxis_numel]
        simp [Axis.numel, numelList, h1]
  · rw [if_neg hg, if_neg hg]

theorem stepAxis_numel_iff (p : Option Axis × Nat) (fresh : Nat) :
    (stepAxis p fresh).numel = p.2 ↔ stepOK p = true := by
  rw [stepAxis_numel]
  obtain ⟨a, n⟩ := p
  cases a with
  | none => simp [grow, stepOK]
  | some e =>
    by_cases hg : grow (some e, n) = true
    · obtain ⟨h1, _⟩ := grow_some hg
      simp [hg, stepOK, h1]
    · rw [if_neg hg]
      simp only [grow, Bool.and_eq_true, beq_iff_eq, bne_iff_ne, not_and, not_not] at hg
      simp only [stepOK, Option.getD_some, Bool.or_eq_true, beq_iff_eq]
      constructor
      · intro h; exact Or.inr h
      · rintro (h | h)
        · rw [h, hg h]
        · exact h

/-! ### the loop -/

/-- the new virtual axes: the fresh axis of a dimension is numbered after the fresh axes of the dimensions to its right -/
def outV (next : Nat) : List (Option Axis × Nat) → List Axis
  | [] => []
  | p :: L => stepAxis p (next + (L.filter grow).length) :: outV next L

/-- the fresh physical axes, leftmost dimension first -/
def outK (next : Nat) : List (Option Axis × Nat) → List (Nat × Nat)
  | [] => []
  | p :: L => if grow p then (next + (L.filter grow).length, p.2) :: outK next L else outK next L

theorem length_outK (next : Nat) : ∀ L, (outK next L).length = (L.filter grow).length
  | [] => rfl
  | p :: L => by
    by_cases hg : grow p = true
    · simp [outK, hg, length_outK next L]
    · simp [outK, hg, length_outK next L]

theorem length_outV (next : Nat) : ∀ L, (outV next L).length = L.length
  | [] => rfl
  | p :: L => by simp [outV, length_outV next L]

/-- the loop body of `expand` -/
def loopF (next : Nat) (acc : Option (List Axis × List (Nat × Nat))) (p : Option Axis × Nat) :
    Option (List Axis × List (Nat × Nat)) :=
  match acc with
  | none => none
  | some (vs, ks) =>
    match expandStep p.1 p.2 (next + ks.length) with
    | none => none
    | some (e', k) => some (e' :: vs, match k with | some k => k :: ks | none => ks)

theorem loop_eq (next : Nat) : ∀ L : List (Option Axis × Nat),
    L.foldr (fun p acc => loopF next acc p) (some ([], [])) =
      if L.all stepOK then some (outV next L, outK next L) else none
  | [] => rfl
  | p :: L => by
    rw [List.foldr_cons, loop_eq next L, List.all_cons]
    by_cases hL : L.all stepOK = true
    · rw [if_pos hL, hL, Bool.and_true]
      unfold loopF
      simp only
      rw [expandStep_eq, length_outK]
      by_cases hp : stepOK p = true
      · have := (stepAxis_numel_iff p (next + (L.filter grow).length)).2 hp
        rw [if_neg (by simpa using this), if_pos hp]
        by_cases hg : grow p = true
        · simp [outV, outK, hg]
        · simp [outV, outK, hg]
      · have := fun h => hp ((stepAxis_numel_iff p (next + (L.filter grow).length)).1 h)
        rw [if_pos (by simpa using this), if_neg hp]
    · rw [if_neg hL]
      have : (stepOK p && L.all stepOK) = false := by simp [hL]
      rw [this]
      simp [loopF]

/-- the list the loop of `expand` runs over -/
def loopList (t : PT) (sizes : List Nat) : List (Option Axis × Nat) :=
  (List.replicate (sizes.length - t.vaxes.length) none ++ t.vaxes.map some).zip sizes

/-- the result of `expand` before the constructor's normalisation -/
def rawR (t : PT) (sizes : List Nat) (next : Nat) : PT :=
  let L := loopList t sizes
  let ks := outK next L
  { physical := (assigns ((ks ++ t.paxes).map (·.2))).map (fun idx =>
      t.physical[flat (t.paxes.map (·.2)) (idx.drop ks.length)]?.getD t.default),
    paxes := ks ++ t.paxes, vaxes := outV next L, default := t.default }

theorem expand_eq (t : PT) (sizes : List Nat) (next : Nat) :
    expand t sizes next =
      if sizes.length < t.vaxes.length then none
      else if (loopList t sizes).all stepOK then some (normalize (rawR t sizes next)) else none := by
  unfold expand
  by_cases hl : sizes.length < t.vaxes.length
  · rw [if_pos hl, if_pos hl]
  · rw [if_neg hl, if_neg hl]
    simp only
    rw [List.foldl_reverse]
    generalize hfold : List.foldr _ _ _ = r
    have hr : r = if (loopList t sizes).all stepOK then
        some (outV next (loopList t sizes), outK next (loopList t sizes)) else none := by
      rw [← hfold]; exact loop_eq next (loopList t sizes)
    by_cases hs : (loopList t sizes).all stepOK = true
    · rw [if_pos hs] at hr
      rw [if_pos hs, hr]
      rfl
    · rw [if_neg hs] at hr
      rw [if_neg hs, hr]

/-! ### meaning of the new axes -/

theorem isUnit_eq {e : Axis} (h : isUnit e = true) : e = unitAxis := by
  unfold isUnit at h
  split at h
  · rfl
  · cases h

theorem stepAxis_eval (p : Option Axis × Nat) (fresh : Nat) (ρ : Nat → Nat)
    (hr : ∀ e, p.1 = some e → InRange ρ e) :
    (stepAxis p fresh).eval ρ = if grow p then ρ fresh else (p.1.getD unitAxis).eval ρ := by
  obtain ⟨a, n⟩ := p
  unfold stepAxis
  by_cases hg : grow (a, n) = true
  · rw [if_pos hg, if_pos hg]
    cases a with
    | none => simp [Axis.eval]
    | some e =>
      obtain ⟨h1, _⟩ := grow_some hg
      have h0 : e.eval ρ = 0 := by have := (hr e rfl).lt; omega
      by_cases hu : isUnit e = true
      · simp [hu, Axis.eval]
      · simp only [hu]
        rw [if_neg (by simp), C06.productAxis_eval]
        simp [Axis.eval, evalList, h0]
  · rw [if_neg hg, if_neg hg]

theorem mem_fv_stepAxis (p : Option Axis × Nat) (fresh : Nat) (q : Nat × Nat) :
    q ∈ (stepAxis p fresh).fv ↔ (grow p = true ∧ q = (fresh, p.2)) ∨ ∃ e, p.1 = some e ∧ q ∈ e.fv := by
  obtain ⟨a, n⟩ := p
  unfold stepAxis
  by_cases hg : grow (a, n) = true
  · rw [if_pos hg]
    cases a with
    | none => simp [Axis.fv, hg]
    | some e =>
      by_cases hu : isUnit e = true
      · have := isUnit_eq hu
        subst this
        simp [hu, Axis.fv, hg, unitAxis_fv]
      · simp only [hu]
        rw [if_neg (by simp), mem_fv_productAxis]
        simp [Axis.fv, hg, or_comm]
  · rw [if_neg hg]
    obtain ⟨e, he⟩ := not_grow_some (by simpa using hg)
    simp only at he
    subst he
    simp [hg]

/-- the coordinates of an index tuple at the grown dimensions -/
def picks : List (Option Axis × Nat) → List Nat → List Nat
  | p :: L, i :: is => if grow p then i :: picks L is else picks L is
  | _, _ => []

/-- the operand's axes send the assignment to the source index -/
def srcOK (ρ : Nat → Nat) : List (Option Axis × Nat) → List Nat → Prop
  | p :: L, i :: is => (∀ e, p.1 = some e → e.eval ρ = if e.numel = 1 then 0 else i) ∧ srcOK ρ L is
  | _, _ => True

theorem outV_eval_iff (next : Nat) (ρ : Nat → Nat) : ∀ (L : List (Option Axis × Nat)) (idx : List Nat),
    L.all stepOK = true → (∀ p ∈ L, ∀ e, p.1 = some e → InRange ρ e) →
    List.Forall₂ (· < ·) idx (L.map (·.2)) →
    ((outV next L).map (Axis.eval ρ) = idx ↔ srcOK ρ L idx ∧ pidx (outK next L) ρ = picks L idx)
  | [], idx, _, _, h => by
    cases h
    simp [outV, outK, srcOK, picks, pidx]
  | p :: L, idx, hok, hr, h => by
    rw [List.map_cons] at h
    cases h with
    | @cons i _ is _ hi hrest =>
      rw [List.all_cons, Bool.and_eq_true] at hok
      have ih := outV_eval_iff next ρ L is hok.2 (fun q hq => hr q (List.mem_cons_of_mem _ hq)) hrest
      have hrp := hr p List.mem_cons_self
      rw [outV, List.map_cons, List.cons.injEq, ih, stepAxis_eval p _ ρ hrp, srcOK]
      by_cases hg : grow p = true
      · have hhead : ∀ e, p.1 = some e → e.eval ρ = if e.numel = 1 then 0 else i := by
          intro e he
          obtain ⟨a, n⟩ := p
          simp only at he
          subst he
          obtain ⟨h1, _⟩ := grow_some hg
          have := (hrp e rfl).lt
          rw [if_pos h1]; omega
        simp only [outK, picks, hg, if_true, pidx, List.map_cons, List.cons.injEq]
        constructor
        · rintro ⟨h1, h2, h3⟩
          exact ⟨⟨hhead, h2⟩, h1, h3⟩
        · rintro ⟨⟨_, h2⟩, h1, h3⟩
          exact ⟨h1, h2, h3⟩
      · obtain ⟨e, he⟩ := not_grow_some (by simpa using hg)
        have hhead : (e.eval ρ = i) ↔ ∀ e', p.1 = some e' → e'.eval ρ = if e'.numel = 1 then 0 else i := by
          have hstep : e.numel = 1 → i = 0 := by
            intro h1
            have hok1 := hok.1
            have hg' := hg
            obtain ⟨a, n⟩ := p
            simp only at he
            subst he
            simp only [stepOK, Bool.or_eq_true, beq_iff_eq] at hok1
            simp only [grow, Bool.and_eq_true, beq_iff_eq, bne_iff_ne, not_and, not_not] at hg'
            have hn1 : n = 1 := hg' h1
            simp only at hi
            omega
          constructor
          · intro h e' he'
            rw [he] at he'
            cases he'
            by_cases h1 : e.numel = 1
            · rw [if_pos h1, h, hstep h1]
            · rw [if_neg h1, h]
          · intro h
            have := h e he
            by_cases h1 : e.numel = 1
            · rw [if_pos h1] at this; rw [this, hstep h1]
            · rw [if_neg h1] at this; exact this
        have hgd : p.1.getD unitAxis = e := by rw [he]; rfl
        simp only [outK, picks, hg, if_false, Bool.false_eq_true, hgd]
        rw [hhead]
        constructor
        · rintro ⟨h1, h2, h3⟩
          exact ⟨⟨h1, h2⟩, h3⟩
        · rintro ⟨⟨h1, h2⟩, h3⟩
          exact ⟨h1, h2, h3⟩

/-! ### the fresh axes -/

theorem outK_ids (next : Nat) : ∀ (L : List (Option Axis × Nat)), ∀ k ∈ outK next L,
    next ≤ k.1 ∧ k.1 < next + (L.filter grow).length
  | [], k, hk => by simp [outK] at hk
  | p :: L, k, hk => by
    by_cases hg : grow p = true
    · simp only [outK, hg, if_true, List.mem_cons] at hk
      simp only [List.filter_cons, hg, if_true, List.length_cons]
      rcases hk with rfl | hk
      · simp
      · have := outK_ids next L k hk
        omega
    · simp only [outK, hg, if_false, Bool.false_eq_true] at hk
      simp only [List.filter_cons, hg, if_false, Bool.false_eq_true]
      exact outK_ids next L k hk

theorem outK_nodup (next : Nat) : ∀ (L : List (Option Axis × Nat)), ((outK next L).map (·.1)).Nodup
  | [] => by simp [outK]
  | p :: L => by
    by_cases hg : grow p = true
    · simp only [outK, hg, if_true, List.map_cons, List.nodup_cons]
      refine ⟨?_, outK_nodup next L⟩
      intro hm
      obtain ⟨k, hk, he⟩ := List.mem_map.1 hm
      have := outK_ids next L k hk
      omega
    · simp only [outK, hg, if_false, Bool.false_eq_true]
      exact outK_nodup next L

theorem picks_forall₂ (next : Nat) : ∀ (L : List (Option Axis × Nat)) (idx : List Nat),
    List.Forall₂ (· < ·) idx (L.map (·.2)) → List.Forall₂ (· < ·) (picks L idx) ((outK next L).map (·.2))
  | [], idx, h => by cases h; simp [picks, outK]
  | p :: L, idx, h => by
    rw [List.map_cons] at h
    cases h with
    | @cons i _ is _ hi hrest =>
      have ih := picks_forall₂ next L is hrest
      by_cases hg : grow p = true
      · simp only [picks, outK, hg, if_true, List.map_cons]
        exact List.Forall₂.cons hi ih
      · simp only [picks, outK, hg, if_false, Bool.false_eq_true]
        exact ih

/-! ### positions -/

theorem mem_outV {next : Nat} : ∀ {L : List (Option Axis × Nat)} {g : Axis}, g ∈ outV next L →
    ∃ p ∈ L, ∃ fresh, g = stepAxis p fresh ∧ (grow p = true → (fresh, p.2) ∈ outK next L)
  | [], g, h => by simp [outV] at h
  | p :: L, g, h => by
    rw [outV, List.mem_cons] at h
    rcases h with rfl | h
    · refine ⟨p, List.mem_cons_self, _, rfl, ?_⟩
      intro hg
      simp [outK, hg]
    · obtain ⟨q, hq, fresh, he, hk⟩ := mem_outV h
      refine ⟨q, List.mem_cons_of_mem _ hq, fresh, he, ?_⟩
      intro hg
      by_cases hp : grow p = true
      · simp [outK, hp, hk hg]
      · simp [outK, hp, hk hg]

theorem outV_of_mem {next : Nat} : ∀ {L : List (Option Axis × Nat)} {p : Option Axis × Nat}, p ∈ L →
    ∃ fresh, stepAxis p fresh ∈ outV next L ∧ (grow p = true → (fresh, p.2) ∈ outK next L)
  | [], p, h => by simp at h
  | q :: L, p, h => by
    rcases List.mem_cons.1 h with rfl | h
    · refine ⟨_, by rw [outV]; exact List.mem_cons_self, ?_⟩
      intro hg
      simp [outK, hg]
    · obtain ⟨fresh, h1, h2⟩ := outV_of_mem (next := next) h
      refine ⟨fresh, by rw [outV]; exact List.mem_cons_of_mem _ h1, ?_⟩
      intro hg
      by_cases hq : grow q = true
      · simp [outK, hq, h2 hg]
      · simp [outK, hq, h2 hg]

theorem outK_occ {next : Nat} : ∀ {L : List (Option Axis × Nat)} {k : Nat × Nat}, k ∈ outK next L →
    ∃ p ∈ L, grow p = true ∧ k.2 = p.2 ∧ stepAxis p k.1 ∈ outV next L
  | [], k, h => by simp [outK] at h
  | q :: L, k, h => by
    by_cases hq : grow q = true
    · simp only [outK, hq, if_true, List.mem_cons] at h
      rcases h with rfl | h
      · exact ⟨q, List.mem_cons_self, hq, rfl, by rw [outV]; exact List.mem_cons_self⟩
      · obtain ⟨p, hp, h1, h2, h3⟩ := outK_occ h
        exact ⟨p, List.mem_cons_of_mem _ hp, h1, h2, by rw [outV]; exact List.mem_cons_of_mem _ h3⟩
    · simp only [outK, hq, if_false, Bool.false_eq_true] at h
      obtain ⟨p, hp, h1, h2, h3⟩ := outK_occ h
      exact ⟨p, List.mem_cons_of_mem _ hp, h1, h2, by rw [outV]; exact List.mem_cons_of_mem _ h3⟩

theorem outV_numel (next : Nat) : ∀ (L : List (Option Axis × Nat)), L.all stepOK = true →
    (outV next L).map Axis.numel = L.map (·.2)
  | [], _ => rfl
  | p :: L, h => by
    rw [List.all_cons, Bool.and_eq_true] at h
    rw [outV, List.map_cons, List.map_cons, outV_numel next L h.2, (stepAxis_numel_iff p _).2 h.1]

/-! ### the list of `expand` -/

/-- the index of the operand that a cell of the expanded tensor reads -/
def src (shape sizes idx : List Nat) : List Nat :=
  (List.zip shape (idx.drop (sizes.length - shape.length))).map (fun p => if p.1 = 1 then 0 else p.2)

theorem loopList_split (t : PT) (sizes : List Nat) (hl : t.vaxes.length ≤ sizes.length) :
    loopList t sizes =
      (List.replicate (sizes.length - t.vaxes.length) (none : Option Axis)).zip (sizes.take (sizes.length - t.vaxes.length)) ++
        (t.vaxes.map some).zip (sizes.drop (sizes.length - t.vaxes.length)) := by
  have := List.zip_append (l₁ := List.replicate (sizes.length - t.vaxes.length) (none : Option Axis))
    (r₁ := t.vaxes.map some) (l₂ := sizes.take (sizes.length - t.vaxes.length))
    (r₂ := sizes.drop (sizes.length - t.vaxes.length)) (by simp)
  rw [List.take_append_drop] at this
  exact this

theorem loopList_snd (t : PT) (sizes : List Nat) (hl : t.vaxes.length ≤ sizes.length) :
    (loopList t sizes).map (·.2) = sizes := by
  unfold loopList
  apply List.map_snd_zip
  simp; omega

theorem loopList_fst (t : PT) (sizes : List Nat) (hl : t.vaxes.length ≤ sizes.length) :
    (loopList t sizes).map (·.1) = List.replicate (sizes.length - t.vaxes.length) none ++ t.vaxes.map some := by
  unfold loopList
  apply List.map_fst_zip
  simp; omega

theorem loopList_some {t : PT} {sizes : List Nat} {p : Option Axis × Nat} (hp : p ∈ loopList t sizes) {e : Axis}
    (he : p.1 = some e) : e ∈ t.vaxes := by
  unfold loopList at hp
  obtain ⟨a, n⟩ := p
  have := (List.of_mem_zip hp).1
  simp only at he
  subst he
  simpa using this

theorem loopList_of_mem {t : PT} {sizes : List Nat} (hl : t.vaxes.length ≤ sizes.length) {e : Axis}
    (he : e ∈ t.vaxes) : ∃ p ∈ loopList t sizes, p.1 = some e := by
  have : some e ∈ (loopList t sizes).map (·.1) := by
    rw [loopList_fst t sizes hl]; simp [he]
  obtain ⟨p, hp, h⟩ := List.mem_map.1 this
  exact ⟨p, hp, h⟩

theorem srcOK_nil_left (ρ : Nat → Nat) (idx : List Nat) : srcOK ρ [] idx ↔ True := by
  unfold srcOK; simp

theorem srcOK_nil_right (ρ : Nat → Nat) (L : List (Option Axis × Nat)) : srcOK ρ L [] ↔ True := by
  cases L <;> simp [srcOK]

theorem srcOK_pad (ρ : Nat → Nat) : ∀ (k : Nat) (es : List (Option Axis)) (sizes idx : List Nat),
    srcOK ρ ((List.replicate k none ++ es).zip sizes) idx ↔ srcOK ρ (es.zip (sizes.drop k)) (idx.drop k)
  | 0, es, sizes, idx => by simp
  | k+1, es, [], idx => by simp [srcOK_nil_left]
  | k+1, es, s :: ss, [] => by simp [srcOK_nil_right]
  | k+1, es, s :: ss, i :: is => by
    rw [List.replicate_succ, List.cons_append, List.zip_cons_cons, srcOK, List.drop_succ_cons, List.drop_succ_cons,
      srcOK_pad ρ k es ss is]
    simp

theorem srcOK_some (ρ : Nat → Nat) : ∀ (vs : List Axis) (ss is : List Nat), vs.length = ss.length →
    vs.length = is.length →
    (srcOK ρ ((vs.map some).zip ss) is ↔
      vs.map (Axis.eval ρ) = ((vs.map Axis.numel).zip is).map (fun p => if p.1 = 1 then 0 else p.2))
  | [], ss, is, _, _ => by simp [srcOK_nil_left]
  | v :: vs, [], _, h, _ => by simp at h
  | v :: vs, _ :: _, [], _, h => by simp at h
  | v :: vs, s :: ss, i :: is, h1, h2 => by
    simp only [List.map_cons, List.zip_cons_cons, srcOK, List.cons.injEq]
    rw [srcOK_some ρ vs ss is (by simpa using h1) (by simpa using h2)]
    simp

theorem srcOK_loopList (ρ : Nat → Nat) (t : PT) (sizes idx : List Nat) (hl : t.vaxes.length ≤ sizes.length)
    (hi : idx.length = sizes.length) :
    srcOK ρ (loopList t sizes) idx ↔ t.vaxes.map (Axis.eval ρ) = src t.vshape sizes idx := by
  unfold loopList
  rw [srcOK_pad, srcOK_some _ _ _ _ (by simp; omega) (by simp; omega)]
  unfold src PT.vshape
  simp

/-- the source index is in range -/
theorem src_forall₂ : ∀ (vs : List Axis) (ss is : List Nat), List.Forall₂ (· < ·) is ss →
    ((vs.map some).zip ss).all stepOK = true → vs.length = ss.length →
    List.Forall₂ (· < ·) (((vs.map Axis.numel).zip is).map (fun p => if p.1 = 1 then 0 else p.2)) (vs.map Axis.numel)
  | [], _, _, _, _, _ => by simp
  | v :: vs, [], _, _, _, h => by simp at h
  | v :: vs, s :: ss, _, hf, hok, hl => by
    cases hf with
    | @cons i _ is _ hi hrest =>
      simp only [List.map_cons, List.zip_cons_cons, List.all_cons, Bool.and_eq_true] at hok ⊢
      refine List.Forall₂.cons ?_ (src_forall₂ vs ss is hrest hok.2 (by simpa using hl))
      have h1 := hok.1
      simp only [stepOK, Bool.or_eq_true, beq_iff_eq] at h1
      by_cases hv : v.numel = 1
      · simp [hv]
      · simp only [hv, if_false]
        rcases h1 with h1 | h1
        · exact absurd h1 hv
        · rw [h1]; exact hi

theorem src_mem_assigns (t : PT) (sizes idx : List Nat) (hl : t.vaxes.length ≤ sizes.length)
    (hok : (loopList t sizes).all stepOK = true) (hi : idx ∈ assigns sizes) :
    src t.vshape sizes idx ∈ assigns t.vshape := by
  rw [mem_assigns_iff] at hi ⊢
  rw [loopList_split t sizes hl, List.all_append, Bool.and_eq_true] at hok
  unfold src PT.vshape
  rw [List.length_map]
  apply src_forall₂ t.vaxes (sizes.drop (sizes.length - t.vaxes.length)) _ _ hok.2 (by simp; omega)
  exact List.forall₂_drop _ hi

/-! ### the raw result -/

structure ExpCtx (t : PT) (sizes : List Nat) (next : Nat) : Prop where
  st : Struct t
  hn : ∀ p ∈ t.paxes, p.1 < next
  hl : t.vaxes.length ≤ sizes.length
  ok : (loopList t sizes).all stepOK = true

section raw
variable {t : PT} {sizes : List Nat} {next : Nat}

theorem raw_paxes : (rawR t sizes next).paxes = outK next (loopList t sizes) ++ t.paxes := rfl
theorem raw_vaxes : (rawR t sizes next).vaxes = outV next (loopList t sizes) := rfl
theorem raw_default : (rawR t sizes next).default = t.default := rfl

theorem raw_vshape (h : ExpCtx t sizes next) : (rawR t sizes next).vshape = sizes := by
  unfold PT.vshape
  rw [raw_vaxes, outV_numel next _ h.ok, loopList_snd t sizes h.hl]

theorem raw_nodup (h : ExpCtx t sizes next) : ((rawR t sizes next).paxes.map (·.1)).Nodup := by
  rw [raw_paxes, List.map_append, List.nodup_append]
  refine ⟨outK_nodup next _, h.st.nodup, ?_⟩
  intro a ha b hb
  obtain ⟨k, hk, rfl⟩ := List.mem_map.1 ha
  obtain ⟨p, hp, rfl⟩ := List.mem_map.1 hb
  have := (outK_ids next _ k hk).1
  have := h.hn p hp
  omega

theorem raw_fvsub (h : ExpCtx t sizes next) : ∀ e ∈ (rawR t sizes next).vaxes, ∀ q ∈ e.fv,
    q ∈ (rawR t sizes next).paxes := by
  intro g hg q hq
  rw [raw_vaxes] at hg
  rw [raw_paxes]
  obtain ⟨p, hp, fresh, rfl, hk⟩ := mem_outV hg
  rcases (mem_fv_stepAxis p fresh q).1 hq with ⟨hgr, rfl⟩ | ⟨e, he, hqe⟩
  · exact List.mem_append_left _ (hk hgr)
  · exact List.mem_append_right _ (h.st.fvsub e (loopList_some hp he) q hqe)

theorem raw_normOK (h : ExpCtx t sizes next) : NormOK (rawR t sizes next) where
  len := by
    show ((assigns _).map _).length = _
    rw [List.length_map, length_assigns]; rfl
  nodup := raw_nodup h
  fvsub := raw_fvsub h
  occ := by
    intro p hp
    rw [raw_paxes] at hp
    rw [raw_vaxes]
    rcases List.mem_append.1 hp with hp | hp
    · obtain ⟨q, hq, hg, h2, h3⟩ := outK_occ hp
      refine ⟨_, h3, (mem_fv_stepAxis q p.1 p).2 (Or.inl ⟨hg, ?_⟩)⟩
      rw [← h2]
    · obtain ⟨e, he, hpe⟩ := h.st.occ p hp
      obtain ⟨q, hq, hqe⟩ := loopList_of_mem h.hl he
      obtain ⟨fresh, h1, _⟩ := outV_of_mem (next := next) hq
      exact ⟨_, h1, (mem_fv_stepAxis q fresh p).2 (Or.inr ⟨e, hqe, hpe⟩)⟩
  top := by
    intro g hg
    rw [raw_vaxes] at hg
    obtain ⟨p, hp, fresh, rfl, hk⟩ := mem_outV hg
    have hsome : ∀ e, p.1 = some e → ∀ q ∈ (stepAxis p fresh).fv, q.2 ≠ 1 := by
      intro e he q hq
      rcases (mem_fv_stepAxis p fresh q).1 hq with ⟨hgr, rfl⟩ | ⟨e', he', hqe⟩
      · obtain ⟨a, n⟩ := p
        simp only at he
        subst he
        exact (grow_some hgr).2
      · exact h.st.no1 q (h.st.fvsub e' (loopList_some hp he') q hqe)
    obtain ⟨a, n⟩ := p
    cases a with
    | some e => exact Or.inr (hsome e rfl)
    | none =>
      by_cases hn1 : n = 1
      · left
        refine ⟨fresh, ?_⟩
        simp [stepAxis, grow, hn1]
      · right
        intro q hq
        rcases (mem_fv_stepAxis (none, n) fresh q).1 hq with ⟨hgr, rfl⟩ | ⟨e', he', hqe⟩
        · exact hn1
        · cases he'

theorem raw_sem (h : ExpCtx t sizes next) : Sem (rawR t sizes next) :=
  sem_of_occ (raw_normOK h).nodup (raw_normOK h).fvsub (raw_normOK h).occ

/-- the physical element selected by an in-range assignment -/
theorem raw_value (h : ExpCtx t sizes next) (ρ : Nat → Nat) (hρ : ∀ p ∈ (rawR t sizes next).paxes, ρ p.1 < p.2) :
    (rawR t sizes next).physical[flat ((rawR t sizes next).paxes.map (·.2)) (pidx (rawR t sizes next).paxes ρ)]?.getD
        (rawR t sizes next).default =
      t.physical[flat (t.paxes.map (·.2)) (pidx t.paxes ρ)]?.getD t.default := by
  have hm := pidx_mem_assigns ρ _ hρ
  rw [raw_paxes] at hm
  show ((assigns ((outK next (loopList t sizes) ++ t.paxes).map (·.2))).map _)[flat
    ((outK next (loopList t sizes) ++ t.paxes).map (·.2)) (pidx (outK next (loopList t sizes) ++ t.paxes) ρ)]?.getD _ = _
  rw [getElem?_map_assigns _ hm]
  simp only [Option.getD_some]
  rw [pidx_append, List.drop_left' (by simp [pidx])]

theorem raw_inR (h : ExpCtx t sizes next) (ρ : Nat → Nat) (hρ : ∀ p ∈ t.paxes, ρ p.1 < p.2) :
    ∀ p ∈ loopList t sizes, ∀ e, p.1 = some e → InRange ρ e :=
  fun p hp e he q hq => hρ q (h.st.fvsub e (loopList_some hp he) q hq)

/-- **the cells of the raw result of `expand`** -/
theorem raw_cell (h : ExpCtx t sizes next) (idx : List Nat) (hi : idx ∈ assigns sizes) :
    (rawR t sizes next).dense[flat (rawR t sizes next).vshape idx]?.getD (rawR t sizes next).default =
      t.dense[flat t.vshape (src t.vshape sizes idx)]?.getD t.default := by
  have hsR := raw_sem h
  have hst := h.st.sem
  have hf : List.Forall₂ (· < ·) idx ((loopList t sizes).map (·.2)) := by
    rw [loopList_snd t sizes h.hl]; exact (mem_assigns_iff _ _).1 hi
  have hlen : idx.length = sizes.length := mem_assigns_length hi
  apply cell_transfer hsR hst raw_default (by rw [raw_vshape h]; exact hi) (src_mem_assigns t sizes idx h.hl h.ok hi)
  · intro ρ hb
    have hρt : ∀ p ∈ t.paxes, ρ p.1 < p.2 := fun p hp => hb.1 p (by rw [raw_paxes]; exact List.mem_append_right _ hp)
    refine ⟨ρ, ⟨hρt, ?_⟩, raw_value h ρ hb.1⟩
    have := (outV_eval_iff next ρ _ idx h.ok (raw_inR h ρ hρt) hf).1 hb.2
    exact (srcOK_loopList ρ t sizes idx h.hl hlen).1 this.1
  · intro ρ hb
    -- extend `ρ` by the coordinates of `idx` at the grown dimensions
    let ks := outK next (loopList t sizes)
    let ρ' : Nat → Nat := fun v => if v < next then ρ v else envOf ks (picks (loopList t sizes) idx) v
    have hag : ∀ p ∈ t.paxes, ρ' p.1 = ρ p.1 := by
      intro p hp
      simp only [ρ', h.hn p hp, if_true]
    have hpf := picks_forall₂ next _ idx hf
    have hpk : pidx ks ρ' = picks (loopList t sizes) idx := by
      have : pidx ks ρ' = pidx ks (envOf ks (picks (loopList t sizes) idx)) := by
        apply pidx_congr
        intro k hk
        have := (outK_ids next _ k hk).1
        simp only [ρ', show ¬ k.1 < next by omega, if_false]
      rw [this]
      apply pidx_envOf ks _ (outK_nodup next _)
      have := hpf.length_eq
      simpa using this
    have hρt : ∀ p ∈ t.paxes, ρ' p.1 < p.2 := fun p hp => by rw [hag p hp]; exact hb.1 p hp
    have hρk : ∀ k ∈ ks, ρ' k.1 < k.2 := by
      apply inRange_of_pidx
      rw [hpk]; exact hpf
    refine ⟨ρ', ⟨?_, ?_⟩⟩
    · intro p hp
      rw [raw_paxes] at hp
      rcases List.mem_append.1 hp with hp | hp
      · exact hρk p hp
      · exact hρt p hp
    · rw [raw_vaxes]
      apply (outV_eval_iff next ρ' _ idx h.ok (raw_inR h ρ' hρt) hf).2
      refine ⟨(srcOK_loopList ρ' t sizes idx h.hl hlen).2 ?_, hpk⟩
      rw [← hb.2]
      apply List.map_congr_left
      intro e he
      apply eval_congr
      intro q hq
      exact hag q (h.st.fvsub e he q hq)

end raw

/-! ### success -/

theorem pad_all_ok (k : Nat) (l : List Nat) : ((List.replicate k (none : Option Axis)).zip l).all stepOK = true := by
  rw [List.all_eq_true]
  intro p hp
  obtain ⟨a, n⟩ := p
  have := List.eq_of_mem_replicate (List.of_mem_zip hp).1
  subst this
  rfl

theorem some_all_ok_iff : ∀ (vs : List Axis) (ss : List Nat), vs.length = ss.length →
    (((vs.map some).zip ss).all stepOK = true ↔
      ∀ i, i < vs.length → ((vs.map Axis.numel)[i]?.getD 0 = ss[i]?.getD 0 ∨ (vs.map Axis.numel)[i]?.getD 0 = 1))
  | [], ss, _ => by simp
  | v :: vs, [], h => by simp at h
  | v :: vs, s :: ss, h => by
    simp only [List.map_cons, List.zip_cons_cons, List.all_cons, Bool.and_eq_true]
    rw [some_all_ok_iff vs ss (by simpa using h)]
    constructor
    · rintro ⟨h1, h2⟩ i hi
      cases i with
      | zero =>
        simp only [stepOK, Bool.or_eq_true, beq_iff_eq] at h1
        simpa [or_comm] using h1
      | succ j =>
        simpa using h2 j (by simpa using hi)
    · intro hall
      constructor
      · have := hall 0 (by simp)
        simp only [stepOK, Bool.or_eq_true, beq_iff_eq]
        simpa [or_comm] using this
      · intro i hi
        simpa using hall (i + 1) (by simpa using hi)

theorem loopList_all_ok_iff (t : PT) (sizes : List Nat) (hl : t.vaxes.length ≤ sizes.length) :
    (loopList t sizes).all stepOK = true ↔
      ∀ i, i < t.vshape.length → (t.vshape[i]?.getD 0 = (sizes.drop (sizes.length - t.vshape.length))[i]?.getD 0 ∨
        t.vshape[i]?.getD 0 = 1) := by
  rw [loopList_split t sizes hl, List.all_append, pad_all_ok, Bool.true_and,
    some_all_ok_iff _ _ (by simp; omega)]
  unfold PT.vshape
  simp only [List.length_map]

end C06hL
