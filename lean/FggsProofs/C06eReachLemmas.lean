/-
Helper lemmas for Props/C06e.lean, part 1 (syntactic): the unbound physical axes REACHABLE from an axis through a
substitution (`RL`), and the theorem that a successful unification makes both sides reach the same unbound axes
(`Run.reachEq`) — provided no identity is bound twice in the final substitution (`KN`), which is what a run of
`unify` that does not run short of fuel guarantees (a `lookup` cut short by the fuel returns a BOUND physical axis,
which `unify` then binds a second time).
-/
import FggsModel.Reshape
import FggsProofs.C06bLemmas
import Mathlib.Data.List.Basic
import Mathlib.Data.List.Nodup
import Mathlib.Tactic.Linarith

set_option linter.unusedSimpArgs false
set_option linter.unusedVariables false

namespace C06eL
open Fggs Fggs.Ax Fggs.Un Fggs.Rs C06b

/-- no identity is bound twice -/
def KN (σ : Subst) : Prop := (σ.map (·.1)).Nodup

theorem KN.suffix {l σ : Subst} (h : KN (l ++ σ)) : KN σ := by
  unfold KN at h ⊢
  rw [List.map_append] at h
  exact h.of_append_right

theorem bound_cons_self (σ : Subst) (v : Nat) (a : Axis) : bound ((v, a) :: σ) v = some a := by
  simp [bound]

theorem bound_of_mem {σ : Subst} (h : KN σ) {v : Nat} {a : Axis} (hm : (v, a) ∈ σ) : bound σ v = some a := by
  induction σ with
  | nil => simp at hm
  | cons p σ ih =>
    unfold KN at h
    rw [List.map_cons, List.nodup_cons] at h
    rcases List.mem_cons.1 hm with rfl | hm'
    · exact bound_cons_self σ v a
    · have hne : p.1 ≠ v := by
        intro e
        exact h.1 (e ▸ List.mem_map_of_mem (f := (·.1)) hm')
      have := ih h.2 hm'
      unfold bound at this ⊢
      rw [List.find?_cons]
      have : (p.1 == v) = false := by simpa using hne
      simp only [this]
      assumption

theorem bound_none_of_append {l σ : Subst} {v : Nat} (h : bound (l ++ σ) v = none) : bound σ v = none := by
  unfold bound at h ⊢
  rw [Option.map_eq_none_iff, List.find?_eq_none] at h ⊢
  intro x hx
  exact h x (List.mem_append_right _ hx)

/-! ### reachable unbound identities -/

inductive RL (σ : Subst) : Axis → Nat → Prop
  | free {v n : Nat} (h : bound σ v = none) : RL σ (.phys v n) v
  | step {v n : Nat} {a : Axis} {u : Nat} (h : bound σ v = some a) (r : RL σ a u) : RL σ (.phys v n) u
  | prod {fs : List Axis} {f : Axis} {u : Nat} (hf : f ∈ fs) (r : RL σ f u) : RL σ (.prod fs) u
  | sum {b a : Nat} {t : Axis} {u : Nat} (r : RL σ t u) : RL σ (.sum b t a) u

theorem RL.prod_iff {σ : Subst} {fs : List Axis} {u : Nat} : RL σ (.prod fs) u ↔ ∃ f ∈ fs, RL σ f u := by
  constructor
  · intro h
    cases h with
    | prod hf r => exact ⟨_, hf, r⟩
  · rintro ⟨f, hf, r⟩
    exact .prod hf r

theorem RL.sum_iff {σ : Subst} {b a : Nat} {t : Axis} {u : Nat} : RL σ (.sum b t a) u ↔ RL σ t u := by
  constructor
  · intro h
    cases h with
    | sum r => exact r
  · exact fun r => .sum r

theorem RL.phys_bound {σ : Subst} {v n : Nat} {a : Axis} {u : Nat} (hb : bound σ v = some a) :
    RL σ (.phys v n) u ↔ RL σ a u := by
  constructor
  · intro h
    cases h with
    | free h => rw [hb] at h; cases h
    | step h r => rw [hb] at h; cases h; exact r
  · exact fun r => .step hb r

theorem RL.phys_free {σ : Subst} {v n : Nat} {u : Nat} (hb : bound σ v = none) :
    RL σ (.phys v n) u ↔ u = v := by
  constructor
  · intro h
    cases h with
    | free h => rfl
    | step h r => rw [hb] at h; cases h
  · rintro rfl
    exact .free hb

theorem RL.phys_size {σ : Subst} {v n m : Nat} {u : Nat} : RL σ (.phys v n) u ↔ RL σ (.phys v m) u := by
  cases hb : bound σ v with
  | none => rw [RL.phys_free hb, RL.phys_free hb]
  | some a => rw [RL.phys_bound hb, RL.phys_bound hb]

theorem RL.unit {σ : Subst} {u : Nat} : ¬ RL σ unitAxis u := by
  intro h
  unfold unitAxis at h
  obtain ⟨f, hf, _⟩ := RL.prod_iff.1 h
  simp at hf

theorem RL.productAxis_iff {σ : Subst} (fs : List Axis) {u : Nat} :
    RL σ (productAxis fs) u ↔ ∃ f ∈ fs, RL σ f u := by
  have key : (∃ g ∈ flat1 fs, RL σ g u) ↔ ∃ f ∈ fs, RL σ f u := by
    unfold flat1
    constructor
    · rintro ⟨g, hg, hq⟩
      rw [List.mem_flatMap] at hg
      obtain ⟨f, hf, hgf⟩ := hg
      refine ⟨f, hf, ?_⟩
      cases f with
      | prod gs => exact .prod hgf hq
      | phys v n => simp at hgf; rw [← hgf]; exact hq
      | sum b t a => simp at hgf; rw [← hgf]; exact hq
    · rintro ⟨f, hf, hq⟩
      cases f with
      | prod gs =>
        obtain ⟨g, hg, hq⟩ := RL.prod_iff.1 hq
        exact ⟨g, List.mem_flatMap.2 ⟨_, hf, hg⟩, hq⟩
      | phys v n => exact ⟨_, List.mem_flatMap.2 ⟨_, hf, by simp⟩, hq⟩
      | sum b t a => exact ⟨_, List.mem_flatMap.2 ⟨_, hf, by simp⟩, hq⟩
  rw [productAxis_eq, ← key]
  split
  · next e h => rw [h]; simp
  · rw [RL.prod_iff]

/-- transport along an extension of the substitution that binds only unbound identities -/
theorem RL.transport {l σ : Subst} (hk : KN (l ++ σ)) {a : Axis} {q : Nat} :
    RL (l ++ σ) a q ↔ ∃ u, RL σ a u ∧ RL (l ++ σ) (.phys u 0) q := by
  constructor
  · intro h
    induction h with
    | @free v n h =>
      exact ⟨v, .free (bound_none_of_append h), .free h⟩
    | @step v n a u h r ih =>
      obtain ⟨w, h1, h2⟩ := ih
      cases hb : bound σ v with
      | none => exact ⟨v, .free hb, .step h r⟩
      | some a1 =>
        have := bound_of_mem hk (List.mem_append_right l (bound_mem hb))
        rw [h] at this
        cases this
        exact ⟨w, .step hb h1, h2⟩
    | prod hf r ih =>
      obtain ⟨w, h1, h2⟩ := ih
      exact ⟨w, .prod hf h1, h2⟩
    | sum r ih =>
      obtain ⟨w, h1, h2⟩ := ih
      exact ⟨w, .sum h1, h2⟩
  · rintro ⟨u, h1, h2⟩
    induction h1 with
    | @free v n h => exact RL.phys_size.1 h2
    | @step v n a u h r ih =>
      exact .step (bound_of_mem hk (List.mem_append_right l (bound_mem h))) (ih h2)
    | prod hf r ih => exact .prod hf (ih h2)
    | sum r ih => exact .sum (ih h2)

theorem RL.transport_iff {l σ : Subst} (hk : KN (l ++ σ)) {x y : Axis} (h : ∀ u, RL σ x u ↔ RL σ y u) (q : Nat) :
    RL (l ++ σ) x q ↔ RL (l ++ σ) y q := by
  rw [RL.transport hk, RL.transport hk]
  constructor
  · rintro ⟨u, h1, h2⟩; exact ⟨u, (h u).1 h1, h2⟩
  · rintro ⟨u, h1, h2⟩; exact ⟨u, (h u).2 h1, h2⟩

/-- `Lk` follows bindings, so it does not change what is reachable (in any extension without double bindings) -/
theorem Lk.rl {l σ : Subst} (hk : KN (l ++ σ)) {e0 e : Axis} (h : Lk σ e0 e) (q : Nat) :
    RL (l ++ σ) e0 q ↔ RL (l ++ σ) e q := by
  induction h with
  | refl e => exact Iff.rfl
  | step hb h ih =>
    rw [RL.phys_bound (bound_of_mem hk (List.mem_append_right l hb))]
    exact ih

theorem Lk.rl0 {σ : Subst} (hk : KN σ) {e0 e : Axis} (h : Lk σ e0 e) (q : Nat) : RL σ e0 q ↔ RL σ e q := by
  have := Lk.rl (l := []) (by simpa using hk) h q
  simpa using this

/-! ### a successful unification makes both sides reach the same unbound identities -/

def LR (σ : Subst) : Goal → Nat → Prop
  | .u e _, u => RL σ e u
  | .p es _, u => ∃ x ∈ es, RL σ x u
  | .n xs, u => ∃ x ∈ xs, RL σ x u

def RR (σ : Subst) : Goal → Nat → Prop
  | .u _ f, u => RL σ f u
  | .p _ fs, u => ∃ x ∈ fs, RL σ x u
  | .n _, _ => False

theorem RL.split_iff {σ : Subst} {k q : Nat} {x : Axis} {u : Nat} :
    RL σ (productAxis [.phys k q, x]) u ↔ RL σ (.phys k q) u ∨ RL σ x u := by
  rw [RL.productAxis_iff]
  simp

theorem Run.reachEq {g : Goal} {st st' : St} (h : Run g st st') :
    KN st'.subst → StQ NZ st → GoalQ NZ st.next g → ∀ u, LR st'.subst g u ↔ RR st'.subst g u := by
  induction h with
  | @same e0 f0 e f st he hf hs =>
    intro hk hst hg u
    show RL _ e0 u ↔ RL _ f0 u
    rw [Lk.rl0 hk he, Lk.rl0 hk hf]
    cases e <;> cases f <;> simp [samePhys] at hs
    subst hs
    exact RL.phys_size
  | zero he hf hz =>
    intro hk hst hg u
    obtain ⟨q, hq, h0⟩ := zeroList_fv _ hz
    exact absurd h0 ((he.axQ hst hg.1) q (by rw [Axis.fv]; exact hq))
  | @prod e0 f0 es fs st st' he hf h ih =>
    intro hk hst hg u
    have := ih hk hst ⟨fun x hx => (he.axQ hst hg.1).prod x (by simpa using hx),
      fun x hx => (hf.axQ hst hg.2).prod x (by simpa using hx)⟩ u
    simp only [LR, RR, List.mem_reverse] at this
    obtain ⟨⟨l, hl⟩, _⟩ := h.grows
    show RL _ e0 u ↔ RL _ f0 u
    rw [hl] at hk this ⊢
    rw [Lk.rl hk he, Lk.rl hk hf, RL.prod_iff, RL.prod_iff]
    exact this
  | @prodSum e0 f0 t b a es st st' he hf h ih =>
    intro hk hst hg u
    have := ih hk hst ⟨fun x hx => (he.axQ hst hg.1).prod x (by simpa using hx), fun x hx => by
      simp only [List.mem_singleton] at hx
      rw [hx]; exact hf.axQ hst hg.2⟩ u
    simp only [LR, RR, List.mem_reverse, List.mem_singleton, exists_eq_left] at this
    obtain ⟨⟨l, hl⟩, _⟩ := h.grows
    show RL _ e0 u ↔ RL _ f0 u
    rw [hl] at hk this ⊢
    rw [Lk.rl hk he, Lk.rl hk hf, RL.prod_iff]
    exact this
  | @sumProd e0 f0 t b a fs st st' he hf h ih =>
    intro hk hst hg u
    have := ih hk hst ⟨fun x hx => by
      simp only [List.mem_singleton] at hx
      rw [hx]; exact he.axQ hst hg.1, fun x hx => (hf.axQ hst hg.2).prod x (by simpa using hx)⟩ u
    simp only [LR, RR, List.mem_reverse, List.mem_singleton, exists_eq_left] at this
    obtain ⟨⟨l, hl⟩, _⟩ := h.grows
    show RL _ e0 u ↔ RL _ f0 u
    rw [hl] at hk this ⊢
    rw [Lk.rl hk he, Lk.rl hk hf, RL.prod_iff]
    exact this
  | @sum e0 f0 t1 t2 b a st st' he hf h ih =>
    intro hk hst hg u
    have := ih hk hst ⟨(he.axQ hst hg.1).sum, (hf.axQ hst hg.2).sum⟩ u
    simp only [LR, RR] at this
    obtain ⟨⟨l, hl⟩, _⟩ := h.grows
    show RL _ e0 u ↔ RL _ f0 u
    rw [hl] at hk this ⊢
    rw [Lk.rl hk he, Lk.rl hk hf, RL.sum_iff, RL.sum_iff]
    exact this
  | @bindL e0 f0 f v n st he hf =>
    intro hk hst hg u
    show RL ((v, f) :: st.subst) e0 u ↔ RL ((v, f) :: st.subst) f0 u
    have hk' : KN ([(v, f)] ++ st.subst) := hk
    have e1 := Lk.rl hk' he u
    have e2 := Lk.rl hk' hf u
    simp only [List.singleton_append] at e1 e2
    rw [e1, e2, RL.phys_bound (bound_cons_self _ v f)]
  | @bindR e0 f0 e w n st he hf =>
    intro hk hst hg u
    show RL ((w, e) :: st.subst) e0 u ↔ RL ((w, e) :: st.subst) f0 u
    have hk' : KN ([(w, e)] ++ st.subst) := hk
    have e1 := Lk.rl hk' he u
    have e2 := Lk.rl hk' hf u
    simp only [List.singleton_append] at e1 e2
    rw [e1, e2, RL.phys_bound (bound_cons_self _ w e)]
  | @unitL e0 f0 t st st' he hf h ih =>
    intro hk hst hg u
    have := ih hk hst ⟨AxQ.unit, (hf.axQ hst hg.2).sum⟩ u
    simp only [LR, RR] at this
    obtain ⟨⟨l, hl⟩, _⟩ := h.grows
    show RL _ e0 u ↔ RL _ f0 u
    rw [hl] at hk this ⊢
    rw [Lk.rl hk he, Lk.rl hk hf, RL.sum_iff]
    exact this
  | @unitR e0 f0 t st st' he hf h ih =>
    intro hk hst hg u
    have := ih hk hst ⟨AxQ.unit, (he.axQ hst hg.1).sum⟩ u
    simp only [LR, RR] at this
    obtain ⟨⟨l, hl⟩, _⟩ := h.grows
    show RL _ e0 u ↔ RL _ f0 u
    rw [hl] at hk this ⊢
    rw [Lk.rl hk he, Lk.rl hk hf, RL.sum_iff]
    exact this.symm
  | @pEq e9 f9 es fs st st1 st' hmn h1 h2 ih1 ih2 =>
    intro hk hst hg u
    have hg1 : GoalQ NZ st.next (.u e9 f9) := ⟨hg.1 _ (by simp), hg.2 _ (by simp)⟩
    have hst1 := h1.preserves NZ_ok hst hg1
    obtain ⟨⟨l, hl⟩, _⟩ := h2.grows
    have hk1 : KN st1.subst := by rw [hl] at hk; exact hk.suffix
    have e1 := ih1 hk1 hst hg1
    have e2 := ih2 hk hst1 (GoalQ.mono NZ_ok h1.grows.2 (g := .p _ _)
      ⟨fun x hx => hg.1 x (by simp [hx]), fun x hx => hg.2 x (by simp [hx])⟩) u
    simp only [LR, RR] at e1 e2 ⊢
    rw [hl] at hk e2 ⊢
    have e1' := RL.transport_iff hk e1 u
    simp only [List.mem_cons, exists_eq_or_imp]
    rw [e1', e2]
  | @pUnitR f9 es fs st st1 st' hn h1 h2 ih1 ih2 =>
    intro hk hst hg u
    have hg1 : GoalQ NZ st.next (.u f9 unitAxis) := ⟨hg.2 _ (by simp), AxQ.unit⟩
    have hst1 := h1.preserves NZ_ok hst hg1
    obtain ⟨⟨l, hl⟩, _⟩ := h2.grows
    have hk1 : KN st1.subst := by rw [hl] at hk; exact hk.suffix
    have e1 := ih1 hk1 hst hg1
    have e2 := ih2 hk hst1 (GoalQ.mono NZ_ok h1.grows.2 (g := .p _ _)
      ⟨hg.1, fun x hx => hg.2 x (by simp [hx])⟩) u
    simp only [LR, RR] at e1 e2 ⊢
    rw [hl] at hk e2 ⊢
    have e1' := RL.transport_iff hk e1 u
    simp only [List.mem_cons, exists_eq_or_imp]
    rw [e1', e2]
    simp [RL.unit]
  | @pUnitL e9 es fs st st1 st' hm h1 h2 ih1 ih2 =>
    intro hk hst hg u
    have hg1 : GoalQ NZ st.next (.u e9 unitAxis) := ⟨hg.1 _ (by simp), AxQ.unit⟩
    have hst1 := h1.preserves NZ_ok hst hg1
    obtain ⟨⟨l, hl⟩, _⟩ := h2.grows
    have hk1 : KN st1.subst := by rw [hl] at hk; exact hk.suffix
    have e1 := ih1 hk1 hst hg1
    have e2 := ih2 hk hst1 (GoalQ.mono NZ_ok h1.grows.2 (g := .p _ _)
      ⟨fun x hx => hg.1 x (by simp [hx]), hg.2⟩) u
    simp only [LR, RR] at e1 e2 ⊢
    rw [hl] at hk e2 ⊢
    have e1' := RL.transport_iff hk e1 u
    simp only [List.mem_cons, exists_eq_or_imp]
    rw [e1', e2]
    simp [RL.unit]
  | @pLt e9 f9 es fs st st1 st' hlt hd h1 h2 ih1 ih2 =>
    intro hk hst hg u
    have hq := div_ne_zero_of hlt hd
    have hg1 : GoalQ NZ st.fresh.next (.u f9 (productAxis [.phys st.next (f9.numel / e9.numel), e9])) :=
      ⟨(hg.2 _ (by simp)).mono NZ_ok (Nat.le_succ _), AxQ.split NZ_ok hq (hg.1 _ (by simp))⟩
    have hst1 := h1.preserves NZ_ok (hst.fresh NZ_ok) hg1
    obtain ⟨⟨l, hl⟩, _⟩ := h2.grows
    have hk1 : KN st1.subst := by rw [hl] at hk; exact hk.suffix
    have e1 := ih1 hk1 (hst.fresh NZ_ok) hg1
    have e2 := ih2 hk hst1 ⟨fun x hx q hq' => hg.1 x (by simp [hx]) q hq', fun x hx => by
      simp only [List.mem_cons] at hx
      rcases hx with rfl | hx
      · intro p hp
        simp only [Axis.fv, List.mem_singleton] at hp
        rw [hp]; exact hq
      · exact fun q hq' => hg.2 x (by simp [hx]) q hq'⟩ u
    simp only [LR, RR] at e1 e2 ⊢
    rw [hl] at hk e2 ⊢
    have e1' := RL.transport_iff hk e1 u
    rw [RL.split_iff] at e1'
    simp only [List.mem_cons, exists_eq_or_imp] at e2 ⊢
    rw [e1', e2]
    constructor
    · rintro (h | h | h)
      · exact .inl (.inr h)
      · exact .inl (.inl h)
      · exact .inr h
    · rintro ((h | h) | h)
      · exact .inr (.inl h)
      · exact .inl h
      · exact .inr (.inr h)
  | @pGt e9 f9 es fs st st1 st' hlt hd h1 h2 ih1 ih2 =>
    intro hk hst hg u
    have hq := div_ne_zero_of hlt hd
    have hg1 : GoalQ NZ st.fresh.next (.u e9 (productAxis [.phys st.next (e9.numel / f9.numel), f9])) :=
      ⟨(hg.1 _ (by simp)).mono NZ_ok (Nat.le_succ _), AxQ.split NZ_ok hq (hg.2 _ (by simp))⟩
    have hst1 := h1.preserves NZ_ok (hst.fresh NZ_ok) hg1
    obtain ⟨⟨l, hl⟩, _⟩ := h2.grows
    have hk1 : KN st1.subst := by rw [hl] at hk; exact hk.suffix
    have e1 := ih1 hk1 (hst.fresh NZ_ok) hg1
    have e2 := ih2 hk hst1 ⟨fun x hx => by
      simp only [List.mem_cons] at hx
      rcases hx with rfl | hx
      · intro p hp
        simp only [Axis.fv, List.mem_singleton] at hp
        rw [hp]; exact hq
      · exact fun q hq' => hg.1 x (by simp [hx]) q hq', fun x hx q hq' => hg.2 x (by simp [hx]) q hq'⟩ u
    simp only [LR, RR] at e1 e2 ⊢
    rw [hl] at hk e2 ⊢
    have e1' := RL.transport_iff hk e1 u
    rw [RL.split_iff] at e1'
    simp only [List.mem_cons, exists_eq_or_imp] at e2 ⊢
    rw [e1', ← e2]
    constructor
    · rintro ((h | h) | h)
      · exact .inr (.inl h)
      · exact .inl h
      · exact .inr (.inr h)
    · rintro (h | h | h)
      · exact .inl (.inr h)
      · exact .inl (.inl h)
      · exact .inr h
  | @pEnd es fs st st' he h ih =>
    intro hk hst hg u
    have := ih hk hst (fun x hx => by
      simp only [List.mem_append, List.mem_reverse] at hx
      rcases hx with hx | hx
      · exact hg.1 x hx
      · exact hg.2 x hx) u
    simp only [LR, RR, List.mem_append, List.mem_reverse, iff_false, not_exists, not_and] at this ⊢
    constructor
    · rintro ⟨x, hx, hr⟩; exact absurd hr (this x (.inl hx))
    · rintro ⟨x, hx, hr⟩; exact absurd hr (this x (.inr hx))
  | nNil => intro _ _ _ u; simp [LR, RR]
  | @nCons x xs st st1 st' h1 h2 ih1 ih2 =>
    intro hk hst hg u
    have hg1 : GoalQ NZ st.next (.u x unitAxis) := ⟨hg _ (by simp), AxQ.unit⟩
    have hst1 := h1.preserves NZ_ok hst hg1
    obtain ⟨⟨l, hl⟩, _⟩ := h2.grows
    have hk1 : KN st1.subst := by rw [hl] at hk; exact hk.suffix
    have e1 := ih1 hk1 hst hg1
    have e2 := ih2 hk hst1 (fun y hy => (hg y (by simp [hy])).mono NZ_ok h1.grows.2) u
    simp only [LR, RR] at e1 e2 ⊢
    rw [hl] at hk e2 ⊢
    have e1' := RL.transport_iff hk e1 u
    simp only [List.mem_cons, exists_eq_or_imp]
    rw [e1', e2]
    simp [RL.unit]

/-! ### preservation of a predicate that holds of fresh axes of size at least 2 (copy of `Run.preserves`:
the axes that the split branches create have size `n / m ≥ 2`) -/

structure QOk2 (Q : Nat → Nat × Nat → Prop) : Prop where
  mono : ∀ a b p, a ≤ b → Q a p → Q b p
  fresh : ∀ nx q, 2 ≤ q → Q (nx+1) (nx, q)

theorem div_ge_two_of {m n : Nat} (hlt : m < n) (hd : n % m = 0) : 2 ≤ n / m := by
  have hm : 0 < m := by
    rcases Nat.eq_zero_or_pos m with h | h
    · subst h; simp at hd; omega
    · exact h
  rw [Nat.le_div_iff_mul_le hm]
  obtain ⟨c, hc⟩ := Nat.dvd_of_mod_eq_zero hd
  subst hc
  have : 2 ≤ c := by
    rcases c with _ | _ | c
    · omega
    · omega
    · omega
  nlinarith

variable {Q : Nat → Nat × Nat → Prop}

theorem AxQ.mono2 (hQ : QOk2 Q) {a b : Nat} (hab : a ≤ b) {x : Axis} (h : AxQ Q a x) : AxQ Q b x :=
  fun q hq => hQ.mono a b q hab (h q hq)

theorem GoalQ.mono2 (hQ : QOk2 Q) {a b : Nat} (hab : a ≤ b) {g : Goal} (h : GoalQ Q a g) : GoalQ Q b g := by
  cases g with
  | u e f => exact ⟨AxQ.mono2 hQ hab h.1, AxQ.mono2 hQ hab h.2⟩
  | p es fs => exact ⟨fun x hx => AxQ.mono2 hQ hab (h.1 x hx), fun x hx => AxQ.mono2 hQ hab (h.2 x hx)⟩
  | n xs => exact fun x hx => AxQ.mono2 hQ hab (h x hx)

theorem StQ.fresh2 (hQ : QOk2 Q) {st : St} (h : StQ Q st) : StQ Q st.fresh := by
  intro p hp
  obtain ⟨⟨n, h1⟩, h2⟩ := h p hp
  exact ⟨⟨n, hQ.mono _ _ _ (Nat.le_succ _) h1⟩, AxQ.mono2 hQ (Nat.le_succ _) h2⟩

theorem AxQ.split2 (hQ : QOk2 Q) {nx q : Nat} {x : Axis} (hq : 2 ≤ q) (hx : AxQ Q nx x) :
    AxQ Q (nx+1) (productAxis [.phys nx q, x]) := by
  intro p hp
  obtain ⟨f, hf, hpf⟩ := (mem_fv_productAxis _).1 hp
  simp only [List.mem_cons, List.not_mem_nil, or_false] at hf
  rcases hf with hf | hf
  · rw [hf] at hpf
    simp only [Axis.fv, List.mem_singleton] at hpf
    rw [hpf]; exact hQ.fresh nx q hq
  · rw [hf] at hpf
    exact hQ.mono _ _ _ (Nat.le_succ _) (hx p hpf)

theorem AxQ.freshAx2 (hQ : QOk2 Q) {nx q : Nat} (hq : 2 ≤ q) : AxQ Q (nx+1) (.phys nx q) := by
  intro p hp
  simp only [Axis.fv, List.mem_singleton] at hp
  rw [hp]; exact hQ.fresh nx q hq

theorem Run.preserves2 (hQ : QOk2 Q) {g : Goal} {st st' : St} (h : Run g st st') :
    StQ Q st → GoalQ Q st.next g → StQ Q st' := by
  induction h with
  | same _ _ _ => exact fun hst _ => hst
  | zero _ _ _ => exact fun hst _ => hst
  | prod he hf _ ih =>
    intro hst hg
    refine ih hst ⟨fun x hx => (he.axQ hst hg.1).prod x (by simpa using hx),
      fun x hx => (hf.axQ hst hg.2).prod x (by simpa using hx)⟩
  | prodSum he hf _ ih =>
    intro hst hg
    refine ih hst ⟨fun x hx => (he.axQ hst hg.1).prod x (by simpa using hx), fun x hx => ?_⟩
    simp only [List.mem_singleton] at hx
    rw [hx]; exact hf.axQ hst hg.2
  | sumProd he hf _ ih =>
    intro hst hg
    refine ih hst ⟨fun x hx => ?_, fun x hx => (hf.axQ hst hg.2).prod x (by simpa using hx)⟩
    simp only [List.mem_singleton] at hx
    rw [hx]; exact he.axQ hst hg.1
  | sum he hf _ ih =>
    intro hst hg
    exact ih hst ⟨(he.axQ hst hg.1).sum, (hf.axQ hst hg.2).sum⟩
  | bindL he hf =>
    intro hst hg
    exact hst.bind (he.axQ hst hg.1) (hf.axQ hst hg.2)
  | bindR he hf =>
    intro hst hg
    exact hst.bind (hf.axQ hst hg.2) (he.axQ hst hg.1)
  | unitL he hf _ ih =>
    intro hst hg
    exact ih hst ⟨AxQ.unit, (hf.axQ hst hg.2).sum⟩
  | unitR he hf _ ih =>
    intro hst hg
    exact ih hst ⟨AxQ.unit, (he.axQ hst hg.1).sum⟩
  | pEq hmn h1 h2 ih1 ih2 =>
    intro hst hg
    have hst1 := ih1 hst ⟨hg.1 _ (by simp), hg.2 _ (by simp)⟩
    refine ih2 hst1 (GoalQ.mono2 hQ h1.grows.2 (g := .p _ _) ⟨fun x hx => hg.1 x (by simp [hx]), fun x hx => hg.2 x (by simp [hx])⟩)
  | pUnitR hn h1 h2 ih1 ih2 =>
    intro hst hg
    have hst1 := ih1 hst ⟨hg.2 _ (by simp), AxQ.unit⟩
    refine ih2 hst1 (GoalQ.mono2 hQ h1.grows.2 (g := .p _ _) ⟨hg.1, fun x hx => hg.2 x (by simp [hx])⟩)
  | pUnitL hm h1 h2 ih1 ih2 =>
    intro hst hg
    have hst1 := ih1 hst ⟨hg.1 _ (by simp), AxQ.unit⟩
    refine ih2 hst1 (GoalQ.mono2 hQ h1.grows.2 (g := .p _ _) ⟨fun x hx => hg.1 x (by simp [hx]), hg.2⟩)
  | @pLt e9 f9 es fs st st1 st' hlt hd h1 h2 ih1 ih2 =>
    intro hst hg
    have hq := div_ge_two_of hlt hd
    have hst1 := ih1 (StQ.fresh2 hQ hst) ⟨AxQ.mono2 hQ (Nat.le_succ _) (hg.2 _ (by simp)), AxQ.split2 hQ hq (hg.1 _ (by simp))⟩
    have hle : st.next + 1 ≤ st1.next := h1.grows.2
    refine ih2 hst1 ⟨fun x hx => AxQ.mono2 hQ (by omega) (hg.1 x (by simp [hx])), fun x hx => ?_⟩
    simp only [List.mem_cons] at hx
    rcases hx with rfl | hx
    · exact AxQ.mono2 hQ hle (AxQ.freshAx2 hQ hq)
    · exact AxQ.mono2 hQ (by omega) (hg.2 x (by simp [hx]))
  | @pGt e9 f9 es fs st st1 st' hlt hd h1 h2 ih1 ih2 =>
    intro hst hg
    have hq := div_ge_two_of hlt hd
    have hst1 := ih1 (StQ.fresh2 hQ hst) ⟨AxQ.mono2 hQ (Nat.le_succ _) (hg.1 _ (by simp)), AxQ.split2 hQ hq (hg.2 _ (by simp))⟩
    have hle : st.next + 1 ≤ st1.next := h1.grows.2
    refine ih2 hst1 ⟨fun x hx => ?_, fun x hx => AxQ.mono2 hQ (by omega) (hg.2 x (by simp [hx]))⟩
    simp only [List.mem_cons] at hx
    rcases hx with rfl | hx
    · exact AxQ.mono2 hQ hle (AxQ.freshAx2 hQ hq)
    · exact AxQ.mono2 hQ (by omega) (hg.1 x (by simp [hx]))
  | pEnd _ _ ih =>
    intro hst hg
    refine ih hst (fun x hx => ?_)
    simp only [List.mem_append, List.mem_reverse] at hx
    rcases hx with hx | hx
    · exact hg.1 x hx
    · exact hg.2 x hx
  | nNil => exact fun hst _ => hst
  | nCons h1 h2 ih1 ih2 =>
    intro hst hg
    have hst1 := ih1 hst ⟨hg _ (by simp), AxQ.unit⟩
    exact ih2 hst1 (fun x hx => AxQ.mono2 hQ h1.grows.2 (hg x (by simp [hx])))

/-- no physical axis of size 1 -/
def N1 : Nat → Nat × Nat → Prop := fun _ p => p.2 ≠ 1

theorem N1_ok : QOk2 N1 := ⟨fun _ _ _ _ h => h, fun _ q h => by show q ≠ 1; omega⟩

end C06eL
