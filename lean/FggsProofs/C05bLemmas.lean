/-
C05b lemmas, part 1 — rooted trees given by a partial parent function.

Everything here is abstract: a type `α` of tree nodes (the rules of a factorization), a parent function
`par : α → Option α`, a root without parent that every member hangs on, and a family of vertex sets
(`has a v`: tree node `a` contains vertex `v`) satisfying the running-intersection property in path
form.  Results: a connected set has a unique top; every clique that is pairwise covered is covered by
one tree node (Helly property); the tree nodes containing a given set have a unique top-most element.
-/
import FggsModel.Factorize
import FggsProofs.Props.C10
import Mathlib.Tactic.Linarith
import Mathlib.Data.List.Basic
import Mathlib.Data.List.Nodup
import Mathlib.Data.List.Perm.Basic
import Mathlib.Data.List.Perm.Subperm

set_option linter.unusedSimpArgs false
set_option linter.unusedVariables false

namespace C05b

section Abstract
variable {α : Type}

/-- `Anc par a c`: `a` is `c` or an ancestor of `c` -/
inductive Anc (par : α → Option α) : α → α → Prop
  | refl (a : α) : Anc par a a
  | step {a b c : α} : Anc par a b → par c = some b → Anc par a c

/-- the same, counting the steps -/
inductive AncN (par : α → Option α) : α → α → Nat → Prop
  | refl (a : α) : AncN par a a 0
  | step {a b c : α} {n : Nat} : AncN par a b n → par c = some b → AncN par a c (n + 1)

/-- `a` is `c` or an ancestor of `c`, and the whole chain from `a` down to `c` satisfies `P` -/
inductive AncIn (par : α → Option α) (P : α → Prop) : α → α → Prop
  | refl (a : α) : P a → AncIn par P a a
  | step {a b c : α} : AncIn par P a b → par c = some b → P c → AncIn par P a c

/-- connected by a path of parent/child steps all of whose nodes satisfy `P` -/
inductive Conn (par : α → Option α) (P : α → Prop) : α → α → Prop
  | refl (a : α) : P a → Conn par P a a
  | step {a b c : α} : Conn par P a b → (par c = some b ∨ par b = some c) → P c → Conn par P a c

variable {par : α → Option α}

theorem Anc.trans {a b c : α} (h1 : Anc par a b) (h2 : Anc par b c) : Anc par a c := by
  induction h2 with
  | refl => exact h1
  | step _ hp ih => exact Anc.step ih hp

theorem Anc.toN {a b : α} (h : Anc par a b) : ∃ n, AncN par a b n := by
  induction h with
  | refl => exact ⟨0, AncN.refl _⟩
  | step _ hp ih => obtain ⟨n, hn⟩ := ih; exact ⟨n + 1, AncN.step hn hp⟩

theorem AncN.trans {a b c : α} {m k : Nat} (h1 : AncN par a b m) (h2 : AncN par b c k) :
    AncN par a c (m + k) := by
  induction h2 with
  | refl => exact h1
  | step _ hp ih => exact AncN.step ih hp

theorem AncN.zero {a b : α} (h : AncN par a b 0) : a = b := by
  cases h; rfl

/-- the depth below a parentless node is unique -/
theorem AncN.depth_unique {root a : α} (hroot : par root = none) {n m : Nat}
    (h1 : AncN par root a n) : AncN par root a m → n = m := by
  induction h1 generalizing m with
  | refl =>
    intro h2
    cases h2 with
    | refl => rfl
    | step _ hp => rw [hroot] at hp; cases hp
  | step h hp ih =>
    intro h2
    cases h2 with
    | refl => rw [hroot] at hp; cases hp
    | step h' hp' =>
      rw [hp] at hp'
      cases hp'
      rw [ih h']

/-- below a parentless root, the ancestor relation is antisymmetric -/
theorem Anc.antisymm {root a b : α} (hroot : par root = none) (hr : Anc par root a)
    (h1 : Anc par a b) (h2 : Anc par b a) : a = b := by
  obtain ⟨m, hm⟩ := hr.toN
  obtain ⟨k, hk⟩ := h1.toN
  obtain ⟨k', hk'⟩ := h2.toN
  have h := AncN.depth_unique hroot hm ((hm.trans hk).trans hk')
  have : k = 0 := by omega
  subst this
  exact hk.zero

/-- two ancestors of the same node are comparable -/
theorem Anc.comparable {a b c : α} (h1 : Anc par a c) : Anc par b c → Anc par a b ∨ Anc par b a := by
  induction h1 with
  | refl => intro h2; exact Or.inr h2
  | step h hp ih =>
    intro h2
    cases h2 with
    | refl => exact Or.inl (Anc.step h hp)
    | step h' hp' =>
      rw [hp] at hp'
      cases hp'
      exact ih h'

theorem AncIn.toAnc {P : α → Prop} {a b : α} (h : AncIn par P a b) : Anc par a b := by
  induction h with
  | refl _ => exact Anc.refl _
  | step _ hp _ ih => exact Anc.step ih hp

theorem AncIn.right {P : α → Prop} {a b : α} (h : AncIn par P a b) : P b := by
  cases h <;> assumption

theorem AncIn.left {P : α → Prop} {a b : α} (h : AncIn par P a b) : P a := by
  induction h with
  | refl hp => exact hp
  | step _ _ _ ih => exact ih

theorem AncIn.mono {P Q : α → Prop} (hpq : ∀ c, P c → Q c) {a b : α} (h : AncIn par P a b) :
    AncIn par Q a b := by
  induction h with
  | refl hp => exact .refl _ (hpq _ hp)
  | step _ hpar hp ih => exact .step ih hpar (hpq _ hp)

theorem AncIn.toConn {P : α → Prop} {a b : α} (h : AncIn par P a b) : Conn par P a b := by
  induction h with
  | refl hp => exact .refl _ hp
  | step _ hpar hp ih => exact .step ih (Or.inl hpar) hp

theorem Conn.right {P : α → Prop} {a b : α} (h : Conn par P a b) : P b := by
  cases h <;> assumption

theorem Conn.trans {P : α → Prop} {a b c : α} (h1 : Conn par P a b) (h2 : Conn par P b c) :
    Conn par P a c := by
  induction h2 with
  | refl _ => exact h1
  | step _ hadj hp ih => exact .step ih hadj hp

theorem Conn.symm {P : α → Prop} {a b : α} (h : Conn par P a b) : Conn par P b a := by
  induction h with
  | refl hp => exact .refl _ hp
  | step hab hadj hp ih =>
    exact Conn.trans (.step (.refl _ hp) hadj.symm hab.right) ih

/-- a path inside `P` that starts at a top of `P` only ever goes down: its end is a descendant of the
start and the whole chain down to it lies in `P` -/
theorem Conn.below_top {P : α → Prop} {a c : α} (htop : ∀ p, par a = some p → ¬ P p)
    (h : Conn par P a c) : AncIn par P a c := by
  induction h with
  | refl hp => exact .refl _ hp
  | step hab hadj hp ih =>
    rcases hadj with hdown | hup
    · exact .step ih hdown hp
    · cases ih with
      | refl _ => exact absurd hp (htop _ hup)
      | step h' hpar _ =>
        rw [hpar] at hup
        cases hup
        exact h'

/-- every node of `P` below the root has a top of `P` above it, the chain in between inside `P` -/
theorem exists_top {P : α → Prop} {root a : α} (hroot : par root = none) (hr : Anc par root a) :
    P a → ∃ t, AncIn par P t a ∧ ∀ p, par t = some p → ¬ P p := by
  induction hr with
  | refl =>
    intro hp
    exact ⟨root, .refl _ hp, fun p h => by rw [hroot] at h; cases h⟩
  | step h hpar ih =>
    rename_i b c
    intro hp
    by_cases hb : P b
    · obtain ⟨t, ht, htop⟩ := ih hb
      exact ⟨t, .step ht hpar hp, htop⟩
    · refine ⟨c, .refl _ hp, ?_⟩
      intro p h
      rw [hpar] at h
      cases h
      exact hb

/-- a node between the two ends of a chain inside `P` is in `P` -/
theorem between {P : α → Prop} {root t b x : α} (hroot : par root = none) (hr : Anc par root t)
    (h : AncIn par P t b) : Anc par t x → Anc par x b → P x := by
  induction h with
  | refl hp =>
    intro h1 h2
    have : t = x := Anc.antisymm hroot hr h1 h2
    subst this
    exact hp
  | step h' hpar hp ih =>
    intro h1 h2
    cases h2 with
    | refl => exact hp
    | step h2' hpar' =>
      rw [hpar] at hpar'
      cases hpar'
      exact ih h1 h2'

/-! ### rooted tree decompositions -/

/-- a rooted tree (members `M`, parent function, root) whose nodes carry vertex sets (`has`) with the
running-intersection property -/
structure RootedTD {V : Type} (par : α → Option α) (M : α → Prop) (root : α) (has : α → V → Prop) : Prop where
  root_mem : M root
  root_par : par root = none
  par_mem : ∀ a p, M a → par a = some p → M p
  reach : ∀ a, M a → Anc par root a
  running : ∀ v a b, M a → M b → has a v → has b v → Conn par (fun r => M r ∧ has r v) a b

variable {V : Type} {M : α → Prop} {root : α} {has : α → V → Prop}

/-- a member without parent is the root -/
theorem RootedTD.eq_root (T : RootedTD par M root has) {a : α} (ha : M a) (hp : par a = none) : a = root := by
  have h := T.reach a ha
  cases h with
  | refl => rfl
  | step _ hpar => rw [hp] at hpar; cases hpar

/-- everything that contains `v` lies below a top of the nodes containing `v`, chain included -/
theorem RootedTD.below_top (T : RootedTD par M root has) {v : V} {t b : α}
    (ht : M t) (htv : has t v) (htop : ∀ p, par t = some p → ¬ has p v)
    (hb : M b) (hbv : has b v) : AncIn par (fun r => M r ∧ has r v) t b :=
  Conn.below_top (fun p hp hP => htop p hp hP.2) (T.running v t b ht hb htv hbv)

/-- every member containing `v` has a top of the nodes containing `v` above it -/
theorem RootedTD.top_of (T : RootedTD par M root has) {v : V} {a : α} (ha : M a) (hav : has a v) :
    ∃ t, AncIn par (fun r => M r ∧ has r v) t a ∧ ∀ p, par t = some p → ¬ has p v := by
  obtain ⟨t, ht, htop⟩ := exists_top (P := fun r => M r ∧ has r v) T.root_par (T.reach a ha) ⟨ha, hav⟩
  refine ⟨t, ht, ?_⟩
  intro p hp hv
  exact htop p hp ⟨T.par_mem t p ht.left.1 hp, hv⟩

/-- running intersection along an ancestor chain -/
theorem RootedTD.interval (T : RootedTD par M root has) {w : V} {a b x : α}
    (ha : M a) (haw : has a w) (hb : M b) (hbw : has b w)
    (h1 : Anc par a x) (h2 : Anc par x b) : M x ∧ has x w := by
  obtain ⟨t, hta, htop⟩ := T.top_of ha haw
  have htb := T.below_top hta.left.1 hta.left.2 htop hb hbw
  exact between (P := fun r => M r ∧ has r w) T.root_par (T.reach t hta.left.1) htb
    (hta.toAnc.trans h1) h2

/-- **Helly property**: a nonempty list of vertices that is pairwise covered (each two of them, equal or
not, lie together in some member) is covered by a single member -/
theorem RootedTD.clique_covered (T : RootedTD par M root has) :
    ∀ (S : List V), S ≠ [] →
      (∀ u ∈ S, ∀ w ∈ S, ∃ r, M r ∧ has r u ∧ has r w) →
      ∃ r v, v ∈ S ∧ M r ∧ (∀ p, par r = some p → ¬ has p v) ∧ ∀ u ∈ S, has r u
  | [], h, _ => absurd rfl h
  | [v], _, hcov => by
    obtain ⟨r0, hr0, hv, _⟩ := hcov v (by simp) v (by simp)
    obtain ⟨t, ht, htop⟩ := T.top_of hr0 hv
    refine ⟨t, v, by simp, ht.left.1, htop, ?_⟩
    intro u hu
    simp only [List.mem_singleton] at hu
    subst hu
    exact ht.left.2
  | u :: u' :: S', _, hcov => by
    obtain ⟨r, v, hvS, hr, htopr, hall⟩ := T.clique_covered (u' :: S') (by simp)
      (fun a ha b hb => hcov a (List.mem_cons_of_mem _ ha) b (List.mem_cons_of_mem _ hb))
    have hrv : has r v := hall v hvS
    obtain ⟨B, hB, hBu, hBv⟩ := hcov u (by simp) v (List.mem_cons_of_mem _ hvS)
    obtain ⟨tu, htu, htopu⟩ := T.top_of hB hBu
    have hrB := T.below_top hr hrv htopr hB hBv
    rcases Anc.comparable htu.toAnc hrB.toAnc with h | h
    · -- the top for `u` is above `r`: `r` lies between it and `B`, so `r` contains `u`
      have := T.interval htu.left.1 htu.left.2 hB hBu h hrB.toAnc
      refine ⟨r, v, List.mem_cons_of_mem _ hvS, hr, htopr, ?_⟩
      intro x hx
      rcases List.mem_cons.1 hx with rfl | hx
      · exact this.2
      · exact hall x hx
    · -- `r` is above the top for `u`: that top contains every other vertex of the clique
      refine ⟨tu, u, by simp, htu.left.1, htopu, ?_⟩
      intro x hx
      rcases List.mem_cons.1 hx with rfl | hx
      · exact htu.left.2
      · obtain ⟨Bw, hBw, hBwu, hBwx⟩ := hcov u (by simp) x (List.mem_cons_of_mem _ hx)
        have hd := T.below_top htu.left.1 htu.left.2 htopu hBw hBwu
        exact (T.interval hr (hall x hx) hBw hBwx h hd.toAnc).2

/-- existence of a top-most member containing all of `S` -/
theorem RootedTD.exists_topmost (T : RootedTD par M root has) (S : List V)
    (hcov : ∀ u ∈ S, ∀ w ∈ S, ∃ r, M r ∧ has r u ∧ has r w) :
    ∃ r, M r ∧ (∀ u ∈ S, has r u) ∧ ∀ p, par r = some p → ¬ ∀ u ∈ S, has p u := by
  by_cases hS : S = []
  · subst hS
    refine ⟨root, T.root_mem, by simp, ?_⟩
    intro p hp
    rw [T.root_par] at hp
    cases hp
  · obtain ⟨r, v, hv, hr, htop, hall⟩ := T.clique_covered S hS hcov
    exact ⟨r, hr, hall, fun p hp hpall => htop p hp (hpall v hv)⟩

/-- a top-most member containing all of `S` is above every member containing all of `S` -/
theorem RootedTD.topmost_above (T : RootedTD par M root has) (S : List V) {a b : α}
    (ha : M a) (haS : ∀ u ∈ S, has a u) (htop : ∀ p, par a = some p → ¬ ∀ u ∈ S, has p u)
    (hb : M b) (hbS : ∀ u ∈ S, has b u) : Anc par a b := by
  cases hp : par a with
  | none =>
    rw [T.eq_root ha hp]
    exact T.reach b hb
  | some p =>
    have := htop p hp
    push Not at this
    obtain ⟨v, hv, hpv⟩ := this
    have hd := T.below_top (v := v) ha (haS v hv) (fun q hq => by rw [hp] at hq; cases hq; exact hpv)
      hb (hbS v hv)
    exact hd.toAnc

/-- uniqueness of the top-most member containing all of `S` -/
theorem RootedTD.topmost_unique (T : RootedTD par M root has) (S : List V) {a b : α}
    (ha : M a) (haS : ∀ u ∈ S, has a u) (htopa : ∀ p, par a = some p → ¬ ∀ u ∈ S, has p u)
    (hb : M b) (hbS : ∀ u ∈ S, has b u) (htopb : ∀ p, par b = some p → ¬ ∀ u ∈ S, has p u) :
    a = b :=
  Anc.antisymm T.root_par (T.reach a ha)
    (T.topmost_above S ha haS htopa hb hbS) (T.topmost_above S hb hbS htopb ha haS)

end Abstract

/-! ## Part 2 — graph helpers (the needed part of the private toolkit of C10b, restated) -/

section Graph
open Fggs Fggs.TD

theorem foldl_inv {α β : Type} (I : β → Prop) (f : β → α → β) (l : List α) (b : β)
    (hb : I b) (hf : ∀ b, I b → ∀ a ∈ l, I (f b a)) : I (l.foldl f b) := by
  induction l generalizing b with
  | nil => exact hb
  | cons x xs ih =>
    simp only [List.foldl_cons]
    exact ih _ (hf b hb x (by simp)) (fun b' hb' a ha => hf b' hb' a (by simp [ha]))

theorem foldl_mono_all {α β : Type} (le : β → β → Prop) (hrefl : ∀ b, le b b)
    (htrans : ∀ a b c, le a b → le b c → le a c) (f : β → α → β) (Q : α → β → Prop)
    (l : List α)
    (hmono : ∀ b, ∀ a ∈ l, le b (f b a)) (hQ : ∀ b, ∀ a ∈ l, Q a (f b a))
    (hQmono : ∀ a b b', le b b' → Q a b → Q a b') (b : β) :
    le b (l.foldl f b) ∧ ∀ a ∈ l, Q a (l.foldl f b) := by
  induction l generalizing b with
  | nil => exact ⟨hrefl b, by simp⟩
  | cons x xs ih =>
    simp only [List.foldl_cons]
    obtain ⟨h1, h2⟩ := ih (fun b a ha => hmono b a (by simp [ha])) (fun b a ha => hQ b a (by simp [ha])) (f b x)
    refine ⟨htrans _ _ _ (hmono b x (by simp)) h1, ?_⟩
    intro a ha
    rcases List.mem_cons.1 ha with h | h
    · subst h; exact hQmono _ _ _ h1 (hQ b a (by simp))
    · exact h2 a h

section lookup
variable {α β : Type} [BEq α] [LawfulBEq α]

theorem lookup_none_iff (l : List (α × β)) (a : α) :
    l.lookup a = none ↔ a ∉ l.map (·.1) := by
  induction l with
  | nil => simp
  | cons q l ih =>
    obtain ⟨k, b⟩ := q
    rw [List.lookup_cons]
    by_cases h : a = k
    · subst h; simp
    · have hb : (a == k) = false := by simp [h]
      simp [hb, ih, h]

theorem lookup_some_mem (l : List (α × β)) (a : α) (b : β) (h : l.lookup a = some b) :
    (a, b) ∈ l := by
  obtain ⟨l1, l2, heq, _⟩ := List.lookup_eq_some_iff.1 h
  rw [heq]; simp

theorem lookup_of_mem_nodup (l : List (α × β)) (hn : (l.map (·.1)).Nodup) (a : α) (b : β)
    (h : (a, b) ∈ l) : l.lookup a = some b := by
  induction l with
  | nil => cases h
  | cons q l ih =>
    obtain ⟨k, c⟩ := q
    rw [List.lookup_cons]
    simp only [List.map_cons, List.nodup_cons] at hn
    rcases List.mem_cons.1 h with h' | h'
    · cases h'; simp
    · have hak : a ≠ k := by
        intro hak; subst hak
        exact hn.1 (List.mem_map.2 ⟨(a, b), h', rfl⟩)
      have hb : (a == k) = false := by simp [hak]
      simp [hb, ih hn.2 h']

theorem lookup_map_snd (l : List (α × β)) (F : α → β → β) (a : α) :
    (l.map (fun p => (p.1, F p.1 p.2))).lookup a = (l.lookup a).map (F a) := by
  induction l with
  | nil => rfl
  | cons q l ih =>
    obtain ⟨k, b⟩ := q
    simp only [List.map_cons, List.lookup_cons]
    by_cases h : a = k
    · subst h; simp
    · have hb : (a == k) = false := by simp [h]
      simp [hb, ih]

end lookup

theorem mem_of_nbrs_ne_nil (g : UG) (u w : Nat) (h : w ∈ nbrs g u) :
    (u, nbrs g u) ∈ g := by
  unfold nbrs at h ⊢
  cases hl : g.lookup u with
  | none => rw [hl] at h; simp at h
  | some l => exact lookup_some_mem g u l hl

def addF (a b : Nat) (k : Nat) (l : List Nat) : List Nat :=
  if k == a then insertU l b else if k == b then insertU l a else l

theorem addEdge_eq (g : UG) (a b : Nat) :
    addEdge g a b = g.map (fun p => (p.1, addF a b p.1 p.2)) := by
  unfold addEdge addF
  apply List.map_congr_left
  intro p _
  split_ifs <;> rfl

theorem verts_addEdge (g : UG) (u v : Nat) : verts (addEdge g u v) = verts g := by
  rw [addEdge_eq]; unfold verts; rw [List.map_map]; rfl

theorem mem_insertU (l : List Nat) (x w : Nat) : w ∈ insertU l x ↔ w ∈ l ∨ w = x := by
  unfold insertU
  split_ifs with h
  · simp only [List.contains_iff_mem] at h
    constructor
    · exact Or.inl
    · rintro (h' | h')
      · exact h'
      · rw [h']; exact h
  · simp

theorem nbrs_addEdge (g : UG) (a b u : Nat) :
    nbrs (addEdge g a b) u = ((g.lookup u).map (addF a b u)).getD [] := by
  unfold nbrs; rw [addEdge_eq, lookup_map_snd]

theorem mem_nbrs_addEdge (g : UG) (a b u w : Nat) :
    w ∈ nbrs (addEdge g a b) u ↔
      w ∈ nbrs g u ∨ (u ∈ verts g ∧ ((u = a ∧ w = b) ∨ (u = b ∧ w = a))) := by
  rw [nbrs_addEdge]
  cases hl : g.lookup u with
  | none =>
    have hu : u ∉ verts g := (lookup_none_iff g u).1 hl
    simp [nbrs, hl, hu]
  | some l =>
    have hu : u ∈ verts g := List.mem_map.2 ⟨_, lookup_some_mem g u l hl, rfl⟩
    simp only [nbrs, hl, Option.map_some, Option.getD_some, hu, true_and, addF]
    by_cases h1 : u = a
    · subst h1
      simp only [beq_self_eq_true, if_true, mem_insertU, true_and]
      constructor
      · rintro (h | h)
        · exact Or.inl h
        · exact Or.inr (Or.inl h)
      · rintro (h | h | ⟨h, h'⟩)
        · exact Or.inl h
        · exact Or.inr h
        · subst h; exact Or.inr h'
    · have hb1 : (u == a) = false := by simp [h1]
      simp only [hb1, Bool.false_eq_true, if_false, h1, false_and, false_or]
      by_cases h2 : u = b
      · subst h2; simp [mem_insertU]
      · have hb2 : (u == b) = false := by simp [h2]
        simp [hb2, h2]

/-- `g'` has the same vertices as `g` and at least its edges -/
def GLe (g g' : UG) : Prop := verts g' = verts g ∧ ∀ u w, w ∈ nbrs g u → w ∈ nbrs g' u

theorem GLe.refl (g : UG) : GLe g g := ⟨rfl, fun _ _ h => h⟩
theorem GLe.trans {a b c : UG} (h1 : GLe a b) (h2 : GLe b c) : GLe a c :=
  ⟨h2.1.trans h1.1, fun u w h => h2.2 u w (h1.2 u w h)⟩

theorem GLe_addEdge (g : UG) (a b : Nat) : GLe g (addEdge g a b) :=
  ⟨verts_addEdge g a b, fun u w h => (mem_nbrs_addEdge g a b u w).2 (Or.inl h)⟩

theorem makeClique_complete (g : UG) (ns : List Nat) :
    GLe g (makeClique g ns) ∧
      ∀ a ∈ ns, ∀ b ∈ ns, a ≠ b → a ∈ verts g → b ∈ nbrs (makeClique g ns) a := by
  unfold makeClique
  have hinner : ∀ (a : Nat) (g0 : UG),
      GLe g0 (ns.foldl (fun g b => if a != b then addEdge g a b else g) g0) ∧
      ∀ b ∈ ns, (a ≠ b → a ∈ verts g0 →
        b ∈ nbrs (ns.foldl (fun g b => if a != b then addEdge g a b else g) g0) a) := by
    intro a g0
    have := foldl_mono_all GLe GLe.refl (fun _ _ _ => GLe.trans)
      (fun g b => if a != b then addEdge g a b else g)
      (fun b g' => a ≠ b → a ∈ verts g' → b ∈ nbrs g' a) ns
      (by intro g1 b _; split_ifs
          · exact GLe_addEdge _ _ _
          · exact GLe.refl _)
      (by intro g1 b _ hab hav
          have : (a != b) = true := by simp [hab]
          simp only [this, if_true] at hav ⊢
          rw [verts_addEdge] at hav
          exact (mem_nbrs_addEdge g1 a b a b).2 (Or.inr ⟨hav, Or.inl ⟨rfl, rfl⟩⟩))
      (by intro b g1 g2 hle hq hab hav
          rw [hle.1] at hav
          exact hle.2 _ _ (hq hab hav)) g0
    refine ⟨this.1, fun b hb hab hav => this.2 b hb hab ?_⟩
    rw [this.1.1]; exact hav
  have := foldl_mono_all GLe GLe.refl (fun _ _ _ => GLe.trans)
      (fun g a => ns.foldl (fun g b => if a != b then addEdge g a b else g) g)
      (fun a g' => ∀ b ∈ ns, a ≠ b → a ∈ verts g' → b ∈ nbrs g' a) ns
      (by intro g1 a _; exact (hinner a g1).1)
      (by intro g1 a _ b hb hab hav
          refine (hinner a g1).2 b hb hab ?_
          rw [(hinner a g1).1.1] at hav; exact hav)
      (by intro a g1 g2 hle hq b hb hab hav
          rw [hle.1] at hav
          exact hle.2 _ _ (hq b hb hab hav)) g
  refine ⟨this.1, fun a ha b hb hab hav => this.2 a ha b hb hab ?_⟩
  rw [this.1.1]; exact hav

end Graph

/-! ## Part 3 — positions, bags and the primal graph -/

section Primal
open Fggs Fggs.Cj Fggs.Fz Fggs.TD

/-- position of a node in `orig.nodes` (as in `primal` and `tdOf`) -/
def pos (orig : Rule) (v : Node) : Nat := orig.nodes.findIdx (· = v)

/-- the bag of an output rule (as in `tdOf`) -/
def bagOf (orig : Rule) (r : Rule) : List Nat := sortBag (r.nodes.map (pos orig))

theorem pos_lt (orig : Rule) {v : Node} (hv : v ∈ orig.nodes) : pos orig v < orig.nodes.length :=
  List.findIdx_lt_length_of_exists ⟨v, hv, by simp⟩

theorem pos_inj (orig : Rule) {v w : Node} (hv : v ∈ orig.nodes) (hw : w ∈ orig.nodes)
    (h : pos orig v = pos orig w) : v = w := by
  have h1 := List.findIdx_getElem (p := fun x => decide (x = v)) (xs := orig.nodes) (w := pos_lt orig hv)
  have h2 := List.findIdx_getElem (p := fun x => decide (x = w)) (xs := orig.nodes) (w := pos_lt orig hw)
  simp only [decide_eq_true_eq] at h1 h2
  have key : ∀ (i j : Nat) (hi : i < orig.nodes.length) (hj : j < orig.nodes.length), i = j →
      orig.nodes[i] = orig.nodes[j] := by
    intro i j hi hj hij; subst hij; rfl
  rw [← h1, ← h2]
  exact key _ _ _ _ h

theorem mem_bagOf (orig r : Rule) (x : Nat) : x ∈ bagOf orig r ↔ ∃ u ∈ r.nodes, pos orig u = x := by
  unfold bagOf sortBag
  rw [List.mem_mergeSort, List.mem_map]

/-- for a rule all of whose nodes are original nodes: `v ∈ r.nodes ↔ pos v ∈ bag` -/
theorem pos_mem_bagOf (orig r : Rule) (hsub : ∀ u ∈ r.nodes, u ∈ orig.nodes) {v : Node}
    (hv : v ∈ orig.nodes) : pos orig v ∈ bagOf orig r ↔ v ∈ r.nodes := by
  rw [mem_bagOf]
  constructor
  · rintro ⟨u, hu, hpos⟩
    rw [← pos_inj orig (hsub u hu) hv hpos]; exact hu
  · intro h; exact ⟨v, h, rfl⟩

theorem primal_eq (orig : Rule) :
    primal orig = (orig.edges.map (·.nodes) ++ [orig.ext]).foldl
      (fun g c => makeClique g ((c.map (pos orig)).eraseDups))
      ((List.range orig.nodes.length).map (fun i => (i, []))) := rfl

theorem primal_spec (orig : Rule) :
    verts (primal orig) = List.range orig.nodes.length ∧
    ∀ c ∈ orig.edges.map (·.nodes) ++ [orig.ext], ∀ a ∈ c.map (pos orig), ∀ b ∈ c.map (pos orig),
      a ≠ b → a < orig.nodes.length → b ∈ nbrs (primal orig) a := by
  rw [primal_eq]
  have hv0 : verts ((List.range orig.nodes.length).map (fun i => ((i, []) : Nat × List Nat))) =
      List.range orig.nodes.length := by
    unfold verts; rw [List.map_map]; simp [Function.comp_def]
  have := foldl_mono_all GLe GLe.refl (fun _ _ _ => GLe.trans)
    (fun g (c : List Node) => makeClique g ((c.map (pos orig)).eraseDups))
    (fun c g' => ∀ a ∈ c.map (pos orig), ∀ b ∈ c.map (pos orig), a ≠ b → a ∈ verts g' → b ∈ nbrs g' a)
    (orig.edges.map (·.nodes) ++ [orig.ext])
    (by intro g1 c _; exact (makeClique_complete g1 _).1)
    (by intro g1 c _ a ha b hb hab hav
        refine (makeClique_complete g1 _).2 a (List.mem_eraseDups.2 ha) b (List.mem_eraseDups.2 hb) hab ?_
        rw [(makeClique_complete g1 _).1.1] at hav; exact hav)
    (by intro c g1 g2 hle hq a ha b hb hab hav
        rw [hle.1] at hav
        exact hle.2 _ _ (hq a ha b hb hab hav))
    ((List.range orig.nodes.length).map (fun i => (i, [])))
  refine ⟨by rw [this.1.1, hv0], ?_⟩
  intro c hc a ha b hb hab hlt
  refine this.2 c hc a ha b hb hab ?_
  rw [this.1.1, hv0]
  exact List.mem_range.2 hlt

end Primal

/-! ## Part 4 — what `factorizationOf` says, as a structure -/

section Facts
open Fggs Fggs.Cj Fggs.Fz Fggs.TD

theorem nodupB_iff {α} [DecidableEq α] (l : List α) : nodupB l = true ↔ l.Nodup := by
  induction l with
  | nil => simp [nodupB]
  | cons x xs ih =>
    simp only [nodupB, Bool.and_eq_true, Bool.not_eq_true', List.nodup_cons, ih]
    constructor
    · rintro ⟨h1, h2⟩
      refine ⟨?_, h2⟩
      intro hx
      have : xs.contains x = true := by simpa using hx
      rw [this] at h1; cases h1
    · rintro ⟨h1, h2⟩
      refine ⟨?_, h2⟩
      cases hc : xs.contains x with
      | false => rfl
      | true => exact absurd (by simpa using hc) h1

theorem subsetN_iff (a b : List Node) : subsetN a b = true ↔ ∀ v ∈ a, v ∈ b := by
  simp [subsetN, List.all_eq_true]

/-- the parent of an output rule: the rule carrying a new edge labelled with its lhs (the head of
`parentsOf`, exactly the `parentBag` of `factorizationOf`) -/
def par (avoid : List String) (out : List Rule) (r : Rule) : Option Rule :=
  (parentsOf avoid out r.lhs).head?

/-- the condition under which `factorizationOf` puts the original edge `e` into rule `r` -/
def keepsB (avoid : List String) (out : List Rule) (r : Rule) (e : Edge) : Bool :=
  subsetN e.nodes r.nodes &&
    (match (par avoid out r).map (·.nodes) with
     | none => true
     | some pb => !subsetN e.nodes pb)

theorem keepsB_iff (avoid : List String) (out : List Rule) (r : Rule) (e : Edge) :
    keepsB avoid out r e = true ↔
      (∀ v ∈ e.nodes, v ∈ r.nodes) ∧ ∀ p, par avoid out r = some p → ¬ ∀ v ∈ e.nodes, v ∈ p.nodes := by
  unfold keepsB
  rw [Bool.and_eq_true, subsetN_iff]
  cases hp : par avoid out r with
  | none => simp
  | some p =>
    simp only [Option.map_some, Bool.not_eq_true', Option.some.injEq, forall_eq']
    rw [← Bool.not_eq_true, subsetN_iff]

structure Facts (orig : Rule) (avoid : List String) (out : List Rule) (root : Rule) : Prop where
  root_mem : root ∈ out
  root_lhs : root.lhs = orig.lhs
  root_ext : root.ext = orig.ext
  root_only : ∀ r ∈ out, r.lhs = orig.lhs → r = root
  names_nodup : (out.map (·.lhs.name)).Nodup
  lhs_inj : ∀ a ∈ out, ∀ b ∈ out, a.lhs = b.lhs → a = b
  nodes_sub : ∀ r ∈ out, ∀ v ∈ r.nodes, v ∈ orig.nodes
  parent : ∀ r ∈ out, r.lhs ≠ orig.lhs → ∃ p, parentsOf avoid out r.lhs = [p]
  root_par : parentsOf avoid out orig.lhs = []
  new_target : ∀ r ∈ out, ∀ e ∈ newEdges avoid r, (∃ c, ruleOf out e.label = some c) ∧ e.label ≠ orig.lhs
  reach_len : (reachRules avoid out root).length = out.length
  old_nodup : ∀ r ∈ out, (oldEdges avoid r).Nodup
  old_sub : ∀ r ∈ out, ∀ e ∈ oldEdges avoid r, e ∈ orig.edges ∧ keepsB avoid out r e = true
  old_sup : ∀ r ∈ out, ∀ e ∈ orig.edges, keepsB avoid out r e = true → e ∈ oldEdges avoid r

theorem unpack (orig : Rule) (avoid : List String) (out : List Rule)
    (h : factorizationOf orig avoid out = true) : ∃ root, Facts orig avoid out root := by
  unfold factorizationOf at h
  split at h
  · rename_i root hroot
    refine ⟨root, ?_⟩
    simp only [Bool.and_eq_true, decide_eq_true_eq] at h
    obtain ⟨⟨⟨⟨⟨⟨⟨⟨h1, h2⟩, h3⟩, h4⟩, h5⟩, h6⟩, h7⟩, h8⟩, h9⟩ := h
    have hrm : root ∈ out.filter (·.lhs = orig.lhs) := by rw [hroot]; simp
    have hnd : (out.map (·.lhs.name)).Nodup := (nodupB_iff _).mp h2
    refine ⟨(List.mem_filter.mp hrm).1, by simpa using (List.mem_filter.mp hrm).2, h1, ?_, hnd, ?_, ?_, ?_, ?_, ?_, ?_,
      ?_, ?_, ?_⟩
    · intro r hr hl
      have : r ∈ out.filter (·.lhs = orig.lhs) := List.mem_filter.mpr ⟨hr, by simpa using hl⟩
      rw [hroot] at this
      simpa using this
    · intro a ha b hb hab
      exact List.inj_on_of_nodup_map hnd ha hb (by simp only [hab])
    · intro r hr
      have := List.all_eq_true.mp h4 r hr
      simp only [Bool.and_eq_true] at this
      exact (subsetN_iff _ _).mp this.1.2
    · intro r hr hne
      have := List.all_eq_true.mp h5 r hr
      rw [Bool.or_eq_true, decide_eq_true_eq] at this
      rcases this with h | h
      · exact absurd h hne
      · split at h
        · rename_i p hp; exact ⟨p, hp⟩
        · cases h
    · simpa using h6
    · intro r hr e he
      have := List.all_eq_true.mp (List.all_eq_true.mp h7 r hr) e he
      simp only [Bool.and_eq_true, decide_eq_true_eq, Option.isSome_iff_exists] at this
      exact ⟨this.1, by simpa using this.2⟩
    · simpa using h8
    · intro r hr
      have := List.all_eq_true.mp h9 r hr
      simp only [Bool.and_eq_true] at this
      exact (nodupB_iff _).mp this.1.1
    · intro r hr e he
      have := List.all_eq_true.mp h9 r hr
      simp only [Bool.and_eq_true] at this
      have h' := List.all_eq_true.mp this.1.2 e he
      simp only [Bool.and_eq_true] at h'
      refine ⟨by simpa using h'.1.1, ?_⟩
      exact (Bool.and_eq_true _ _).mpr ⟨h'.1.2, h'.2⟩
    · intro r hr e he hk
      have := List.all_eq_true.mp h9 r hr
      simp only [Bool.and_eq_true] at this
      have h' := List.all_eq_true.mp this.2 e he
      rw [Bool.or_eq_true] at h'
      rcases h' with h' | h'
      · have h'' : (!keepsB avoid out r e) = true := h'
        rw [hk] at h''; cases h''
      · simpa using h'
  · cases h

end Facts

/-! ## Part 5 — the parent function of a factorization; everything hangs on the root -/

section Par
open Fggs Fggs.Cj Fggs.Fz Fggs.TD

variable {orig : Rule} {avoid : List String} {out : List Rule} {root : Rule}

theorem ruleOf_some {out : List Rule} {l : Label} {c : Rule} (h : ruleOf out l = some c) :
    c ∈ out ∧ c.lhs = l := by
  unfold ruleOf at h
  exact ⟨List.mem_of_find?_eq_some h, by simpa using List.find?_some h⟩

theorem par_mem {a p : Rule} (h : par avoid out a = some p) : p ∈ out := by
  unfold par at h
  obtain ⟨ys, hys⟩ := List.head?_eq_some_iff.1 h
  have : p ∈ parentsOf avoid out a.lhs := by rw [hys]; simp
  exact (List.mem_filter.mp this).1

theorem Facts.par_root (F : Facts orig avoid out root) : par avoid out root = none := by
  unfold par
  rw [F.root_lhs, F.root_par]; rfl

theorem Facts.par_of_mem_parentsOf (F : Facts orig avoid out root) {r p : Rule} (hr : r ∈ out)
    (hp : p ∈ parentsOf avoid out r.lhs) : par avoid out r = some p := by
  by_cases hl : r.lhs = orig.lhs
  · rw [hl, F.root_par] at hp; cases hp
  · obtain ⟨p', hp'⟩ := F.parent r hr hl
    unfold par
    rw [hp'] at hp ⊢
    simp only [List.mem_singleton] at hp
    subst hp; rfl

theorem Facts.par_of_newEdge (F : Facts orig avoid out root) {r c : Rule} {e : Edge} (hr : r ∈ out)
    (he : e ∈ newEdges avoid r) (hc : c ∈ out) (hl : c.lhs = e.label) : par avoid out c = some r := by
  apply F.par_of_mem_parentsOf hc
  unfold parentsOf
  rw [List.mem_filter]
  refine ⟨hr, ?_⟩
  rw [List.any_eq_true]
  exact ⟨e, he, by simpa using hl.symm⟩

/-- everything hangs on the root: every rule is reached from the root by parent links -/
theorem Facts.reach (F : Facts orig avoid out root) : ∀ r ∈ out, Anc (par avoid out) root r := by
  let Good : Label → Prop := fun l => ∃ r ∈ out, r.lhs = l ∧ Anc (par avoid out) root r
  let I : List Label → Prop := fun seen => seen.Nodup ∧ ∀ l ∈ seen, Good l
  have hI : I (reachRules avoid out root) := by
    unfold reachRules
    refine foldl_inv I _ _ _ ⟨by simp, ?_⟩ ?_
    · intro l hl
      simp only [List.mem_singleton] at hl
      subst hl
      exact ⟨root, F.root_mem, rfl, Anc.refl _⟩
    intro seen hseen _ _
    refine foldl_inv I _ _ _ hseen ?_
    intro acc hacc l hl
    cases hrl : ruleOf out l with
    | none => exact hacc
    | some r =>
      simp only
      obtain ⟨hrout, hrlhs⟩ := ruleOf_some hrl
      obtain ⟨r0, hr0, hr0l, hanc⟩ := hseen.2 l hl
      have : r0 = r := F.lhs_inj r0 hr0 r hrout (by rw [hr0l, hrlhs])
      subst this
      refine foldl_inv I _ _ _ hacc ?_
      intro acc2 hacc2 e he
      split_ifs with hc
      · exact hacc2
      · refine ⟨List.Nodup.append hacc2.1 (by simp) (by simpa using hc), ?_⟩
        intro x hx
        rcases List.mem_append.1 hx with hx | hx
        · exact hacc2.2 x hx
        · simp only [List.mem_singleton] at hx
          subst hx
          obtain ⟨⟨c, hc'⟩, _⟩ := F.new_target r0 hr0 e he
          obtain ⟨hcout, hclhs⟩ := ruleOf_some hc'
          exact ⟨c, hcout, hclhs, Anc.step hanc (F.par_of_newEdge hr0 he hcout hclhs)⟩
  obtain ⟨hnd, hgood⟩ := hI
  have hnames : (out.map (·.lhs)).Nodup := by
    have h := F.names_nodup
    rw [show out.map (·.lhs.name) = (out.map (·.lhs)).map (·.name) by rw [List.map_map]; rfl] at h
    exact List.Nodup.of_map _ h
  have hsub : reachRules avoid out root ⊆ out.map (·.lhs) := by
    intro l hl
    obtain ⟨r, hr, hrl, _⟩ := hgood l hl
    exact List.mem_map.2 ⟨r, hr, hrl⟩
  have hperm := (List.subperm_of_subset hnd hsub).perm_of_length_le
    (by rw [F.reach_len, List.length_map])
  intro r hr
  have : r.lhs ∈ reachRules avoid out root := hperm.mem_iff.2 (List.mem_map.2 ⟨r, hr, rfl⟩)
  obtain ⟨r0, hr0, hr0l, hanc⟩ := hgood _ this
  rw [← F.lhs_inj r0 hr0 r hr hr0l]
  exact hanc

end Par

/-! ## Part 6 — from the tree of bags `tdOf` back to the rules -/

section Bridge
open Fggs Fggs.Cj Fggs.Fz Fggs.TD

variable {orig : Rule} {avoid : List String} {out : List Rule} {root : Rule}

/-- adjacency list of a rule's bag in `tdOf`: the bags of its children, then the bag of its parent -/
def adjOf (orig : Rule) (avoid : List String) (out : List Rule) (r : Rule) : List (List Nat) :=
  ((newEdges avoid r).filterMap (fun e => (ruleOf out e.label).map (bagOf orig))) ++
  ((parentsOf avoid out r.lhs).map (bagOf orig))

theorem tdOf_eq (orig : Rule) (avoid : List String) (out : List Rule) :
    tdOf orig avoid out = out.map (fun r => (bagOf orig r, adjOf orig avoid out r)) := rfl

theorem bags_tdOf (orig : Rule) (avoid : List String) (out : List Rule) :
    (tdOf orig avoid out).map (·.1) = out.map (bagOf orig) := by
  rw [tdOf_eq, List.map_map]; rfl

/-- `validTD` checks that no two bags coincide -/
theorem validTD_bags_nodup (g : UG) (t : Tree) (h : validTD g t = true) : (t.map (·.1)).Nodup := by
  simp only [validTD, Bool.and_eq_true, List.all_eq_true, List.contains_iff_mem, beq_iff_eq,
    List.mem_range, Bool.or_eq_true, bne_iff_ne, ne_eq, List.any_eq_true, Bool.not_eq_true',
    List.isEmpty_eq_false_iff] at h
  obtain ⟨⟨⟨⟨⟨⟨⟨⟨h1, h2⟩, h3⟩, h4⟩, h5⟩, h6⟩, h7⟩, h8⟩, h9⟩ := h
  rw [List.nodup_iff_getElem?_ne_getElem?]
  intro i j hij hj
  have hi : i < (t.map (·.1)).length := lt_trans hij hj
  rcases h3 i hi j hj with h | h
  · omega
  · rw [getElem!_pos (t.map (·.1)) i hi, getElem!_pos (t.map (·.1)) j hj] at h
    rw [List.getElem?_eq_getElem hi, List.getElem?_eq_getElem hj]
    intro heq
    exact h (Option.some.inj heq)

/-- the hypotheses of the C05b theorems about the tree of bags, in usable form -/
structure TDOK (orig : Rule) (avoid : List String) (out : List Rule) : Prop where
  valid : C10.ValidTD (primal orig) (tdOf orig avoid out)
  nodup : (out.map (bagOf orig)).Nodup

theorem TDOK.of_validTD (h : validTD (primal orig) (tdOf orig avoid out) = true) : TDOK orig avoid out :=
  ⟨C10.validTD_sound _ _ h, by rw [← bags_tdOf orig avoid out]; exact validTD_bags_nodup _ _ h⟩

theorem TDOK.bagOf_inj (D : TDOK orig avoid out) {a b : Rule} (ha : a ∈ out) (hb : b ∈ out)
    (h : bagOf orig a = bagOf orig b) : a = b :=
  List.inj_on_of_nodup_map D.nodup ha hb h

theorem TDOK.lookup (D : TDOK orig avoid out) {r : Rule} (hr : r ∈ out) :
    (tdOf orig avoid out).lookup (bagOf orig r) = some (adjOf orig avoid out r) := by
  apply lookup_of_mem_nodup
  · rw [bags_tdOf]; exact D.nodup
  · rw [tdOf_eq]; exact List.mem_map.2 ⟨r, hr, rfl⟩

/-- a tree edge at the bag of `r` leads to the bag of a child or of the parent of `r` -/
theorem tadj_cases (F : Facts orig avoid out root) (D : TDOK orig avoid out) {r : Rule} (hr : r ∈ out)
    {c : List Nat} (h : C10.TAdj (tdOf orig avoid out) (bagOf orig r) c) :
    ∃ r' ∈ out, bagOf orig r' = c ∧ (par avoid out r' = some r ∨ par avoid out r = some r') := by
  unfold C10.TAdj at h
  rw [D.lookup hr, Option.getD_some] at h
  unfold adjOf at h
  rcases List.mem_append.1 h with h | h
  · obtain ⟨e, he, hm⟩ := List.mem_filterMap.1 h
    cases hro : ruleOf out e.label with
    | none => rw [hro] at hm; cases hm
    | some r' =>
      rw [hro] at hm
      simp only [Option.map_some, Option.some.injEq] at hm
      obtain ⟨h1, h2⟩ := ruleOf_some hro
      exact ⟨r', h1, hm, Or.inl (F.par_of_newEdge hr he h1 h2)⟩
  · obtain ⟨p, hp, hpc⟩ := List.mem_map.1 h
    exact ⟨p, (List.mem_filter.mp hp).1, hpc, Or.inr (F.par_of_mem_parentsOf hr hp)⟩

/-- a path of bags all containing position `pos v` is a path of rules all containing `v` -/
theorem path_to_conn (F : Facts orig avoid out root) (D : TDOK orig avoid out) {v : Node}
    (hv : v ∈ orig.nodes) {a : Rule} (ha : a ∈ out) {c : List Nat}
    (h : C10.PathIn (tdOf orig avoid out)
      (fun c => c ∈ (tdOf orig avoid out).map (·.1) ∧ pos orig v ∈ c) (bagOf orig a) c) :
    ∃ r ∈ out, bagOf orig r = c ∧ Conn (par avoid out) (fun r => r ∈ out ∧ v ∈ r.nodes) a r := by
  induction h with
  | refl hp =>
    exact ⟨a, ha, rfl, Conn.refl _ ⟨ha, (pos_mem_bagOf orig a (F.nodes_sub a ha) hv).1 hp.2⟩⟩
  | step hab hadj hp ih =>
    obtain ⟨r, hr, hrb, hconn⟩ := ih
    rw [← hrb] at hadj
    obtain ⟨r', hr', hr'c, hpar⟩ := tadj_cases F D hr hadj
    refine ⟨r', hr', hr'c, Conn.step hconn hpar ⟨hr', ?_⟩⟩
    rw [← hr'c] at hp
    exact (pos_mem_bagOf orig r' (F.nodes_sub r' hr') hv).1 hp.2

/-- **the output of a factorization, with its parent links, is a rooted tree decomposition** -/
theorem rootedTD (F : Facts orig avoid out root) (D : TDOK orig avoid out) :
    RootedTD (par avoid out) (fun r => r ∈ out) root (fun r (v : Node) => v ∈ r.nodes) where
  root_mem := F.root_mem
  root_par := F.par_root
  par_mem := fun a p _ h => par_mem h
  reach := F.reach
  running := by
    intro v a b ha hb hav hbv
    have hv : v ∈ orig.nodes := F.nodes_sub a ha v hav
    have hmem : ∀ r ∈ out, bagOf orig r ∈ (tdOf orig avoid out).map (·.1) := by
      intro r hr; rw [bags_tdOf]; exact List.mem_map.2 ⟨r, hr, rfl⟩
    have hpath := D.valid.running (pos orig v)
      (by rw [(primal_spec orig).1]; exact List.mem_range.2 (pos_lt orig hv))
      (bagOf orig a) (hmem a ha) (bagOf orig b) (hmem b hb)
      ((pos_mem_bagOf orig a (F.nodes_sub a ha) hv).2 hav)
      ((pos_mem_bagOf orig b (F.nodes_sub b hb) hv).2 hbv)
    obtain ⟨r, hr, hrb, hconn⟩ := path_to_conn F D hv ha hpath
    rw [D.bagOf_inj hr hb hrb] at hconn
    exact hconn

/-- vertex coverage of `tdOf`, on rules -/
theorem cover_node (F : Facts orig avoid out root) (D : TDOK orig avoid out) {v : Node}
    (hv : v ∈ orig.nodes) : ∃ r ∈ out, v ∈ r.nodes := by
  obtain ⟨b, hb, hvb⟩ := D.valid.coverV (pos orig v)
    (by rw [(primal_spec orig).1]; exact List.mem_range.2 (pos_lt orig hv))
  rw [bags_tdOf] at hb
  obtain ⟨r, hr, hrb⟩ := List.mem_map.1 hb
  rw [← hrb] at hvb
  exact ⟨r, hr, (pos_mem_bagOf orig r (F.nodes_sub r hr) hv).1 hvb⟩

/-- any two nodes of an original edge lie together in some rule (edge coverage of `tdOf`) -/
theorem cover_pair (F : Facts orig avoid out root) (D : TDOK orig avoid out) {e : Edge}
    (he : e ∈ orig.edges) (hwf : ∀ v ∈ e.nodes, v ∈ orig.nodes) :
    ∀ u ∈ e.nodes, ∀ w ∈ e.nodes, ∃ r, r ∈ out ∧ u ∈ r.nodes ∧ w ∈ r.nodes := by
  intro u hu w hw
  by_cases huw : u = w
  · subst huw
    obtain ⟨r, hr, hur⟩ := cover_node F D (hwf u hu)
    exact ⟨r, hr, hur, hur⟩
  · have hne : pos orig u ≠ pos orig w := fun h => huw (pos_inj orig (hwf u hu) (hwf w hw) h)
    have hnb : pos orig w ∈ nbrs (primal orig) (pos orig u) :=
      (primal_spec orig).2 e.nodes (List.mem_append_left _ (List.mem_map.2 ⟨e, he, rfl⟩))
        (pos orig u) (List.mem_map.2 ⟨u, hu, rfl⟩) (pos orig w) (List.mem_map.2 ⟨w, hw, rfl⟩) hne
        (pos_lt orig (hwf u hu))
    obtain ⟨b, hb, hub, hwb⟩ := D.valid.coverE _ (mem_of_nbrs_ne_nil _ _ _ hnb) _ hnb
    rw [bags_tdOf] at hb
    obtain ⟨r, hr, hrb⟩ := List.mem_map.1 hb
    rw [← hrb] at hub hwb
    exact ⟨r, hr, (pos_mem_bagOf orig r (F.nodes_sub r hr) (hwf u hu)).1 hub,
      (pos_mem_bagOf orig r (F.nodes_sub r hr) (hwf w hw)).1 hwb⟩

end Bridge

end C05b
