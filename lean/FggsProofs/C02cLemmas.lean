/-
C02cLemmas — facts about the driver loop `Pipe.sumProducts` with the method `fixed-point`:
the loop as a pure fold, the entries of `overlay`/`compF`, the loop `fpGo`.
-/
import FggsModel.Pipeline
import FggsProofs.PipeLemmas
import FggsProofs.Props.C01
import FggsProofs.Props.C02b
import FggsProofs.Props.C19
import Mathlib.Tactic.Linarith
import Mathlib.Data.List.Basic

set_option linter.unusedSimpArgs false
set_option linter.unusedVariables false

namespace C02cL
open Fggs Fggs.Sem Fggs.Pipe PipeL

variable {K : Type}

/-! ### the loop as a pure fold -/

/-- one component under the method `fixed-point` -/
def stepFP [BEq K] (S : SR K) (G : Grammar K) (kmax : Nat) (o : Outcome K) (comp : List Nat) : Outcome K :=
  if comp.length == 1 && maxRhs G comp == 0 then
    { o with value := overlay G.nts.length o.value (compF S G o.value comp (List.replicate G.nts.length none)) comp }
  else
    { o with value := overlay G.nts.length o.value (fixedPoint S G o.value comp kmax).1 comp,
             warned := o.warned || (fixedPoint S G o.value comp kmax).2 }

theorem solveComp_fixedPoint [BEq K] (S : SR K) (star : K → K) (G : Grammar K) (kmax : Nat)
    (o : Outcome K) (comp : List Nat) :
    solveComp S star G .fixedPoint kmax o comp = .ok (stepFP S G kmax o comp) := by
  unfold solveComp stepFP compMethod
  by_cases h : (comp.length == 1 && maxRhs G comp == 0) = true
  · simp only [h, if_true]; rfl
  · rw [Bool.not_eq_true] at h
    simp only [h]
    have : (Method.fixedPoint == Method.newton) = false := by decide
    simp only [this, Bool.and_false]
    rfl

theorem foldlM_ok {α β : Type} (f : β → α → Except String β) (g : β → α → β)
    (h : ∀ b a, f b a = .ok (g b a)) (l : List α) (b : β) :
    l.foldlM f b = .ok (l.foldl g b) := by
  induction l generalizing b with
  | nil => rfl
  | cons a l ih =>
    rw [List.foldlM_cons, h]
    exact ih _

theorem sumProducts_fixedPoint_eq [BEq K] (S : SR K) (star : K → K) (G : Grammar K) (kmax : Nat) :
    sumProducts S star G .fixedPoint kmax =
      .ok ((sccOrder G).foldl (stepFP S G kmax) { value := zeroVal G }) := by
  unfold sumProducts
  exact foldlM_ok _ _ (solveComp_fixedPoint S star G kmax) _ _

theorem stepFP_unmodelled [BEq K] (S : SR K) (G : Grammar K) (kmax : Nat) (o : Outcome K) (comp : List Nat) :
    (stepFP S G kmax o comp).unmodelled = o.unmodelled := by
  unfold stepFP; split <;> rfl

theorem foldl_stepFP_unmodelled [BEq K] (S : SR K) (G : Grammar K) (kmax : Nat) (l : List (List Nat))
    (o : Outcome K) : (l.foldl (stepFP S G kmax) o).unmodelled = o.unmodelled := by
  induction l generalizing o with
  | nil => rfl
  | cons c l ih => rw [List.foldl_cons, ih, stepFP_unmodelled]

theorem stepFP_warned_false [BEq K] (S : SR K) (G : Grammar K) (kmax : Nat) (o : Outcome K) (comp : List Nat)
    (h : (stepFP S G kmax o comp).warned = false) : o.warned = false := by
  unfold stepFP at h
  split at h
  · exact h
  · simp only [Bool.or_eq_false_iff] at h; exact h.1

theorem foldl_stepFP_warned_false [BEq K] (S : SR K) (G : Grammar K) (kmax : Nat) (l : List (List Nat))
    (o : Outcome K) (h : (l.foldl (stepFP S G kmax) o).warned = false) : o.warned = false := by
  induction l generalizing o with
  | nil => exact h
  | cons c l ih => exact stepFP_warned_false S G kmax o c (ih _ h)

/-! ### entries -/

/-- the entry of nonterminal `X` -/
abbrev ent (v : Val K) (X : Nat) : Option (List K) := v[X]?.join

theorem ent_overlay (n : Nat) (x y : Val K) (comp : List Nat) (X : Nat) :
    (overlay n x y comp)[X]?.join =
      if X < n then (if comp.contains X then y[X]?.join else x[X]?.join) else none := by
  unfold overlay
  by_cases hX : X < n
  · rw [List.getElem?_map, List.getElem?_range hX]
    simp only [hX, if_true, Option.map_some]
    split <;> simp
  · simp only [hX, if_false]
    rw [List.getElem?_eq_none (by simp; omega)]; rfl

theorem ent_compF (S : SR K) (G : Grammar K) (x : Val K) (comp : List Nat) (y : Val K) (X : Nat) :
    (compF S G x comp y)[X]?.join =
      if X < G.nts.length ∧ comp.contains X then (Impl.F S G (overlay G.nts.length x y comp))[X]?.join
      else none := by
  unfold compF
  by_cases hX : X < G.nts.length
  · simp only [List.getElem?_map, List.getElem?_range hX, hX, true_and, Option.map_some]
    split <;> simp
  · simp only [hX, false_and, if_false]
    rw [List.getElem?_eq_none (by simp; omega)]; rfl

theorem cellsOf_congr (S : SR K) (G : Grammar K) (v v' : Val K) (X : Nat)
    (h : v[X]?.join = v'[X]?.join) : cellsOf S G v X = cellsOf S G v' X := by
  unfold cellsOf; rw [h]

theorem ent_replicate_none (n X : Nat) : ((List.replicate n none : Val K))[X]?.join = none := by
  rw [List.getElem?_replicate]; split <;> rfl

/-- inside the component, the overlay with `compF … w` has the cells of `F` at the overlay with `w` -/
theorem cellsOf_overlay_compF (S : SR K) (hS : C01.SRLaws S) (G : Grammar K) (hG : GrammarWF G)
    (v w : Val K) (comp : List Nat) (X : Nat) (hX : X < G.nts.length) (hc : X ∈ comp) :
    cellsOf S G (overlay G.nts.length v (compF S G v comp w) comp) X =
      cellsOf S G (F S G (overlay G.nts.length v w comp)) X := by
  rw [← cellsOf_implF S hS G hG _ X hX]
  apply cellsOf_congr
  rw [ent_overlay, ent_compF]
  simp [hX, hc]

theorem cellsOf_compF (S : SR K) (hS : C01.SRLaws S) (G : Grammar K) (hG : GrammarWF G)
    (v w : Val K) (comp : List Nat) (X : Nat) (hX : X < G.nts.length) (hc : X ∈ comp) :
    cellsOf S G (compF S G v comp w) X = cellsOf S G (F S G (overlay G.nts.length v w comp)) X := by
  rw [← cellsOf_implF S hS G hG _ X hX]
  apply cellsOf_congr
  rw [ent_compF]
  simp [hX, hc]

theorem cellsOf_overlay_in (S : SR K) (G : Grammar K) (v w : Val K) (comp : List Nat) (X : Nat)
    (hX : X < G.nts.length) (hc : X ∈ comp) :
    cellsOf S G (overlay G.nts.length v w comp) X = cellsOf S G w X := by
  apply cellsOf_congr
  rw [ent_overlay]; simp [hX, hc]

theorem cellsOf_overlay_out (S : SR K) (G : Grammar K) (v w : Val K) (hv : v.length = G.nts.length)
    (comp : List Nat) (X : Nat) (hc : X ∉ comp) :
    cellsOf S G (overlay G.nts.length v w comp) X = cellsOf S G v X := by
  apply cellsOf_congr
  rw [ent_overlay]
  by_cases hX : X < G.nts.length
  · simp [hX, hc]
  · simp only [hX, if_false]
    rw [List.getElem?_eq_none (by omega)]; rfl

/-! ### the loop of `fixed_point` -/

theorem fpGo_succ [BEq K] (S : SR K) (G : Grammar K) (x : Val K) (comp : List Nat) (fuel : Nat) (x0 x1 : Val K) :
    fpGo S G x comp (fuel + 1) x0 x1 =
      if valEqOn S G comp x0 x1 then (x0, false) else fpGo S G x comp fuel x1 (compF S G x comp x1) := by
  rw [fpGo]

/-- a result without warning passed the stopping test -/
theorem fpGo_no_warning [BEq K] (S : SR K) (G : Grammar K) (x : Val K) (comp : List Nat) (fuel : Nat)
    (x0 : Val K) (h : (fpGo S G x comp fuel x0 (compF S G x comp x0)).2 = false) :
    valEqOn S G comp (fpGo S G x comp fuel x0 (compF S G x comp x0)).1
      (compF S G x comp (fpGo S G x comp fuel x0 (compF S G x comp x0)).1) = true := by
  induction fuel generalizing x0 with
  | zero => simp [fpGo] at h
  | succ fuel ih =>
    rw [fpGo_succ] at h ⊢
    by_cases he : valEqOn S G comp x0 (compF S G x comp x0) = true
    · simp only [he, if_true]
    · simp only [he] at h ⊢
      exact ih _ h

/-- every property preserved by `compF` holds of the result of the loop -/
theorem fpGo_invariant [BEq K] (S : SR K) (G : Grammar K) (x : Val K) (comp : List Nat) (P : Val K → Prop)
    (hP : ∀ w, P w → P (compF S G x comp w)) (fuel : Nat) (x0 x1 : Val K) (h0 : P x0) (h1 : P x1) :
    P (fpGo S G x comp fuel x0 x1).1 := by
  induction fuel generalizing x0 x1 with
  | zero => simpa [fpGo] using h0
  | succ fuel ih =>
    rw [fpGo_succ]
    split
    · exact h0
    · exact ih _ _ h1 (hP _ h1)

theorem list_beq_eq [BEq K] (hbeq : ∀ a b : K, (a == b) = true → a = b) (l l' : List K)
    (h : (l == l') = true) : l = l' := by
  induction l generalizing l' with
  | nil => cases l' with
    | nil => rfl
    | cons b l' => simp at h
  | cons a l ih =>
    cases l' with
    | nil => simp at h
    | cons b l' =>
      simp only [List.cons_beq_cons, Bool.and_eq_true] at h
      rw [hbeq a b h.1, ih l' h.2]

theorem valEqOn_eq [BEq K] (hbeq : ∀ a b : K, (a == b) = true → a = b) (S : SR K) (G : Grammar K)
    (comp : List Nat) (a b : Val K) (h : valEqOn S G comp a b = true) :
    ∀ X ∈ comp, cellsOf S G a X = cellsOf S G b X := by
  intro X hX
  unfold valEqOn at h
  rw [List.all_eq_true] at h
  exact list_beq_eq hbeq _ _ (h X hX)

/-! ### `max_rhs = 0` -/

theorem foldl_max_zero (l : List Nat) (a : Nat) (h : l.foldl max a = 0) : a = 0 ∧ ∀ x ∈ l, x = 0 := by
  induction l generalizing a with
  | nil => exact ⟨h, by simp⟩
  | cons b l ih =>
    obtain ⟨h1, h2⟩ := ih _ h
    have : a = 0 ∧ b = 0 := by omega
    refine ⟨this.1, ?_⟩
    intro x hx
    rcases List.mem_cons.mp hx with rfl | hx
    · exact this.2
    · exact h2 x hx

theorem maxRhs_zero (G : Grammar K) (comp : List Nat) (h : maxRhs G comp = 0) (X : Nat) (hX : X ∈ comp)
    (r : Rule) (hr : r ∈ G.rulesOf X) : compEdges G comp r = [] := by
  unfold maxRhs at h
  have := (foldl_max_zero _ _ h).2 (compEdges G comp r).length
    (List.mem_flatMap.mpr ⟨X, hX, List.mem_map.mpr ⟨r, hr, rfl⟩⟩)
  exact List.length_eq_zero_iff.mp this

theorem not_mem_ntEdges_of_compEdges_nil (G : Grammar K) (comp : List Nat) (r : Rule)
    (h : compEdges G comp r = []) (Y : Nat) (hY : Y ∈ ntEdgesOf G r) : Y ∉ comp := by
  intro hc
  unfold ntEdgesOf at hY
  obtain ⟨e, he, rfl⟩ := List.mem_map.mp hY
  rw [List.mem_filter] at he
  have : e ∈ compEdges G comp r := by
    unfold compEdges
    rw [List.mem_filter]
    refine ⟨he.1, ?_⟩
    simp only [Bool.and_eq_true]
    exact ⟨he.2, by simpa using hc⟩
  rw [h] at this
  simp at this

end C02cL
