/-
Helper lemmas for Props/C06d.lean, part 2: anti-unification once more.

`expansion` interleaves `antiunify` with broadcast steps that record pairs `((X_k, f), k)` mentioning the FRESH axis
`k` — such an anti-substitution violates `C06cL.OK` (`orig`: the recorded axes live below `base`), so the theorems of
FggsProofs/C06cLemmas.lean cannot be iterated over the dimensions.  This file repeats the induction of
C06cLemmas.lean (`extendAnti_gen` … `antiunify_gen`; the proofs are copies with small changes) for an invariant
without `base`, and with the extra facts `binary` needs:

* every pair CREATED has a size ≠ 1, an identity at or above the old counter, OCCURS in the result axis (so the result
  pattern mentions every fresh axis: the index map of the result is injective), and records sub-axes whose physical
  axes satisfy `Q1` (left) resp. `Q2` (right) — predicates that hold of the physical axes of the arguments;
* no physical axis of the result has size 1 — unconditionally (a recorded pair is reused only for axes with the
  recorded number of elements, and axes of one element give the unit axis).
-/
import FggsModel.Unify
import FggsProofs.Props.C06
import FggsProofs.C06bLemmas
import FggsProofs.C06cLemmas
import Mathlib.Tactic.Linarith
import Mathlib.Data.List.Basic

set_option linter.unusedSimpArgs false
set_option linter.unusedVariables false

namespace C06dA
open Fggs Fggs.Ax Fggs.Un C06b C06cL

/-- every physical axis (identity, size) of `a` satisfies `Q` -/
def AxP (Q : Nat × Nat → Prop) (a : Axis) : Prop := ∀ q ∈ a.fv, Q q

structure OK (st : ASt) : Prop where
  ids : ∀ p ∈ st.pairs, p.2.1 < st.next
  nodup : (st.pairs.map (fun p => p.2.1)).Nodup
  size : ∀ p ∈ st.pairs, p.2.2 = p.1.1.numel ∧ p.1.1.numel = p.1.2.numel

/-- what holds of every pair created from a state with counter `lo` -/
def NewOK (Q1 Q2 : Nat × Nat → Prop) (lo : Nat) (p : Pair) : Prop :=
  p.2.2 ≠ 1 ∧ lo ≤ p.2.1 ∧ AxP Q1 p.1.1 ∧ AxP Q2 p.1.2

theorem NewOK.mono {Q1 Q2 : Nat × Nat → Prop} {lo lo' : Nat} {p : Pair} (h : NewOK Q1 Q2 lo' p) (hle : lo ≤ lo') :
    NewOK Q1 Q2 lo p := ⟨h.1, Nat.le_trans hle h.2.1, h.2.2⟩

/-- `r` is the result of generalising `e` and `f` from the anti-substitution `st` -/
def Gen (sz : Nat → Nat) (Q1 Q2 : Nat × Nat → Prop) (e f : Axis) (st : ASt) (r : Axis × ASt) : Prop :=
  OK r.2 ∧ SizedP sz r.2.pairs ∧ st.next ≤ r.2.next ∧
  (∃ new, r.2.pairs = st.pairs ++ new ∧ ∀ p ∈ new, NewOK Q1 Q2 st.next p ∧ p.2 ∈ r.1.fv) ∧
  r.1.numel = e.numel ∧ (∀ q ∈ r.1.fv, q.2 ≠ 1 ∧ ∃ p ∈ r.2.pairs, p.2 = q) ∧
  (∀ ρ, InRange ρ e → r.1.eval (lift Prod.fst r.2.pairs ρ) = e.eval ρ) ∧
  (∀ ρ, InRange ρ f → r.1.eval (lift Prod.snd r.2.pairs ρ) = f.eval ρ)

/-! ### `extend_antisubst` -/

theorem extendAnti_gen (sz : Nat → Nat) (Q1 Q2 : Nat × Nat → Prop) (e f : Axis) (st : ASt)
    (hst : OK st) (hsz : SizedP sz st.pairs) (he : AxP Q1 e) (hf : AxP Q2 f)
    (hse : Sized sz e) (hsf : Sized sz f) (hn : e.numel = f.numel) :
    Gen sz Q1 Q2 e f st (extendAnti e f st) := by
  unfold extendAnti
  split
  · next hunit =>
    simp only [Bool.and_eq_true, beq_iff_eq] at hunit
    refine ⟨hst, hsz, Nat.le_refl _, ⟨[], by simp, by simp⟩, ?_, ?_, ?_, ?_⟩
    · show unitAxis.numel = e.numel
      rw [unitAxis_numel, hunit.1]
    · intro q hq
      rw [unitAxis_fv] at hq; cases hq
    · intro ρ hρ
      show unitAxis.eval _ = _
      have := C06.eval_lt_numel e ρ hρ
      rw [unitAxis_eval]; omega
    · intro ρ hρ
      show unitAxis.eval _ = _
      have := C06.eval_lt_numel f ρ hρ
      rw [unitAxis_eval]; omega
  next hunit =>
  simp only [Bool.and_eq_true, beq_iff_eq] at hunit
  split
  · next p hfind =>
    have hp : p ∈ st.pairs := List.mem_of_find?_eq_some hfind
    have hpp := List.find?_some hfind
    simp only [Bool.and_eq_true] at hpp
    have h1 := axisEq_spec sz _ _ hpp.1 (hsz p hp).1 hse
    have h2 := axisEq_spec sz _ _ hpp.2 (hsz p hp).2 hsf
    refine ⟨hst, hsz, Nat.le_refl _, ⟨[], by simp, by simp⟩, ?_, ?_, ?_, ?_⟩
    · show (Axis.phys p.2.1 p.2.2).numel = e.numel
      rw [Axis.numel, (hst.size p hp).1, h1.1]
    · intro q hq
      simp only [Axis.fv, List.mem_singleton] at hq
      refine ⟨?_, p, hp, by rw [hq]⟩
      rw [hq]
      show p.2.2 ≠ 1
      rw [(hst.size p hp).1, h1.1]
      intro h1'; exact hunit ⟨h1', by rw [← hn]; exact h1'⟩
    · intro ρ _
      show (Axis.phys p.2.1 p.2.2).eval _ = _
      rw [Axis.eval, lift_at_mem _ _ _ hst.nodup hp]
      exact h1.2 ρ
    · intro ρ _
      show (Axis.phys p.2.1 p.2.2).eval _ = _
      rw [Axis.eval, lift_at_mem _ _ _ hst.nodup hp]
      exact h2.2 ρ
  · next hfind =>
    have hne1 : e.numel ≠ 1 := by
      intro h1; exact hunit ⟨h1, by rw [← hn]; exact h1⟩
    have hfresh : st.pairs.find? (fun p => p.2.1 == st.next) = none := by
      rw [List.find?_eq_none]
      intro x hx
      have := hst.ids x hx
      simp only [beq_iff_eq]; omega
    have hlift : ∀ (sel : Axis × Axis → Axis) (ρ : Nat → Nat),
        lift sel (st.pairs ++ [((e, f), (st.next, e.numel))]) ρ st.next = (sel (e, f)).eval ρ := by
      intro sel ρ
      unfold lift
      rw [List.find?_append, hfresh]
      simp [List.find?]
    refine ⟨⟨?_, ?_, ?_⟩, ?_, ?_, ⟨_, rfl, ?_⟩, ?_, ?_, ?_, ?_⟩
    · intro p hp
      show p.2.1 < st.next + 1
      simp only [List.mem_append, List.mem_singleton] at hp
      rcases hp with hp | rfl
      · have := hst.ids p hp; omega
      · simp
    · show (List.map (fun p => p.2.1) (st.pairs ++ [((e, f), (st.next, e.numel))])).Nodup
      rw [List.map_append, List.nodup_append]
      refine ⟨hst.nodup, by simp, ?_⟩
      intro a ha b hb
      simp only [List.map_cons, List.map_nil, List.mem_singleton] at hb
      obtain ⟨p, hp, rfl⟩ := List.mem_map.1 ha
      have := hst.ids p hp
      omega
    · intro p hp
      simp only [List.mem_append, List.mem_singleton] at hp
      rcases hp with hp | rfl
      · exact hst.size p hp
      · exact ⟨rfl, hn⟩
    · intro p hp
      simp only [List.mem_append, List.mem_singleton] at hp
      rcases hp with hp | rfl
      · exact hsz p hp
      · exact ⟨hse, hsf⟩
    · show st.next ≤ st.next + 1
      omega
    · intro p hp
      simp only [List.mem_singleton] at hp
      subst hp
      exact ⟨⟨hne1, Nat.le_refl _, he, hf⟩, by simp [Axis.fv]⟩
    · rfl
    · intro q hq
      simp only [Axis.fv, List.mem_singleton] at hq
      refine ⟨by rw [hq]; exact hne1, ((e, f), (st.next, e.numel)), by simp, by rw [hq]⟩
    · intro ρ _
      show (Axis.phys st.next e.numel).eval _ = _
      rw [Axis.eval, hlift]
    · intro ρ _
      show (Axis.phys st.next e.numel).eval _ = _
      rw [Axis.eval, hlift]

/-! ### the loop over the factors of two products -/

def AntiIH (sz : Nat → Nat) (Q1 Q2 : Nat × Nat → Prop) (fuel : Nat) : Prop :=
  ∀ (e f : Axis) (st : ASt), OK st → SizedP sz st.pairs → AxP Q1 e → AxP Q2 f →
    Sized sz e → Sized sz f → e.numel = f.numel → Gen sz Q1 Q2 e f st (antiunify fuel e f st)

/-- the loop invariant of `antiLoop`; `st0` is the anti-substitution at the start of the loop -/
structure LoopInv (sz : Nat → Nat) (Q1 Q2 : Nat × Nat → Prop) (es fs : List Axis) (st0 : ASt)
    (el er fl fr en fn : Nat) (ret : List Axis) (st : ASt) : Prop where
  hel : el ≤ er
  her : er ≤ es.length
  hfl : fl ≤ fr
  hfr : fr ≤ fs.length
  hen : en = numelList (es.take er)
  hfn : fn = numelList (fs.take fr)
  hpre : numelList (es.take el) = numelList (fs.take fl)
  hst : OK st
  hsz : SizedP sz st.pairs
  hnx : st0.next ≤ st.next
  hnew : ∃ new, st.pairs = st0.pairs ++ new ∧ ∀ p ∈ new, NewOK Q1 Q2 st0.next p ∧ p.2 ∈ fvList ret
  hnum : numelList ret = numelList (es.take el)
  hfv : ∀ q ∈ fvList ret, q.2 ≠ 1 ∧ ∃ p ∈ st.pairs, p.2 = q
  hevL : ∀ ρ, InRange ρ (.prod es) → evalList (lift Prod.fst st.pairs ρ) ret 0 = evalList ρ (es.take el) 0
  hevR : ∀ ρ, InRange ρ (.prod fs) → evalList (lift Prod.snd st.pairs ρ) ret 0 = evalList ρ (fs.take fl) 0

def LoopPost (sz : Nat → Nat) (Q1 Q2 : Nat × Nat → Prop) (es fs : List Axis) (st0 : ASt) (r : List Axis × ASt) :
    Prop :=
  OK r.2 ∧ SizedP sz r.2.pairs ∧ st0.next ≤ r.2.next ∧
  (∃ new, r.2.pairs = st0.pairs ++ new ∧ ∀ p ∈ new, NewOK Q1 Q2 st0.next p ∧ p.2 ∈ fvList r.1) ∧
  numelList r.1 = numelList es ∧ (∀ q ∈ fvList r.1, q.2 ≠ 1 ∧ ∃ p ∈ r.2.pairs, p.2 = q) ∧
  (∀ ρ, InRange ρ (.prod es) → evalList (lift Prod.fst r.2.pairs ρ) r.1 0 = evalList ρ es 0) ∧
  (∀ ρ, InRange ρ (.prod fs) → evalList (lift Prod.snd r.2.pairs ρ) r.1 0 = evalList ρ fs 0)

section loop
variable {sz : Nat → Nat} {Q1 Q2 : Nat × Nat → Prop} {es fs : List Axis} {st0 : ASt}
  (hpe : ∀ x ∈ es, 0 < x.numel) (hpf : ∀ x ∈ fs, 0 < x.numel) (hn : numelList es = numelList fs)

include hpe hn in
theorem exit_right {el er fl fr en fn : Nat} {ret : List Axis} {st : ASt}
    (inv : LoopInv sz Q1 Q2 es fs st0 el er fl fr en fn ret st) (hfl : fl = fs.length) :
    LoopPost sz Q1 Q2 es fs st0 (ret, st) := by
  have htf : fs.take fl = fs := by rw [hfl]; exact List.take_length
  have hpre := inv.hpre
  rw [htf] at hpre
  have hsplit := numelList_take_drop es el
  have hpos := numelList_take_pos hpe el
  have hdrop : numelList (es.drop el) = 1 := by
    have h1 : numelList (es.take el) * numelList (es.drop el) = numelList (es.take el) * 1 := by
      rw [← hsplit, hn, hpre, Nat.mul_one]
    exact Nat.eq_of_mul_eq_mul_left hpos h1
  refine ⟨inv.hst, inv.hsz, inv.hnx, inv.hnew, ?_, inv.hfv, ?_, ?_⟩
  · show numelList ret = numelList es
    rw [inv.hnum, hsplit, hdrop, Nat.mul_one]
  · intro ρ hρ
    show evalList _ ret 0 = evalList ρ es 0
    rw [inv.hevL ρ hρ]
    have h1 : evalList ρ es 0 = evalList ρ (es.take el) 0 * numelList (es.drop el) + evalList ρ (es.drop el) 0 := by
      rw [← evalList_append_zero, List.take_append_drop]
    have h2 : (Axis.prod (es.drop el)).eval ρ < (Axis.prod (es.drop el)).numel :=
      C06.eval_lt_numel _ ρ (inRange_drop hρ el)
    rw [Axis.eval, Axis.numel, hdrop] at h2
    rw [h1, hdrop]; omega
  · intro ρ hρ
    show evalList _ ret 0 = evalList ρ fs 0
    rw [inv.hevR ρ hρ, htf]

include hpf hn in
theorem no_overrun_left {el er fl fr en fn : Nat} {ret : List Axis} {st : ASt}
    (inv : LoopInv sz Q1 Q2 es fs st0 el er fl fr en fn ret st) (her : er = es.length) (hlt : en < fn) : False := by
  have h1 : en = numelList es := by rw [inv.hen, her, List.take_length]
  have h2 := numelList_take_drop fs fr
  have h3 := numelList_drop_pos hpf fr
  rw [← inv.hfn] at h2
  have : fn ≤ fn * numelList (fs.drop fr) := Nat.le_mul_of_pos_right _ h3
  omega

include hpe hn in
theorem no_overrun_right {el er fl fr en fn : Nat} {ret : List Axis} {st : ASt}
    (inv : LoopInv sz Q1 Q2 es fs st0 el er fl fr en fn ret st) (hfr : fr = fs.length) (hlt : fn < en) : False := by
  have h1 : fn = numelList fs := by rw [inv.hfn, hfr, List.take_length]
  have h2 := numelList_take_drop es er
  have h3 := numelList_drop_pos hpe er
  rw [← inv.hen] at h2
  have : en ≤ en * numelList (es.drop er) := Nat.le_mul_of_pos_right _ h3
  omega

theorem inv_advance_left {el er fl fr en fn : Nat} {ret : List Axis} {st : ASt}
    (inv : LoopInv sz Q1 Q2 es fs st0 el er fl fr en fn ret st) {x : Axis} (hx : es[er]? = some x) :
    LoopInv sz Q1 Q2 es fs st0 el (er + 1) fl fr (en * x.numel) fn ret st := by
  have hlt : er < es.length := by
    rcases Nat.lt_or_ge er es.length with h | h
    · exact h
    · rw [List.getElem?_eq_none h] at hx; cases hx
  refine { inv with hel := by have := inv.hel; omega, her := hlt, hen := ?_ }
  rw [List.take_add_one, hx, inv.hen]
  exact (numelList_snoc _ _).symm

theorem inv_advance_right {el er fl fr en fn : Nat} {ret : List Axis} {st : ASt}
    (inv : LoopInv sz Q1 Q2 es fs st0 el er fl fr en fn ret st) {x : Axis} (hx : fs[fr]? = some x) :
    LoopInv sz Q1 Q2 es fs st0 el er fl (fr + 1) en (fn * x.numel) ret st := by
  have hlt : fr < fs.length := by
    rcases Nat.lt_or_ge fr fs.length with h | h
    · exact h
    · rw [List.getElem?_eq_none h] at hx; cases hx
  refine { inv with hfl := by have := inv.hfl; omega, hfr := hlt, hfn := ?_ }
  rw [List.take_add_one, hx, inv.hfn]
  exact (numelList_snoc _ _).symm

include hpe in
theorem group_numel_eq {el er fl fr en fn : Nat} {ret : List Axis} {st : ASt}
    (inv : LoopInv sz Q1 Q2 es fs st0 el er fl fr en fn ret st) (heq : en = fn) :
    (productAxis ((es.drop el).take (er - el))).numel = (productAxis ((fs.drop fl).take (fr - fl))).numel := by
  rw [C06.productAxis_numel, C06.productAxis_numel, Axis.numel, Axis.numel]
  have h1 : en = numelList (es.take el) * numelList ((es.drop el).take (er - el)) := by
    rw [inv.hen, take_group es inv.hel, numelList_append]
  have h2 : fn = numelList (fs.take fl) * numelList ((fs.drop fl).take (fr - fl)) := by
    rw [inv.hfn, take_group fs inv.hfl, numelList_append]
  have hpos := numelList_take_pos hpe el
  have h3 : numelList (es.take el) * numelList ((es.drop el).take (er - el))
      = numelList (es.take el) * numelList ((fs.drop fl).take (fr - fl)) := by
    rw [← h1, heq, h2, inv.hpre]
  exact Nat.eq_of_mul_eq_mul_left hpos h3

theorem mem_fvList_snoc {q : Nat × Nat} {ret : List Axis} {g : Axis} :
    q ∈ fvList (ret ++ [g]) ↔ q ∈ fvList ret ∨ q ∈ g.fv := by
  rw [mem_fvList, mem_fvList]
  constructor
  · rintro ⟨f, hf, hq⟩
    simp only [List.mem_append, List.mem_singleton] at hf
    rcases hf with hf | rfl
    · exact Or.inl ⟨f, hf, hq⟩
    · exact Or.inr hq
  · rintro (⟨f, hf, hq⟩ | hq)
    · exact ⟨f, List.mem_append_left _ hf, hq⟩
    · exact ⟨g, by simp, hq⟩

theorem inv_cut {el er fl fr en fn : Nat} {ret : List Axis} {st : ASt}
    (inv : LoopInv sz Q1 Q2 es fs st0 el er fl fr en fn ret st) (heq : en = fn)
    (hg : (productAxis ((es.drop el).take (er - el))).numel = (productAxis ((fs.drop fl).take (fr - fl))).numel)
    {r : Axis × ASt}
    (hr : Gen sz Q1 Q2 (productAxis ((es.drop el).take (er - el))) (productAxis ((fs.drop fl).take (fr - fl))) st r) :
    LoopInv sz Q1 Q2 es fs st0 er er fr fr en fn (ret ++ [r.1]) r.2 := by
  obtain ⟨hok, hsz, hnx, ⟨new, hnew, hnewok⟩, hnum, hfv, hL, hR⟩ := hr
  obtain ⟨new0, hnew0, hnew0ok⟩ := inv.hnew
  have hte := take_group es inv.hel
  have htf := take_group fs inv.hfl
  have hnumL : r.1.numel = numelList ((es.drop el).take (er - el)) := by
    rw [hnum, C06.productAxis_numel, Axis.numel]
  have hnumR : r.1.numel = numelList ((fs.drop fl).take (fr - fl)) := by
    rw [hnum, hg, C06.productAxis_numel, Axis.numel]
  have hfv0 : ∀ q ∈ fvList ret, ∃ p ∈ st.pairs, p.2 = q := fun q hq => (inv.hfv q hq).2
  refine { hel := Nat.le_refl _, her := inv.her, hfl := Nat.le_refl _, hfr := inv.hfr, hen := inv.hen, hfn := inv.hfn,
           hpre := by rw [← inv.hen, ← inv.hfn]; exact heq, hst := hok, hsz := hsz,
           hnx := Nat.le_trans inv.hnx hnx, hnew := ⟨new0 ++ new, by rw [hnew, hnew0, List.append_assoc], ?_⟩,
           hnum := ?_, hfv := ?_, hevL := ?_, hevR := ?_ }
  · intro p hp
    rcases List.mem_append.1 hp with hp | hp
    · exact ⟨(hnew0ok p hp).1, mem_fvList_snoc.2 (Or.inl (hnew0ok p hp).2)⟩
    · exact ⟨(hnewok p hp).1.mono inv.hnx, mem_fvList_snoc.2 (Or.inr (hnewok p hp).2)⟩
  · rw [numelList_snoc, inv.hnum, hnumL, hte, numelList_append]
  · intro q hq
    rcases mem_fvList_snoc.1 hq with hq | hq
    · obtain ⟨h1, p, hp, hpq⟩ := inv.hfv q hq
      exact ⟨h1, p, by rw [hnew]; exact List.mem_append_left _ hp, hpq⟩
    · exact hfv q hq
  · intro ρ hρ
    have hρ1 : InRange ρ (productAxis ((es.drop el).take (er - el))) := fun q hq => hρ q (mem_fv_group hq)
    rw [evalList_snoc, hL ρ hρ1, hnew, evalList_lift_append _ _ _ _ _ hfv0, inv.hevL ρ hρ, hnumL,
      C06.productAxis_eval, Axis.eval, hte, evalList_append_zero]
  · intro ρ hρ
    have hρ1 : InRange ρ (productAxis ((fs.drop fl).take (fr - fl))) := fun q hq => hρ q (mem_fv_group hq)
    rw [evalList_snoc, hR ρ hρ1, hnew, evalList_lift_append _ _ _ _ _ hfv0, inv.hevR ρ hρ, hnumR,
      C06.productAxis_eval, Axis.eval, htf, evalList_append_zero]

include hpe hpf hn in
theorem antiLoop_post {fuel : Nat} (hIH : AntiIH sz Q1 Q2 fuel)
    (hbe : AxP Q1 (.prod es)) (hbf : AxP Q2 (.prod fs)) (hse : Sized sz (.prod es)) (hsf : Sized sz (.prod fs)) :
    ∀ (steps el er fl fr en fn : Nat) (ret : List Axis) (st : ASt),
      LoopInv sz Q1 Q2 es fs st0 el er fl fr en fn ret st →
      2 * ((es.length - er) + (fs.length - fr)) < steps →
      ((el < er ∨ fl < fr) → 2 * ((es.length - er) + (fs.length - fr)) + 1 < steps) →
      LoopPost sz Q1 Q2 es fs st0 (antiLoop fuel steps es fs el er fl fr en fn ret st) := by
  intro steps
  induction steps with
  | zero => intro el er fl fr en fn ret st _ h; omega
  | succ steps ih =>
    intro el er fl fr en fn ret st inv hb1 hb2
    rw [antiLoop.eq_2]
    by_cases hc1 : (decide (el < es.length) || decide (fl < fs.length)) = true
    · rw [if_pos hc1]
      by_cases hc2 : (en == fn && (decide (el < er) || decide (fl < fr))) = true
      · rw [if_pos hc2]
        simp only [Bool.and_eq_true, beq_iff_eq, Bool.or_eq_true, decide_eq_true_eq] at hc2
        obtain ⟨heq, hflag⟩ := hc2
        have hg := group_numel_eq hpe inv heq
        have hgen : Gen sz Q1 Q2 (productAxis ((es.drop el).take (er - el)))
            (productAxis ((fs.drop fl).take (fr - fl))) st
            (if (isProd (productAxis ((es.drop el).take (er - el))) &&
                  isProd (productAxis ((fs.drop fl).take (fr - fl)))) = true
              then extendAnti (productAxis ((es.drop el).take (er - el))) (productAxis ((fs.drop fl).take (fr - fl))) st
              else antiunify fuel (productAxis ((es.drop el).take (er - el)))
                (productAxis ((fs.drop fl).take (fr - fl))) st) := by
          have b1 : AxP Q1 (productAxis ((es.drop el).take (er - el))) := fun q hq => hbe q (mem_fv_group hq)
          have b2 : AxP Q2 (productAxis ((fs.drop fl).take (fr - fl))) := fun q hq => hbf q (mem_fv_group hq)
          have s1 : Sized sz (productAxis ((es.drop el).take (er - el))) := fun q hq => hse q (mem_fv_group hq)
          have s2 : Sized sz (productAxis ((fs.drop fl).take (fr - fl))) := fun q hq => hsf q (mem_fv_group hq)
          split
          · exact extendAnti_gen sz Q1 Q2 _ _ st inv.hst inv.hsz b1 b2 s1 s2 hg
          · exact hIH _ _ st inv.hst inv.hsz b1 b2 s1 s2 hg
        simp only []
        generalize (if (isProd (productAxis ((es.drop el).take (er - el))) &&
                  isProd (productAxis ((fs.drop fl).take (fr - fl)))) = true
              then extendAnti (productAxis ((es.drop el).take (er - el))) (productAxis ((fs.drop fl).take (fr - fl))) st
              else antiunify fuel (productAxis ((es.drop el).take (er - el)))
                (productAxis ((fs.drop fl).take (fr - fl))) st) = r at hgen ⊢
        have inv' := inv_cut inv heq hg hgen
        obtain ⟨g, st1⟩ := r
        exact ih er er fr fr en fn (ret ++ [g]) st1 inv' (by omega) (by omega)
      · rw [if_neg hc2]
        simp only [Bool.and_eq_true, beq_iff_eq, Bool.or_eq_true, decide_eq_true_eq] at hc2
        by_cases hc3 : (decide (en < fn) || fr == fs.length) = true
        · rw [if_pos hc3]
          simp only [Bool.or_eq_true, decide_eq_true_eq, beq_iff_eq] at hc3
          cases hx : es[er]? with
          | none =>
            simp only []
            have her : er = es.length := by
              have : es.length ≤ er := List.getElem?_eq_none_iff.1 hx
              have := inv.her; omega
            by_cases hlt : en < fn
            · exact absurd (no_overrun_left hpf hn inv her hlt) id
            · have hfr : fr = fs.length := by
                rcases hc3 with h | h
                · exact absurd h hlt
                · exact h
              have heq : en = fn := by
                rw [inv.hen, inv.hfn, her, hfr, List.take_length, List.take_length]; exact hn
              have hfl : fl = fs.length := by
                have := inv.hfl
                by_cases h : fl < fr
                · exact absurd ⟨heq, Or.inr h⟩ hc2
                · omega
              exact exit_right hpe hn inv hfl
          | some x =>
            simp only []
            have hlt : er < es.length := by
              rcases Nat.lt_or_ge er es.length with h | h
              · exact h
              · rw [List.getElem?_eq_none h] at hx; cases hx
            exact ih el (er + 1) fl fr (en * x.numel) fn ret st (inv_advance_left inv hx) (by omega) (by omega)
        · rw [if_neg hc3]
          simp only [Bool.or_eq_true, decide_eq_true_eq, beq_iff_eq, not_or] at hc3
          cases hx : fs[fr]? with
          | none =>
            exfalso
            have : fs.length ≤ fr := List.getElem?_eq_none_iff.1 hx
            have := inv.hfr
            omega
          | some x =>
            simp only []
            have hlt : fr < fs.length := by
              rcases Nat.lt_or_ge fr fs.length with h | h
              · exact h
              · rw [List.getElem?_eq_none h] at hx; cases hx
            exact ih el er fl (fr + 1) en (fn * x.numel) ret st (inv_advance_right inv hx) (by omega) (by omega)
    · rw [if_neg hc1]
      simp only [Bool.or_eq_true, decide_eq_true_eq, not_or, Nat.not_lt] at hc1
      have := inv.hfl
      have := inv.hfr
      exact exit_right hpe hn inv (by omega)

end loop

/-! ### the main induction -/

theorem sum_gen {sz : Nat → Nat} {Q1 Q2 : Nat × Nat → Prop} {b a : Nat} {t1 t2 : Axis} {st : ASt} {r : Axis × ASt}
    (h : Gen sz Q1 Q2 t1 t2 st r) : Gen sz Q1 Q2 (.sum b t1 a) (.sum b t2 a) st (.sum b r.1 a, r.2) := by
  obtain ⟨hok, hsz, hnx, hnew, hnum, hfv, hL, hR⟩ := h
  refine ⟨hok, hsz, hnx, ?_, ?_, ?_, ?_, ?_⟩
  · obtain ⟨new, h1, h2⟩ := hnew
    exact ⟨new, h1, fun p hp => ⟨(h2 p hp).1, by simpa [Axis.fv] using (h2 p hp).2⟩⟩
  · show (Axis.sum b r.1 a).numel = _
    rw [Axis.numel, Axis.numel, hnum]
  · intro q hq
    exact hfv q (by simpa [Axis.fv] using hq)
  · intro ρ hρ
    show (Axis.sum b r.1 a).eval _ = _
    rw [Axis.eval, Axis.eval, hL ρ (InRange.sum hρ)]
  · intro ρ hρ
    show (Axis.sum b r.1 a).eval _ = _
    rw [Axis.eval, Axis.eval, hR ρ (InRange.sum hρ)]

theorem mem_fv_productAxis_iff {q : Nat × Nat} (fs : List Axis) : q ∈ (productAxis fs).fv ↔ q ∈ fvList fs := by
  rw [mem_fv_productAxis, mem_fvList]

theorem prod_gen {sz : Nat → Nat} {Q1 Q2 : Nat × Nat → Prop} {es fs : List Axis} {st : ASt} {r : List Axis × ASt}
    (h : LoopPost sz Q1 Q2 es fs st r) : Gen sz Q1 Q2 (.prod es) (.prod fs) st (productAxis r.1, r.2) := by
  obtain ⟨hok, hsz, hnx, hnew, hnum, hfv, hL, hR⟩ := h
  refine ⟨hok, hsz, hnx, ?_, ?_, ?_, ?_, ?_⟩
  · obtain ⟨new, h1, h2⟩ := hnew
    exact ⟨new, h1, fun p hp => ⟨(h2 p hp).1, (mem_fv_productAxis_iff _).2 (h2 p hp).2⟩⟩
  · show (productAxis r.1).numel = _
    rw [C06.productAxis_numel, Axis.numel, Axis.numel, hnum]
  · intro q hq
    exact hfv q ((mem_fv_productAxis_iff _).1 hq)
  · intro ρ hρ
    show (productAxis r.1).eval _ = _
    rw [C06.productAxis_eval, Axis.eval, Axis.eval, hL ρ hρ]
  · intro ρ hρ
    show (productAxis r.1).eval _ = _
    rw [C06.productAxis_eval, Axis.eval, Axis.eval, hR ρ hρ]

theorem antiunify_gen (sz : Nat → Nat) (Q1 Q2 : Nat × Nat → Prop) : ∀ fuel, AntiIH sz Q1 Q2 fuel := by
  intro fuel
  induction fuel with
  | zero =>
    intro e f st hst hsz he hf hse hsf hn
    rw [antiunify.eq_1]
    exact extendAnti_gen sz Q1 Q2 e f st hst hsz he hf hse hsf hn
  | succ fuel ih =>
    intro e f st hst hsz he hf hse hsf hn
    have hext := extendAnti_gen sz Q1 Q2 e f st hst hsz he hf hse hsf hn
    cases e with
    | phys v n => cases f <;> (rw [antiunify.eq_def]; exact hext)
    | prod es =>
      cases f with
      | phys _ _ => rw [antiunify.eq_def]; exact hext
      | sum _ _ _ => rw [antiunify.eq_def]; exact hext
      | prod fs =>
        rw [antiunify.eq_2]
        split
        · next hz =>
          simp only [Bool.and_eq_true, Bool.not_eq_true'] at hz
          have hpe := factors_pos_of_not_zeroList es hz.1
          have hpf := factors_pos_of_not_zeroList fs hz.2
          have hn' : numelList es = numelList fs := by simpa [Axis.numel] using hn
          have inv0 : LoopInv sz Q1 Q2 es fs st 0 0 0 0 1 1 [] st :=
            { hel := Nat.le_refl _, her := Nat.zero_le _, hfl := Nat.le_refl _, hfr := Nat.zero_le _,
              hen := by simp [numelList], hfn := by simp [numelList], hpre := by simp [numelList],
              hst := hst, hsz := hsz, hnx := Nat.le_refl _, hnew := ⟨[], by simp, by simp⟩,
              hnum := by simp [numelList],
              hfv := by intro q hq; simp [fvList] at hq,
              hevL := by intro ρ _; simp [evalList], hevR := by intro ρ _; simp [evalList] }
          have hpost := antiLoop_post hpe hpf hn' ih he hf hse hsf
            (es.length + fs.length + 2 * (es.length + fs.length) + 2) 0 0 0 0 1 1 [] st inv0 (by omega) (by omega)
          exact prod_gen hpost
        · exact hext
    | sum b1 t1 a1 =>
      cases f with
      | phys _ _ => rw [antiunify.eq_def]; exact hext
      | prod _ => rw [antiunify.eq_def]; exact hext
      | sum b2 t2 a2 =>
        rw [antiunify.eq_def]
        simp only []
        split
        · next hc =>
          simp only [Bool.and_eq_true, beq_iff_eq] at hc
          obtain ⟨rfl, rfl⟩ := hc
          have hn' : t1.numel = t2.numel := by
            simp only [Axis.numel] at hn; omega
          have h := ih t1 t2 st hst hsz (by simpa [AxP, Axis.fv] using he) (by simpa [AxP, Axis.fv] using hf)
            (by simpa [Sized, Axis.fv] using hse) (by simpa [Sized, Axis.fv] using hsf) hn'
          exact sum_gen h
        · exact hext

end C06dA
