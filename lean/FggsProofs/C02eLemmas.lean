/-
C02eLemmas — helper lemmas for C02e (Newton's method, model `Nw.*` of FggsModel/Newton.lean): the order toolkit of an
ordered semiring in which zero is least, the product form of the Taylor inequality
`Π a_i + Σ_i b_i Π_{j≠i} a_j ≤ Π c_i` (whenever `a_i + b_i ≤ c_i`), the Taylor inequality for a cell of `F`
(`F(u) + J(u)·d ≤ F(w)` whenever `u + d ≤ w` weight by weight), its flattened form on a component (rows of the system
assembled by `Nw.jacSystem`), the cells of `zipComp`/`unflatten`, one Newton step, the loop `newtonGo`, and the fold of
the driver loop `Nw.sumProductsN`.
-/
import FggsModel.Newton
import FggsProofs.PipeLemmas
import FggsProofs.C02cLemmas
import FggsProofs.C02dLemmas
import FggsProofs.C03bLemmas
import FggsProofs.C09bLemmas
import FggsProofs.Props.C01
import FggsProofs.Props.C02b
import FggsProofs.Props.C09
import FggsProofs.Props.C09b
import Mathlib.Tactic.Linarith
import Mathlib.Data.List.Basic
import Mathlib.Data.List.Forall2

set_option linter.unusedSimpArgs false
set_option linter.unusedVariables false

namespace C02eL
open Fggs Fggs.Sem Fggs.Pipe Fggs.Nw PipeL C02cL C03L C02dL C02

variable {K : Type}

/-! ### order toolkit -/

theorem ordLaws_of {S : SR K} {le : K → K → Prop} {star : K → K} (h : C09b.OrdStarLaws S le star)
    (hz : ∀ a, le S.zero a) : OrdLaws S le :=
  ⟨h.refl, h.trans, hz, h.add_mono, h.mul_mono⟩

section ord
variable {S : SR K} {le : K → K → Prop} (hle : OrdLaws S le) (hS : C01.SRLaws S)
include hle

theorem bsum_le {α : Type} (hS : C01.SRLaws S) (l : List α) (f g : α → K) (h : ∀ x ∈ l, le (f x) (g x)) :
    le (bsum S l f) (bsum S l g) := by
  induction l with
  | nil => exact hle.refl _
  | cons x l ih =>
    rw [bsum_cons hS, bsum_cons hS]
    exact hle.add_mono _ _ _ _ (h x (List.mem_cons_self ..)) (ih (fun y hy => h y (List.mem_cons_of_mem _ hy)))

include hS

theorem le_add_right (a b : K) : le a (S.add a b) := by
  have := hle.add_mono a a S.zero b (hle.refl a) (hle.zero_le b)
  rwa [sr_add_zero hS] at this

theorem le_add_left (a b : K) : le b (S.add a b) := by
  have := hle.add_mono S.zero a b b (hle.zero_le a) (hle.refl b)
  rwa [hS.zero_add] at this

omit hS in
theorem add_le_idem (hidem : ∀ a, S.add a a = a) (a b c : K) (h1 : le a c) (h2 : le b c) : le (S.add a b) c := by
  have := hle.add_mono a c b c h1 h2
  rwa [hidem] at this

theorem prod_le {α : Type} (l : List α) (f g : α → K) (h : ∀ x ∈ l, le (f x) (g x)) :
    le (S.prod (l.map f)) (S.prod (l.map g)) := by
  induction l with
  | nil => exact hle.refl _
  | cons x l ih =>
    rw [List.map_cons, List.map_cons, prod_cons hS, prod_cons hS]
    exact hle.mul_mono _ _ _ _ (h x (List.mem_cons_self ..)) (ih (fun y hy => h y (List.mem_cons_of_mem _ hy)))

/-- **the product form of the Taylor inequality**: `Π a_i + Σ_i b_i Π_{j≠i} a_j ≤ Π c_i` when `a_i + b_i ≤ c_i` -/
theorem prod_taylor {ε : Type} (a b c : ε → K) (dflt : ε) (es : List ε)
    (habc : ∀ e ∈ es, le (S.add (a e) (b e)) (c e)) :
    le (S.add (S.prod (es.map a)) (bsum S (List.range es.length) (fun i =>
        S.mul (b (es[i]?.getD dflt)) (S.prod ((es.eraseIdx i).map a))))) (S.prod (es.map c)) := by
  induction es with
  | nil =>
    simp only [List.map_nil, List.length_nil, List.range_zero, bsum_nil]
    rw [sr_add_zero hS]
    exact hle.refl _
  | cons e es ih =>
    rw [List.length_cons, List.range_succ_eq_map, bsum_cons hS, bsum_map, List.map_cons, prod_cons hS,
      List.map_cons, prod_cons hS]
    simp only [List.getElem?_cons_zero, Option.getD_some, List.eraseIdx_cons_zero, List.getElem?_cons_succ,
      List.eraseIdx_cons_succ, List.map_cons]
    have h2 : bsum S (List.range es.length) (fun i =>
          S.mul (b (es[i]?.getD dflt)) (S.prod (a e :: (es.eraseIdx i).map a)))
        = S.mul (a e) (bsum S (List.range es.length) (fun i =>
          S.mul (b (es[i]?.getD dflt)) (S.prod ((es.eraseIdx i).map a)))) := by
      rw [← bsum_mul_left hS]
      apply bsum_congr
      intro i _
      rw [prod_cons hS, sr_mul_left_comm hS]
    rw [h2]
    have ih' := ih (fun e' he' => habc e' (List.mem_cons_of_mem _ he'))
    generalize S.prod (es.map a) = P at ih' ⊢
    generalize bsum S (List.range es.length) (fun i =>
          S.mul (b (es[i]?.getD dflt)) (S.prod ((es.eraseIdx i).map a))) = Q at ih' ⊢
    generalize S.prod (es.map c) = C at ih' ⊢
    have he := habc e (List.mem_cons_self ..)
    -- a P + (b P + a Q) = (a + b) P + a Q ≤ (a + b) P + (a + b) Q = (a + b) (P + Q) ≤ c C
    have e1 : S.add (S.mul (a e) P) (S.add (S.mul (b e) P) (S.mul (a e) Q))
        = S.add (S.mul (S.add (a e) (b e)) P) (S.mul (a e) Q) := by
      rw [sr_right_distrib hS, hS.add_assoc]
    rw [e1]
    have e2 : le (S.add (S.mul (S.add (a e) (b e)) P) (S.mul (a e) Q))
        (S.mul (S.add (a e) (b e)) (S.add P Q)) := by
      rw [hS.left_distrib]
      exact hle.add_mono _ _ _ _ (hle.refl _)
        (hle.mul_mono _ _ _ _ (le_add_right hle hS _ _) (hle.refl _))
    exact hle.trans _ _ _ e2 (hle.mul_mono _ _ _ _ he ih')

end ord

/-! ### the Taylor inequality for a rule and for a cell of `F` -/

/-- weights `u`, direction `d`, weights `w` with `u + d ≤ w` label by label -/
def WLe (S : SR K) (le : K → K → Prop) (G : Grammar K) (u w : Val K) (d : Nat → List Nat → K) : Prop :=
  ∀ l idx, le (S.add (edgeWeight S G u l idx) (d l idx)) (edgeWeight S G w l idx)

theorem rule_taylor {S : SR K} {le : K → K → Prop} (hle : OrdLaws S le) (hS : C01.SRLaws S) (G : Grammar K)
    (u w : Val K) (d : Nat → List Nat → K) (hd : WLe S le G u w d) (r : Rule) (a : List Nat) :
    le (S.add (ruleCell S G u r a)
        (bsum S ((assigns (G.shapeOf r.nodes)).filter (fun ρ => r.ext.map (fun v => ρ[v]?.getD 0) == a)) (fun ρ =>
          bsum S (List.range r.edges.length) (fun i =>
            S.mul (d (edgeAt r i).1 ((edgeAt r i).2.map (fun v => ρ[v]?.getD 0)))
              (S.prod ((r.edges.eraseIdx i).map (fun e => edgeWeight S G u e.1 (e.2.map (fun v => ρ[v]?.getD 0)))))))))
      (ruleCell S G w r a) := by
  show le (S.add (bsum S _ (fun ρ : List Nat =>
      S.prod (r.edges.map (fun e => edgeWeight S G u e.1 (e.2.map (fun v => ρ[v]?.getD 0)))))) _)
    (bsum S _ (fun ρ : List Nat =>
      S.prod (r.edges.map (fun e => edgeWeight S G w e.1 (e.2.map (fun v => ρ[v]?.getD 0))))))
  rw [← bsum_add hS]
  apply bsum_le hle hS
  intro ρ _
  exact prod_taylor hle hS
    (fun e => edgeWeight S G u e.1 (e.2.map (fun v => ρ[v]?.getD 0)))
    (fun e => d e.1 (e.2.map (fun v => ρ[v]?.getD 0)))
    (fun e => edgeWeight S G w e.1 (e.2.map (fun v => ρ[v]?.getD 0))) (0, []) r.edges
    (fun e _ => hd e.1 _)

/-- **the Taylor inequality for a cell of `F`**: `F(u)[X,a] + Σ_l Σ_b J(u)[X,l][a,b]·d[l,b] ≤ F(w)[X,a]` whenever
`u + d ≤ w` weight by weight -/
theorem F_taylor {S : SR K} {le : K → K → Prop} (hle : OrdLaws S le) (hS : C01.SRLaws S) (G : Grammar K)
    (hG : GrammarWF G) (u w : Val K) (d : Nat → List Nat → K) (hd : WLe S le G u w d)
    (X : Nat) (hX : X < G.nts.length) (a : List Nat) (ha : a ∈ assigns (G.shapeOf (G.nts[X]?.getD []))) :
    le (S.add (C01.valCell S G (F S G u) X a)
        (bsum S (List.range (G.T + G.nts.length)) (fun l =>
          bsum S (assigns (G.shapeOf (G.labelType l))) (fun b =>
            S.mul (optCell S (jacLabel S G u X l)
                (flat (G.shapeOf (G.nts[X]?.getD []) ++ G.shapeOf (G.labelType l)) (a ++ b)))
              (d l b)))))
      (C01.valCell S G (F S G w) X a) := by
  have hshape : ∀ r ∈ G.rulesOf X,
      G.shapeOf (r.ext.map (fun v => r.nodes[v]?.getD 0)) = G.shapeOf (G.nts[X]?.getD []) :=
    fun r hr => rulesOf_shape G hG X r hr
  have hal : ∀ r ∈ G.rulesOf X, a.length = r.ext.length := by
    intro r hr
    have h1 := mem_assigns_length ha
    have h2 := congrArg List.length (hshape r hr)
    simp only [Grammar.shapeOf, List.length_map] at h1 h2
    omega
  have hJ : bsum S (List.range (G.T + G.nts.length)) (fun l =>
          bsum S (assigns (G.shapeOf (G.labelType l))) (fun b =>
            S.mul (optCell S (jacLabel S G u X l)
                (flat (G.shapeOf (G.nts[X]?.getD []) ++ G.shapeOf (G.labelType l)) (a ++ b)))
              (d l b)))
      = bsum S (G.rulesOf X) (fun r =>
          bsum S ((assigns (G.shapeOf r.nodes)).filter (fun ρ => r.ext.map (fun v => ρ[v]?.getD 0) == a)) (fun ρ =>
            bsum S (List.range r.edges.length) (fun i =>
              S.mul (d (edgeAt r i).1 ((edgeAt r i).2.map (fun v => ρ[v]?.getD 0)))
                (S.prod ((r.edges.eraseIdx i).map
                  (fun e => edgeWeight S G u e.1 (e.2.map (fun v => ρ[v]?.getD 0)))))))) := by
    rw [bsum_congr _ _ _ (fun r hr =>
      rule_regroup hS G u r (hG.rule r (rulesOf_mem G X r hr).1) d a (hal r hr)), bsum_comm hS]
    apply bsum_congr
    intro l _
    rw [bsum_comm hS]
    apply bsum_congr
    intro b hb
    rw [bsum_mul_right hS, jacLabel_cell hS G hG u X l a b ha hb]
  rw [hJ, C01.F_cell S hS G u X hX a ha hshape, C01.F_cell S hS G w X hX a ha hshape]
  show le (S.add (bsum S (G.rulesOf X) (fun r => ruleCell S G u r a)) _)
    (bsum S (G.rulesOf X) (fun r => ruleCell S G w r a))
  rw [← bsum_add hS]
  apply bsum_le hle hS
  intro r _
  exact rule_taylor hle hS G u w d hd r a

/-! ### the system assembled by `Nw.jacSystem` -/

/-- the Jacobian blocks of the component at the point `v` -/
def jOf (S : SR K) (G : Grammar K) (v : Val K) (comp : List Nat) : List ((Nat × Nat) × Option (List K)) :=
  comp.flatMap (fun X => comp.map (fun Y => ((X, Y), jacLabel S G v X (G.T + Y))))

/-- the right-hand side, as `Nw.jacSystem` hands it to `linearSystem` -/
def rOf (S : SR K) (G : Grammar K) (comp : List Nat) (rhs : Val K) : List (Nat × Option (List K)) :=
  comp.map (fun X => (X, some (cellsOf S G rhs X)))

theorem jacSystem_eq (S : SR K) (G : Grammar K) (x : Val K) (comp : List Nat) (y rhs : Val K) :
    jacSystem S G x comp y rhs
      = linearSystem S G comp (rOf S G comp rhs) (jOf S G (overlay G.nts.length x y comp) comp) := rfl

theorem jOf_lookup (S : SR K) (G : Grammar K) (v : Val K) (comp : List Nat) (X Y : Nat)
    (hX : X ∈ comp) (hY : Y ∈ comp) :
    ((jOf S G v comp).lookup (X, Y)).join = jacLabel S G v X (G.T + Y) := by
  rw [lookup_eq_some_of_forall (jOf S G v comp) (X, Y) _ ?_ ?_]
  · rfl
  · exact ⟨_, List.mem_flatMap.2 ⟨X, hX, List.mem_map.2 ⟨Y, hY, rfl⟩⟩, rfl⟩
  · intro p hp hpk
    obtain ⟨X', _, hp⟩ := List.mem_flatMap.1 hp
    obtain ⟨Y', _, rfl⟩ := List.mem_map.1 hp
    simp only [Prod.mk.injEq] at hpk
    obtain ⟨rfl, rfl⟩ := hpk
    rfl

theorem rOf_lookup (S : SR K) (G : Grammar K) (comp : List Nat) (rhs : Val K) (X : Nat) (hX : X ∈ comp) :
    ((rOf S G comp rhs).lookup X).join = some (cellsOf S G rhs X) := by
  rw [lookup_eq_some_of_forall (rOf S G comp rhs) X _ ?_ ?_]
  · rfl
  · exact ⟨_, List.mem_map.2 ⟨X, hX, rfl⟩, rfl⟩
  · intro p hp hpk
    obtain ⟨Z, _, rfl⟩ := List.mem_map.1 hp
    simp only at hpk
    subst hpk
    rfl

theorem bcell_rOf (S : SR K) (G : Grammar K) (comp : List Nat) (rhs : Val K) (p : Nat × Nat) (hX : p.1 ∈ comp) :
    bcell S (rOf S G comp rhs) p = (cellsOf S G rhs p.1)[p.2]?.getD S.zero := by
  unfold bcell
  rw [rOf_lookup S G comp rhs p.1 hX]
  rfl

/-- `J(overlay x x0)·y`, row `p` -/
def jacRow (S : SR K) (G : Grammar K) (x : Val K) (comp : List Nat) (x0 y : Val K) (p : Nat × Nat) : K :=
  bsum S (compCells G comp) (fun q =>
    S.mul (Mcell S G (jOf S G (overlay G.nts.length x x0 comp) comp) p q) ((cellsOf S G y q.1)[q.2]?.getD S.zero))

theorem cell_compF {S : SR K} (hS : C01.SRLaws S) (G : Grammar K) (hG : GrammarWF G) (x z : Val K)
    (comp : List Nat) (X : Nat) (hXn : X < G.nts.length) (hX : X ∈ comp) (a : List Nat) :
    (cellsOf S G (compF S G x comp z) X)[flat (G.shapeOf (G.nts[X]?.getD [])) a]?.getD S.zero
      = C01.valCell S G (F S G (overlay G.nts.length x z comp)) X a := by
  rw [valCell_eq_getT, ← cellsOf_compF S hS G hG x z comp X hXn hX]
  rfl

/-- **the Taylor inequality on a component, row by row**: `F(x0) + J(x0)·y ≤ F(y')` whenever `x0 + y ≤ y'` on the
component (`F` = `compF`, the inputs `x` are fixed) -/
theorem row_taylor {S : SR K} {le : K → K → Prop} (hle : OrdLaws S le) (hS : C01.SRLaws S) (G : Grammar K)
    (hG : GrammarWF G) (comp : List Nat) (hnd : comp.Nodup) (hrange : ∀ X ∈ comp, X < G.nts.length)
    (x x0 y y' : Val K)
    (hxy : ∀ Y ∈ comp, ∀ k : Nat, le (S.add ((cellsOf S G x0 Y)[k]?.getD S.zero) ((cellsOf S G y Y)[k]?.getD S.zero))
        ((cellsOf S G y' Y)[k]?.getD S.zero))
    (X i : Nat) (hX : X ∈ comp) (hi : i < numel (G.shapeOf (G.nts[X]?.getD []))) :
    le (S.add ((cellsOf S G (compF S G x comp x0) X)[i]?.getD S.zero) (jacRow S G x comp x0 y (X, i)))
      ((cellsOf S G (compF S G x comp y') X)[i]?.getD S.zero) := by
  have hXn := hrange X hX
  obtain ⟨a, ha, rfl⟩ := exists_assign _ _ hi
  have hal : a.length = (G.shapeOf (G.nts[X]?.getD [])).length := mem_assigns_length ha
  rw [cell_compF hS G hG x x0 comp X hXn hX a, cell_compF hS G hG x y' comp X hXn hX a]
  -- the weights
  have hd : WLe S le G (overlay G.nts.length x x0 comp) (overlay G.nts.length x y' comp)
      (dOf S G (overlay G.nts.length x y comp) comp) := by
    intro l idx
    unfold dOf
    by_cases hc : inComp G comp l = true
    · simp only [hc, if_true]
      have hc' := hc
      unfold inComp at hc'
      simp only [Bool.and_eq_true, decide_eq_true_eq, List.contains_iff_mem] at hc'
      obtain ⟨hlT, hY⟩ := hc'
      have hYn := hrange _ hY
      rw [edgeWeight_nt_cells S G _ l idx (by omega), edgeWeight_nt_cells S G _ l idx (by omega),
        edgeWeight_nt_cells S G _ l idx (by omega),
        cellsOf_overlay_in S G x x0 comp _ hYn hY, cellsOf_overlay_in S G x y comp _ hYn hY,
        cellsOf_overlay_in S G x y' comp _ hYn hY]
      exact hxy _ hY _
    · have hc' : inComp G comp l = false := by simpa using hc
      simp only [hc', if_false, Bool.false_eq_true]
      rw [sr_add_zero hS, edgeWeight_overlay_x0 S G x x0 comp l idx hc',
        edgeWeight_overlay_x0 S G x y' comp l idx hc']
      exact hle.refl _
  have key := F_taylor hle hS G hG _ _ _ hd X hXn a ha
  -- the Jacobian sum, restricted to the component and flattened
  have hJ : bsum S (List.range (G.T + G.nts.length)) (fun l =>
          bsum S (assigns (G.shapeOf (G.labelType l))) (fun b =>
            S.mul (optCell S (jacLabel S G (overlay G.nts.length x x0 comp) X l)
                (flat (G.shapeOf (G.nts[X]?.getD []) ++ G.shapeOf (G.labelType l)) (a ++ b)))
              (dOf S G (overlay G.nts.length x y comp) comp l b)))
      = jacRow S G x comp x0 y (X, flat (G.shapeOf (G.nts[X]?.getD [])) a) := by
    have h1 : ∀ l ∈ List.range (G.T + G.nts.length),
        bsum S (assigns (G.shapeOf (G.labelType l))) (fun b =>
            S.mul (optCell S (jacLabel S G (overlay G.nts.length x x0 comp) X l)
                (flat (G.shapeOf (G.nts[X]?.getD []) ++ G.shapeOf (G.labelType l)) (a ++ b)))
              (dOf S G (overlay G.nts.length x y comp) comp l b))
        = if inComp G comp l then
            bsum S (assigns (G.shapeOf (G.labelType l))) (fun b =>
              S.mul (optCell S (jacLabel S G (overlay G.nts.length x x0 comp) X l)
                  (flat (G.shapeOf (G.nts[X]?.getD []) ++ G.shapeOf (G.labelType l)) (a ++ b)))
                (edgeWeight S G (overlay G.nts.length x y comp) l b))
          else S.zero := by
      intro l _
      unfold dOf
      by_cases hc : inComp G comp l = true
      · simp only [hc, if_true]
      · simp only [hc, if_false, Bool.false_eq_true]
        refine (bsum_congr _ _ _ ?_).trans (bsum_zero hS _)
        intro b _
        exact sr_mul_zero hS _
    unfold jacRow
    rw [bsum_congr _ _ _ h1, bsum_labels hS G comp hnd hrange
      (fun l => bsum S (assigns (G.shapeOf (G.labelType l))) (fun b =>
              S.mul (optCell S (jacLabel S G (overlay G.nts.length x x0 comp) X l)
                  (flat (G.shapeOf (G.nts[X]?.getD []) ++ G.shapeOf (G.labelType l)) (a ++ b)))
                (edgeWeight S G (overlay G.nts.length x y comp) l b))),
      bsum_compCells hS]
    apply bsum_congr
    intro Y hY
    have hYn := hrange Y hY
    rw [labelType_nt]
    have h2 : ∀ b ∈ assigns (G.shapeOf (G.nts[Y]?.getD [])),
        S.mul (optCell S (jacLabel S G (overlay G.nts.length x x0 comp) X (G.T + Y))
              (flat (G.shapeOf (G.nts[X]?.getD []) ++ G.shapeOf (G.nts[Y]?.getD [])) (a ++ b)))
            (edgeWeight S G (overlay G.nts.length x y comp) (G.T + Y) b)
        = (fun j => S.mul (Mcell S G (jOf S G (overlay G.nts.length x x0 comp) comp)
              (X, flat (G.shapeOf (G.nts[X]?.getD [])) a) (Y, j))
            ((cellsOf S G y Y)[j]?.getD S.zero)) (flat (G.shapeOf (G.nts[Y]?.getD [])) b) := by
      intro b _
      show _ = S.mul _ _
      unfold Mcell
      rw [jOf_lookup S G _ comp X Y hX hY, flat_append _ _ _ _ hal,
        edgeWeight_nt_cells S G _ (G.T + Y) b (by omega), Nat.add_sub_cancel_left,
        cellsOf_overlay_in S G x y comp Y hYn hY]
      rfl
    rw [bsum_congr _ _ _ h2]
    exact bsum_assigns_flat (G.shapeOf (G.nts[Y]?.getD []))
      (fun j => S.mul (Mcell S G (jOf S G (overlay G.nts.length x x0 comp) comp)
            (X, flat (G.shapeOf (G.nts[X]?.getD [])) a) (Y, j))
            ((cellsOf S G y Y)[j]?.getD S.zero))
  rw [hJ] at key
  exact key

/-! ### lists read through `[i]?.getD` -/

theorem forall₂_of_getD {le : K → K → Prop} (z : K) (l1 l2 : List K) (hlen : l1.length = l2.length)
    (h : ∀ i, i < l1.length → le (l1[i]?.getD z) (l2[i]?.getD z)) : List.Forall₂ le l1 l2 := by
  rw [List.forall₂_iff_get]
  refine ⟨hlen, ?_⟩
  intro i h1 h2
  have := h i h1
  simpa [List.getElem?_eq_getElem h1, List.getElem?_eq_getElem h2] using this

theorem getD_of_forall₂ {le : K → K → Prop} (z : K) (hz : le z z) {l1 l2 : List K} (h : List.Forall₂ le l1 l2)
    (k : Nat) : le (l1[k]?.getD z) (l2[k]?.getD z) := by
  induction h generalizing k with
  | nil => simpa using hz
  | cons hab _ ih =>
    cases k with
    | zero => simpa using hab
    | succ k => simpa using ih k

theorem getD_zipWith (z : K) (f : K → K → K) (l1 l2 : List K) (i : Nat) (h1 : i < l1.length) (h2 : i < l2.length) :
    (List.zipWith f l1 l2)[i]?.getD z = f (l1[i]?.getD z) (l2[i]?.getD z) := by
  simp [List.getElem?_zipWith, List.getElem?_eq_getElem h1, List.getElem?_eq_getElem h2]

theorem forall₂_antisymm {le : K → K → Prop} (hanti : ∀ a b, le a b → le b a → a = b) {l1 l2 : List K}
    (h1 : List.Forall₂ le l1 l2) (h2 : List.Forall₂ le l2 l1) : l1 = l2 := by
  induction h1 with
  | nil => rfl
  | cons hab _ ih =>
    cases h2 with
    | cons hba h2' => rw [hanti _ _ hab hba, ih h2']

/-! ### cells of `zipComp` and `unflatten` -/

theorem ent_zipComp (S : SR K) (G : Grammar K) (comp : List Nat) (op : K → K → K) (a b : Val K) (X : Nat) :
    (zipComp S G comp op a b)[X]?.join =
      if X < G.nts.length ∧ X ∈ comp then some (List.zipWith op (cellsOf S G a X) (cellsOf S G b X)) else none := by
  unfold zipComp
  by_cases hX : X < G.nts.length
  · rw [List.getElem?_map, List.getElem?_range hX]
    by_cases hc : X ∈ comp
    · simp [hX, hc]
    · simp [hX, hc]
  · rw [List.getElem?_eq_none (by rw [List.length_map, List.length_range]; omega)]
    simp [hX]

theorem cellsOf_zipComp (S : SR K) (G : Grammar K) (comp : List Nat) (op : K → K → K) (a b : Val K) (X : Nat)
    (hX : X < G.nts.length) (hc : X ∈ comp) :
    cellsOf S G (zipComp S G comp op a b) X = List.zipWith op (cellsOf S G a X) (cellsOf S G b X) := by
  rw [cellsOf_eq_getD, ent_zipComp, if_pos ⟨hX, hc⟩]
  rfl

theorem ent_unflatten (G : Grammar K) (comp : List Nat) (sol : List K) (X : Nat) :
    (unflatten G comp sol)[X]?.join =
      if X < G.nts.length ∧ X ∈ comp then some (seg (compCells G comp) sol X) else none := by
  unfold unflatten
  by_cases hX : X < G.nts.length
  · rw [List.getElem?_map, List.getElem?_range hX]
    by_cases hc : X ∈ comp
    · simp [hX, hc, seg]
    · simp [hX, hc]
  · rw [List.getElem?_eq_none (by rw [List.length_map, List.length_range]; omega)]
    simp [hX]

theorem cellsOf_unflatten (S : SR K) (G : Grammar K) (comp : List Nat) (sol : List K) (X : Nat)
    (hX : X < G.nts.length) (hc : X ∈ comp) :
    cellsOf S G (unflatten G comp sol) X = seg (compCells G comp) sol X := by
  rw [cellsOf_eq_getD, ent_unflatten, if_pos ⟨hX, hc⟩]
  rfl

theorem flatV_unflatten (S : SR K) (G : Grammar K) (comp : List Nat) (hnd : comp.Nodup)
    (hrange : ∀ X ∈ comp, X < G.nts.length) (sol : List K) (hlen : sol.length = (compCells G comp).length) :
    flatV S G comp (unflatten G comp sol) = sol := by
  have h := (unflat (fun X => numel (G.shapeOf (G.nts[X]?.getD []))) S.zero comp hnd sol
    (by rw [← compCells_eq_blocks]; exact hlen)).1
  rw [← compCells_eq_blocks] at h
  refine Eq.trans ?_ h
  unfold flatV
  apply List.map_congr_left
  intro p hp
  have hpc := ((mem_compCells G comp p).1 hp).1
  rw [cellsOf_unflatten S G comp sol p.1 (hrange _ hpc) hpc]

theorem length_cellsOf_unflatten (S : SR K) (G : Grammar K) (comp : List Nat) (hnd : comp.Nodup)
    (sol : List K) (hlen : sol.length = (compCells G comp).length) (X : Nat) (hX : X < G.nts.length) (hc : X ∈ comp) :
    (cellsOf S G (unflatten G comp sol) X).length = numel (G.shapeOf (G.nts[X]?.getD [])) := by
  have h := (unflat (fun X => numel (G.shapeOf (G.nts[X]?.getD []))) S.zero comp hnd sol
    (by rw [← compCells_eq_blocks]; exact hlen)).2 X hc
  rw [← compCells_eq_blocks] at h
  rw [cellsOf_unflatten S G comp sol X hX hc, h]

/-- a flat vector below `flatV y` unflattens to cells below the cells of `y` -/
theorem unflatten_le (S : SR K) (le : K → K → Prop) (G : Grammar K) (comp : List Nat) (hnd : comp.Nodup)
    (hrange : ∀ X ∈ comp, X < G.nts.length) (sol : List K) (hlen : sol.length = (compCells G comp).length)
    (y : Val K)
    (hv : ∀ i, i < (compCells G comp).length → le (Sv.getV S sol i) (Sv.getV S (flatV S G comp y) i))
    (X : Nat) (hX : X ∈ comp) (j : Nat) (hj : j < numel (G.shapeOf (G.nts[X]?.getD []))) :
    le ((cellsOf S G (unflatten G comp sol) X)[j]?.getD S.zero) ((cellsOf S G y X)[j]?.getD S.zero) := by
  have hmem : (X, j) ∈ compCells G comp := (mem_compCells G comp (X, j)).2 ⟨hX, hj⟩
  obtain ⟨i, hi, hi2⟩ := List.getElem_of_mem hmem
  have := hv i hi
  rw [← flatV_unflatten S G comp hnd hrange sol hlen] at this
  unfold Sv.getV at this
  rw [flatV_getElem? S G comp _ i hi, flatV_getElem? S G comp _ i hi, hi2] at this
  exact this

/-! ### one Newton step -/

/-- cellwise order on the component's nonterminals (the `CompLe` of C02e) -/
def CLe (S : SR K) (le : K → K → Prop) (G : Grammar K) (comp : List Nat) (a b : Val K) : Prop :=
  ∀ X ∈ comp, List.Forall₂ le (cellsOf S G a X) (cellsOf S G b X)

/-- the laws of `maximum` and `sub` used by the Newton step -/
structure MaxSub (le : K → K → Prop) (sub maxOp : K → K → K) : Prop where
  max_left : ∀ a b, le a (maxOp a b)
  max_right : ∀ a b, le b (maxOp a b)
  max_lub : ∀ a b c, le a c → le b c → le (maxOp a b) c
  sub_le : ∀ a b, le (sub a b) a

/-- `F0 = max(F(x0), x0)` -/
def nF0 (S : SR K) (maxOp : K → K → K) (G : Grammar K) (x : Val K) (comp : List Nat) (x0 : Val K) : Val K :=
  zipComp S G comp maxOp (compF S G x comp x0) x0

/-- `F0 ⊖ x0` -/
def nRhs (S : SR K) (sub maxOp : K → K → K) (G : Grammar K) (x : Val K) (comp : List Nat) (x0 : Val K) : Val K :=
  zipComp S G comp sub (nF0 S maxOp G x comp x0) x0

def nSys (S : SR K) (sub maxOp : K → K → K) (G : Grammar K) (x : Val K) (comp : List Nat) (x0 : Val K) :
    List (List K) × List K :=
  jacSystem S G x comp x0 (nRhs S sub maxOp G x comp x0)

def nSol (S : SR K) (star : K → K) (sub maxOp : K → K → K) (G : Grammar K) (x : Val K) (comp : List Nat)
    (x0 : Val K) : List K :=
  Sv.solveLoop S star (nSys S sub maxOp G x comp x0).1 (nSys S sub maxOp G x comp x0).2

def nDX (S : SR K) (star : K → K) (sub maxOp : K → K → K) (G : Grammar K) (x : Val K) (comp : List Nat)
    (x0 : Val K) : Val K :=
  unflatten G comp (nSol S star sub maxOp G x comp x0)

theorem newtonStep_eq [BEq K] (S : SR K) (star : K → K) (sub maxOp : K → K → K) (G : Grammar K) (x : Val K)
    (comp : List Nat) (x0 : Val K) :
    newtonStep S star sub maxOp G x comp x0 =
      (zipComp S G comp maxOp (zipComp S G comp S.add x0 (nDX S star sub maxOp G x comp x0))
          (nF0 S maxOp G x comp x0),
        valEqOn S G comp (nF0 S maxOp G x comp x0) x0) := rfl

theorem nSys_eq (S : SR K) (sub maxOp : K → K → K) (G : Grammar K) (x : Val K) (comp : List Nat) (x0 : Val K) :
    nSys S sub maxOp G x comp x0 =
      ((compCells G comp).map (fun p => (compCells G comp).map (fun q =>
          Mcell S G (jOf S G (overlay G.nts.length x x0 comp) comp) p q)),
       (compCells G comp).map (bcell S (rOf S G comp (nRhs S sub maxOp G x comp x0)))) := by
  unfold nSys
  rw [jacSystem_eq, linearSystem_eq]

theorem nSol_length (S : SR K) (star : K → K) (sub maxOp : K → K → K) (G : Grammar K) (x : Val K)
    (comp : List Nat) (x0 : Val K) :
    (nSol S star sub maxOp G x comp x0).length = (compCells G comp).length := by
  unfold nSol
  rw [C09bL.solveLoop_length S star _ _ (by rw [nSys_eq]; simp), nSys_eq]
  simp

theorem length_cellsOf_compF (S : SR K) (hS : C01.SRLaws S) (G : Grammar K) (hG : GrammarWF G) (x z : Val K)
    (comp : List Nat) (X : Nat) (hXn : X < G.nts.length) (hX : X ∈ comp) :
    (cellsOf S G (compF S G x comp z) X).length = numel (G.shapeOf (G.nts[X]?.getD [])) := by
  rw [cellsOf_compF S hS G hG x z comp X hXn hX]
  exact length_cellsOf_F S G hG _ X hXn

/-- the cells of the next iterate -/
theorem cellsOf_step [BEq K] (S : SR K) (star : K → K) (sub maxOp : K → K → K) (G : Grammar K) (x : Val K)
    (comp : List Nat) (x0 : Val K) (X : Nat) (hXn : X < G.nts.length) (hX : X ∈ comp) :
    cellsOf S G (newtonStep S star sub maxOp G x comp x0).1 X =
      List.zipWith maxOp
        (List.zipWith S.add (cellsOf S G x0 X) (cellsOf S G (nDX S star sub maxOp G x comp x0) X))
        (List.zipWith maxOp (cellsOf S G (compF S G x comp x0) X) (cellsOf S G x0 X)) := by
  rw [newtonStep_eq]
  show cellsOf S G (zipComp S G comp maxOp _ _) X = _
  rw [cellsOf_zipComp S G comp maxOp _ _ X hXn hX, cellsOf_zipComp S G comp S.add _ _ X hXn hX]
  unfold nF0
  rw [cellsOf_zipComp S G comp maxOp _ _ X hXn hX]

theorem length_cellsOf_nDX (S : SR K) (star : K → K) (sub maxOp : K → K → K) (G : Grammar K) (x : Val K)
    (comp : List Nat) (hnd : comp.Nodup) (x0 : Val K) (X : Nat) (hXn : X < G.nts.length) (hX : X ∈ comp) :
    (cellsOf S G (nDX S star sub maxOp G x comp x0) X).length = numel (G.shapeOf (G.nts[X]?.getD [])) :=
  length_cellsOf_unflatten S G comp hnd _ (nSol_length S star sub maxOp G x comp x0) X hXn hX

/-- the next iterate is shaped when the current one is -/
theorem length_cellsOf_step [BEq K] (S : SR K) (hS : C01.SRLaws S) (star : K → K) (sub maxOp : K → K → K)
    (G : Grammar K) (hG : GrammarWF G) (x : Val K) (comp : List Nat) (hnd : comp.Nodup) (x0 : Val K) (X : Nat)
    (hXn : X < G.nts.length) (hX : X ∈ comp)
    (hlen : (cellsOf S G x0 X).length = numel (G.shapeOf (G.nts[X]?.getD []))) :
    (cellsOf S G (newtonStep S star sub maxOp G x comp x0).1 X).length
      = numel (G.shapeOf (G.nts[X]?.getD [])) := by
  rw [cellsOf_step S star sub maxOp G x comp x0 X hXn hX]
  simp only [List.length_zipWith, hlen, length_cellsOf_nDX S star sub maxOp G x comp hnd x0 X hXn hX,
    length_cellsOf_compF S hS G hG x x0 comp X hXn hX, Nat.min_self]

/-- a cell of the next iterate -/
theorem cell_step [BEq K] (S : SR K) (hS : C01.SRLaws S) (star : K → K) (sub maxOp : K → K → K)
    (G : Grammar K) (hG : GrammarWF G) (x : Val K) (comp : List Nat) (hnd : comp.Nodup) (x0 : Val K) (X : Nat)
    (hXn : X < G.nts.length) (hX : X ∈ comp)
    (hlen : (cellsOf S G x0 X).length = numel (G.shapeOf (G.nts[X]?.getD [])))
    (i : Nat) (hi : i < numel (G.shapeOf (G.nts[X]?.getD []))) :
    (cellsOf S G (newtonStep S star sub maxOp G x comp x0).1 X)[i]?.getD S.zero =
      maxOp (S.add ((cellsOf S G x0 X)[i]?.getD S.zero)
          ((cellsOf S G (nDX S star sub maxOp G x comp x0) X)[i]?.getD S.zero))
        (maxOp ((cellsOf S G (compF S G x comp x0) X)[i]?.getD S.zero) ((cellsOf S G x0 X)[i]?.getD S.zero)) := by
  have h1 := length_cellsOf_nDX S star sub maxOp G x comp hnd x0 X hXn hX
  have h2 := length_cellsOf_compF S hS G hG x x0 comp X hXn hX
  rw [cellsOf_step S star sub maxOp G x comp x0 X hXn hX,
    getD_zipWith _ _ _ _ _ (by simp [hlen, h1, hi]) (by simp [hlen, h2, hi]),
    getD_zipWith _ _ _ _ _ (by rw [hlen]; exact hi) (by rw [h1]; exact hi),
    getD_zipWith _ _ _ _ _ (by rw [h2]; exact hi) (by rw [hlen]; exact hi)]

/-- **a Newton step dominates its argument and the fixed-point step** (shaped `x0`) -/
theorem step_ge [BEq K] (S : SR K) (hS : C01.SRLaws S) (le : K → K → Prop)
    (htrans : ∀ a b c, le a b → le b c → le a c) (star : K → K) (sub maxOp : K → K → K)
    (hm : MaxSub le sub maxOp) (G : Grammar K) (hG : GrammarWF G) (x : Val K) (comp : List Nat) (hnd : comp.Nodup)
    (hrange : ∀ X ∈ comp, X < G.nts.length) (x0 : Val K)
    (hlen : ∀ X ∈ comp, (cellsOf S G x0 X).length = numel (G.shapeOf (G.nts[X]?.getD []))) :
    CLe S le G comp x0 (newtonStep S star sub maxOp G x comp x0).1 ∧
    CLe S le G comp (compF S G x comp x0) (newtonStep S star sub maxOp G x comp x0).1 := by
  constructor
  · intro X hX
    have hXn := hrange X hX
    apply forall₂_of_getD S.zero
    · rw [length_cellsOf_step S hS star sub maxOp G hG x comp hnd x0 X hXn hX (hlen X hX), hlen X hX]
    · intro i hi
      rw [hlen X hX] at hi
      rw [cell_step S hS star sub maxOp G hG x comp hnd x0 X hXn hX (hlen X hX) i hi]
      exact htrans _ _ _ (hm.max_right _ _) (hm.max_right _ _)
  · intro X hX
    have hXn := hrange X hX
    have h2 := length_cellsOf_compF S hS G hG x x0 comp X hXn hX
    apply forall₂_of_getD S.zero
    · rw [length_cellsOf_step S hS star sub maxOp G hG x comp hnd x0 X hXn hX (hlen X hX), h2]
    · intro i hi
      rw [h2] at hi
      rw [cell_step S hS star sub maxOp G hG x comp hnd x0 X hXn hX (hlen X hX) i hi]
      exact htrans _ _ _ (hm.max_left _ _) (hm.max_right _ _)

/-- `compF` is monotone on the component (a special case of the Taylor inequality: direction zero) -/
theorem compF_mono {S : SR K} {le : K → K → Prop} (hle : OrdLaws S le) (hS : C01.SRLaws S) (G : Grammar K)
    (hG : GrammarWF G) (comp : List Nat) (hnd : comp.Nodup) (hrange : ∀ X ∈ comp, X < G.nts.length)
    (x a b : Val K) (hab : CLe S le G comp a b) : CLe S le G comp (compF S G x comp a) (compF S G x comp b) := by
  intro X hX
  have hXn := hrange X hX
  have h1 := length_cellsOf_compF S hS G hG x a comp X hXn hX
  have h2 := length_cellsOf_compF S hS G hG x b comp X hXn hX
  apply forall₂_of_getD S.zero _ _ (by rw [h1, h2])
  intro i hi
  rw [h1] at hi
  have hz : ∀ Y ∈ comp, ∀ k : Nat,
      le (S.add ((cellsOf S G a Y)[k]?.getD S.zero) ((cellsOf S G (List.replicate G.nts.length none) Y)[k]?.getD S.zero))
        ((cellsOf S G b Y)[k]?.getD S.zero) := by
    intro Y hY k
    have : (cellsOf S G (List.replicate G.nts.length none) Y)[k]?.getD S.zero = S.zero := by
      rw [cellsOf_eq_getD, ent_replicate_none]
      simp only [Option.getD_none, List.getElem?_replicate]
      split <;> rfl
    rw [this, sr_add_zero hS]
    exact getD_of_forall₂ S.zero (hle.refl _) (hab Y hY) k
  have := row_taylor hle hS G hG comp hnd hrange x a _ b hz X i hX hi
  exact hle.trans _ _ _ (le_add_right hle hS _ _) this

/-- **in an idempotent semiring a Newton step never overshoots a pre-fixed point** -/
theorem step_le [BEq K] (S : SR K) (le : K → K → Prop) (star : K → K) (h : C09b.OrdStarLaws S le star)
    (hz : ∀ a, le S.zero a) (sub maxOp : K → K → K) (hm : MaxSub le sub maxOp) (hidem : ∀ a, S.add a a = a)
    (G : Grammar K) (hG : GrammarWF G) (comp : List Nat) (hnd : comp.Nodup)
    (hrange : ∀ X ∈ comp, X < G.nts.length) (x x0 y : Val K)
    (hx0 : CLe S le G comp x0 y) (hy : CLe S le G comp (compF S G x comp y) y) :
    CLe S le G comp (newtonStep S star sub maxOp G x comp x0).1 y := by
  have hS := h.sr
  have hle := ordLaws_of h hz
  -- lengths
  have hylen : ∀ X ∈ comp, (cellsOf S G y X).length = numel (G.shapeOf (G.nts[X]?.getD [])) := by
    intro X hX
    rw [← (hy X hX).length_eq]
    exact length_cellsOf_compF S hS G hG x y comp X (hrange X hX) hX
  have hx0len : ∀ X ∈ comp, (cellsOf S G x0 X).length = numel (G.shapeOf (G.nts[X]?.getD [])) := by
    intro X hX
    rw [(hx0 X hX).length_eq]
    exact hylen X hX
  -- cellwise facts
  have hx0k : ∀ Y ∈ comp, ∀ k : Nat, le ((cellsOf S G x0 Y)[k]?.getD S.zero) ((cellsOf S G y Y)[k]?.getD S.zero) :=
    fun Y hY k => getD_of_forall₂ S.zero (h.refl _) (hx0 Y hY) k
  have hFyk : ∀ Y ∈ comp, ∀ k : Nat,
      le ((cellsOf S G (compF S G x comp y) Y)[k]?.getD S.zero) ((cellsOf S G y Y)[k]?.getD S.zero) :=
    fun Y hY k => getD_of_forall₂ S.zero (h.refl _) (hy Y hY) k
  have hxy : ∀ Y ∈ comp, ∀ k : Nat,
      le (S.add ((cellsOf S G x0 Y)[k]?.getD S.zero) ((cellsOf S G y Y)[k]?.getD S.zero))
        ((cellsOf S G y Y)[k]?.getD S.zero) :=
    fun Y hY k => add_le_idem hle hidem _ _ _ (hx0k Y hY k) (h.refl _)
  -- Taylor: `F(x0) + J(x0)·y ≤ F(y) ≤ y`
  have hT : ∀ X ∈ comp, ∀ i, i < numel (G.shapeOf (G.nts[X]?.getD [])) →
      le (S.add ((cellsOf S G (compF S G x comp x0) X)[i]?.getD S.zero) (jacRow S G x comp x0 y (X, i)))
        ((cellsOf S G y X)[i]?.getD S.zero) :=
    fun X hX i hi => h.trans _ _ _ (row_taylor hle hS G hG comp hnd hrange x x0 y y hxy X i hX hi) (hFyk X hX i)
  have hFx0 : ∀ X ∈ comp, ∀ i, i < numel (G.shapeOf (G.nts[X]?.getD [])) →
      le ((cellsOf S G (compF S G x comp x0) X)[i]?.getD S.zero) ((cellsOf S G y X)[i]?.getD S.zero) :=
    fun X hX i hi => h.trans _ _ _ (le_add_right hle hS _ _) (hT X hX i hi)
  have hJy : ∀ X ∈ comp, ∀ i, i < numel (G.shapeOf (G.nts[X]?.getD [])) →
      le (jacRow S G x comp x0 y (X, i)) ((cellsOf S G y X)[i]?.getD S.zero) :=
    fun X hX i hi => h.trans _ _ _ (le_add_left hle hS _ _) (hT X hX i hi)
  -- `F0 ≤ y`
  have hF0 : ∀ X ∈ comp, ∀ i, i < numel (G.shapeOf (G.nts[X]?.getD [])) →
      le (maxOp ((cellsOf S G (compF S G x comp x0) X)[i]?.getD S.zero) ((cellsOf S G x0 X)[i]?.getD S.zero))
        ((cellsOf S G y X)[i]?.getD S.zero) :=
    fun X hX i hi => hm.max_lub _ _ _ (hFx0 X hX i hi) (hx0k X hX i)
  -- the right-hand side `F0 ⊖ x0 ≤ y`
  have hrhs : ∀ X ∈ comp, ∀ i, i < numel (G.shapeOf (G.nts[X]?.getD [])) →
      le ((cellsOf S G (nRhs S sub maxOp G x comp x0) X)[i]?.getD S.zero) ((cellsOf S G y X)[i]?.getD S.zero) := by
    intro X hX i hi
    have hXn := hrange X hX
    have h2 := length_cellsOf_compF S hS G hG x x0 comp X hXn hX
    unfold nRhs nF0
    rw [cellsOf_zipComp S G comp sub _ _ X hXn hX, cellsOf_zipComp S G comp maxOp _ _ X hXn hX,
      getD_zipWith _ _ _ _ _ (by simp [hx0len X hX, h2, hi]) (by rw [hx0len X hX]; exact hi),
      getD_zipWith _ _ _ _ _ (by rw [h2]; exact hi) (by rw [hx0len X hX]; exact hi)]
    exact h.trans _ _ _ (hm.sub_le _ _) (hF0 X hX i hi)
  -- `y` is a pre-fixed point of the linear system, so the solution is below `y`
  have hpre : C09b.PreFixed S le (nSys S sub maxOp G x comp x0).1 (nSys S sub maxOp G x comp x0).2
      (flatV S G comp y) := by
    intro i hi
    rw [nSys_eq] at hi ⊢
    simp only [List.length_map] at hi
    simp only
    unfold flatV
    rw [affine_tab]
    unfold Sv.getV
    rw [List.getElem?_map, List.getElem?_map, List.getElem?_eq_getElem hi]
    simp only [Option.map_some, Option.getD_some]
    obtain ⟨hX, hj⟩ := (mem_compCells G comp _).1 (List.getElem_mem hi)
    generalize (compCells G comp)[i] = p at hX hj
    obtain ⟨X, j⟩ := p
    simp only at hX hj
    rw [bcell_rOf S G comp _ (X, j) hX]
    exact add_le_idem hle hidem _ _ _ (hJy X hX j hj) (hrhs X hX j hj)
  have hsol := C09b.solveLoop_least' S le star h _ _ _ hpre
  have hdX : ∀ X ∈ comp, ∀ i, i < numel (G.shapeOf (G.nts[X]?.getD [])) →
      le ((cellsOf S G (nDX S star sub maxOp G x comp x0) X)[i]?.getD S.zero) ((cellsOf S G y X)[i]?.getD S.zero) := by
    intro X hX i hi
    apply unflatten_le S le G comp hnd hrange _ (nSol_length S star sub maxOp G x comp x0) y _ X hX i hi
    intro k hk
    apply hsol k
    rw [nSys_eq]
    simpa using hk
  -- the next iterate
  intro X hX
  have hXn := hrange X hX
  apply forall₂_of_getD S.zero
  · rw [length_cellsOf_step S hS star sub maxOp G hG x comp hnd x0 X hXn hX (hx0len X hX), hylen X hX]
  · intro i hi
    rw [length_cellsOf_step S hS star sub maxOp G hG x comp hnd x0 X hXn hX (hx0len X hX)] at hi
    rw [cell_step S hS star sub maxOp G hG x comp hnd x0 X hXn hX (hx0len X hX) i hi]
    exact hm.max_lub _ _ _ (add_le_idem hle hidem _ _ _ (hx0k X hX i) (hdX X hX i hi)) (hF0 X hX i hi)

/-! ### the loop of `newton` -/

theorem newtonGo_succ [BEq K] (S : SR K) (star : K → K) (sub maxOp : K → K → K) (G : Grammar K) (x : Val K)
    (comp : List Nat) (fuel : Nat) (x0 : Val K) :
    newtonGo S star sub maxOp G x comp (fuel + 1) x0 =
      if (newtonStep S star sub maxOp G x comp x0).2 then ((newtonStep S star sub maxOp G x comp x0).1, false)
      else newtonGo S star sub maxOp G x comp fuel (newtonStep S star sub maxOp G x comp x0).1 := by
  rw [newtonGo]

/-- a run without warning ends with a step that passed the stopping test, and every property preserved by the step
holds of the argument of that step -/
theorem newtonGo_stop [BEq K] (S : SR K) (star : K → K) (sub maxOp : K → K → K) (G : Grammar K) (x : Val K)
    (comp : List Nat) (P : Val K → Prop) (hP : ∀ z, P z → P (newtonStep S star sub maxOp G x comp z).1)
    (fuel : Nat) (x0 ys : Val K) (h0 : P x0) (hrun : newtonGo S star sub maxOp G x comp fuel x0 = (ys, false)) :
    ∃ z, P z ∧ (newtonStep S star sub maxOp G x comp z).2 = true ∧
      ys = (newtonStep S star sub maxOp G x comp z).1 := by
  induction fuel generalizing x0 with
  | zero =>
    simp [newtonGo] at hrun
  | succ fuel ih =>
    rw [newtonGo_succ] at hrun
    by_cases hs : (newtonStep S star sub maxOp G x comp x0).2 = true
    · rw [if_pos hs] at hrun
      exact ⟨x0, h0, hs, (Prod.mk.inj hrun).1.symm⟩
    · rw [if_neg hs] at hrun
      exact ih _ (hP x0 h0) hrun

/-- what the iterates of `newton` satisfy: shaped, and below every pre-fixed point of the component's equations -/
def Below (S : SR K) (le : K → K → Prop) (G : Grammar K) (x : Val K) (comp : List Nat) (z : Val K) : Prop :=
  (∀ X ∈ comp, (cellsOf S G z X).length = numel (G.shapeOf (G.nts[X]?.getD []))) ∧
  ∀ y, CLe S le G comp (compF S G x comp y) y → CLe S le G comp z y

theorem below_zero (S : SR K) (hS : C01.SRLaws S) (le : K → K → Prop) (hz : ∀ a, le S.zero a) (G : Grammar K)
    (hG : GrammarWF G) (x : Val K) (comp : List Nat) (hrange : ∀ X ∈ comp, X < G.nts.length) :
    Below S le G x comp (List.replicate G.nts.length none) := by
  have hc : ∀ X, cellsOf S G (List.replicate G.nts.length none) X
      = List.replicate (numel (G.shapeOf (G.nts[X]?.getD []))) S.zero := by
    intro X
    rw [cellsOf_eq_getD, ent_replicate_none]
    rfl
  constructor
  · intro X _
    rw [hc]; simp
  · intro y hy X hX
    have hylen : (cellsOf S G y X).length = numel (G.shapeOf (G.nts[X]?.getD [])) := by
      rw [← (hy X hX).length_eq]
      exact length_cellsOf_compF S hS G hG x y comp X (hrange X hX) hX
    rw [hc]
    apply forall₂_of_getD S.zero _ _ (by simp [hylen])
    intro i hi
    simp only [List.length_replicate] at hi
    simp only [List.getElem?_replicate, hi, if_true, Option.getD_some]
    exact hz _

theorem below_step [BEq K] (S : SR K) (le : K → K → Prop) (star : K → K) (h : C09b.OrdStarLaws S le star)
    (hz : ∀ a, le S.zero a) (sub maxOp : K → K → K) (hm : MaxSub le sub maxOp) (hidem : ∀ a, S.add a a = a)
    (G : Grammar K) (hG : GrammarWF G) (comp : List Nat) (hnd : comp.Nodup)
    (hrange : ∀ X ∈ comp, X < G.nts.length) (x z : Val K) (hb : Below S le G x comp z) :
    Below S le G x comp (newtonStep S star sub maxOp G x comp z).1 :=
  ⟨fun X hX => length_cellsOf_step S h.sr star sub maxOp G hG x comp hnd z X (hrange X hX) hX (hb.1 X hX),
   fun y hy => step_le S le star h hz sub maxOp hm hidem G hG comp hnd hrange x z y (hb.2 y hy) hy⟩

theorem cle_refl (S : SR K) (le : K → K → Prop) (hrefl : ∀ a, le a a) (G : Grammar K) (comp : List Nat) (a : Val K) :
    CLe S le G comp a a := by
  intro X _
  exact List.forall₂_same.2 (fun c _ => hrefl c)

/-- `compF` reads the component's values cell by cell -/
theorem cellsOf_compF_congr (S : SR K) (hS : C01.SRLaws S) (G : Grammar K) (hG : GrammarWF G) (x a b : Val K)
    (comp : List Nat) (hab : ∀ Y ∈ comp, cellsOf S G a Y = cellsOf S G b Y)
    (X : Nat) (hXn : X < G.nts.length) (hX : X ∈ comp) :
    cellsOf S G (compF S G x comp a) X = cellsOf S G (compF S G x comp b) X := by
  rw [cellsOf_compF S hS G hG x a comp X hXn hX, cellsOf_compF S hS G hG x b comp X hXn hX]
  apply cellsOf_F_congr
  intro r _ Y _
  by_cases hY : Y < G.nts.length ∧ Y ∈ comp
  · rw [cellsOf_overlay_in S G x a comp Y hY.1 hY.2, cellsOf_overlay_in S G x b comp Y hY.1 hY.2]
    exact hab Y hY.2
  · exact cellsOf_congr S G _ _ Y (ent_overlay_out G.nts.length x a b comp Y hY)

/-- **a run of `newton` that stops returns the least fixed point of the component's equations** -/
theorem newton_least [BEq K] (hbeq : ∀ a b : K, (a == b) = true → a = b)
    (S : SR K) (le : K → K → Prop) (star : K → K) (h : C09b.OrdStarLaws S le star)
    (hz : ∀ a, le S.zero a) (sub maxOp : K → K → K) (hm : MaxSub le sub maxOp) (hidem : ∀ a, S.add a a = a)
    (hanti : ∀ a b, le a b → le b a → a = b)
    (G : Grammar K) (hG : GrammarWF G) (comp : List Nat) (hnd : comp.Nodup)
    (hrange : ∀ X ∈ comp, X < G.nts.length) (x : Val K) (kmax : Nat) (ys : Val K)
    (hrun : newton S star sub maxOp G x comp kmax = (ys, false)) :
    (∀ X ∈ comp, cellsOf S G (compF S G x comp ys) X = cellsOf S G ys X) ∧
    (∀ y, CLe S le G comp (compF S G x comp y) y → CLe S le G comp ys y) := by
  have hS := h.sr
  have hle := ordLaws_of h hz
  unfold newton at hrun
  obtain ⟨z, hbz, hstop, rfl⟩ := newtonGo_stop S star sub maxOp G x comp (Below S le G x comp)
    (fun z hz' => below_step S le star h hz sub maxOp hm hidem G hG comp hnd hrange x z hz')
    kmax _ ys (below_zero S hS le hz G hG x comp hrange) hrun
  -- the stopping test: `max(F(z), z) = z`, so `z` is a pre-fixed point
  rw [newtonStep_eq] at hstop
  have hstop' := valEqOn_eq hbeq S G comp _ _ hstop
  have hzpre : CLe S le G comp (compF S G x comp z) z := by
    intro X hX
    have hXn := hrange X hX
    have h2 := length_cellsOf_compF S hS G hG x z comp X hXn hX
    have he := hstop' X hX
    unfold nF0 at he
    rw [cellsOf_zipComp S G comp maxOp _ _ X hXn hX] at he
    apply forall₂_of_getD S.zero _ _ (by rw [h2, hbz.1 X hX])
    intro i hi
    rw [h2] at hi
    have := getD_zipWith S.zero maxOp _ _ i (by rw [h2]; exact hi) (by rw [hbz.1 X hX]; exact hi)
    rw [he] at this
    rw [this]
    exact hm.max_left _ _
  -- the returned value has the cells of `z`
  have hN1 := step_le S le star h hz sub maxOp hm hidem G hG comp hnd hrange x z z
    (cle_refl S le h.refl G comp z) hzpre
  have hN2 := (step_ge S hS le h.trans star sub maxOp hm G hG x comp hnd hrange z hbz.1).1
  have hcells : ∀ X ∈ comp, cellsOf S G (newtonStep S star sub maxOp G x comp z).1 X = cellsOf S G z X :=
    fun X hX => forall₂_antisymm hanti (hN1 X hX) (hN2 X hX)
  -- `F(z)` is a pre-fixed point, so `z ≤ F(z)`
  have hFpre : CLe S le G comp (compF S G x comp (compF S G x comp z)) (compF S G x comp z) :=
    compF_mono hle hS G hG comp hnd hrange x _ _ hzpre
  have hzF := hbz.2 _ hFpre
  have hfix : ∀ X ∈ comp, cellsOf S G (compF S G x comp z) X = cellsOf S G z X :=
    fun X hX => forall₂_antisymm hanti (hzpre X hX) (hzF X hX)
  constructor
  · intro X hX
    rw [cellsOf_compF_congr S hS G hG x _ z comp hcells X (hrange X hX) hX, hfix X hX, hcells X hX]
  · intro y hy X hX
    rw [hcells X hX]
    exact hbz.2 y hy X hX

/-! ### the driver loop with Newton's method -/

theorem solveCompN_newton [BEq K] (S : SR K) (star : K → K) (sub maxOp : K → K → K) (G : Grammar K) (m : Method)
    (kmax : Nat) (o : Outcome K) (comp : List Nat) (hcm : compMethod m comp (maxRhs G comp) = .newton) :
    solveCompN S star sub maxOp G m kmax o comp = .ok { o with
      value := overlay G.nts.length o.value (newton S star sub maxOp G o.value comp kmax).1 comp,
      warned := o.warned || (newton S star sub maxOp G o.value comp kmax).2 } := by
  unfold solveCompN
  rw [hcm]
  rfl

theorem solveCompN_other [BEq K] (S : SR K) (star : K → K) (sub maxOp : K → K → K) (G : Grammar K) (m : Method)
    (kmax : Nat) (o : Outcome K) (comp : List Nat) (hcm : compMethod m comp (maxRhs G comp) ≠ .newton) :
    solveCompN S star sub maxOp G m kmax o comp = solveComp S star G m kmax o comp := by
  unfold solveCompN
  cases hcm' : compMethod m comp (maxRhs G comp) with
  | newton => exact absurd hcm' hcm
  | oneStep => rfl
  | fixedPoint => rfl
  | linear => rfl

/-- outside Newton's iteration proper the flag `unmodelled` is left alone -/
theorem solveComp_unmodelled [BEq K] (S : SR K) (star : K → K) (G : Grammar K) (m : Method) (kmax : Nat)
    (o o1 : Outcome K) (comp : List Nat) (hcm : compMethod m comp (maxRhs G comp) ≠ .newton)
    (h : solveComp S star G m kmax o comp = .ok o1) : o1.unmodelled = o.unmodelled := by
  cases hcm' : compMethod m comp (maxRhs G comp) with
  | oneStep =>
    rw [solveComp_oneStep S star G m kmax o comp hcm'] at h
    injection h with h; subst h
    rfl
  | fixedPoint =>
    rw [solveComp_fixedPoint' S star G m kmax o comp hcm'] at h
    injection h with h; subst h
    rfl
  | linear =>
    rw [solveComp_linear S star G m kmax o comp hcm'] at h
    split at h
    · cases h
    · injection h with h; subst h
      rfl
  | newton => exact absurd hcm' hcm

theorem solveCompN_sticky [BEq K] (S : SR K) (star : K → K) (sub maxOp : K → K → K) (G : Grammar K) (m : Method)
    (kmax : Nat) (o o1 : Outcome K) (comp : List Nat)
    (h : solveCompN S star sub maxOp G m kmax o comp = .ok o1) (hw : o1.warned = false) : o.warned = false := by
  by_cases hcm : compMethod m comp (maxRhs G comp) = .newton
  · rw [solveCompN_newton S star sub maxOp G m kmax o comp hcm] at h
    injection h with h; subst h
    simp only [Bool.or_eq_false_iff] at hw
    exact hw.1
  · rw [solveCompN_other S star sub maxOp G m kmax o comp hcm] at h
    exact (solveComp_sticky S star G m kmax o o1 comp h).1 hw

theorem foldlMN_sticky [BEq K] (S : SR K) (star : K → K) (sub maxOp : K → K → K) (G : Grammar K) (m : Method)
    (kmax : Nat) (l : List (List Nat)) (o o' : Outcome K)
    (h : l.foldlM (solveCompN S star sub maxOp G m kmax) o = .ok o') (hw : o'.warned = false) :
    o.warned = false := by
  induction l generalizing o with
  | nil =>
    rw [List.foldlM_nil] at h
    injection h with h; subst h
    exact hw
  | cons c l ih =>
    rw [List.foldlM_cons] at h
    cases hs : solveCompN S star sub maxOp G m kmax o c with
    | error e => rw [hs] at h; cases h
    | ok o1 =>
      rw [hs] at h
      exact solveCompN_sticky S star sub maxOp G m kmax o o1 c hs (ih o1 h)

/-- `y` with every tensor rebuilt cell by cell from `cellsOf` (so every tensor has the right number of cells) -/
def normV (S : SR K) (G : Grammar K) (y : Val K) : Val K :=
  (List.range G.nts.length).map (fun X =>
    some ((List.range (numel (G.shapeOf (G.nts[X]?.getD [])))).map (fun j => (cellsOf S G y X)[j]?.getD S.zero)))

theorem cellsOf_normV (S : SR K) (G : Grammar K) (y : Val K) (X : Nat) (hX : X < G.nts.length) :
    cellsOf S G (normV S G y) X
      = (List.range (numel (G.shapeOf (G.nts[X]?.getD [])))).map (fun j => (cellsOf S G y X)[j]?.getD S.zero) := by
  rw [cellsOf_eq_getD]
  unfold normV
  rw [List.getElem?_map, List.getElem?_range hX]
  rfl

theorem cell_normV (S : SR K) (G : Grammar K) (y : Val K) (X : Nat) (hX : X < G.nts.length) (j : Nat)
    (hj : j < numel (G.shapeOf (G.nts[X]?.getD []))) :
    (cellsOf S G (normV S G y) X)[j]?.getD S.zero = (cellsOf S G y X)[j]?.getD S.zero := by
  rw [cellsOf_normV S G y X hX, List.getElem?_map, List.getElem?_range hj]
  rfl

/-- a least solution of the component's equations (in the sense of `CLe`) keeps the value below every pre-fixed point
of the whole system -/
theorem valLe_newton (S : SR K) (le : K → K → Prop) (hle : OrdLaws S le) (hS : C01.SRLaws S) (G : Grammar K)
    (hG : GrammarWF G) (comp : List Nat) (hrange : ∀ X ∈ comp, X < G.nts.length) (v ys : Val K)
    (hfix : ∀ X ∈ comp, cellsOf S G (compF S G v comp ys) X = cellsOf S G ys X)
    (hleast : ∀ y, CLe S le G comp (compF S G v comp y) y → CLe S le G comp ys y)
    (y : Val K) (hy : ValLe S le G (F S G y) y) (hv : ValLe S le G v y) :
    ValLe S le G (overlay G.nts.length v ys comp) y := by
  have hov : ValLe S le G (overlay G.nts.length v (normV S G y) comp) y := by
    apply valLe_overlay_cells S le hle G v _ y comp hv
    · intro X _ hXn
      rw [cellsOf_normV S G y X hXn]; simp
    · intro X _ hXn j hj
      rw [cell_normV S G y X hXn j hj]
      exact hle.refl _
  have hpre : CLe S le G comp (compF S G v comp (normV S G y)) (normV S G y) := by
    intro X hX
    have hXn := hrange X hX
    have h1 := length_cellsOf_compF S hS G hG v (normV S G y) comp X hXn hX
    apply forall₂_of_getD S.zero _ _ (by rw [h1, cellsOf_normV S G y X hXn]; simp)
    intro i hi
    rw [h1] at hi
    rw [cell_normV S G y X hXn i hi]
    obtain ⟨a, ha, rfl⟩ := exists_assign _ _ hi
    rw [cell_compF hS G hG v _ comp X hXn hX a, ← valCell_eq_cell]
    exact hle.trans _ _ _ (F_mono S le hle G _ _ hov X a) (hy X a)
  have hys := hleast _ hpre
  apply valLe_overlay_cells S le hle G v ys y comp hv
  · intro X hX hXn
    rw [← hfix X hX]
    exact length_cellsOf_compF S hS G hG v ys comp X hXn hX
  · intro X hX hXn j hj
    have := getD_of_forall₂ S.zero (hle.refl _) (hys X hX) j
    rwa [cell_normV S G y X hXn j hj] at this

theorem stepN_good [BEq K] (hbeq : ∀ a b : K, (a == b) = true → a = b)
    (S : SR K) (le : K → K → Prop) (star : K → K) (h : C09b.OrdStarLaws S le star)
    (hz : ∀ a, le S.zero a) (sub maxOp : K → K → K) (hms : MaxSub le sub maxOp) (hidem : ∀ a, S.add a a = a)
    (hanti : ∀ a b, le a b → le b a → a = b)
    (G : Grammar K) (hG : GrammarWF G) (m : Method) (hm : m ≠ .oneStep) (kmax : Nat)
    (pre rest : List (List Nat)) (comp : List Nat) (hcs : sccOrder G = pre ++ comp :: rest)
    (o o1 : Outcome K) (hstep : solveCompN S star sub maxOp G m kmax o comp = .ok o1)
    (hw : o1.warned = false) (hg : Good S le G pre o.value) (hu : o.unmodelled = false) :
    Good S le G (pre ++ [comp]) o1.value ∧ o1.unmodelled = false := by
  have hle := ordLaws_of h hz
  by_cases hcm : compMethod m comp (maxRhs G comp) = .newton
  · have hmem : comp ∈ sccOrder G := by rw [hcs]; simp
    have hcomp : ∀ X ∈ comp, X < G.nts.length := fun X hX => comp_lt G hG comp hmem X hX
    have hnd := comp_nodup G hG comp hmem
    rw [solveCompN_newton S star sub maxOp G m kmax o comp hcm] at hstep
    injection hstep with hstep; subst hstep
    simp only [Bool.or_eq_false_iff] at hw
    have hrun : newton S star sub maxOp G o.value comp kmax
        = ((newton S star sub maxOp G o.value comp kmax).1, false) := by rw [← hw.2]
    obtain ⟨hfix, hleast⟩ := newton_least hbeq S le star h hz sub maxOp hms hidem hanti G hG comp hnd hcomp
      o.value kmax _ hrun
    refine ⟨⟨inv_overlay S G hG pre rest comp hcs _ _ hg.inv ?_, ?_⟩, hu⟩
    · intro X hX
      rw [cellsOf_overlay_in S G _ _ comp X (hcomp X hX) hX, ← cellsOf_compF S h.sr G hG _ _ comp X (hcomp X hX) hX]
      exact hfix X hX
    · intro y hy
      exact valLe_newton S le hle h.sr G hG comp hcomp o.value _ hfix hleast y hy (hg.least y hy)
  · rw [solveCompN_other S star sub maxOp G m kmax o comp hcm] at hstep
    have hu1 : o1.unmodelled = false := by
      rw [solveComp_unmodelled S star G m kmax o o1 comp hcm hstep]; exact hu
    exact ⟨step_good hbeq S le star h hle G hG m hm kmax pre rest comp hcs o o1 hstep hw hu1 hg, hu1⟩

theorem foldN_good [BEq K] (hbeq : ∀ a b : K, (a == b) = true → a = b)
    (S : SR K) (le : K → K → Prop) (star : K → K) (h : C09b.OrdStarLaws S le star)
    (hz : ∀ a, le S.zero a) (sub maxOp : K → K → K) (hms : MaxSub le sub maxOp) (hidem : ∀ a, S.add a a = a)
    (hanti : ∀ a b, le a b → le b a → a = b)
    (G : Grammar K) (hG : GrammarWF G) (m : Method) (hm : m ≠ .oneStep) (kmax : Nat) (rest : List (List Nat)) :
    ∀ (pre : List (List Nat)) (o o' : Outcome K), sccOrder G = pre ++ rest → Good S le G pre o.value →
      o.unmodelled = false →
      rest.foldlM (solveCompN S star sub maxOp G m kmax) o = .ok o' → o'.warned = false →
      Good S le G (pre ++ rest) o'.value := by
  induction rest with
  | nil =>
    intro pre o o' _ hg _ hf _
    rw [List.foldlM_nil] at hf
    injection hf with hf; subst hf
    simpa using hg
  | cons comp rest ih =>
    intro pre o o' hcs hg hu hf hw
    rw [List.foldlM_cons] at hf
    cases hs : solveCompN S star sub maxOp G m kmax o comp with
    | error e => rw [hs] at hf; cases hf
    | ok o1 =>
      rw [hs] at hf
      have hw1 := foldlMN_sticky S star sub maxOp G m kmax rest o1 o' hf hw
      obtain ⟨hg1, hu1⟩ := stepN_good hbeq S le star h hz sub maxOp hms hidem hanti G hG m hm kmax pre rest comp
        hcs o o1 hs hw1 hg hu
      have := ih (pre ++ [comp]) o1 o' (by rw [hcs]; simp) hg1 hu1 hf hw
      simpa using this

/-- the driver loop with Newton's method returns the least fixed point of the grammar -/
theorem sumProductsN_least [BEq K] (hbeq : ∀ a b : K, (a == b) = true → a = b)
    (S : SR K) (le : K → K → Prop) (star : K → K) (h : C09b.OrdStarLaws S le star)
    (hz : ∀ a, le S.zero a) (sub maxOp : K → K → K) (hms : MaxSub le sub maxOp) (hidem : ∀ a, S.add a a = a)
    (hanti : ∀ a b, le a b → le b a → a = b)
    (G : Grammar K) (hG : GrammarWF G) (m : Method) (hm : m ≠ .oneStep) (kmax : Nat) (o : Outcome K)
    (hok : sumProductsN S star sub maxOp G m kmax = .ok o) (hw : o.warned = false) :
    (∀ X, X < G.nts.length → cellsOf S G (F S G o.value) X = cellsOf S G o.value X) ∧
    (∀ y, ValLe S le G (F S G y) y → ValLe S le G o.value y) := by
  have hle := ordLaws_of h hz
  unfold sumProductsN at hok
  have hg0 : Good S le G [] ({ value := zeroVal G } : Outcome K).value :=
    ⟨⟨by simp [zeroVal], by intro c hc; simp at hc⟩, fun y _ => valLe_zeroVal S le hle G y⟩
  have hg := foldN_good hbeq S le star h hz sub maxOp hms hidem hanti G hG m hm kmax (sccOrder G) [] _ o
    (by simp) hg0 rfl hok hw
  refine ⟨?_, hg.least⟩
  intro X hX
  obtain ⟨c, hc, hXc⟩ := (sccOrder_ok G hG).cover X (by rw [verts_ntGraph]; simpa using hX)
  exact hg.inv.fixed c (by simpa using hc) X hXc

end C02eL
