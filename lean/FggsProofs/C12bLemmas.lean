/-
Helper lemmas for `FggsProofs/Props/C12b.lean` (C12, lifted to whole Kleene iterations).
-/
import FggsModel.Sem
import FggsProofs.Props.C01
import FggsProofs.Props.C12
import Mathlib.Tactic.Linarith
import Mathlib.Tactic.Ring
import Mathlib.Data.List.Basic
import Mathlib.Data.List.Forall2
import Mathlib.Data.List.Nodup
import Mathlib.Data.List.Perm.Basic
import Mathlib.Data.List.Perm.Subperm

set_option linter.unusedSimpArgs false
set_option linter.unusedVariables false

namespace C12bLemmas
open Fggs Fggs.Sem

variable {K : Type}

/-! ## Part 1: presentation invariance -/

theorem addT_right_comm (S : SR K) (hS : C01.SRLaws S) (a b c : List K) :
    addT S (addT S a b) c = addT S (addT S a c) b := by
  unfold addT
  induction a generalizing b c with
  | nil => simp
  | cons x a ih =>
    cases b with
    | nil => simp
    | cons y b =>
      cases c with
      | nil => simp
      | cons z c =>
        simp only [List.zipWith_cons_cons]
        rw [ih b c, hS.add_assoc, hS.add_comm y z, ← hS.add_assoc]

/-- the accumulation of rule values in `F` does not depend on the order of the rules -/
theorem foldl_addT_perm (S : SR K) (hS : C01.SRLaws S) (l l' : List (List K)) (h : l.Perm l') (z : List K) :
    l.foldl (addT S) z = l'.foldl (addT S) z :=
  h.foldl_eq' (fun x _ y _ z => addT_right_comm S hS z x y) z

theorem foldl_addT_map {α : Type} (S : SR K) (tv : α → List K) (l : List α) (z : List K) :
    l.foldl (fun acc r => addT S acc (tv r)) z = (l.map tv).foldl (addT S) z := by
  rw [List.foldl_map]

/-- node renumbering: facts about a permutation `σ` of `range n` given as a list -/
theorem sigma_facts (σ : List Nat) (n : Nat) (hσ : σ.Perm (List.range n)) :
    ∀ v < n, σ[v]?.getD 0 < n ∧ σ.idxOf (σ[v]?.getD 0) = v := by
  have hlen : σ.length = n := by simpa using hσ.length_eq
  have hnd : σ.Nodup := hσ.nodup_iff.2 List.nodup_range
  have hmem : ∀ w, w ∈ σ ↔ w < n := fun w => by rw [hσ.mem_iff, List.mem_range]
  intro v hv
  have hv' : v < σ.length := by omega
  rw [List.getElem?_eq_getElem hv', Option.getD_some]
  exact ⟨(hmem _).1 (List.getElem_mem hv'), hnd.idxOf_getElem v hv'⟩

/-- the external type of a renumbered rule is the external type of the rule -/
theorem renumber_ext_type (σ : List Nat) (r : Rule) (hσ : σ.Perm (List.range r.nodes.length))
    (hext : ∀ v ∈ r.ext, v < r.nodes.length) :
    (C12.renumber σ r).ext.map (fun v => (C12.renumber σ r).nodes[v]?.getD 0) =
      r.ext.map (fun v => r.nodes[v]?.getD 0) := by
  unfold C12.renumber
  simp only [List.map_map]
  apply List.map_congr_left
  intro v hv
  obtain ⟨h1, h2⟩ := sigma_facts σ _ hσ v (hext v hv)
  simp only [Function.comp_def]
  rw [List.getElem?_map, List.getElem?_range h1]
  simp [h2]

/-- one rule written down differently: edges permuted and nodes renumbered -/
def SameRule (r r' : Rule) : Prop :=
  ∃ σ : List Nat, σ.Perm (List.range r.nodes.length) ∧
    r'.lhs = r.lhs ∧ r'.nodes = (C12.renumber σ r).nodes ∧ r'.ext = (C12.renumber σ r).ext ∧
    r'.edges.Perm (C12.renumber σ r).edges

theorem ruleValue_sameRule (S : SR K) (hS : C01.SRLaws S) (G : Grammar K) (x : Val K) (r r' : Rule)
    (h : SameRule r r')
    (hext : ∀ v ∈ r.ext, v < r.nodes.length) (hatt : ∀ e ∈ r.edges, ∀ v ∈ e.2, v < r.nodes.length) :
    ruleValue S G x r' = ruleValue S G x r := by
  obtain ⟨σ, hσ, h1, h2, h3, h4⟩ := h
  unfold ruleValue
  have e1 : r'.ext.map (fun v => r'.nodes[v]?.getD 0) = r.ext.map (fun v => r.nodes[v]?.getD 0) := by
    rw [h2, h3]; exact renumber_ext_type σ r hσ hext
  rw [e1]
  apply List.map_congr_left
  intro a _
  rw [C12.ruleCell_perm_edges S hS G x (C12.renumber σ r) r' h1 h2 h3 h4 a]
  exact C12.ruleCell_renumber S hS G x r σ hσ hext hatt a

/-- `ruleValue` does not look at the rule list of the grammar -/
theorem ruleValue_congr_grammar (S : SR K) (G G' : Grammar K) (x : Val K) (r : Rule)
    (h1 : G'.nls = G.nls) (h2 : G'.terms = G.terms) (h3 : G'.nts = G.nts) (h5 : G'.weights = G.weights) :
    ruleValue S G' x r = ruleValue S G x r := by
  obtain ⟨nls, terms, nts, start, rules, weights⟩ := G
  obtain ⟨nls', terms', nts', start', rules', weights'⟩ := G'
  simp only at h1 h2 h3 h5
  subst h1 h2 h3 h5
  rfl

theorem map_filter_forall₂ {α β : Type} (R : α → α → Prop) (p : α → Bool) (tv tv' : α → β) (l l' : List α)
    (h : List.Forall₂ R l l') (hp : ∀ a b, R a b → p b = p a) (ht : ∀ a ∈ l, ∀ b, R a b → tv' b = tv a) :
    (l'.filter p).map tv' = (l.filter p).map tv := by
  induction h with
  | nil => rfl
  | @cons a b l l' hab _ ih =>
    have ih' := ih (fun a ha => ht a (List.mem_cons_of_mem _ ha))
    have := hp a b hab
    have ht' := ht a (List.mem_cons_self ..) b hab
    by_cases hpa : p a = true
    · rw [List.filter_cons_of_pos hpa, List.filter_cons_of_pos (by rw [this]; exact hpa), List.map_cons,
        List.map_cons, ih', ht']
    · rw [List.filter_cons_of_neg hpa, List.filter_cons_of_neg (by rw [this]; exact hpa), ih']

theorem shapeOf_congr (G G' : Grammar K) (h1 : G'.nls = G.nls) (ty : List Nat) : G'.shapeOf ty = G.shapeOf ty := by
  unfold Grammar.shapeOf Grammar.dom
  rw [h1]

/-- **one application of `F` gives exactly the same value for two presentations of a grammar** -/
theorem F_samePresentation (S : SR K) (hS : C01.SRLaws S) (G G' : Grammar K)
    (h1 : G'.nls = G.nls) (h2 : G'.terms = G.terms) (h3 : G'.nts = G.nts) (h5 : G'.weights = G.weights)
    (rs : List Rule) (hp : G'.rules.Perm rs) (hf : List.Forall₂ SameRule G.rules rs)
    (hext : ∀ r ∈ G.rules, ∀ v ∈ r.ext, v < r.nodes.length)
    (hatt : ∀ r ∈ G.rules, ∀ e ∈ r.edges, ∀ v ∈ e.2, v < r.nodes.length) (x : Val K) :
    F S G' x = F S G x := by
  unfold F
  rw [h3]
  apply List.map_congr_left
  intro X _
  simp only
  rw [shapeOf_congr G G' h1, foldl_addT_map S (ruleValue S G' x), foldl_addT_map S (ruleValue S G x)]
  congr 1
  apply foldl_addT_perm S hS
  unfold Grammar.rulesOf
  refine ((hp.filter _).map _).trans (List.Perm.of_eq ?_)
  apply map_filter_forall₂ SameRule _ _ _ _ _ hf
  · rintro a b ⟨σ, _, hl, _⟩
    rw [hl]
  · intro a ha b hab
    rw [ruleValue_congr_grammar S G G' x b h1 h2 h3 h5]
    exact ruleValue_sameRule S hS G x a b hab (hext a ha) (hatt a ha)

/-! ## Part 2: re-indexing the assignments by a value map `f lab i` (label-wise bijection of the domains) -/

theorem mem_assigns {shape a : List Nat} :
    a ∈ assigns shape ↔ List.Forall₂ (· < ·) a shape := by
  induction shape generalizing a with
  | nil => simp [assigns]
  | cons n rest ih =>
    simp only [assigns, List.mem_flatMap, List.mem_range, List.mem_map]
    constructor
    · rintro ⟨i, hi, is, his, rfl⟩
      exact List.Forall₂.cons hi (ih.1 his)
    · intro h
      cases h with
      | cons hi his => exact ⟨_, hi, _, ih.2 his, rfl⟩

theorem nodup_assigns (shape : List Nat) : (assigns shape).Nodup := by
  induction shape with
  | nil => simp [assigns]
  | cons n rest ih =>
    rw [assigns, List.nodup_flatMap]
    refine ⟨fun i _ => ih.map (fun _ _ h => (List.cons.inj h).2), ?_⟩
    refine List.Pairwise.imp ?_ List.nodup_range
    intro i j hij l h1 h2
    obtain ⟨_, _, rfl⟩ := List.mem_map.1 h1
    obtain ⟨_, _, h⟩ := List.mem_map.1 h2
    exact hij (List.cons.inj h).1.symm

theorem foldl_mul_nat (l : List Nat) (a : Nat) : l.foldl (· * ·) a = a * l.foldl (· * ·) 1 := by
  induction l generalizing a with
  | nil => simp
  | cons b l ih => simp only [List.foldl_cons]; rw [ih, ih (1 * b)]; ring

theorem numel_cons (n : Nat) (rest : List Nat) : numel (n :: rest) = n * numel rest := by
  unfold numel; rw [List.foldl_cons, foldl_mul_nat]; ring

theorem flat_lt {shape a : List Nat} (h : List.Forall₂ (· < ·) a shape) :
    flat shape a < numel shape := by
  induction h with
  | nil => simp [flat, numel]
  | @cons i n is rest hi his ih =>
    rw [flat, numel_cons]
    calc i * numel rest + flat rest is < i * numel rest + numel rest := by omega
      _ = (i + 1) * numel rest := by ring
      _ ≤ n * numel rest := Nat.mul_le_mul_right _ hi

section reindex
variable (D : Nat → Nat) (f : Nat → Nat → Nat)
  (hlt : ∀ lab i, i < D lab → f lab i < D lab)
  (hinj : ∀ lab i j, i < D lab → j < D lab → f lab i = f lab j → i = j)

include hlt in
theorem zipWith_mem_assigns (ty a : List Nat) (ha : a ∈ assigns (ty.map D)) :
    List.zipWith f ty a ∈ assigns (ty.map D) := by
  rw [mem_assigns] at ha ⊢
  induction ty generalizing a with
  | nil => cases ha; simp
  | cons t ty ih =>
    cases ha with
    | cons hi his => exact List.Forall₂.cons (hlt _ _ hi) (ih _ his)

include hinj in
theorem zipWith_inj (ty a b : List Nat) (ha : a ∈ assigns (ty.map D)) (hb : b ∈ assigns (ty.map D))
    (h : List.zipWith f ty a = List.zipWith f ty b) : a = b := by
  rw [mem_assigns] at ha hb
  induction ty generalizing a b with
  | nil => cases ha; cases hb; rfl
  | cons t ty ih =>
    cases ha with
    | cons hi his =>
      cases hb with
      | cons hj hjs =>
        simp only [List.zipWith_cons_cons, List.cons.injEq] at h
        rw [hinj _ _ _ hi hj h.1, ih _ _ his hjs h.2]

include hlt hinj in
/-- the value map induces a permutation of the list of all assignments -/
theorem assigns_perm_zipWith (ty : List Nat) :
    ((assigns (ty.map D)).map (List.zipWith f ty)).Perm (assigns (ty.map D)) := by
  apply List.Subperm.perm_of_length_le
  · apply List.subperm_of_subset
    · exact (nodup_assigns _).map_on (fun a ha b hb h => zipWith_inj D f hinj ty a b ha hb h)
    · intro b hb
      obtain ⟨a, ha, rfl⟩ := List.mem_map.1 hb
      exact zipWith_mem_assigns D f hlt ty a ha
  · simp

/-- reading a re-indexed assignment at a list of positions = re-indexing the read values -/
theorem map_getD_zipWith (nodes ρ att : List Nat) (hρ : ρ ∈ assigns (nodes.map D))
    (hatt : ∀ v ∈ att, v < nodes.length) :
    att.map (fun v => (List.zipWith f nodes ρ)[v]?.getD 0) =
      List.zipWith f (att.map (fun v => nodes[v]?.getD 0)) (att.map (fun v => ρ[v]?.getD 0)) := by
  have hlen : ρ.length = nodes.length := by
    have := (mem_assigns.1 hρ).length_eq
    simpa using this
  induction att with
  | nil => rfl
  | cons v att ih =>
    have hv := hatt v (List.mem_cons_self ..)
    have hv' : v < ρ.length := by omega
    rw [List.map_cons, List.map_cons, List.map_cons, List.zipWith_cons_cons,
      ih (fun w hw => hatt w (List.mem_cons_of_mem _ hw))]
    congr 1
    rw [List.getElem?_zipWith, List.getElem?_eq_getElem hv, List.getElem?_eq_getElem hv']
    rfl

theorem mem_assigns_idx (nodes ρ att : List Nat)
    (hρ : ρ ∈ assigns (nodes.map D)) (hatt : ∀ v ∈ att, v < nodes.length) :
    att.map (fun v => ρ[v]?.getD 0) ∈ assigns ((att.map (fun v => nodes[v]?.getD 0)).map D) := by
  rw [mem_assigns] at hρ ⊢
  rw [List.map_map, List.forall₂_map_left_iff, List.forall₂_map_right_iff, List.forall₂_same]
  intro v hv
  have hv' := hatt v hv
  rw [List.forall₂_map_right_iff] at hρ
  have hlen := hρ.length_eq
  have := List.Forall₂.get hρ (i := v) (by omega) hv'
  simpa [List.getElem?_eq_getElem hv', List.getElem?_eq_getElem (show v < ρ.length by omega)] using this

end reindex

/-- **re-indexing the sum over assignments of one rule**: if the weights of all edge labels of `G'`/`x'` are
those of `G`/`x` read at re-indexed positions, then so is the value of the rule -/
theorem ruleCell_reindex (S : SR K) (hS : C01.SRLaws S) (G G' : Grammar K) (x x' : Val K) (r : Rule)
    (f : Nat → Nat → Nat) (hnls : G'.nls = G.nls)
    (hlt : ∀ lab i, i < G.dom lab → f lab i < G.dom lab)
    (hinj : ∀ lab i j, i < G.dom lab → j < G.dom lab → f lab i = f lab j → i = j)
    (hext : ∀ v ∈ r.ext, v < r.nodes.length) (hatt : ∀ e ∈ r.edges, ∀ v ∈ e.2, v < r.nodes.length)
    (hw : ∀ e ∈ r.edges, ∀ idx ∈ assigns (G.shapeOf (e.2.map (fun v => r.nodes[v]?.getD 0))),
      edgeWeight S G' x' e.1 idx =
        edgeWeight S G x e.1 (List.zipWith f (e.2.map (fun v => r.nodes[v]?.getD 0)) idx))
    (a : List Nat) (ha : a ∈ assigns (G.shapeOf (r.ext.map (fun v => r.nodes[v]?.getD 0)))) :
    ruleCell S G' x' r a =
      ruleCell S G x r (List.zipWith f (r.ext.map (fun v => r.nodes[v]?.getD 0)) a) := by
  unfold ruleCell
  rw [shapeOf_congr G G' hnls]
  unfold Grammar.shapeOf at ha hw ⊢
  have hperm := assigns_perm_zipWith G.dom f hlt hinj r.nodes
  conv_rhs => rw [C12.sum_perm S hS _ _ (((hperm.symm).filter _).map _), List.filter_map, List.map_map]
  have hfilt : List.filter ((fun ρ => List.map (fun v => ρ[v]?.getD 0) r.ext ==
          List.zipWith f (r.ext.map (fun v => r.nodes[v]?.getD 0)) a) ∘ List.zipWith f r.nodes)
        (assigns (r.nodes.map G.dom)) =
      List.filter (fun ρ => List.map (fun v => ρ[v]?.getD 0) r.ext == a) (assigns (r.nodes.map G.dom)) := by
    apply List.filter_congr
    intro ρ hρ
    simp only [Function.comp_def]
    rw [map_getD_zipWith G.dom f r.nodes ρ r.ext hρ hext]
    have hb := mem_assigns_idx G.dom r.nodes ρ r.ext hρ hext
    rw [Bool.eq_iff_iff, beq_iff_eq, beq_iff_eq]
    constructor
    · exact zipWith_inj G.dom f hinj _ _ _ hb ha
    · intro h; rw [h]
  rw [hfilt]
  congr 1
  apply List.map_congr_left
  intro ρ hρ
  have hρ' := (List.mem_filter.1 hρ).1
  simp only [Function.comp_def]
  congr 1
  apply List.map_congr_left
  intro e he
  rw [map_getD_zipWith G.dom f r.nodes ρ e.2 hρ' (hatt e he)]
  exact hw e he _ (mem_assigns_idx G.dom r.nodes ρ e.2 hρ' (hatt e he))

end C12bLemmas
