/-
Helper lemmas for Props/C06n.lean: a function applied along a dense, independent axis of a patterned tensor
(`It.alongDense` after `dim_to_dense`).
-/
import FggsModel.Iter
import FggsProofs.Props.C06
import FggsProofs.C06lIterLemmas
import Mathlib.Tactic.Linarith
import Mathlib.Data.List.Basic
import Mathlib.Data.List.Forall2

set_option linter.unusedSimpArgs false
set_option linter.unusedVariables false

namespace C06nL
open Fggs Fggs.Ax Fggs.Un Fggs.Sh Fggs.It C06b C06dL C06lL

/-! ### index tuples -/

theorem mem_assigns_get {shape c : List Nat} (h : c ∈ assigns shape) :
    c.length = shape.length ∧ ∀ (k a s : Nat), c[k]? = some a → shape[k]? = some s → a < s := by
  rw [mem_assigns_iff, List.forall₂_iff_get] at h
  refine ⟨h.1, ?_⟩
  intro k a s hc hs
  obtain ⟨h1, rfl⟩ := List.getElem?_eq_some_iff.1 hc
  obtain ⟨h2, rfl⟩ := List.getElem?_eq_some_iff.1 hs
  exact h.2 k h1 h2

theorem set_mem_assigns {shape c : List Nat} (h : c ∈ assigns shape) {k j s : Nat} (hs : shape[k]? = some s)
    (hj : j < s) : c.set k j ∈ assigns shape := by
  rw [mem_assigns_iff, List.forall₂_iff_get] at h ⊢
  refine ⟨by rw [List.length_set]; exact h.1, ?_⟩
  intro m h1 h2
  rw [List.length_set] at h1
  simp only [List.get_eq_getElem, List.getElem_set]
  by_cases e : k = m
  · subst e
    rw [if_pos rfl]
    obtain ⟨h3, rfl⟩ := List.getElem?_eq_some_iff.1 hs
    exact hj
  · rw [if_neg e]
    exact h.2 m h1 h2

/-- changing the assignment at the physical axis at position `i` changes the index tuple at position `i` only -/
theorem pidx_set {l : List (Nat × Nat)} (hn : (l.map (·.1)).Nodup) {i v n : Nat} (hi : i < l.length)
    (hli : l[i] = (v, n)) (ρ : Nat → Nat) (j : Nat) : (pidx l ρ).set i j = pidx l (ext ρ v j) := by
  apply List.ext_getElem?
  intro k
  unfold pidx
  rw [List.getElem?_set, List.getElem?_map, List.getElem?_map]
  by_cases hk : i = k
  · subst hk
    simp [hi, hli, ext]
  · rw [if_neg hk]
    cases hlk : l[k]? with
    | none => rfl
    | some p =>
      simp only [Option.map_some]
      obtain ⟨hk', rfl⟩ := List.getElem?_eq_some_iff.1 hlk
      have hne : l[k].1 ≠ v := by
        intro e
        apply hk
        have h1 : (l.map (·.1))[i]'(by simpa using hi) = (l.map (·.1))[k]'(by simpa using hk') := by
          simp [hli, e]
        exact (List.Nodup.getElem_inj_iff hn).1 h1
      simp [ext, hne]

/-- changing the assignment at a physical axis that is axis `dim` and occurs nowhere else changes coordinate `dim` only -/
theorem map_eval_set {vs : List Axis} {dim v n : Nat} (hv : vs[dim]? = some (.phys v n))
    (hind : ∀ j e', j ≠ dim → vs[j]? = some e' → ∀ q ∈ e'.fv, q.1 ≠ v) (ρ : Nat → Nat) (a : Nat) :
    vs.map (Axis.eval (ext ρ v a)) = (vs.map (Axis.eval ρ)).set dim a := by
  apply List.ext_getElem?
  intro k
  rw [List.getElem?_set, List.getElem?_map, List.getElem?_map]
  by_cases hk : dim = k
  · subst hk
    obtain ⟨hlt, _⟩ := List.getElem?_eq_some_iff.1 hv
    rw [hv, if_pos rfl, if_pos (by simpa using hlt)]
    simp [Axis.eval, ext]
  · rw [if_neg hk]
    cases hvk : vs[k]? with
    | none => rfl
    | some e =>
      simp only [Option.map_some]
      congr 1
      apply eval_congr
      intro q hq
      simp [ext, hind k e (Ne.symm hk) hvk q hq]

/-! ### the physical-axis case -/

/-- what `alongDense` returns when axis `dim` of `d` is the physical axis `(v, n)` -/
def alongT (f : List Ext → List Ext) (d : PT) (v n : Nat) : PT :=
  { d with
    physical := (Ax.assigns (d.paxes.map (·.2))).map (fun idx =>
      (f ((List.range n).map (fun j =>
        d.physical[Ax.flat (d.paxes.map (·.2)) (idx.set (d.paxes.findIdx (·.1 == v)) j)]?.getD d.default)))[
          idx[d.paxes.findIdx (·.1 == v)]?.getD 0]?.getD d.default),
    default := (f (List.replicate n d.default))[0]?.getD d.default }

theorem alongT_struct (f : List Ext → List Ext) {d : PT} (hs : Struct d) (v n : Nat) : Struct (alongT f d v n) :=
  ⟨by simp [alongT, length_assigns], hs.nodup, hs.no1, hs.fvsub, hs.occ⟩

theorem alongT_cell (f : List Ext → List Ext)
    (hconst : ∀ n c, ∀ i j, i < n → j < n → (f (List.replicate n c))[i]? = (f (List.replicate n c))[j]?)
    {d : PT} (hs : Struct d) {dim v n : Nat} (hv : d.vaxes[dim]? = some (.phys v n))
    (hind : ∀ j e', j ≠ dim → d.vaxes[j]? = some e' → ∀ q ∈ e'.fv, q.1 ≠ v)
    (idx : List Nat) (hidx : idx ∈ assigns d.vshape) :
    (alongT f d v n).dense[flat (alongT f d v n).vshape idx]? =
      some ((f ((List.range n).map (fun j => d.dense[flat d.vshape (idx.set dim j)]?.getD d.default)))[
        idx[dim]?.getD 0]?.getD d.default) := by
  have hS := (alongT_struct f hs v n).sem
  have hmemv : Axis.phys v n ∈ d.vaxes := List.mem_of_getElem? hv
  have hvn : (v, n) ∈ d.paxes := hs.fvsub (.phys v n) hmemv (v, n) (by simp [Axis.fv])
  have hex : ∃ x ∈ d.paxes, (fun x : Nat × Nat => x.1 == v) x = true := ⟨(v, n), hvn, by simp⟩
  have hlt := List.findIdx_lt_length_of_exists hex
  have hget := List.findIdx_getElem (w := hlt)
  have hpi : d.paxes[List.findIdx (fun x : Nat × Nat => x.1 == v) d.paxes] = (v, n) :=
    eq_of_mem_nodup_fst hs.nodup (List.getElem_mem hlt) hvn (by simpa using hget)
  have hshape : d.vshape[dim]? = some n := by
    unfold PT.vshape
    rw [List.getElem?_map, hv]
    rfl
  obtain ⟨hlen, hget'⟩ := mem_assigns_get hidx
  have hdimlt : dim < idx.length := by
    rw [hlen]
    exact (List.getElem?_eq_some_iff.1 hshape).1
  have ha : idx[dim] < n := hget' dim _ n (List.getElem?_eq_getElem hdimlt) hshape
  have hrange : ∀ (ρ : Nat → Nat) (j : Nat), j < n → (∀ p ∈ d.paxes, ρ p.1 < p.2) →
      ∀ p ∈ d.paxes, ext ρ v j p.1 < p.2 := by
    intro ρ j hj hρ p hp
    by_cases e : p.1 = v
    · have : p = (v, n) := eq_of_mem_nodup_fst hs.nodup hp hvn e
      subst this
      simpa [ext] using hj
    · simp only [ext, e, if_false]
      exact hρ p hp
  by_cases hb : ∃ ρ, Backs d idx ρ
  · obtain ⟨ρ, hb⟩ := hb
    have hbR : Backs (alongT f d v n) idx ρ := hb
    have hb' : ∀ j, j < n → Backs d (idx.set dim j) (ext ρ v j) := by
      intro j hj
      refine ⟨hrange ρ j hj hb.1, ?_⟩
      rw [map_eval_set hv hind, hb.2]
    have hpm : pidx d.paxes ρ ∈ assigns (d.paxes.map (·.2)) := pidx_mem_assigns ρ _ hb.1
    rw [dense_backed hS hbR]
    show some ((List.map _ (assigns (d.paxes.map (·.2))))[flat (d.paxes.map (·.2)) (pidx d.paxes ρ)]?.getD _) = _
    rw [List.getElem?_map, getElem_flat hpm]
    simp only [Option.map_some, Option.getD_some]
    have e1 : (pidx d.paxes ρ)[List.findIdx (fun x : Nat × Nat => x.1 == v) d.paxes]? = some (ρ v) := by
      unfold pidx
      rw [List.getElem?_map, List.getElem?_eq_getElem hlt, hpi]
      rfl
    have e2 : idx[dim]? = some (ρ v) := by
      rw [← hb.2, List.getElem?_map, hv]
      rfl
    have e3 : (List.range n).map (fun j => d.physical[flat (d.paxes.map (·.2))
          ((pidx d.paxes ρ).set (List.findIdx (fun x : Nat × Nat => x.1 == v) d.paxes) j)]?.getD d.default) =
        (List.range n).map (fun j => d.dense[flat d.vshape (idx.set dim j)]?.getD d.default) := by
      apply List.map_congr_left
      intro j hj
      have hj' : j < n := by simpa using hj
      rw [pidx_set hs.nodup hlt hpi, dense_backed hs.sem (hb' j hj')]
      rfl
    rw [e1, e2, e3]
  · have hnD : ∀ ρ, ¬ Backs d idx ρ := fun ρ h => hb ⟨ρ, h⟩
    have hnR : ∀ ρ, ¬ Backs (alongT f d v n) idx ρ := hnD
    have hidxR : idx ∈ assigns (alongT f d v n).vshape := hidx
    have hnD' : ∀ j, j < n → ∀ ρ, ¬ Backs d (idx.set dim j) ρ := by
      intro j hj ρ hbj
      apply hnD (ext ρ v idx[dim])
      refine ⟨hrange ρ _ ha hbj.1, ?_⟩
      rw [map_eval_set hv hind, hbj.2, List.set_set, List.set_getElem_self]
    have e3 : (List.range n).map (fun j => d.dense[flat d.vshape (idx.set dim j)]?.getD d.default) =
        List.replicate n d.default := by
      rw [List.eq_replicate_iff]
      refine ⟨by simp, ?_⟩
      intro x hx
      obtain ⟨j, hj, rfl⟩ := List.mem_map.1 hx
      have hj' : j < n := by simpa using hj
      rw [dense_unbacked hs.sem (set_mem_assigns hidx hshape hj') (hnD' j hj')]
      rfl
    rw [dense_unbacked hS hidxR hnR, e3, List.getElem?_eq_getElem hdimlt]
    show some ((f (List.replicate n d.default))[0]?.getD d.default) = _
    simp only [Option.getD_some]
    rw [hconst n d.default idx[dim] 0 ha (by omega)]

/-! ### the unit-axis case -/

theorem unit_cell (f : List Ext → List Ext) (hlen : ∀ l, (f l).length = l.length)
    {d : PT} {dim : Nat} {e : Axis} (hv : d.vaxes[dim]? = some e) (hu : isUnit e = true)
    (idx : List Nat) (hidx : idx ∈ assigns d.vshape) :
    (PT.map (fun x => (f [x])[0]?.getD x) ((f [d.default])[0]?.getD d.default) d).dense[flat d.vshape idx]? =
      some ((f ((List.range (d.vshape[dim]?.getD 0)).map
        (fun j => d.dense[flat d.vshape (idx.set dim j)]?.getD d.default)))[idx[dim]?.getD 0]?.getD d.default) := by
  have heu : e = unitAxis := by
    cases e with
    | prod fs => cases fs with
      | nil => rfl
      | cons _ _ => simp [isUnit] at hu
    | phys _ _ => simp [isUnit] at hu
    | sum _ _ _ => simp [isUnit] at hu
  subst heu
  have hshape : d.vshape[dim]? = some 1 := by
    unfold PT.vshape
    rw [List.getElem?_map, hv]
    rfl
  obtain ⟨hl, hget'⟩ := mem_assigns_get hidx
  have hdimlt : dim < idx.length := by
    rw [hl]
    exact (List.getElem?_eq_some_iff.1 hshape).1
  have ha : idx[dim] < 1 := hget' dim _ 1 (List.getElem?_eq_getElem hdimlt) hshape
  have ha0 : idx[dim] = 0 := by omega
  have hset : idx.set dim 0 = idx := by rw [← ha0, List.set_getElem_self]
  have hlt : flat d.vshape idx < d.dense.length := by rw [length_dense]; exact flat_lt hidx
  rw [C06.dense_map d (fun x => (f [x])[0]?.getD x), List.getElem?_map, hshape, List.getElem?_eq_getElem hdimlt, ha0]
  simp only [Option.getD_some, List.range_one, List.map_cons, List.map_nil, hset, List.getElem?_eq_getElem hlt,
    Option.map_some]
  have h1 : 0 < (f [d.dense[flat d.vshape idx]]).length := by rw [hlen]; simp
  rw [List.getElem?_eq_getElem h1]
  rfl

end C06nL
