/-
Helper lemmas for Props/C06g.lean, part 1: `permute`, `transpose`, `T`, `flatten`, `unsqueeze` of FggsModel/ShapeOps.lean.
-/
import FggsModel.ShapeOps
import FggsProofs.Props.C06
import FggsProofs.C06dBaseLemmas
import FggsProofs.C06dSideLemmas
import Mathlib.Tactic.Linarith
import Mathlib.Data.List.Basic
import Mathlib.Data.List.Perm.Subperm
import Mathlib.Data.List.Forall2

set_option linter.unusedSimpArgs false
set_option linter.unusedVariables false

namespace C06gL
open Fggs Fggs.Ax Fggs.Un Fggs.Sh C06b C06dL

/-! ### cells of two tensors with the same backing assignments -/

/-- two tensors over the same physical data whose cells `c'` / `c` are backed by the same assignments hold the same
value there -/
theorem cell_eq_of_backs {R T : PT} (hR : Sem R) (hT : Sem T) (hph : R.physical = T.physical) (hpa : R.paxes = T.paxes)
    (hd : R.default = T.default) {c' c : List Nat} (hc' : c' ∈ assigns R.vshape) (hc : c ∈ assigns T.vshape)
    (hb : ∀ ρ, Backs R c' ρ ↔ Backs T c ρ) :
    R.dense[flat R.vshape c']? = T.dense[flat T.vshape c]? := by
  by_cases h : ∃ ρ, Backs T c ρ
  · obtain ⟨ρ, hρ⟩ := h
    rw [dense_backed hT hρ, dense_backed hR ((hb ρ).2 hρ), hph, hpa, hd]
  · have h0 : ∀ ρ, ¬ Backs T c ρ := fun ρ hρ => h ⟨ρ, hρ⟩
    rw [dense_unbacked hT hc h0, dense_unbacked hR hc' (fun ρ hρ => h0 ρ ((hb ρ).1 hρ)), hd]

theorem numel_map_numel : ∀ (es : List Axis), numel (es.map Axis.numel) = numelList es
  | [] => by simp [numel_nil, numelList]
  | e :: es => by rw [List.map_cons, numel_cons, numel_map_numel es, numelList]

/-! ### permute -/

theorem permute_check_iff (n : Nat) (dims : List Nat) :
    (dims.length != n || !(List.range dims.length).all (dims.contains ·)) = false ↔ dims.Perm (List.range n) := by
  constructor
  · intro h
    simp only [Bool.or_eq_false_iff, bne_eq_false_iff_eq, Bool.not_eq_false', List.all_eq_true, List.mem_range,
      List.contains_iff_mem] at h
    obtain ⟨hl, hall⟩ := h
    rw [hl] at hall
    have hsub : List.range n ⊆ dims := fun i hi => hall i (List.mem_range.1 hi)
    have hsp := List.subperm_of_subset List.nodup_range hsub
    exact (hsp.perm_of_length_le (by simp [hl])).symm
  · intro h
    have hl : dims.length = n := by simpa using h.length_eq
    simp only [Bool.or_eq_false_iff, bne_eq_false_iff_eq, Bool.not_eq_false', List.all_eq_true, List.mem_range,
      List.contains_iff_mem]
    refine ⟨hl, fun i hi => ?_⟩
    exact h.mem_iff.2 (List.mem_range.2 (hl ▸ hi))

theorem permute_of_perm (t : PT) (dims : List Nat) (hp : dims.Perm (List.range t.vaxes.length)) :
    permute t dims = some { t with vaxes := dims.map (fun i => t.vaxes[i]?.getD unitAxis) } := by
  unfold permute
  rw [(permute_check_iff _ _).2 hp]
  rfl

theorem permute_of_not_perm (t : PT) (dims : List Nat) (hp : ¬ dims.Perm (List.range t.vaxes.length)) :
    permute t dims = none := by
  unfold permute
  have : (dims.length != t.vaxes.length || !(List.range dims.length).all (dims.contains ·)) = true := by
    cases h : (dims.length != t.vaxes.length || !(List.range dims.length).all (dims.contains ·)) with
    | true => rfl
    | false => exact absurd ((permute_check_iff _ _).1 h) hp
  rw [this]
  rfl

/-- the permuted tensor -/
def permuted (t : PT) (dims : List Nat) : PT := { t with vaxes := dims.map (fun i => t.vaxes[i]?.getD unitAxis) }

section perm
variable {t : PT} {dims : List Nat}

theorem mem_dims (hp : dims.Perm (List.range t.vaxes.length)) {i : Nat} : i ∈ dims ↔ i < t.vaxes.length := by
  rw [hp.mem_iff, List.mem_range]

theorem permuted_struct (h : Struct t) (hp : dims.Perm (List.range t.vaxes.length)) : Struct (permuted t dims) where
  len := h.len
  nodup := h.nodup
  no1 := h.no1
  fvsub := by
    intro e he q hq
    obtain ⟨i, hi, rfl⟩ := List.mem_map.1 he
    have hi' := (mem_dims hp).1 hi
    rw [List.getElem?_eq_getElem hi'] at hq
    exact h.fvsub _ (List.getElem_mem hi') q hq
  occ := by
    intro p hp'
    obtain ⟨e, he, hpe⟩ := h.occ p hp'
    obtain ⟨i, hi, rfl⟩ := List.getElem_of_mem he
    refine ⟨_, List.mem_map.2 ⟨i, (mem_dims hp).2 hi, rfl⟩, ?_⟩
    rw [List.getElem?_eq_getElem hi]
    exact hpe

theorem permuted_vshape (hp : dims.Perm (List.range t.vaxes.length)) :
    (permuted t dims).vshape = dims.map (fun i => t.vshape[i]?.getD 0) := by
  unfold permuted PT.vshape
  rw [List.map_map]
  apply List.map_congr_left
  intro i hi
  have hi' := (mem_dims hp).1 hi
  simp [List.getElem?_eq_getElem hi', hi']

theorem permuted_backs (hp : dims.Perm (List.range t.vaxes.length)) {idx : List Nat}
    (hl : idx.length = t.vaxes.length) (ρ : Nat → Nat) :
    Backs (permuted t dims) (dims.map (fun i => idx[i]?.getD 0)) ρ ↔ Backs t idx ρ := by
  unfold Backs
  refine and_congr Iff.rfl ?_
  show (dims.map (fun i => t.vaxes[i]?.getD unitAxis)).map (Axis.eval ρ) = _ ↔ _
  rw [List.map_map]
  constructor
  · intro he
    apply List.ext_getElem (by simp [hl])
    intro i h1 h2
    have hi : i < t.vaxes.length := by simpa using h1
    have := List.map_inj_left.1 he i ((mem_dims hp).2 hi)
    simp only [Function.comp, List.getElem?_eq_getElem hi, Option.getD_some, List.getElem?_eq_getElem h2] at this
    simpa using this
  · intro he
    apply List.map_congr_left
    intro i hi
    have hi' := (mem_dims hp).1 hi
    have h2 : i < idx.length := by omega
    simp only [Function.comp, List.getElem?_eq_getElem hi', Option.getD_some, List.getElem?_eq_getElem h2]
    have := congrArg (fun l => l[i]?) he
    simp only [List.getElem?_map, List.getElem?_eq_getElem hi', List.getElem?_eq_getElem h2, Option.map_some] at this
    simpa using this

theorem permuted_mem_assigns (hp : dims.Perm (List.range t.vaxes.length)) {idx : List Nat}
    (hi : idx ∈ assigns t.vshape) :
    dims.map (fun i => idx[i]?.getD 0) ∈ assigns (permuted t dims).vshape := by
  rw [permuted_vshape hp, mem_assigns_iff, List.forall₂_map_left_iff, List.forall₂_map_right_iff, List.forall₂_same]
  intro i hi'
  have h1 := (mem_dims hp).1 hi'
  have hf := (mem_assigns_iff _ _).1 hi
  have hl : idx.length = t.vshape.length := hf.length_eq
  have h2 : i < t.vshape.length := by simpa [PT.vshape] using h1
  have h3 : i < idx.length := by omega
  rw [List.getElem?_eq_getElem h3, List.getElem?_eq_getElem h2]
  simp only [Option.getD_some]
  exact List.forall₂_iff_get.1 hf |>.2 i h3 h2

theorem permuted_cell (h : Struct t) (hp : dims.Perm (List.range t.vaxes.length)) {idx : List Nat}
    (hi : idx ∈ assigns t.vshape) :
    (permuted t dims).dense[flat (permuted t dims).vshape (dims.map (fun i => idx[i]?.getD 0))]? =
      t.dense[flat t.vshape idx]? := by
  have hl : idx.length = t.vaxes.length := by
    have := mem_assigns_length hi
    simpa [PT.vshape] using this
  exact cell_eq_of_backs (permuted_struct h hp).sem h.sem rfl rfl rfl (permuted_mem_assigns hp hi) hi
    (permuted_backs hp hl)

end perm

/-! ### transpose, T -/

theorem map_getElem_range (l : List Axis) : (List.range l.length).map (fun i => l[i]?.getD unitAxis) = l := by
  apply List.ext_getElem (by simp)
  intro i h1 h2
  simp [List.getElem?_eq_getElem h2]

/-- the swap of two dimensions -/
def swp (d0 d1 i : Nat) : Nat := if i = d0 then d1 else if i = d1 then d0 else i

theorem swp_swp (d0 d1 i : Nat) : swp d0 d1 (swp d0 d1 i) = i := by
  unfold swp; split_ifs <;> omega

theorem swp_lt {d0 d1 n i : Nat} (h0 : d0 < n) (h1 : d1 < n) (hi : i < n) : swp d0 d1 i < n := by
  unfold swp; split_ifs <;> omega

theorem swp_perm {d0 d1 n : Nat} (h0 : d0 < n) (h1 : d1 < n) :
    ((List.range n).map (swp d0 d1)).Perm (List.range n) := by
  have hsub : List.range n ⊆ (List.range n).map (swp d0 d1) := by
    intro i hi
    rw [List.mem_range] at hi
    exact List.mem_map.2 ⟨swp d0 d1 i, List.mem_range.2 (swp_lt h0 h1 hi), swp_swp d0 d1 i⟩
  have hsp := List.subperm_of_subset List.nodup_range hsub
  exact (hsp.perm_of_length_le (by simp)).symm

theorem transpose_list (l : List Axis) (a b : Nat) (hab : a < b) (hb : b < l.length) :
    l.take a ++ (l.drop b).take 1 ++ (l.take b).drop (a + 1) ++ (l.drop a).take 1 ++ l.drop (b + 1) =
      (List.range l.length).map (fun i => l[swp a b i]?.getD unitAxis) := by
  apply List.ext_getElem
  · simp; omega
  · intro i h1 h2
    have hi : i < l.length := by simpa using h2
    simp only [List.getElem_map, List.getElem_range]
    have hs := swp_lt (Nat.lt_trans hab hb) hb hi
    rw [List.getElem?_eq_getElem hs, Option.getD_some]
    rw [← Option.some_inj, ← List.getElem?_eq_getElem h1]
    unfold swp at hs ⊢
    simp only [List.append_assoc]
    by_cases c1 : i < a
    · rw [List.getElem?_append_left (by simp; omega), List.getElem?_take_of_lt c1,
        List.getElem?_eq_getElem hi]
      congr 1
      split_ifs <;> first | rfl | omega
    · rw [List.getElem?_append_right (by simp; omega)]
      simp only [List.length_take, Nat.min_eq_left (Nat.le_of_lt (Nat.lt_trans hab hb))]
      by_cases c2 : i = a
      · subst c2
        rw [List.getElem?_append_left (by simp; omega)]
        simp only [Nat.sub_self, if_true]
        rw [List.getElem?_take_of_lt (by omega), List.getElem?_drop]
        simp [List.getElem?_eq_getElem hb]
      · rw [List.getElem?_append_right (by simp; omega)]
        have l1 : ((l.drop b).take 1).length = 1 := by simp; omega
        rw [l1]
        by_cases c3 : i < b
        · rw [List.getElem?_append_left (by simp; omega), List.getElem?_drop,
            List.getElem?_take_of_lt (by omega)]
          have : a + 1 + (i - a - 1) = i := by omega
          rw [this, List.getElem?_eq_getElem hi]
          congr 1
          split_ifs <;> first | rfl | omega
        · rw [List.getElem?_append_right (by simp; omega)]
          have l2 : ((l.take b).drop (a + 1)).length = b - (a + 1) := by simp; omega
          rw [l2]
          by_cases c4 : i = b
          · subst c4
            rw [List.getElem?_append_left (by simp; omega)]
            have : i - a - 1 - (i - (a + 1)) = 0 := by omega
            rw [this, List.getElem?_take_of_lt (by omega), List.getElem?_drop]
            simp only [Nat.add_zero]
            rw [List.getElem?_eq_getElem (Nat.lt_trans hab hb)]
            congr 1
            split_ifs; rfl
          · rw [List.getElem?_append_right (by simp; omega)]
            have l3 : ((l.drop a).take 1).length = 1 := by simp; omega
            rw [l3, List.getElem?_drop]
            have : b + 1 + (i - a - 1 - (b - (a + 1)) - 1) = i := by omega
            rw [this, List.getElem?_eq_getElem hi]
            congr 1
            split_ifs; rfl

theorem swp_comm (d0 d1 : Nat) : swp d0 d1 = swp d1 d0 := by
  funext i; unfold swp; split_ifs <;> simp_all

theorem swp_self (d i : Nat) : swp d d i = i := by
  unfold swp; split_ifs <;> simp_all

theorem transpose_eq (t : PT) (d0 d1 : Nat) (h0 : d0 < t.vaxes.length) (h1 : d1 < t.vaxes.length) :
    transpose t d0 d1 = permute t ((List.range t.vaxes.length).map (swp d0 d1)) := by
  rw [permute_of_perm t _ (swp_perm h0 h1), List.map_map]
  unfold transpose
  by_cases e : d0 = d1
  · subst e
    simp only [beq_self_eq_true, if_true]
    have : ((fun i => t.vaxes[i]?.getD unitAxis) ∘ swp d0 d0) = fun i => t.vaxes[i]?.getD unitAxis := by
      funext i; simp [swp_self]
    rw [this, map_getElem_range]
  · have : (d0 == d1) = false := by simpa using e
    simp only [this, Bool.false_eq_true, if_false]
    rw [if_neg (by omega)]
    congr 2
    rcases Nat.lt_or_gt_of_ne e with hlt | hgt
    · rw [Nat.min_eq_left (Nat.le_of_lt hlt), Nat.max_eq_right (Nat.le_of_lt hlt)]
      exact transpose_list t.vaxes d0 d1 hlt h1
    · rw [Nat.min_eq_right (Nat.le_of_lt hgt), Nat.max_eq_left (Nat.le_of_lt hgt), swp_comm]
      exact transpose_list t.vaxes d1 d0 hgt h0

theorem transposeAll_eq (t : PT) :
    some (transposeAll t) = permute t (List.range t.vaxes.length).reverse := by
  rw [permute_of_perm t _ (List.reverse_perm _)]
  unfold transposeAll
  rw [List.map_reverse, map_getElem_range]

/-! ### flatten, unsqueeze -/

theorem sh_flatten_eq (t : PT) : Sh.flatten t = t.flatten := by
  unfold Sh.flatten PT.flatten
  rcases hv : t.vaxes with _ | ⟨e, _ | ⟨f, fs⟩⟩ <;> simp

theorem flatten_struct {t : PT} (h : Struct t) : Struct (Sh.flatten t) := by
  unfold Sh.flatten
  split
  · exact h
  · refine ⟨h.len, h.nodup, h.no1, ?_, ?_⟩
    · intro e he q hq
      simp only [List.mem_singleton] at he
      subst he
      obtain ⟨f, hf, hqf⟩ := (mem_fv_productAxis _).1 hq
      exact h.fvsub f hf q hqf
    · intro p hp
      obtain ⟨e, he, hpe⟩ := h.occ p hp
      exact ⟨_, List.mem_singleton.2 rfl, (mem_fv_productAxis _).2 ⟨e, he, hpe⟩⟩

theorem flatten_vshape (t : PT) :
    (Sh.flatten t).vshape = (if t.vaxes.length = 1 then t.vshape else [numel t.vshape]) := by
  unfold Sh.flatten
  by_cases h : t.vaxes.length = 1
  · simp [h]
  · have : (t.vaxes.length == 1) = false := by simpa using h
    simp only [this, Bool.false_eq_true, if_false, h]
    simp only [PT.vshape, List.map_cons, List.map_nil, C06.productAxis_numel, Axis.numel, numel_map_numel]

theorem sh_unsqueeze_eq (t : PT) (d : Nat) : Sh.unsqueeze t d = t.unsqueeze d := rfl

theorem unsqueeze_struct {t : PT} (h : Struct t) (d : Nat) : Struct (Sh.unsqueeze t d) := by
  unfold Sh.unsqueeze
  refine ⟨h.len, h.nodup, h.no1, ?_, ?_⟩
  · intro e he q hq
    simp only [List.mem_append, List.mem_singleton] at he
    rcases he with (he | he) | he
    · exact h.fvsub e (List.mem_of_mem_take he) q hq
    · subst he; simp [unitAxis_fv] at hq
    · exact h.fvsub e (List.mem_of_mem_drop he) q hq
  · intro p hp
    obtain ⟨e, he, hpe⟩ := h.occ p hp
    refine ⟨e, ?_, hpe⟩
    rw [← List.take_append_drop d t.vaxes] at he
    simp only [List.mem_append, List.mem_singleton] at he ⊢
    rcases he with he | he
    · exact .inl (.inl he)
    · exact .inr he

theorem unsqueeze_vshape (t : PT) (d : Nat) :
    (Sh.unsqueeze t d).vshape = t.vshape.take d ++ [1] ++ t.vshape.drop d := by
  unfold Sh.unsqueeze PT.vshape
  simp [List.map_take, List.map_drop, unitAxis_numel]

end C06gL
