/-
Helper lemmas for Props/C06q.lean: a reduction along a dense, independent axis of a patterned tensor
(`It.reduceDense` after `dim_to_dense`).

The virtual axes of the dense-at-`dim` tensor `d` are split as `A ++ [x] ++ B` (`x` the reduced axis, `A.length = dim`);
the result has the virtual axes `A ++ U ++ B` with `U = []` (no keepdim) or `U = [unitAxis]` (keepdim).
-/
import FggsModel.Iter
import FggsProofs.Props.C06
import FggsProofs.C06lIterLemmas
import FggsProofs.C06nLemmas
import Mathlib.Tactic.Linarith
import Mathlib.Data.List.Basic
import Mathlib.Data.List.Forall2

set_option linter.unusedSimpArgs false
set_option linter.unusedVariables false

namespace C06qL
open Fggs Fggs.Ax Fggs.Un Fggs.Sh Fggs.It C06b C06dL C06lL C06nL

/-! ### unit axes -/

/-- every axis of the list is the unit axis -/
def Units (U : List Axis) : Prop := ∀ e ∈ U, e = unitAxis

theorem units_eval {U : List Axis} (hU : Units U) (ρ : Nat → Nat) :
    U.map (Axis.eval ρ) = List.replicate U.length 0 := by
  rw [List.eq_replicate_iff]
  refine ⟨by simp, ?_⟩
  intro x hx
  obtain ⟨e, he, rfl⟩ := List.mem_map.1 hx
  rw [hU e he, unitAxis_eval]

theorem units_numel {U : List Axis} (hU : Units U) : U.map Axis.numel = List.replicate U.length 1 := by
  rw [List.eq_replicate_iff]
  refine ⟨by simp, ?_⟩
  intro x hx
  obtain ⟨e, he, rfl⟩ := List.mem_map.1 hx
  rw [hU e he, unitAxis_numel]

theorem zeros_mem_assigns : ∀ k : Nat, List.replicate k 0 ∈ assigns (List.replicate k 1)
  | 0 => by simp [assigns]
  | k + 1 => by
    rw [mem_assigns_iff, List.replicate_succ, List.replicate_succ]
    exact List.Forall₂.cons (by omega) ((mem_assigns_iff _ _).1 (zeros_mem_assigns k))

/-! ### index tuples of a concatenated shape -/

theorem forall₂_app {α β : Type} {R : α → β → Prop} {a : List α} {b : List β} {c : List α} {d : List β}
    (h1 : List.Forall₂ R a b) (h2 : List.Forall₂ R c d) : List.Forall₂ R (a ++ c) (b ++ d) := by
  induction h1 with
  | nil => exact h2
  | cons h _ ih => exact List.Forall₂.cons h ih

theorem mem_assigns_append {s1 s2 c1 c2 : List Nat} (h1 : c1 ∈ assigns s1) (h2 : c2 ∈ assigns s2) :
    c1 ++ c2 ∈ assigns (s1 ++ s2) := by
  rw [mem_assigns_iff] at *
  exact forall₂_app h1 h2

theorem mem_assigns_split {s1 s2 c : List Nat} (h : c ∈ assigns (s1 ++ s2)) :
    c.take s1.length ∈ assigns s1 ∧ c.drop s1.length ∈ assigns s2 := by
  rw [mem_assigns_iff] at h
  constructor
  · rw [mem_assigns_iff]
    have := List.forall₂_take s1.length h
    simpa using this
  · rw [mem_assigns_iff]
    have := List.forall₂_drop s1.length h
    simpa using this

theorem singleton_mem_assigns {j n : Nat} (hj : j < n) : [j] ∈ assigns [n] := by
  rw [mem_assigns_iff]
  exact List.Forall₂.cons hj List.Forall₂.nil

/-! ### the virtual index of a split list of axes -/

theorem map_eval_units {A U B : List Axis} {cA cB : List Nat} {ρ : Nat → Nat} (hU : Units U)
    (hA : cA.length = A.length) :
    (A ++ U ++ B).map (Axis.eval ρ) = cA ++ List.replicate U.length 0 ++ cB ↔
      A.map (Axis.eval ρ) = cA ∧ B.map (Axis.eval ρ) = cB := by
  rw [List.map_append, List.map_append, units_eval hU, List.append_assoc, List.append_assoc]
  constructor
  · intro h
    obtain ⟨h1, h2⟩ := List.append_inj h (by simp [hA])
    exact ⟨h1, List.append_cancel_left h2⟩
  · rintro ⟨h1, h2⟩
    rw [h1, h2]

theorem map_eval_mid {A B : List Axis} {x : Axis} {cA cB : List Nat} {j : Nat} {ρ : Nat → Nat}
    (hA : cA.length = A.length) :
    (A ++ [x] ++ B).map (Axis.eval ρ) = cA ++ [j] ++ cB ↔
      A.map (Axis.eval ρ) = cA ∧ x.eval ρ = j ∧ B.map (Axis.eval ρ) = cB := by
  rw [List.map_append, List.map_append, List.append_assoc, List.append_assoc]
  constructor
  · intro h
    obtain ⟨h1, h2⟩ := List.append_inj h (by simp [hA])
    simp only [List.map_cons, List.map_nil, List.singleton_append, List.cons.injEq] at h2
    exact ⟨h1, h2.1, h2.2⟩
  · rintro ⟨h1, h2, h3⟩
    rw [h1, h3]
    simp [h2]

/-! ### the physical-axis case -/

/-- what `reduceDense` builds (before `normalize`) when the reduced axis of `d` is the physical axis at position `i`
of size `n`; `vaxes'` are the remaining virtual axes -/
def reduceT (g : List Ext → Ext) (d : PT) (vaxes' : List Axis) (i n : Nat) : PT :=
  { physical := (Ax.assigns ((d.paxes.eraseIdx i).map (·.2))).map (fun idx =>
      g ((List.range n).map (fun j =>
        d.physical[Ax.flat (d.paxes.map (·.2)) (idx.take i ++ [j] ++ idx.drop i)]?.getD d.default))),
    paxes := d.paxes.eraseIdx i, vaxes := vaxes', default := g (List.replicate n d.default) }

section
variable {g : List Ext → Ext} {d : PT} {v n : Nat} {A B U : List Axis} {P Q : List (Nat × Nat)}

theorem reduceT_struct (hs : Struct d) (hv : d.vaxes = A ++ [.phys v n] ++ B)
    (hind : ∀ e' ∈ A ++ B, ∀ q ∈ e'.fv, q.1 ≠ v) (hU : Units U) (hp : d.paxes = P ++ [(v, n)] ++ Q) :
    Struct (reduceT g d (A ++ U ++ B) P.length n) := by
  have hvn := v_not_mem hs hp
  have hsub : ∀ e ∈ A ++ B, e ∈ d.vaxes := by
    intro e he
    rw [hv]
    simp only [List.mem_append, List.mem_singleton] at he ⊢
    tauto
  refine ⟨?_, ?_, ?_, ?_, ?_⟩
  · simp [reduceT, length_assigns]
  · show ((d.paxes.eraseIdx P.length).map (·.1)).Nodup
    exact hs.nodup.sublist ((List.eraseIdx_sublist _ _).map _)
  · intro p hp'
    exact hs.no1 p (List.mem_of_mem_eraseIdx hp')
  · intro e he q hq
    show q ∈ d.paxes.eraseIdx P.length
    rw [eraseIdx_mid hp]
    have he' : e ∈ A ++ U ++ B := he
    have hAB : e ∈ A ++ B := by
      simp only [List.mem_append] at he' ⊢
      rcases he' with (h | h) | h
      · exact Or.inl h
      · rw [hU e h, unitAxis_fv] at hq
        simp at hq
      · exact Or.inr h
    have hq' := hs.fvsub e (hsub e hAB) q hq
    rcases (mem_paxes_iff hp q).1 hq' with h | h
    · exact absurd (by rw [h]) (hind e hAB q hq)
    · exact h
  · intro p hp'
    have hp'' : p ∈ P ++ Q := by rw [← eraseIdx_mid hp]; exact hp'
    obtain ⟨e, he, hpe⟩ := hs.occ p ((mem_paxes_iff hp p).2 (Or.inr hp''))
    rw [hv] at he
    show ∃ e ∈ A ++ U ++ B, p ∈ e.fv
    simp only [List.mem_append, List.mem_singleton] at he
    rcases he with (h | h) | h
    · exact ⟨e, by simp [h], hpe⟩
    · subst h
      simp only [Axis.fv, List.mem_singleton] at hpe
      exact absurd (by rw [hpe]) (hvn p hp'')
    · exact ⟨e, by simp [h], hpe⟩

theorem reduceT_cell (hs : Struct d) (hv : d.vaxes = A ++ [.phys v n] ++ B)
    (hind : ∀ e' ∈ A ++ B, ∀ q ∈ e'.fv, q.1 ≠ v) (hU : Units U) (hp : d.paxes = P ++ [(v, n)] ++ Q)
    (cA cB : List Nat) (hcA : cA ∈ assigns (A.map Axis.numel)) (hcB : cB ∈ assigns (B.map Axis.numel)) :
    (reduceT g d (A ++ U ++ B) P.length n).dense[flat (reduceT g d (A ++ U ++ B) P.length n).vshape
        (cA ++ List.replicate U.length 0 ++ cB)]? =
      some (g ((List.range n).map (fun j => d.dense[flat d.vshape (cA ++ [j] ++ cB)]?.getD d.default))) := by
  have hst := reduceT_struct (g := g) hs hv hind hU hp
  have hS := hst.sem
  have hvn := v_not_mem hs hp
  have hpx : (reduceT g d (A ++ U ++ B) P.length n).paxes = P ++ Q := eraseIdx_mid hp
  have hAl : cA.length = A.length := by rw [mem_assigns_length hcA, List.length_map]
  have hcongA : ∀ (ρ : Nat → Nat) (r : Nat), A.map (Axis.eval (ext ρ v r)) = A.map (Axis.eval ρ) := by
    intro ρ r
    apply List.map_congr_left
    intro e he
    apply eval_congr
    intro q hq
    simp [ext, hind e (List.mem_append_left _ he) q hq]
  have hcongB : ∀ (ρ : Nat → Nat) (r : Nat), B.map (Axis.eval (ext ρ v r)) = B.map (Axis.eval ρ) := by
    intro ρ r
    apply List.map_congr_left
    intro e he
    apply eval_congr
    intro q hq
    simp [ext, hind e (List.mem_append_right _ he) q hq]
  have hdv : d.vshape = A.map Axis.numel ++ [n] ++ B.map Axis.numel := by
    unfold PT.vshape; rw [hv]; simp [Axis.numel]
  have hRv : (reduceT g d (A ++ U ++ B) P.length n).vshape =
      A.map Axis.numel ++ List.replicate U.length 1 ++ B.map Axis.numel := by
    show (A ++ U ++ B).map Axis.numel = _
    rw [List.map_append, List.map_append, units_numel hU]
  by_cases hex : ∃ ρ, Backs (reduceT g d (A ++ U ++ B) P.length n) (cA ++ List.replicate U.length 0 ++ cB) ρ
  · obtain ⟨ρ, hb⟩ := hex
    have hb1 : ∀ p ∈ P ++ Q, ρ p.1 < p.2 := fun p hp' => hb.1 p (by rw [hpx]; exact hp')
    obtain ⟨hbA, hbB⟩ := (map_eval_units hU hAl).1 hb.2
    have hb' : ∀ j, j < n → Backs d (cA ++ [j] ++ cB) (ext ρ v j) := by
      intro j hj
      constructor
      · intro p hp'
        rcases (mem_paxes_iff hp p).1 hp' with rfl | h
        · simpa [ext] using hj
        · have := hvn p h
          simp only [ext, this, if_false]
          exact hb1 p h
      · rw [hv, map_eval_mid hAl, hcongA, hcongB]
        exact ⟨hbA, by simp [Axis.eval, ext], hbB⟩
    rw [dense_backed hS hb]
    congr 1
    have hidx : pidx (P ++ Q) ρ ∈ assigns ((P ++ Q).map (·.2)) := pidx_mem_assigns ρ _ hb1
    have hph : (reduceT g d (A ++ U ++ B) P.length n).physical[flat ((P ++ Q).map (·.2)) (pidx (P ++ Q) ρ)]? =
        some (g ((List.range n).map (fun j => d.physical[flat (d.paxes.map (·.2))
          ((pidx (P ++ Q) ρ).take P.length ++ [j] ++ (pidx (P ++ Q) ρ).drop P.length)]?.getD d.default))) := by
      show (List.map _ (assigns ((d.paxes.eraseIdx P.length).map (·.2))))[_]? = _
      rw [eraseIdx_mid hp, List.getElem?_map, getElem_flat hidx]
      rfl
    rw [hpx, hph]
    simp only [Option.getD_some]
    congr 1
    apply List.map_congr_left
    intro j hj
    have hj' : j < n := by simpa using hj
    have e1 : (pidx (P ++ Q) ρ).take P.length = pidx P ρ := by
      rw [pidx_append]
      have : P.length = (pidx P ρ).length := by simp [pidx]
      rw [this, take_append_length]
    have e2 : (pidx (P ++ Q) ρ).drop P.length = pidx Q ρ := by
      rw [pidx_append]
      have : P.length = (pidx P ρ).length := by simp [pidx]
      rw [this, drop_append_length]
    have e3 : pidx d.paxes (ext ρ v j) = pidx P ρ ++ [j] ++ pidx Q ρ := by
      rw [hp, pidx_append, pidx_append]
      congr 1
      · congr 1
        · apply pidx_congr
          intro p hp'
          simp [ext, hvn p (List.mem_append_left _ hp')]
        · simp [pidx, ext]
      · apply pidx_congr
        intro p hp'
        simp [ext, hvn p (List.mem_append_right _ hp')]
    rw [dense_backed hs.sem (hb' j hj'), e1, e2, e3]
    rfl
  · have hnR : ∀ ρ, ¬ Backs (reduceT g d (A ++ U ++ B) P.length n) (cA ++ List.replicate U.length 0 ++ cB) ρ :=
      fun ρ hb => hex ⟨ρ, hb⟩
    have hnD : ∀ j, ∀ ρ, ¬ Backs d (cA ++ [j] ++ cB) ρ := by
      intro j ρ hb
      apply hnR ρ
      have h2 := hb.2
      rw [hv, map_eval_mid hAl] at h2
      constructor
      · intro p hp'
        rw [hpx] at hp'
        exact hb.1 p ((mem_paxes_iff hp p).2 (Or.inr hp'))
      · exact (map_eval_units hU hAl).2 ⟨h2.1, h2.2.2⟩
    have hcR : cA ++ List.replicate U.length 0 ++ cB ∈ assigns (reduceT g d (A ++ U ++ B) P.length n).vshape := by
      rw [hRv]
      exact mem_assigns_append (mem_assigns_append hcA (zeros_mem_assigns _)) hcB
    rw [dense_unbacked hS hcR hnR]
    show some (g (List.replicate n d.default)) = _
    congr 2
    symm
    rw [List.eq_replicate_iff]
    refine ⟨by simp, ?_⟩
    intro x hx
    obtain ⟨j, hj, rfl⟩ := List.mem_map.1 hx
    have hj' : j < n := by simpa using hj
    have hcD : cA ++ [j] ++ cB ∈ assigns d.vshape := by
      rw [hdv]
      exact mem_assigns_append (mem_assigns_append hcA (singleton_mem_assigns hj')) hcB
    rw [dense_unbacked hs.sem hcD (hnD j)]
    rfl

end

/-! ### the unit-axis case -/

/-- what `reduceDense` returns when the reduced axis of `d` is the unit axis -/
def unitT (g : List Ext → Ext) (d : PT) (vaxes' : List Axis) : PT :=
  { physical := d.physical.map (fun x => g [x]), paxes := d.paxes, vaxes := vaxes', default := g [d.default] }

section
variable {g : List Ext → Ext} {d : PT} {A B U : List Axis}

theorem unitT_struct (hs : Struct d) (hv : d.vaxes = A ++ [unitAxis] ++ B) (hU : Units U) :
    Struct (unitT g d (A ++ U ++ B)) := by
  refine ⟨?_, hs.nodup, hs.no1, ?_, ?_⟩
  · simpa [unitT] using hs.len
  · intro e he q hq
    have he' : e ∈ A ++ U ++ B := he
    show q ∈ d.paxes
    simp only [List.mem_append] at he'
    rcases he' with (h | h) | h
    · exact hs.fvsub e (by rw [hv]; simp [h]) q hq
    · rw [hU e h, unitAxis_fv] at hq
      simp at hq
    · exact hs.fvsub e (by rw [hv]; simp [h]) q hq
  · intro p hp'
    obtain ⟨e, he, hpe⟩ := hs.occ p hp'
    rw [hv] at he
    show ∃ e ∈ A ++ U ++ B, p ∈ e.fv
    simp only [List.mem_append, List.mem_singleton] at he
    rcases he with (h | h) | h
    · exact ⟨e, by simp [h], hpe⟩
    · subst h
      rw [unitAxis_fv] at hpe
      simp at hpe
    · exact ⟨e, by simp [h], hpe⟩

theorem unitT_cell (hs : Struct d) (hv : d.vaxes = A ++ [unitAxis] ++ B) (hU : Units U)
    (cA cB : List Nat) (hcA : cA ∈ assigns (A.map Axis.numel)) (hcB : cB ∈ assigns (B.map Axis.numel)) :
    (unitT g d (A ++ U ++ B)).dense[flat (unitT g d (A ++ U ++ B)).vshape
        (cA ++ List.replicate U.length 0 ++ cB)]? =
      some (g [d.dense[flat d.vshape (cA ++ [0] ++ cB)]?.getD d.default]) := by
  have hst := unitT_struct (g := g) hs hv hU
  have hS := hst.sem
  have hAl : cA.length = A.length := by rw [mem_assigns_length hcA, List.length_map]
  have hdv : d.vshape = A.map Axis.numel ++ [1] ++ B.map Axis.numel := by
    unfold PT.vshape; rw [hv]; simp [unitAxis_numel]
  have hRv : (unitT g d (A ++ U ++ B)).vshape =
      A.map Axis.numel ++ List.replicate U.length 1 ++ B.map Axis.numel := by
    show (A ++ U ++ B).map Axis.numel = _
    rw [List.map_append, List.map_append, units_numel hU]
  have hiff : ∀ ρ, Backs (unitT g d (A ++ U ++ B)) (cA ++ List.replicate U.length 0 ++ cB) ρ ↔
      Backs d (cA ++ [0] ++ cB) ρ := by
    intro ρ
    unfold Backs
    rw [hv, map_eval_mid hAl]
    show _ ∧ (A ++ U ++ B).map (Axis.eval ρ) = _ ↔ _
    rw [map_eval_units hU hAl]
    constructor
    · rintro ⟨h1, h2, h3⟩
      exact ⟨h1, h2, unitAxis_eval ρ, h3⟩
    · rintro ⟨h1, h2, _, h3⟩
      exact ⟨h1, h2, h3⟩
  by_cases hex : ∃ ρ, Backs d (cA ++ [0] ++ cB) ρ
  · obtain ⟨ρ, hb⟩ := hex
    have hbR := (hiff ρ).2 hb
    rw [dense_backed hS hbR, dense_backed hs.sem hb]
    congr 1
    have hlt : flat (d.paxes.map (·.2)) (pidx d.paxes ρ) < d.physical.length := by
      rw [hs.len]
      exact flat_lt (pidx_mem_assigns ρ _ hb.1)
    show (d.physical.map (fun x => g [x]))[flat (d.paxes.map (·.2)) (pidx d.paxes ρ)]?.getD _ = _
    rw [List.getElem?_map, List.getElem?_eq_getElem hlt]
    rfl
  · have hnD : ∀ ρ, ¬ Backs d (cA ++ [0] ++ cB) ρ := fun ρ hb => hex ⟨ρ, hb⟩
    have hnR : ∀ ρ, ¬ Backs (unitT g d (A ++ U ++ B)) (cA ++ List.replicate U.length 0 ++ cB) ρ :=
      fun ρ hb => hnD ρ ((hiff ρ).1 hb)
    have hcR : cA ++ List.replicate U.length 0 ++ cB ∈ assigns (unitT g d (A ++ U ++ B)).vshape := by
      rw [hRv]
      exact mem_assigns_append (mem_assigns_append hcA (zeros_mem_assigns _)) hcB
    have hcD : cA ++ [0] ++ cB ∈ assigns d.vshape := by
      rw [hdv]
      exact mem_assigns_append (mem_assigns_append hcA (singleton_mem_assigns (by omega))) hcB
    rw [dense_unbacked hS hcR hnR, dense_unbacked hs.sem hcD hnD]
    rfl

end

end C06qL
