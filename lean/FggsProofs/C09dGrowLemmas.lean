/-
C09dGrowLemmas — helpers for Props/C09d.lean, part 5: the axis returned by the growth loop of `Ps.solve` (`Ps.grow`) is
well formed (`grow_eok`): its physical axes are fresh (created by the last anti-unification), have at least two
elements, one size per identity, and it has as many elements as the row axis of `b` — by the invariant of the loop
(unification keeps sizes consistent, `clone` preserves `numel`, anti-unification generalises without axes of size 1).
-/
import FggsModel.PatSolve
import FggsProofs.C09dMainLemmas
import FggsProofs.C06dAntiLemmas
import Mathlib.Tactic.Linarith
import Mathlib.Data.List.Basic
import Mathlib.Data.List.Nodup

set_option linter.unusedSimpArgs false
set_option linter.unusedVariables false

namespace C09dL
open Fggs Fggs.Ax Fggs.Un Fggs.Sd Fggs.Ps C06b C06dL C07bL

section grow
variable {a b : PT} {a0 a1 b0 : Axis} {brest : List Axis} {next0 : Nat}

/-- the invariant of the growth loop -/
structure GInv (a : PT) (b0 : Axis) (next0 : Nat) (e : Axis) (next : Nat) : Prop where
  le : next0 ≤ next
  lt : ∀ q ∈ e.fv, q.1 < next
  big : ∀ q ∈ e.fv, 2 ≤ q.2
  fn : ∀ p ∈ e.fv, ∀ q ∈ e.fv, p.1 = q.1 → p.2 = q.2
  numel : e.numel = b0.numel
  disj : ∀ q ∈ e.fv, ∀ p ∈ a.paxes, q.1 ≠ p.1

theorem ginv_init (O : Ops a b a0 a1 b0 brest next0) : GInv a b0 next0 b0 next0 where
  le := Nat.le_refl _
  lt := fun q hq => O.below q (List.mem_append_right _ (O.b0_sub hq))
  big := fun q hq => O.big_ab (List.mem_append_right _ (O.b0_sub hq))
  fn := fun p hp q hq e => by rw [eq_of_mem_nodup_fst O.sb.nodup (O.b0_sub hp) (O.b0_sub hq) e]
  numel := rfl
  disj := fun q hq p hp e => O.disj p hp q (O.b0_sub hq) e.symm

/-- one round of the loop: the unification with the column axis of `a`, then the anti-unification with the clone of
the row axis -/
theorem ginv_step (O : Ops a b a0 a1 b0 brest next0) {fuel : Nat} {e : Axis} {next : Nat} (I : GInv a b0 next0 e next)
    {st : St} (hu : unify fuel e a1 ⟨[], next⟩ = (true, st)) :
    let r := antiunify fuel e (clone st.subst FUEL a0) ⟨[], st.next⟩
    GInv a b0 next0 r.1 r.2.next ∧ next ≤ st.next ∧ ∀ q ∈ r.1.fv, st.next ≤ q.1 := by
  intro r
  -- the size function of the round
  have hfn : ∀ p ∈ e.fv ++ a.paxes, ∀ q ∈ e.fv ++ a.paxes, p.1 = q.1 → p.2 = q.2 := by
    intro p hp q hq epq
    rcases List.mem_append.1 hp with hp | hp <;> rcases List.mem_append.1 hq with hq | hq
    · exact I.fn p hp q hq epq
    · exact absurd epq (I.disj p hp q hq)
    · exact absurd epq.symm (I.disj q hq p hp)
    · rw [eq_of_mem_nodup_fst O.sa.nodup hp hq epq]
  have hsz := szL_spec hfn
  have htye : AxQ (Tp (szL (e.fv ++ a.paxes))) next e :=
    fun q hq => ⟨I.lt q hq, hsz q (List.mem_append_left _ hq), by have := I.big q hq; omega⟩
  have htya : ∀ x, (∀ q ∈ x.fv, q ∈ a.paxes) → AxQ (Tp (szL (e.fv ++ a.paxes))) next x :=
    fun x hx q hq => ⟨Nat.lt_of_lt_of_le (O.below q (List.mem_append_left _ (hx q hq))) I.le,
      hsz q (List.mem_append_right _ (hx q hq)), O.pos q (List.mem_append_left _ (hx q hq))⟩
  obtain ⟨sz, hag, R⟩ := runFacts_of (unifyAll_single hu) (szL (e.fv ++ a.paxes))
    (fun p hp => by
      simp only [List.mem_singleton] at hp; subst hp
      exact ⟨htye, htya a1 (fun q hq => O.a1_sub hq)⟩)
    (fun p hp => by
      simp only [List.mem_singleton] at hp; subst hp
      show e.numel = a1.numel
      rw [I.numel, ← O.sq2, O.sq1])
    (fun p hp => by
      simp only [List.mem_singleton] at hp; subst hp
      refine ⟨fun q hq => ?_, fun q hq => O.sa.no1 q (O.a1_sub hq)⟩
      have := I.big q hq
      show q.2 ≠ 1
      omega)
  have hle : next ≤ st.next := R.le
  -- the clone of the row axis of `a`
  have htya0 : AxQ (Tp sz) st.next a0 := Tp.mono hle (Tp.transfer hag (htya a0 (fun q hq => O.a0_sub hq)))
  have hfnum : (clone st.subst FUEL a0).numel = a0.numel :=
    clone_numel' R.sized.numelOkS FUEL a0 (R.sized.numelOk htya0)
  have hftp : ∀ q ∈ (clone st.subst FUEL a0).fv, Tp sz st.next q := by
    intro q hq
    rcases clone_fv_sub st.subst FUEL a0 q hq with h | ⟨p, hp, h⟩
    · exact htya0 q h
    · exact (R.sized.1 p hp).2 q h
  have hgen := C06dA.antiunify_gen sz (fun q => 0 < q.2) (fun q => 0 < q.2) fuel e (clone st.subst FUEL a0)
    ⟨[], st.next⟩ ⟨(fun p hp => nomatch hp), (by simp), (fun p hp => nomatch hp)⟩ (fun p hp => nomatch hp)
    (fun q hq => by have := I.big q hq; show 0 < q.2; omega)
    (fun q hq => (hftp q hq).2.2)
    (fun q hq => by
      rw [hag q.1 (I.lt q hq)]
      exact (hsz q (List.mem_append_left _ hq)).symm)
    (fun q hq => (hftp q hq).2.1.symm)
    (by rw [hfnum, I.numel, O.sq2])
  obtain ⟨hok, _, hnx, ⟨new, hnew, hnewok⟩, hnum, hfv, _, _⟩ := hgen
  have hpairs : ∀ p ∈ r.2.pairs, 2 ≤ p.2.2 ∧ st.next ≤ p.2.1 ∧ p.2.1 < r.2.next := by
    intro p hp
    have hp' : p ∈ new := by
      have : p ∈ ([] : List C06cL.Pair) ++ new := hnew ▸ hp
      simpa using this
    obtain ⟨⟨h1, h2, h3, _⟩, _⟩ := hnewok p hp'
    have hpos : 0 < p.1.1.numel := numel_pos_aux p.1.1 h3
    have hsize := (hok.size p hp).1
    exact ⟨by omega, h2, hok.ids p hp⟩
  have hQ : ∀ q ∈ r.1.fv, 2 ≤ q.2 ∧ st.next ≤ q.1 ∧ q.1 < r.2.next := by
    intro q hq
    obtain ⟨_, p, hp, rfl⟩ := hfv q hq
    exact hpairs p hp
  refine ⟨⟨?_, fun q hq => (hQ q hq).2.2, fun q hq => (hQ q hq).1, ?_, by rw [hnum]; exact I.numel, ?_⟩, hle,
    fun q hq' => (hQ q hq').2.1⟩
  · have : st.next ≤ r.2.next := hnx
    exact Nat.le_trans I.le (Nat.le_trans hle this)
  · intro q1 h1 q2 h2 e12
    obtain ⟨_, p1, hp1, rfl⟩ := hfv q1 h1
    obtain ⟨_, p2, hp2, rfl⟩ := hfv q2 h2
    have : p1 = p2 := List.inj_on_of_nodup_map hok.nodup hp1 hp2 e12
    rw [this]
  · intro q hq' p hp epq
    have h1 := (hQ q hq').2.1
    have h2 := O.below p (List.mem_append_left _ hp)
    have := I.le
    omega

/-- **the axis returned by the growth loop is well formed** -/
theorem grow_eok_aux (O : Ops a b a0 a1 b0 brest next0) (fuel : Nat) : ∀ (k : Nat) (e : Axis) (next : Nat),
    GInv a b0 next0 e next → ∀ (e' : Axis) (nx : Nat), grow fuel a0 a1 k e next = some (some (e', nx)) →
    EOK b0 e' next0 nx
  | 0, e, next, _, e', nx, h => by rw [grow] at h; cases h
  | k+1, e, next, I, e', nx, h => by
    rw [grow] at h
    split at h
    · cases h
    · next st hu =>
      obtain ⟨I', hle, hlo⟩ := ginv_step O I hu
      simp only at h
      split at h
      · simp only [Option.some.injEq, Prod.mk.injEq] at h
        obtain ⟨rfl, rfl⟩ := h
        exact ⟨I'.le, fun q hq => ⟨by have := hlo q hq; have := I.le; omega, I'.lt q hq⟩, I'.big, I'.fn, I'.numel⟩
      · exact grow_eok_aux O fuel k _ _ I' e' nx h

theorem grow_eok (O : Ops a b a0 a1 b0 brest next0) {fuel loopFuel : Nat} {e : Axis} {nx : Nat}
    (h : grow fuel a0 a1 loopFuel b0 next0 = some (some (e, nx))) : EOK b0 e next0 nx :=
  grow_eok_aux O fuel loopFuel b0 next0 (ginv_init O) e nx h

end grow

end C09dL
