/-
Helper lemmas for Props/C09e.lean (restriction of a linear system to a closed set of rows): invariance of `S.sum`
under permutations, splitting a sum over `List.range n` into the sum over a duplicate-free index list `I` and the
sum over the complement, sums over `I` as sums over the positions of `I`, and positions of elements (`idxOf?`).
-/
import FggsModel.Solve
import FggsProofs.Props.C01
import FggsProofs.Props.C09
import FggsProofs.Props.C09b
import FggsProofs.C09bLemmas
import Mathlib.Data.List.Basic
import Mathlib.Data.List.Perm.Basic
import Mathlib.Data.List.Nodup

set_option linter.unusedSimpArgs false
set_option linter.unusedVariables false

namespace C09eL
open Fggs Fggs.Sem Fggs.Sv C09bL

variable {K : Type}

section toolkit
variable {S : SR K} (hS : C01.SRLaws S)
include hS

theorem mul_zero (a : K) : S.mul a S.zero = S.zero := by rw [hS.mul_comm, hS.zero_mul]

theorem sum_append (l₁ l₂ : List K) : S.sum (l₁ ++ l₂) = S.add (S.sum l₁) (S.sum l₂) := by
  induction l₁ with
  | nil => simp [sum_nil', hS.zero_add]
  | cons a l ih => rw [List.cons_append, sum_cons hS, sum_cons hS, ih, hS.add_assoc]

/-- `S.sum` does not depend on the order of the summands -/
theorem sum_perm {l₁ l₂ : List K} (p : l₁.Perm l₂) : S.sum l₁ = S.sum l₂ := by
  induction p with
  | nil => rfl
  | cons x _ ih => rw [sum_cons hS, sum_cons hS, ih]
  | swap x y l =>
    rw [sum_cons hS, sum_cons hS, sum_cons hS, sum_cons hS, ← hS.add_assoc, ← hS.add_assoc, hS.add_comm y x]
  | trans _ _ ih1 ih2 => rw [ih1, ih2]

theorem sum_zeros {α : Type} (l : List α) (f : α → K) (h : ∀ x ∈ l, f x = S.zero) :
    S.sum (l.map f) = S.zero := by
  induction l with
  | nil => rfl
  | cons a l ih =>
    rw [List.map_cons, sum_cons hS, h a (List.mem_cons_self ..), hS.zero_add]
    exact ih (fun x hx => h x (List.mem_cons_of_mem _ hx))

end toolkit

/-- `0..n-1` is `I` followed by the complement of `I`, up to order -/
theorem range_perm (n : Nat) (I : List Nat) (hnd : I.Nodup) (hI : ∀ i ∈ I, i < n) :
    (List.range n).Perm (I ++ (List.range n).filter (fun j => decide (j ∉ I))) := by
  apply (List.perm_ext_iff_of_nodup List.nodup_range ?_).2
  · intro j
    simp only [List.mem_range, List.mem_append, List.mem_filter, decide_eq_true_eq]
    constructor
    · intro hj
      by_cases h : j ∈ I
      · exact Or.inl h
      · exact Or.inr ⟨hj, h⟩
    · rintro (h | ⟨h, _⟩)
      · exact hI j h
      · exact h
  · apply List.Nodup.append hnd (List.nodup_range.filter _)
    intro j hj hj'
    simp only [List.mem_filter, decide_eq_true_eq] at hj'
    exact hj'.2 hj

/-- a sum over `0..n-1` splits into the sum over `I` and the sum over the complement -/
theorem sum_range_split {S : SR K} (hS : C01.SRLaws S) (n : Nat) (I : List Nat) (hnd : I.Nodup)
    (hI : ∀ i ∈ I, i < n) (f : Nat → K) :
    S.sum ((List.range n).map f) =
      S.add (S.sum (I.map f)) (S.sum (((List.range n).filter (fun j => decide (j ∉ I))).map f)) := by
  rw [sum_perm hS ((range_perm n I hnd hI).map f), List.map_append, sum_append hS]

/-- a sum over `0..n-1` of a function that vanishes outside `I` is the sum over `I` -/
theorem sum_range_eq_sum_of_vanish {S : SR K} (hS : C01.SRLaws S) (n : Nat) (I : List Nat) (hnd : I.Nodup)
    (hI : ∀ i ∈ I, i < n) (f : Nat → K) (hf : ∀ j, j < n → j ∉ I → f j = S.zero) :
    S.sum ((List.range n).map f) = S.sum (I.map f) := by
  rw [sum_range_split hS n I hnd hI, sum_zeros hS ((List.range n).filter (fun j => decide (j ∉ I))) f, add_zero hS]
  intro j hj
  simp only [List.mem_filter, List.mem_range, decide_eq_true_eq] at hj
  exact hf j hj.1 hj.2

/-- when zero is the least element, the sum over `I` is below the sum over `0..n-1` -/
theorem sum_le_sum_range {S : SR K} {le : K → K → Prop} {star : K → K} (h : C09b.OrdStarLaws S le star)
    (hz : ∀ x, le S.zero x) (n : Nat) (I : List Nat) (hnd : I.Nodup) (hI : ∀ i ∈ I, i < n) (f : Nat → K) :
    le (S.sum (I.map f)) (S.sum ((List.range n).map f)) := by
  rw [sum_range_split h.sr n I hnd hI]
  have := h.add_mono _ _ _ _ (h.refl (S.sum (I.map f))) (hz (S.sum (((List.range n).filter (fun j => decide (j ∉ I))).map f)))
  rw [add_zero h.sr] at this
  exact this

/-- a map over `I` is a map over the positions of `I` -/
theorem map_eq_map_range {α : Type} (I : List Nat) (f : Nat → α) :
    I.map f = (List.range I.length).map (fun p => f (I[p]?.getD 0)) := by
  apply List.ext_getElem
  · simp
  · intro p h1 h2
    have hp : p < I.length := by simpa using h1
    simp [hp]

/-- in a duplicate-free list, the position of the `p`-th element is `p` -/
theorem idxOf?_getElem (I : List Nat) (hnd : I.Nodup) (p : Nat) (hp : p < I.length) :
    I.idxOf? I[p] = some p := by
  rw [List.idxOf?_eq_some_iff]
  refine ⟨hp, rfl, ?_⟩
  intro j hj e
  have := (hnd.getElem_inj_iff).1 e
  omega

/-- an element of `I` has a position -/
theorem idxOf?_of_mem (I : List Nat) (i : Nat) (hi : i ∈ I) :
    ∃ p, ∃ hp : p < I.length, I[p] = i ∧ I.idxOf? i = some p := by
  cases e : I.idxOf? i with
  | none => exact absurd hi (List.idxOf?_eq_none_iff.1 e)
  | some p =>
    obtain ⟨hp, h1, _⟩ := List.idxOf?_eq_some_iff.1 e
    exact ⟨p, hp, h1, rfl⟩

end C09eL
