/-
Helper lemmas for Props/C06g.lean, part 3: `__getitem__`.

* `depth`: nesting depth of an axis; `clone σ fuel` resolves an axis nested less deeply than `fuel` when every binding of
  `σ` is closed (`clone_fv_closed`);
* `sigmaOf t pi`: the substitution `__getitem__` builds from the dict `pi` (`k ↦ i + () + (n-i-1)`);
* `selected t pi m`: the tensor `__getitem__` builds when every indexed dimension is occupied: `selected_struct`,
  `selected_vshape`, `selected_cell`;
* `full_spec`: `PatternedTensor.full`.
-/
import FggsModel.ShapeOps
import FggsProofs.Props.C06
import FggsProofs.C06bLemmas
import FggsProofs.C06dBaseLemmas
import FggsProofs.C06dSideLemmas
import FggsProofs.C07bCloneLemmas
import FggsProofs.C06gIndexLemmas
import Mathlib.Tactic.Linarith
import Mathlib.Data.List.Basic
import Mathlib.Data.List.Nodup
import Mathlib.Data.List.Forall2

set_option linter.unusedSimpArgs false
set_option linter.unusedVariables false

namespace C06gL
open Fggs Fggs.Ax Fggs.Un Fggs.Sh Fggs.Bn C06b C06dL

/-! ### nesting depth and `clone` with closed bindings -/

mutual
/-- nesting depth of an axis (a physical axis has depth 0) -/
def depth : Axis → Nat
  | .phys _ _ => 0
  | .prod fs => depthList fs + 1
  | .sum _ t _ => depth t + 1
def depthList : List Axis → Nat
  | [] => 0
  | f :: fs => max (depth f) (depthList fs)
end

theorem depth_le_depthList : ∀ {fs : List Axis} {f : Axis}, f ∈ fs → depth f ≤ depthList fs
  | g :: gs, f, h => by
    rw [depthList]
    rcases List.mem_cons.1 h with rfl | h'
    · exact Nat.le_max_left _ _
    · exact Nat.le_trans (depth_le_depthList h') (Nat.le_max_right _ _)

/-- every binding is an axis without physical axes -/
def ClosedS (σ : Subst) : Prop := ∀ p ∈ σ, p.2.fv = []

theorem clone_closed_fv {σ : Subst} (hc : ClosedS σ) {v : Nat} {a : Axis} (hb : bound σ v = some a) (n : Nat)
    (q : Nat × Nat) : q ∉ (clone σ n a).fv := by
  intro hq
  rcases C07bL.clone_fv_sub σ n a q hq with h | ⟨p, hp, h⟩
  · rw [hc _ (bound_mem hb)] at h; cases h
  · rw [hc p hp] at h; cases h

/-- **enough fuel**: the clone of an axis nested less deeply than the fuel has exactly the unbound axes -/
theorem clone_fv_closed {σ : Subst} (hc : ClosedS σ) : ∀ (fuel : Nat) (e : Axis), depth e < fuel →
    ∀ q, q ∈ (clone σ fuel e).fv ↔ q ∈ e.fv ∧ bound σ q.1 = none
  | 0, e, h, q => by omega
  | fuel+1, .phys v n, _, q => by
    cases hb : bound σ v with
    | some a =>
      rw [C07bL.clone_phys_some hb]
      constructor
      · intro hq; exact absurd hq (clone_closed_fv hc hb fuel q)
      · rintro ⟨hq, hn⟩
        simp only [Axis.fv, List.mem_singleton] at hq
        subst hq
        rw [hb] at hn; cases hn
    | none =>
      rw [C07bL.clone_phys_none hb]
      simp only [Axis.fv, List.mem_singleton]
      constructor
      · intro hq; subst hq; exact ⟨rfl, hb⟩
      · exact fun h => h.1
  | fuel+1, .prod fs, h, q => by
    rw [clone, mem_fv_productAxis, mem_fv_prod]
    rw [depth] at h
    constructor
    · rintro ⟨f', hf', hq⟩
      obtain ⟨f, hf, rfl⟩ := List.mem_map.1 hf'
      have := (clone_fv_closed hc fuel f (by have := depth_le_depthList hf; omega) q).1 hq
      exact ⟨⟨f, hf, this.1⟩, this.2⟩
    · rintro ⟨⟨f, hf, hq⟩, hn⟩
      exact ⟨_, List.mem_map_of_mem hf,
        (clone_fv_closed hc fuel f (by have := depth_le_depthList hf; omega) q).2 ⟨hq, hn⟩⟩
  | fuel+1, .sum b t a, h, q => by
    rw [clone]
    rw [depth] at h
    simp only [Axis.fv]
    exact clone_fv_closed hc fuel t (by omega) q

/-- `clone_spec` with the substitution satisfied as `bound` reads it -/
theorem clone_eval_b {ρ : Nat → Nat} {σ : Subst} (hs : ∀ k a, bound σ k = some a → ρ k = a.eval ρ)
    (hσ : NumelOkS σ) : ∀ (fuel : Nat) (e : Axis), NumelOk σ e → (clone σ fuel e).eval ρ = e.eval ρ
  | 0, e, _ => by rw [clone]
  | fuel+1, .phys v n, he => by
    rw [clone]
    split
    · next a hb =>
      rw [clone_eval_b hs hσ fuel a (hσ _ (bound_mem hb)), Axis.eval]
      exact (hs v a hb).symm
    · rfl
  | fuel+1, .prod fs, he => by
    rw [clone, C06.productAxis_eval, Axis.eval, Axis.eval]
    have := C07bL.evalList_map_congr ρ ρ (clone σ fuel) id fs (fun x hx =>
      ⟨clone_eval_b hs hσ fuel x (he.prod x hx), C07bL.clone_numel' hσ fuel x (he.prod x hx)⟩) 0
    rw [List.map_id] at this
    exact this
  | fuel+1, .sum b t a, he => by
    rw [clone, Axis.eval, Axis.eval, clone_eval_b hs hσ fuel t (C07bL.numelOk_sum he)]

/-! ### the substitution of `__getitem__` -/

/-- the size of the physical axis `k` as `__getitem__` reads it -/
def psize (t : PT) (k : Nat) : Nat := ((t.paxes.find? (·.1 == k)).map (·.2)).getD 0

/-- `k ↦ i + () + (n - i - 1)` -/
def fixAxis (t : PT) (k i : Nat) : Axis := Axis.sum i unitAxis (psize t k - i - 1)

def sigmaOf (t : PT) (pi : Pi) : Subst := pi.map (fun p => (p.1, fixAxis t p.1 p.2))

theorem bound_sigmaOf (t : PT) : ∀ (pi : Pi) (k : Nat),
    bound (sigmaOf t pi) k = (pi.lookup k).map (fixAxis t k)
  | [], k => rfl
  | (a, j) :: pi, k => by
    have ih := bound_sigmaOf t pi k
    unfold bound sigmaOf at ih ⊢
    rw [List.map_cons, List.find?_cons, List.lookup_cons]
    by_cases e : a = k
    · subst e; simp
    · have e1 : (a == k) = false := by simpa using e
      have e2 : (k == a) = false := by simpa using fun h : k = a => e h.symm
      simp only [e1, e2]
      exact ih

theorem psize_of_mem {t : PT} (hnd : (t.paxes.map (·.1)).Nodup) {p : Nat × Nat} (hp : p ∈ t.paxes) :
    psize t p.1 = p.2 := by
  unfold psize
  cases hf : t.paxes.find? (·.1 == p.1) with
  | none =>
    rw [List.find?_eq_none] at hf
    exact absurd (by simp) (hf p hp)
  | some q =>
    have hq := List.mem_of_find?_eq_some hf
    have hk : q.1 = p.1 := by simpa using List.find?_some hf
    rw [eq_of_mem_nodup_fst hnd hq hp hk]
    rfl

theorem fixAxis_fv (t : PT) (k i : Nat) : (fixAxis t k i).fv = [] := by
  simp [fixAxis, Axis.fv, unitAxis_fv]

theorem fixAxis_eval (t : PT) (k i : Nat) (ρ : Nat → Nat) : (fixAxis t k i).eval ρ = i := by
  simp [fixAxis, Axis.eval, unitAxis_eval]

theorem fixAxis_numel (t : PT) (k i : Nat) (h : i < psize t k) : (fixAxis t k i).numel = psize t k := by
  simp only [fixAxis, Axis.numel, unitAxis_numel]; omega

theorem sigmaOf_closed (t : PT) (pi : Pi) : ClosedS (sigmaOf t pi) := by
  intro p hp
  obtain ⟨x, hx, rfl⟩ := List.mem_map.1 hp
  exact fixAxis_fv t _ _

theorem sigmaOf_numelOkS (t : PT) (pi : Pi) : NumelOkS (sigmaOf t pi) := by
  intro p hp q hq
  rw [sigmaOf_closed t pi p hp] at hq; cases hq

theorem bound_sigmaOf_none {t : PT} {pi : Pi} {k : Nat} : bound (sigmaOf t pi) k = none ↔ pi.lookup k = none := by
  rw [bound_sigmaOf]; simp

/-! ### the selected tensor -/

/-- the assignment `ρ` overridden by the indices fixed in `pi` -/
def extPi (pi : Pi) (ρ : Nat → Nat) : Nat → Nat := fun k => match pi.lookup k with | some i => i | none => ρ k

theorem extPi_some {pi : Pi} {k i : Nat} (h : pi.lookup k = some i) (ρ : Nat → Nat) : extPi pi ρ k = i := by
  simp [extPi, h]

theorem extPi_none {pi : Pi} {k : Nat} (h : pi.lookup k = none) (ρ : Nat → Nat) : extPi pi ρ k = ρ k := by
  simp [extPi, h]

theorem extPi_agrees (pi : Pi) (ρ : Nat → Nat) : Agrees (extPi pi ρ) pi := fun k j h => extPi_some h ρ

def selPaxes (t : PT) (pi : Pi) : List (Nat × Nat) := t.paxes.filter (fun k => (pi.lookup k.1).isNone)

/-- what `__getitem__` passes to the constructor when every indexed dimension is occupied -/
def selected (t : PT) (pi : Pi) (m : Nat) : PT :=
  { physical := (assigns ((selPaxes t pi).map (·.2))).map (fun idx =>
      t.physical[flat (t.paxes.map (·.2)) (t.paxes.map (fun k => extPi pi (envOf (selPaxes t pi) idx) k.1))]?.getD
        t.default),
    paxes := selPaxes t pi,
    vaxes := (t.vaxes.drop m).map (clone (sigmaOf t pi) FUEL),
    default := t.default }

theorem getitem_too_long (t : PT) (vis : List Nat) (next : Nat) (h : vis.length > t.vaxes.length) :
    getitem t vis next = none := by
  unfold getitem; rw [if_pos h]

theorem getitem_of_none (t : PT) (vis : List Nat) (next : Nat) (h : indexAll (t.vaxes.zip vis) [] = none) :
    getitem t vis next = none := by
  unfold getitem
  split
  · rfl
  · simp only [h]

theorem getitem_of_false (t : PT) (vis : List Nat) (next : Nat) (hl : vis.length ≤ t.vaxes.length) (pi : Pi)
    (h : indexAll (t.vaxes.zip vis) [] = some (false, pi)) :
    getitem t vis next = some (full ((t.vaxes.drop vis.length).map Axis.numel) t.default next) := by
  unfold getitem
  rw [if_neg (by omega)]
  simp only [h]

theorem getitem_of_true (t : PT) (vis : List Nat) (next : Nat) (hl : vis.length ≤ t.vaxes.length) (pi : Pi)
    (h : indexAll (t.vaxes.zip vis) [] = some (true, pi)) :
    getitem t vis next = some (normalize (selected t pi vis.length)) := by
  unfold getitem
  rw [if_neg (by omega)]
  simp only [h]
  rfl

/-- what the main lemmas need to know about the dict `pi` computed for the first `m` dimensions -/
structure SelOK (t : PT) (pi : Pi) (m : Nat) (vis : List Nat) : Prop where
  st : Struct t
  hm : m ≤ t.vaxes.length
  hvl : vis.length = m
  new : ∀ k j, pi.lookup k = some j → ∃ n, (k, n) ∈ t.paxes ∧ j < n
  bnd : ∀ e ∈ t.vaxes.take m, ∀ q ∈ e.fv, ∃ j, pi.lookup q.1 = some j
  tru : ∀ ρ, Agrees ρ pi → (t.vaxes.take m).map (Axis.eval ρ) = vis
  uniq : ∀ ρ, (∀ p ∈ t.paxes, ρ p.1 < p.2) → (t.vaxes.take m).map (Axis.eval ρ) = vis → Agrees ρ pi
  deep : ∀ e ∈ t.vaxes.drop m, depth e < FUEL

section sel
variable {t : PT} {pi : Pi} {m : Nat} {vis : List Nat}

theorem SelOK.lookup_lt (h : SelOK t pi m vis) {p : Nat × Nat} (hp : p ∈ t.paxes) {j : Nat}
    (hj : pi.lookup p.1 = some j) : j < p.2 := by
  obtain ⟨n, hn, hlt⟩ := h.new p.1 j hj
  have := eq_of_mem_nodup_fst h.st.nodup hn hp rfl
  rw [← this]; exact hlt

theorem SelOK.numelOk (h : SelOK t pi m vis) {e : Axis} (he : ∀ q ∈ e.fv, q ∈ t.paxes) :
    NumelOk (sigmaOf t pi) e := by
  intro q hq b hb
  rw [bound_sigmaOf] at hb
  cases hl : pi.lookup q.1 with
  | none => rw [hl] at hb; cases hb
  | some j =>
    rw [hl] at hb
    simp only [Option.map_some, Option.some.injEq] at hb
    subst hb
    have hp := he q hq
    have hs := psize_of_mem h.st.nodup hp
    rw [fixAxis_numel t q.1 j (by rw [hs]; exact h.lookup_lt hp hl), hs]

theorem sigmaOf_sat {ρ : Nat → Nat} (ha : Agrees ρ pi) :
    ∀ k a, bound (sigmaOf t pi) k = some a → ρ k = a.eval ρ := by
  intro k a hb
  rw [bound_sigmaOf] at hb
  cases hl : pi.lookup k with
  | none => rw [hl] at hb; cases hb
  | some j =>
    rw [hl] at hb
    simp only [Option.map_some, Option.some.injEq] at hb
    subst hb
    rw [fixAxis_eval]
    exact ha k j hl

theorem SelOK.rest_fvsub (h : SelOK t pi m vis) {e : Axis} (he : e ∈ t.vaxes.drop m) : ∀ q ∈ e.fv, q ∈ t.paxes :=
  fun q hq => h.st.fvsub e (List.mem_of_mem_drop he) q hq

theorem SelOK.clone_eval (h : SelOK t pi m vis) {ρ : Nat → Nat} (ha : Agrees ρ pi) {e : Axis}
    (he : e ∈ t.vaxes.drop m) : (clone (sigmaOf t pi) FUEL e).eval ρ = e.eval ρ :=
  clone_eval_b (sigmaOf_sat ha) (sigmaOf_numelOkS t pi) FUEL e (h.numelOk (h.rest_fvsub he))

theorem SelOK.clone_numel (h : SelOK t pi m vis) {e : Axis} (he : e ∈ t.vaxes.drop m) :
    (clone (sigmaOf t pi) FUEL e).numel = e.numel :=
  C07bL.clone_numel' (sigmaOf_numelOkS t pi) FUEL e (h.numelOk (h.rest_fvsub he))

theorem SelOK.clone_fv (h : SelOK t pi m vis) {e : Axis} (he : e ∈ t.vaxes.drop m) (q : Nat × Nat) :
    q ∈ (clone (sigmaOf t pi) FUEL e).fv ↔ q ∈ e.fv ∧ pi.lookup q.1 = none := by
  rw [clone_fv_closed (sigmaOf_closed t pi) FUEL e (h.deep e he) q, bound_sigmaOf_none]

theorem mem_selPaxes {p : Nat × Nat} : p ∈ selPaxes t pi ↔ p ∈ t.paxes ∧ pi.lookup p.1 = none := by
  unfold selPaxes
  rw [List.mem_filter]
  simp

theorem selected_struct (h : SelOK t pi m vis) : Struct (selected t pi m) where
  len := by
    show ((assigns ((selPaxes t pi).map (·.2))).map _).length = _
    rw [List.length_map, length_assigns]
    rfl
  nodup := List.Nodup.sublist (List.Sublist.map _ List.filter_sublist) h.st.nodup
  no1 := fun p hp => h.st.no1 p (mem_selPaxes.1 hp).1
  fvsub := by
    intro e' he' q hq
    obtain ⟨e, he, rfl⟩ := List.mem_map.1 he'
    obtain ⟨h1, h2⟩ := (h.clone_fv he q).1 hq
    exact mem_selPaxes.2 ⟨h.rest_fvsub he q h1, h2⟩
  occ := by
    intro p hp
    obtain ⟨hp1, hp2⟩ := mem_selPaxes.1 hp
    obtain ⟨e, he, hpe⟩ := h.st.occ p hp1
    rw [← List.take_append_drop m t.vaxes, List.mem_append] at he
    rcases he with he | he
    · obtain ⟨j, hj⟩ := h.bnd e he p hpe
      rw [hj] at hp2; cases hp2
    · exact ⟨_, List.mem_map_of_mem he, (h.clone_fv he p).2 ⟨hpe, hp2⟩⟩

theorem selected_vshape (h : SelOK t pi m vis) : (selected t pi m).vshape = t.vshape.drop m := by
  unfold selected PT.vshape
  simp only [List.map_map]
  rw [← List.map_drop]
  apply List.map_congr_left
  intro e he
  exact h.clone_numel he

theorem normalize_selected (h : SelOK t pi m vis) : normalize (selected t pi m) = selected t pi m := by
  rw [normalize_eq]
  have : unitSubst (selected t pi m).paxes = [] := by
    unfold unitSubst
    rw [List.map_eq_nil_iff, List.filter_eq_nil_iff]
    intro p hp
    have := (selected_struct h).no1 p hp
    simpa using this
  rw [this]
  rfl

/-- the virtual axes of the selected tensor under an assignment that has the fixed indices -/
theorem selected_vaxes_eval (h : SelOK t pi m vis) {ρ : Nat → Nat} (ha : Agrees ρ pi) :
    (selected t pi m).vaxes.map (Axis.eval ρ) = (t.vaxes.drop m).map (Axis.eval ρ) := by
  show ((t.vaxes.drop m).map (clone (sigmaOf t pi) FUEL)).map (Axis.eval ρ) = _
  rw [List.map_map]
  apply List.map_congr_left
  intro e he
  exact h.clone_eval ha he

theorem vaxes_eval_split (h : SelOK t pi m vis) (ρ : Nat → Nat) (rest : List Nat) :
    t.vaxes.map (Axis.eval ρ) = vis ++ rest ↔
      (t.vaxes.take m).map (Axis.eval ρ) = vis ∧ (t.vaxes.drop m).map (Axis.eval ρ) = rest := by
  conv_lhs => rw [← List.take_append_drop m t.vaxes, List.map_append]
  constructor
  · intro he
    exact List.append_inj he (by rw [List.length_map, List.length_take, h.hvl]; exact Nat.min_eq_left h.hm)
  · rintro ⟨h1, h2⟩; rw [h1, h2]

theorem backs_selected_to (h : SelOK t pi m vis) {rest : List Nat} {ρ' : Nat → Nat}
    (hb : Backs (selected t pi m) rest ρ') : Backs t (vis ++ rest) (extPi pi ρ') := by
  have hS := selected_struct h
  refine ⟨?_, ?_⟩
  · intro p hp
    cases hl : pi.lookup p.1 with
    | some j => rw [extPi_some hl]; exact h.lookup_lt hp hl
    | none => rw [extPi_none hl]; exact hb.1 p (mem_selPaxes.2 ⟨hp, hl⟩)
  · rw [vaxes_eval_split h]
    refine ⟨h.tru _ (extPi_agrees pi ρ'), ?_⟩
    rw [← selected_vaxes_eval h (extPi_agrees pi ρ'), ← hb.2]
    apply List.map_congr_left
    intro e he
    apply eval_congr
    intro q hq
    exact extPi_none (mem_selPaxes.1 (hS.fvsub e he q hq)).2 ρ'

theorem backs_selected_of (h : SelOK t pi m vis) {rest : List Nat} {ρ : Nat → Nat}
    (hb : Backs t (vis ++ rest) ρ) : Backs (selected t pi m) rest ρ := by
  obtain ⟨h1, h2⟩ := (vaxes_eval_split h ρ rest).1 hb.2
  have ha := h.uniq ρ hb.1 h1
  exact ⟨fun p hp => hb.1 p (mem_selPaxes.1 hp).1, by rw [selected_vaxes_eval h ha, h2]⟩

theorem selected_physical (h : SelOK t pi m vis) {ρ' : Nat → Nat} (hr : ∀ p ∈ selPaxes t pi, ρ' p.1 < p.2) :
    (selected t pi m).physical[flat ((selPaxes t pi).map (·.2)) (pidx (selPaxes t pi) ρ')]?.getD t.default =
      t.physical[flat (t.paxes.map (·.2)) (pidx t.paxes (extPi pi ρ'))]?.getD t.default := by
  have hm := pidx_mem_assigns ρ' (selPaxes t pi) hr
  show ((assigns ((selPaxes t pi).map (·.2))).map _)[_]?.getD t.default = _
  rw [List.getElem?_map, getElem_flat hm]
  simp only [Option.map_some, Option.getD_some]
  congr 3
  unfold pidx
  apply List.map_congr_left
  intro k hk
  cases hl : pi.lookup k.1 with
  | some j => rw [extPi_some hl, extPi_some hl]
  | none =>
    rw [extPi_none hl, extPi_none hl]
    exact envOf_pidx ρ' (selPaxes t pi) k.1 (List.mem_map_of_mem (f := (·.1)) (mem_selPaxes.2 ⟨hk, hl⟩))

theorem append_mem_assigns {shape vis rest : List Nat} (hv : List.Forall₂ (· < ·) vis (shape.take vis.length))
    (hr : rest ∈ assigns (shape.drop vis.length)) : vis ++ rest ∈ assigns shape := by
  rw [mem_assigns_iff] at hr ⊢
  rw [← List.take_append_drop vis.length shape]
  exact List.rel_append hv hr

/-- **the cells of the selected tensor** -/
theorem selected_cell (h : SelOK t pi m vis) (hv : List.Forall₂ (· < ·) vis (t.vshape.take m)) {rest : List Nat}
    (hr : rest ∈ assigns (selected t pi m).vshape) :
    (selected t pi m).dense[flat (selected t pi m).vshape rest]? = t.dense[flat t.vshape (vis ++ rest)]? := by
  have hS := (selected_struct h).sem
  have hT := h.st.sem
  by_cases hb : ∃ ρ', Backs (selected t pi m) rest ρ'
  · obtain ⟨ρ', hb⟩ := hb
    rw [dense_backed hS hb, dense_backed hT (backs_selected_to h hb)]
    congr 1
    exact selected_physical h hb.1
  · have hb0 : ∀ ρ', ¬ Backs (selected t pi m) rest ρ' := fun ρ' hρ => hb ⟨ρ', hρ⟩
    rw [dense_unbacked hS hr hb0, dense_unbacked hT]
    · rfl
    · rw [selected_vshape h] at hr
      have := h.hvl
      subst this
      exact append_mem_assigns hv hr
    · intro ρ hρ
      exact hb0 ρ (backs_selected_of h hρ)

end sel

/-! ### from `indexAll` to `SelOK` -/

theorem zip_take_left {α β : Type} (l : List α) (vis : List β) (hl : vis.length ≤ l.length) :
    l.zip vis = (l.take vis.length).zip vis := by
  conv_lhs => rw [List.zip_eq_zip_take_min]
  rw [Nat.min_eq_right hl, List.take_length]

theorem zip_map_eval (l : List Axis) (vis : List Nat) (hl : vis.length ≤ l.length) (ρ : Nat → Nat) :
    (l.zip vis).map (fun p => p.1.eval ρ) = (l.take vis.length).map (Axis.eval ρ) := by
  rw [zip_take_left l vis hl]
  have : (fun p : Axis × Nat => p.1.eval ρ) = Axis.eval ρ ∘ Prod.fst := rfl
  rw [this, ← List.map_map, List.map_fst_zip (by simp [hl])]

theorem zip_map_snd (l : List Axis) (vis : List Nat) (hl : vis.length ≤ l.length) :
    (l.zip vis).map (·.2) = vis :=
  List.map_snd_zip hl

theorem mem_fvAll_zip (l : List Axis) (vis : List Nat) (hl : vis.length ≤ l.length) (q : Nat × Nat) :
    q ∈ fvAll (l.zip vis) ↔ ∃ e ∈ l.take vis.length, q ∈ e.fv := by
  unfold fvAll
  rw [List.mem_flatMap]
  constructor
  · rintro ⟨p, hp, hq⟩
    rw [zip_take_left l vis hl] at hp
    exact ⟨p.1, (List.of_mem_zip hp).1, hq⟩
  · rintro ⟨e, he, hq⟩
    have : e ∈ ((l.take vis.length).zip vis).map Prod.fst := by
      rw [List.map_fst_zip (by simp [hl])]; exact he
    obtain ⟨p, hp, rfl⟩ := List.mem_map.1 this
    rw [← zip_take_left l vis hl] at hp
    exact ⟨p, hp, hq⟩

theorem selOK_of_indexAll {t : PT} (hS : Struct t) {vis : List Nat} (hl : vis.length ≤ t.vaxes.length) {pi : Pi}
    (h : indexAll (t.vaxes.zip vis) [] = some (true, pi)) (hd : ∀ e ∈ t.vaxes, depth e < FUEL) :
    SelOK t pi vis.length vis := by
  have s := indexAll_spec _ _ _ _ h
  have hfv : ∀ q ∈ fvAll (t.vaxes.zip vis), q ∈ t.paxes := by
    intro q hq
    obtain ⟨e, he, hqe⟩ := (mem_fvAll_zip _ _ hl q).1 hq
    exact hS.fvsub e (List.mem_of_mem_take he) q hqe
  refine ⟨hS, hl, rfl, ?_, ?_, ?_, ?_, fun e he => hd e (List.mem_of_mem_drop he)⟩
  · intro k j hk
    obtain ⟨n, hn, hj⟩ := s.new k j hk rfl
    exact ⟨n, hfv _ hn, hj⟩
  · intro e he q hq
    exact s.bnd rfl q ((mem_fvAll_zip _ _ hl q).2 ⟨e, he, hq⟩)
  · intro ρ ha
    have := s.tru rfl ρ ha
    rwa [zip_map_eval _ _ hl, zip_map_snd _ _ hl] at this
  · intro ρ hr he
    apply s.uniq rfl ρ (fun q hq => hr q (hfv q hq)) (agrees_nil ρ)
    show (t.vaxes.zip vis).map (fun p => p.1.eval ρ) = (t.vaxes.zip vis).map (·.2)
    rw [zip_map_eval _ _ hl, zip_map_snd _ _ hl]
    exact he

/-- every indexed dimension in range, some dimension unoccupied: no assignment of `t` backs a cell of the slice -/
theorem unbacked_of_indexAll_false {t : PT} (hS : Struct t) {vis : List Nat} (hl : vis.length ≤ t.vaxes.length)
    {pi : Pi} (h : indexAll (t.vaxes.zip vis) [] = some (false, pi)) (rest : List Nat) (ρ : Nat → Nat) :
    ¬ Backs t (vis ++ rest) ρ := by
  intro hb
  have s := indexAll_spec _ _ _ _ h
  refine s.fls rfl ρ ?_ (agrees_nil ρ) ?_
  · intro q hq
    obtain ⟨e, he, hqe⟩ := (mem_fvAll_zip _ _ hl q).1 hq
    exact hb.1 q (hS.fvsub e (List.mem_of_mem_take he) q hqe)
  · show (t.vaxes.zip vis).map (fun p => p.1.eval ρ) = (t.vaxes.zip vis).map (·.2)
    rw [zip_map_eval _ _ hl, zip_map_snd _ _ hl]
    have h2 := hb.2
    conv_lhs at h2 => rw [← List.take_append_drop vis.length t.vaxes, List.map_append]
    exact (List.append_inj h2 (by rw [List.length_map, List.length_take]; exact Nat.min_eq_left hl)).1

/-! ### `full` -/

/-- the tensor `full` passes to the constructor -/
def fullRaw (shape : List Nat) (value : Ext) (next : Nat) : PT :=
  { physical := List.replicate (Ax.numel shape) value,
    paxes := shape.zipIdx.map (fun (n, i) => (next + i, n)),
    vaxes := shape.zipIdx.map (fun (n, i) => Axis.phys (next + i) n),
    default := value }

theorem full_eq (shape : List Nat) (value : Ext) (next : Nat) : full shape value next = normalize (fullRaw shape value next) :=
  rfl

theorem fullRaw_sizes (shape : List Nat) (value : Ext) (next : Nat) :
    (fullRaw shape value next).paxes.map (·.2) = shape := by
  unfold fullRaw
  simp only [List.map_map]
  have : ((fun x : Nat × Nat => x.2) ∘ fun x : Nat × Nat => (next + x.2, x.1)) = Prod.fst := rfl
  rw [this, List.zipIdx_map_fst]

theorem fullRaw_normOK (shape : List Nat) (value : Ext) (next : Nat) : NormOK (fullRaw shape value next) where
  len := by rw [fullRaw_sizes]; simp [fullRaw]
  nodup := by
    unfold fullRaw
    simp only [List.map_map]
    have : ((fun x : Nat × Nat => x.1) ∘ fun x : Nat × Nat => (next + x.2, x.1)) = (fun i => next + i) ∘ Prod.snd := rfl
    rw [this, ← List.map_map, List.zipIdx_map_snd]
    exact List.Nodup.map (fun a b hab => by simpa using hab) (List.nodup_range' 1)
  fvsub := by
    intro e he q hq
    obtain ⟨x, hx, rfl⟩ := List.mem_map.1 he
    simp only [Axis.fv, List.mem_singleton] at hq
    subst hq
    exact List.mem_map.2 ⟨x, hx, rfl⟩
  occ := by
    intro p hp
    obtain ⟨x, hx, rfl⟩ := List.mem_map.1 hp
    exact ⟨_, List.mem_map.2 ⟨x, hx, rfl⟩, by simp [Axis.fv]⟩
  top := by
    intro g hg
    obtain ⟨x, hx, rfl⟩ := List.mem_map.1 hg
    by_cases h1 : x.1 = 1
    · left; exact ⟨next + x.2, by simp [h1]⟩
    · right
      intro q hq
      simp only [Axis.fv, List.mem_singleton] at hq
      subst hq
      exact h1

theorem fullRaw_vshape (shape : List Nat) (value : Ext) (next : Nat) : (fullRaw shape value next).vshape = shape := by
  unfold fullRaw PT.vshape
  simp only [List.map_map]
  have : (Axis.numel ∘ fun x : Nat × Nat => Axis.phys (next + x.2) x.1) = Prod.fst := by
    funext x; simp [Axis.numel]
  rw [this, List.zipIdx_map_fst]

theorem full_spec (shape : List Nat) (value : Ext) (next : Nat) :
    (full shape value next).wf = true ∧ (full shape value next).vshape = shape ∧
      ∀ c ∈ assigns shape, (full shape value next).dense[flat shape c]? = some value := by
  have hN := fullRaw_normOK shape value next
  obtain ⟨h1, h2, h3⟩ := normalize_spec hN
  rw [← full_eq] at h1 h2 h3
  rw [fullRaw_vshape] at h2
  refine ⟨h1, h2, ?_⟩
  intro c hc
  rw [h3]
  have hs : Sem (fullRaw shape value next) := sem_of_occ hN.nodup hN.fvsub hN.occ
  have hv := fullRaw_vshape shape value next
  by_cases hb : ∃ ρ, Backs (fullRaw shape value next) c ρ
  · obtain ⟨ρ, hb⟩ := hb
    have := dense_backed hs hb
    rw [hv] at this
    rw [this]
    congr 1
    show (List.replicate (Ax.numel shape) value)[_]?.getD value = value
    rw [List.getElem?_replicate]
    split <;> rfl
  · have := dense_unbacked hs (by rw [hv]; exact hc) (fun ρ hρ => hb ⟨ρ, hρ⟩)
    rw [hv] at this
    exact this

/-! ### the hypotheses of the theorems, as the lemmas want them -/

theorem zip_getElem_facts (t : PT) (vis : List Nat) (hl : vis.length ≤ t.vaxes.length) (j : Nat) (hj : j < vis.length) :
    ∃ hj' : j < (t.vaxes.zip vis).length, ((t.vaxes.zip vis)[j]).2 = vis[j]?.getD 0 ∧
      ((t.vaxes.zip vis)[j]).1.numel = t.vshape[j]?.getD 0 := by
  have h1 : j < (t.vaxes.zip vis).length := by rw [List.length_zip]; omega
  have h2 : j < t.vaxes.length := by omega
  refine ⟨h1, ?_, ?_⟩
  · rw [List.getElem_zip, List.getElem?_eq_getElem hj]; rfl
  · rw [List.getElem_zip]
    simp [PT.vshape, List.getElem?_eq_getElem h2]

theorem inRange_zip (t : PT) (vis : List Nat) (hl : vis.length ≤ t.vaxes.length)
    (hr : ∀ i, i < vis.length → vis[i]?.getD 0 < t.vshape[i]?.getD 0) : ∀ p ∈ t.vaxes.zip vis, p.2 < p.1.numel := by
  intro p hp
  obtain ⟨j, hj, rfl⟩ := List.getElem_of_mem hp
  have hj' : j < vis.length := by rw [List.length_zip] at hj; omega
  obtain ⟨_, e1, e2⟩ := zip_getElem_facts t vis hl j hj'
  rw [e1, e2]; exact hr j hj'

theorem inRange_forall₂ (t : PT) (vis : List Nat) (hl : vis.length ≤ t.vaxes.length)
    (hr : ∀ i, i < vis.length → vis[i]?.getD 0 < t.vshape[i]?.getD 0) :
    List.Forall₂ (· < ·) vis (t.vshape.take vis.length) := by
  have hlen : t.vshape.length = t.vaxes.length := by simp [PT.vshape]
  rw [List.forall₂_iff_get]
  refine ⟨by rw [List.length_take, hlen]; omega, ?_⟩
  intro i h1 h2
  have := hr i h1
  have h3 : i < t.vshape.length := by omega
  rw [List.getElem?_eq_getElem h1, List.getElem?_eq_getElem h3] at this
  simpa using this

theorem vshape_drop (t : PT) (m : Nat) : (t.vaxes.drop m).map Axis.numel = t.vshape.drop m := by
  simp [PT.vshape, List.map_drop]

end C06gL
