/-
Helper lemmas for Props/C09c.lean, part 5: the specification side (`blockAffine`, `cellsB`) in the dense view,
`multi_mv`, and the transposing pre-processing fold of `multi_solve`.
-/
import FggsModel.Multi
import FggsProofs.C09cAlgLemmas
import FggsProofs.C09cDictLemmas
import FggsProofs.C09cStepLemmas
import FggsProofs.C09cLemmas
import Mathlib.Data.List.Nodup

set_option linter.unusedSimpArgs false
set_option linter.unusedVariables false

namespace C09cL
open Fggs Fggs.Sem Fggs.Sv Fggs.Ms C09bL

variable {K : Type}

/-! ### lists of cells -/

theorem list_eq_of_getV (S : SR K) (n : Nat) (l l' : List K) (hl : l.length = n) (hl' : l'.length = n)
    (h : ∀ i, i < n → getV S l i = getV S l' i) : l = l' := by
  apply List.ext_getElem (by rw [hl, hl'])
  intro i h1 h2
  have := h i (by rw [← hl]; exact h1)
  simpa [getV, h1, h2] using this

theorem cellsB_length (S : SR K) (sz : Nat → Nat) (b : VBlocks K) (x : Nat) : (cellsB S sz b x).length = sz x := by
  unfold cellsB
  split <;> simp

theorem getV_cellsB (S : SR K) (sz : Nat → Nat) (b : VBlocks K) (x i : Nat) (hi : i < sz x) :
    getV S (cellsB S sz b x) i = dB S b x i := by
  cases hb : getB b x with
  | some v =>
    have e : cellsB S sz b x = (List.range (sz x)).map (fun i => getV S v i) := by unfold cellsB; rw [hb]
    rw [e, dB_some S b x v hb]
    exact getV_tab S _ _ i hi
  | none =>
    have e : cellsB S sz b x = List.replicate (sz x) S.zero := by unfold cellsB; rw [hb]
    rw [e, dB_none S b x hb]
    simp [getV, hi]

/-! ### `blockAffine` -/

def affF (S : SR K) (sz : Nat → Nat) (a : MBlocks K) (y : VBlocks K) (x : Nat) : List K → Nat → List K :=
  fun acc y' =>
    match getA a x y', getB y y' with
    | some axy, some yv => vecAdd S (sz x) acc (matVec S (sz x) (sz y') axy yv)
    | _, _ => acc

theorem affF_spec {S : SR K} (hS : C01.SRLaws S) (sz : Nat → Nat) (a : MBlocks K) (y : VBlocks K) (x : Nat)
    (acc : List K) (y' : Nat) (hacc : acc.length = sz x) :
    (affF S sz a y x acc y').length = sz x ∧
    ∀ i, i < sz x → getV S (affF S sz a y x acc y') i =
      S.add (getV S acc i) (dot S (sz y') (dA S a x y' i) (dB S y y')) := by
  unfold affF
  split
  · rename_i axy yv h1 h2
    refine ⟨by simp [vecAdd], ?_⟩
    intro i hi
    rw [getV_vecAdd S _ _ _ i hi, getV_matVec S _ _ _ _ i hi, dA_some S a x y' axy h1, dB_some S y y' yv h2]
  · rename_i hno
    refine ⟨hacc, ?_⟩
    intro i hi
    have : dot S (sz y') (dA S a x y' i) (dB S y y') = S.zero := by
      cases h1 : getA a x y' with
      | none => rw [dA_none S a x y' h1]; exact dot_zero_left hS _ _ _ (fun _ _ => rfl)
      | some axy =>
        cases h2 : getB y y' with
        | none => rw [dB_none S y y' h2]; exact dot_zero_right hS _ _ _ (fun _ _ => rfl)
        | some yv => exact absurd h2 (hno axy yv h1)
    rw [this, add_zero hS]

theorem affFold {S : SR K} (hS : C01.SRLaws S) (sz : Nat → Nat) (a : MBlocks K) (y : VBlocks K) (x : Nat) :
    ∀ (nts : List Nat) (acc : List K), acc.length = sz x →
      (nts.foldl (affF S sz a y x) acc).length = sz x ∧
      ∀ i, i < sz x → getV S (nts.foldl (affF S sz a y x) acc) i =
        S.add (getV S acc i) (rowSum S sz (dA S a) nts (dB S y) x i) := by
  intro nts
  induction nts with
  | nil =>
    intro acc hacc
    refine ⟨hacc, fun i _ => ?_⟩
    rw [List.foldl_nil, rowSum_nil, add_zero hS]
  | cons y0 nts ih =>
    intro acc hacc
    obtain ⟨s1, s2⟩ := affF_spec hS sz a y x acc y0 hacc
    obtain ⟨i1, i2⟩ := ih (affF S sz a y x acc y0) s1
    rw [List.foldl_cons]
    refine ⟨i1, fun i hi => ?_⟩
    rw [i2 i hi, s2 i hi, rowSum_cons hS, hS.add_assoc]

theorem blockAffine_spec {S : SR K} (hS : C01.SRLaws S) (sz : Nat → Nat) (nts : List Nat) (a : MBlocks K)
    (b y : VBlocks K) (x : Nat) :
    (blockAffine S sz nts a b y x).length = sz x ∧
    ∀ i, i < sz x → getV S (blockAffine S sz nts a b y x) i =
      S.add (rowSum S sz (dA S a) nts (dB S y) x i) (dB S b x i) := by
  obtain ⟨f1, f2⟩ := affFold hS sz a y x nts (List.replicate (sz x) S.zero) (by simp)
  have hz : ∀ i, i < sz x → getV S (List.replicate (sz x) S.zero) i = S.zero := by
    intro i hi; simp [getV, hi]
  have e : blockAffine S sz nts a b y x =
      match getB b x with
      | some bx => vecAdd S (sz x) (nts.foldl (affF S sz a y x) (List.replicate (sz x) S.zero)) bx
      | none => nts.foldl (affF S sz a y x) (List.replicate (sz x) S.zero) := rfl
  rw [e]
  cases hb : getB b x with
  | none =>
    simp only
    refine ⟨f1, fun i hi => ?_⟩
    rw [f2 i hi, hz i hi, hS.zero_add, dB_none S b x hb, add_zero hS]
  | some bx =>
    simp only
    refine ⟨by simp [vecAdd], fun i hi => ?_⟩
    rw [getV_vecAdd S _ _ _ i hi, f2 i hi, hz i hi, hS.zero_add, dB_some S b x bx hb]

/-! ### the transposing fold -/

theorem setA_fresh (a : MBlocks K) (x y : Nat) (m : Mat K) (h : ∀ q ∈ a, q.1 ≠ (x, y)) :
    setA a x y m = a ++ [((x, y), m)] := by
  unfold setA
  rw [if_neg]
  intro hany
  rw [List.any_eq_true] at hany
  obtain ⟨q, hq, hqe⟩ := hany
  exact h q hq (by simpa using hqe)

theorem transpose_fold (S : SR K) (sz : Nat → Nat) :
    ∀ (l acc : MBlocks K), (∀ p ∈ l, ∀ q ∈ acc, q.1 ≠ (p.1.2, p.1.1)) →
      (l.map (fun p => (p.1.2, p.1.1))).Nodup →
      l.foldl (fun acc p => setA acc p.1.2 p.1.1 (transpose S (sz p.1.1) (sz p.1.2) p.2)) acc =
        acc ++ l.map (fun p => ((p.1.2, p.1.1), transpose S (sz p.1.1) (sz p.1.2) p.2)) := by
  intro l
  induction l with
  | nil => intro acc _ _; simp
  | cons p l ih =>
    intro acc hfresh hnd
    rw [List.map_cons, List.nodup_cons] at hnd
    rw [List.foldl_cons, setA_fresh acc _ _ _ (hfresh p (List.mem_cons_self ..)), ih _ _ hnd.2]
    · simp
    · intro p' hp' q hq
      rcases List.mem_append.1 hq with hq | hq
      · exact hfresh p' (List.mem_cons_of_mem _ hp') q hq
      · simp only [List.mem_singleton] at hq
        subst hq
        intro e
        apply hnd.1
        rw [List.mem_map]
        exact ⟨p', hp', e.symm⟩

theorem transpose_fold_nil (S : SR K) (sz : Nat → Nat) (a : MBlocks K) (hnd : (a.map (fun p => p.1)).Nodup) :
    a.foldl (fun acc p => setA acc p.1.2 p.1.1 (transpose S (sz p.1.1) (sz p.1.2) p.2)) [] =
      a.map (fun p => ((p.1.2, p.1.1), transpose S (sz p.1.1) (sz p.1.2) p.2)) := by
  rw [transpose_fold S sz a [] (fun _ _ q hq => absurd hq List.not_mem_nil)]
  · simp
  · have : a.map (fun p => (p.1.2, p.1.1)) = (a.map (fun p => p.1)).map Prod.swap := by
      rw [List.map_map]; rfl
    rw [this]
    exact hnd.map Prod.swap_injective

/-! ### `multi_mv` -/

def mvF (S : SR K) (sz : Nat → Nat) (b : VBlocks K) : VBlocks K → (Nat × Nat) × Mat K → VBlocks K :=
  fun c p =>
    match getB b p.1.2 with
    | some bY => addB S c p.1.1 (sz p.1.1) (matVec S (sz p.1.1) (sz p.1.2) p.2 bY)
    | none => c

theorem multiMv_eq (S : SR K) (sz : Nat → Nat) (a : MBlocks K) (b : VBlocks K) :
    multiMv S sz a b false = a.foldl (mvF S sz b) [] := by
  unfold multiMv
  congr 1

theorem mvF_spec {S : SR K} (hS : C01.SRLaws S) (sz : Nat → Nat) (b c : VBlocks K) (p : (Nat × Nat) × Mat K)
    (x i : Nat) (hi : i < sz x) :
    dB S (mvF S sz b c p) x i =
      S.add (dB S c x i) (if p.1.1 = x then dot S (sz p.1.2) (matGet S p.2 i) (dB S b p.1.2) else S.zero) := by
  unfold mvF
  split
  · rename_i bY hbY
    by_cases hx : p.1.1 = x
    · subst hx
      rw [if_pos rfl, dB_addB hS c _ _ _ i hi, getV_matVec S _ _ _ _ i hi, dB_some S b _ bY hbY]
    · rw [if_neg hx, add_zero hS, dB_congr S _ c x (getB_addB_ne S c _ _ _ x (fun e => hx e.symm))]
  · rename_i hnone
    rw [dB_none S b _ hnone, dot_zero_right hS _ _ _ (fun _ _ => rfl)]
    simp only [ite_self, add_zero hS]

theorem mvFold {S : SR K} (hS : C01.SRLaws S) (sz : Nat → Nat) (b : VBlocks K) (x i : Nat) (hi : i < sz x) :
    ∀ (l : MBlocks K) (c : VBlocks K), dB S (l.foldl (mvF S sz b) c) x i =
      S.add (dB S c x i) (S.sum (l.map (fun p =>
        if p.1.1 = x then dot S (sz p.1.2) (matGet S p.2 i) (dB S b p.1.2) else S.zero))) := by
  intro l
  induction l with
  | nil => intro c; rw [List.foldl_nil, List.map_nil, sum_nil', add_zero hS]
  | cons p l ih =>
    intro c
    rw [List.foldl_cons, ih, mvF_spec hS sz b c p x i hi, List.map_cons, sum_cons hS, hS.add_assoc]

theorem lookup_none_of_not_mem {α β : Type} [BEq α] [LawfulBEq α] (l : List (α × β)) (k : α)
    (h : k ∉ l.map (fun p => p.1)) : l.lookup k = none := by
  induction l with
  | nil => rfl
  | cons p l ih =>
    obtain ⟨pk, pv⟩ := p
    simp only [List.map_cons, List.mem_cons, not_or] at h
    have : (k == pk) = false := by simpa using h.1
    simp only [List.lookup_cons, this, ih h.2]

/-- the sum over the dictionary entries of row `x` is the sum over the nonterminals -/
theorem sum_dict_row {S : SR K} (hS : C01.SRLaws S) (nts : List Nat) (hnts : nts.Nodup) (x i : Nat)
    (F : Nat → (Nat → K) → K) (hF : ∀ y, F y (fun _ => S.zero) = S.zero) :
    ∀ (a : MBlocks K), (∀ p ∈ a, p.1.2 ∈ nts) → (a.map (fun p => p.1)).Nodup →
      S.sum (a.map (fun p => if p.1.1 = x then F p.1.2 (matGet S p.2 i) else S.zero)) =
        S.sum (nts.map (fun y => F y (dA S a x y i))) := by
  intro a
  induction a with
  | nil =>
    intro _ _
    rw [List.map_nil, sum_nil', sum_map_zero' hS]
    intro y _
    exact hF y
  | cons p a ih =>
    intro hkeys hnd
    rw [List.map_cons, List.nodup_cons] at hnd
    rw [List.map_cons, sum_cons hS, ih (fun q hq => hkeys q (List.mem_cons_of_mem _ hq)) hnd.2]
    obtain ⟨⟨px, py⟩, pm⟩ := p
    have hget : ∀ y, getA (((px, py), pm) :: a) x y = if (x, y) = (px, py) then some pm else getA a x y := by
      intro y
      unfold getA
      rw [List.lookup_cons]
      by_cases e : (x, y) = (px, py)
      · rw [if_pos e]
        have : ((x, y) == (px, py)) = true := by simpa using e
        rw [this]
      · rw [if_neg e]
        have : ((x, y) == (px, py)) = false := by simpa using e
        rw [this]
    by_cases hx : px = x
    · subst hx
      simp only [if_true]
      have hpy : py ∈ nts := hkeys _ (List.mem_cons_self ..)
      have hnone : dA S a px py = fun _ _ => S.zero :=
        dA_none S a px py (lookup_none_of_not_mem a (px, py) hnd.1)
      have e : ∀ y ∈ nts, F y (dA S (((px, py), pm) :: a) px y i) =
          S.add (if y = py then F py (matGet S pm i) else S.zero) (F y (dA S a px y i)) := by
        intro y _
        by_cases hy : y = py
        · subst hy
          rw [if_pos rfl, hnone, hF, add_zero hS, dA_some S _ px y pm (by rw [hget, if_pos rfl])]
        · rw [if_neg hy, hS.zero_add, dA_congr S (((px, py), pm) :: a) a px y (by
            rw [hget, if_neg]; intro e; injection e with _ e2; exact hy e2)]
      rw [sum_map_congr nts _ _ e, sum_map_add hS, sum_single hS nts hnts py hpy]
    · rw [if_neg hx, hS.zero_add]
      apply sum_map_congr
      intro y _
      rw [dA_congr S (((px, py), pm) :: a) a x y (by
        rw [hget, if_neg]; intro e; injection e with e1 _; exact hx e1.symm)]

end C09cL
