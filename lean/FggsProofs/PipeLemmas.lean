/-
PipeLemmas — shared facts about the pipeline model (`FggsModel.Pipeline`): well-formed grammars, the model of the
code's `F` (`Impl.F`, built from `sum_product_edges`) against the specification `F` cell by cell, locality of `F`,
and the component order delivered by the Tarjan model on the nonterminal graph.
-/
import FggsModel.Pipeline
import FggsProofs.Props.C01
import FggsProofs.Props.C01b
import FggsProofs.Props.C02b
import FggsProofs.Props.C19
import FggsProofs.Props.C19b
import Mathlib.Tactic.Linarith
import Mathlib.Data.List.Basic

set_option linter.unusedSimpArgs false
set_option linter.unusedVariables false

namespace PipeL
open Fggs Fggs.Sem Fggs.Pipe

variable {K : Type}

/-- a grammar as the library builds it: every rule belongs to a declared nonterminal, its external nodes have the
type of its left-hand side, positions are in range and edges are typed by their labels -/
structure GrammarWF (G : Grammar K) : Prop where
  lhs : ∀ r ∈ G.rules, r.lhs < G.nts.length
  ext : ∀ r ∈ G.rules, r.ext.map (fun v => r.nodes[v]?.getD 0) = G.nts[r.lhs]?.getD []
  rule : ∀ r ∈ G.rules, C01.RuleWF G r

/-! ### index arithmetic (copies of private lemmas of C01) -/

theorem foldl_mul_nat (l : List Nat) (a : Nat) : l.foldl (· * ·) a = a * l.foldl (· * ·) 1 := by
  induction l generalizing a with
  | nil => simp
  | cons b l ih => simp only [List.foldl_cons]; rw [ih, ih (1 * b)]; ring

theorem numel_cons (n : Nat) (rest : List Nat) : numel (n :: rest) = n * numel rest := by
  unfold numel; rw [List.foldl_cons, foldl_mul_nat]; ring

theorem length_flatMap_uniform {α β : Type} (l : List α) (g : α → List β) (m : Nat)
    (hg : ∀ x ∈ l, (g x).length = m) : (l.flatMap g).length = l.length * m := by
  induction l with
  | nil => simp
  | cons a l ih =>
    rw [List.flatMap_cons, List.length_append, ih (fun x hx => hg x (List.mem_cons_of_mem _ hx)),
      hg a (List.mem_cons_self ..), List.length_cons]; ring

theorem length_assigns (shape : List Nat) : (assigns shape).length = numel shape := by
  induction shape with
  | nil => rfl
  | cons n rest ih =>
    rw [assigns, length_flatMap_uniform _ _ (numel rest) (by intro x _; simp [ih]), numel_cons]
    simp

/-! ### `cellsOf` -/

theorem cellsOf_eq_getD (S : SR K) (G : Grammar K) (v : Val K) (X : Nat) :
    cellsOf S G v X = (v[X]?.join).getD (List.replicate (numel (G.shapeOf (G.nts[X]?.getD []))) S.zero) := by
  unfold cellsOf
  cases v[X]?.join <;> rfl

/-- `cellsOf` only looks at the entry `X` -/
theorem cellsOf_congr_entry (S : SR K) (G : Grammar K) (v w : Val K) (X : Nat)
    (h : v[X]?.join = w[X]?.join) : cellsOf S G v X = cellsOf S G w X := by
  rw [cellsOf_eq_getD, cellsOf_eq_getD, h]

/-- reading a cell through `valCell` is reading the tensor `cellsOf` -/
theorem valCell_eq_getT (S : SR K) (G : Grammar K) (v : Val K) (X : Nat) (a : List Nat) :
    C01.valCell S G v X a = getT S (cellsOf S G v X) (G.shapeOf (G.nts[X]?.getD [])) a := by
  unfold C01.valCell cellsOf
  cases v[X]?.join with
  | some t => rfl
  | none =>
    simp only [getT]
    rw [List.getElem?_replicate]
    split <;> rfl

theorem edgeWeight_nt_cells (S : SR K) (G : Grammar K) (x : Val K) (l : Nat) (idx : List Nat)
    (h : ¬ l < G.T) : edgeWeight S G x l idx =
      getT S (cellsOf S G x (l - G.T)) (G.shapeOf (G.nts[l - G.T]?.getD [])) idx := by
  rw [← valCell_eq_getT]
  simp only [edgeWeight, C01.valCell, Grammar.labelType, h, if_false]
  rfl

theorem ruleCell_congr (S : SR K) (G : Grammar K) (x x' : Val K) (r : Rule)
    (h : ∀ Y ∈ ntEdgesOf G r, cellsOf S G x Y = cellsOf S G x' Y) (a : List Nat) :
    ruleCell S G x r a = ruleCell S G x' r a := by
  unfold ruleCell
  congr 1
  apply List.map_congr_left
  intro ρ _
  congr 1
  apply List.map_congr_left
  intro e he
  by_cases hT : e.1 < G.T
  · simp [edgeWeight, hT]
  · rw [edgeWeight_nt_cells _ _ _ _ _ hT, edgeWeight_nt_cells _ _ _ _ _ hT, h]
    unfold ntEdgesOf
    exact List.mem_map.2 ⟨e, List.mem_filter.2 ⟨he, by simpa using hT⟩, rfl⟩

theorem ruleValue_congr (S : SR K) (G : Grammar K) (x x' : Val K) (r : Rule)
    (h : ∀ Y ∈ ntEdgesOf G r, cellsOf S G x Y = cellsOf S G x' Y) :
    ruleValue S G x r = ruleValue S G x' r := by
  unfold ruleValue
  apply List.map_congr_left
  intro a _
  exact ruleCell_congr S G x x' r h a

theorem F_entry (S : SR K) (G : Grammar K) (x : Val K) (X : Nat) (hX : X < G.nts.length) :
    (F S G x)[X]?.join = some ((G.rulesOf X).foldl (fun acc r => addT S acc (ruleValue S G x r))
      (List.replicate (numel (G.shapeOf (G.nts[X]?.getD []))) S.zero)) := by
  unfold F
  rw [List.getElem?_map, List.getElem?_range hX]
  rfl

theorem F_entry_none (S : SR K) (G : Grammar K) (x : Val K) (X : Nat) (hX : ¬ X < G.nts.length) :
    (F S G x)[X]?.join = none := by
  unfold F
  rw [List.getElem?_map, List.getElem?_eq_none (by simpa using hX)]
  rfl

theorem implF_entry (S : SR K) (G : Grammar K) (x : Val K) (X : Nat) (hX : X < G.nts.length) :
    (Impl.F S G x)[X]?.join = (G.rulesOf X).foldl (fun (acc : Option (List K)) r =>
      match Impl.sumProductEdges S G x r.nodes r.edges r.ext with
      | none => acc
      | some t => match acc with
        | none => some t
        | some a => some (addT S a t)) none := by
  unfold Impl.F
  rw [List.getElem?_map, List.getElem?_range hX]
  rfl

theorem addT_zero_right (S : SR K) (hS : C01.SRLaws S) (a : List K) (m : Nat) (h : a.length = m) :
    addT S a (List.replicate m S.zero) = a := by
  induction a generalizing m with
  | nil => simp [addT]
  | cons y a ih =>
    cases m with
    | zero => simp at h
    | succ m =>
      simp only [List.length_cons, Nat.add_right_cancel_iff] at h
      have := ih m h
      unfold addT at this ⊢
      rw [List.replicate_succ, List.zipWith_cons_cons, this, hS.add_comm, hS.zero_add]

theorem addT_zero_left (S : SR K) (hS : C01.SRLaws S) (a : List K) (m : Nat) (h : a.length = m) :
    addT S (List.replicate m S.zero) a = a := by
  induction a generalizing m with
  | nil => simp [addT]
  | cons y a ih =>
    cases m with
    | zero => simp at h
    | succ m =>
      simp only [List.length_cons, Nat.add_right_cancel_iff] at h
      have := ih m h
      unfold addT at this ⊢
      rw [List.replicate_succ, List.zipWith_cons_cons, this, hS.zero_add]

theorem implFold_eq (S : SR K) (hS : C01.SRLaws S) (G : Grammar K) (x : Val K) (m : Nat) (rs : List Rule)
    (hrs : ∀ r ∈ rs, C01.RuleWF G r ∧ (ruleValue S G x r).length = m)
    (acc : Option (List K)) (hacc : ∀ a, acc = some a → a.length = m) :
    (rs.foldl (fun (acc : Option (List K)) r =>
      match Impl.sumProductEdges S G x r.nodes r.edges r.ext with
      | none => acc
      | some t => match acc with
        | none => some t
        | some a => some (addT S a t)) acc).getD (List.replicate m S.zero)
    = rs.foldl (fun acc r => addT S acc (ruleValue S G x r)) (acc.getD (List.replicate m S.zero)) := by
  induction rs generalizing acc with
  | nil => rfl
  | cons r rs ih =>
    obtain ⟨hwf, hlen⟩ := hrs r (List.mem_cons_self ..)
    have hrs' : ∀ r ∈ rs, C01.RuleWF G r ∧ (ruleValue S G x r).length = m :=
      fun r hr => hrs r (List.mem_cons_of_mem _ hr)
    have haccD : (acc.getD (List.replicate m S.zero)).length = m := by
      cases acc with
      | none => simp
      | some a => simpa using hacc a rfl
    rw [List.foldl_cons, List.foldl_cons]
    cases hsp : Impl.sumProductEdges S G x r.nodes r.edges r.ext with
    | none =>
      simp only
      rw [ih hrs' acc hacc]
      congr 1
      have hnv : ¬ C01.allValued G x r := by
        intro hv
        have := (C01.sumProductEdges_isSome_iff S G x r).2 hv
        rw [hsp] at this
        simp at this
      have hz : ruleValue S G x r = List.replicate m S.zero := by
        have h1 : ruleValue S G x r = (assigns (G.shapeOf (r.ext.map (fun v => r.nodes[v]?.getD 0)))).map
            (fun _ => S.zero) := by
          unfold ruleValue
          apply List.map_congr_left
          intro a _
          exact C01.ruleCell_zero_of_missing S hS G x r hnv a
        rw [h1, List.map_const']
        congr 1
        rw [← hlen]
        unfold ruleValue
        simp
      rw [hz, addT_zero_right S hS _ m haccD]
    | some t =>
      have ht : t = ruleValue S G x r := C01.sumProductEdges_eq_ruleValue S hS G x r hwf t hsp
      subst ht
      cases acc with
      | none =>
        simp only
        rw [ih hrs' _ (by intro a ha; cases ha; exact hlen)]
        congr 1
        simp only [Option.getD_some, Option.getD_none]
        rw [addT_zero_left S hS _ m hlen]
      | some a =>
        simp only
        have ha : a.length = m := hacc a rfl
        rw [ih hrs' _ (by intro b hb; cases hb; simp [addT, ha, hlen])]
        rfl

/-- the code's `F` (a rule whose `sum_product_edges` is `None` is skipped; no rule at all gives no entry) has the
same cells as the specification `F` (a zero tensor plus every rule's value) -/
theorem cellsOf_implF (S : SR K) (hS : C01.SRLaws S) (G : Grammar K) (hG : GrammarWF G) (x : Val K)
    (X : Nat) (hX : X < G.nts.length) :
    cellsOf S G (Impl.F S G x) X = cellsOf S G (F S G x) X := by
  rw [cellsOf_eq_getD, cellsOf_eq_getD, F_entry S G x X hX, implF_entry S G x X hX, Option.getD_some]
  rw [implFold_eq S hS G x _ (G.rulesOf X) _ none (by intro a ha; cases ha)]
  · rfl
  · intro r hr
    have hmem := List.mem_filter.1 hr
    have hl : r.lhs = X := by simpa using hmem.2
    refine ⟨hG.rule r hmem.1, ?_⟩
    unfold ruleValue
    rw [List.length_map, length_assigns, hG.ext r hmem.1, hl]

/-- `F[X]` reads only the nonterminals that occur in the rules of `X` -/
theorem cellsOf_F_congr (S : SR K) (G : Grammar K) (x x' : Val K) (X : Nat)
    (h : ∀ r ∈ G.rulesOf X, ∀ Y ∈ ntEdgesOf G r, cellsOf S G x Y = cellsOf S G x' Y) :
    cellsOf S G (F S G x) X = cellsOf S G (F S G x') X := by
  by_cases hX : X < G.nts.length
  · rw [cellsOf_eq_getD, cellsOf_eq_getD, F_entry S G x X hX, F_entry S G x' X hX]
    congr 2
    apply List.foldl_ext
    intro acc r hr
    rw [ruleValue_congr S G x x' r (h r hr)]
  · rw [cellsOf_eq_getD, cellsOf_eq_getD, F_entry_none S G x X hX, F_entry_none S G x' X hX]

theorem verts_ntGraph (G : Grammar K) : Scc.verts (ntGraph G) = List.range G.nts.length := by
  unfold ntGraph
  rw [C19.ntgraph_keys]
  rfl

theorem succs_ntGraph (G : Grammar K) (X Y : Nat) (hX : X < G.nts.length) :
    Y ∈ Scc.succs (ntGraph G) X ↔ ∃ r ∈ G.rulesOf X, Y ∈ ntEdgesOf G r := by
  unfold ntGraph
  rw [C19.ntgraph_edge_iff (ntView G) X Y (by simpa [ntView] using hX)]
  simp only [ntView, List.mem_map]
  constructor
  · rintro ⟨p, ⟨r, hr, rfl⟩, h1, h2⟩
    exact ⟨r, List.mem_filter.2 ⟨hr, by simpa using h1⟩, h2⟩
  · rintro ⟨r, hr, hY⟩
    have hmem := List.mem_filter.1 hr
    exact ⟨_, ⟨r, hmem.1, rfl⟩, by simpa using hmem.2, hY⟩

theorem succs_ntGraph_nil (G : Grammar K) (X : Nat) (hX : ¬ X < G.nts.length) :
    Scc.succs (ntGraph G) X = [] := by
  unfold Scc.succs
  have : (ntGraph G).lookup X = none := by
    rw [List.lookup_eq_none_iff]
    intro p hp
    have : p.1 ∈ Scc.verts (ntGraph G) := List.mem_map.2 ⟨p, hp, rfl⟩
    rw [verts_ntGraph, List.mem_range] at this
    simp only [bne_iff_ne, ne_eq]
    omega
  rw [this]; rfl

theorem ntEdgesOf_lt (G : Grammar K) (hG : GrammarWF G) (r : Rule) (hr : r ∈ G.rules) (Y : Nat)
    (hY : Y ∈ ntEdgesOf G r) : Y < G.nts.length := by
  unfold ntEdgesOf at hY
  obtain ⟨e, he, rfl⟩ := List.mem_map.1 hY
  have hmem := List.mem_filter.1 he
  have h1 := (hG.rule r hr).labels e hmem.1
  have h2 : e.1 ≥ G.T := by simpa using hmem.2
  omega

theorem graphOK_ntGraph (G : Grammar K) (hG : GrammarWF G) : C19.GraphOK (ntGraph G) := by
  constructor
  · rw [verts_ntGraph]; exact List.nodup_range
  · intro v w hw
    rw [verts_ntGraph, List.mem_range]
    by_cases hv : v < G.nts.length
    · obtain ⟨r, hr, hY⟩ := (succs_ntGraph G v w hv).1 hw
      exact ntEdgesOf_lt G hG r (List.mem_filter.1 hr).1 w hY
    · rw [succs_ntGraph_nil G v hv] at hw
      simp at hw

/-- the component list used by `sum_products` — the Tarjan model run on the nonterminal graph — partitions the
nonterminals into strongly connected sets, callees first: no rule of a component mentions a nonterminal of a
later component -/
theorem sccOrder_ok (G : Grammar K) (hG : GrammarWF G) : C19.SccOk (ntGraph G) (sccOrder G) :=
  C19.scc_ok (ntGraph G) (graphOK_ntGraph G hG)

end PipeL
