/-
C09dRenameLemmas — helpers for Props/C09d.lean, part 1: renaming the physical axes of an axis through an association
list (`Ps.renameAxis`, the model of `freshen(rename)`): sizes, free axes, meaning; the association lists built by
`solve` from `zipIdx` (`renOf`); a patterned tensor whose physical axes are renamed injectively denotes the same dense
tensor (`rename_struct`, `rename_dense`: the `b.clone()` branch of `solve`).
-/
import FggsModel.PatSolve
import FggsProofs.Props.C06
import FggsProofs.C06bLemmas
import FggsProofs.C06dBaseLemmas
import FggsProofs.C06dSideLemmas
import FggsProofs.C06iLemmas
import Mathlib.Tactic.Linarith
import Mathlib.Data.List.Basic
import Mathlib.Data.List.Nodup

set_option linter.unusedSimpArgs false
set_option linter.unusedVariables false

namespace C09dL
open Fggs Fggs.Ax Fggs.Un Fggs.Ps C06b C06dL

/-- the renaming of identities an association list denotes -/
def rf (ren : List (Nat × Nat)) (v : Nat) : Nat := (ren.lookup v).getD v

/-- renaming of a physical axis -/
def rp (ren : List (Nat × Nat)) (k : Nat × Nat) : Nat × Nat := (rf ren k.1, k.2)

theorem renameList_eq_map (ren : List (Nat × Nat)) : ∀ (fs : List Axis), renameList ren fs = fs.map (renameAxis ren)
  | [] => by rw [renameList]; rfl
  | f :: fs => by rw [renameList, renameList_eq_map ren fs]; rfl

mutual
theorem rename_numel (ren : List (Nat × Nat)) : ∀ (x : Axis), (renameAxis ren x).numel = x.numel
  | .phys v n => by rw [renameAxis]; rfl
  | .prod fs => by rw [renameAxis, Axis.numel, Axis.numel, renameList_numel ren fs]
  | .sum b t a => by rw [renameAxis, Axis.numel, Axis.numel, rename_numel ren t]
theorem renameList_numel (ren : List (Nat × Nat)) : ∀ (fs : List Axis), numelList (renameList ren fs) = numelList fs
  | [] => by rw [renameList]
  | f :: fs => by rw [renameList, numelList, numelList, rename_numel ren f, renameList_numel ren fs]
end

mutual
theorem rename_eval (ren : List (Nat × Nat)) (ρ : Nat → Nat) : ∀ (x : Axis),
    (renameAxis ren x).eval ρ = x.eval (fun v => ρ (rf ren v))
  | .phys v n => by rw [renameAxis, Axis.eval, Axis.eval]; rfl
  | .prod fs => by rw [renameAxis, Axis.eval, Axis.eval, renameList_eval ren ρ fs 0]
  | .sum b t a => by rw [renameAxis, Axis.eval, Axis.eval, rename_eval ren ρ t]
theorem renameList_eval (ren : List (Nat × Nat)) (ρ : Nat → Nat) : ∀ (fs : List Axis) (acc : Nat),
    evalList ρ (renameList ren fs) acc = evalList (fun v => ρ (rf ren v)) fs acc
  | [], acc => by rw [renameList, evalList, evalList]
  | f :: fs, acc => by
    rw [renameList, evalList, evalList, rename_numel, rename_eval ren ρ f, renameList_eval ren ρ fs]
end

mutual
theorem rename_fv (ren : List (Nat × Nat)) : ∀ (x : Axis), (renameAxis ren x).fv = x.fv.map (rp ren)
  | .phys v n => by rw [renameAxis, Axis.fv, Axis.fv]; rfl
  | .prod fs => by rw [renameAxis, Axis.fv, Axis.fv, renameList_fv ren fs]
  | .sum b t a => by rw [renameAxis, Axis.fv, Axis.fv, rename_fv ren t]
theorem renameList_fv (ren : List (Nat × Nat)) : ∀ (fs : List Axis), fvList (renameList ren fs) = (fvList fs).map (rp ren)
  | [] => by rw [renameList, fvList]; rfl
  | f :: fs => by rw [renameList, fvList, fvList, rename_fv ren f, renameList_fv ren fs, List.map_append]
end

/-! ### the association lists of `solve` -/

/-- `[(k.id, base + i) for i, k in enumerate(L)]` -/
def renOf (L : List (Nat × Nat)) (base : Nat) : List (Nat × Nat) :=
  L.zipIdx.map (fun (p : (Nat × Nat) × Nat) => (p.1.1, base + p.2))

theorem lookup_zipIdx (base v : Nat) : ∀ (L : List (Nat × Nat)) (n : Nat),
    ((L.zipIdx n).map (fun (p : (Nat × Nat) × Nat) => (p.1.1, base + p.2))).lookup v =
      if v ∈ L.map (·.1) then some (base + (n + (L.map (·.1)).idxOf v)) else none
  | [], n => by simp
  | k :: L, n => by
    rw [List.zipIdx_cons, List.map_cons, List.lookup_cons, lookup_zipIdx base v L (n+1)]
    by_cases h : v = k.1
    · subst h
      simp
    · have h' : (v == k.1) = false := by simpa using h
      rw [h']
      simp only [List.map_cons, List.mem_cons, h, false_or]
      by_cases hm : v ∈ L.map (·.1)
      · rw [if_pos hm, if_pos hm, List.idxOf_cons_ne _ (fun e => h e.symm)]
        congr 1; omega
      · rw [if_neg hm, if_neg hm]

theorem rf_renOf (L : List (Nat × Nat)) (base v : Nat) :
    rf (renOf L base) v = if v ∈ L.map (·.1) then base + (L.map (·.1)).idxOf v else v := by
  unfold rf renOf
  rw [lookup_zipIdx base v L 0]
  by_cases hm : v ∈ L.map (·.1)
  · rw [if_pos hm, if_pos hm]; simp
  · rw [if_neg hm, if_neg hm]; rfl

theorem rf_renOf_getElem {L : List (Nat × Nat)} (hnd : (L.map (·.1)).Nodup) (base : Nat) {i : Nat} (hi : i < L.length) :
    rf (renOf L base) (L[i]).1 = base + i := by
  rw [rf_renOf, if_pos (List.mem_map_of_mem (List.getElem_mem hi))]
  congr 1
  have : (L[i]).1 = (L.map (·.1))[i]'(by simpa using hi) := by simp
  rw [this]
  exact List.Nodup.idxOf_getElem hnd i (by simpa using hi)

theorem rf_renOf_mem {L : List (Nat × Nat)} (base : Nat) {v : Nat} (hv : v ∈ L.map (·.1)) :
    base ≤ rf (renOf L base) v ∧ rf (renOf L base) v < base + L.length := by
  rw [rf_renOf, if_pos hv]
  have := List.idxOf_lt_length_of_mem hv
  rw [List.length_map] at this
  omega

theorem rf_renOf_inj {L : List (Nat × Nat)} (base : Nat) {v w : Nat} (hv : v ∈ L.map (·.1)) (hw : w ∈ L.map (·.1))
    (h : rf (renOf L base) v = rf (renOf L base) w) : v = w := by
  rw [rf_renOf, rf_renOf, if_pos hv, if_pos hw] at h
  have h' : (L.map (·.1)).idxOf v = (L.map (·.1)).idxOf w := by omega
  have h1 := List.getElem_idxOf (List.idxOf_lt_length_of_mem hv)
  have h2 := List.getElem_idxOf (List.idxOf_lt_length_of_mem hw)
  rw [← h1, ← h2]
  simp only [h']

/-- the renamed list of physical axes, as `solve` writes it -/
theorem map_rp_eq (L : List (Nat × Nat)) (ren : List (Nat × Nat)) :
    L.map (fun k => ((ren.lookup k.1).getD k.1, k.2)) = L.map (rp ren) := rfl

theorem pidx_rename (ren : List (Nat × Nat)) (L : List (Nat × Nat)) (ρ : Nat → Nat) :
    pidx (L.map (rp ren)) ρ = pidx L (fun v => ρ (rf ren v)) := by
  unfold pidx
  rw [List.map_map]
  rfl

/-- reading a renamed list of axes at the renamed identity -/
theorem envOf_rename (ren : List (Nat × Nat)) (v : Nat) : ∀ (L : List (Nat × Nat)) (idx : List Nat),
    (∀ k ∈ L, rf ren k.1 = rf ren v → k.1 = v) →
    envOf (L.map (rp ren)) idx (rf ren v) = envOf L idx v
  | [], idx, _ => by rw [List.map_nil, envOf_nil_left, envOf_nil_left]
  | k :: L, [], _ => by rw [envOf_nil_right, envOf_nil_right]
  | k :: L, i :: is, h => by
    rw [List.map_cons, envOf_cons, envOf_cons]
    by_cases e : k.1 = v
    · rw [if_pos e, if_pos (show (rp ren k).1 = rf ren v by show rf ren k.1 = rf ren v; rw [e])]
    · rw [if_neg e, if_neg (show ¬ (rp ren k).1 = rf ren v from fun e' => e (h k (by simp) e'))]
      exact envOf_rename ren v L is (fun k' hk' => h k' (by simp [hk']))

/-! ### a tensor with injectively renamed physical axes -/

/-- the tensor with its physical axes renamed -/
def renamePT (ren : List (Nat × Nat)) (T : PT) : PT :=
  { T with paxes := T.paxes.map (rp ren), vaxes := renameList ren T.vaxes }

theorem renamePT_vshape (ren : List (Nat × Nat)) (T : PT) : (renamePT ren T).vshape = T.vshape := by
  unfold renamePT PT.vshape
  simp only [renameList_eq_map, List.map_map]
  apply List.map_congr_left
  intro x _
  exact rename_numel ren x

theorem renamePT_cell (ren : List (Nat × Nat)) (T : PT) (hs : Struct T)
    (hinj : ∀ k ∈ T.paxes, ∀ l ∈ T.paxes, rf ren k.1 = rf ren l.1 → k.1 = l.1) (idx : List Nat) :
    (renamePT ren T).vaxes.map (Axis.eval (envOf (renamePT ren T).paxes idx)) =
      T.vaxes.map (Axis.eval (envOf T.paxes idx)) := by
  unfold renamePT
  simp only [renameList_eq_map, List.map_map]
  apply List.map_congr_left
  intro x hx
  simp only [Function.comp]
  rw [rename_eval]
  apply eval_congr
  intro q hq
  exact envOf_rename ren q.1 T.paxes idx (fun k hk e => hinj k hk q (hs.fvsub x hx q hq) e)

theorem renamePT_dense (ren : List (Nat × Nat)) (T : PT) (hs : Struct T)
    (hinj : ∀ k ∈ T.paxes, ∀ l ∈ T.paxes, rf ren k.1 = rf ren l.1 → k.1 = l.1) :
    (renamePT ren T).dense = T.dense := by
  have hp : (renamePT ren T).paxes.map (·.2) = T.paxes.map (·.2) := by
    unfold renamePT; simp only [List.map_map]; rfl
  unfold PT.dense
  simp only [renamePT_vshape, hp]
  congr 1
  apply C06iL.foldl_congr_mem
  intro arr p _
  rw [renamePT_cell ren T hs hinj p.1]
  rfl

theorem renamePT_struct (ren : List (Nat × Nat)) (T : PT) (hs : Struct T)
    (hinj : ∀ k ∈ T.paxes, ∀ l ∈ T.paxes, rf ren k.1 = rf ren l.1 → k.1 = l.1) : Struct (renamePT ren T) where
  len := by
    show T.physical.length = numel ((T.paxes.map (rp ren)).map (·.2))
    rw [hs.len, List.map_map]; rfl
  nodup := by
    show ((T.paxes.map (rp ren)).map (·.1)).Nodup
    rw [List.map_map]
    have : ((fun x : Nat × Nat => x.1) ∘ rp ren) = (rf ren) ∘ (fun x : Nat × Nat => x.1) := rfl
    rw [this, ← List.map_map]
    refine List.Nodup.map_on ?_ hs.nodup
    intro x hx y hy e
    obtain ⟨k, hk, rfl⟩ := List.mem_map.1 hx
    obtain ⟨l, hl, rfl⟩ := List.mem_map.1 hy
    exact hinj k hk l hl e
  no1 := by
    intro p hp
    obtain ⟨k, hk, rfl⟩ := List.mem_map.1 hp
    exact hs.no1 k hk
  fvsub := by
    intro e he q hq
    have he' : e ∈ renameList ren T.vaxes := he
    rw [renameList_eq_map] at he'
    obtain ⟨x, hx, rfl⟩ := List.mem_map.1 he'
    rw [rename_fv] at hq
    obtain ⟨k, hk, rfl⟩ := List.mem_map.1 hq
    exact List.mem_map_of_mem (hs.fvsub x hx k hk)
  occ := by
    intro p hp
    obtain ⟨k, hk, rfl⟩ := List.mem_map.1 hp
    obtain ⟨x, hx, hkx⟩ := hs.occ k hk
    refine ⟨renameAxis ren x, ?_, ?_⟩
    · show renameAxis ren x ∈ renameList ren T.vaxes
      rw [renameList_eq_map]; exact List.mem_map_of_mem hx
    · rw [rename_fv]; exact List.mem_map_of_mem hkx

end C09dL
