/-
Helper lemmas for Props/C06g.lean, part 2: the meaning of `Axis.index` (`Sh.index`, `Sh.indexList`, `Sh.indexAll`).

`IndexSpec fvs P pi b pi'`: starting from the dict `pi`, the call returned `(b, pi')`, where `fvs` are the physical axes of
the indexed axis (axes) and `P ρ` says that the assignment `ρ` is mapped to the requested virtual index (indices):
* `pi'` extends `pi`, the new entries are in-range indices of physical axes in `fvs`;
* if `b`, every axis of `fvs` is fixed by `pi'`, every assignment agreeing with `pi'` satisfies `P`, and every in-range
  assignment agreeing with `pi` that satisfies `P` agrees with `pi'` (the indices are determined);
* if not `b`, no in-range assignment agreeing with `pi` satisfies `P`.
-/
import FggsModel.ShapeOps
import FggsProofs.Props.C06
import FggsProofs.C06bLemmas
import FggsProofs.C06dBaseLemmas
import Mathlib.Tactic.Linarith
import Mathlib.Data.List.Basic

set_option linter.unusedSimpArgs false
set_option linter.unusedVariables false

namespace C06gL
open Fggs Fggs.Ax Fggs.Un Fggs.Sh C06b C06dL

/-- the assignment `ρ` has the indices fixed by the dict `pi` -/
def Agrees (ρ : Nat → Nat) (pi : Pi) : Prop := ∀ k j, pi.lookup k = some j → ρ k = j

theorem agrees_nil (ρ : Nat → Nat) : Agrees ρ [] := by
  intro k j h; simp at h

structure IndexSpec (fvs : List (Nat × Nat)) (P : (Nat → Nat) → Prop) (pi : Pi) (b : Bool) (pi' : Pi) : Prop where
  ext : ∀ k j, pi.lookup k = some j → pi'.lookup k = some j
  new : ∀ k j, pi'.lookup k = some j → pi.lookup k = none → ∃ n, (k, n) ∈ fvs ∧ j < n
  bnd : b = true → ∀ q ∈ fvs, ∃ j, pi'.lookup q.1 = some j
  tru : b = true → ∀ ρ, Agrees ρ pi' → P ρ
  uniq : b = true → ∀ ρ, (∀ q ∈ fvs, ρ q.1 < q.2) → Agrees ρ pi → P ρ → Agrees ρ pi'
  fls : b = false → ∀ ρ, (∀ q ∈ fvs, ρ q.1 < q.2) → Agrees ρ pi → ¬ P ρ

theorem Agrees.of_ext {ρ : Nat → Nat} {pi pi' : Pi} (h : Agrees ρ pi')
    (hext : ∀ k j, pi.lookup k = some j → pi'.lookup k = some j) : Agrees ρ pi :=
  fun k j hk => h k j (hext k j hk)

/-- change of the description -/
theorem IndexSpec.congr {fvs fvs' : List (Nat × Nat)} {P P' : (Nat → Nat) → Prop} {pi pi' : Pi} {b : Bool}
    (h : IndexSpec fvs P pi b pi') (hf : ∀ q, q ∈ fvs ↔ q ∈ fvs') (hP : ∀ ρ, P ρ ↔ P' ρ) :
    IndexSpec fvs' P' pi b pi' where
  ext := h.ext
  new := fun k j h1 h2 => by
    obtain ⟨n, hn, hj⟩ := h.new k j h1 h2
    exact ⟨n, (hf _).1 hn, hj⟩
  bnd := fun hb q hq => h.bnd hb q ((hf q).2 hq)
  tru := fun hb ρ hρ => (hP ρ).1 (h.tru hb ρ hρ)
  uniq := fun hb ρ hr ha hp => h.uniq hb ρ (fun q hq => hr q ((hf q).1 hq)) ha ((hP ρ).2 hp)
  fls := fun hb ρ hr ha hp => h.fls hb ρ (fun q hq => hr q ((hf q).1 hq)) ha ((hP ρ).2 hp)

/-- the first part of a sequence is unoccupied: the loop ends -/
theorem IndexSpec.early {fvs1 fvs : List (Nat × Nat)} {P1 P : (Nat → Nat) → Prop} {pi pi1 : Pi}
    (h1 : IndexSpec fvs1 P1 pi false pi1) (hf : ∀ q, q ∈ fvs1 → q ∈ fvs)
    (hP : ∀ ρ, (∀ q ∈ fvs, ρ q.1 < q.2) → P ρ → P1 ρ) : IndexSpec fvs P pi false pi1 where
  ext := h1.ext
  new := fun k j h2 h3 => by
    obtain ⟨n, hn, hj⟩ := h1.new k j h2 h3
    exact ⟨n, hf _ hn, hj⟩
  bnd := fun hb => by cases hb
  tru := fun hb => by cases hb
  uniq := fun hb => by cases hb
  fls := fun _ ρ hr ha hp => h1.fls rfl ρ (fun q hq => hr q (hf q hq)) ha (hP ρ hr hp)

/-- two parts one after the other -/
theorem IndexSpec.seq {fvs1 fvs2 fvs : List (Nat × Nat)} {P1 P2 P : (Nat → Nat) → Prop} {pi pi1 pi2 : Pi} {b : Bool}
    (h1 : IndexSpec fvs1 P1 pi true pi1) (h2 : IndexSpec fvs2 P2 pi1 b pi2)
    (hf : ∀ q, q ∈ fvs ↔ q ∈ fvs1 ∨ q ∈ fvs2)
    (hP : ∀ ρ, P1 ρ → P2 ρ → P ρ)
    (hP' : ∀ ρ, (∀ q ∈ fvs, ρ q.1 < q.2) → P ρ → P1 ρ ∧ P2 ρ) : IndexSpec fvs P pi b pi2 where
  ext := fun k j hk => h2.ext k j (h1.ext k j hk)
  new := fun k j hk hn => by
    cases h : pi1.lookup k with
    | none =>
      obtain ⟨n, hn', hj⟩ := h2.new k j hk h
      exact ⟨n, (hf _).2 (.inr hn'), hj⟩
    | some j' =>
      have := h2.ext k j' h
      rw [hk] at this
      cases this
      obtain ⟨n, hn', hj⟩ := h1.new k j h hn
      exact ⟨n, (hf _).2 (.inl hn'), hj⟩
  bnd := fun hb q hq => by
    rcases (hf q).1 hq with hq | hq
    · obtain ⟨j, hj⟩ := h1.bnd rfl q hq
      exact ⟨j, h2.ext _ _ hj⟩
    · exact h2.bnd hb q hq
  tru := fun hb ρ hρ => hP ρ (h1.tru rfl ρ (hρ.of_ext h2.ext)) (h2.tru hb ρ hρ)
  uniq := fun hb ρ hr ha hp => by
    obtain ⟨p1, p2⟩ := hP' ρ hr hp
    have a1 := h1.uniq rfl ρ (fun q hq => hr q ((hf q).2 (.inl hq))) ha p1
    exact h2.uniq hb ρ (fun q hq => hr q ((hf q).2 (.inr hq))) a1 p2
  fls := fun hb ρ hr ha hp => by
    obtain ⟨p1, p2⟩ := hP' ρ hr hp
    have a1 := h1.uniq rfl ρ (fun q hq => hr q ((hf q).2 (.inl hq))) ha p1
    exact h2.fls hb ρ (fun q hq => hr q ((hf q).2 (.inr hq))) a1 p2

/-- nothing to index -/
theorem IndexSpec.triv {P : (Nat → Nat) → Prop} (pi : Pi) (hP : ∀ ρ, P ρ) : IndexSpec [] P pi true pi where
  ext := fun _ _ h => h
  new := fun k j h1 h2 => by rw [h1] at h2; cases h2
  bnd := fun _ q hq => by cases hq
  tru := fun _ ρ _ => hP ρ
  uniq := fun _ ρ _ ha _ => ha
  fls := fun hb => by cases hb

/-- unoccupied whatever the dict -/
theorem IndexSpec.empty {fvs : List (Nat × Nat)} {P : (Nat → Nat) → Prop} (pi : Pi)
    (hP : ∀ ρ, (∀ q ∈ fvs, ρ q.1 < q.2) → ¬ P ρ) : IndexSpec fvs P pi false pi where
  ext := fun _ _ h => h
  new := fun k j h1 h2 => by rw [h1] at h2; cases h2
  bnd := fun hb => by cases hb
  tru := fun hb => by cases hb
  uniq := fun hb => by cases hb
  fls := fun _ ρ hr _ hp => hP ρ hr hp

theorem lookup_snoc_none {pi : Pi} {v i k : Nat} (h : pi.lookup k = none) :
    (pi ++ [(v, i)]).lookup k = if k = v then some i else none := by
  rw [List.lookup_append, h]
  simp only [Option.none_or, List.lookup_cons, List.lookup_nil]
  by_cases e : k = v
  · simp [e]
  · have : (k == v) = false := by simpa using e
    simp [this, e]

theorem lookup_snoc_some {pi : Pi} {v i k j : Nat} (h : pi.lookup k = some j) :
    (pi ++ [(v, i)]).lookup k = some j := by
  rw [List.lookup_append, h]; rfl

theorem index_phys_spec (v n : Nat) (pi : Pi) (i : Nat) (b : Bool) (pi' : Pi)
    (h : index (.phys v n) pi i = some (b, pi')) :
    IndexSpec [(v, n)] (fun ρ => ρ v = i) pi b pi' := by
  rw [index] at h
  by_cases hi : i ≥ n
  · rw [if_pos hi] at h; cases h
  · rw [if_neg hi] at h
    cases hl : pi.lookup v with
    | some j =>
      simp only [hl, Option.some.injEq, Prod.mk.injEq] at h
      obtain ⟨rfl, rfl⟩ := h
      refine ⟨fun _ _ h => h, fun k j' h1 h2 => (by rw [h1] at h2; cases h2), ?_, ?_, fun _ ρ _ ha _ => ha, ?_⟩
      · intro _ q hq
        simp only [List.mem_singleton] at hq
        subst hq
        exact ⟨j, hl⟩
      · intro hb ρ hρ
        have : j = i := by simpa using hb
        rw [← this]
        exact hρ v j hl
      · intro hb ρ _ hρ hp
        have : ¬ j = i := by simpa using hb
        exact this ((hρ v j hl).symm.trans hp)
    | none =>
      simp only [hl, Option.some.injEq, Prod.mk.injEq] at h
      obtain ⟨rfl, rfl⟩ := h
      refine ⟨fun k j hk => lookup_snoc_some hk, ?_, ?_, ?_, ?_, fun hb => (by cases hb)⟩
      · intro k j hk hn
        rw [lookup_snoc_none hn] at hk
        by_cases e : k = v
        · rw [if_pos e] at hk
          cases hk
          subst e
          exact ⟨n, List.mem_singleton.2 rfl, by omega⟩
        · rw [if_neg e] at hk; cases hk
      · intro _ q hq
        simp only [List.mem_singleton] at hq
        subst hq
        exact ⟨i, by rw [lookup_snoc_none hl, if_pos rfl]⟩
      · intro _ ρ hρ
        exact hρ v i (by rw [lookup_snoc_none hl, if_pos rfl])
      · intro _ ρ _ hρ hp k j hk
        cases hk' : pi.lookup k with
        | some j' =>
          rw [lookup_snoc_some hk'] at hk
          have : j' = j := by simpa using hk
          subst this
          exact hρ k j' hk'
        | none =>
          rw [lookup_snoc_none hk'] at hk
          by_cases e : k = v
          · rw [if_pos e] at hk
            cases hk
            rw [e]; exact hp
          · rw [if_neg e] at hk; cases hk

theorem mul_add_digits {x y n i : Nat} (hn : 0 < n) (hy : y < n) (h : x * n + y = i) : y = i % n ∧ x = i / n := by
  subst h
  constructor
  · rw [Nat.mul_comm, Nat.mul_add_mod, Nat.mod_eq_of_lt hy]
  · rw [Nat.mul_comm, Nat.mul_add_div hn, Nat.div_eq_of_lt hy]; simp

mutual
theorem index_spec : ∀ (e : Axis) (pi : Pi) (i : Nat) (b : Bool) (pi' : Pi), index e pi i = some (b, pi') →
    IndexSpec e.fv (fun ρ => e.eval ρ = i) pi b pi'
  | .phys v n, pi, i, b, pi', h => by
    have := index_phys_spec v n pi i b pi' h
    exact this.congr (fun q => by simp [Axis.fv]) (fun ρ => by simp [Axis.eval])
  | .prod fs, pi, i, b, pi', h => by
    rw [index] at h
    exact (indexList_spec fs pi i b pi' h).congr (fun q => by simp [Axis.fv]) (fun ρ => by simp [Axis.eval])
  | .sum bf t a, pi, i, b, pi', h => by
    rw [index] at h
    by_cases h1 : i ≥ bf + t.numel + a
    · rw [if_pos h1] at h; cases h
    · rw [if_neg h1] at h
      by_cases h2 : (decide (i < bf) || decide (i - bf ≥ t.numel)) = true
      · rw [if_pos h2] at h
        simp only [Option.some.injEq, Prod.mk.injEq] at h
        obtain ⟨rfl, rfl⟩ := h
        apply IndexSpec.empty
        intro ρ hr hp
        have hlt := C06.eval_lt_numel t ρ (fun q hq => hr q (by simpa [Axis.fv] using hq))
        simp only [Axis.eval] at hp
        simp only [Bool.or_eq_true, decide_eq_true_eq] at h2
        omega
      · rw [if_neg h2] at h
        simp only [Bool.or_eq_true, decide_eq_true_eq, not_or, not_lt, not_le] at h2
        refine (index_spec t pi (i - bf) b pi' h).congr (fun q => by simp [Axis.fv]) (fun ρ => ?_)
        simp only [Axis.eval]
        omega
theorem indexList_spec : ∀ (fs : List Axis) (pi : Pi) (i : Nat) (b : Bool) (pi' : Pi),
    indexList fs pi i = some (b, pi') → IndexSpec (fvList fs) (fun ρ => evalList ρ fs 0 = i) pi b pi'
  | [], pi, i, b, pi', h => by
    rw [indexList] at h
    by_cases hi : (i != 0) = true
    · rw [if_pos hi] at h; cases h
    · rw [if_neg hi] at h
      simp only [Option.some.injEq, Prod.mk.injEq] at h
      obtain ⟨rfl, rfl⟩ := h
      have hi0 : i = 0 := by simpa using hi
      exact (IndexSpec.triv pi (P := fun ρ => evalList ρ [] 0 = i) (fun ρ => by simp [evalList, hi0])).congr
        (fun q => by simp [fvList]) (fun ρ => Iff.rfl)
  | f :: fs, pi, i, b, pi', h => by
    rw [indexList] at h
    by_cases hn : (numelList fs == 0) = true
    · rw [if_pos hn] at h; cases h
    · rw [if_neg hn] at h
      have hn0 : 0 < numelList fs := by
        have : ¬ numelList fs = 0 := by simpa using hn
        omega
      have hdig : ∀ ρ, (∀ q ∈ fvList (f :: fs), ρ q.1 < q.2) → evalList ρ (f :: fs) 0 = i →
          evalList ρ fs 0 = i % numelList fs ∧ f.eval ρ = i / numelList fs := by
        intro ρ hr hp
        rw [evalList_cons_zero] at hp
        have hlt := evalList_lt ρ fs (fun q hq => hr q (by simp [fvList, hq]))
        exact mul_add_digits hn0 hlt hp
      cases hr : indexList fs pi (i % numelList fs) with
      | none => rw [hr] at h; cases h
      | some r =>
        obtain ⟨b1, pi1⟩ := r
        have s1 := indexList_spec fs pi (i % numelList fs) b1 pi1 hr
        rw [hr] at h
        cases b1 with
        | false =>
          simp only [Option.some.injEq, Prod.mk.injEq] at h
          obtain ⟨rfl, rfl⟩ := h
          exact s1.early (fun q hq => by simp [fvList, hq]) (fun ρ hr hp => (hdig ρ hr hp).1)
        | true =>
          simp only at h
          have s2 := index_spec f pi1 (i / numelList fs) b pi' h
          refine s1.seq s2 (fun q => by simp [fvList, or_comm]) ?_ (fun ρ hr hp => hdig ρ hr hp)
          intro ρ p1 p2
          show evalList ρ (f :: fs) 0 = i
          rw [evalList_cons_zero, p1, p2]
          exact Nat.div_add_mod' i (numelList fs)
end

mutual
/-- an in-range index never raises -/
theorem index_some : ∀ (e : Axis) (pi : Pi) (i : Nat), i < e.numel → ∃ r, index e pi i = some r
  | .phys v n, pi, i, h => by
    rw [index, if_neg (by simpa [Axis.numel] using h)]
    cases pi.lookup v <;> exact ⟨_, rfl⟩
  | .prod fs, pi, i, h => by
    rw [index]
    exact indexList_some fs pi i (by simpa [Axis.numel] using h)
  | .sum bf t a, pi, i, h => by
    rw [index, if_neg (by simpa [Axis.numel] using h)]
    by_cases h2 : (decide (i < bf) || decide (i - bf ≥ t.numel)) = true
    · rw [if_pos h2]; exact ⟨_, rfl⟩
    · rw [if_neg h2]
      simp only [Bool.or_eq_true, decide_eq_true_eq, not_or, not_lt, not_le] at h2
      exact index_some t pi (i - bf) (by omega)
theorem indexList_some : ∀ (fs : List Axis) (pi : Pi) (i : Nat), i < numelList fs → ∃ r, indexList fs pi i = some r
  | [], pi, i, h => by
    rw [indexList]
    have : i = 0 := by simpa [numelList] using h
    subst this
    exact ⟨_, rfl⟩
  | f :: fs, pi, i, h => by
    rw [indexList]
    rw [numelList] at h
    have hn0 : 0 < numelList fs := by
      rcases Nat.eq_zero_or_pos (numelList fs) with e | e
      · rw [e] at h; omega
      · exact e
    have hn : ¬ (numelList fs == 0) = true := by simp; omega
    rw [if_neg hn]
    obtain ⟨⟨b1, pi1⟩, hr⟩ := indexList_some fs pi (i % numelList fs) (Nat.mod_lt _ hn0)
    rw [hr]
    cases b1 with
    | false => exact ⟨_, rfl⟩
    | true =>
      simp only
      apply index_some f pi1
      rw [Nat.div_lt_iff_lt_mul hn0]
      exact h
end

mutual
/-- an index out of range raises, unless an unoccupied factor ends the loop of a product first -/
theorem index_oor : ∀ (e : Axis) (pi : Pi) (i : Nat), e.numel ≤ i →
    index e pi i = none ∨ ∃ pi', index e pi i = some (false, pi')
  | .phys v n, pi, i, h => by
    rw [index, if_pos (by simpa [Axis.numel] using h)]; exact .inl rfl
  | .prod fs, pi, i, h => by
    rw [index]
    exact indexList_oor fs pi i (by simpa [Axis.numel] using h)
  | .sum bf t a, pi, i, h => by
    rw [index, if_pos (by simpa [Axis.numel] using h)]; exact .inl rfl
theorem indexList_oor : ∀ (fs : List Axis) (pi : Pi) (i : Nat), numelList fs ≤ i →
    indexList fs pi i = none ∨ ∃ pi', indexList fs pi i = some (false, pi')
  | [], pi, i, h => by
    rw [indexList]
    have : (i != 0) = true := by simp [numelList] at h ⊢; omega
    rw [if_pos this]; exact .inl rfl
  | f :: fs, pi, i, h => by
    rw [indexList]
    by_cases hn : (numelList fs == 0) = true
    · rw [if_pos hn]; exact .inl rfl
    · rw [if_neg hn]
      have hn0 : 0 < numelList fs := by
        have : ¬ numelList fs = 0 := by simpa using hn
        omega
      cases hr : indexList fs pi (i % numelList fs) with
      | none => exact .inl rfl
      | some r =>
        obtain ⟨b1, pi1⟩ := r
        cases b1 with
        | false => exact .inr ⟨pi1, rfl⟩
        | true =>
          simp only
          apply index_oor f pi1
          rw [numelList] at h
          exact (Nat.le_div_iff_mul_le hn0).2 h
end

/-! ### the loop over the dimensions -/

/-- the physical axes of the indexed dimensions -/
def fvAll (ps : List (Axis × Nat)) : List (Nat × Nat) := ps.flatMap (fun p => p.1.fv)

theorem indexAll_spec : ∀ (ps : List (Axis × Nat)) (pi : Pi) (b : Bool) (pi' : Pi), indexAll ps pi = some (b, pi') →
    IndexSpec (fvAll ps) (fun ρ => ps.map (fun p => p.1.eval ρ) = ps.map (·.2)) pi b pi'
  | [], pi, b, pi', h => by
    rw [indexAll] at h
    simp only [Option.some.injEq, Prod.mk.injEq] at h
    obtain ⟨rfl, rfl⟩ := h
    exact IndexSpec.triv pi (fun ρ => rfl)
  | (e, i) :: rest, pi, b, pi', h => by
    rw [indexAll] at h
    cases hr : index e pi i with
    | none => rw [hr] at h; cases h
    | some r =>
      obtain ⟨b1, pi1⟩ := r
      have s1 := index_spec e pi i b1 pi1 hr
      rw [hr] at h
      cases b1 with
      | false =>
        simp only [Option.some.injEq, Prod.mk.injEq] at h
        obtain ⟨rfl, rfl⟩ := h
        refine s1.early (fun q hq => by simp [fvAll, hq]) (fun ρ _ hp => ?_)
        simp only [List.map_cons, List.cons.injEq] at hp
        exact hp.1
      | true =>
        simp only at h
        have s2 := indexAll_spec rest pi1 b pi' h
        refine s1.seq s2 (fun q => by simp [fvAll]) ?_ ?_
        · intro ρ p1 p2
          simp only [List.map_cons, List.cons.injEq]
          exact ⟨p1, p2⟩
        · intro ρ _ hp
          simp only [List.map_cons, List.cons.injEq] at hp
          exact hp

theorem indexAll_some : ∀ (ps : List (Axis × Nat)) (pi : Pi), (∀ p ∈ ps, p.2 < p.1.numel) →
    ∃ r, indexAll ps pi = some r
  | [], pi, _ => ⟨_, rfl⟩
  | (e, i) :: rest, pi, h => by
    rw [indexAll]
    obtain ⟨⟨b1, pi1⟩, hr⟩ := index_some e pi i (h (e, i) (by simp))
    rw [hr]
    cases b1 with
    | false => exact ⟨_, rfl⟩
    | true => exact indexAll_some rest pi1 (fun p hp => h p (by simp [hp]))

/-- an index out of range after in-range ones: IndexError, or the result is `full(default)` -/
theorem indexAll_oor : ∀ (ps : List (Axis × Nat)) (pi : Pi) (k : Nat) (hk : k < ps.length),
    (∀ j (hj : j < k), (ps[j]'(by omega)).2 < (ps[j]'(by omega)).1.numel) → (ps[k]).1.numel ≤ (ps[k]).2 →
    indexAll ps pi = none ∨ ∃ pi', indexAll ps pi = some (false, pi')
  | [], _, _, hk, _, _ => by simp at hk
  | (e, i) :: rest, pi, 0, _, _, ho => by
    rw [indexAll]
    rcases index_oor e pi i (by simpa using ho) with h | ⟨pi', h⟩
    · rw [h]; exact .inl rfl
    · rw [h]; exact .inr ⟨pi', rfl⟩
  | (e, i) :: rest, pi, k+1, hk, hb, ho => by
    rw [indexAll]
    obtain ⟨⟨b1, pi1⟩, hr⟩ := index_some e pi i (by simpa using hb 0 (by omega))
    rw [hr]
    cases b1 with
    | false => exact .inr ⟨pi1, rfl⟩
    | true =>
      simp only
      refine indexAll_oor rest pi1 k (by simpa using hk) (fun j hj => ?_) (by simpa using ho)
      have := hb (j+1) (by omega)
      simpa using this

end C06gL
